(* C05 — the on-disk R-tree finds exactly what a linear scan finds.
   Only statements, closed by [exact], with Print Assumptions beneath each. *)
From BT Require Import Base.Util Model.RTree Proofs.RTreeAbs Proofs.RTreeBuild.
Local Open Scope N_scope.

(* Search on any tree whose recorded spans cover what lies beneath them returns exactly the
   overlapping sections, in order. *)
Theorem C05_search_tree_eq_scan : forall q qs qe t, covered t ->
  search_tree q qs qe t = filter (fun s => overlaps q qs qe (sect_span s)) (leaves t).
Proof. exact search_tree_eq_scan. Qed.
Print Assumptions C05_search_tree_eq_scan.

(* For every fan-out b >= 2 and every non-empty start-sorted section list, building the index
   terminates (never Fuel, never Panic), the tree's leaves are the sections in file order, all
   recorded spans cover, and the root span (the index header's bounds) contains every section. *)
Theorem C05_build_ok : forall b secs, (2 <= b)%nat -> secs <> [] -> sorted_starts (map sect_span secs) ->
  exists t lv, build b secs = Ok (t, lv) /\ covered t /\ leaves t = secs
               /\ Forall (fun s => inside (sect_span s) (span_of t)) secs.
Proof. exact build_ok. Qed.
Print Assumptions C05_build_ok.

(* Hence: the search of the built tree equals the linear scan, for every query. *)
Theorem C05_search_built_eq_scan : forall b secs, (2 <= b)%nat -> secs <> [] -> sorted_starts (map sect_span secs) ->
  exists t lv, build b secs = Ok (t, lv) /\
    forall q qs qe, map (fun s => (s_off s, s_size s)) (search_tree q qs qe t) = scan secs q qs qe.
Proof.
  intros b secs Hb Hne Hs. destruct (build_ok b secs Hb Hne Hs) as [t [lv [Hbuild [Hc [Hl _]]]]].
  exists t, lv. split; [exact Hbuild|]. intros q qs qe. rewrite search_tree_eq_scan by exact Hc.
  rewrite Hl. reflexivity.
Qed.
Print Assumptions C05_search_built_eq_scan.

(* The empty section list yields the empty index (after the repair; it had no measure before). *)
Theorem C05_build_empty : forall b, (0 < b)%nat -> build b [] = Ok (Leaf [], 0%nat).
Proof. exact build_empty. Qed.
Print Assumptions C05_build_empty.

(* Non-vacuity: a concrete three-level instance meets the hypotheses. *)
Definition ex_secs : list sect :=
  map (fun i => {| s_chrom := N.of_nat (i / 4); s_start := N.of_nat (10 * (i mod 4)); s_end := N.of_nat (10 * (i mod 4) + 7);
                   s_off := N.of_nat (100 + i); s_size := 1 |}) (seq 0 9).
Example C05_example_hyps : (2 <= 2)%nat /\ ex_secs <> [] /\ sorted_starts (map sect_span ex_secs)
  /\ exists t, build 2 ex_secs = Ok (t, 3%nat).
Proof.
  split; [lia|]. split; [discriminate|]. split.
  - unfold ex_secs. cbn. repeat (constructor; [|repeat constructor; unfold start_le, ple; cbn; lia]). constructor.
  - eexists. vm_compute. reflexivity.
Qed.

(* ------------------------------------------------------------------------------------------
   Second half: the BYTES the writer lays out, read back by the reader's pointer-chasing,
   deque-driven search (Proofs/RTreeCodec, RTreeSearch, RTreeShape, RTreeLayout). *)
From BT Require Import Base.LE Proofs.RTreeCodec Proofs.RTreeSearch Proofs.RTreeShape Proofs.RTreeLayout.

(* Fixed-width little-endian codec round trip, any width. *)
Theorem C05_dec_enc_le : forall w x, x < 256 ^ N.of_nat w -> dec_le (enc_le w x) = x.
Proof. exact dec_enc_le. Qed.
Print Assumptions C05_dec_enc_le.

(* read_node on an image holding a leaf's bytes at [off] returns that leaf's items
   (sect_ok: chrom/start/end < 2^32, offset/size < 2^64; the count fits u16). *)
Theorem C05_read_leaf : forall img off l, has_at img off (leaf_bytes l) -> Nlen l < U16 -> Forall sect_ok l ->
  read_node false img off = Ok (PLeaf (map li_of l)).
Proof. exact read_leaf. Qed.
Print Assumptions C05_read_leaf.

(* ... and on a non-leaf node's bytes returns its (span, child pointer) items. *)
Theorem C05_read_inner : forall img off items, has_at img off (inner_bytes items) -> Nlen items < U16 ->
  Forall (fun it => span_ok (fst it) /\ snd it < U64) items ->
  read_node false img off = Ok (PInner items).
Proof. exact read_inner. Qed.
Print Assumptions C05_read_inner.

(* Reader: if the image represents a tree at [root] (reading there gives the tree's items and each
   child pointer leads to an offset representing the corresponding child), the deque-driven search
   returns exactly the abstract search's blocks, in order, for every fuel above the node count. *)
Theorem C05_search_represented : forall img q qs qe h t root, rep h img root t ->
  forall fuel, (tsize t < fuel)%nat ->
    search_bytes fuel false img root q qs qe = Ok (blocks_of (search_tree q qs qe t)).
Proof. exact search_bytes_rep. Qed.
Print Assumptions C05_search_represented.

(* itertools' chunks(b): every chunk but the last has exactly b elements. *)
Theorem C05_chunks_all_but_last_full : forall (b : nat) (l : list sect), (0 < b)%nat ->
  abl (fun c => length c = b) (chunks b l).
Proof. exact (@chunks_abl sect). Qed.
Print Assumptions C05_chunks_all_but_last_full.

(* Shape of built trees: uniform height = levels, and on every level every node but the LAST is
   full (occupies exactly the full-node size), no node has more than b entries, and every recorded
   field is in range.  This is what write_tree's child-pointer formula relies on silently. *)
Theorem C05_built_shape : forall b secs t lv, (0 < b)%nat -> secs <> [] -> Forall sect_ok secs ->
  build b secs = Ok (t, lv) ->
  height lv t /\ forall d, (d <= lv)%nat ->
    abl (fun n => nsize n = nfull (N.of_nat b) d) (level_nodes lv d t) /\ Forall (node_ok b) (level_nodes lv d t).
Proof.
  intros b secs t lv Hb Hne Hok Hbuild. apply shaped_single. exact (build_shaped b secs t lv Hb Hne Hok Hbuild).
Qed.
Print Assumptions C05_built_shape.

(* Layout consistency: the index bytes of a built tree, placed at file position pos inside any
   larger image, represent that tree at pos+48 — every child pointer written
   (childnode_offset + idx * full_size) is the offset at which that child was written — provided
   the index ends below 2^64 (so that the 8-byte pointers do not wrap). *)
Theorem C05_layout_represents : forall (b ips pos : N) (secs : list sect) t levels,
  0 < b < U16 -> secs <> [] -> Forall sect_ok secs ->
  build (N.to_nat b) secs = Ok (t, levels) ->
  exists bs, rtree_bytes b ips pos t levels (Nlen secs) = Ok bs
    /\ 48 + 4 * N.of_nat (tsize t) <= Nlen bs
    /\ (pos + Nlen bs <= U64 -> forall pre post, Nlen pre = pos ->
          rep levels (pre ++ bs ++ post) (pos + 48) t).
Proof. exact layout_represents. Qed.
Print Assumptions C05_layout_represents.

(* The full statement: for every fan-out 2 <= b <= 65535 (the count field is a u16), every
   non-empty start-sorted section list with fields in range, writing the index at any position pos
   succeeds, and — if the index ends below 2^64 — searching those bytes from the root offset pos+48,
   whatever bytes precede and follow the index, returns exactly the linear scan's blocks in file
   order, for every query and every fuel >= the index's length in bytes (never Fuel, Err or Panic). *)
Theorem C05_search_bytes_eq_scan : forall (b ips pos : N) (secs : list sect),
  2 <= b <= 65535 -> secs <> [] -> sorted_starts (map sect_span secs) -> Forall sect_ok secs ->
  exists bs levels, write_index b ips pos secs = Ok (bs, levels)
    /\ (pos + Nlen bs <= U64 ->
        forall pre post q qs qe fuel, Nlen pre = pos -> (length bs <= fuel)%nat ->
          search_bytes fuel false (pre ++ bs ++ post) (pos + 48) q qs qe = Ok (scan secs q qs qe)).
Proof. exact search_bytes_eq_scan. Qed.
Print Assumptions C05_search_bytes_eq_scan.

(* Non-vacuity: the three-level instance above meets the additional hypotheses, with the index
   at position 64. *)
Example C05_bytes_example_hyps : 2 <= 2 <= 65535 /\ Forall sect_ok ex_secs
  /\ exists bs, write_index 2 1 64 ex_secs = Ok (bs, 3%nat) /\ 64 + Nlen bs <= U64 /\ Nlen bs = 620.
Proof.
  split; [lia|]. split.
  - apply Forall_forall. intros s Hs. vm_compute in Hs.
    repeat (destruct Hs as [<-|Hs]; [vm_compute; repeat split; reflexivity|]). destruct Hs.
  - eexists. split; [vm_compute; reflexivity|]. split; vm_compute; [discriminate|reflexivity].
Qed.
(* ... and the reader, run on those bytes between junk, returns the scan (computed, not derived). *)
Example C05_bytes_example_run :
  match write_index 2 1 64 ex_secs with
  | Ok (bs, _) =>
      search_bytes (length bs) false (repeatN 7 64 ++ bs ++ [9; 9; 9]) (64 + 48) 1 5 25 = Ok (scan ex_secs 1 5 25)
      /\ scan ex_secs 1 5 25 = [(104, 1); (105, 1); (106, 1)]
  | _ => False
  end.
Proof. vm_compute. split; reflexivity. Qed.

(* ------------------------------------------------------------------------------------------
   Consequences for callers that narrow or widen a range (Proofs/RTreeMono). *)
From BT Require Import Proofs.RTreeMono.

(* On the bytes the writer lays out, widening a query on the same chromosome (start no later,
   end no earlier) never loses a block: every block the reader's search returns for the narrow
   query is returned for the wide one; both searches succeed. *)
Theorem C05_search_bytes_widen : forall (b ips pos : N) (secs : list sect),
  2 <= b <= 65535 -> secs <> [] -> sorted_starts (map sect_span secs) -> Forall sect_ok secs ->
  exists bs levels, write_index b ips pos secs = Ok (bs, levels)
    /\ (pos + Nlen bs <= U64 ->
        forall pre post q qs qe qs' qe' fuel, Nlen pre = pos -> (length bs <= fuel)%nat ->
          qs' <= qs -> qe <= qe' ->
          exists r r', search_bytes fuel false (pre ++ bs ++ post) (pos + 48) q qs qe = Ok r
            /\ search_bytes fuel false (pre ++ bs ++ post) (pos + 48) q qs' qe' = Ok r'
            /\ incl r r').
Proof. exact search_bytes_widen. Qed.
Print Assumptions C05_search_bytes_widen.

(* ... and the sections selected by the narrow query are those selected by the wide query,
   filtered again by the narrow one: same relative (file) order, nothing duplicated. *)
Theorem C05_scan_widen_refilter : forall secs q qs qe qs' qe', qs' <= qs -> qe <= qe' ->
  filter (fun s => overlaps q qs qe (sect_span s)) secs =
  filter (fun s => overlaps q qs qe (sect_span s)) (filter (fun s => overlaps q qs' qe' (sect_span s)) secs).
Proof. exact scan_widen_filter. Qed.
Print Assumptions C05_scan_widen_refilter.

(* Non-vacuity: on the three-level instance, [5,25) on chromosome 1 inside [0,40). *)
Example C05_widen_example : scan ex_secs 1 5 25 = [(104, 1); (105, 1); (106, 1)]
  /\ scan ex_secs 1 0 40 = [(104, 1); (105, 1); (106, 1); (107, 1)].
Proof. vm_compute. split; reflexivity. Qed.
