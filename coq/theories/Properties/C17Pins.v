From Coq Require Import QArith.
From BT Require Import Base.Util Base.Float Model.RTree Model.BBIFile Model.BigWigWrite Model.BBIRead
  Model.BedStats Proofs.Chunks Proofs.BigWigQuery Proofs.BedStatsThms Proofs.BedStatsFloat Proofs.BedStatsRows Proofs.BedStatsNames Proofs.BedStatsValues Proofs.BedStatsPerBase.
From BT Require Properties.C17.
Local Open Scope N_scope.
Check (C17.C17_stats : forall fp len ips s e vals, (0 < ips)%nat -> wf_vals len vals -> s <= e ->
  let cl := clip_filter s e vals in
  exists st,
    stats_of fp s e (flat_map (clip_filter s e) (filter (chunk_hit s e) (chunks ips vals))) = Ok st /\
    st_size st = e - s /\ st_bases st = bases_of cl /\ st_sum st = sum_of fp cl /\
    st_mean0 st = fdiv64 fp (sum_of fp cl) (f_of_N (e - s)) /\
    (bases_of cl = 0 -> st_mean st = FNaN /\ st_min st = FNaN /\ st_max st = FNaN) /\
    (bases_of cl <> 0 ->
       st_mean st = fdiv64 fp (sum_of fp cl) (f_of_N (bases_of cl)) /\
       st_min st = fold_left fmin (map v_val cl) f64_max /\
       st_max st = fold_left fmax (map v_val cl) f64_min)).
Check (C17.C17_sum_exact : forall cl, all_finite cl ->
  is_fin (sum_of exact cl) = true /\ (fl_Q (sum_of exact cl) == sumQ cl)%Q).
Check (C17.C17_minmax : forall cl, all_finite cl ->
  let mn := fold_left fmin (map v_val cl) f64_max in
  let mx := fold_left fmax (map v_val cl) f64_min in
  (forall v, In v cl -> fle mn (v_val v) /\ fle (v_val v) mx) /\
  (mn = f64_max \/ In mn (map v_val cl)) /\ (mx = f64_min \/ In mx (map v_val cl))).
Check (C17.C17_rows_in_order : forall fp q m minmax bed rs,
  Forall2 (fun l r => line_result fp q m l = Ok r) (file_lines bed) rs ->
  avg_serial fp q m minmax bed = Ok (concat (map (fun r => fmt_row minmax (fst r) (snd r)) rs)) /\
  lib_iter fp q m (file_lines bed) = Ok (map (fun r => IOk (fst r) (snd r)) rs)).
Check (C17.C17_chunked_eq_serial : forall fp q m minmax chunks out, cuts_at_lines chunks ->
  avg_serial fp q m minmax (concat chunks) = Ok out -> avg_parallel fp q m minmax chunks = Ok out).
Check (C17.C17_chunking_irrelevant : forall fp q m minmax chunks, cuts_at_lines chunks ->
  avg_parallel fp q m minmax chunks = avg_chunk fp q m minmax (concat chunks)).
Check (C17.C17_name : forall chrom s e extra,
  no_tab chrom -> Forall no_tab extra -> s < 2 ^ 32 -> e < 2 ^ 32 ->
  let fields := chrom :: dec s :: dec e :: extra in
  let line := join TAB fields in
  let en := {| be_start := s; be_end := e; be_rest := join TAB extra |} in
  trim_end line = line ->
  parse_bed line = Ok (chrom, en) /\
  (forall n f, nth_error fields n = Some f -> name_for_bed_item (NColumn n) chrom en = Ok f) /\
  name_for_bed_item NInterval chrom en = Ok (chrom ++ [58] ++ dec s ++ [45] ++ dec e) /\
  name_for_bed_item NNone chrom en = Ok (match extra with [] => line ++ [TAB] | _ => line end)).
Check (C17.C17_values_over_bed : forall len s e vals, wf_vals len vals -> s <= e ->
  existsb (out_of_region s e) (clip_filter s e vals) = false /\
  length (vob_fill s e (clip_filter s e vals)) = N.to_nat (e - s) /\
  forall i, (i < N.to_nat (e - s))%nat ->
    nth_error (vob_fill s e (clip_filter s e vals)) i =
    Some (match find (covers (s + N.of_nat i)) vals with Some v => v_bits v | None => 0 end)).
Check (C17.C17_values_over_bed_last : forall s e vals, s <= e ->
  existsb (out_of_region s e) (clip_filter s e vals) = false /\
  length (vob_fill s e (clip_filter s e vals)) = N.to_nat (e - s) /\
  forall i, (i < N.to_nat (e - s))%nat ->
    nth_error (vob_fill s e (clip_filter s e vals)) i =
    Some (match find (covers (s + N.of_nat i)) (rev vals) with Some v => v_bits v | None => 0 end)).
Check (C17.C17_stats_per_base : forall len s e vals, wf_vals len vals -> s <= e -> all_finite (clip_filter s e vals) ->
  bases_of (clip_filter s e vals) = N.of_nat (covered_count vals s e) /\
  (fl_Q (sum_of exact (clip_filter s e vals)) == sum_over (base_val vals) (region_bases s e))%Q).
Check (C17.C17_values_rows_in_order : forall q withnames bed rows,
  values_over_bed q withnames bed = Ok rows <->
  Forall2 (fun l r => vob_line q withnames (unique_names withnames bed) l = Ok r) (file_lines bed) rows).

(* ---- IEEE = exact on a checkable domain (appended; the grid definitions are pinned in C06Pins.v) ---- *)
From BT Require Proofs.FloatExact Proofs.FloatExactStats Proofs.C06FileFloat.
Check (C17.C17_sum_ieee_on_grid : forall E G cl, FloatExact.grid_ok_sum E G -> Forall (FloatExact.vgrid E G) cl ->
  (FloatExact.gabs E G cl < FloatExact.P53)%Z ->
  is_fin (sum_of ieee cl) = true /\ (fl_Q (sum_of ieee cl) == sumQ cl)%Q /\
  C06FileFloat.same_num (sum_of ieee cl) (sum_of exact cl) /\
  FloatExact.gval E G (sum_of ieee cl) (FloatExact.gsum E G cl)).
Check (C17.C17_sum_ieee_in_domain : forall s e vals, FloatExact.in_exact_domain vals = true ->
  let cl := clip_filter s e vals in
  is_fin (sum_of ieee cl) = true /\ (fl_Q (sum_of ieee cl) == sumQ cl)%Q /\
  C06FileFloat.same_num (sum_of ieee cl) (sum_of exact cl)).

(* ---- the file bytes as the subject (appended; Proofs/BedStatsFile.v) ---- *)
From BT Require Proofs.RTreeCodec Proofs.BigWigFileRoundTrip Proofs.BigWigFileInput Proofs.BedStatsFile.
Check (C17.C17_stats_file : forall fp o sizes (inp : list BigWigWrite.item) bs,
  BigWigFileRoundTrip.opts_ok o -> BigWigFileRoundTrip.input_ok sizes inp -> Nlen bs < RTreeCodec.U64 ->
  bw_write fp o sizes inp = Ok bs \/ bw_write_multipass fp o sizes inp = Ok bs ->
  exists i, read_info bs = Ok i /\
  forall fq infl c s e rest, In c (map fst inp) -> s <= e ->
  let cl := clip_filter s e (BigWigFileInput.vals_of inp c) in
  bw_interval infl bs i c s e = Ok cl /\
  exists st,
    stats_for_bed_item fq (bw_interval infl bs i) c {| be_start := s; be_end := e; be_rest := rest |} = Ok st /\
    st_size st = e - s /\ st_bases st = bases_of cl /\ st_sum st = sum_of fq cl /\
    st_mean0 st = fdiv64 fq (sum_of fq cl) (f_of_N (e - s)) /\
    (bases_of cl = 0 -> st_mean st = FNaN /\ st_min st = FNaN /\ st_max st = FNaN) /\
    (bases_of cl <> 0 ->
       st_mean st = fdiv64 fq (sum_of fq cl) (f_of_N (bases_of cl)) /\
       st_min st = fold_left fmin (map v_val cl) f64_max /\
       st_max st = fold_left fmax (map v_val cl) f64_min)).
Check (C17.C17_bases_file : forall fp o sizes (inp : list BigWigWrite.item) bs,
  BigWigFileRoundTrip.opts_ok o -> BigWigFileRoundTrip.input_ok sizes inp -> Nlen bs < RTreeCodec.U64 ->
  bw_write fp o sizes inp = Ok bs \/ bw_write_multipass fp o sizes inp = Ok bs ->
  exists i, read_info bs = Ok i /\
  forall fq infl c s e rest, In c (map fst inp) -> s <= e ->
  exists st,
    stats_for_bed_item fq (bw_interval infl bs i) c {| be_start := s; be_end := e; be_rest := rest |} = Ok st /\
    st_bases st = N.of_nat (covered_count (BigWigFileInput.vals_of inp c) s e)).
Check (C17.C17_stats_per_base_file : forall fp o sizes (inp : list BigWigWrite.item) bs,
  BigWigFileRoundTrip.opts_ok o -> BigWigFileRoundTrip.input_ok sizes inp -> Nlen bs < RTreeCodec.U64 ->
  bw_write fp o sizes inp = Ok bs \/ bw_write_multipass fp o sizes inp = Ok bs ->
  exists i, read_info bs = Ok i /\
  forall infl c s e rest, In c (map fst inp) -> s <= e ->
  let vals := BigWigFileInput.vals_of inp c in
  all_finite (clip_filter s e vals) ->
  exists st,
    stats_for_bed_item exact (bw_interval infl bs i) c {| be_start := s; be_end := e; be_rest := rest |} = Ok st /\
    st_bases st = N.of_nat (covered_count vals s e) /\
    is_fin (st_sum st) = true /\
    (fl_Q (st_sum st) == sum_over (base_val vals) (region_bases s e))%Q).
Check (C17.C17_values_file : forall fp o sizes (inp : list BigWigWrite.item) bs,
  BigWigFileRoundTrip.opts_ok o -> BigWigFileRoundTrip.input_ok sizes inp -> Nlen bs < RTreeCodec.U64 ->
  bw_write fp o sizes inp = Ok bs \/ bw_write_multipass fp o sizes inp = Ok bs ->
  exists i, read_info bs = Ok i /\
  forall infl c s e, In c (map fst inp) -> s <= e ->
  let vals := BigWigFileInput.vals_of inp c in
  exists cl, bw_interval infl bs i c s e = Ok cl /\
    existsb (out_of_region s e) cl = false /\
    length (vob_fill s e cl) = N.to_nat (e - s) /\
    (forall k, (k < N.to_nat (e - s))%nat ->
       nth_error (vob_fill s e cl) k =
       Some (match find (covers (s + N.of_nat k)) vals with Some v => v_bits v | None => 0 end)) /\
    (forall l st en uniq,
       piece 0 (trim l) = Some c -> piece 1 (trim l) = Some st -> piece 2 (trim l) = Some en ->
       parse_u32 st = Some s -> parse_u32 en = Some e ->
       vob_line (bw_interval infl bs i) false uniq l = Ok (None, vob_fill s e cl))).
Check (C17.C17_line_file : forall fp o sizes (inp : list BigWigWrite.item) bs,
  BigWigFileRoundTrip.opts_ok o -> BigWigFileRoundTrip.input_ok sizes inp -> Nlen bs < RTreeCodec.U64 ->
  bw_write fp o sizes inp = Ok bs \/ bw_write_multipass fp o sizes inp = Ok bs ->
  exists i, read_info bs = Ok i /\
  forall fq infl m l c en nm, parse_bed l = Ok (c, en) -> name_for_bed_item m c en = Ok nm ->
  In c (map fst inp) -> be_start en <= be_end en ->
  let cl := clip_filter (be_start en) (be_end en) (BigWigFileInput.vals_of inp c) in
  exists st, line_result fq (bw_interval infl bs i) m l = Ok (nm, st) /\
    stats_of fq (be_start en) (be_end en) cl = Ok st /\
    st_size st = be_end en - be_start en /\ st_bases st = bases_of cl /\ st_sum st = sum_of fq cl).
