(* C10 — any well-formed BBI file is read correctly, whoever wrote it.
   Only statements, closed by [exact], with Print Assumptions beneath each. *)
From BT Require Import Base.Util Base.LE Base.Float Model.RTree Model.BBIFile Model.BigWigWrite Model.BBIRead
  Proofs.RTreeAbs Proofs.RTreeCodec Spec.FormatEmit Spec.FormatWf Model.ReadBed_C10
  Proofs.C10Codec Proofs.C10Search Proofs.C10Sections Proofs.C10ChromTree Proofs.C10EmitBase Proofs.C10EmitQuery.
Local Open Scope N_scope.

(* ---- R-tree search on any well-formed node store -------------------------------------------
   A node store is a finite map offset -> node.  If (1) every stored node is what the reader
   parses at that offset of the byte image, (2) the walk from [root] resolves every pointer within
   depth h and lists the leaf items [ls], (3) every recorded span covers every leaf item beneath
   it, then the reader's search from [root] returns exactly the items of [ls] that overlap the
   query, in walk order, as soon as the fuel exceeds the number of node visits.  No assumption on
   fan-out, depth (not even uniform), order or placement of the nodes, nor on the byte order.
   This is C05's search theorem without the layout assumption. *)
Theorem C10_search_any_tree : forall big bs (st : store) h root ls q qs qe,
  (forall o n, st_find o st = Some n -> read_node big bs o = Ok n) ->
  st_leaves st h root = Some ls -> st_cov st h root ->
  forall fuel, (st_size st h root < fuel)%nat ->
    search_bytes fuel big bs root q qs qe
    = Ok (map (fun i => (li_off i, li_size i)) (filter (fun i => overlaps q qs qe (li_span i)) ls)).
Proof. exact search_any_store. Qed.
Print Assumptions C10_search_any_tree.

(* the same for node stores keyed by anything (node numbers, for instance), nodes read at [off key] *)
Theorem C10_search_any_tree_keyed : forall (K : Type) (get : K -> option (gnode K)) (off : K -> N) big bs,
  (forall k g, get k = Some g -> read_node big bs (off k) = Ok (render off g)) ->
  forall q qs qe h root ls, gleaves get h root = Some ls -> gcov get h root ->
  forall fuel, (gsize get h root < fuel)%nat ->
    search_bytes fuel big bs (off root) q qs qe = Ok (hits q qs qe ls).
Proof. intros K get off big bs H q qs qe h root ls. exact (search_any_root get off big bs H q qs qe h root ls). Qed.
Print Assumptions C10_search_any_tree_keyed.

(* ---- byte order --------------------------------------------------------------------------- *)
(* every fixed-width field round-trips in either byte order; the two orders are mirror images *)
Theorem C10_endianness : forall big w x, x < 256 ^ N.of_nat w ->
  dec big (enc big w x) = x /\ enc big w x = rev (enc (negb big) w x) /\ (forall bs, dec big bs = dec (negb big) (rev bs)).
Proof. intros big w x H. split; [now apply dec_enc|]. split; [apply enc_flip|intros bs; apply dec_flip]. Qed.
Print Assumptions C10_endianness.
(* every field accessor of the readers, [dec big (firstn w (skipn o d))] on a record of fixed-width
   fields encoded in byte order [big], returns the field that starts at byte o -- for both orders *)
Theorem C10_endianness_fields : forall big fs o w x rest, fld_at fs o = Some (w, x) -> x < 256 ^ N.of_nat w ->
  dec big (firstn w (skipn o (enc_flds big fs ++ rest))) = x.
Proof. exact dec_fld. Qed.
Print Assumptions C10_endianness_fields.

(* ---- bigWig sections ---------------------------------------------------------------------- *)
(* A section of type 1, 2 or 3 that the format can express (sec_ok: one chromosome, at most 65535
   items, u32 fields; type 2: common span; type 3: common span and constant step) decodes, in
   either byte order, to exactly its items clipped to the query -- or to "other chromosome". *)
Theorem C10_sections : forall L ty c v0 rest chrom s e,
  sec_ok ty ((c, v0) :: rest) = true ->
  section_values (l_big L) (sec_payload L ty ((c, v0) :: rest)) chrom s e
  = Ok (if c =? chrom then Some (clip_filter s e (map snd ((c, v0) :: rest))) else None).
Proof. exact section_decode. Qed.
Print Assumptions C10_sections.
(* what the fixed-step decoder computes: item i is [start + i*step, start + i*step + span) *)
Theorem C10_sections_fixed_step : forall L step span vs rest cur i b,
  Forall bits_ok vs -> nth_error (map v_bits vs) i = Some b ->
  nth_error (parse_type3 (l_big L) step span cur (length vs) (flat_map (vitem_bytes L 3) vs ++ rest)) i
  = Some {| v_start := cur + N.of_nat i * step; v_end := cur + N.of_nat i * step + span; v_bits := b |}.
Proof. intros. rewrite parse_type3_ok by assumption. now apply fixed_items_nth. Qed.
Print Assumptions C10_sections_fixed_step.
(* the variable-step decoder: listed start, start + the section's span *)
Theorem C10_sections_var_step : forall L span vs rest, Forall bits_ok vs ->
  parse_type2 (l_big L) span (length vs) (flat_map (vitem_bytes L 2) vs ++ rest)
  = map (fun v => {| v_start := v_start v; v_end := v_start v + span; v_bits := v_bits v |}) vs.
Proof. exact parse_type2_ok. Qed.
Print Assumptions C10_sections_var_step.
(* zoom record blocks and bigBed entry blocks, either byte order *)
Theorem C10_zoom_block : forall L recs chrom s e, Forall (fun z => zraw_ok z = true) recs ->
  zoom_values (l_big L) (flat_map (zraw_bytes L) recs) chrom s e
  = Ok (Some (map zrec_of (filter (fun z => (zr_chrom z =? chrom) && (s <=? zr_end z) && (zr_start z <=? e)) recs))).
Proof. exact zoom_decode. Qed.
Print Assumptions C10_zoom_block.
Theorem C10_bed_block : forall L c items, forallb (fun cb => fst cb =? c) items = true -> forallb bed_ok items = true ->
  forall fuel more, (length items < fuel)%nat -> (length more < 12)%nat ->
  bed_entries fuel (l_big L) c (flat_map (bed_bytes L) items ++ more) = Ok (map snd items).
Proof. exact bed_decode. Qed.
Print Assumptions C10_bed_block.

(* ---- chromosome tree ---------------------------------------------------------------------- *)
(* For every node store (keys of any kind) whose nodes sit, encoded in byte order [big] with key
   width [key], at the offsets their keys stand for: if the walk from k resolves within depth h and
   lists the chromosomes l, the reader's recursive walk returns l, in order -- any depth, any
   fan-out, any placement. *)
Theorem C10_chrom_tree : forall (K : Type) (get : K -> option (cgnode K)) (off : K -> N) big bs key,
  (forall k g, get k = Some g -> has_at bs (off k) (cg_bytes off big key g) /\ cg_ok off key g) ->
  forall h k l, cleaves get h k = Some l ->
  forall fuel, (h <= fuel)%nat -> read_chrom_block fuel big bs key (off k) = Ok l.
Proof. intros K get off big bs key H. exact (chrom_walk get off big bs key H). Qed.
Print Assumptions C10_chrom_tree.

(* ---- the whole file ------------------------------------------------------------------------
   [emit cmp L X] is the independent encoder (Spec/FormatEmit.v); [wf_b] the decidable
   well-formedness of the (layout, content) pair (Spec/FormatWf.v); [cmp]/[infl] any compressor
   that round-trips.  Reading the emitted bytes with the reader models (Model/BBIRead.v,
   Model/ReadBed_C10.v) succeeds, and EVERY query -- chromosome table, summary, interval (bigWig
   values or bigBed entries), per-base values, zoom records of any level -- is answered with what
   the CONTENT says (spec_answer never looks at the layout): for either byte order, compressed or
   not, any mix of section types, any chromosome-tree and R-tree shapes and node placements, any
   order of the pieces of the file and gaps between them, with or without a total summary.
   (Per-base values are a bigWig query; on a bigBed it is not asked.) *)
Theorem C10_reads_emit : forall (cmp infl : list N -> list N) (L : layout) (X : content),
  (forall b, infl (cmp b) = b) -> wf_b cmp L X = true ->
  exists i, read_info (emit cmp L X) = Ok i /\
    forall q, (match q with QValues _ _ _ => x_bigwig X = true | _ => True end) ->
      read_answer infl (emit cmp L X) i q = spec_answer X q.
Proof.
  intros cmp infl L X Hinfl Hwf. exists (exp_info cmp L X). exact (reads_emit cmp infl Hinfl L X Hwf).
Qed.
Print Assumptions C10_reads_emit.

(* ---- non-vacuity: a concrete big-endian file with 2-level trees placed out of order ----------- *)
Definition idc (l : list N) : list N := l.
Definition mkv (s e b : N) : value := {| v_start := s; v_end := e; v_bits := b |}.
Definition ex_X : content :=
  {| x_bigwig := true;
     x_chroms := [ {| ci_name := [99; 104; 114; 49]; ci_id := 0; ci_len := 1000 |};
                   {| ci_name := [99; 104; 114; 50]; ci_id := 1; ci_len := 500 |} ];
     x_vals := [ (0, mkv 10 20 1065353216); (0, mkv 20 30 1073741824);      (* a fixed-step section *)
                 (0, mkv 100 105 1077936128); (0, mkv 200 205 1082130432);  (* a variable-step section *)
                 (1, mkv 5 9 1084227584) ];                                  (* a bedGraph section *)
     x_beds := [];
     x_summary := Some {| sr_bases := 34; sr_min := 4607182418800017408; sr_max := 4617315517961601024;
                          sr_sum := 4634204016564240384; sr_sumsq := 4641240890982006784 |};
     x_zooms := [ (10, [ {| zr_chrom := 0; zr_start := 10; zr_end := 20; zr_valid := 10; zr_min := 1065353216; zr_max := 1065353216; zr_sum := 1092616192; zr_sumsq := 1092616192 |};
                         {| zr_chrom := 0; zr_start := 20; zr_end := 30; zr_valid := 10; zr_min := 1073741824; zr_max := 1073741824; zr_sum := 1101004800; zr_sumsq := 1109393408 |};
                         {| zr_chrom := 1; zr_start := 0; zr_end := 10; zr_valid := 4; zr_min := 1084227584; zr_max := 1084227584; zr_sum := 1101004800; zr_sumsq := 1120403456 |} ]) ];
     x_field_count := 0; x_defined_fields := 0 |}.
Definition ex_L : layout :=
  {| l_big := true; l_compress := false; l_version := 4; l_fill := 170;
     l_secs := [(2%nat, 3); (2%nat, 2); (1%nat, 1)];
     l_zsecs := [[2%nat; 1%nat]];
     l_ckey := 5; l_cblock := 1;
     l_cnodes := [IInner [2%nat; 1%nat]; ILeaf 1 1; ILeaf 0 1];            (* 2-level chromosome tree *)
     l_rblock := 2;
     l_trees := [ [IInner [2%nat; 1%nat]; ILeaf 2 1; ILeaf 0 2];           (* main index: root, its 2nd child, its 1st child *)
                  [IInner [1%nat; 2%nat]; ILeaf 0 1; ILeaf 1 1] ];
     l_asql := None; l_extra := [[1; 2; 3]];
     l_order := [ (PNode 0 1, 0); (PChrom 2, 3); (PBlock 0 2, 0); (PSummary, 1); (PNode 1 2, 0); (PNode 0 0, 2);
                  (PBlock 0 0, 0); (PExtra 0, 0); (PChrom 0, 0); (PZCount 0, 0); (PBlock 1 1, 5); (PNode 1 0, 0);
                  (PBlock 0 1, 0); (PCount, 0); (PChrom 1, 0); (PBlock 1 0, 0); (PNode 1 1, 0); (PNode 0 2, 0) ] |}.
Definition ex_bytes : list N := Eval vm_compute in emit idc ex_L ex_X.

Example C10_example_wf : (forall b, idc (idc b) = b) /\ wf_b idc ex_L ex_X = true /\ length ex_bytes = 830%nat.
Proof. split; [reflexivity|]. split; vm_compute; reflexivity. Qed.
(* ... and the conclusion computes: chr1 15..101 cuts the fixed-step and the variable-step section *)
Example C10_example_read :
  exists i, read_info ex_bytes = Ok i /\ i_chroms i = x_chroms ex_X /\
    read_answer idc ex_bytes i (QInterval [99; 104; 114; 49] 15 101)
    = AValuesIv (Ok [mkv 15 20 1065353216; mkv 20 30 1073741824; mkv 100 101 1077936128]) /\
    read_answer idc ex_bytes i (QValues [99; 104; 114; 50] 4 7) = APerBase (Ok [None; Some 1084227584; Some 1084227584]).
Proof.
  destruct (read_info ex_bytes) as [i| | |] eqn:E; [|vm_compute in E; discriminate..].
  exists i. split; [reflexivity|]. vm_compute in E. injection E as <-. repeat split; vm_compute; reflexivity.
Qed.

(* the main index of that file as a node store offset -> node: the root's first child sits at a
   HIGHER offset than its second child and than the root itself *)
Definition ex_root : N := 307.
Definition ex_store : store :=
  Eval vm_compute in
    (let nd o := match read_node true ex_bytes o with Ok n => n | _ => PLeaf [] end in
     map (fun o => (o, nd o)) (ex_root :: match nd ex_root with PInner its => map snd its | _ => [] end)).
Example C10_example_store :
  (forall o n, st_find o ex_store = Some n -> read_node true ex_bytes o = Ok n)
  /\ (exists ls, st_leaves ex_store 2 ex_root = Some ls /\ length ls = 3%nat)
  /\ st_cov ex_store 2 ex_root
  /\ (exists sp1 o1 sp2 o2, st_find ex_root ex_store = Some (PInner [(sp1, o1); (sp2, o2)]) /\ o2 < ex_root < o1).
Proof.
  split; [|split; [|split]].
  - intros o n. unfold ex_store. cbn [st_find].
    repeat match goal with |- context [o =? ?k] => destruct (N.eqb_spec o k); [subst o; intros H; injection H as <-; vm_compute; reflexivity|] end.
    discriminate.
  - eexists. split; [vm_compute; reflexivity|reflexivity].
  - unfold st_cov. cbn [gcov]. unfold ex_store, st_get. cbn [st_find]. cbn.
    repeat constructor; try (intros ls H; injection H as <-; repeat constructor;
      apply inside_covers; unfold inside, ple; cbn; lia).
  - do 4 eexists. split; [vm_compute; reflexivity|vm_compute; split; reflexivity].
Qed.

(* ---- the CACHING reader on any well-formed file, every query history -------------------------
   Composition of C10_reads_emit with the generic history theorems C03_history (bigWig cache machine,
   Model/CachedRead.v) and C04_history / C04_history_from (bigBed, Model/BBIReadBed.v).  For every
   layout and content as above: every finite sequence of interval / per-base / zoom queries put to ONE
   caching reader that starts with an empty cache -- index nodes and INFLATED blocks are memoised, the
   block map is cleared when it holds CACHE_LIMIT entries -- and every second sequence put to a reader
   reopened from it afterwards (both maps cloned) returns, query by query, what the CONTENT says.
   [ca_spec] only renames the machine's three answer constructors to the specification's (injective).
   The cache machine takes the byte order from the header, so big-endian files are covered.  The
   chromosome table and the summary are answered from [info] / the header without touching the cache
   (C10_reads_emit). *)
From BT Require Import Model.CachedRead Model.BigBedWrite Model.BBIReadBed Model.CachedBed_C10
  Proofs.CachedReadInv Proofs.C10Cached.
From BT Require Proofs.BedCached.

Theorem C10_cached_reads_emit : forall (cmp infl : list N -> list N) (L : layout) (X : content),
  (forall b, infl (cmp b) = b) -> wf_b cmp L X = true -> x_bigwig X = true ->
  exists i, read_info (emit cmp L X) = Ok i /\
    forall qs1 qs2,
      map ca_spec (fst (qrun infl (emit cmp L X) i cache0 qs1)) = map (fun q => spec_answer X (cq_spec q)) qs1
      /\ map ca_spec (fst (qrun infl (emit cmp L X) i (c_reopen (snd (qrun infl (emit cmp L X) i cache0 qs1))) qs2))
         = map (fun q => spec_answer X (cq_spec q)) qs2.
Proof.
  intros cmp infl L X Hinfl Hwf Hb. exists (exp_info cmp L X). exact (cached_reads_emit cmp infl Hinfl L X Hwf Hb).
Qed.
Print Assumptions C10_cached_reads_emit.

(* ... from ANY cache whose entries are faithful copies (the invariant of C03), which stays so *)
Theorem C10_cached_reads_emit_from : forall (cmp infl : list N -> list N) (L : layout) (X : content),
  (forall b, infl (cmp b) = b) -> wf_b cmp L X = true -> x_bigwig X = true ->
  exists i, read_info (emit cmp L X) = Ok i /\
    forall qs c, CachedReadInv.cache_ok infl (emit cmp L X) i c ->
      map ca_spec (fst (qrun infl (emit cmp L X) i c qs)) = map (fun q => spec_answer X (cq_spec q)) qs
      /\ CachedReadInv.cache_ok infl (emit cmp L X) i (snd (qrun infl (emit cmp L X) i c qs)).
Proof.
  intros cmp infl L X Hinfl Hwf Hb. exists (exp_info cmp L X).
  split; [exact (proj1 (reads_emit cmp infl Hinfl L X Hwf))|]. exact (cached_emit_from cmp infl Hinfl L X Hwf Hb).
Qed.
Print Assumptions C10_cached_reads_emit_from.

(* bigBed.  [bb_qrun] (Model/CachedBed_C10.v) is the caching reader as a machine over get_interval
   (C04's c_bb_interval) and get_zoom_interval (bigBed error mapping) sharing one cache.  C04's reader
   returns [entry] records, the specification [bed] records: [spec_banswer] renames them ([b2e]) and is
   [Some] exactly on the two answer kinds a bigBed range query has.  Third conjunct: C04's own
   interval-only history function [c_bb_history], from any faithful cache (C04_history_from). *)
Theorem C10_cached_reads_emit_bed : forall (cmp infl : list N -> list N) (L : layout) (X : content),
  (forall b, infl (cmp b) = b) -> wf_b cmp L X = true -> x_bigwig X = false ->
  exists i, read_info (emit cmp L X) = Ok i /\
    (forall qs1 qs2,
      map Some (fst (bb_qrun infl (emit cmp L X) i cache0 qs1)) = map (fun q => spec_banswer (spec_answer X (bq_spec q))) qs1
      /\ map Some (fst (bb_qrun infl (emit cmp L X) i (c_reopen (snd (bb_qrun infl (emit cmp L X) i cache0 qs1))) qs2))
         = map (fun q => spec_banswer (spec_answer X (bq_spec q))) qs2)
    /\ (forall qs c, BedCached.cache_ok infl (emit cmp L X) i c ->
          c_bb_history infl (emit cmp L X) i c qs
          = map (fun q => rmap (map b2e)
                            (do id <- spec_chrom X (fst (fst q));
                             Ok (filter (fun b => (snd (fst q) <=? b_end b) && (b_start b <=? snd q)) (beds_of X id)))) qs).
Proof.
  intros cmp infl L X Hinfl Hwf Hb. exists (exp_info cmp L X). exact (cached_reads_emit_bed cmp infl Hinfl L X Hwf Hb).
Qed.
Print Assumptions C10_cached_reads_emit_bed.

(* Non-vacuity.  The big-endian example file above through the caching reader: a history with a
   repeated query and an unknown chromosome; afterwards the cache holds 5 index nodes and 4 blocks;
   a reader reopened from it answers from the copies. *)
Definition ex_c1 : name := [99; 104; 114; 49].
Definition ex_c2 : name := [99; 104; 114; 50].
Definition ex_hist : list CachedRead.query :=
  [CachedRead.QInterval ex_c1 15 101; CachedRead.QValues ex_c2 4 7; CachedRead.QZoom ex_c1 0 25 10;
   CachedRead.QInterval ex_c1 15 101; CachedRead.QInterval [120] 0 1].
Example C10_cached_example :
  x_bigwig ex_X = true /\
  exists i, read_info ex_bytes = Ok i /\
    (let '(ans, c) := qrun idc ex_bytes i cache0 ex_hist in
     nth_error ans 0 = Some (AInterval (Ok [mkv 15 20 1065353216; mkv 20 30 1073741824; mkv 100 101 1077936128]))
     /\ nth_error ans 1 = Some (AValues (Ok [None; Some 1084227584; Some 1084227584]))
     /\ nth_error ans 3 = nth_error ans 0 /\ nth_error ans 4 = Some (AInterval (Err R_NOCHROM))
     /\ length (c_nodes c) = 5%nat /\ length (c_blocks c) = 4%nat
     /\ fst (qrun idc ex_bytes i (c_reopen c) [CachedRead.QValues ex_c2 4 7])
        = [AValues (Ok [None; Some 1084227584; Some 1084227584])]).
Proof.
  split; [reflexivity|].
  destruct (read_info ex_bytes) as [i| | |] eqn:E; [|vm_compute in E; discriminate..].
  exists i. split; [reflexivity|]. vm_compute in E. injection E as <-. vm_compute. repeat split; reflexivity.
Qed.

(* a bigBed with the same layout (big-endian, out-of-order two-level trees): the first entry of the
   first block reaches far right, so [500,600] is answered by it alone *)
Definition mkb (s e : N) (r : list N) : bed := {| b_start := s; b_end := e; b_rest := r |}.
Definition ex_Xb : content :=
  {| x_bigwig := false; x_chroms := x_chroms ex_X; x_vals := [];
     x_beds := [ (0, mkb 0 1000 []); (0, mkb 10 20 [120]); (0, mkb 12 13 []); (0, mkb 700 710 [97; 9; 98]); (1, mkb 5 9 [122]) ];
     x_summary := x_summary ex_X; x_zooms := x_zooms ex_X; x_field_count := 4; x_defined_fields := 3 |}.
Definition ex_bbytes : list N := Eval vm_compute in emit idc ex_L ex_Xb.
Definition ex_bhist : list bquery :=
  [BQInterval ex_c1 500 600; BQZoom ex_c1 0 25 10; BQInterval ex_c1 11 12; BQInterval ex_c2 0 100;
   BQInterval [120] 0 1; BQZoom ex_c2 0 25 7; BQInterval ex_c1 500 600].
Example C10_cached_example_bed :
  wf_b idc ex_L ex_Xb = true /\ x_bigwig ex_Xb = false /\ length ex_bbytes = 792%nat /\
  exists i, read_info ex_bbytes = Ok i /\
    (let '(ans, c) := bb_qrun idc ex_bbytes i cache0 ex_bhist in
     nth_error ans 0 = Some (BAInterval (Ok [b2e (mkb 0 1000 [])]))
     /\ (exists z1 z2, nth_error ans 1 = Some (BAZoom (Ok [z1; z2])))
     /\ nth_error ans 2 = Some (BAInterval (Ok (map b2e [mkb 0 1000 []; mkb 10 20 [120]; mkb 12 13 []])))
     /\ nth_error ans 3 = Some (BAInterval (Ok [b2e (mkb 5 9 [122])]))
     /\ nth_error ans 4 = Some (BAInterval (Err R_NOCHROM)) /\ nth_error ans 5 = Some (BAZoom (Err R_NOZOOM))
     /\ nth_error ans 6 = nth_error ans 0
     /\ fst (bb_qrun idc ex_bbytes i (c_reopen c) [BQInterval ex_c1 500 600]) = [BAInterval (Ok [b2e (mkb 0 1000 [])])]).
Proof.
  split; [vm_compute; reflexivity|]. split; [reflexivity|]. split; [vm_compute; reflexivity|].
  destruct (read_info ex_bbytes) as [i| | |] eqn:E; [|vm_compute in E; discriminate..].
  exists i. split; [reflexivity|]. vm_compute in E. injection E as <-. vm_compute.
  split; [reflexivity|]. split; [do 2 eexists; reflexivity|]. repeat split; reflexivity.
Qed.
