(* C10 — any well-formed BBI file is read correctly, whoever wrote it.
   Only statements, closed by [exact], with Print Assumptions beneath each. *)
From BT Require Import Base.Util Base.LE Base.Float Model.RTree Model.BBIFile Model.BigWigWrite Model.BBIRead
  Proofs.RTreeAbs Proofs.RTreeCodec Spec.FormatEmit Spec.FormatWf Model.ReadBed_C10
  Proofs.C10Codec Proofs.C10Search Proofs.C10Sections Proofs.C10ChromTree.
Local Open Scope N_scope.

(* ---- R-tree search on any well-formed node store -------------------------------------------
   A node store is a finite map offset -> node.  If (1) every stored node is what the reader
   parses at that offset of the byte image, (2) the walk from [root] resolves every pointer within
   depth h and lists the leaf items [ls], (3) every recorded span covers every leaf item beneath
   it, then the reader's search from [root] returns exactly the items of [ls] that overlap the
   query, in walk order, as soon as the fuel exceeds the number of node visits.  No assumption on
   fan-out, depth (not even uniform), order or placement of the nodes, nor on the byte order.
   This is C05's search theorem without the layout assumption. *)
Theorem C10_search_any_tree : forall big bs (st : store) h root ls q qs qe,
  (forall o n, st_find o st = Some n -> read_node big bs o = Ok n) ->
  st_leaves st h root = Some ls -> st_cov st h root ->
  forall fuel, (st_size st h root < fuel)%nat ->
    search_bytes fuel big bs root q qs qe
    = Ok (map (fun i => (li_off i, li_size i)) (filter (fun i => overlaps q qs qe (li_span i)) ls)).
Proof. exact search_any_store. Qed.
Print Assumptions C10_search_any_tree.

(* the same for node stores keyed by anything (node numbers, for instance), nodes read at [off key] *)
Theorem C10_search_any_tree_keyed : forall (K : Type) (get : K -> option (gnode K)) (off : K -> N) big bs,
  (forall k g, get k = Some g -> read_node big bs (off k) = Ok (render off g)) ->
  forall q qs qe h root ls, gleaves get h root = Some ls -> gcov get h root ->
  forall fuel, (gsize get h root < fuel)%nat ->
    search_bytes fuel big bs (off root) q qs qe = Ok (hits q qs qe ls).
Proof. intros K get off big bs H q qs qe h root ls. exact (search_any_root get off big bs H q qs qe h root ls). Qed.
Print Assumptions C10_search_any_tree_keyed.

(* ---- byte order --------------------------------------------------------------------------- *)
(* every fixed-width field round-trips in either byte order; the two orders are mirror images *)
Theorem C10_endianness : forall big w x, x < 256 ^ N.of_nat w ->
  dec big (enc big w x) = x /\ enc big w x = rev (enc (negb big) w x) /\ (forall bs, dec big bs = dec (negb big) (rev bs)).
Proof. intros big w x H. split; [now apply dec_enc|]. split; [apply enc_flip|intros bs; apply dec_flip]. Qed.
Print Assumptions C10_endianness.
(* every field accessor of the readers, [dec big (firstn w (skipn o d))] on a record of fixed-width
   fields encoded in byte order [big], returns the field that starts at byte o -- for both orders *)
Theorem C10_endianness_fields : forall big fs o w x rest, fld_at fs o = Some (w, x) -> x < 256 ^ N.of_nat w ->
  dec big (firstn w (skipn o (enc_flds big fs ++ rest))) = x.
Proof. exact dec_fld. Qed.
Print Assumptions C10_endianness_fields.

(* ---- bigWig sections ---------------------------------------------------------------------- *)
(* A section of type 1, 2 or 3 that the format can express (sec_ok: one chromosome, at most 65535
   items, u32 fields; type 2: common span; type 3: common span and constant step) decodes, in
   either byte order, to exactly its items clipped to the query -- or to "other chromosome". *)
Theorem C10_sections : forall L ty c v0 rest chrom s e,
  sec_ok ty ((c, v0) :: rest) = true ->
  section_values (l_big L) (sec_payload L ty ((c, v0) :: rest)) chrom s e
  = Ok (if c =? chrom then Some (clip_filter s e (map snd ((c, v0) :: rest))) else None).
Proof. exact section_decode. Qed.
Print Assumptions C10_sections.
(* what the fixed-step decoder computes: item i is [start + i*step, start + i*step + span) *)
Theorem C10_sections_fixed_step : forall L step span vs rest cur i b,
  Forall bits_ok vs -> nth_error (map v_bits vs) i = Some b ->
  nth_error (parse_type3 (l_big L) step span cur (length vs) (flat_map (vitem_bytes L 3) vs ++ rest)) i
  = Some {| v_start := cur + N.of_nat i * step; v_end := cur + N.of_nat i * step + span; v_bits := b |}.
Proof. intros. rewrite parse_type3_ok by assumption. now apply fixed_items_nth. Qed.
Print Assumptions C10_sections_fixed_step.
(* the variable-step decoder: listed start, start + the section's span *)
Theorem C10_sections_var_step : forall L span vs rest, Forall bits_ok vs ->
  parse_type2 (l_big L) span (length vs) (flat_map (vitem_bytes L 2) vs ++ rest)
  = map (fun v => {| v_start := v_start v; v_end := v_start v + span; v_bits := v_bits v |}) vs.
Proof. exact parse_type2_ok. Qed.
Print Assumptions C10_sections_var_step.
(* zoom record blocks and bigBed entry blocks, either byte order *)
Theorem C10_zoom_block : forall L recs chrom s e, Forall (fun z => zraw_ok z = true) recs ->
  zoom_values (l_big L) (flat_map (zraw_bytes L) recs) chrom s e
  = Ok (Some (map zrec_of (filter (fun z => (zr_chrom z =? chrom) && (s <=? zr_end z) && (zr_start z <=? e)) recs))).
Proof. exact zoom_decode. Qed.
Print Assumptions C10_zoom_block.
Theorem C10_bed_block : forall L c items, forallb (fun cb => fst cb =? c) items = true -> forallb bed_ok items = true ->
  forall fuel more, (length items < fuel)%nat -> (length more < 12)%nat ->
  bed_entries fuel (l_big L) c (flat_map (bed_bytes L) items ++ more) = Ok (map snd items).
Proof. exact bed_decode. Qed.
Print Assumptions C10_bed_block.

(* ---- chromosome tree ---------------------------------------------------------------------- *)
(* For every node store (keys of any kind) whose nodes sit, encoded in byte order [big] with key
   width [key], at the offsets their keys stand for: if the walk from k resolves within depth h and
   lists the chromosomes l, the reader's recursive walk returns l, in order -- any depth, any
   fan-out, any placement. *)
Theorem C10_chrom_tree : forall (K : Type) (get : K -> option (cgnode K)) (off : K -> N) big bs key,
  (forall k g, get k = Some g -> has_at bs (off k) (cg_bytes off big key g) /\ cg_ok off key g) ->
  forall h k l, cleaves get h k = Some l ->
  forall fuel, (h <= fuel)%nat -> read_chrom_block fuel big bs key (off k) = Ok l.
Proof. intros K get off big bs key H. exact (chrom_walk get off big bs key H). Qed.
Print Assumptions C10_chrom_tree.
