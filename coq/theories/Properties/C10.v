(* C10 — any well-formed BBI file is read correctly, whoever wrote it.  (under construction) *)
From BT Require Import Base.Util Spec.FormatEmit.
