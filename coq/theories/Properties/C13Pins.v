(* Pinned statements of the C13 theorems: a changed statement no longer type-checks here. *)
From BT Require Import Base.Util Base.Float Model.RTree Model.BBIFile Model.BigWigWrite Model.Accept Model.Utf8
  Model.AcceptBed Proofs.RTreeShape Proofs.AcceptParse Proofs.AcceptRules Proofs.AcceptParallel Proofs.WriterTotal.
From BT Require Model.BigBedWrite.
From BT Require Properties.C13.
Local Open Scope N_scope.
Check (C13.C13_bw_accept_iff : forall fp o sizes input, opts_ok o = true ->
  verdict (bw_write fp o sizes input) = rule_verdict bw_val_class (o_sort_all o) sizes input
  /\ verdict (bw_write_multipass fp o sizes input) = rule_verdict bw_val_class (o_sort_all o) sizes input
  /\ (rule_verdict bw_val_class (o_sort_all o) sizes input = Ok tt
      <-> input <> [] /\ stream_ok bw_good_val bw_good_pair (o_sort_all o) sizes [] None input)).
Check (C13.C13_bb_accept_iff : forall sort_all sizes (items : list (name * entry)),
  serial bb_check_val sort_all sizes (ok_lines items) = rule_verdict bb_val_class sort_all sizes items
  /\ (rule_verdict bb_val_class sort_all sizes items = Ok tt
      <-> items <> [] /\ stream_ok bb_good_val bb_good_pair sort_all sizes [] None items)).
Check (C13.C13_position_independent : forall fp o sizes pre x post k, opts_ok o = true ->
  item_class bw_val_class (o_sort_all o) sizes (seen_at [] None pre) (last_opt pre) x (hd_error post) = Some k ->
  exists k', verdict (bw_write fp o sizes (pre ++ x :: post)) = Err k'
             /\ verdict (bw_write_multipass fp o sizes (pre ++ x :: post)) = Err k').
Check (C13.C13_bb_position_independent : forall sort_all sizes pre (x : name * entry) post k,
  item_class bb_val_class sort_all sizes (seen_at [] None pre) (last_opt pre) x (hd_error post) = Some k ->
  exists k', serial bb_check_val sort_all sizes (ok_lines (pre ++ x :: post)) = Err k').
Check (C13.C13_bw_text : forall fok o sizes text,
  (all_ok (bw_lines_u fok text) = None -> exists k, bw_text_serial_u fok o sizes text = Err k)
  /\ (forall items, all_ok (bw_lines_u fok text) = Some items ->
      bw_text_serial_u fok o sizes text = rule_verdict bw_val_class (o_sort_all o) sizes items)
  /\ (forall l, In l (lines_of text) -> utf8_ok l = false -> all_ok (bw_lines_u fok text) = None)
  /\ (Forall (fun l => utf8_ok l = true) (lines_of text) ->
      bw_lines_u fok text = bw_lines fok text /\ bw_text_serial_u fok o sizes text = bw_text_serial fok o sizes text
      /\ bw_text_parallel_u fok o sizes text = bw_text_parallel fok o sizes text)).
Check (C13.C13_bb_text : forall o sizes text,
  (all_ok (bb_lines_u text) = None -> exists k, bb_text_serial_u o sizes text = Err k)
  /\ (forall items, all_ok (bb_lines_u text) = Some items ->
      bb_text_serial_u o sizes text = rule_verdict bb_val_class (o_sort_all o) sizes items)
  /\ (forall l, In l (lines_of text) -> utf8_ok l = false -> all_ok (bb_lines_u text) = None)
  /\ (Forall (fun l => utf8_ok l = true) (lines_of text) ->
      bb_lines_u text = bb_lines text /\ bb_text_serial_u o sizes text = bb_text_serial o sizes text
      /\ bb_text_parallel_u o sizes text = bb_text_parallel o sizes text)).
Check (C13.C13_serial_eq_parallel_verdict : forall (V : Type) (vclass : N -> V -> option V -> option N) sort_all sizes
    (l : list (pline V)), l <> [] ->
  (serial (chk_of vclass) sort_all sizes l = Ok tt <-> parallel (chk_of vclass) sort_all sizes (line_runs l) = Ok tt)
  /\ plain (parallel (chk_of vclass) sort_all sizes (line_runs l))
  /\ plain (serial (chk_of vclass) sort_all sizes l)).
Check (C13.C13_text_serial_eq_parallel : forall fok o sizes text, lines_of text <> [] ->
  (bw_text_serial_u fok o sizes text = Ok tt <-> bw_text_parallel_u fok o sizes text = Ok tt)
  /\ (bb_text_serial_u o sizes text = Ok tt <-> bb_text_parallel_u o sizes text = Ok tt)).
Check (C13.C13_parse_u32 : forall s n,
  parse_u32 s = Some n <->
  exists body, (s = body \/ s = 43 :: body) /\ body <> [] /\ forallb is_digit body = true
               /\ n = dec_val 0 body /\ n < 2 ^ 32).
Check (C13.C13_parse_line : forall fok line s e,
  (snd (parse_bed_line line) = POk (s, e) <->
   exists chrom fs fe more, split_on TAB (trim_end line) = (chrom, fs :: fe :: more)
                            /\ parse_u32 fs = Some s /\ parse_u32 fe = Some e)
  /\ (snd (parse_bedgraph_line fok line) = POk (s, e) <->
      exists chrom fs fe fv more, split_on TAB (trim_end line) = (chrom, fs :: fe :: fv :: more)
                                  /\ parse_u32 fs = Some s /\ parse_u32 fe = Some e /\ fok fv = true)).
Check (C13.C13_split_fields : forall sep l,
  join sep (fst (split_on sep l)) (snd (split_on sep l)) = l
  /\ Forall (fun p => forallb (fun b => negb (b =? sep)) p = true) (fst (split_on sep l) :: snd (split_on sep l))).
Check (C13.C13_rtree_terminates : forall b secs, (2 <= b)%nat -> exists t lv, build b secs = Ok (t, lv) /\ height lv t).
Check (C13.C13_index_written : forall b ips pos secs, 2 <= b -> exists bs lv, write_index b ips pos secs = Ok (bs, lv)).
Check (C13.C13_zoom_selection_terminates : forall o, 2 <= o_bs o ->
  (forall data_size zs pos lc zc, exists r, write_zooms_loop o data_size pos zs lc zc = Ok r)
  /\ (forall zs pos, exists r, write_zooms_two_pass o pos zs = Ok r)).
Check (C13.C13_writer_total : forall fp o sizes input, opts_ok o = true ->
  ((exists f, bw_write fp o sizes input = Ok f) \/ (exists k, bw_write fp o sizes input = Err k)) /\
  ((exists f, bw_write_multipass fp o sizes input = Ok f) \/ (exists k, bw_write_multipass fp o sizes input = Err k))).
Check (C13.C13_bb_accept_iff_file : forall fp o sizes autosql input,
  verdict (BigBedWrite.bb_write fp o sizes autosql input) = bb_file_rule o sizes autosql (bb_items input)
  /\ verdict (BigBedWrite.bb_write_multipass fp o sizes autosql input) = bb_file_rule o sizes autosql (bb_items input)
  /\ (bb_file_rule o sizes autosql (bb_items input) = Ok tt
      <-> opts_ok o = true /\ has_nul (schema_text autosql) = false /\ input <> []
          /\ stream_ok bb_good_val bb_good_pair (o_sort_all o) sizes [] None (bb_items input))).
Check (C13.C13_bb_writer_total : forall fp o sizes autosql input,
  ((exists f, BigBedWrite.bb_write fp o sizes autosql input = Ok f)
   \/ (exists k, BigBedWrite.bb_write fp o sizes autosql input = Err k)) /\
  ((exists f, BigBedWrite.bb_write_multipass fp o sizes autosql input = Ok f)
   \/ (exists k, BigBedWrite.bb_write_multipass fp o sizes autosql input = Err k))).
Check (C13.C13_bb_write_gen_verdict : forall sweep zoom_part o sizes autosql input,
  (2 <= o_bs o -> 1 <= o_ips o -> forall outs sum ds zp, exists r, zoom_part outs sum ds zp = Ok r) ->
  verdict (BigBedWrite.bb_write_gen sweep zoom_part o sizes autosql input)
  = bb_file_rule o sizes autosql (bb_items input)).
(* C13_parallel_text_file_verdict / C13_bb_parallel_text_file_verdict: names of C18's models qualified *)
From BT Require Model.FileView Model.Chunker Model.Indexer Proofs.SliceStreamsAccept Proofs.AcceptSliced.
Check (C13.C13_parallel_text_file_verdict : forall (cid : name -> N) fok fp o sizes (text : list N) (lim : nat)
    (sz : nat -> nat -> N) (fuel : nat),
  let key := SliceStreamsAccept.bed_key cid in
  opts_ok o = true ->
  text <> [] ->
  (forall l, In l (Chunker.split_lines text) -> key l <> 0) ->
  (forall l1 l2, In l1 (Chunker.split_lines text) -> In l2 (Chunker.split_lines text) ->
     cid (SliceStreamsAccept.chrom_of l1) = cid (SliceStreamsAccept.chrom_of l2) ->
     SliceStreamsAccept.chrom_of l1 = SliceStreamsAccept.chrom_of l2) ->
  Indexer.grouped (Indexer.lfile key text) ->
  Nlen text * Nlen text < 2 ^ N.of_nat lim -> Nlen text < 2 ^ 63 ->
  (forall i k, 1 <= sz i k) -> (length text < fuel)%nat ->
  exists ix streams,
    Indexer.index_chroms (S lim) (Indexer.lfile key text) = Ok (Some ix) /\
    Indexer.par_streams fuel text sz ix = map Ok streams /\
    SliceStreamsAccept.tasks (SliceStreamsAccept.bw_parse fok) streams = line_runs (bw_lines fok text) /\
    let P := parallel check_val (o_sort_all o) sizes
               (SliceStreamsAccept.tasks (SliceStreamsAccept.bw_parse fok) streams) in
    (forall items, all_ok (bw_lines fok text) = Some items ->
       (P = Ok tt <-> verdict (bw_write fp o sizes items) = Ok tt) /\
       (P = Ok tt <-> verdict (bw_write_multipass fp o sizes items) = Ok tt) /\
       (forall k, verdict (bw_write fp o sizes items) = Err k -> exists k', P = Err k') /\
       (forall k, verdict (bw_write_multipass fp o sizes items) = Err k -> exists k', P = Err k') /\
       verdict (bw_write fp o sizes items) = rule_verdict bw_val_class (o_sort_all o) sizes items) /\
    (forall k, bw_text_serial fok o sizes text = Err k -> exists k', P = Err k') /\
    (all_ok (bw_lines fok text) = None -> exists k', P = Err k') /\
    (P = Ok tt \/ exists k, P = Err k)).
Check (C13.C13_bb_parallel_text_file_verdict : forall (cid : name -> N) fp o sizes autosql (text : list N) (lim : nat)
    (sz : nat -> nat -> N) (fuel : nat),
  let key := SliceStreamsAccept.bed_key cid in
  text <> [] ->
  (forall l, In l (Chunker.split_lines text) -> key l <> 0) ->
  (forall l1 l2, In l1 (Chunker.split_lines text) -> In l2 (Chunker.split_lines text) ->
     cid (SliceStreamsAccept.chrom_of l1) = cid (SliceStreamsAccept.chrom_of l2) ->
     SliceStreamsAccept.chrom_of l1 = SliceStreamsAccept.chrom_of l2) ->
  Indexer.grouped (Indexer.lfile key text) ->
  Nlen text * Nlen text < 2 ^ N.of_nat lim -> Nlen text < 2 ^ 63 ->
  (forall i k, 1 <= sz i k) -> (length text < fuel)%nat ->
  exists ix streams,
    Indexer.index_chroms (S lim) (Indexer.lfile key text) = Ok (Some ix) /\
    Indexer.par_streams fuel text sz ix = map Ok streams /\
    SliceStreamsAccept.tasks SliceStreamsAccept.bb_parse streams = line_runs (bb_lines text) /\
    let P := AcceptSliced.bb_fed o autosql
               (parallel bb_check_val (o_sort_all o) sizes
                  (SliceStreamsAccept.tasks SliceStreamsAccept.bb_parse streams)) in
    (forall input, all_ok (bb_lines text) = Some (bb_items input) ->
       (P = Ok tt <-> verdict (BigBedWrite.bb_write fp o sizes autosql input) = Ok tt) /\
       (P = Ok tt <-> verdict (BigBedWrite.bb_write_multipass fp o sizes autosql input) = Ok tt) /\
       (forall k, verdict (BigBedWrite.bb_write fp o sizes autosql input) = Err k -> exists k', P = Err k') /\
       (forall k, verdict (BigBedWrite.bb_write_multipass fp o sizes autosql input) = Err k -> exists k', P = Err k') /\
       verdict (BigBedWrite.bb_write fp o sizes autosql input) = bb_file_rule o sizes autosql (bb_items input)) /\
    (exists input, all_ok (bb_lines text) = Some (bb_items input)) /\
    (forall k, AcceptSliced.bb_fed o autosql (bb_text_serial o sizes text) = Err k -> exists k', P = Err k') /\
    (P = Ok tt \/ exists k, P = Err k)).
