(* C09 — every written file is well-formed for an independent decoder.
   Statements only, each closed by [exact], with Print Assumptions beneath.

   The decoder is Spec/FormatDecode.v: written from the published format, it shares no definition
   with the reader model or the writer models.  The encoders are the WRITER MODEL's
   (Model/BBIFile.v, Model/BigWigWrite.v, Model/RTree.v).  Part 1: component codecs
   decode_x (encode_x v) = Some v, for every value that fits the fields. *)
From BT Require Import Base.Util Base.LE Base.Float Generated.Consts Model.RTree Model.BBIFile Model.BigWigWrite
  Proofs.RTreeCodec Proofs.RTreeBuild Proofs.FileRegions Spec.FormatDecode Proofs.C09Base Proofs.C09Codec Proofs.C09Chrom Proofs.C09RTree.
Local Open Scope N_scope.

(* common header: the 64 bytes write_info emits, wherever the image holds them at offset 0 *)
Theorem C09_header_codec : forall img n magic nz ct dof ix fc dfc asql so ubuf,
  has_at img 0 (header_bytes magic nz ct dof ix fc dfc asql so ubuf) -> n = Nlen img ->
  nz < W16 -> ct < W64 -> dof < W64 -> ix < W64 -> fc < W16 -> dfc < W16 -> asql < W64 -> so < W64 -> ubuf < W32 ->
  parse_header img n false =
    Some {| fh_version := 4; fh_nzoom := nz; fh_ctoff := ct; fh_dataoff := dof; fh_ixoff := ix; fh_fc := fc;
            fh_dfc := dfc; fh_asql := asql; fh_sumoff := so; fh_ubuf := ubuf; fh_ext := 0 |}.
Proof. exact parse_header_ok. Qed.
Print Assumptions C09_header_codec.

(* zoom directory *)
Theorem C09_zoom_directory_codec : forall img n zs, has_at img 64 (flat_map zoom_header_bytes zs) -> n = Nlen img ->
  Forall zh_ok zs -> parse_zoomhdrs img n false (Nlen zs) = Some (map zh_view zs).
Proof. exact parse_zoomhdrs_ok. Qed.
Print Assumptions C09_zoom_directory_codec.

(* total summary: bases covered, and the four f64 fields as the bit patterns that were written *)
Theorem C09_summary_codec : forall img n off s, has_at img off (summary_bytes s) -> n = Nlen img -> su_bases s < W64 ->
  parse_summary img n false off = Some (sum_view s).
Proof. exact parse_summary_ok. Qed.
Print Assumptions C09_summary_codec.

(* bigWig data section (type 1, bedGraph): header fields and every (start, end, value pattern) *)
Theorem C09_section_codec : forall chrom items sd, encode_section chrom items = Ok sd ->
  chrom < W32 -> Forall val_ok items -> Nlen items < W16 ->
  parse_wig_section false (sd_bytes sd) = Some (sd_chrom sd, sd_start sd, sd_end sd, map (rec_of chrom) items)
  /\ sd_chrom sd = chrom /\ Nlen (sd_bytes sd) = 24 + 12 * Nlen items
  /\ exists f, hd_error items = Some f /\ sd_start sd = v_start f /\ sd_end sd = v_end (last items f).
Proof. exact parse_wig_section_ok. Qed.
Print Assumptions C09_section_codec.

(* zoom record and zoom section *)
Theorem C09_zoom_record_codec : forall fp recs, Forall zrec_ok recs ->
  parse_zoom_items false (length recs) (flat_map (zrec_bytes fp) recs) = map (zr_view fp) recs.
Proof. exact parse_zoom_items_ok. Qed.
Print Assumptions C09_zoom_record_codec.

Theorem C09_zoom_section_codec : forall fp recs sd, encode_zoom_section fp recs = Ok sd -> Forall zrec_ok recs ->
  Nlen (sd_bytes sd) = 32 * Nlen recs
  /\ parse_zoom_items false (N.to_nat (Nlen (sd_bytes sd) / 32)) (sd_bytes sd) = map (zr_view fp) recs
  /\ exists f, hd_error recs = Some f /\ sd_chrom sd = z_chrom f /\ sd_start sd = z_start f /\ sd_end sd = z_end (last recs f).
Proof. exact encode_zoom_section_ok. Qed.
Print Assumptions C09_zoom_section_codec.

(* chromosome B+ tree: names non-empty without NUL, ids 0..n-1 in order, fields in range; the strict
   decoder additionally needs the names in increasing byte order (what it checks and what
   write_chrom_tree does not establish by itself: see C09_chrom_keys_refuted) *)
Theorem C09_chrom_tree_codec : forall img n off sizes (chroms : idmap) ct (strict : bool),
  chrom_tree_bytes sizes chroms = Ok ct -> has_at img off ct -> n = Nlen img ->
  chroms <> [] -> Nlen chroms < W16 ->
  Forall (fun c => name_ok (fst c) /\ Nlen (fst c) < W32 /\ size_of sizes c < W32) chroms ->
  map snd chroms = seqN 0 (length chroms) ->
  (strict = true -> names_increasing (map fst chroms)) ->
  parse_chrom_tree img n false strict off = Some (map (chrom_view sizes) chroms, off + Nlen ct)
  /\ Nlen ct = 36 + Nlen chroms * (N.of_nat (fold_left (fun a c => Nat.max a (length (fst c))) chroms 0%nat) + 8).
Proof. exact parse_chrom_tree_ok. Qed.
Print Assumptions C09_chrom_tree_codec.

(* R-tree: for every fan-out 2..65535 and every non-empty (chrom,start)-sorted section list whose
   byte ranges are increasing and inside [lo,hi), the index write_rtreeindex lays out at any
   position is accepted by the independent decoder (magic, counts within the block size, every
   item inside the span its parent records, leaves in order and inside the data region, item
   count) and yields exactly the sections, in order; its nodes end inside the index bytes. *)
Theorem C09_rtree_codec : forall img n off lo hi b ips secs bs lv,
  write_index b ips off secs = Ok (bs, lv) -> has_at img off bs -> n = Nlen img -> n < W64 ->
  2 <= b <= 65535 -> 1 <= ips < W32 -> secs <> [] -> sorted_starts (map sect_span secs) -> Forall sect_ok secs ->
  Nlen secs <= n ->
  Forall (fun s => lo <= s_off s /\ s_off s + s_size s <= hi /\ 1 <= s_size s /\ s_start s <= s_end s) secs ->
  offs_chain secs ->
  exists h e, parse_index img n false off lo hi = Some (h, map lf_of secs, e)
    /\ ih_block h = b /\ ih_ips h = ips /\ ih_count h = Nlen secs /\ off + 48 <= e <= off + Nlen bs.
Proof. exact parse_index_ok. Qed.
Print Assumptions C09_rtree_codec.


(* ------------------------------------------------------------------------------------------
   Part 2: the buffer size (compressor-parametric writer model, Model/BigWigWriteZ.v: every data
   and zoom section goes through an arbitrary [compress] when options.compress is set). *)
From BT Require Import Model.BigWigWriteZ Proofs.BigWigFileRoundTrip Proofs.BigWigFileData Proofs.ZoomBwLevels Proofs.C09Data Proofs.C09File Proofs.C09Levels
  Proofs.C09Whole Proofs.C09BufSize.

(* the header's uncompress_buf_size is >= the uncompressed size of every block (data sections and
   the sections of every zoom level computed in the single pass), and it is 0 iff compression is off *)
Theorem C09_buf_size : forall compress fp o sizes inp bs,
  bw_write_z compress fp o sizes inp = Ok bs -> opts_ok o ->
  exists ids outs sum data zooms ubuf nz a b c d,
    bw_collect fp o sizes inp = Ok (ids, outs, sum, data)
    /\ bw_zoom_levels fp o outs (zoom_sizes_single o) = Ok zooms
    /\ has_at bs 0 (header_bytes BIGWIG_MAGIC nz a b c 0 0 0 d ubuf)
    /\ blocks_bound (o_compress o) ubuf (data ++ flat_map zl_secs zooms)
    /\ (ubuf = 0 <-> o_compress o = false).
Proof. exact buf_size_single. Qed.
Print Assumptions C09_buf_size.

Theorem C09_buf_size_multipass : forall compress fp o sizes inp bs,
  bw_write_multipass_z compress fp o sizes inp = Ok bs -> opts_ok o ->
  exists ids outs sum data zooms ubuf nz a b c d,
    bw_collect fp o sizes inp = Ok (ids, outs, sum, data)
    /\ has_at bs 0 (header_bytes BIGWIG_MAGIC nz a b c 0 0 0 d ubuf)
    /\ blocks_bound (o_compress o) ubuf (data ++ flat_map zl_secs zooms)
    /\ (ubuf = 0 <-> o_compress o = false).
Proof. exact buf_size_multipass. Qed.
Print Assumptions C09_buf_size_multipass.

(* with compression off the parametric model IS the byte-exact model of Model/BigWigWrite.v *)
Theorem C09_model_uncompressed : forall compress fp o sizes inp, o_compress o = false ->
  bw_write_z compress fp o sizes inp = bw_write fp o sizes inp
  /\ bw_write_multipass_z compress fp o sizes inp = bw_write_multipass fp o sizes inp.
Proof. exact bw_write_z_uncompressed. Qed.
Print Assumptions C09_model_uncompressed.

(* ------------------------------------------------------------------------------------------
   Part 3: the whole file.  For every options record with 2 <= block_size <= 65535,
   1 <= items_per_slot <= 65535 and zoom resolutions that fit u32, every chromosome-size table
   with u32 lengths, every input the writer accepts (chromosome names without NUL and non-empty,
   at most 65535 chromosomes, f32 bit patterns), if the file is shorter than 2^64 bytes, the
   independent decoder accepts the file the writer model produces — whatever the inflate oracle,
   the file being uncompressed — and returns [content_of]: the chromosome table (name, id, size),
   exactly the input records in input order (C09_records_are_input), the number of records per
   block, the total summary folded over the chromosomes (C09_summary_is_folded; bit patterns), and for
   every zoom level that was written the records process_val_zoom produced at that resolution.
   Strict decoder (increasing chromosome keys): input_sort_type = ALL; lenient decoder: always. *)
Theorem C09_decode_encode : forall fp o sizes inp bs inflate,
  bw_write fp o sizes inp = Ok bs -> opts_ok o -> input_ok sizes inp -> Nlen bs < U64 ->
  Forall (fun c : name => c <> []) (map fst (runs inp)) ->
  o_sort_all o = true ->
  Forall (fun z => z < W32) (zoom_sizes_single o) ->
  exists ids outs sum data kept,
    bw_collect fp o sizes inp = Ok (ids, outs, sum, data)
    /\ incl kept (zoom_sizes_single o) /\ inc_from 0 kept
    /\ decode bs inflate = Some (content_of fp o sizes ids outs sum 0 kept).
Proof.
  intros fp o sizes inp bs inflate H Ho Hi Hs Hn Hsort Hu.
  apply (bw_write_decodes fp o sizes inp bs true inflate H Ho Hi Hs Hn); [|exact Hu].
  intros _. destruct (BigWigFileThms.bw_write_inv fp o sizes inp bs H) as (ids & outs & sum & data & zooms & Hcol & _).
  exact (sorted_names_increasing fp o sizes inp ids outs sum data Hsort Hcol).
Qed.
Print Assumptions C09_decode_encode.

Theorem C09_decode_encode_multipass : forall fp o sizes inp bs inflate,
  bw_write_multipass fp o sizes inp = Ok bs -> opts_ok o -> input_ok sizes inp -> Nlen bs < U64 ->
  Forall (fun c : name => c <> []) (map fst (runs inp)) ->
  o_sort_all o = true ->
  manual_u32 o ->
  exists ids outs sum data kept,
    bw_collect fp o sizes inp = Ok (ids, outs, sum, data)
    /\ inc_from 0 kept
    /\ decode bs inflate = Some (content_of fp o sizes ids outs sum 0 kept).
Proof.
  intros fp o sizes inp bs inflate H Ho Hi Hs Hn Hsort Hu.
  apply (bw_write_multipass_decodes fp o sizes inp bs true inflate H Ho Hi Hs Hn); [|exact Hu].
  intros _. destruct (BigWigFileThms.bw_write_multipass_inv fp o sizes inp bs H) as (ids & outs & sum & data & Hcol & _).
  exact (sorted_names_increasing fp o sizes inp ids outs sum data Hsort Hcol).
Qed.
Print Assumptions C09_decode_encode_multipass.

(* the same for compressed files, for EVERY compressor (DESIGN.md §3.3): the writer model with its
   blocks compressed by an arbitrary [compress] whose outputs are non-empty, decoded with any inflate
   oracle that inverts [compress] on the byte ranges of the file that hold a compressed block, gives the
   same content, with uncompressBufSize > 0 (and < 2^32) instead of 0 *)
Theorem C09_decode_encode_compressed : forall compress fp o sizes inp bs inflate,
  bw_write_z compress fp o sizes inp = Ok bs -> opts_ok o -> input_ok sizes inp -> Nlen bs < U64 ->
  Forall (fun c : name => c <> []) (map fst (runs inp)) ->
  o_sort_all o = true ->
  Forall (fun z => z < W32) (zoom_sizes_single o) ->
  (forall b, compress b <> []) -> (o_compress o = true -> inflate_ok compress bs inflate) ->
  exists ids outs sum data kept ubuf,
    bw_collect fp o sizes inp = Ok (ids, outs, sum, data)
    /\ incl kept (zoom_sizes_single o) /\ inc_from 0 kept /\ (ubuf = 0 <-> o_compress o = false)
    /\ decode bs inflate = Some (content_of fp o sizes ids outs sum ubuf kept).
Proof.
  intros compress fp o sizes inp bs inflate H Ho Hi Hs Hn Hsort Hu Hc Hinf.
  apply (bw_write_zc_decodes compress (o_compress o) fp o sizes inp bs true inflate H Ho Hi Hs Hn); [|exact Hu|exact Hc|exact Hinf].
  intros _. unfold bw_write_z, bw_write_zc in H.
  destruct (bw_collect fp o sizes inp) as [[[[ids outs] sum] data]| | |] eqn:Hcol; try discriminate.
  exact (sorted_names_increasing fp o sizes inp ids outs sum data Hsort Hcol).
Qed.
Print Assumptions C09_decode_encode_compressed.

Theorem C09_decode_encode_compressed_multipass : forall compress fp o sizes inp bs inflate,
  bw_write_multipass_z compress fp o sizes inp = Ok bs -> opts_ok o -> input_ok sizes inp -> Nlen bs < U64 ->
  Forall (fun c : name => c <> []) (map fst (runs inp)) ->
  o_sort_all o = true ->
  manual_u32 o ->
  (forall b, compress b <> []) -> (o_compress o = true -> inflate_ok compress bs inflate) ->
  exists ids outs sum data kept ubuf,
    bw_collect fp o sizes inp = Ok (ids, outs, sum, data)
    /\ inc_from 0 kept /\ (ubuf = 0 <-> o_compress o = false)
    /\ decode bs inflate = Some (content_of fp o sizes ids outs sum ubuf kept).
Proof.
  intros compress fp o sizes inp bs inflate H Ho Hi Hs Hn Hsort Hu Hc Hinf.
  apply (bw_write_multipass_zc_decodes compress (o_compress o) fp o sizes inp bs true inflate H Ho Hi Hs Hn); [|exact Hu|exact Hc|exact Hinf].
  intros _. unfold bw_write_multipass_z, bw_write_multipass_zc in H.
  destruct (bw_collect fp o sizes inp) as [[[[ids outs] sum] data]| | |] eqn:Hcol; try discriminate.
  exact (sorted_names_increasing fp o sizes inp ids outs sum data Hsort Hcol).
Qed.
Print Assumptions C09_decode_encode_compressed_multipass.


(* the same without any assumption on the order of the chromosomes, for the decoder that tolerates
   unsorted chromosome keys (and nothing else) *)
Theorem C09_decode_encode_lenient : forall fp o sizes inp bs inflate,
  bw_write fp o sizes inp = Ok bs \/ bw_write_multipass fp o sizes inp = Ok bs ->
  opts_ok o -> input_ok sizes inp -> Nlen bs < U64 ->
  Forall (fun c : name => c <> []) (map fst (runs inp)) ->
  Forall (fun z => z < W32) (zoom_sizes_single o) -> manual_u32 o ->
  exists ids outs sum data kept,
    bw_collect fp o sizes inp = Ok (ids, outs, sum, data)
    /\ inc_from 0 kept
    /\ decode_lenient bs inflate = Some (content_of fp o sizes ids outs sum 0 kept).
Proof.
  intros fp o sizes inp bs inflate [H|H] Ho Hi Hs Hn Hu1 Hu2.
  - destruct (bw_write_decodes fp o sizes inp bs false inflate H Ho Hi Hs Hn ltac:(discriminate) Hu1)
      as (ids & outs & sum & data & kept & H1 & _ & H3 & H4). exists ids, outs, sum, data, kept. auto.
  - exact (bw_write_multipass_decodes fp o sizes inp bs false inflate H Ho Hi Hs Hn ltac:(discriminate) Hu2).
Qed.
Print Assumptions C09_decode_encode_lenient.

(* what [content_of] holds: the records are the input records, in input order, each with the
   first-appearance id of its chromosome; the summary is the fold of the per-chromosome summaries *)
Theorem C09_records_are_input : forall fp o sizes inp ids outs sum data,
  bw_collect fp o sizes inp = Ok (ids, outs, sum, data) -> recs_of outs = input_records ids inp.
Proof. exact records_are_input. Qed.
Print Assumptions C09_records_are_input.

Theorem C09_ids_first_appearance : forall fp o sizes inp ids outs sum data,
  bw_collect fp o sizes inp = Ok (ids, outs, sum, data) ->
  ids = BigWigFileChroms.number 0 (BigWigFileInput.first_app (map fst inp)).
Proof. exact ids_first_appearance. Qed.
Print Assumptions C09_ids_first_appearance.

Theorem C09_summary_is_folded : forall fp o sizes inp ids outs sum data,
  bw_collect fp o sizes inp = Ok (ids, outs, sum, data) ->
  sum = match fold_left (summary_merge fp) (map (fun c => chrom_summary fp (co_vals c)) outs) None with
        | Some s => s | None => summary_zero end.
Proof. exact summary_is_folded. Qed.
Print Assumptions C09_summary_is_folded.

(* ------------------------------------------------------------------------------------------
   Refuted without the order hypothesis (known finding chrom-tree-keys-unsorted): with
   input_sort_type = START the writer accepts chromosomes 'a' then 'B', writes the B+ tree leaf in
   id order, and the strict decoder rejects the file (keys not increasing) while the lenient one
   decodes it.  Replayed on the real writer by corpus/C09/keys-unsorted.txt. *)
Definition c09_wit_opts : opts :=
  {| o_compress := false; o_ips := 1; o_bs := 5; o_izoom := 1; o_maxzooms := 10; o_manual := None; o_sort_all := false |}.
Definition c09_wit_sizes : list (name * N) := [([66], 6); ([97], 123)].
Definition c09_wit_input : list item :=
  [([97], {| v_start := 7; v_end := 23; v_bits := 1120403456 |}); ([66], {| v_start := 5; v_end := 6; v_bits := 1073741824 |})].
Theorem C09_chrom_keys_refuted :
  exists bs, bw_write ieee c09_wit_opts c09_wit_sizes c09_wit_input = Ok bs
    /\ decode bs (fun _ _ => None) = None
    /\ exists c, decode_lenient bs (fun _ _ => None) = Some c /\ map fc_name (c_chroms c) = [[97]; [66]].
Proof. eexists. split; [vm_compute; reflexivity|]. split; [vm_compute; reflexivity|]. eexists. split; vm_compute; reflexivity. Qed.
Print Assumptions C09_chrom_keys_refuted.

(* Non-vacuity: concrete instances meet the hypotheses and the decoder really returns the values. *)
Example C09_section_example :
  let items := [{| v_start := 5; v_end := 9; v_bits := 1065353216 |}; {| v_start := 9; v_end := 20; v_bits := 3212836864 |}] in
  match encode_section 3 items with
  | Ok sd => parse_wig_section false (sd_bytes sd) = Some (3, 5, 20, map (rec_of 3) items) /\ Forall val_ok items
  | _ => False
  end.
Proof.
  cbv zeta. split; [vm_compute; reflexivity|].
  repeat (constructor; [unfold val_ok, W32; cbn [v_start v_end v_bits]; lia|]). constructor.
Qed.

Example C09_chrom_tree_example :
  let chroms : idmap := [([99; 104; 114; 49], 0); ([99; 104; 114; 49; 48], 1)] in
  let sizes := [([99; 104; 114; 49; 48], 700); ([99; 104; 114; 49], 1000)] in
  match chrom_tree_bytes sizes chroms with
  | Ok ct => parse_chrom_tree (repeatN 7 5 ++ ct ++ [1; 2]) (5 + Nlen ct + 2) false true 5
             = Some ([{| fc_name := [99; 104; 114; 49]; fc_id := 0; fc_size := 1000 |};
                      {| fc_name := [99; 104; 114; 49; 48]; fc_id := 1; fc_size := 700 |}], 5 + Nlen ct)
             /\ names_increasing (map fst chroms)
  | _ => False
  end.
Proof. cbv zeta. split; [vm_compute; reflexivity|]. cbn. split; [reflexivity|exact I]. Qed.

Example C09_rtree_example :
  let secs := map (fun i => {| s_chrom := N.of_nat (i / 4); s_start := N.of_nat (10 * (i mod 4)); s_end := N.of_nat (10 * (i mod 4) + 7);
                               s_off := N.of_nat (100 + 3 * i); s_size := 3 |}) (seq 0 9) in
  match write_index 2 5 200 secs with
  | Ok (bs, _) => exists h e, parse_index (repeatN 0 200 ++ bs ++ [9; 9]) (200 + Nlen bs + 2) false 200 100 127
                               = Some (h, map lf_of secs, e) /\ e = 200 + Nlen bs
  | _ => False
  end.
Proof. cbv zeta. vm_compute. eexists _, _. split; reflexivity. Qed.

(* a whole file: the hypotheses of C09_decode_encode are met and the decoder returns what it says *)
Definition c09_ex_opts : opts :=
  {| o_compress := false; o_ips := 2; o_bs := 2; o_izoom := 10; o_maxzooms := 10; o_manual := Some [5; 40]; o_sort_all := true |}.
Definition c09_ex_sizes : list (name * N) := [([98], 50); ([97], 100)].
Definition c09_ex_input : list item :=
  [([97], {| v_start := 0; v_end := 5; v_bits := 1065353216 |}); ([97], {| v_start := 5; v_end := 12; v_bits := 1073741824 |});
   ([97], {| v_start := 20; v_end := 30; v_bits := 1056964608 |}); ([98], {| v_start := 3; v_end := 4; v_bits := 1065353216 |})].
Example C09_whole_file_example : exists bs ids outs sum data,
  bw_write ieee c09_ex_opts c09_ex_sizes c09_ex_input = Ok bs
  /\ bw_collect ieee c09_ex_opts c09_ex_sizes c09_ex_input = Ok (ids, outs, sum, data)
  /\ opts_ok c09_ex_opts /\ input_ok c09_ex_sizes c09_ex_input /\ Nlen bs < U64
  /\ Forall (fun c : name => c <> []) (map fst (runs c09_ex_input)) /\ o_sort_all c09_ex_opts = true
  /\ Forall (fun z => z < W32) (zoom_sizes_single c09_ex_opts)
  /\ decode bs (fun _ _ => None) = Some (content_of ieee c09_ex_opts c09_ex_sizes ids outs sum 0 [5; 40])
  /\ map (fun r => (fr_chrom r, fr_start r, fr_end r)) (recs_of outs) = [(0, 0, 5); (0, 5, 12); (0, 20, 30); (1, 3, 4)]
  /\ Nlen bs = 1342.
Proof.
  do 5 eexists. split; [vm_compute; reflexivity|]. split; [vm_compute; reflexivity|].
  split; [unfold opts_ok, c09_ex_opts; cbn [o_bs o_ips]; lia|].
  split.
  { unfold input_ok. change (runs c09_ex_input) with
      [([97], [{| v_start := 0; v_end := 5; v_bits := 1065353216 |}; {| v_start := 5; v_end := 12; v_bits := 1073741824 |};
                {| v_start := 20; v_end := 30; v_bits := 1056964608 |}]); ([98], [{| v_start := 3; v_end := 4; v_bits := 1065353216 |}])].
    cbn [map fst]. unfold BigWigFileChroms.no_zero, U16, U32, c09_ex_sizes, c09_ex_input.
    repeat split; repeat (constructor; cbn [fst snd v_bits]; try (repeat split); try (repeat constructor); try lia; try discriminate). }
  split; [vm_compute; reflexivity|].
  split; [cbn; repeat constructor; discriminate|]. split; [reflexivity|].
  split; [apply Forall_forall; intros z Hz; vm_compute in Hz; unfold W32; destruct Hz as [<-|[<-|[]]]; lia|].
  split; [vm_compute; reflexivity|]. split; vm_compute; reflexivity.
Qed.

(* a compressed file: a toy compressor (prefix each block with its length byte pair) and its inverse
   as inflate oracle meet the hypotheses of C09_decode_encode_compressed; buffer size 64 = largest block (a zoom section of two records) *)
Definition toy_compress (b : list N) : list N := 255 :: 254 :: b.
Definition toy_inflate (img : list N) (off size : N) : option (list N) :=
  match slice img off (N.to_nat size) with Some (255 :: 254 :: b) => Some b | _ => None end.
Definition c09_exz_opts : opts :=
  {| o_compress := true; o_ips := 2; o_bs := 2; o_izoom := 10; o_maxzooms := 10; o_manual := Some [5; 40]; o_sort_all := true |}.
Example C09_compressed_file_example : exists bs ids outs sum data,
  bw_write_z toy_compress ieee c09_exz_opts c09_ex_sizes c09_ex_input = Ok bs
  /\ bw_collect ieee c09_exz_opts c09_ex_sizes c09_ex_input = Ok (ids, outs, sum, data)
  /\ (forall b, toy_compress b <> []) /\ inflate_ok toy_compress bs (toy_inflate bs)
  /\ decode bs (toy_inflate bs) = Some (content_of ieee c09_exz_opts c09_ex_sizes ids outs sum 64 [5; 40]).
Proof.
  do 5 eexists. split; [vm_compute; reflexivity|]. split; [vm_compute; reflexivity|].
  split; [discriminate|]. split.
  - intros off b H. unfold toy_inflate. rewrite (has_at_slice_N _ off (toy_compress b) _ H eq_refl). reflexivity.
  - vm_compute. reflexivity.
Qed.

(* ------------------------------------------------------------------------------------------
   Part 4: bigBed.  The writer model is Model/BigBedWrite.v (bb_write / bb_write_multipass: byte-exact,
   uncompressed, over the coverage sweeps of Model/BedSweep.v); the decoder's bigBed-specific parts are
   the entry records (chromId, start, end, NUL-terminated rest, repeated to the end of the block), the
   autoSql text at its offset (NUL-terminated before the total summary), the field counts, and two
   tolerances: only the START of an entry has to lie inside the chromosome, and zoom records may end
   past the chromosome length (the writer checks entry starts only). *)
From BT Require Import Model.BigBedWrite Proofs.C09BedBlock Proofs.C09BedFile Proofs.C09BedZoom Proofs.C09BedWhole.
From BT Require Model.BedSweep Proofs.BedQuery Proofs.BedImage Proofs.BedEndToEnd.

(* bigBed data block codec: the bytes encode_section writes for entries with 32-bit coordinates and NUL-free
   rest fields parse back to exactly those entries (no [0,0) exclusion: the decoder has no padding rule) *)
Theorem C09_bb_block_codec : forall chrom, chrom < W32 -> forall items fuel, Forall bentry_ok items ->
  (length (flat_map (entry_bytes chrom) items) <= fuel)%nat ->
  parse_bed_items false fuel (flat_map (entry_bytes chrom) items) = Some (map (brec_of chrom) items).
Proof. exact parse_bed_items_ok. Qed.
Print Assumptions C09_bb_block_codec.

(* The whole file.  [bed_hyps]: block_size <= 65535, items_per_slot <= 65535, fewer than 65536 chromosomes, names
   non-empty / NUL-free / shorter than 2^32, entry coordinates < 2^32, rest fields NUL-free, chromosome sizes < 2^32,
   file shorter than 2^64 bytes (block_size >= 2 and items_per_slot >= 1 are no hypotheses: the writer refuses
   otherwise).  For every accepted input, every autoSql (None = the library's BED3 text), every arithmetic mode
   and EVERY inflate oracle (the file is uncompressed) the independent decoder returns [bed_content_of]:
   the chromosome table (name, id, size) in id order, exactly the input entries (C09_bb_records_are_input), the
   entries per block (C09_bb_blocks: 1..items_per_slot, one chromosome), the autoSql text verbatim and the field
   counts as stored, item count = number of input entries, the 40 summary bytes of BedSweep's bb_total_summary
   (C09_bb_summary_is_sweep; C06_bb_summary ties it to the depth statistics), and for every written level
   the records bb_zoom_records produced (C09_bb_level_is_records; C08_stats / C08_partition tie them to depth).
   The levels written are a strictly increasing sub-list of the candidate resolutions, at most 10. *)
Theorem C09_bb_decode_encode : forall fp o sizes autosql input bs inflate,
  bb_write fp o sizes autosql input = Ok bs -> bed_hyps o sizes input bs ->
  Forall (fun z => z < W32) (zoom_sizes_single o) ->
  o_sort_all o = true ->
  exists fc ids outs kept,
    bb_schema autosql = Ok (stored_autosql autosql, fc) /\ bb_collect o sizes input = Ok (ids, outs)
    /\ incl kept (zoom_sizes_single o) /\ inc_from 0 kept /\ Nlen kept <= 10
    /\ Forall (level_runs fp o outs) kept
    /\ decode bs inflate = Some (bed_content_of fp o sizes input (stored_autosql autosql) fc ids outs kept).
Proof.
  intros fp o sizes autosql input bs inflate H Hh Hu Hs.
  exact (bb_write_single_decodes fp o sizes autosql input bs true inflate H Hh Hu (fun _ => Hs)).
Qed.
Print Assumptions C09_bb_decode_encode.

Theorem C09_bb_decode_encode_multipass : forall fp o sizes autosql input bs inflate,
  bb_write_multipass fp o sizes autosql input = Ok bs -> bed_hyps o sizes input bs ->
  manual_u32 o ->
  o_sort_all o = true ->
  exists fc ids outs kept,
    bb_schema autosql = Ok (stored_autosql autosql, fc) /\ bb_collect o sizes input = Ok (ids, outs)
    /\ inc_from 0 kept /\ Nlen kept <= 10
    /\ Forall (level_runs fp o outs) kept
    /\ decode bs inflate = Some (bed_content_of fp o sizes input (stored_autosql autosql) fc ids outs kept).
Proof.
  intros fp o sizes autosql input bs inflate H Hh Hu Hs.
  exact (bb_write_multipass_decodes fp o sizes autosql input bs true inflate H Hh Hu (fun _ => Hs)).
Qed.
Print Assumptions C09_bb_decode_encode_multipass.

(* without any assumption on the order of the chromosomes, for the decoder that tolerates unsorted keys *)
Theorem C09_bb_decode_encode_lenient : forall fp o sizes autosql input bs inflate,
  bb_write fp o sizes autosql input = Ok bs \/ bb_write_multipass fp o sizes autosql input = Ok bs ->
  bed_hyps o sizes input bs ->
  Forall (fun z => z < W32) (zoom_sizes_single o) -> manual_u32 o ->
  exists fc ids outs kept,
    bb_schema autosql = Ok (stored_autosql autosql, fc) /\ bb_collect o sizes input = Ok (ids, outs)
    /\ inc_from 0 kept /\ Nlen kept <= 10
    /\ Forall (level_runs fp o outs) kept
    /\ decode_lenient bs inflate = Some (bed_content_of fp o sizes input (stored_autosql autosql) fc ids outs kept).
Proof.
  intros fp o sizes autosql input bs inflate [H|H] Hh Hu1 Hu2.
  - destruct (bb_write_single_decodes fp o sizes autosql input bs false inflate H Hh Hu1 ltac:(discriminate))
      as (fc & ids & outs & kept & A & B & _ & C & D & E & F). exists fc, ids, outs, kept.
    split; [exact A|]. split; [exact B|]. split; [exact C|]. split; [exact D|]. split; [exact E|exact F].
  - exact (bb_write_multipass_decodes fp o sizes autosql input bs false inflate H Hh Hu2 ltac:(discriminate)).
Qed.
Print Assumptions C09_bb_decode_encode_lenient.

(* what [bed_content_of] holds, in terms of the input alone *)
(* the records: the input entries in input order, each with the id of its chromosome *)
Theorem C09_bb_records_are_input : forall o sizes input ids outs,
  bb_collect o sizes input = Ok (ids, outs) -> brecs_of outs = bed_input_records ids input.
Proof. exact bed_records_are_input. Qed.
Print Assumptions C09_bb_records_are_input.

(* the chromosomes: the runs of equal names of the input, pairwise distinct, numbered 0,1,2,.. in order of
   first appearance, each with the supplied size; the runs concatenate to the input *)
Theorem C09_bb_outs_are_runs : forall o sizes input ids outs, bb_collect o sizes input = Ok (ids, outs) ->
  map (fun c => (bc_name c, bc_entries c)) outs = bruns input
  /\ map bc_id outs = seqN 0 (length (bruns input))
  /\ ids = combine (map fst (bruns input)) (seqN 0 (length (bruns input)))
  /\ NoDup (map fst (bruns input))
  /\ BedQuery.untag (bruns input) = input
  /\ Forall (fun c => lookup (bc_name c) sizes = Some (bc_len c)) outs.
Proof. exact bed_outs_are_runs. Qed.
Print Assumptions C09_bb_outs_are_runs.

(* the blocks: each holds between 1 and items_per_slot entries of one chromosome, and the blocks concatenate
   to the records *)
Theorem C09_bb_blocks : forall ips (outs : list bchrom), 1 <= ips ->
  Forall (fun g : N * list entry => 1 <= Nlen (snd g) <= ips) (BedImage.gsecs ips (BedEndToEnd.groups_of outs))
  /\ concat (map (fun g : N * list entry => map (brec_of (fst g)) (snd g)) (BedImage.gsecs ips (BedEndToEnd.groups_of outs))) = brecs_of outs.
Proof. exact bed_blocks_sized. Qed.
Print Assumptions C09_bb_blocks.

(* the total summary is BedSweep's bb_total_summary over the runs of the input *)
Theorem C09_bb_summary_is_sweep : forall fp o sizes input ids outs, bb_collect o sizes input = Ok (ids, outs) ->
  bb_sweep fp outs = BedSweep.bb_total_summary fp (map (fun r : name * list entry => map to_sw (snd r)) (bruns input)).
Proof. exact bed_summary_is_sweep. Qed.
Print Assumptions C09_bb_summary_is_sweep.

(* a written level: chromosome by chromosome, in file order, exactly what bb_zoom_records returns *)
Theorem C09_bb_level_is_records : forall fp o outs size, level_runs fp o outs size ->
  exists per : list (list (list zrec)),
    Forall2 (fun c recs => BedSweep.bb_zoom_records fp (o_ips o) size (bc_id c) (sw_entries c) = Ok recs) outs per
    /\ bb_level_content fp o outs size = (size, map (zr_view fp) (concat (concat per))).
Proof. exact bed_level_is_records. Qed.
Print Assumptions C09_bb_level_is_records.

(* every zoom section process_val_zoom sends holds between 1 and items_per_slot records (any arithmetic mode) *)
Theorem C09_bb_zoom_sections_sized : forall fp ips size chrom es secs, 1 <= ips ->
  BedSweep.bb_zoom_records fp ips size chrom es = Ok secs -> Forall (fun rs : list zrec => rs <> [] /\ Nlen rs <= ips) secs.
Proof. exact tile_sections_sized. Qed.
Print Assumptions C09_bb_zoom_sections_sized.

(* "the correct statistics", made explicit by composing with C06's and C08's theorems about the sweeps (exact
   arithmetic; the IEEE instance equals it below 2^53: C06_bb_summary_ieee, and has the same record geometry:
   C08_geometry_any_mode): the summary the decoder returns for a written bigBed is (item count, covered bases,
   sum of depth, sum of depth^2, min / max depth over the covered bases) of the chromosome runs of the input *)
From BT Require Import Spec.Depth Proofs.C09BedStats.
From BT Require Proofs.BedSummary Proofs.BedTile Proofs.C06FileBed.
Theorem C09_bb_summary_statistics : forall U o sizes input ids outs,
  bb_collect o sizes input = Ok (ids, outs) -> U <= BedSweep.U32_MAX -> Forall (fun it : bitem => e_end (snd it) <= U) input ->
  let chroms := C06FileBed.chroms_of input in
  BedSummary.sform (bb_sweep exact outs)
    (Nlen input) (sumN (map (BedSummary.c_cov U) chroms)) (sumN (map (BedSummary.c_sum U) chroms))
    (sumN (map (BedSummary.c_sumsq U) chroms))
    (fold_left (fun a es => opt_meet N.min a (BedSummary.c_min U es)) chroms None)
    (fold_left (fun a es => opt_meet N.max a (BedSummary.c_max U es)) chroms None).
Proof. exact bed_summary_statistics. Qed.
Print Assumptions C09_bb_summary_statistics.

(* every level, every chromosome: the tiling run succeeds, its records are the ones in the level, each record holds
   the depth statistics of its span and every base with depth > 0 lies in a record *)
Theorem C09_bb_level_statistics : forall o sizes input ids outs size c,
  bb_collect o sizes input = Ok (ids, outs) -> opts_ok o -> bed_input_ok input -> Nlen (bruns input) < W16 ->
  Forall (fun s : name * N => snd s < W32) sizes ->
  1 <= size -> In c outs ->
  exists secs, BedSweep.bb_zoom_records exact (o_ips o) size (bc_id c) (sw_entries c) = Ok secs
    /\ chrom_rsecs exact (o_ips o) size c = secs
    /\ Forall (BedTile.zstats_spec (depth (sw_entries c))) (concat secs)
    /\ (forall x, 0 < depth (sw_entries c) x -> BedTile.covered_by (concat secs) x).
Proof. exact bed_level_statistics. Qed.
Print Assumptions C09_bb_level_statistics.

(* Non-vacuity: a bigBed with overlapping entries, an entry ending past its chromosome, rest fields, the default
   autoSql, two chromosomes and two zoom levels meets every hypothesis of C09_bb_decode_encode, and the decoder
   returns what the theorem says (3244 bytes). *)
Definition c09_bb_opts : opts :=
  {| o_compress := false; o_ips := 2; o_bs := 2; o_izoom := 10; o_maxzooms := 10; o_manual := Some [5; 40]; o_sort_all := true |}.
Definition c09_bb_sizes : list (name * N) := [([98], 50); ([97], 100)].
Definition c09_bb_input : list bitem :=
  [([97], {| e_start := 0; e_end := 12; e_rest := [120; 9; 49] |}); ([97], {| e_start := 5; e_end := 9; e_rest := [] |});
   ([97], {| e_start := 5; e_end := 130; e_rest := [121] |}); ([98], {| e_start := 3; e_end := 4; e_rest := [122] |})].
Example C09_bb_whole_file_example : exists bs fc ids outs,
  bb_write ieee c09_bb_opts c09_bb_sizes None c09_bb_input = Ok bs
  /\ bb_collect c09_bb_opts c09_bb_sizes c09_bb_input = Ok (ids, outs)
  /\ bed_hyps c09_bb_opts c09_bb_sizes c09_bb_input bs
  /\ Forall (fun z => z < W32) (zoom_sizes_single c09_bb_opts) /\ manual_u32 c09_bb_opts /\ o_sort_all c09_bb_opts = true
  /\ decode bs (fun _ _ => None) = Some (bed_content_of ieee c09_bb_opts c09_bb_sizes c09_bb_input (stored_autosql None) fc ids outs [5; 40])
  /\ map (fun r => (fr_chrom r, fr_start r, fr_end r, fr_rest r)) (brecs_of outs)
     = [(0, 0, 12, [120; 9; 49]); (0, 5, 9, []); (0, 5, 130, [121]); (1, 3, 4, [122])]
  /\ fc = 3 /\ Nlen bs = 3244.
Proof.
  do 4 eexists. split; [vm_compute; reflexivity|]. split; [vm_compute; reflexivity|].
  split.
  { unfold bed_hyps. split; [cbn; lia|]. split; [cbn; lia|]. split; [vm_compute; reflexivity|]. split.
    - unfold bed_input_ok, c09_bb_input, name_ok, bentry_ok, W32. 
      repeat (constructor; [cbn [fst snd e_start e_end e_rest]; repeat split; try discriminate; try lia; repeat (constructor; try lia; try discriminate)|]).
      constructor.
    - split; [|vm_compute; reflexivity]. unfold c09_bb_sizes, W32. repeat (constructor; [cbn [snd]; lia|]). constructor. }
  split; [apply Forall_forall; intros z Hz; vm_compute in Hz; unfold W32; destruct Hz as [<-|[<-|[]]]; lia|].
  split; [intros zs E; injection E as <-; unfold W32; repeat (constructor; [lia|]); constructor|].
  split; [reflexivity|].
  split; [vm_compute; reflexivity|]. split; [vm_compute; reflexivity|]. split; vm_compute; reflexivity.
Qed.

(* ---------------------------------------------------------------- zlib / DEFLATE as an executable specification
   Spec/Inflate.v is the decoder that judges whether a block of a written file is a standard zlib stream;
   proofs in Proofs/Inflate*.v. *)
From BT Require Import Spec.Inflate Proofs.InflateFuel Proofs.InflateStored Proofs.InflateHuffman Proofs.InflateThms.

Theorem C09_inflate_never_fuel : forall input, inflate input <> Fuel /\ inflate input <> Panic.
Proof. exact inflate_never_fuel. Qed.
Print Assumptions C09_inflate_never_fuel.

Theorem C09_zlib_decode_res_total : forall input,
  (exists d, zlib_decode_res input = Ok d) \/ (exists e, zlib_decode_res input = Err e).
Proof. exact zlib_decode_res_total. Qed.
Print Assumptions C09_zlib_decode_res_total.

Theorem C09_inflate_step_consumes : forall st st1, step st = Ok (inl st1) -> (blen (i_bs st1) < blen (i_bs st))%nat.
Proof. exact inflate_step_consumes. Qed.
Print Assumptions C09_inflate_step_consumes.

Theorem C09_adler32_closed_form : forall l,
  adler32 l = (sumN (prefix_sums 1 l)) mod 65521 * 65536 + (1 + sumN l) mod 65521.
Proof. exact adler32_closed_form. Qed.
Print Assumptions C09_adler32_closed_form.

Theorem C09_adler32_fits_u32 : forall l, adler32 l < 4294967296.
Proof. exact adler32_fits_u32. Qed.
Print Assumptions C09_adler32_fits_u32.

Theorem C09_adler32_streaming : forall a b,
  adler32 (a ++ b) = let st := fold_left adler_step b (adler_state a) in snd st * 65536 + fst st.
Proof. exact adler32_streaming. Qed.
Print Assumptions C09_adler32_streaming.

Theorem C09_lz_copy_correct : forall len dist out,
  len <= 258 -> 1 <= dist -> dist <= Nlen out ->
  lz_copy 258 len dist out = lz_copy_spec (N.to_nat len) dist out.
Proof. exact lz_copy_correct. Qed.
Print Assumptions C09_lz_copy_correct.

Theorem C09_length_codes_in_range : forall i s len s1, base_extra len_table E_CODE i s = Ok (len, s1) -> 3 <= len <= 258.
Proof. exact length_codes_in_range. Qed.
Print Assumptions C09_length_codes_in_range.

Theorem C09_distance_codes_in_range : forall i s d s1, base_extra dist_table E_DCODE i s = Ok (d, s1) -> 1 <= d <= 32768.
Proof. exact distance_codes_in_range. Qed.
Print Assumptions C09_distance_codes_in_range.

Theorem C09_huffman_tree_decodes_canonical_code : forall kind bad lens t, build kind bad lens = Ok t ->
  forall sym l, nth_error lens sym = Some l -> l <> 0 ->
  forall r rest, hwalk t (code_bits (N.to_nat l) (canonical_code lens sym) ++ r, rest) = Ok (N.of_nat sym, (r, rest)).
Proof. exact huffman_tree_decodes_canonical_code. Qed.
Print Assumptions C09_huffman_tree_decodes_canonical_code.

Theorem C09_huffman_canonical_code_prefix_free : forall kind bad lens t, build kind bad lens = Ok t ->
  forall s1 s2 l1 l2 tail, nth_error lens s1 = Some l1 -> nth_error lens s2 = Some l2 -> l1 <> 0 -> l2 <> 0 ->
  code_bits (N.to_nat l1) (canonical_code lens s1) ++ tail = code_bits (N.to_nat l2) (canonical_code lens s2) ->
  s1 = s2.
Proof. exact huffman_canonical_code_prefix_free. Qed.
Print Assumptions C09_huffman_canonical_code_prefix_free.

Theorem C09_stored_len_check_is_complement : forall len nlen, len < 65536 -> nlen < 65536 ->
  (len + nlen =? 65535) = (nlen =? N.lnot len 16).
Proof. exact stored_len_check_is_complement. Qed.
Print Assumptions C09_stored_len_check_is_complement.

Theorem C09_zlib_decode_stored : forall b, zlib_decode (zlib_store b) = Some b.
Proof. exact zlib_decode_stored. Qed.
Print Assumptions C09_zlib_decode_stored.

Theorem C09_zlib_store_one_block : forall b, Nlen b < 65536 ->
  zlib_store b = [120; 1] ++ [1; Nlen b mod 256; Nlen b / 256; (65535 - Nlen b) mod 256; (65535 - Nlen b) / 256] ++ b
                 ++ be32 (adler32 b).
Proof. exact zlib_store_one_block. Qed.
Print Assumptions C09_zlib_store_one_block.

Theorem C09_decode_encode_zlib_stored : forall fp o sizes inp bs,
  bw_write_z zlib_store fp o sizes inp = Ok bs -> opts_ok o -> input_ok sizes inp -> Nlen bs < U64 ->
  Forall (fun c : name => c <> []) (map fst (runs inp)) ->
  o_sort_all o = true ->
  Forall (fun z => z < W32) (zoom_sizes_single o) ->
  exists ids outs sum data kept ubuf,
    bw_collect fp o sizes inp = Ok (ids, outs, sum, data)
    /\ incl kept (zoom_sizes_single o) /\ inc_from 0 kept /\ (ubuf = 0 <-> o_compress o = false)
    /\ decode bs (zlib_inflate_at bs) = Some (content_of fp o sizes ids outs sum ubuf kept).
Proof. exact C09_decode_encode_zlib_stored. Qed.
Print Assumptions C09_decode_encode_zlib_stored.

Theorem C09_decode_encode_zlib_stored_multipass : forall fp o sizes inp bs,
  bw_write_multipass_z zlib_store fp o sizes inp = Ok bs -> opts_ok o -> input_ok sizes inp -> Nlen bs < U64 ->
  Forall (fun c : name => c <> []) (map fst (runs inp)) ->
  o_sort_all o = true ->
  manual_u32 o ->
  exists ids outs sum data kept ubuf,
    bw_collect fp o sizes inp = Ok (ids, outs, sum, data)
    /\ inc_from 0 kept /\ (ubuf = 0 <-> o_compress o = false)
    /\ decode bs (zlib_inflate_at bs) = Some (content_of fp o sizes ids outs sum ubuf kept).
Proof. exact C09_decode_encode_zlib_stored_multipass. Qed.
Print Assumptions C09_decode_encode_zlib_stored_multipass.

(* ---------------------------------------------------------------- bigBed, COMPRESSED files
   Model/BigBedWriteZ.v is the bigBed writer model with the block compressor as a parameter (data sections and zoom
   sections through [compress] when options.compress is set; uncompress_buf_size as bigbedwrite.rs / bbiwrite.rs compute
   it; write_zooms' skipping rules and the two-pass automatic level selection look at COMPRESSED sizes).  The theorems
   below are the bigBed twins of C09_model_uncompressed / C09_decode_encode_compressed / C09_buf_size /
   C09_decode_encode_zlib_stored.  Hypotheses on the pair: [compress] never returns the empty list, and the inflate
   oracle inverts it on the byte ranges of the file that hold a compressed block ([inflate_ok]).  New field-width
   hypothesis [ubuf_fits_dec] (only when options.compress is set): every data block is shorter than 2^32 bytes before
   compression (uncompress_buf_size is a u32; a rest-of-line has no length limit) and the item count fits its u64
   (it is no longer bounded by the file size once blocks are compressed). *)
From BT Require Import Model.BigBedWriteZ Proofs.C09BedZFile Proofs.C09BedZWhole Proofs.C09BedZInflate.
From BT Require Proofs.BedFileZ Proofs.BedFileZThms.

(* with compression off the parametric model IS Model/BigBedWrite.v *)
Theorem C09_bb_model_uncompressed : forall compress fp o sizes autosql input, o_compress o = false ->
  bb_write_z compress fp o sizes autosql input = bb_write fp o sizes autosql input
  /\ bb_write_multipass_z compress fp o sizes autosql input = bb_write_multipass fp o sizes autosql input.
Proof. exact BedFileZ.bb_write_z_uncompressed. Qed.
Print Assumptions C09_bb_model_uncompressed.

(* every compressor with non-empty outputs, every inflate oracle inverting it on the file's blocks: same content as
   C09_bb_decode_encode with uncompressBufSize = the largest uncompressed block (> 0, < 2^32) instead of 0 *)
Theorem C09_bb_decode_encode_compressed : forall compress fp o sizes autosql input bs inflate,
  bb_write_z compress fp o sizes autosql input = Ok bs -> bed_hyps o sizes input bs ->
  Forall (fun z => z < W32) (zoom_sizes_single o) ->
  o_sort_all o = true ->
  (forall b, compress b <> []) -> (o_compress o = true -> inflate_ok compress bs inflate) ->
  ubuf_fits_dec o input ->
  exists fc ids outs kept ubuf,
    bb_schema autosql = Ok (stored_autosql autosql, fc) /\ bb_collect o sizes input = Ok (ids, outs)
    /\ incl kept (zoom_sizes_single o) /\ inc_from 0 kept /\ Nlen kept <= 10
    /\ Forall (level_runs fp o outs) kept
    /\ (ubuf = 0 <-> o_compress o = false) /\ ubuf < W32
    /\ decode bs inflate = Some (bed_content_of_z fp o sizes input (stored_autosql autosql) fc ids outs ubuf kept).
Proof.
  intros compress fp o sizes autosql input bs inflate H Hh Hu Hs Hc Hi Hf.
  exact (bb_write_z_single_decodes compress fp o sizes autosql input bs true inflate H Hh Hu (fun _ => Hs) Hc Hi Hf).
Qed.
Print Assumptions C09_bb_decode_encode_compressed.

(* two passes: the levels are selected from the COMPRESSED data size *)
Theorem C09_bb_decode_encode_compressed_multipass : forall compress fp o sizes autosql input bs inflate,
  bb_write_multipass_z compress fp o sizes autosql input = Ok bs -> bed_hyps o sizes input bs ->
  manual_u32 o ->
  o_sort_all o = true ->
  (forall b, compress b <> []) -> (o_compress o = true -> inflate_ok compress bs inflate) ->
  ubuf_fits_dec o input ->
  exists fc ids outs kept ubuf,
    bb_schema autosql = Ok (stored_autosql autosql, fc) /\ bb_collect o sizes input = Ok (ids, outs)
    /\ inc_from 0 kept /\ Nlen kept <= 10
    /\ Forall (level_runs fp o outs) kept
    /\ (ubuf = 0 <-> o_compress o = false) /\ ubuf < W32
    /\ decode bs inflate = Some (bed_content_of_z fp o sizes input (stored_autosql autosql) fc ids outs ubuf kept).
Proof.
  intros compress fp o sizes autosql input bs inflate H Hh Hu Hs Hc Hi Hf.
  exact (bb_write_z_multipass_decodes compress fp o sizes autosql input bs true inflate H Hh Hu (fun _ => Hs) Hc Hi Hf).
Qed.
Print Assumptions C09_bb_decode_encode_compressed_multipass.

(* the lenient decoder, no order hypothesis, both writers *)
Theorem C09_bb_decode_encode_compressed_lenient : forall compress two_pass fp o sizes autosql input bs inflate,
  BedFileZThms.bb_write_either_z compress two_pass fp o sizes autosql input = Ok bs -> bed_hyps o sizes input bs ->
  C08FileQuery.zoom_res_u32 two_pass o ->
  (forall b, compress b <> []) -> (o_compress o = true -> inflate_ok compress bs inflate) ->
  ubuf_fits_dec o input ->
  exists sql fc ids outs kept ubuf,
    bb_schema autosql = Ok (sql, fc) /\ bb_collect o sizes input = Ok (ids, outs)
    /\ inc_from 0 kept /\ Nlen kept <= 10
    /\ (ubuf = 0 <-> o_compress o = false) /\ ubuf < W32
    /\ decode_lenient bs inflate = Some (bed_content_of_z fp o sizes input sql fc ids outs ubuf kept).
Proof.
  intros compress two_pass fp o sizes autosql input bs inflate H Hh Hu Hc Hi Hf.
  assert (H' : BedFileZThms.bb_write_either_zc compress (o_compress o) two_pass fp o sizes autosql input = Ok bs)
    by (unfold BedFileZThms.bb_write_either_zc; destruct two_pass; exact H).
  destruct (bb_write_zc_decodes compress (o_compress o) two_pass fp o sizes autosql input bs false inflate H' Hh Hu
              ltac:(discriminate) Hc Hi Hf) as (sql & fc & ids & outs & kept & ubuf & A & B & C & D & _ & _ & G1 & G2 & G).
  exists sql, fc, ids, outs, kept, ubuf. auto 10.
Qed.
Print Assumptions C09_bb_decode_encode_compressed_lenient.

(* the buffer size: for EVERY compressor (no hypothesis on it) and every input the writers accept, the header field is
   >= the uncompressed size of every data section and of every section of every zoom level computed (single pass: also
   the levels write_zooms then skips), 0 iff options.compress is off, and < 2^32 when the uncompressed blocks are *)
Theorem C09_bb_buf_size : forall compress fp o sizes autosql input bs,
  bb_write_z compress fp o sizes autosql input = Ok bs ->
  exists sql fc ids outs data zooms ubuf nz a1 a2 a3 a4,
    bb_schema autosql = Ok (sql, fc) /\ bb_collect o sizes input = Ok (ids, outs) /\ bb_data o outs = Ok data
    /\ mapM (bb_zoom_level fp o outs) (zoom_sizes_single o) = Ok zooms
    /\ has_at bs 0 (header_bytes BIGBED_MAGIC nz a1 a2 a3 fc fc ASQL_OFFSET a4 ubuf)
    /\ blocks_bound (o_compress o) ubuf (data ++ flat_map zl_secs zooms)
    /\ (ubuf = 0 <-> o_compress o = false)
    /\ (o_compress o = true -> BedFileZ.blocks_fit o input -> 32 * o_ips o < W32 -> ubuf < W32).
Proof. intros compress fp o sizes autosql input bs H. exact (bb_buf_size compress false fp o sizes autosql input bs H). Qed.
Print Assumptions C09_bb_buf_size.

(* two passes: data sections and the sections of the levels selected from the compressed data size (all are written) *)
Theorem C09_bb_buf_size_multipass : forall compress fp o sizes autosql input bs,
  bb_write_multipass_z compress fp o sizes autosql input = Ok bs ->
  exists sql fc ids outs data zooms ubuf nz a1 a2 a3 a4,
    bb_schema autosql = Ok (sql, fc) /\ bb_collect o sizes input = Ok (ids, outs) /\ bb_data o outs = Ok data
    /\ mapM (bb_zoom_level fp o outs)
         (zoom_sizes_two_pass o (bb_sweep fp outs) (total_zoom_counts (map chrom_out_of outs))
            (Nlen (data_bytes (map (zsec compress (o_compress o)) data)))) = Ok zooms
    /\ has_at bs 0 (header_bytes BIGBED_MAGIC nz a1 a2 a3 fc fc ASQL_OFFSET a4 ubuf)
    /\ blocks_bound (o_compress o) ubuf (data ++ flat_map zl_secs zooms)
    /\ (ubuf = 0 <-> o_compress o = false)
    /\ (o_compress o = true -> BedFileZ.blocks_fit o input -> 32 * o_ips o < W32 -> ubuf < W32).
Proof. intros compress fp o sizes autosql input bs H. exact (bb_buf_size compress true fp o sizes autosql input bs H). Qed.
Print Assumptions C09_bb_buf_size_multipass.

(* a sufficient condition for [blocks_fit] in terms of field sizes alone: rest-of-line at most R bytes and
   items_per_slot * (13 + R) < 2^32 (e.g. items_per_slot <= 65535 and R <= 65000) *)
Theorem C09_bb_blocks_fit_of_bounds : forall o input R, 1 <= o_ips o -> o_ips o * (13 + R) < W32 ->
  Forall (fun it : bitem => Nlen (e_rest (snd it)) <= R) input -> BedFileZ.blocks_fit o input.
Proof. exact BedFileZ.blocks_fit_of_bounds. Qed.
Print Assumptions C09_bb_blocks_fit_of_bounds.

(* REAL compressor, Coq inflater: no hypothesis on compression is left *)
Theorem C09_bb_decode_encode_zlib_stored : forall fp o sizes autosql input bs,
  bb_write_z zlib_store fp o sizes autosql input = Ok bs -> bed_hyps o sizes input bs ->
  Forall (fun z => z < W32) (zoom_sizes_single o) -> o_sort_all o = true -> ubuf_fits_dec o input ->
  exists fc ids outs kept ubuf,
    bb_schema autosql = Ok (stored_autosql autosql, fc) /\ bb_collect o sizes input = Ok (ids, outs)
    /\ incl kept (zoom_sizes_single o) /\ inc_from 0 kept /\ Nlen kept <= 10
    /\ Forall (level_runs fp o outs) kept
    /\ (ubuf = 0 <-> o_compress o = false) /\ ubuf < W32
    /\ decode bs (zlib_inflate_at bs) = Some (bed_content_of_z fp o sizes input (stored_autosql autosql) fc ids outs ubuf kept).
Proof. exact bb_decode_encode_zlib_stored. Qed.
Print Assumptions C09_bb_decode_encode_zlib_stored.

Theorem C09_bb_decode_encode_zlib_stored_multipass : forall fp o sizes autosql input bs,
  bb_write_multipass_z zlib_store fp o sizes autosql input = Ok bs -> bed_hyps o sizes input bs ->
  manual_u32 o -> o_sort_all o = true -> ubuf_fits_dec o input ->
  exists fc ids outs kept ubuf,
    bb_schema autosql = Ok (stored_autosql autosql, fc) /\ bb_collect o sizes input = Ok (ids, outs)
    /\ inc_from 0 kept /\ Nlen kept <= 10
    /\ Forall (level_runs fp o outs) kept
    /\ (ubuf = 0 <-> o_compress o = false) /\ ubuf < W32
    /\ decode bs (zlib_inflate_at bs) = Some (bed_content_of_z fp o sizes input (stored_autosql autosql) fc ids outs ubuf kept).
Proof. exact bb_decode_encode_zlib_stored_multipass. Qed.
Print Assumptions C09_bb_decode_encode_zlib_stored_multipass.

(* Non-vacuity: the input of C09_bb_whole_file_example written COMPRESSED (toy compressor; zlib_store) meets every
   hypothesis of C09_bb_decode_encode_compressed(_multipass) / C09_bb_decode_encode_zlib_stored, and the decoder returns
   what the theorems say: buffer size 64 (a zoom section of two records), two levels, blocks of 2, 1, 1 entries. *)
Definition c09_bbz_opts : opts :=
  {| o_compress := true; o_ips := 2; o_bs := 2; o_izoom := 10; o_maxzooms := 10; o_manual := Some [5; 40]; o_sort_all := true |}.
Lemma c09_bbz_fits : ubuf_fits_dec c09_bbz_opts c09_bb_input.
Proof.
  intros _. split; [|vm_compute; reflexivity].
  apply (BedFileZ.blocks_fit_of_bounds c09_bbz_opts c09_bb_input 3); [cbn; lia|cbn; unfold RTreeCodec.U32; lia|].
  unfold c09_bb_input. repeat (constructor; [cbn; lia|]). constructor.
Qed.
Lemma c09_bbz_hyps bs : Nlen bs < W64 -> bed_hyps c09_bbz_opts c09_bb_sizes c09_bb_input bs.
Proof.
  intros Hs. unfold bed_hyps. split; [cbn; lia|]. split; [cbn; lia|]. split; [vm_compute; reflexivity|]. split.
  - unfold bed_input_ok, c09_bb_input, name_ok, bentry_ok, W32.
    repeat (constructor; [cbn [fst snd e_start e_end e_rest]; repeat split; try discriminate; try lia; repeat (constructor; try lia; try discriminate)|]).
    constructor.
  - split; [|exact Hs]. unfold c09_bb_sizes, W32. repeat (constructor; [cbn [snd]; lia|]). constructor.
Qed.
Example C09_bb_compressed_file_example : exists bs bs2 fc ids outs,
  bb_write_z toy_compress ieee c09_bbz_opts c09_bb_sizes None c09_bb_input = Ok bs
  /\ bb_write_multipass_z toy_compress ieee c09_bbz_opts c09_bb_sizes None c09_bb_input = Ok bs2
  /\ bb_collect c09_bbz_opts c09_bb_sizes c09_bb_input = Ok (ids, outs)
  /\ bed_hyps c09_bbz_opts c09_bb_sizes c09_bb_input bs /\ bed_hyps c09_bbz_opts c09_bb_sizes c09_bb_input bs2
  /\ Forall (fun z => z < W32) (zoom_sizes_single c09_bbz_opts) /\ manual_u32 c09_bbz_opts /\ o_sort_all c09_bbz_opts = true
  /\ (forall b, toy_compress b <> []) /\ inflate_ok toy_compress bs (toy_inflate bs) /\ inflate_ok toy_compress bs2 (toy_inflate bs2)
  /\ ubuf_fits_dec c09_bbz_opts c09_bb_input
  /\ decode bs (toy_inflate bs) = Some (bed_content_of_z ieee c09_bbz_opts c09_bb_sizes c09_bb_input (stored_autosql None) fc ids outs 64 [5; 40])
  /\ decode bs2 (toy_inflate bs2) = Some (bed_content_of_z ieee c09_bbz_opts c09_bb_sizes c09_bb_input (stored_autosql None) fc ids outs 64 [5; 40])
  /\ decode bs (fun _ _ => None) = None
  /\ Nlen bs = 3290 /\ bb_write ieee c09_bb_opts c09_bb_sizes None c09_bb_input <> Ok bs.
Proof.
  do 5 eexists. split; [vm_compute; reflexivity|]. split; [vm_compute; reflexivity|]. split; [vm_compute; reflexivity|].
  split; [apply c09_bbz_hyps; vm_compute; reflexivity|]. split; [apply c09_bbz_hyps; vm_compute; reflexivity|].
  split; [apply Forall_forall; intros z Hz; vm_compute in Hz; unfold W32; destruct Hz as [<-|[<-|[]]]; lia|].
  split; [intros zs E; injection E as <-; unfold W32; repeat (constructor; [lia|]); constructor|].
  split; [reflexivity|]. split; [discriminate|].
  split; [intros off b H; unfold toy_inflate; rewrite (has_at_slice_N _ off (toy_compress b) _ H eq_refl); reflexivity|].
  split; [intros off b H; unfold toy_inflate; rewrite (has_at_slice_N _ off (toy_compress b) _ H eq_refl); reflexivity|].
  split; [exact c09_bbz_fits|].
  split; [vm_compute; reflexivity|]. split; [vm_compute; reflexivity|]. split; [vm_compute; reflexivity|].
  split; [vm_compute; reflexivity|]. vm_compute. discriminate.
Qed.

Example C09_bb_zlib_stored_file_example : exists bs fc ids outs,
  bb_write_z zlib_store ieee c09_bbz_opts c09_bb_sizes None c09_bb_input = Ok bs
  /\ bb_collect c09_bbz_opts c09_bb_sizes c09_bb_input = Ok (ids, outs)
  /\ bed_hyps c09_bbz_opts c09_bb_sizes c09_bb_input bs
  /\ Forall (fun z => z < W32) (zoom_sizes_single c09_bbz_opts) /\ o_sort_all c09_bbz_opts = true
  /\ ubuf_fits_dec c09_bbz_opts c09_bb_input
  /\ decode bs (zlib_inflate_at bs) = Some (bed_content_of_z ieee c09_bbz_opts c09_bb_sizes c09_bb_input (stored_autosql None) fc ids outs 64 [5; 40])
  /\ map (fun r => (fr_chrom r, fr_start r, fr_end r, fr_rest r)) (brecs_of outs)
     = [(0, 0, 12, [120; 9; 49]); (0, 5, 9, []); (0, 5, 130, [121]); (1, 3, 4, [122])]
  /\ Nlen bs = 3497.
Proof.
  do 4 eexists. split; [vm_compute; reflexivity|]. split; [vm_compute; reflexivity|].
  split; [apply c09_bbz_hyps; vm_compute; reflexivity|].
  split; [apply Forall_forall; intros z Hz; vm_compute in Hz; unfold W32; destruct Hz as [<-|[<-|[]]]; lia|].
  split; [reflexivity|]. split; [exact c09_bbz_fits|].
  split; [vm_compute; reflexivity|]. split; vm_compute; reflexivity.
Qed.
