(* C09 — every written file is well-formed for an independent decoder.
   Statements only, each closed by [exact], with Print Assumptions beneath.

   The decoder is Spec/FormatDecode.v: written from the published format, it shares no definition
   with the reader model or the writer models.  The encoders are the WRITER MODEL's
   (Model/BBIFile.v, Model/BigWigWrite.v, Model/RTree.v).  Part 1: component codecs
   decode_x (encode_x v) = Some v, for every value that fits the fields. *)
From BT Require Import Base.Util Base.LE Base.Float Generated.Consts Model.RTree Model.BBIFile Model.BigWigWrite
  Proofs.RTreeCodec Proofs.RTreeBuild Proofs.FileRegions Spec.FormatDecode Proofs.C09Base Proofs.C09Codec Proofs.C09Chrom Proofs.C09RTree.
Local Open Scope N_scope.

(* common header: the 64 bytes write_info emits, wherever the image holds them at offset 0 *)
Theorem C09_header_codec : forall img n magic nz ct dof ix fc dfc asql so ubuf,
  has_at img 0 (header_bytes magic nz ct dof ix fc dfc asql so ubuf) -> n = Nlen img ->
  nz < W16 -> ct < W64 -> dof < W64 -> ix < W64 -> fc < W16 -> dfc < W16 -> asql < W64 -> so < W64 -> ubuf < W32 ->
  parse_header img n false =
    Some {| fh_version := 4; fh_nzoom := nz; fh_ctoff := ct; fh_dataoff := dof; fh_ixoff := ix; fh_fc := fc;
            fh_dfc := dfc; fh_asql := asql; fh_sumoff := so; fh_ubuf := ubuf; fh_ext := 0 |}.
Proof. exact parse_header_ok. Qed.
Print Assumptions C09_header_codec.

(* zoom directory *)
Theorem C09_zoom_directory_codec : forall img n zs, has_at img 64 (flat_map zoom_header_bytes zs) -> n = Nlen img ->
  Forall zh_ok zs -> parse_zoomhdrs img n false (Nlen zs) = Some (map zh_view zs).
Proof. exact parse_zoomhdrs_ok. Qed.
Print Assumptions C09_zoom_directory_codec.

(* total summary: bases covered, and the four f64 fields as the bit patterns that were written *)
Theorem C09_summary_codec : forall img n off s, has_at img off (summary_bytes s) -> n = Nlen img -> su_bases s < W64 ->
  parse_summary img n false off = Some (sum_view s).
Proof. exact parse_summary_ok. Qed.
Print Assumptions C09_summary_codec.

(* bigWig data section (type 1, bedGraph): header fields and every (start, end, value pattern) *)
Theorem C09_section_codec : forall chrom items sd, encode_section chrom items = Ok sd ->
  chrom < W32 -> Forall val_ok items -> Nlen items < W16 ->
  parse_wig_section false (sd_bytes sd) = Some (sd_chrom sd, sd_start sd, sd_end sd, map (rec_of chrom) items)
  /\ sd_chrom sd = chrom /\ Nlen (sd_bytes sd) = 24 + 12 * Nlen items
  /\ exists f, hd_error items = Some f /\ sd_start sd = v_start f /\ sd_end sd = v_end (last items f).
Proof. exact parse_wig_section_ok. Qed.
Print Assumptions C09_section_codec.

(* zoom record and zoom section *)
Theorem C09_zoom_record_codec : forall fp recs, Forall zrec_ok recs ->
  parse_zoom_items false (length recs) (flat_map (zrec_bytes fp) recs) = map (zr_view fp) recs.
Proof. exact parse_zoom_items_ok. Qed.
Print Assumptions C09_zoom_record_codec.

Theorem C09_zoom_section_codec : forall fp recs sd, encode_zoom_section fp recs = Ok sd -> Forall zrec_ok recs ->
  Nlen (sd_bytes sd) = 32 * Nlen recs
  /\ parse_zoom_items false (N.to_nat (Nlen (sd_bytes sd) / 32)) (sd_bytes sd) = map (zr_view fp) recs
  /\ exists f, hd_error recs = Some f /\ sd_chrom sd = z_chrom f /\ sd_start sd = z_start f /\ sd_end sd = z_end (last recs f).
Proof. exact encode_zoom_section_ok. Qed.
Print Assumptions C09_zoom_section_codec.

(* chromosome B+ tree: names non-empty without NUL, ids 0..n-1 in order, fields in range; the strict
   decoder additionally needs the names in increasing byte order (what it checks and what
   write_chrom_tree does not establish by itself: see C09_chrom_keys_refuted) *)
Theorem C09_chrom_tree_codec : forall img n off sizes (chroms : idmap) ct (strict : bool),
  chrom_tree_bytes sizes chroms = Ok ct -> has_at img off ct -> n = Nlen img ->
  chroms <> [] -> Nlen chroms < W16 ->
  Forall (fun c => name_ok (fst c) /\ Nlen (fst c) < W32 /\ size_of sizes c < W32) chroms ->
  map snd chroms = seqN 0 (length chroms) ->
  (strict = true -> names_increasing (map fst chroms)) ->
  parse_chrom_tree img n false strict off = Some (map (chrom_view sizes) chroms, off + Nlen ct)
  /\ Nlen ct = 36 + Nlen chroms * (N.of_nat (fold_left (fun a c => Nat.max a (length (fst c))) chroms 0%nat) + 8).
Proof. exact parse_chrom_tree_ok. Qed.
Print Assumptions C09_chrom_tree_codec.

(* R-tree: for every fan-out 2..65535 and every non-empty (chrom,start)-sorted section list whose
   byte ranges are increasing and inside [lo,hi), the index write_rtreeindex lays out at any
   position is accepted by the independent decoder (magic, counts within the block size, every
   item inside the span its parent records, leaves in order and inside the data region, item
   count) and yields exactly the sections, in order; its nodes end inside the index bytes. *)
Theorem C09_rtree_codec : forall img n off lo hi b ips secs bs lv,
  write_index b ips off secs = Ok (bs, lv) -> has_at img off bs -> n = Nlen img -> n < W64 ->
  2 <= b <= 65535 -> 1 <= ips < W32 -> secs <> [] -> sorted_starts (map sect_span secs) -> Forall sect_ok secs ->
  Nlen secs <= n ->
  Forall (fun s => lo <= s_off s /\ s_off s + s_size s <= hi /\ 1 <= s_size s /\ s_start s <= s_end s) secs ->
  offs_chain secs ->
  exists h e, parse_index img n false off lo hi = Some (h, map lf_of secs, e)
    /\ ih_block h = b /\ ih_ips h = ips /\ ih_count h = Nlen secs /\ off + 48 <= e <= off + Nlen bs.
Proof. exact parse_index_ok. Qed.
Print Assumptions C09_rtree_codec.

(* Non-vacuity: concrete instances meet the hypotheses and the decoder really returns the values. *)
Example C09_section_example :
  let items := [{| v_start := 5; v_end := 9; v_bits := 1065353216 |}; {| v_start := 9; v_end := 20; v_bits := 3212836864 |}] in
  match encode_section 3 items with
  | Ok sd => parse_wig_section false (sd_bytes sd) = Some (3, 5, 20, map (rec_of 3) items) /\ Forall val_ok items
  | _ => False
  end.
Proof.
  cbv zeta. split; [vm_compute; reflexivity|].
  repeat (constructor; [unfold val_ok, W32; cbn [v_start v_end v_bits]; lia|]). constructor.
Qed.

Example C09_chrom_tree_example :
  let chroms : idmap := [([99; 104; 114; 49], 0); ([99; 104; 114; 49; 48], 1)] in
  let sizes := [([99; 104; 114; 49; 48], 700); ([99; 104; 114; 49], 1000)] in
  match chrom_tree_bytes sizes chroms with
  | Ok ct => parse_chrom_tree (repeatN 7 5 ++ ct ++ [1; 2]) (5 + Nlen ct + 2) false true 5
             = Some ([{| fc_name := [99; 104; 114; 49]; fc_id := 0; fc_size := 1000 |};
                      {| fc_name := [99; 104; 114; 49; 48]; fc_id := 1; fc_size := 700 |}], 5 + Nlen ct)
             /\ names_increasing (map fst chroms)
  | _ => False
  end.
Proof. cbv zeta. split; [vm_compute; reflexivity|]. cbn. split; [reflexivity|exact I]. Qed.

Example C09_rtree_example :
  let secs := map (fun i => {| s_chrom := N.of_nat (i / 4); s_start := N.of_nat (10 * (i mod 4)); s_end := N.of_nat (10 * (i mod 4) + 7);
                               s_off := N.of_nat (100 + 3 * i); s_size := 3 |}) (seq 0 9) in
  match write_index 2 5 200 secs with
  | Ok (bs, _) => exists h e, parse_index (repeatN 0 200 ++ bs ++ [9; 9]) (200 + Nlen bs + 2) false 200 100 127
                               = Some (h, map lf_of secs, e) /\ e = 200 + Nlen bs
  | _ => False
  end.
Proof. cbv zeta. vm_compute. eexists _, _. split; reflexivity. Qed.
