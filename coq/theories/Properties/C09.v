(* C09 — every written file is well-formed for an independent decoder.  Statements only. *)
From BT Require Import Base.Util Spec.FormatDecode.
