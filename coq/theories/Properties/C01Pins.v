From BT Require Import Base.Util Base.Float Model.RTree Model.BBIFile Model.BigWigWrite Model.BBIRead
  Proofs.Chunks Proofs.BigWigQuery.
From BT Require Properties.C01.
Local Open Scope N_scope.
Check (C01.C01_accept_iff : forall len vals, check_chrom len vals = Ok tt <-> wf_vals len vals).
Check (C01.C01_query_sections : forall len ips s e vals, (0 < ips)%nat -> wf_vals len vals ->
  flat_map (clip_filter s e) (filter (chunk_hit s e) (chunks ips vals)) = clip_filter s e vals).
Check (C01.C01_full_span_read : forall len vals, wf_vals len vals ->
  clip_filter 0 len vals = filter (fun v => negb (boundary_zero len v)) vals).
Check (C01.C01_roundtrip_exact : forall len vals, wf_vals len vals ->
  Forall (fun v => boundary_zero len v = false) vals -> clip_filter 0 len vals = vals).
