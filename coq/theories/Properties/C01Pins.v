From BT Require Import Base.Util Base.LE Base.Float Model.RTree Model.BBIFile Model.BigWigWrite Model.BBIRead
  Proofs.Chunks Proofs.BigWigQuery Proofs.RTreeCodec Proofs.BigWigFileChroms Proofs.BigWigFileRoundTrip Proofs.BigWigFileThms Proofs.BigWigFileInput.
From BT Require Properties.C01.
Local Open Scope N_scope.
Check (C01.C01_accept_iff : forall len vals, check_chrom len vals = Ok tt <-> wf_vals len vals).
Check (C01.C01_query_sections : forall len ips s e vals, (0 < ips)%nat -> wf_vals len vals ->
  flat_map (clip_filter s e) (filter (chunk_hit s e) (chunks ips vals)) = clip_filter s e vals).
Check (C01.C01_full_span_read : forall len vals, wf_vals len vals ->
  clip_filter 0 len vals = filter (fun v => negb (boundary_zero len v)) vals).
Check (C01.C01_roundtrip_exact : forall len vals, wf_vals len vals ->
  Forall (fun v => boundary_zero len v = false) vals -> clip_filter 0 len vals = vals).

(* the hypotheses, spelled out so that they cannot be strengthened quietly *)
Check (eq_refl : opts_ok = fun o => 2 <= o_bs o <= 65535 /\ 1 <= o_ips o <= 65535).
Check (eq_refl : input_ok = fun sizes inp =>
  Forall (fun c : name => Forall (fun b => b <> 0) c /\ Nlen c < 4294967296) (map fst (runs inp))
  /\ Nlen (runs inp) < 65536
  /\ Forall (fun s : name * N => snd s < 4294967296) sizes
  /\ Forall (fun it : item => v_bits (snd it) < 4294967296) inp).
Check (eq_refl : U64 = 18446744073709551616).

Check (C01.C01_read_info : forall fp o sizes inp bs,
  opts_ok o -> input_ok sizes inp -> Nlen bs < U64 ->
  bw_write fp o sizes inp = Ok bs \/ bw_write_multipass fp o sizes inp = Ok bs ->
  exists i, read_info bs = Ok i
    /\ h_big (i_hdr i) = false /\ h_bigwig (i_hdr i) = true /\ h_version (i_hdr i) = 4
    /\ h_ubuf (i_hdr i) = 0 /\ h_full_data_off (i_hdr i) = PRE_DATA - 8 /\ h_summary_off (i_hdr i) = PRE_DATA - 48
    /\ h_zoom_levels (i_hdr i) = Nlen (i_zooms i) /\ Nlen (i_zooms i) <= 10).
Check (C01.C01_chrom_table : forall fp o sizes inp bs i,
  opts_ok o -> input_ok sizes inp -> Nlen bs < U64 ->
  bw_write fp o sizes inp = Ok bs \/ bw_write_multipass fp o sizes inp = Ok bs ->
  read_info bs = Ok i ->
  i_chroms i = map (fun ci => {| ci_name := fst ci; ci_id := snd ci;
                                 ci_len := match lookup (fst ci) sizes with Some l => l | None => 0 end |})
                   (number 0 (map fst (runs inp)))).
Check (C01.C01_accepted_runs : forall fp o sizes inp bs,
  opts_ok o -> input_ok sizes inp -> Nlen bs < U64 ->
  bw_write fp o sizes inp = Ok bs \/ bw_write_multipass fp o sizes inp = Ok bs ->
  forall c vs, In (c, vs) (runs inp) -> exists len, lookup c sizes = Some len /\ wf_vals len vs /\ vs <> []).
Check (C01.C01_query : forall fp o sizes inp bs i infl c vs s e,
  opts_ok o -> input_ok sizes inp -> Nlen bs < U64 ->
  bw_write fp o sizes inp = Ok bs \/ bw_write_multipass fp o sizes inp = Ok bs ->
  read_info bs = Ok i -> In (c, vs) (runs inp) ->
  bw_interval infl bs i c s e = Ok (clip_filter s e vs)).
Check (C01.C01_query_narrow : forall fp o sizes inp bs i infl c vs s e s' e',
  opts_ok o -> input_ok sizes inp -> Nlen bs < U64 ->
  bw_write fp o sizes inp = Ok bs \/ bw_write_multipass fp o sizes inp = Ok bs ->
  read_info bs = Ok i -> In (c, vs) (runs inp) -> s' <= s -> e <= e' -> s < e ->
  exists wide, bw_interval infl bs i c s' e' = Ok wide
    /\ bw_interval infl bs i c s e = Ok (clip_filter s e wide)).
Check (C01.C01_roundtrip : forall fp o sizes inp bs i infl c vs len,
  opts_ok o -> input_ok sizes inp -> Nlen bs < U64 ->
  bw_write fp o sizes inp = Ok bs ->
  read_info bs = Ok i -> In (c, vs) (runs inp) -> lookup c sizes = Some len ->
  bw_interval infl bs i c 0 len = Ok (filter (fun v => negb (boundary_zero len v)) vs)).
Check (C01.C01_roundtrip_multipass : forall fp o sizes inp bs i infl c vs len,
  opts_ok o -> input_ok sizes inp -> Nlen bs < U64 ->
  bw_write_multipass fp o sizes inp = Ok bs ->
  read_info bs = Ok i -> In (c, vs) (runs inp) -> lookup c sizes = Some len ->
  bw_interval infl bs i c 0 len = Ok (filter (fun v => negb (boundary_zero len v)) vs)).
Check (C01.C01_roundtrip_file_exact : forall fp o sizes inp bs i infl c vs len,
  opts_ok o -> input_ok sizes inp -> Nlen bs < U64 ->
  bw_write fp o sizes inp = Ok bs \/ bw_write_multipass fp o sizes inp = Ok bs ->
  read_info bs = Ok i -> In (c, vs) (runs inp) -> lookup c sizes = Some len ->
  Forall (fun v => boundary_zero len v = false) vs -> bw_interval infl bs i c 0 len = Ok vs).
Check (C01.C01_same_regions : forall fp o sizes inp bs1 bs2,
  bw_write fp o sizes inp = Ok bs1 -> bw_write_multipass fp o sizes inp = Ok bs2 ->
  exists data ct ix pre1 pre2 z1 z2,
    bs1 = pre1 ++ data ++ ct ++ ix ++ z1 /\ bs2 = pre2 ++ data ++ ct ++ ix ++ z2
    /\ length pre1 = 352%nat /\ length pre2 = 352%nat).
Check (C01.C01_zero_length_boundary_refuted :
  exists sizes inp bs i c vs len,
    bw_write ieee C01.k1_opts sizes inp = Ok bs /\ read_info bs = Ok i /\ In (c, vs) (runs inp)
    /\ lookup c sizes = Some len /\ bw_interval (fun x => x) bs i c 0 len = Ok [] /\ vs <> []).

Check (eq_refl : vals_of = fun inp c => map snd (filter (fun it : item => name_eqb (fst it) c) inp)).
Check (eq_refl : first_app [[1]; [2]; [1]; [3]; [2]] = [[1]; [2]; [3]]).
Check (C01.C01_chrom_table_on_input : forall fp o sizes inp bs,
  opts_ok o -> input_ok sizes inp -> Nlen bs < U64 ->
  bw_write fp o sizes inp = Ok bs \/ bw_write_multipass fp o sizes inp = Ok bs ->
  forall i, read_info bs = Ok i ->
  i_chroms i = map (fun ci => {| ci_name := fst ci; ci_id := snd ci;
                                 ci_len := match lookup (fst ci) sizes with Some l => l | None => 0 end |})
                   (number 0 (first_app (map fst inp)))).
Check (C01.C01_query_on_input : forall fp o sizes inp bs,
  opts_ok o -> input_ok sizes inp -> Nlen bs < U64 ->
  bw_write fp o sizes inp = Ok bs \/ bw_write_multipass fp o sizes inp = Ok bs ->
  forall i infl c s e, read_info bs = Ok i -> In c (map fst inp) ->
  bw_interval infl bs i c s e = Ok (clip_filter s e (vals_of inp c))).
Check (C01.C01_roundtrip_on_input : forall fp o sizes inp bs,
  opts_ok o -> input_ok sizes inp -> Nlen bs < U64 ->
  bw_write fp o sizes inp = Ok bs \/ bw_write_multipass fp o sizes inp = Ok bs ->
  forall i infl c len, read_info bs = Ok i -> In c (map fst inp) -> lookup c sizes = Some len ->
  bw_interval infl bs i c 0 len = Ok (filter (fun v => negb (boundary_zero len v)) (vals_of inp c))).
Check (C01.C01_split_chromosome_refused :
  bw_write ieee C01.split_opts [([97], 100); ([98], 50)] C01.split_inp = Err E_CHROM_SPLIT
  /\ bw_write_multipass ieee C01.split_opts [([97], 100); ([98], 50)] C01.split_inp = Err E_CHROM_SPLIT).
Check (eq_refl : E_CHROM_SPLIT = 12).
Check (C01.C01_accepted_one_run_per_chromosome : forall fp o sizes inp bs,
  bw_write fp o sizes inp = Ok bs \/ bw_write_multipass fp o sizes inp = Ok bs -> NoDup (map fst (runs inp))).

(* ---- compressed files (Model/BigWigWriteZ.v: the compressor is a parameter) ---- *)
From BT Require Import Generated.Consts Model.BigWigWriteZ.
Check (eq_refl : bw_write_z = fun cmp fp o => bw_write_zc cmp (o_compress o) fp o).
Check (eq_refl : bw_write_multipass_z = fun cmp fp o => bw_write_multipass_zc cmp (o_compress o) fp o).
Check (eq_refl : zsec = fun cmp (c : bool) s =>
  if c then {| sd_chrom := sd_chrom s; sd_start := sd_start s; sd_end := sd_end s; sd_bytes := cmp (sd_bytes s) |} else s).
Check (C01.C01_read_info_compressed : forall cmp fp o sizes inp bs,
  opts_ok o -> input_ok sizes inp -> Nlen bs < U64 ->
  bw_write_z cmp fp o sizes inp = Ok bs \/ bw_write_multipass_z cmp fp o sizes inp = Ok bs ->
  exists i, read_info bs = Ok i
    /\ h_big (i_hdr i) = false /\ h_bigwig (i_hdr i) = true /\ h_version (i_hdr i) = 4
    /\ (h_ubuf (i_hdr i) = 0 <-> o_compress o = false) /\ h_ubuf (i_hdr i) < 4294967296
    /\ h_full_data_off (i_hdr i) = PRE_DATA - 8 /\ h_summary_off (i_hdr i) = PRE_DATA - 48
    /\ h_zoom_levels (i_hdr i) = Nlen (i_zooms i) /\ Nlen (i_zooms i) <= 10
    /\ i_chroms i = map (fun ci => {| ci_name := fst ci; ci_id := snd ci;
                                      ci_len := match lookup (fst ci) sizes with Some l => l | None => 0 end |})
                        (number 0 (map fst (runs inp)))).
Check (C01.C01_buf_size_compressed : forall cmp fp o sizes inp bs,
  bw_write_z cmp fp o sizes inp = Ok bs -> opts_ok o -> input_ok sizes inp -> Nlen bs < U64 ->
  exists ids outs sum data zooms,
    bw_collect fp o sizes inp = Ok (ids, outs, sum, data)
    /\ bw_zoom_levels fp o outs (zoom_sizes_single o) = Ok zooms
    /\ forall i, read_info bs = Ok i -> o_compress o = true ->
         Forall (fun s => Nlen (sd_bytes s) <= h_ubuf (i_hdr i)) (data ++ flat_map zl_secs zooms)).
Check (C01.C01_buf_size_compressed_multipass : forall cmp fp o sizes inp bs,
  bw_write_multipass_z cmp fp o sizes inp = Ok bs -> opts_ok o -> input_ok sizes inp -> Nlen bs < U64 ->
  exists ids outs sum data zooms,
    bw_collect fp o sizes inp = Ok (ids, outs, sum, data)
    /\ bw_zoom_levels fp o outs (zoom_sizes_two_pass o sum (total_zoom_counts outs)
                                   (Nlen (data_bytes (map (zsec cmp (o_compress o)) data)))) = Ok zooms
    /\ forall i, read_info bs = Ok i -> o_compress o = true ->
         Forall (fun s => Nlen (sd_bytes s) <= h_ubuf (i_hdr i)) (data ++ flat_map zl_secs zooms)).
Check (C01.C01_chrom_table_compressed : forall cmp fp o sizes inp bs i,
  opts_ok o -> input_ok sizes inp -> Nlen bs < U64 ->
  bw_write_z cmp fp o sizes inp = Ok bs \/ bw_write_multipass_z cmp fp o sizes inp = Ok bs ->
  read_info bs = Ok i ->
  i_chroms i = map (fun ci => {| ci_name := fst ci; ci_id := snd ci;
                                 ci_len := match lookup (fst ci) sizes with Some l => l | None => 0 end |})
                   (number 0 (map fst (runs inp)))).
Check (C01.C01_accepted_runs_compressed : forall cmp fp o sizes inp bs,
  opts_ok o -> input_ok sizes inp -> Nlen bs < U64 ->
  bw_write_z cmp fp o sizes inp = Ok bs \/ bw_write_multipass_z cmp fp o sizes inp = Ok bs ->
  forall c vs, In (c, vs) (runs inp) -> exists len, lookup c sizes = Some len /\ wf_vals len vs /\ vs <> []).
Check (C01.C01_query_compressed : forall cmp infl fp o sizes inp bs i c vs s e,
  (o_compress o = true -> forall b, infl (cmp b) = b) ->
  opts_ok o -> input_ok sizes inp -> Nlen bs < U64 ->
  bw_write_z cmp fp o sizes inp = Ok bs \/ bw_write_multipass_z cmp fp o sizes inp = Ok bs ->
  read_info bs = Ok i -> In (c, vs) (runs inp) ->
  bw_interval infl bs i c s e = Ok (clip_filter s e vs)).
Check (C01.C01_roundtrip_compressed : forall cmp infl fp o sizes inp bs i c vs len,
  (o_compress o = true -> forall b, infl (cmp b) = b) ->
  opts_ok o -> input_ok sizes inp -> Nlen bs < U64 ->
  bw_write_z cmp fp o sizes inp = Ok bs \/ bw_write_multipass_z cmp fp o sizes inp = Ok bs ->
  read_info bs = Ok i -> In (c, vs) (runs inp) -> lookup c sizes = Some len ->
  bw_interval infl bs i c 0 len = Ok (filter (fun v => negb (boundary_zero len v)) vs)).
Check (C01.C01_roundtrip_file_exact_compressed : forall cmp infl fp o sizes inp bs i c vs len,
  (o_compress o = true -> forall b, infl (cmp b) = b) ->
  opts_ok o -> input_ok sizes inp -> Nlen bs < U64 ->
  bw_write_z cmp fp o sizes inp = Ok bs \/ bw_write_multipass_z cmp fp o sizes inp = Ok bs ->
  read_info bs = Ok i -> In (c, vs) (runs inp) -> lookup c sizes = Some len ->
  Forall (fun v => boundary_zero len v = false) vs -> bw_interval infl bs i c 0 len = Ok vs).
Check (C01.C01_chrom_table_compressed_on_input : forall cmp fp o sizes inp bs,
  opts_ok o -> input_ok sizes inp -> Nlen bs < U64 ->
  bw_write_z cmp fp o sizes inp = Ok bs \/ bw_write_multipass_z cmp fp o sizes inp = Ok bs ->
  forall i, read_info bs = Ok i ->
  i_chroms i = map (fun ci => {| ci_name := fst ci; ci_id := snd ci;
                                 ci_len := match lookup (fst ci) sizes with Some l => l | None => 0 end |})
                   (number 0 (first_app (map fst inp)))).
Check (C01.C01_query_compressed_on_input : forall cmp infl fp o sizes inp bs,
  (o_compress o = true -> forall b, infl (cmp b) = b) ->
  opts_ok o -> input_ok sizes inp -> Nlen bs < U64 ->
  bw_write_z cmp fp o sizes inp = Ok bs \/ bw_write_multipass_z cmp fp o sizes inp = Ok bs ->
  forall i c s e, read_info bs = Ok i -> In c (map fst inp) ->
  bw_interval infl bs i c s e = Ok (clip_filter s e (vals_of inp c))).
Check (C01.C01_roundtrip_compressed_on_input : forall cmp infl fp o sizes inp bs,
  (o_compress o = true -> forall b, infl (cmp b) = b) ->
  opts_ok o -> input_ok sizes inp -> Nlen bs < U64 ->
  bw_write_z cmp fp o sizes inp = Ok bs \/ bw_write_multipass_z cmp fp o sizes inp = Ok bs ->
  forall i c len, read_info bs = Ok i -> In c (map fst inp) -> lookup c sizes = Some len ->
  bw_interval infl bs i c 0 len = Ok (filter (fun v => negb (boundary_zero len v)) (vals_of inp c))).
