(* Statement pins for C08: each property theorem is re-checked against the statement recorded here. *)
From BT Require Import Base.Util Base.Float.
From BT Require Model.RTree Model.BBIFile Model.BigWigWrite Model.BedSweep Spec.Depth Model.EntryBedSweep Proofs.DepthStats
  Proofs.SweepRLE Proofs.BedSummary Proofs.BedTile Proofs.ZoomLevels Properties.C08.

Module PinC08.
Import Model.RTree Model.BBIFile Model.BigWigWrite Model.BedSweep Spec.Depth Model.EntryBedSweep Proofs.DepthStats
  Proofs.SweepRLE Proofs.BedSummary Proofs.BedTile Proofs.ZoomLevels Properties.C08.
Local Open Scope N_scope.
Check (C08_sweep_eq_rle_depth : forall U es,
  U <= U32_MAX -> Forall (entry_ok U) es -> starts_sorted es ->
  segs_sorted 0 (sweep_emitted es) /\ Forall (seg_ok U) (sweep_emitted es) /\
  (forall x, x < U32_MAX -> segs_depth (sweep_emitted es) x = depth es x)).
Check (C08_accepted_valid : forall U len es, U <= U32_MAX -> len <= U32_MAX -> Forall (fun e => e_end e <= U) es ->
  bb_check_chrom len es = Ok tt -> valid_zoom_chrom U es).
Check (C08_ordered_disjoint : forall U ips size chrom es secs,
  1 <= size -> valid_zoom_chrom U es -> bb_zoom_records exact ips size chrom es = Ok secs ->
  recs_sorted 0 (concat secs) /\
  (forall l1 z1 l2 z2 l3, concat secs = l1 ++ z1 :: l2 ++ z2 :: l3 -> z_end z1 <= z_start z2)).
Check (C08_len_le_res : forall U ips size chrom es secs,
  1 <= size -> valid_zoom_chrom U es -> bb_zoom_records exact ips size chrom es = Ok secs ->
  Forall (fun z => z_end z - z_start z <= size /\ z_chrom z = chrom) (concat secs)).
Check (C08_partition : forall U ips size chrom es secs,
  1 <= size -> valid_zoom_chrom U es -> bb_zoom_records exact ips size chrom es = Ok secs ->
  forall x, 0 < depth es x -> covered_by (concat secs) x).
Check (C08_stats : forall U ips size chrom es secs,
  1 <= size -> valid_zoom_chrom U es -> bb_zoom_records exact ips size chrom es = Ok secs ->
  Forall (zstats_spec (depth es)) (concat secs)).
Check (C08_tiling_terminates : forall fp ips size chrom es, 1 <= size ->
  exists secs, bb_zoom_records fp ips size chrom es = Ok secs).
Check (C08_levels_increasing : forall fp two_pass o sizes input sum levels cs,
  bb_file fp two_pass o sizes input = Ok (sum, levels, cs) -> sincr (map fst levels)).
Check (C08_file_levels : forall fp two_pass o sizes input sum levels cs,
  bb_file fp two_pass o sizes input = Ok (sum, levels, cs) ->
  Forall (fun l => 1 <= fst l) levels /\ Forall (level_from fp o cs) levels).
Check (eq_refl : level_from = fun fp o cs l =>
  exists per, Forall2 (fun c secs => bb_zoom_records fp (o_ips o) (fst l) (bc_id c) (bc_es c) = Ok secs) cs per /\
              snd l = concat per).
Check (C08_zoom_query_partial : forall (recs : list zrec) s e z,
  In z recs -> z_start z < e -> s < z_end z ->
  In z (filter (fun z => (s <=? z_end z) && (z_start z <=? e)) recs)).
(* the definitions the statements rest on *)
Check (eq_refl : zstats_spec = fun d z =>
  let xs := span (z_start z) (z_end z) in
  let s := z_sum z in
  su_bases s = st_cov d xs /\ su_sum s = f_of_N (st_sum d xs) /\ su_sumsq s = f_of_N (st_sumsq d xs) /\
  su_min s = optf (st_min d xs) /\ su_max s = optf (st_max d xs)).
Check (eq_refl : valid_zoom_chrom = fun U es =>
  U <= U32_MAX /\ Forall (entry_ok U) es /\ starts_sorted es /\ Forall (fun e => e_start e < U32_MAX) es).
Check (eq_refl : covered_by = fun l x => Exists (fun z => z_start z <= x < z_end z) l).
Check (eq_refl : recs_sorted = fix recs_sorted (lo : N) (l : list zrec) : Prop :=
  match l with [] => True | z :: r => lo <= z_start z /\ z_start z < z_end z /\ recs_sorted (z_end z) r end).
End PinC08.
