(* Statement pins for C08: each property theorem is re-checked against the statement recorded here. *)
From BT Require Import Base.Util Base.Float.
From BT Require Model.RTree Model.BBIFile Model.BigWigWrite Model.BedSweep Spec.Depth Model.EntryBedSweep Proofs.DepthStats
  Proofs.SweepRLE Proofs.BedSummary Proofs.BedTile Proofs.ZoomLevels Properties.C08.
From BT Require Base.LE Generated.Consts Model.BBIRead Proofs.RTreeCodec Proofs.ZoomQuery Proofs.ZoomBwLevels Proofs.C08FileGeom Proofs.C08FileCodec
  Proofs.C08FileQuery Model.BigBedWrite Proofs.BedZoomFit Proofs.BedReadInfo Proofs.ZoomFile.

Module PinC08.
Import Model.RTree Model.BBIFile Model.BigWigWrite Model.BedSweep Spec.Depth Model.EntryBedSweep Proofs.DepthStats
  Proofs.SweepRLE Proofs.BedSummary Proofs.BedTile Proofs.ZoomLevels Properties.C08.
Import Generated.Consts Model.BBIRead Proofs.RTreeCodec Proofs.ZoomQuery Proofs.ZoomBwLevels Proofs.C08FileGeom Proofs.C08FileCodec Proofs.C08FileQuery.
Local Open Scope N_scope.
Check (C08_sweep_eq_rle_depth : forall U es,
  U <= U32_MAX -> Forall (entry_ok U) es -> starts_sorted es ->
  segs_sorted 0 (sweep_emitted es) /\ Forall (seg_ok U) (sweep_emitted es) /\
  (forall x, x < U32_MAX -> segs_depth (sweep_emitted es) x = depth es x)).
Check (C08_accepted_valid : forall U len es, U <= U32_MAX -> len <= U32_MAX -> Forall (fun e => e_end e <= U) es ->
  bb_check_chrom len es = Ok tt -> valid_zoom_chrom U es).
Check (C08_ordered_disjoint : forall U ips size chrom es secs,
  1 <= size -> valid_zoom_chrom U es -> bb_zoom_records exact ips size chrom es = Ok secs ->
  recs_sorted 0 (concat secs) /\
  (forall l1 z1 l2 z2 l3, concat secs = l1 ++ z1 :: l2 ++ z2 :: l3 -> z_end z1 <= z_start z2)).
Check (C08_len_le_res : forall U ips size chrom es secs,
  1 <= size -> valid_zoom_chrom U es -> bb_zoom_records exact ips size chrom es = Ok secs ->
  Forall (fun z => z_end z - z_start z <= size /\ z_chrom z = chrom) (concat secs)).
Check (C08_partition : forall U ips size chrom es secs,
  1 <= size -> valid_zoom_chrom U es -> bb_zoom_records exact ips size chrom es = Ok secs ->
  forall x, 0 < depth es x -> covered_by (concat secs) x).
Check (C08_stats : forall U ips size chrom es secs,
  1 <= size -> valid_zoom_chrom U es -> bb_zoom_records exact ips size chrom es = Ok secs ->
  Forall (zstats_spec (depth es)) (concat secs)).
Check (C08_tiling_terminates : forall fp ips size chrom es, 1 <= size ->
  exists secs, bb_zoom_records fp ips size chrom es = Ok secs).
Check (C08_levels_increasing : forall fp two_pass o sizes input sum levels cs,
  bb_file fp two_pass o sizes input = Ok (sum, levels, cs) -> sincr (map fst levels)).
Check (C08_file_levels : forall fp two_pass o sizes input sum levels cs,
  bb_file fp two_pass o sizes input = Ok (sum, levels, cs) ->
  Forall (fun l => 1 <= fst l) levels /\ Forall (level_from fp o cs) levels).
Check (eq_refl : level_from = fun fp o cs l =>
  exists per, Forall2 (fun c secs => bb_zoom_records fp (o_ips o) (fst l) (bc_id c) (bc_es c) = Ok secs) cs per /\
              snd l = concat per).
Check (C08_file_levels_increasing : forall two_pass fp o sizes autosql input f,
  BedZoomFit.bb_write_either two_pass fp o sizes autosql input = Ok f ->
  zoom_file_hyps o sizes input f -> zoom_res_u32 two_pass o ->
  exists i, read_info f = Ok i /\ inc_from 0 (map zh_res (i_zooms i)) /\ Nlen (i_zooms i) <= MAX_ZOOM_LEVELS).
Check (C08_zoom_query : forall two_pass fp o sizes autosql input f,
  BedZoomFit.bb_write_either two_pass fp o sizes autosql input = Ok f ->
  zoom_file_hyps o sizes input f -> zoom_res_u32 two_pass o ->
  exists i, read_info f = Ok i /\
    forall r, In r (map zh_res (i_zooms i)) -> 1 <= r /\
    forall infl c es s e, In (c, es) (BigBedWrite.bruns input) ->
      exists q secs, chrom_id i c = Ok q
        /\ bb_zoom_records fp (o_ips o) r q (map BigBedWrite.to_sw es) = Ok secs
        /\ zoom_interval infl f i c s e r
           = Ok (map (zrec_read fp) (filter (fun z => (s <=? z_end z) && (z_start z <=? e)) (concat secs)))).
Check (C08_zoom_query_complete : forall two_pass fp o sizes autosql input f,
  BedZoomFit.bb_write_either two_pass fp o sizes autosql input = Ok f ->
  zoom_file_hyps o sizes input f -> zoom_res_u32 two_pass o ->
  exists i, read_info f = Ok i /\
    forall r, In r (map zh_res (i_zooms i)) ->
    forall infl c es s e, In (c, es) (BigBedWrite.bruns input) ->
      exists q secs ans, chrom_id i c = Ok q
        /\ bb_zoom_records fp (o_ips o) r q (map BigBedWrite.to_sw es) = Ok secs
        /\ zoom_interval infl f i c s e r = Ok ans
        /\ (forall z, In z (concat secs) -> z_start z < e -> s < z_end z -> In (zrec_read fp z) ans)
        /\ (forall a, In a ans -> exists z, In z (concat secs) /\ a = zrec_read fp z /\ s <= z_end z /\ z_start z <= e)).
Check (C08_geometry_any_mode : forall fp fp' ips size chrom es secs,
  bb_zoom_records fp ips size chrom es = Ok secs ->
  exists secs', bb_zoom_records fp' ips size chrom es = Ok secs' /\ Forall2 (Forall2 geq) secs secs').
Check (C08_level_sections_sorted : forall fp ips size (chs : list (N * list entry)) per sds pos,
  1 <= size -> Coq.Sorting.Sorted.StronglySorted N.lt (map fst chs) ->
  Forall (fun c => valid_zoom_chrom U32_MAX (snd c)) chs ->
  Forall2 (fun c recs => bb_zoom_records fp ips size (fst c) (snd c) = Ok recs) chs per ->
  mapM (encode_zoom_section fp) (concat per) = Ok sds ->
  RTreeBuild.sorted_starts (map sect_span (place pos sds))).
Check (C08_zoom_query_sections : forall q s e (secs : list (list zrec)), Forall sec_ok secs ->
  flat_map (filter (zkeep q s e)) (filter (zsec_hit q s e) secs) = filter (zkeep q s e) (concat secs)).
(* the definitions the file-level statements rest on *)
Check (eq_refl : BedZoomFit.bb_write_either = fun (two_pass : bool) fp o =>
  if two_pass then BigBedWrite.bb_write_multipass fp o else BigBedWrite.bb_write fp o).
Check (eq_refl : zoom_file_hyps = fun o sizes input f =>
  o_bs o <= 65535 /\ Nlen (BigBedWrite.bruns input) < U16
  /\ Forall (fun it => BedReadInfo.no_nul_name (fst it) /\ Nlen (fst it) < U32 /\ BigBedWrite.e_end (snd it) < U32) input
  /\ Forall (fun s => snd s < U32) sizes /\ Nlen f <= U64).
Check (eq_refl : zoom_res_u32 = fun (two_pass : bool) o =>
  if two_pass then ZoomFile.manual_u32 o else Forall (fun z => z < U32) (zoom_sizes_single o)).
Check (eq_refl : ZoomFile.manual_u32 = fun o => match o_manual o with Some zs => Forall (fun z => z < U32) zs | None => True end).
Check (eq_refl : f32_stored = fun fp x => f32_of_bits (bits_of_f32 (to_f32 fp x))).
Check (eq_refl : zrec_read = fun fp z =>
  let s := z_sum z in
  {| z_chrom := z_chrom z; z_start := z_start z; z_end := z_end z;
     z_sum := {| su_items := 0; su_bases := su_bases s;
                 su_min := f32_stored fp (su_min s); su_max := f32_stored fp (su_max s);
                 su_sum := f32_stored fp (su_sum s); su_sumsq := f32_stored fp (su_sumsq s) |} |}).
Check (eq_refl : geq = fun z z' =>
  z_chrom z = z_chrom z' /\ z_start z = z_start z' /\ z_end z = z_end z' /\ su_bases (z_sum z) = su_bases (z_sum z')).
Check (eq_refl : inc_from = fix inc_from (lo : N) (l : list N) : Prop :=
  match l with [] => True | x :: r => lo < x /\ inc_from x r end).
Check (eq_refl : BigBedWrite.to_sw = fun x =>
  {| e_start := BigBedWrite.e_start x; e_end := BigBedWrite.e_end x; e_rest := BigBedWrite.e_rest x |}).
Check (eq_refl : zkeep = fun q s e z => (z_chrom z =? q) && (s <=? z_end z) && (z_start z <=? e)).
(* the definitions the statements rest on *)
Check (eq_refl : zstats_spec = fun d z =>
  let xs := span (z_start z) (z_end z) in
  let s := z_sum z in
  su_bases s = st_cov d xs /\ su_sum s = f_of_N (st_sum d xs) /\ su_sumsq s = f_of_N (st_sumsq d xs) /\
  su_min s = optf (st_min d xs) /\ su_max s = optf (st_max d xs)).
Check (eq_refl : valid_zoom_chrom = fun U es =>
  U <= U32_MAX /\ Forall (entry_ok U) es /\ starts_sorted es /\ Forall (fun e => e_start e < U32_MAX) es).
Check (eq_refl : covered_by = fun l x => Exists (fun z => z_start z <= x < z_end z) l).
Check (eq_refl : recs_sorted = fix recs_sorted (lo : N) (l : list zrec) : Prop :=
  match l with [] => True | z :: r => lo <= z_start z /\ z_start z < z_end z /\ recs_sorted (z_end z) r end).
End PinC08.

(* ---- the IEEE run is the exact run below 2^53 (appended; Proofs/FloatExactBed.v) ---- *)
From BT Require Proofs.BedIeee Proofs.FloatExactBed.
Module PinC08Float.
Import Model.RTree Model.BBIFile Model.BigWigWrite Model.BedSweep Spec.Depth Proofs.DepthStats
  Proofs.SweepRLE Proofs.BedSummary Proofs.BedTile Properties.C08.
Local Open Scope N_scope.
Check (C08_records_ieee : forall U ips size chrom es, 1 <= size -> valid_chrom U es ->
  st_sumsq (depth es) (span 0 U) < BedIeee.P53 ->
  bb_zoom_records ieee ips size chrom es = bb_zoom_records exact ips size chrom es).
Check (C08_stats_ieee : forall U ips size chrom es secs, 1 <= size -> valid_zoom_chrom U es ->
  st_sumsq (depth es) (span 0 U) < BedIeee.P53 ->
  bb_zoom_records ieee ips size chrom es = Ok secs ->
  bb_zoom_records exact ips size chrom es = Ok secs /\
  let R := concat secs in
  recs_sorted 0 R /\ Forall (zshape size chrom) R /\ Forall (zstats_spec (depth es)) R /\
  (forall x, 0 < depth es x -> covered_by R x)).
Check (eq_refl : BedIeee.P53 = 2 ^ 53).
Check (eq_refl : valid_chrom = fun U es => U <= U32_MAX /\ Forall (entry_ok U) es /\ starts_sorted es).
Check (eq_refl : zshape = fun size chrom z => z_end z - z_start z <= size /\ z_chrom z = chrom).
End PinC08Float.
