From BT Require Import Base.Util Base.LE Base.Float Generated.Consts Model.RTree Model.BBIFile Model.BigWigWrite Model.BBIRead
  Proofs.RTreeAbs Proofs.RTreeBuild Proofs.RTreeCodec Proofs.RTreeLayout
  Proofs.BigWigQuery Proofs.ZoomLoop Proofs.ZoomInv Proofs.ZoomThms Proofs.ZoomBwLevels Proofs.ZoomSections
  Proofs.ZoomQuery Proofs.ZoomOld Proofs.ZoomExact Proofs.ZoomSorted
  Proofs.BigWigFile Proofs.BigWigFileRoundTrip Proofs.BigWigFileThms Proofs.ZoomFile
  Proofs.FileRegions Proofs.ZoomReadCodec Proofs.ZoomReadRegions Proofs.ZoomReadFile.
From Coq Require Import Sorting.Sorted.
From BT Require Properties.C07.
Local Open Scope N_scope.
Check (C07.C07_inner_loop_terminates : forall fp ips size chrom st cur has_next, 1 <= size ->
  exists st', zoom_step fp ips size chrom st cur has_next = Ok st').
Check (C07.C07_chrom_terminates : forall fp ips size chrom, 1 <= size -> forall vals st,
  exists st', zoom_chrom fp ips size chrom vals st = Ok st').
Check (C07.C07_ordered_disjoint : forall fp ips size chrom len vals st, 1 <= size -> wf_vals len vals ->
  zoom_chrom fp ips size chrom vals zstate0 = Ok st ->
  zs_live st = None /\ zs_records st = [] /\
  let R := concat (zs_out st) in
  Forall (fun r => z_chrom r = chrom /\ z_start r < z_end r /\ z_end r - z_start r <= size /\ z_end r <= len) R /\
  (forall R1 r1 r2 R2, R = R1 ++ r1 :: r2 :: R2 -> z_end r1 <= z_start r2)).
Check (C07.C07_partition : forall fp ips size chrom len vals st, 1 <= size -> wf_vals len vals ->
  zoom_chrom fp ips size chrom vals zstate0 = Ok st ->
  let R := concat (zs_out st) in
  (forall v p, In v vals -> v_start v <= p < v_end v ->
     exists r, In r R /\ z_start r <= p < z_end r /\
               forall r', In r' R -> z_start r' <= p < z_end r' -> r' = r) /\
  sumN (map cov R) = sumN (map vlen vals) /\
  Forall (fun r => cov r = sumN (map (overlap_len (z_start r) (z_end r)) vals)) R).
Check (C07.C07_stats : forall fp ips size chrom len vals st, 1 <= size -> wf_vals len vals ->
  zoom_chrom fp ips size chrom vals zstate0 = Ok st ->
  Forall (fun r => let cs := contribs (z_start r) (z_end r) vals in
                   build fp chrom (z_start r) cs = Some r /\ stats_of fp r cs)
         (concat (zs_out st))).
Check (C07.C07_contributions : forall s e vals p, In p (contribs s e vals) <->
  exists v, In v vals /\ p = (N.max (v_start v) s, N.min (v_end v) e, v_val v) /\ N.max (v_start v) s < N.min (v_end v) e).
Check (C07.C07_sections_encoded : forall fp ips size chrom vals, 1 <= size -> 1 <= ips ->
  exists st sds, zoom_chrom fp ips size chrom vals zstate0 = Ok st
    /\ zoom_sections fp ips size chrom vals = Ok sds
    /\ Forall (sec_wf ips) (zs_out st)
    /\ length sds = length (zs_out st)
    /\ data_bytes sds = flat_map (zrec_bytes fp) (concat (zs_out st))).
Check (C07.C07_levels_increasing : forall fp o outs data_size pos zooms bytes hdrs,
  build_levels fp o outs (zoom_sizes_single o) = Ok zooms ->
  write_zooms_loop o data_size pos zooms None 0 = Ok (bytes, hdrs) ->
  inc_from 0 (map zh_res hdrs) /\ Nlen hdrs <= MAX_ZOOM_LEVELS).
Check (C07.C07_levels_increasing_two_pass : forall fp o outs sum data_size pos zooms bytes hdrs,
  build_levels fp o outs (zoom_sizes_two_pass o sum (total_zoom_counts outs) data_size) = Ok zooms ->
  write_zooms_two_pass o pos zooms = Ok (bytes, hdrs) ->
  map zh_res hdrs = zoom_sizes_two_pass o sum (total_zoom_counts outs) data_size
  /\ inc_from 0 (map zh_res hdrs) /\ Nlen hdrs <= MAX_ZOOM_LEVELS).
Check (C07.C07_sections_ok : forall fp ips size chrom len vals st, 1 <= size -> wf_vals len vals ->
  zoom_chrom fp ips size chrom vals zstate0 = Ok st -> Forall sec_ok (zs_out st)).
Check (C07.C07_zoom_query_sections : forall q s e (secs : list (list zrec)), Forall sec_ok secs ->
  flat_map (filter (zkeep q s e)) (filter (zsec_hit q s e) secs) = filter (zkeep q s e) (concat secs)).
Check (C07.C07_zoom_query : forall fp (b ips dpos ipos : N) (rsecs : list (list zrec)) (sds : list sdata),
  Forall sec_ok rsecs -> mapM (encode_zoom_section fp) rsecs = Ok sds ->
  let secs := place dpos sds in
  2 <= b <= 65535 -> secs <> [] -> sorted_starts (map sect_span secs) -> Forall sect_ok secs ->
  exists bs levels, write_index b ips ipos secs = Ok (bs, levels)
    /\ (ipos + Nlen bs <= U64 ->
        forall pre post q s e fuel, Nlen pre = ipos -> (length bs <= fuel)%nat ->
          let hit := filter (fun p => zsec_hit q s e (fst p)) (combine rsecs secs) in
          search_bytes fuel false (pre ++ bs ++ post) (ipos + 48) q s e
            = Ok (map (fun p => (s_off (snd p), s_size (snd p))) hit)
          /\ flat_map (fun p => filter (zkeep q s e) (fst p)) hit = filter (zkeep q s e) (concat rsecs)
          /\ forall z, In z (concat rsecs) -> z_chrom z = q -> s < z_end z -> z_start z < e ->
               exists p, In p hit /\ In z (fst p))).
Check (C07.C07_gap_refuted_before_fix :
  exists R, achrom_old false true ieee 10 0
              [{| v_start := 0; v_end := 5; v_bits := one |}; {| v_start := 20; v_end := 25; v_bits := one |}] [] None
            = Ok (R, None)
    /\ map (fun r => (z_start r, z_end r, cov r)) R = [(0, 5, 5); (10, 20, 10); (20, 25, 5)]).
Check (C07.C07_minmax_refuted_before_fix :
  exists R, achrom_old true false ieee 10 0
              [{| v_start := 0; v_end := 5; v_bits := one |}; {| v_start := 10; v_end := 15; v_bits := hundred |}] [] None
            = Ok (R, None)
    /\ map (fun r => (z_start r, z_end r, cov r, su_items (z_sum r), bits_of_f64 (su_max (z_sum r)))) R
       = [(0, 10, 5, 2, bits_of_f64 (f32_of_bits hundred)); (10, 15, 5, 1, bits_of_f64 (f32_of_bits hundred))]).
Check (C07.C07_stats_exact : forall ips size chrom len vals st, 1 <= size -> wf_vals len vals ->
  Forall (fun v => finite (v_val v)) vals ->
  zoom_chrom exact ips size chrom vals zstate0 = Ok st ->
  Forall (fun r => exact_stats r (contribs (z_start r) (z_end r) vals)) (concat (zs_out st))).
Check (C07.C07_sections_sorted : forall fp ips size chrom len vals sds pos, 1 <= size -> wf_vals len vals ->
  zoom_sections fp ips size chrom vals = Ok sds -> sorted_starts (map sect_span (place pos sds))).
Check (C07.C07_chrom_ordered : forall fp ips size chrom len vals st, 1 <= size -> wf_vals len vals ->
  zoom_chrom fp ips size chrom vals zstate0 = Ok st -> ordered size chrom 0 (concat (zs_out st))).
Check (C07.C07_level_sections_sorted : forall fp size (chs : list (N * list (list zrec))) sds pos,
  StronglySorted N.lt (map fst chs) ->
  Forall (fun c => ordered size (fst c) 0 (concat (snd c))) chs ->
  mapM (encode_zoom_section fp) (flat_map snd chs) = Ok sds ->
  sorted_starts (map sect_span (place pos sds))).
Check (C07.C07_file_levels_increasing : forall fp o sizes inp bs,
  opts_ok o -> input_ok sizes inp -> Nlen bs < U64 ->
  Forall (fun z => z < U32) (zoom_sizes_single o) ->
  bw_write fp o sizes inp = Ok bs ->
  exists i, read_info bs = Ok i /\ inc_from 0 (map zh_res (i_zooms i)) /\ Nlen (i_zooms i) <= MAX_ZOOM_LEVELS
            /\ incl (map zh_res (i_zooms i)) (zoom_sizes_single o)).
Check (C07.C07_file_levels_increasing_two_pass : forall fp o sizes inp bs,
  opts_ok o -> input_ok sizes inp -> Nlen bs < U64 -> manual_u32 o ->
  bw_write_multipass fp o sizes inp = Ok bs ->
  exists i, read_info bs = Ok i /\ inc_from 0 (map zh_res (i_zooms i)) /\ Nlen (i_zooms i) <= MAX_ZOOM_LEVELS).
Check (C07.C07_f32_pattern_fits : forall x, bits_of_f32 x < 4294967296).
Check (C07.C07_zoom_record_codec : forall fp recs, Forall zrec_u32 recs ->
  parse_zrecs false (length recs) (flat_map (zrec_bytes fp) recs) = map (zrec_read fp) recs).
Check (C07.C07_zoom_block_read : forall infl i bs, h_big (i_hdr i) = false -> h_ubuf (i_hdr i) = 0 ->
  forall fp b recs q s e,
  slice bs (fst b) (N.to_nat (snd b)) = Some (flat_map (zrec_bytes fp) recs) -> Forall zrec_u32 recs ->
  zoom_block_values infl i bs b q s e = Ok (Some (map (zrec_read fp) (filter (zkeep q s e) recs)))).
Check (C07.C07_level_regions : forall o ds img zs pos lc zc bytes hdrs,
  write_zooms_loop o ds pos zs lc zc = Ok (bytes, hdrs) -> has_at img pos bytes ->
  Forall (level_at o img zs) hdrs).
Check (C07.C07_level_regions_two_pass : forall o img zs pos bytes hdrs,
  write_zooms_two_pass o pos zs = Ok (bytes, hdrs) -> has_at img pos bytes ->
  Forall (level_at o img zs) hdrs).
Check (C07.C07_file_zoom_query : forall fp o sizes inp bs,
  opts_ok o -> input_ok sizes inp -> Nlen bs < U64 ->
  Forall (fun z => z < U32) (zoom_sizes_single o) ->
  bw_write fp o sizes inp = Ok bs ->
  exists i, read_info bs = Ok i /\
    forall (infl : list N -> list N) r c vs s e, In r (map zh_res (i_zooms i)) -> In (c, vs) (runs inp) ->
      exists id len st, chrom_id i c = Ok id /\ 1 <= r
        /\ lookup c sizes = Some len /\ wf_vals len vs
        /\ zoom_chrom fp (o_ips o) r id vs zstate0 = Ok st
        /\ zoom_interval infl bs i c s e r
           = Ok (map (zrec_read fp) (filter (ztouch s e) (concat (zs_out st))))).
Check (C07.C07_file_zoom_query_two_pass : forall fp o sizes inp bs,
  opts_ok o -> input_ok sizes inp -> Nlen bs < U64 -> manual_u32 o ->
  bw_write_multipass fp o sizes inp = Ok bs ->
  exists i, read_info bs = Ok i /\
    forall (infl : list N -> list N) r c vs s e, In r (map zh_res (i_zooms i)) -> In (c, vs) (runs inp) ->
      exists id len st, chrom_id i c = Ok id /\ 1 <= r
        /\ lookup c sizes = Some len /\ wf_vals len vs
        /\ zoom_chrom fp (o_ips o) r id vs zstate0 = Ok st
        /\ zoom_interval infl bs i c s e r
           = Ok (map (zrec_read fp) (filter (ztouch s e) (concat (zs_out st))))).
Check (C07.C07_file_zoom_query_complete : forall fp s e (R : list zrec),
  let ans := map (zrec_read fp) (filter (ztouch s e) R) in
  (forall z, In z R -> s < z_end z -> z_start z < e -> In (zrec_read fp z) ans)
  /\ (forall z', In z' ans -> exists z, In z R /\ z' = zrec_read fp z /\ s <= z_end z /\ z_start z <= e)
  /\ map (fun z => (z_chrom z, z_start z, z_end z, cov z)) ans
     = map (fun z => (z_chrom z, z_start z, z_end z, cov z)) (filter (ztouch s e) R)).
Check (C07.C07_f32_store_load : forall b, b < 4294967296 ->
  f32_of_bits (bits_of_f32 (f32_of_bits b)) = f32_of_bits b
  /\ to_f32 ieee (f32_of_bits b) = f32_of_bits b /\ to_f32 exact (f32_of_bits b) = f32_of_bits b).
Check (C07.C07_minmax_read_exact : forall fp ips size chrom len vals st, fp = ieee \/ fp = exact ->
  1 <= size -> wf_vals len vals -> Forall (fun v => v_bits v < U32) vals ->
  zoom_chrom fp ips size chrom vals zstate0 = Ok st ->
  Forall (fun r => su_min (z_sum (zrec_read fp r)) = su_min (z_sum r)
                   /\ su_max (z_sum (zrec_read fp r)) = su_max (z_sum r)
                   /\ exists v w, In v vals /\ In w vals /\ su_min (z_sum r) = v_val v /\ su_max (z_sum r) = v_val w)
         (concat (zs_out st))).
Check (C07.C07_stat_read_value_ieee : forall M E,
  match to_f32 ieee (FFin M E) with
  | FFin m e =>
      exists m' e', f32_of_bits (bits_of_f32 (to_f32 ieee (FFin M E))) = FFin m' e'
        /\ (m = 0 -> m' = 0)%Z
        /\ (m <> 0 -> -149 <= e /\ -149 <= e' /\ m' * 2 ^ (e' + 149) = m * 2 ^ (e + 149))%Z
  | FInf s => f32_of_bits (bits_of_f32 (to_f32 ieee (FFin M E))) = FInf s
  | FNaN => False
  end).
(* the definitions the file theorem is stated with, pinned by unfolding *)
Check (eq_refl : ztouch = fun s e z => (s <=? z_end z) && (z_start z <=? e)).
Check (eq_refl : zrec_read = fun fp z =>
  {| z_chrom := z_chrom z; z_start := z_start z; z_end := z_end z;
     z_sum := {| su_items := 0; su_bases := su_bases (z_sum z);
                 su_min := f32_of_bits (bits_of_f32 (to_f32 fp (su_min (z_sum z))));
                 su_max := f32_of_bits (bits_of_f32 (to_f32 fp (su_max (z_sum z))));
                 su_sum := f32_of_bits (bits_of_f32 (to_f32 fp (su_sum (z_sum z))));
                 su_sumsq := f32_of_bits (bits_of_f32 (to_f32 fp (su_sumsq (z_sum z)))) |} |}).

(* ---- IEEE = exact on a checkable domain (appended; Proofs/FloatExact.v, Proofs/FloatExactZoom.v; the grid
   definitions are pinned in C06Pins.v) ---- *)
From BT Require Proofs.FloatExact Proofs.FloatExactZoom Proofs.C06FileFloat.
Check (C07.C07_stats_ieee_on_grid : forall E G ips size chrom len vals st, 1 <= size -> wf_vals len vals ->
  FloatExact.grid_ok E G -> Forall (FloatExact.vgrid E G) vals ->
  (FloatExact.gabs E G vals < FloatExact.P53)%Z -> (FloatExact.gsq E G vals < FloatExact.P53)%Z ->
  zoom_chrom ieee ips size chrom vals zstate0 = Ok st ->
  Forall (fun r => let cs := contribs (z_start r) (z_end r) vals in
            exact_stats r cs /\
            FloatExact.gval E G (su_sum (z_sum r)) (FloatExact.ksum plen (fun p => FloatExact.gk E G (p_val p)) cs) /\
            FloatExact.gval (E + E) (G + G) (su_sumsq (z_sum r)) (FloatExact.ksq plen (fun p => FloatExact.gk E G (p_val p)) cs))
         (concat (zs_out st))).
Check (C07.C07_ieee_exact_records : forall E G ips size chrom len vals st st', 1 <= size -> wf_vals len vals ->
  FloatExact.grid_ok E G -> Forall (FloatExact.vgrid E G) vals ->
  (FloatExact.gabs E G vals < FloatExact.P53)%Z -> (FloatExact.gsq E G vals < FloatExact.P53)%Z ->
  zoom_chrom ieee ips size chrom vals zstate0 = Ok st -> zoom_chrom exact ips size chrom vals zstate0 = Ok st' ->
  Forall (fun r => forall r', In r' (concat (zs_out st')) -> z_start r' = z_start r -> z_end r' = z_end r ->
            su_items (z_sum r) = su_items (z_sum r') /\ su_bases (z_sum r) = su_bases (z_sum r') /\
            su_min (z_sum r) = su_min (z_sum r') /\ su_max (z_sum r) = su_max (z_sum r') /\
            C06FileFloat.same_num (su_sum (z_sum r)) (su_sum (z_sum r')) /\
            C06FileFloat.same_num (su_sumsq (z_sum r)) (su_sumsq (z_sum r')))
         (concat (zs_out st))).
Check (C07.C07_stats_ieee_in_domain : forall ips size chrom len vals st, 1 <= size -> wf_vals len vals ->
  FloatExact.in_exact_domain vals = true ->
  zoom_chrom ieee ips size chrom vals zstate0 = Ok st ->
  Forall (fun r => exact_stats r (contribs (z_start r) (z_end r) vals)) (concat (zs_out st))).
Check (C07.C07_stat_read_on_grid : forall E G x k, (E <= 0 -> E <= G -> -149 <= G <= 104 -> Z.abs k < 2 ^ 24 ->
  FloatExact.gval E G x k -> C06FileFloat.same_num (stat_read ieee x) x)%Z).
Check (eq_refl : stat_read = fun fp x => f32_of_bits (bits_of_f32 (to_f32 fp x))).
Check (eq_refl : plen = fun p => p_end p - p_start p).
