From BT Require Import Base.Util Base.Float Model.RTree Model.BBIFile Model.BigWigWrite Model.BBIRead
  Proofs.BigWigQuery Proofs.ZoomLoop Proofs.ZoomInv Proofs.ZoomThms.
From BT Require Properties.C07.
Local Open Scope N_scope.
Check (C07.C07_inner_loop_terminates : forall fp ips size chrom st cur has_next, 1 <= size ->
  exists st', zoom_step fp ips size chrom st cur has_next = Ok st').
Check (C07.C07_chrom_terminates : forall fp ips size chrom, 1 <= size -> forall vals st,
  exists st', zoom_chrom fp ips size chrom vals st = Ok st').
Check (C07.C07_ordered_disjoint : forall fp ips size chrom len vals st, 1 <= size -> wf_vals len vals ->
  zoom_chrom fp ips size chrom vals zstate0 = Ok st ->
  zs_live st = None /\ zs_records st = [] /\
  let R := concat (zs_out st) in
  Forall (fun r => z_chrom r = chrom /\ z_start r < z_end r /\ z_end r - z_start r <= size /\ z_end r <= len) R /\
  (forall R1 r1 r2 R2, R = R1 ++ r1 :: r2 :: R2 -> z_end r1 <= z_start r2)).
Check (C07.C07_partition : forall fp ips size chrom len vals st, 1 <= size -> wf_vals len vals ->
  zoom_chrom fp ips size chrom vals zstate0 = Ok st ->
  let R := concat (zs_out st) in
  (forall v p, In v vals -> v_start v <= p < v_end v ->
     exists r, In r R /\ z_start r <= p < z_end r /\
               forall r', In r' R -> z_start r' <= p < z_end r' -> r' = r) /\
  sumN (map cov R) = sumN (map vlen vals) /\
  Forall (fun r => cov r = sumN (map (overlap_len (z_start r) (z_end r)) vals)) R).
Check (C07.C07_stats : forall fp ips size chrom len vals st, 1 <= size -> wf_vals len vals ->
  zoom_chrom fp ips size chrom vals zstate0 = Ok st ->
  Forall (fun r => let cs := contribs (z_start r) (z_end r) vals in
                   build fp chrom (z_start r) cs = Some r /\ stats_of fp r cs)
         (concat (zs_out st))).
Check (C07.C07_contributions : forall s e vals p, In p (contribs s e vals) <->
  exists v, In v vals /\ p = (N.max (v_start v) s, N.min (v_end v) e, v_val v) /\ N.max (v_start v) s < N.min (v_end v) e).
