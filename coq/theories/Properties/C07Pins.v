From BT Require Import Base.Util Base.Float Generated.Consts Model.RTree Model.BBIFile Model.BigWigWrite Model.BBIRead
  Proofs.RTreeAbs Proofs.RTreeBuild Proofs.RTreeCodec Proofs.RTreeLayout
  Proofs.BigWigQuery Proofs.ZoomLoop Proofs.ZoomInv Proofs.ZoomThms Proofs.ZoomBwLevels Proofs.ZoomSections
  Proofs.ZoomQuery Proofs.ZoomOld Proofs.ZoomExact Proofs.ZoomSorted
  Proofs.BigWigFile Proofs.BigWigFileRoundTrip Proofs.BigWigFileThms Proofs.ZoomFile.
From Coq Require Import Sorting.Sorted.
From BT Require Properties.C07.
Local Open Scope N_scope.
Check (C07.C07_inner_loop_terminates : forall fp ips size chrom st cur has_next, 1 <= size ->
  exists st', zoom_step fp ips size chrom st cur has_next = Ok st').
Check (C07.C07_chrom_terminates : forall fp ips size chrom, 1 <= size -> forall vals st,
  exists st', zoom_chrom fp ips size chrom vals st = Ok st').
Check (C07.C07_ordered_disjoint : forall fp ips size chrom len vals st, 1 <= size -> wf_vals len vals ->
  zoom_chrom fp ips size chrom vals zstate0 = Ok st ->
  zs_live st = None /\ zs_records st = [] /\
  let R := concat (zs_out st) in
  Forall (fun r => z_chrom r = chrom /\ z_start r < z_end r /\ z_end r - z_start r <= size /\ z_end r <= len) R /\
  (forall R1 r1 r2 R2, R = R1 ++ r1 :: r2 :: R2 -> z_end r1 <= z_start r2)).
Check (C07.C07_partition : forall fp ips size chrom len vals st, 1 <= size -> wf_vals len vals ->
  zoom_chrom fp ips size chrom vals zstate0 = Ok st ->
  let R := concat (zs_out st) in
  (forall v p, In v vals -> v_start v <= p < v_end v ->
     exists r, In r R /\ z_start r <= p < z_end r /\
               forall r', In r' R -> z_start r' <= p < z_end r' -> r' = r) /\
  sumN (map cov R) = sumN (map vlen vals) /\
  Forall (fun r => cov r = sumN (map (overlap_len (z_start r) (z_end r)) vals)) R).
Check (C07.C07_stats : forall fp ips size chrom len vals st, 1 <= size -> wf_vals len vals ->
  zoom_chrom fp ips size chrom vals zstate0 = Ok st ->
  Forall (fun r => let cs := contribs (z_start r) (z_end r) vals in
                   build fp chrom (z_start r) cs = Some r /\ stats_of fp r cs)
         (concat (zs_out st))).
Check (C07.C07_contributions : forall s e vals p, In p (contribs s e vals) <->
  exists v, In v vals /\ p = (N.max (v_start v) s, N.min (v_end v) e, v_val v) /\ N.max (v_start v) s < N.min (v_end v) e).
Check (C07.C07_sections_encoded : forall fp ips size chrom vals, 1 <= size -> 1 <= ips ->
  exists st sds, zoom_chrom fp ips size chrom vals zstate0 = Ok st
    /\ zoom_sections fp ips size chrom vals = Ok sds
    /\ Forall (sec_wf ips) (zs_out st)
    /\ length sds = length (zs_out st)
    /\ data_bytes sds = flat_map (zrec_bytes fp) (concat (zs_out st))).
Check (C07.C07_levels_increasing : forall fp o outs data_size pos zooms bytes hdrs,
  build_levels fp o outs (zoom_sizes_single o) = Ok zooms ->
  write_zooms_loop o data_size pos zooms None 0 = Ok (bytes, hdrs) ->
  inc_from 0 (map zh_res hdrs) /\ Nlen hdrs <= MAX_ZOOM_LEVELS).
Check (C07.C07_levels_increasing_two_pass : forall fp o outs sum data_size pos zooms bytes hdrs,
  build_levels fp o outs (zoom_sizes_two_pass o sum (total_zoom_counts outs) data_size) = Ok zooms ->
  write_zooms_two_pass o pos zooms = Ok (bytes, hdrs) ->
  map zh_res hdrs = zoom_sizes_two_pass o sum (total_zoom_counts outs) data_size
  /\ inc_from 0 (map zh_res hdrs) /\ Nlen hdrs <= MAX_ZOOM_LEVELS).
Check (C07.C07_sections_ok : forall fp ips size chrom len vals st, 1 <= size -> wf_vals len vals ->
  zoom_chrom fp ips size chrom vals zstate0 = Ok st -> Forall sec_ok (zs_out st)).
Check (C07.C07_zoom_query_sections : forall q s e (secs : list (list zrec)), Forall sec_ok secs ->
  flat_map (filter (zkeep q s e)) (filter (zsec_hit q s e) secs) = filter (zkeep q s e) (concat secs)).
Check (C07.C07_zoom_query : forall fp (b ips dpos ipos : N) (rsecs : list (list zrec)) (sds : list sdata),
  Forall sec_ok rsecs -> mapM (encode_zoom_section fp) rsecs = Ok sds ->
  let secs := place dpos sds in
  2 <= b <= 65535 -> secs <> [] -> sorted_starts (map sect_span secs) -> Forall sect_ok secs ->
  exists bs levels, write_index b ips ipos secs = Ok (bs, levels)
    /\ (ipos + Nlen bs <= U64 ->
        forall pre post q s e fuel, Nlen pre = ipos -> (length bs <= fuel)%nat ->
          let hit := filter (fun p => zsec_hit q s e (fst p)) (combine rsecs secs) in
          search_bytes fuel false (pre ++ bs ++ post) (ipos + 48) q s e
            = Ok (map (fun p => (s_off (snd p), s_size (snd p))) hit)
          /\ flat_map (fun p => filter (zkeep q s e) (fst p)) hit = filter (zkeep q s e) (concat rsecs)
          /\ forall z, In z (concat rsecs) -> z_chrom z = q -> s < z_end z -> z_start z < e ->
               exists p, In p hit /\ In z (fst p))).
Check (C07.C07_gap_refuted_before_fix :
  exists R, achrom_old false true ieee 10 0
              [{| v_start := 0; v_end := 5; v_bits := one |}; {| v_start := 20; v_end := 25; v_bits := one |}] [] None
            = Ok (R, None)
    /\ map (fun r => (z_start r, z_end r, cov r)) R = [(0, 5, 5); (10, 20, 10); (20, 25, 5)]).
Check (C07.C07_minmax_refuted_before_fix :
  exists R, achrom_old true false ieee 10 0
              [{| v_start := 0; v_end := 5; v_bits := one |}; {| v_start := 10; v_end := 15; v_bits := hundred |}] [] None
            = Ok (R, None)
    /\ map (fun r => (z_start r, z_end r, cov r, su_items (z_sum r), bits_of_f64 (su_max (z_sum r)))) R
       = [(0, 10, 5, 2, bits_of_f64 (f32_of_bits hundred)); (10, 15, 5, 1, bits_of_f64 (f32_of_bits hundred))]).
Check (C07.C07_stats_exact : forall ips size chrom len vals st, 1 <= size -> wf_vals len vals ->
  Forall (fun v => finite (v_val v)) vals ->
  zoom_chrom exact ips size chrom vals zstate0 = Ok st ->
  Forall (fun r => exact_stats r (contribs (z_start r) (z_end r) vals)) (concat (zs_out st))).
Check (C07.C07_sections_sorted : forall fp ips size chrom len vals sds pos, 1 <= size -> wf_vals len vals ->
  zoom_sections fp ips size chrom vals = Ok sds -> sorted_starts (map sect_span (place pos sds))).
Check (C07.C07_chrom_ordered : forall fp ips size chrom len vals st, 1 <= size -> wf_vals len vals ->
  zoom_chrom fp ips size chrom vals zstate0 = Ok st -> ordered size chrom 0 (concat (zs_out st))).
Check (C07.C07_level_sections_sorted : forall fp size (chs : list (N * list (list zrec))) sds pos,
  StronglySorted N.lt (map fst chs) ->
  Forall (fun c => ordered size (fst c) 0 (concat (snd c))) chs ->
  mapM (encode_zoom_section fp) (flat_map snd chs) = Ok sds ->
  sorted_starts (map sect_span (place pos sds))).
Check (C07.C07_file_levels_increasing : forall fp o sizes inp bs,
  opts_ok o -> input_ok sizes inp -> Nlen bs < U64 ->
  Forall (fun z => z < U32) (zoom_sizes_single o) ->
  bw_write fp o sizes inp = Ok bs ->
  exists i, read_info bs = Ok i /\ inc_from 0 (map zh_res (i_zooms i)) /\ Nlen (i_zooms i) <= MAX_ZOOM_LEVELS
            /\ incl (map zh_res (i_zooms i)) (zoom_sizes_single o)).
Check (C07.C07_file_levels_increasing_two_pass : forall fp o sizes inp bs,
  opts_ok o -> input_ok sizes inp -> Nlen bs < U64 -> manual_u32 o ->
  bw_write_multipass fp o sizes inp = Ok bs ->
  exists i, read_info bs = Ok i /\ inc_from 0 (map zh_res (i_zooms i)) /\ Nlen (i_zooms i) <= MAX_ZOOM_LEVELS).
