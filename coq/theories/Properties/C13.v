(* C13 — unrepresentable input is refused with an error value wherever it occurs; every write
   call returns.  Statements only, each closed by [exact] (or a two-line combination of lemmas).

   Reading guide.  [verdict r] forgets the payload of an outcome (Ok _ / Err class / Panic / Fuel).
   [rule_verdict vclass sort_all sizes items] is the declarative rule: Err E_EMPTY on no items,
   else Err (class of the first item whose [item_class] is not None), else Ok.  [item_class] looks
   at one item and its two neighbours.  [stream_ok] is the conjunction "every item is fine in its
   context" spelled out with <= and <.  [serial] / [parallel] are the models of the two sources of
   beddata.rs; [bw_write], [bw_write_multipass] the bigWig writer model of Model/BigWigWrite.v. *)
From BT Require Import Base.Util Base.Float Model.RTree Model.BBIFile Model.BigWigWrite Model.Accept Model.Utf8
  Model.AcceptBed Proofs.Utf8Text Proofs.RTreeShape Proofs.AcceptParse Proofs.AcceptRules Proofs.AcceptParallel Proofs.WriterTotal
  Proofs.WriterTotalBed.
From BT Require Model.BigBedWrite.
Local Open Scope N_scope.

(* ---- bigWig: the model writer's verdict, both pass modes, is the rule's verdict; and the rule
   accepts exactly the non-empty streams in which every value has start <= end <= chromosome
   size, a value's successor on the same chromosome starts at or after its end, every chromosome
   is in the size table, no chromosome comes back after another one, and (sorted input required)
   a change of chromosome goes strictly up ---- *)
Theorem C13_bw_accept_iff : forall fp o sizes input, opts_ok o = true ->
  verdict (bw_write fp o sizes input) = rule_verdict bw_val_class (o_sort_all o) sizes input
  /\ verdict (bw_write_multipass fp o sizes input) = rule_verdict bw_val_class (o_sort_all o) sizes input
  /\ (rule_verdict bw_val_class (o_sort_all o) sizes input = Ok tt
      <-> input <> [] /\ stream_ok bw_good_val bw_good_pair (o_sort_all o) sizes [] None input).
Proof.
  intros fp o sizes input Ho.
  assert (Hi : 0 < o_ips o) by (apply opts_ok_spec in Ho; lia).
  assert (Hc : verdict (bw_collect fp o sizes input) = rule_verdict bw_val_class (o_sort_all o) sizes input).
  { rewrite (collect_verdict fp o sizes input Hi).
    rewrite (serial_ext check_val (chk_of bw_val_class) check_val_class). apply serial_rule. }
  split; [rewrite (bw_write_verdict fp o sizes input Ho); exact Hc|].
  split; [rewrite (bw_write_multipass_verdict fp o sizes input Ho); exact Hc|].
  exact (rule_accept_iff bw_val_class bw_good_val bw_good_pair bw_vclass_none (o_sort_all o) sizes input).
Qed.
Print Assumptions C13_bw_accept_iff.

(* ---- bigBed: the serial source with bigbedwrite.rs's checks: start <= end, start < chromosome
   size, starts non-decreasing within a chromosome ---- *)
Theorem C13_bb_accept_iff : forall sort_all sizes (items : list (name * entry)),
  serial bb_check_val sort_all sizes (ok_lines items) = rule_verdict bb_val_class sort_all sizes items
  /\ (rule_verdict bb_val_class sort_all sizes items = Ok tt
      <-> items <> [] /\ stream_ok bb_good_val bb_good_pair sort_all sizes [] None items).
Proof.
  intros sort_all sizes items. split.
  - rewrite (serial_ext bb_check_val (chk_of bb_val_class) bb_check_val_class). apply serial_rule.
  - exact (rule_accept_iff bb_val_class bb_good_val bb_good_pair bb_vclass_none sort_all sizes items).
Qed.
Print Assumptions C13_bb_accept_iff.

(* ---- position independence: an item that is offending where it stands (given its neighbours)
   makes the call an error wherever in the stream that is ---- *)
Theorem C13_position_independent : forall fp o sizes pre x post k, opts_ok o = true ->
  item_class bw_val_class (o_sort_all o) sizes (seen_at [] None pre) (last_opt pre) x (hd_error post) = Some k ->
  exists k', verdict (bw_write fp o sizes (pre ++ x :: post)) = Err k'
             /\ verdict (bw_write_multipass fp o sizes (pre ++ x :: post)) = Err k'.
Proof.
  intros fp o sizes pre x post k Ho Hc.
  destruct (C13_bw_accept_iff fp o sizes (pre ++ x :: post) Ho) as [H1 [H2 _]].
  destruct (rule_position_independent bw_val_class (o_sort_all o) sizes pre x post k Hc) as [k' Hk].
  exists k'. rewrite H1, H2. auto.
Qed.
Print Assumptions C13_position_independent.

Theorem C13_bb_position_independent : forall sort_all sizes pre (x : name * entry) post k,
  item_class bb_val_class sort_all sizes (seen_at [] None pre) (last_opt pre) x (hd_error post) = Some k ->
  exists k', serial bb_check_val sort_all sizes (ok_lines (pre ++ x :: post)) = Err k'.
Proof.
  intros sort_all sizes pre x post k Hc.
  destruct (C13_bb_accept_iff sort_all sizes (pre ++ x :: post)) as [H1 _]. rewrite H1.
  exact (rule_position_independent bb_val_class sort_all sizes pre x post k Hc).
Qed.
Print Assumptions C13_bb_position_independent.

(* ---- text: a line that does not parse, anywhere, is an error; when every line parses the
   rules decide; the serial source never panics and never runs out of fuel (it has none).
   The sources are the ones behind the real line reader (Model/Utf8.v: [bw_lines_u], [bb_lines_u]):
   a line that is not well-formed UTF-8 ([utf8_ok] false: read_line fails, class 50) is a line that
   does not parse (third clause), so it is refused wherever it stands; on a text whose lines are all
   UTF-8 these sources are the byte-level ones of Model/Accept.v (fourth clause), which is what the
   composition theorems with C18's slicing at the end of this file are stated over. ---- *)
Theorem C13_bw_text : forall fok o sizes text,
  (all_ok (bw_lines_u fok text) = None -> exists k, bw_text_serial_u fok o sizes text = Err k)
  /\ (forall items, all_ok (bw_lines_u fok text) = Some items ->
      bw_text_serial_u fok o sizes text = rule_verdict bw_val_class (o_sort_all o) sizes items)
  /\ (forall l, In l (lines_of text) -> utf8_ok l = false -> all_ok (bw_lines_u fok text) = None)
  /\ (Forall (fun l => utf8_ok l = true) (lines_of text) ->
      bw_lines_u fok text = bw_lines fok text /\ bw_text_serial_u fok o sizes text = bw_text_serial fok o sizes text
      /\ bw_text_parallel_u fok o sizes text = bw_text_parallel fok o sizes text).
Proof.
  intros fok o sizes text. unfold bw_text_serial_u.
  rewrite (serial_ext check_val (chk_of bw_val_class) check_val_class). split; [|split; [|split]].
  - apply serial_malformed.
  - intros items. apply serial_parsed.
  - apply bw_lines_u_bad.
  - intros H. unfold bw_text_parallel_u, bw_text_serial, bw_text_parallel.
    rewrite (bw_lines_u_utf8 fok text H), (serial_ext check_val (chk_of bw_val_class) check_val_class). repeat split.
Qed.
Print Assumptions C13_bw_text.
Theorem C13_bb_text : forall o sizes text,
  (all_ok (bb_lines_u text) = None -> exists k, bb_text_serial_u o sizes text = Err k)
  /\ (forall items, all_ok (bb_lines_u text) = Some items ->
      bb_text_serial_u o sizes text = rule_verdict bb_val_class (o_sort_all o) sizes items)
  /\ (forall l, In l (lines_of text) -> utf8_ok l = false -> all_ok (bb_lines_u text) = None)
  /\ (Forall (fun l => utf8_ok l = true) (lines_of text) ->
      bb_lines_u text = bb_lines text /\ bb_text_serial_u o sizes text = bb_text_serial o sizes text
      /\ bb_text_parallel_u o sizes text = bb_text_parallel o sizes text).
Proof.
  intros o sizes text. unfold bb_text_serial_u.
  rewrite (serial_ext bb_check_val (chk_of bb_val_class) bb_check_val_class). split; [|split; [|split]].
  - apply serial_malformed.
  - intros items. apply serial_parsed.
  - apply bb_lines_u_bad.
  - intros H. unfold bb_text_parallel_u, bb_text_serial, bb_text_parallel.
    rewrite (bb_lines_u_utf8 text H), (serial_ext bb_check_val (chk_of bb_val_class) bb_check_val_class). repeat split.
Qed.
Print Assumptions C13_bb_text.
(* a two-line bedGraph text whose second line holds FF FE in the value field: the third clause
   applies (the byte-level source of Accept.v accepted this text: Proofs/Utf8Text.v utf8_line_order) *)
Example C13_example_not_utf8 :
  let text := [99;9;48;9;53;9;49;10; 99;9;53;9;57;9;255;254;10] in
  In [99;9;53;9;57;9;255;254] (lines_of text) /\ utf8_ok [99;9;53;9;57;9;255;254] = false /\
  Forall (fun l => utf8_ok l = true) (lines_of [99;9;48;9;53;9;49;10; 99;9;53;9;57;9;195;169;10]).
Proof. vm_compute. split; [right; left; reflexivity|split; [reflexivity|repeat constructor]]. Qed.

(* ---- serial and parallel source: the same texts are accepted.  [line_runs l] is the chromosome
   index of the text (runs of lines with the same first field); the parallel source checks order
   and sizes when a run is queued (up to five runs ahead) and collects the tasks' results in
   order, so the class it reports may belong to a later item than the serial source's; whether
   the text is accepted does not differ.  Neither source panics or fails to return (the assert on
   equal neighbouring index entries cannot fire on runs of lines; the fuel of the outer loop is
   never used up). ---- *)
Theorem C13_serial_eq_parallel_verdict : forall (V : Type) (vclass : N -> V -> option V -> option N) sort_all sizes
    (l : list (pline V)), l <> [] ->
  (serial (chk_of vclass) sort_all sizes l = Ok tt <-> parallel (chk_of vclass) sort_all sizes (line_runs l) = Ok tt)
  /\ plain (parallel (chk_of vclass) sort_all sizes (line_runs l))
  /\ plain (serial (chk_of vclass) sort_all sizes l).
Proof.
  intros V vclass sort_all sizes l Hne. split; [|split].
  - rewrite <- !okb_true. now rewrite (serial_parallel_ok vclass sort_all sizes l Hne).
  - apply parallel_plain.
  - destruct (serial_ok_or_err vclass sort_all sizes l) as [[H _]|H]; [left; exact H|right; exact H].
Qed.
Print Assumptions C13_serial_eq_parallel_verdict.
(* the same for the two text formats *)
Theorem C13_text_serial_eq_parallel : forall fok o sizes text, lines_of text <> [] ->
  (bw_text_serial_u fok o sizes text = Ok tt <-> bw_text_parallel_u fok o sizes text = Ok tt)
  /\ (bb_text_serial_u o sizes text = Ok tt <-> bb_text_parallel_u o sizes text = Ok tt).
Proof.
  intros fok o sizes text Hne. unfold bw_text_serial_u, bw_text_parallel_u, bb_text_serial_u, bb_text_parallel_u. split.
  - rewrite (serial_ext check_val (chk_of bw_val_class) check_val_class),
            (parallel_ext check_val (chk_of bw_val_class) check_val_class).
    apply C13_serial_eq_parallel_verdict. unfold bw_lines_u. intros E. apply map_eq_nil in E. contradiction.
  - rewrite (serial_ext bb_check_val (chk_of bb_val_class) bb_check_val_class),
            (parallel_ext bb_check_val (chk_of bb_val_class) bb_check_val_class).
    apply C13_serial_eq_parallel_verdict. unfold bb_lines_u. intros E. apply map_eq_nil in E. contradiction.
Qed.
Print Assumptions C13_text_serial_eq_parallel.

(* ---- the field-level parsers ---- *)
Theorem C13_parse_u32 : forall s n,
  parse_u32 s = Some n <->
  exists body, (s = body \/ s = 43 :: body) /\ body <> [] /\ forallb is_digit body = true
               /\ n = dec_val 0 body /\ n < 2 ^ 32.
Proof. exact parse_u32_spec. Qed.
Print Assumptions C13_parse_u32.
Theorem C13_parse_line : forall fok line s e,
  (snd (parse_bed_line line) = POk (s, e) <->
   exists chrom fs fe more, split_on TAB (trim_end line) = (chrom, fs :: fe :: more)
                            /\ parse_u32 fs = Some s /\ parse_u32 fe = Some e)
  /\ (snd (parse_bedgraph_line fok line) = POk (s, e) <->
      exists chrom fs fe fv more, split_on TAB (trim_end line) = (chrom, fs :: fe :: fv :: more)
                                  /\ parse_u32 fs = Some s /\ parse_u32 fe = Some e /\ fok fv = true).
Proof. intros fok line s e. split; [apply parse_bed_line_spec|apply parse_bedgraph_line_spec]. Qed.
Print Assumptions C13_parse_line.
Theorem C13_split_fields : forall sep l,
  join sep (fst (split_on sep l)) (snd (split_on sep l)) = l
  /\ Forall (fun p => forallb (fun b => negb (b =? sep)) p = true) (fst (split_on sep l) :: snd (split_on sep l)).
Proof. exact split_on_spec. Qed.
Print Assumptions C13_split_fields.

(* ---- termination ---- *)
(* the index build terminates for every section list, sorted or not, empty or not, as soon as
   block_size >= 2, and returns a tree of uniform height (C05_build_ok needs sorted sections
   because it also proves the covering property) *)
Theorem C13_rtree_terminates : forall b secs, (2 <= b)%nat -> exists t lv, build b secs = Ok (t, lv) /\ height lv t.
Proof. exact build_total. Qed.
Print Assumptions C13_rtree_terminates.
Theorem C13_index_written : forall b ips pos secs, 2 <= b -> exists bs lv, write_index b ips pos secs = Ok (bs, lv).
Proof. exact write_index_total. Qed.
Print Assumptions C13_index_written.
(* the level-selection loops *)
Theorem C13_zoom_selection_terminates : forall o, 2 <= o_bs o ->
  (forall data_size zs pos lc zc, exists r, write_zooms_loop o data_size pos zs lc zc = Ok r)
  /\ (forall zs pos, exists r, write_zooms_two_pass o pos zs = Ok r).
Proof. intros o Hb. split; [intros ds; apply write_zooms_loop_total; exact Hb|apply write_zooms_two_pass_total; exact Hb]. Qed.
Print Assumptions C13_zoom_selection_terminates.

(* the whole write call, both pass modes, on ANY input and any options within the guards the
   writers enforce (bbiwrite.rs check_options: block_size >= 2, items_per_slot >= 1; zero zoom
   sizes are dropped by the writers themselves): a file or an error value, never Panic, never
   Fuel *)
Theorem C13_writer_total : forall fp o sizes input, opts_ok o = true ->
  ((exists f, bw_write fp o sizes input = Ok f) \/ (exists k, bw_write fp o sizes input = Err k)) /\
  ((exists f, bw_write_multipass fp o sizes input = Ok f) \/ (exists k, bw_write_multipass fp o sizes input = Err k)).
Proof. exact writer_total. Qed.
Print Assumptions C13_writer_total.

(* ---- the bigBed FILE writer (Model/BigBedWrite.v: the byte-exact model of BigBedWrite::write /
   write_multipass, tied to the real code byte for byte by C02/C11).  [bb_items] forgets the rest
   of each line (no rule looks at it); [schema_text] is the autoSql text write_pre stores (the
   supplied one, else the library's BED3 text); [bb_file_rule o sizes autosql items] =
     Err 80 when the option guards fail (check_options: block_size >= 2, items_per_slot >= 1),
     else Err 43 when the autoSql text holds a NUL byte (CString::new in write_pre),
     else [rule_verdict bb_val_class ..] of C13_bb_accept_iff.
   No hypothesis: every option set, size table, autoSql byte string (parsable or not: the field
   count falls back to 3) and entry list. ---- *)
Theorem C13_bb_accept_iff_file : forall fp o sizes autosql input,
  verdict (BigBedWrite.bb_write fp o sizes autosql input) = bb_file_rule o sizes autosql (bb_items input)
  /\ verdict (BigBedWrite.bb_write_multipass fp o sizes autosql input) = bb_file_rule o sizes autosql (bb_items input)
  /\ (bb_file_rule o sizes autosql (bb_items input) = Ok tt
      <-> opts_ok o = true /\ has_nul (schema_text autosql) = false /\ input <> []
          /\ stream_ok bb_good_val bb_good_pair (o_sort_all o) sizes [] None (bb_items input)).
Proof. exact bb_accept_iff_file. Qed.
Print Assumptions C13_bb_accept_iff_file.

(* the bigBed write call, both pass modes, returns a file or an error value on ANY input: never
   Panic (no empty data or zoom section reaches items_in_section[0]; every chromosome that was
   given an id is in the size table when the chromosome tree is written), never Fuel (autoSql
   parser: C19's fuel bound; index build; zoom tiling: C08's potential; level selection).  Outside
   the option guards the call returns Err 80 before reading anything, so no hypothesis is needed. *)
Theorem C13_bb_writer_total : forall fp o sizes autosql input,
  ((exists f, BigBedWrite.bb_write fp o sizes autosql input = Ok f)
   \/ (exists k, BigBedWrite.bb_write fp o sizes autosql input = Err k)) /\
  ((exists f, BigBedWrite.bb_write_multipass fp o sizes autosql input = Ok f)
   \/ (exists k, BigBedWrite.bb_write_multipass fp o sizes autosql input = Err k)).
Proof. exact bb_writer_total. Qed.
Print Assumptions C13_bb_writer_total.

(* the same for the writer skeleton with ANY summary sweep and ANY zoom part that returns within the
   guards (what C02's file theorems are parametrised by): its verdict is decided by the guards,
   the autoSql text and the input pass alone *)
Theorem C13_bb_write_gen_verdict : forall sweep zoom_part o sizes autosql input,
  (2 <= o_bs o -> 1 <= o_ips o -> forall outs sum ds zp, exists r, zoom_part outs sum ds zp = Ok r) ->
  verdict (BigBedWrite.bb_write_gen sweep zoom_part o sizes autosql input)
  = bb_file_rule o sizes autosql (bb_items input).
Proof.
  intros sweep zoom_part o sizes autosql input Hz. unfold bb_file_rule.
  rewrite (bb_write_gen_verdict sweep zoom_part o sizes autosql input Hz), bb_collect_rule. reflexivity.
Qed.
Print Assumptions C13_bb_write_gen_verdict.

(* ---- examples: the hypotheses are satisfiable and the classes are told apart ---- *)
Definition ex_opts : opts := {| o_compress := false; o_ips := 2; o_bs := 2; o_izoom := 10; o_maxzooms := 3;
                               o_manual := Some [0; 10; 10]; o_sort_all := true |}.
Definition c1 : name := [99; 49].   (* "c1" *)
Definition c2 : name := [99; 50].
Definition ex_sizes : list (name * N) := [(c2, 50); (c1, 100)].
Definition val (s e : N) : value := {| v_start := s; v_end := e; v_bits := 0 |}.
Definition ex_good : list item := [(c1, val 0 10); (c1, val 10 10); (c1, val 10 100); (c2, val 5 5)].
Example C13_example_opts : opts_ok ex_opts = true. Proof. reflexivity. Qed.
Example C13_example_accept : rule_verdict bw_val_class true ex_sizes ex_good = Ok tt. Proof. vm_compute. reflexivity. Qed.
Example C13_example_written : exists f, bw_write ieee ex_opts ex_sizes ex_good = Ok f.
Proof.
  destruct (C13_bw_accept_iff ieee ex_opts ex_sizes ex_good eq_refl) as [H _].
  change (o_sort_all ex_opts) with true in H. rewrite C13_example_accept in H.
  destruct (bw_write ieee ex_opts ex_sizes ex_good); try discriminate. eauto.
Qed.
Example C13_example_classes :
  map (rule_verdict bw_val_class true ex_sizes)
      [ []; [(c1, val 5 4)]; [(c1, val 0 101)]; [(c1, val 0 10); (c1, val 9 20)]; [(c2, val 0 1); (c1, val 0 1)];
        [([99], val 0 1)]; ex_good ++ [(c2, val 4 6)] ]
  = [Err E_EMPTY; Err E_START_GT_END; Err E_END_GT_CHROM; Err E_OVERLAP; Err E_CHROM_ORDER; Err E_UNKNOWN_CHROM; Err E_OVERLAP].
Proof. vm_compute. reflexivity. Qed.
(* chromosome order not required: c2 before c1 is fine, c1 coming back is not *)
Example C13_example_split :
  map (rule_verdict bw_val_class false ex_sizes)
      [ [(c2, val 0 1); (c1, val 0 1)]; [(c1, val 0 1); (c2, val 0 1); (c1, val 5 6)] ]
  = [Ok tt; Err E_SPLIT].
Proof. vm_compute. reflexivity. Qed.
Example C13_example_bb :
  map (rule_verdict bb_val_class true ex_sizes)
      [ [(c1, {| e_start := 0; e_end := 500 |}); (c1, {| e_start := 0; e_end := 3 |}); (c1, {| e_start := 99; e_end := 99 |})];
        [(c1, {| e_start := 100; e_end := 100 |})]; [(c1, {| e_start := 5; e_end := 9 |}); (c1, {| e_start := 4; e_end := 9 |})];
        [(c1, {| e_start := 5; e_end := 4 |})] ]
  = [Ok tt; Err E_BB_START_GE_CHROM; Err E_BB_UNSORTED; Err E_BB_START_GT_END].
Proof. vm_compute. reflexivity. Qed.

(* bigBed file writer: an accepted input (an end beyond the chromosome, a nested entry, a
   zero-length entry, two chromosomes, rest fields) is written by both pass modes; the refusals *)
Definition bent (s e : N) (rest : list N) : BigBedWrite.entry :=
  {| BigBedWrite.e_start := s; BigBedWrite.e_end := e; BigBedWrite.e_rest := rest |}.
Definition ex_bed : list BigBedWrite.bitem :=
  [(c1, bent 0 500 [120; 9; 53]); (c1, bent 0 3 []); (c1, bent 99 99 [121]); (c2, bent 5 7 [])].
Example C13_example_bb_file_rule : bb_file_rule ex_opts ex_sizes None (bb_items ex_bed) = Ok tt.
Proof. vm_compute. reflexivity. Qed.
Example C13_example_bb_file_written :
  (exists f, BigBedWrite.bb_write ieee ex_opts ex_sizes None ex_bed = Ok f)
  /\ (exists f, BigBedWrite.bb_write_multipass ieee ex_opts ex_sizes None ex_bed = Ok f).
Proof.
  destruct (C13_bb_accept_iff_file ieee ex_opts ex_sizes None ex_bed) as (H1 & H2 & _).
  rewrite C13_example_bb_file_rule in H1, H2. split.
  - clear H2. destruct (BigBedWrite.bb_write ieee ex_opts ex_sizes None ex_bed); try discriminate H1. eauto.
  - clear H1. destruct (BigBedWrite.bb_write_multipass ieee ex_opts ex_sizes None ex_bed); try discriminate H2. eauto.
Qed.
Definition ex_opts_bs1 : opts := {| o_compress := false; o_ips := 2; o_bs := 1; o_izoom := 10; o_maxzooms := 3;
                                   o_manual := None; o_sort_all := true |}.
Example C13_example_bb_file_classes :
  [ bb_file_rule ex_opts_bs1 ex_sizes None (bb_items ex_bed);
    bb_file_rule ex_opts ex_sizes (Some [116; 0; 116]) (bb_items ex_bed);
    bb_file_rule ex_opts ex_sizes (Some [103; 97; 114; 98; 97; 103; 101; 40]) (bb_items ex_bed);
    bb_file_rule ex_opts ex_sizes None (bb_items []);
    bb_file_rule ex_opts ex_sizes None (bb_items [(c1, bent 100 100 [])]);
    bb_file_rule ex_opts ex_sizes None (bb_items [(c1, bent 5 9 []); (c1, bent 4 9 [])]);
    bb_file_rule ex_opts ex_sizes None (bb_items [(c1, bent 5 4 [])]);
    bb_file_rule ex_opts ex_sizes None (bb_items [(c2, bent 0 1 []); (c1, bent 0 1 [])]);
    bb_file_rule ex_opts ex_sizes None (bb_items [([99], bent 0 1 [])]) ]
  = [Err E_OPTIONS; Err E_AUTOSQL_NUL; Ok tt; Err E_EMPTY; Err E_BB_START_GE_CHROM; Err E_BB_UNSORTED; Err E_BB_START_GT_END;
     Err E_CHROM_ORDER; Err E_UNKNOWN_CHROM].
Proof. vm_compute. reflexivity. Qed.
(* the writer model itself, evaluated: the verdicts are those of the rule (instances of the theorem) *)
Example C13_example_bb_file_evaluated :
  map (fun r => verdict r)
      [ BigBedWrite.bb_write ieee ex_opts_bs1 ex_sizes None ex_bed;
        BigBedWrite.bb_write ieee ex_opts ex_sizes (Some [116; 0; 116]) ex_bed;
        BigBedWrite.bb_write_multipass ieee ex_opts ex_sizes (Some [103; 97; 114; 98; 97; 103; 101; 40]) ex_bed;
        BigBedWrite.bb_write ieee ex_opts ex_sizes None [(c1, bent 5 9 []); (c1, bent 4 9 [])] ]
  = [Err E_OPTIONS; Err E_AUTOSQL_NUL; Ok tt; Err E_BB_UNSORTED].
Proof. vm_compute. reflexivity. Qed.

(* ---- the parallel source built from the REAL slicing, composed with the file models.
   C18 (Proofs/SliceStreamsAccept.v) proves that for a non-empty grouped text whose lines the indexer's
   parse_line accepts ([bed_key cid l <> 0]: parse_bed's three fields parse; [cid] any numbering that
   keeps the chromosome names of this text apart), [index_chroms] answers [Ok (Some ix)], the readers
   opened on the FileViews of the index entries ([par_streams], any read sizes >= 1) return the raw
   lines of run i, and the tasks (chromosome of entry i, parsed lines of reader i) are
   [line_runs] of the parsed lines, which is what [parallel] consumes.  Composed here with C13_bw_text
   and C13_bw_accept_iff (resp. C13_bb_text and C13_bb_accept_iff_file): the verdict of the writer fed
   by that parallel source is Ok exactly when the byte-exact FILE model on the parsed items returns
   a file (both pass modes), and it is an error value -- never Ok, never Panic, never Fuel -- whenever
   the file model's verdict, or the serial source's verdict on the text (e.g. a bedGraph line whose
   value field does not parse), is an error.  The error class is not claimed equal: the parallel
   source runs the order / size / split checks of up to five runs when it queues them, before it
   collects any task's result (C13_example_parallel_class_differs).
   Hypotheses: exactly those of C18_parallel_source_eq_serial, plus the option guards for bigWig
   (C13_bw_accept_iff needs them; for bigBed the guard is part of the verdict: [bb_fed] = [bb_front],
   option guard 80, NUL in the autoSql text 43, then the source). ---- *)
From BT Require Model.FileView Model.Chunker Model.Indexer Proofs.IndexerGrouped Proofs.SliceStreamsAccept Proofs.AcceptSliced.
Theorem C13_parallel_text_file_verdict : forall (cid : name -> N) fok fp o sizes (text : list N) (lim : nat)
    (sz : nat -> nat -> N) (fuel : nat),
  let key := SliceStreamsAccept.bed_key cid in
  opts_ok o = true ->
  text <> [] ->
  (forall l, In l (Chunker.split_lines text) -> key l <> 0) ->
  (forall l1 l2, In l1 (Chunker.split_lines text) -> In l2 (Chunker.split_lines text) ->
     cid (SliceStreamsAccept.chrom_of l1) = cid (SliceStreamsAccept.chrom_of l2) ->
     SliceStreamsAccept.chrom_of l1 = SliceStreamsAccept.chrom_of l2) ->
  Indexer.grouped (Indexer.lfile key text) ->
  Nlen text * Nlen text < 2 ^ N.of_nat lim -> Nlen text < 2 ^ 63 ->
  (forall i k, 1 <= sz i k) -> (length text < fuel)%nat ->
  exists ix streams,
    Indexer.index_chroms (S lim) (Indexer.lfile key text) = Ok (Some ix) /\
    Indexer.par_streams fuel text sz ix = map Ok streams /\
    SliceStreamsAccept.tasks (SliceStreamsAccept.bw_parse fok) streams = line_runs (bw_lines fok text) /\
    let P := parallel check_val (o_sort_all o) sizes
               (SliceStreamsAccept.tasks (SliceStreamsAccept.bw_parse fok) streams) in
    (forall items, all_ok (bw_lines fok text) = Some items ->
       (P = Ok tt <-> verdict (bw_write fp o sizes items) = Ok tt) /\
       (P = Ok tt <-> verdict (bw_write_multipass fp o sizes items) = Ok tt) /\
       (forall k, verdict (bw_write fp o sizes items) = Err k -> exists k', P = Err k') /\
       (forall k, verdict (bw_write_multipass fp o sizes items) = Err k -> exists k', P = Err k') /\
       verdict (bw_write fp o sizes items) = rule_verdict bw_val_class (o_sort_all o) sizes items) /\
    (forall k, bw_text_serial fok o sizes text = Err k -> exists k', P = Err k') /\
    (all_ok (bw_lines fok text) = None -> exists k', P = Err k') /\
    (P = Ok tt \/ exists k, P = Err k).
Proof. exact AcceptSliced.parallel_text_file_verdict. Qed.
Print Assumptions C13_parallel_text_file_verdict.

(* BED -> bigBed.  [input]: any entry list whose (chromosome, start, end) are the parsed lines (the rest
   fields are arbitrary: no rule looks at them); one exists because every line parse_line accepts
   parses.  No option hypothesis. *)
Theorem C13_bb_parallel_text_file_verdict : forall (cid : name -> N) fp o sizes autosql (text : list N) (lim : nat)
    (sz : nat -> nat -> N) (fuel : nat),
  let key := SliceStreamsAccept.bed_key cid in
  text <> [] ->
  (forall l, In l (Chunker.split_lines text) -> key l <> 0) ->
  (forall l1 l2, In l1 (Chunker.split_lines text) -> In l2 (Chunker.split_lines text) ->
     cid (SliceStreamsAccept.chrom_of l1) = cid (SliceStreamsAccept.chrom_of l2) ->
     SliceStreamsAccept.chrom_of l1 = SliceStreamsAccept.chrom_of l2) ->
  Indexer.grouped (Indexer.lfile key text) ->
  Nlen text * Nlen text < 2 ^ N.of_nat lim -> Nlen text < 2 ^ 63 ->
  (forall i k, 1 <= sz i k) -> (length text < fuel)%nat ->
  exists ix streams,
    Indexer.index_chroms (S lim) (Indexer.lfile key text) = Ok (Some ix) /\
    Indexer.par_streams fuel text sz ix = map Ok streams /\
    SliceStreamsAccept.tasks SliceStreamsAccept.bb_parse streams = line_runs (bb_lines text) /\
    let P := AcceptSliced.bb_fed o autosql
               (parallel bb_check_val (o_sort_all o) sizes
                  (SliceStreamsAccept.tasks SliceStreamsAccept.bb_parse streams)) in
    (forall input, all_ok (bb_lines text) = Some (bb_items input) ->
       (P = Ok tt <-> verdict (BigBedWrite.bb_write fp o sizes autosql input) = Ok tt) /\
       (P = Ok tt <-> verdict (BigBedWrite.bb_write_multipass fp o sizes autosql input) = Ok tt) /\
       (forall k, verdict (BigBedWrite.bb_write fp o sizes autosql input) = Err k -> exists k', P = Err k') /\
       (forall k, verdict (BigBedWrite.bb_write_multipass fp o sizes autosql input) = Err k -> exists k', P = Err k') /\
       verdict (BigBedWrite.bb_write fp o sizes autosql input) = bb_file_rule o sizes autosql (bb_items input)) /\
    (exists input, all_ok (bb_lines text) = Some (bb_items input)) /\
    (forall k, AcceptSliced.bb_fed o autosql (bb_text_serial o sizes text) = Err k -> exists k', P = Err k') /\
    (P = Ok tt \/ exists k, P = Err k).
Proof. exact AcceptSliced.bb_parallel_text_file_verdict. Qed.
Print Assumptions C13_bb_parallel_text_file_verdict.

(* Non-vacuity: the bedGraph text "c1\t0\t1\t2\nc1\t5\t9\t1\nc2\t0\t4\t3" (last line without newline),
   chromosome ids = the digit after 'c', every reader with a 3-byte buffer, the literal depth limit
   100: the hypotheses hold, the index is [(0,1);(18,2)], the two readers deliver the two runs, the
   parallel source accepts, the lines parse to three items and the file model writes them. *)
Definition ex_sl_text : list N :=
  [99;49;9;48;9;49;9;50;10; 99;49;9;53;9;57;9;49;10; 99;50;9;48;9;52;9;51].
Definition ex_sl_cid (c : name) : N := match c with [_; d] => d - 48 | _ => 0 end.
Definition ex_sl_sz (i k : nat) : N := 3.
Definition ex_sl_fok (t : list N) : bool := true.
Definition ex_sl_streams : list (list (list N)) :=
  [[[99;49;9;48;9;49;9;50;10]; [99;49;9;53;9;57;9;49;10]]; [[99;50;9;48;9;52;9;51]]].
Definition ex_sl_items : list item := [(c1, val 0 1); (c1, val 5 9); (c2, val 0 4)].
Example C13_example_sliced :
  let key := SliceStreamsAccept.bed_key ex_sl_cid in
  (opts_ok ex_opts = true /\ ex_sl_text <> [] /\
   (forall l, In l (Chunker.split_lines ex_sl_text) -> key l <> 0) /\
   (forall l1 l2, In l1 (Chunker.split_lines ex_sl_text) -> In l2 (Chunker.split_lines ex_sl_text) ->
      ex_sl_cid (SliceStreamsAccept.chrom_of l1) = ex_sl_cid (SliceStreamsAccept.chrom_of l2) ->
      SliceStreamsAccept.chrom_of l1 = SliceStreamsAccept.chrom_of l2) /\
   Indexer.grouped (Indexer.lfile key ex_sl_text) /\
   Nlen ex_sl_text * Nlen ex_sl_text < 2 ^ N.of_nat 99 /\ Nlen ex_sl_text < 2 ^ 63 /\
   (forall i k, 1 <= ex_sl_sz i k) /\ (length ex_sl_text < Chunker.lines_fuel ex_sl_text)%nat) /\
  Indexer.index_chroms Indexer.depth_limit (Indexer.lfile key ex_sl_text) = Ok (Some [(0, 1); (18, 2)]) /\
  Indexer.par_streams (Chunker.lines_fuel ex_sl_text) ex_sl_text ex_sl_sz [(0, 1); (18, 2)] = map Ok ex_sl_streams /\
  parallel check_val true ex_sizes (SliceStreamsAccept.tasks (SliceStreamsAccept.bw_parse ex_sl_fok) ex_sl_streams) = Ok tt /\
  all_ok (bw_lines ex_sl_fok ex_sl_text) = Some ex_sl_items /\
  verdict (bw_write ieee ex_opts ex_sizes ex_sl_items) = Ok tt /\
  verdict (bw_write_multipass ieee ex_opts ex_sizes ex_sl_items) = Ok tt.
Proof.
  cbv zeta.
  assert (Hl : Chunker.split_lines ex_sl_text =
               [[99;49;9;48;9;49;9;50;10]; [99;49;9;53;9;57;9;49;10]; [99;50;9;48;9;52;9;51]])
    by (vm_compute; reflexivity).
  split; [|split; [vm_compute; reflexivity|]; split; [vm_compute; reflexivity|];
           split; [vm_compute; reflexivity|]; split; [vm_compute; reflexivity|];
           split; vm_compute; reflexivity].
  split; [reflexivity|]. split; [discriminate|]. rewrite Hl.
  split; [intros l [<-|[<-|[<-|[]]]]; vm_compute; discriminate|].
  split; [intros l1 l2 [<-|[<-|[<-|[]]]] [<-|[<-|[<-|[]]]]; vm_compute; intros E;
          first [reflexivity | discriminate E]|].
  split; [apply IndexerGrouped.groupedb_sound; vm_compute; reflexivity|].
  split; [vm_compute; reflexivity|]. split; [vm_compute; reflexivity|].
  split; [intros i k; vm_compute; discriminate | vm_compute; lia].
Qed.
(* a refused BED text through the same slicing: "c1\t5\t9\nc1\t4\t9\nc2\t0\t4" (starts go down): the
   parallel source over index + views, the serial source and both bigBed file writers refuse it *)
Definition ex_sl_bed : list N := [99;49;9;53;9;57;10; 99;49;9;52;9;57;10; 99;50;9;48;9;52].
Example C13_example_sliced_bed_refused :
  let key := SliceStreamsAccept.bed_key ex_sl_cid in
  Indexer.index_chroms Indexer.depth_limit (Indexer.lfile key ex_sl_bed) = Ok (Some [(0, 1); (14, 2)]) /\
  Indexer.par_streams (Chunker.lines_fuel ex_sl_bed) ex_sl_bed ex_sl_sz [(0, 1); (14, 2)] =
    map Ok [[[99;49;9;53;9;57;10]; [99;49;9;52;9;57;10]]; [[99;50;9;48;9;52]]] /\
  AcceptSliced.bb_fed ex_opts None
    (parallel bb_check_val true ex_sizes
       (SliceStreamsAccept.tasks SliceStreamsAccept.bb_parse
          [[[99;49;9;53;9;57;10]; [99;49;9;52;9;57;10]]; [[99;50;9;48;9;52]]])) = Err E_BB_UNSORTED /\
  all_ok (bb_lines ex_sl_bed) = Some (bb_items [(c1, bent 5 9 []); (c1, bent 4 9 []); (c2, bent 0 4 [])]) /\
  verdict (BigBedWrite.bb_write ieee ex_opts ex_sizes None [(c1, bent 5 9 []); (c1, bent 4 9 []); (c2, bent 0 4 [])])
    = Err E_BB_UNSORTED.
Proof. cbv zeta. repeat (split; [vm_compute; reflexivity|]). vm_compute. reflexivity. Qed.
(* the class may differ: value with start > end in run 1 (class 30 in its task), chromosome of run 2
   not in the size table (class 20 when the run is queued) *)
Example C13_example_parallel_class_differs :
  verdict (bw_write ieee AcceptSliced.cls_opts [(AcceptSliced.cls_c1, 100)] AcceptSliced.cls_items) = Err E_START_GT_END /\
  serial check_val true [(AcceptSliced.cls_c1, 100)] (ok_lines AcceptSliced.cls_items) = Err E_START_GT_END /\
  parallel check_val true [(AcceptSliced.cls_c1, 100)] (line_runs (ok_lines AcceptSliced.cls_items)) = Err E_UNKNOWN_CHROM.
Proof. exact AcceptSliced.parallel_class_may_differ. Qed.
