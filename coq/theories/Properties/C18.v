(* C18 - slicing a text input for parallel work loses nothing and reorders nothing.
   Only statements, closed by [exact], with Print Assumptions beneath each.
   Models: Model/FileView.v (FileView after b7f68e8, ec4dfa8), Model/Chunker.v
   (split_file_into_chunks_by_size), Model/Indexer.v (index_chroms after c270203). *)
From BT Require Import Base.Util Model.FileView Model.Chunker Model.Indexer.
From BT Require Import Proofs.FileViewSim Proofs.ChunkerPartition Proofs.IndexerGrouped Proofs.IndexerViews.
From BT Require Import Proofs.SliceStreams Proofs.SliceStreamsIndex.
From BT Require Model.BBIFile Model.BigWigWrite Model.Accept Proofs.SliceStreamsAccept.
From BT Require Base.Float Model.BedStats Proofs.BedStatsRows Proofs.SliceStreamsStats.
Local Open Scope N_scope.

(* ------------------------------------------------------------------ FileView *)
(* For every file, every window [a,b) that starts inside the file (b may lie beyond its end, as
   the u64::MAX the parallel source passes for the last chromosome) and every finite sequence of
   Read n / Seek(Start k | Current d | End d) calls: the outcomes on the view (bytes read,
   positions returned, no panic) are the outcomes of the same machine on the isolated range. *)
Theorem C18_view_translation : forall (file : list N) (a b : N) (ops : list op),
  a <= b -> a <= Nlen file -> Nlen file < 2 ^ 63 ->
  run_view file a b ops = run_view (range file a b) 0 (b - a) ops.
Proof. exact view_translation. Qed.
Print Assumptions C18_view_translation.

(* ... and both are the plain cursor on that byte string: reads return the bytes under the cursor,
   every seek lands at the requested position clamped into [0, length]. *)
Theorem C18_view_eq_cursor : forall (file : list N) (a b : N) (ops : list op),
  a <= b -> a <= Nlen file -> Nlen file < 2 ^ 63 ->
  run_view file a b ops = cursor_run (range file a b) 0 ops.
Proof. exact view_eq_cursor. Qed.
Print Assumptions C18_view_eq_cursor.

(* A reader that drains the view through a buffer of any size >= 1 (BufReader, read_to_end)
   receives exactly the bytes of the range, in order. *)
Theorem C18_view_read_all : forall (file : list N) (a b bufsize : N) (v : view),
  a <= b -> a <= Nlen file -> Nlen file < 2 ^ 63 -> 1 <= bufsize ->
  view_new (Nlen file) a b = Ok v ->
  exists fuel, read_all fuel file v bufsize = Ok (range file a b).
Proof. exact view_read_all. Qed.
Print Assumptions C18_view_read_all.

(* Non-vacuity: the D7 witness.  Window [5,10) of a 12-byte file; End(-8) reaches before the
   window (the unrepaired code panicked here), then reads and further seeks. *)
Definition ex_bytes : list N := [100; 101; 102; 103; 104; 105; 106; 107; 108; 109; 110; 111].
Definition ex_ops : list op :=
  [Seek (SEnd (-8)); Read 3; Seek (SCurrent 100); Read 1; Seek (SStart 4); Read 9; Seek (SEnd 5)].
Example C18_example_view :
  5 <= 10 /\ 5 <= Nlen ex_bytes /\ Nlen ex_bytes < 2 ^ 63 /\
  run_view ex_bytes 5 10 ex_ops =
    [Ok (Pos 0); Ok (Bytes [105; 106; 107]); Ok (Pos 5); Ok (Bytes []); Ok (Pos 4); Ok (Bytes [109]); Ok (Pos 5)].
Proof. repeat split; vm_compute; congruence. Qed.

(* ------------------------------------------------------------------ chunker *)
(* For every file (any bytes: any lines, last one with or without newline) and every chunk count
   n >= 1, split_file_into_chunks_by_size terminates without error and returns pieces (a_i, b_i)
   with a_0 = 0, a_{i+1} = b_i, b_last = file size; every a_i is the start of a line; and no piece
   is empty unless the file is. *)
Theorem C18_chunks_partition : forall (file : list N) (n : N), 1 <= n ->
  exists cs, split_file_into_chunks_by_size file n = Ok cs /\
             chain 0 cs (Nlen file) /\
             Forall (fun ab => cut_ok file (fst ab)) cs /\
             (file <> [] -> Forall (fun ab => fst ab < snd ab) cs).
Proof. exact chunks_partition. Qed.
Print Assumptions C18_chunks_partition.

(* Consequently the lines read piece by piece are the lines of the file, in order: raw lines ... *)
Theorem C18_chunks_lines : forall (file : list N) (n : N) (cs : list (N * N)),
  split_file_into_chunks_by_size file n = Ok cs ->
  concat (map (fun ab => split_lines (range file (fst ab) (snd ab))) cs) = split_lines file.
Proof. exact chunks_lines. Qed.
Print Assumptions C18_chunks_lines.

(* ... and as StreamingLineReader delivers them (trailing white space trimmed). *)
Theorem C18_chunks_line_stream : forall (file : list N) (n : N) (cs : list (N * N)),
  split_file_into_chunks_by_size file n = Ok cs ->
  concat (map (fun ab => line_stream (range file (fst ab) (snd ab))) cs) = line_stream file.
Proof. exact chunks_line_stream. Qed.
Print Assumptions C18_chunks_line_stream.

(* Non-vacuity: "ab\ncd\n\nefgh" (no final newline) in 3 pieces; with 7 requested pieces there are
   only as many as lines. *)
Definition ex_text : list N := [97; 98; 10; 99; 100; 10; 10; 101; 102; 103; 104].
Example C18_example_chunks :
  split_file_into_chunks_by_size ex_text 3 = Ok [(0, 6); (6, 7); (7, 11)] /\
  split_file_into_chunks_by_size ex_text 7 = Ok [(0, 3); (3, 6); (6, 7); (7, 11)] /\
  split_file_into_chunks_by_size ex_text 1 = Ok [(0, 11)].
Proof. repeat split; vm_compute; reflexivity. Qed.

(* ------------------------------------------------------------------ indexer *)
(* A file is its list of lines (chromosome id, length in bytes >= 1); [grouped]: between two lines
   of one chromosome there is no line of another; [run_starts f]: (offset, chromosome) of the first
   line of every maximal run.
   For every non-empty chromosome-grouped file of well-formed lines, index_chroms returns exactly
   the first-line offset of each chromosome run.  The recursion depth limit of do_index (S lim)
   is not reached when size^2 < 2^lim. *)
Theorem C18_index_grouped : forall (lim : nat) (f : file),
  f <> [] -> Forall wf_line f -> grouped f ->
  fsize f * fsize f < 2 ^ N.of_nat lim ->
  index_chroms (S lim) f = Ok (Some (run_starts f)).
Proof. exact index_chroms_grouped. Qed.
Print Assumptions C18_index_grouped.

(* With the limit 100 written in the code: every such file below 2^49 bytes. *)
Theorem C18_index_grouped_100 : forall (f : file),
  f <> [] -> Forall wf_line f -> grouped f -> fsize f < 2 ^ 49 ->
  index_chroms depth_limit f = Ok (Some (run_starts f)).
Proof. exact index_chroms_grouped_100. Qed.
Print Assumptions C18_index_grouped_100.

(* Whatever the limit and the size: on a grouped file an answer, if there is one (no panic at the
   depth limit, no malformed line), is the run starts. *)
Theorem C18_index_grouped_if_ok : forall (limit : nat) (f : file) r,
  Forall (fun l => 1 <= snd l) f -> grouped f ->
  index_chroms limit f = Ok r -> r = Some (run_starts f).
Proof. exact index_chroms_grouped_ok. Qed.
Print Assumptions C18_index_grouped_if_ok.

(* "reports that the file is not grouped" (Ok None) is sound ... *)
Theorem C18_index_none_not_grouped : forall (limit : nat) (f : file),
  Forall (fun l => 1 <= snd l) f -> index_chroms limit f = Ok None -> ~ grouped f.
Proof. exact index_chroms_none_not_grouped. Qed.
Print Assumptions C18_index_none_not_grouped.

(* ... but only because it never happens: the duplicate check sorts (offset, name) pairs that are
   in offset order already and compares the list with itself (finding, see notes/C18.md). *)
Theorem C18_index_never_none : forall (limit : nat) (f : file),
  Forall (fun l => 1 <= snd l) f -> index_chroms limit f <> Ok None.
Proof. exact index_chroms_never_none. Qed.
Print Assumptions C18_index_never_none.

(* The decidable test the check's oracle uses is the declarative [grouped]. *)
Theorem C18_groupedb_iff : forall (f : file), groupedb f = true <-> grouped f.
Proof. intros f. split; [apply groupedb_sound | apply groupedb_complete]. Qed.
Print Assumptions C18_groupedb_iff.

(* Whatever index_chroms answers, on a grouped file or not: the line streams of the views the
   parallel source opens at its entries ([e_i, e_{i+1}), the last one to the end of the file), read one
   after the other, are exactly the lines of the file in order - nothing lost, nothing reordered.
   ([lines_between] is what a BufReader over such a view delivers when the bounds are line starts;
   that reading of FileView is checked on the real code, not proved.) *)
Theorem C18_index_views_concat : forall (limit : nat) (f : file) (ix : list entry),
  Forall (fun l => 1 <= snd l) f ->
  index_chroms limit f = Ok (Some ix) -> concat (view_streams f ix) = f.
Proof. exact index_views_concat. Qed.
Print Assumptions C18_index_views_concat.

(* Non-vacuity: the two D8 witnesses (the unrepaired bisection answered [(0,1)] on both), and a
   file with a long line inside a run. *)
Definition ex_f1 : file := [(1, 12); (2, 12)].
Definition ex_f2 : file := [(1, 11); (2, 11); (3, 50)].
Definition ex_f3 : file := [(7, 8); (7, 300); (7, 8); (3, 9); (5, 10); (5, 10); (5, 1)].
Example C18_example_index :
  (ex_f1 <> [] /\ Forall wf_line ex_f1 /\ grouped ex_f1 /\ fsize ex_f1 < 2 ^ 49 /\
   index_chroms depth_limit ex_f1 = Ok (Some [(0, 1); (12, 2)])) /\
  (ex_f2 <> [] /\ Forall wf_line ex_f2 /\ grouped ex_f2 /\ fsize ex_f2 < 2 ^ 49 /\
   index_chroms depth_limit ex_f2 = Ok (Some [(0, 1); (11, 2); (22, 3)])) /\
  (ex_f3 <> [] /\ Forall wf_line ex_f3 /\ grouped ex_f3 /\ fsize ex_f3 < 2 ^ 49 /\
   run_starts ex_f3 = [(0, 7); (316, 3); (325, 5)] /\
   index_chroms depth_limit ex_f3 = Ok (Some (run_starts ex_f3))).
Proof.
  repeat split; try discriminate; try (apply groupedb_sound; vm_compute; reflexivity);
    try (vm_compute; reflexivity);
    repeat (constructor; try (split; [discriminate | vm_compute; discriminate])).
Qed.

(* A file that is not grouped, whose three runs the probes do find: the answer lists chromosome 1
   twice instead of reporting (see C18_index_never_none). *)
Example C18_example_not_grouped :
  ~ grouped [(1, 30); (3, 9); (1, 9)] /\
  index_chroms depth_limit [(1, 30); (3, 9); (1, 9)] = Ok (Some [(0, 1); (30, 3); (39, 1)]).
Proof.
  split; [|vm_compute; reflexivity].
  intros H. apply groupedb_complete in H. vm_compute in H. discriminate.
Qed.

(* ================================================================== the consequence:
   "the parallel paths see precisely the record stream the serial path sees" *)

(* ------------------------------------------------------------------ lines through a view *)
(* BufReader<FileView> line reading on top of the view machine's Read calls (Model/Chunker.v:
   fill_buf / read_until_nl / read_lines; the k-th Read asks for [sz k] bytes, any sizes >= 1, so any
   buffer capacity and any sequence of Read n calls a buffered reader may make): for every window
   [a,b) that starts inside the file (b may lie beyond its end) the lines delivered by repeated
   read-until-newline, up to the first empty read, are exactly the lines of the byte range. *)
Theorem C18_view_lines : forall (file : list N) (a b : N) (sz : nat -> N) (fuel : nat),
  a <= b -> a <= Nlen file -> Nlen file < 2 ^ 63 -> (forall k, 1 <= sz k) ->
  (length file < fuel)%nat ->
  view_lines fuel file sz a b = Ok (split_lines (range file a b)).
Proof. exact view_lines_spec. Qed.
Print Assumptions C18_view_lines.

(* ------------------------------------------------------------------ (1) one file, two models *)
(* The indexer model's file of a byte string: [lfile key bytes] = (key l, length of l) for the raw
   lines l of the text, for ANY classification [key] of raw lines (0 = parse_line refuses the line,
   else an id of its chromosome).  Offsets computed at line level are byte offsets of line starts:
   the entry of the line l that follows the lines p is (number of bytes of p, key l), that offset is a
   line start of the byte file (what the chunker theorem calls cut_ok), and the bytes of the file from
   there are l.  The sizes agree. *)
Theorem C18_line_offsets_are_byte_offsets : forall (key : list N -> N) (bytes : list N) p l s,
  split_lines bytes = p ++ l :: s ->
  fsize (lfile key bytes) = Nlen bytes /\
  entries 0 (lfile key bytes) =
    entries 0 (map (abs_line key) p) ++ (Nlen (concat p), key l)
      :: entries (Nlen (concat p) + Nlen l) (map (abs_line key) s) /\
  cut_ok bytes (Nlen (concat p)) /\
  range bytes (Nlen (concat p)) (Nlen (concat p) + Nlen l) = l.
Proof. intros key bytes p l s E. split; [apply fsize_lfile | apply lfile_offsets; exact E]. Qed.
Print Assumptions C18_line_offsets_are_byte_offsets.

(* ------------------------------------------------------------------ (2) the parallel source's readers *)
(* [par_streams fuel bytes sz ix] (Model/Indexer.v): for the index entries in order, a
   BufReader<FileView> on [off_i, off_{i+1}) - the last one to u64::MAX, as beddata.rs passes - read line
   by line; reader i issues Reads of sizes [sz i k].
   For every non-empty text whose lines parse_line accepts and whose chromosomes are grouped (size^2
   below 2^lim for the depth limit S lim): index_chroms returns the run starts; reader i returns exactly
   the lines of run i ([groups key]: maximal runs of lines of equal key - non-empty, one key each,
   neighbours differ: [runs_ok]); entry i carries the key of those lines; and the runs in index order
   are the serial line stream of the file: nothing lost, nothing duplicated, nothing reordered. *)
Theorem C18_parallel_stream_eq_serial : forall (key : list N -> N) (bytes : list N) (lim : nat)
    (sz : nat -> nat -> N) (fuel : nat),
  bytes <> [] -> (forall l, In l (split_lines bytes) -> key l <> 0) -> grouped (lfile key bytes) ->
  Nlen bytes * Nlen bytes < 2 ^ N.of_nat lim -> Nlen bytes < 2 ^ 63 ->
  (forall i k, 1 <= sz i k) -> (length bytes < fuel)%nat ->
  exists ix,
    index_chroms (S lim) (lfile key bytes) = Ok (Some ix) /\
    ix = run_starts (lfile key bytes) /\
    par_streams fuel bytes sz ix = map Ok (groups key (split_lines bytes)) /\
    map snd ix = map (ghd key) (groups key (split_lines bytes)) /\
    runs_ok key (groups key (split_lines bytes)) /\
    concat (groups key (split_lines bytes)) = split_lines bytes.
Proof. exact parallel_stream_eq_serial. Qed.
Print Assumptions C18_parallel_stream_eq_serial.

(* with the limit 100 written in the code: every such text below 2^49 bytes *)
Theorem C18_parallel_stream_eq_serial_100 : forall (key : list N -> N) (bytes : list N)
    (sz : nat -> nat -> N) (fuel : nat),
  bytes <> [] -> (forall l, In l (split_lines bytes) -> key l <> 0) -> grouped (lfile key bytes) ->
  Nlen bytes < 2 ^ 49 ->
  (forall i k, 1 <= sz i k) -> (length bytes < fuel)%nat ->
  exists ix,
    index_chroms depth_limit (lfile key bytes) = Ok (Some ix) /\
    ix = run_starts (lfile key bytes) /\
    par_streams fuel bytes sz ix = map Ok (groups key (split_lines bytes)) /\
    map snd ix = map (ghd key) (groups key (split_lines bytes)) /\
    runs_ok key (groups key (split_lines bytes)) /\
    concat (groups key (split_lines bytes)) = split_lines bytes.
Proof. exact parallel_stream_eq_serial_100. Qed.
Print Assumptions C18_parallel_stream_eq_serial_100.

(* Whatever index_chroms answers - any depth limit, grouped text or not, malformed lines or not: the
   entries cut the raw lines into non-empty consecutive segments, entry i is (byte offset of segment
   i, key of its first line), reader i returns exactly segment i, the segments in index order are the
   serial line stream, and Model/Indexer.v's line-level [view_streams] (the observable of the check)
   is their image.  This is C18_index_views_concat with the reading of FileView proved. *)
Theorem C18_index_streams : forall (key : list N -> N) (bytes : list N) (limit : nat) (ix : list entry)
    (sz : nat -> nat -> N) (fuel : nat),
  index_chroms limit (lfile key bytes) = Ok (Some ix) ->
  Nlen bytes < 2 ^ 63 -> (forall i k, 1 <= sz i k) -> (length bytes < fuel)%nat ->
  exists segs,
    par_streams fuel bytes sz ix = map Ok segs /\
    concat segs = split_lines bytes /\
    Forall (fun s => s <> []) segs /\
    ix = seg_starts key 0 segs /\
    view_streams (lfile key bytes) ix = map (map (abs_line key)) segs.
Proof.
  intros key bytes limit ix sz fuel H Hlen Hsz Hfuel.
  destruct (index_streams key bytes limit ix sz fuel H Hlen Hsz Hfuel) as (segs & H1 & H2 & H3 & H4).
  exists segs. repeat (split; [assumption|]). rewrite H4. apply index_view_streams; assumption.
Qed.
Print Assumptions C18_index_streams.

(* ------------------------------------------------------------------ (3) the chunker's readers *)
(* [chunk_streams fuel file sz cs]: one BufReader<FileView> per piece, reader i with read sizes
   [sz i k].  For the pieces split_file_into_chunks_by_size returns: no reader fails, reader i returns
   the lines of piece i, and the lines of all readers in piece order are the lines of the file, raw and
   as StreamingLineReader trims them: C18_chunks_lines / C18_chunks_line_stream through real reads. *)
Theorem C18_chunk_stream_eq_serial : forall (file : list N) (n : N) (cs : list (N * N))
    (sz : nat -> nat -> N) (fuel : nat),
  split_file_into_chunks_by_size file n = Ok cs ->
  Nlen file < 2 ^ 63 -> (forall i k, 1 <= sz i k) -> (length file < fuel)%nat ->
  exists streams,
    chunk_streams fuel file sz cs = map Ok streams /\
    streams = map (fun ab => split_lines (range file (fst ab) (snd ab))) cs /\
    concat streams = split_lines file /\
    concat (map (map trim_end) streams) = line_stream file.
Proof. exact chunk_stream_eq_serial. Qed.
Print Assumptions C18_chunk_stream_eq_serial.

(* The byte pieces themselves are what C17_chunked_eq_serial / C17_chunking_irrelevant assume of a
   chunking ([cuts_at_lines] of Proofs/BedStatsRows.v, unfolded): they concatenate to the file and every
   piece but the last is empty or ends with a newline. *)
Theorem C18_chunks_cut_at_lines : forall (file : list N) (n : N) (cs : list (N * N)),
  split_file_into_chunks_by_size file n = Ok cs ->
  let pieces := map (fun ab => range file (fst ab) (snd ab)) cs in
  concat pieces = file /\
  Forall (fun c => c = [] \/ exists c', c = c' ++ [NL]) (removelast pieces).
Proof. exact chunks_cut_at_lines. Qed.
Print Assumptions C18_chunks_cut_at_lines.

(* Composition with C17's model of bigwigaverageoverbed -t N (Model/BedStats.v: avg_parallel over byte
   chunks, each split into lines by C17's own copy of split_lines): for the pieces the chunker returns,
   the lines the per-piece readers deliver are the lines C17's model processes per chunk, the pieces meet
   [cuts_at_lines], hence the parallel path equals the one-chunk path on the whole file for every outcome
   (C17_chunking_irrelevant) and returns the serial output whenever the serial path returns one
   (C17_chunked_eq_serial) - for every rounding mode, query function, name mode. *)
Theorem C18_chunks_feed_C17 : forall (fp : Float.fpmode)
    (q : BBIFile.name -> N -> N -> res (list BigWigWrite.value)) (m : BedStats.name_mode) (minmax : bool)
    (file : list N) (n : N) (cs : list (N * N)) (sz : nat -> nat -> N) (fuel : nat),
  split_file_into_chunks_by_size file n = Ok cs ->
  Nlen file < 2 ^ 63 -> (forall i k, 1 <= sz i k) -> (length file < fuel)%nat ->
  let pieces := map (fun ab => range file (fst ab) (snd ab)) cs in
  concat pieces = file /\ BedStatsRows.cuts_at_lines pieces /\
  chunk_streams fuel file sz cs = map (fun c => Ok (BedStats.split_lines c)) pieces /\
  BedStats.avg_parallel fp q m minmax pieces = BedStats.avg_chunk fp q m minmax file /\
  (forall out, BedStats.avg_serial fp q m minmax file = Ok out ->
               BedStats.avg_parallel fp q m minmax pieces = Ok out).
Proof. exact SliceStreamsStats.chunks_feed_avg. Qed.
Print Assumptions C18_chunks_feed_C17.

(* ------------------------------------------------------------------ (2) continued: C13's parallel source *)
(* Composition with C13's model of the parallel source (Model/Accept.v).  The indexer's parse_line is
   parse_bed's first three fields, so key = [bed_key cid]: 0 when parse_bed_line refuses the line, else
   the id [cid] gives the chromosome name (the bytes before the first TAB); [cid] is any numbering that
   keeps the names of this text apart.  Task i of the parallel source = (chromosome of index entry i,
   the parsed lines reader i delivers).  The tasks are exactly C13's [line_runs] of the parsed lines of
   the text, for bedGraph and for BED; so the parallel source on index + views is C13's
   bw_text_parallel / bb_text_parallel, and it accepts exactly the texts the serial source accepts
   (C13_text_serial_eq_parallel). *)
Import Model.BBIFile Model.BigWigWrite Model.Accept Proofs.SliceStreamsAccept.
Theorem C18_parallel_source_eq_serial : forall (cid : name -> N) fok o sizes (text : list N) (lim : nat)
    (sz : nat -> nat -> N) (fuel : nat),
  let key := bed_key cid in
  text <> [] ->
  (forall l, In l (split_lines text) -> key l <> 0) ->
  (forall l1 l2, In l1 (split_lines text) -> In l2 (split_lines text) ->
     cid (chrom_of l1) = cid (chrom_of l2) -> chrom_of l1 = chrom_of l2) ->
  grouped (lfile key text) ->
  Nlen text * Nlen text < 2 ^ N.of_nat lim -> Nlen text < 2 ^ 63 ->
  (forall i k, 1 <= sz i k) -> (length text < fuel)%nat ->
  exists ix streams,
    index_chroms (S lim) (lfile key text) = Ok (Some ix) /\
    par_streams fuel text sz ix = map Ok streams /\
    concat streams = split_lines text /\
    tasks (bw_parse fok) streams = line_runs (bw_lines fok text) /\
    tasks bb_parse streams = line_runs (bb_lines text) /\
    parallel check_val (o_sort_all o) sizes (tasks (bw_parse fok) streams) = bw_text_parallel fok o sizes text /\
    parallel bb_check_val (o_sort_all o) sizes (tasks bb_parse streams) = bb_text_parallel o sizes text /\
    (bw_text_serial fok o sizes text = Ok tt <->
     parallel check_val (o_sort_all o) sizes (tasks (bw_parse fok) streams) = Ok tt) /\
    (bb_text_serial o sizes text = Ok tt <->
     parallel bb_check_val (o_sort_all o) sizes (tasks bb_parse streams) = Ok tt).
Proof. exact parallel_source_eq_serial. Qed.
Print Assumptions C18_parallel_source_eq_serial.

(* Non-vacuity: a three-chromosome BED text, last line without newline, every reader with a buffer of
   3 bytes (every line spans several Reads):
     "c1\t0\t1\nc1\t5\t9\nc2\t0\t4\nc3\t1\t2"
   key = the digit after 'c' (as bed_key gives with cid = that digit). *)
Definition ex_bed : list N :=
  [99;49;9;48;9;49;10; 99;49;9;53;9;57;10; 99;50;9;48;9;52;10; 99;51;9;49;9;50].
Definition ex_cid (c : name) : N := match c with [_; d] => d - 48 | _ => 0 end.
Definition ex_sz (i k : nat) : N := 3.
Example C18_example_parallel_streams :
  let key := bed_key ex_cid in
  (ex_bed <> [] /\ (forall l, In l (split_lines ex_bed) -> key l <> 0) /\
   (forall l1 l2, In l1 (split_lines ex_bed) -> In l2 (split_lines ex_bed) ->
      ex_cid (chrom_of l1) = ex_cid (chrom_of l2) -> chrom_of l1 = chrom_of l2) /\
   grouped (lfile key ex_bed) /\ Nlen ex_bed < 2 ^ 49 /\
   (forall i k, 1 <= ex_sz i k) /\ (length ex_bed < lines_fuel ex_bed)%nat) /\
  lfile key ex_bed = [(1, 7); (1, 7); (2, 7); (3, 6)] /\
  index_chroms depth_limit (lfile key ex_bed) = Ok (Some [(0, 1); (14, 2); (21, 3)]) /\
  par_streams (lines_fuel ex_bed) ex_bed ex_sz [(0, 1); (14, 2); (21, 3)] =
    [Ok [[99;49;9;48;9;49;10]; [99;49;9;53;9;57;10]]; Ok [[99;50;9;48;9;52;10]]; Ok [[99;51;9;49;9;50]]] /\
  groups key (split_lines ex_bed) =
    [[[99;49;9;48;9;49;10]; [99;49;9;53;9;57;10]]; [[99;50;9;48;9;52;10]]; [[99;51;9;49;9;50]]] /\
  tasks bb_parse (groups key (split_lines ex_bed)) = line_runs (bb_lines ex_bed) /\
  (* the window [14,21) of the second entry, read 3 bytes at a time *)
  run_view ex_bed 14 21 [Read 3; Read 3; Read 3; Read 3] =
    [Ok (Bytes [99;50;9]); Ok (Bytes [48;9;52]); Ok (Bytes [10]); Ok (Bytes [])].
Proof.
  cbv zeta.
  assert (Hl : split_lines ex_bed =
               [[99;49;9;48;9;49;10]; [99;49;9;53;9;57;10]; [99;50;9;48;9;52;10]; [99;51;9;49;9;50]])
    by (vm_compute; reflexivity).
  split; [|repeat split; vm_compute; reflexivity].
  split; [discriminate|]. rewrite Hl.
  split; [intros l [<-|[<-|[<-|[<-|[]]]]]; vm_compute; discriminate|].
  split; [intros l1 l2 [<-|[<-|[<-|[<-|[]]]]] [<-|[<-|[<-|[<-|[]]]]]; vm_compute; intros E;
          first [reflexivity | discriminate E]|].
  split; [apply groupedb_sound; vm_compute; reflexivity|].
  split; [vm_compute; reflexivity|].
  split; [intros i k; vm_compute; discriminate | vm_compute; lia].
Qed.

(* the chunked text of C18_example_chunks in 3 pieces, every reader with a buffer of 3 bytes *)
Example C18_example_chunk_streams :
  chunk_streams (lines_fuel ex_text) ex_text ex_sz [(0, 6); (6, 7); (7, 11)] =
    [Ok [[97; 98; 10]; [99; 100; 10]]; Ok [[10]]; Ok [[101; 102; 103; 104]]] /\
  split_lines ex_text = [[97; 98; 10]; [99; 100; 10]; [10]; [101; 102; 103; 104]].
Proof. split; vm_compute; reflexivity. Qed.
