(* C18 - slicing a text input for parallel work loses nothing and reorders nothing.
   Only statements, closed by [exact], with Print Assumptions beneath each.
   Models: Model/FileView.v (FileView after b7f68e8, ec4dfa8), Model/Chunker.v
   (split_file_into_chunks_by_size), Model/Indexer.v (index_chroms after c270203). *)
From BT Require Import Base.Util Model.FileView Model.Chunker Model.Indexer.
From BT Require Import Proofs.FileViewSim Proofs.ChunkerPartition Proofs.IndexerGrouped Proofs.IndexerViews.
Local Open Scope N_scope.

(* ------------------------------------------------------------------ FileView *)
(* For every file, every window [a,b) that starts inside the file (b may lie beyond its end, as
   the u64::MAX the parallel source passes for the last chromosome) and every finite sequence of
   Read n / Seek(Start k | Current d | End d) calls: the outcomes on the view (bytes read,
   positions returned, no panic) are the outcomes of the same machine on the isolated range. *)
Theorem C18_view_translation : forall (file : list N) (a b : N) (ops : list op),
  a <= b -> a <= Nlen file -> Nlen file < 2 ^ 63 ->
  run_view file a b ops = run_view (range file a b) 0 (b - a) ops.
Proof. exact view_translation. Qed.
Print Assumptions C18_view_translation.

(* ... and both are the plain cursor on that byte string: reads return the bytes under the cursor,
   every seek lands at the requested position clamped into [0, length]. *)
Theorem C18_view_eq_cursor : forall (file : list N) (a b : N) (ops : list op),
  a <= b -> a <= Nlen file -> Nlen file < 2 ^ 63 ->
  run_view file a b ops = cursor_run (range file a b) 0 ops.
Proof. exact view_eq_cursor. Qed.
Print Assumptions C18_view_eq_cursor.

(* A reader that drains the view through a buffer of any size >= 1 (BufReader, read_to_end)
   receives exactly the bytes of the range, in order. *)
Theorem C18_view_read_all : forall (file : list N) (a b bufsize : N) (v : view),
  a <= b -> a <= Nlen file -> Nlen file < 2 ^ 63 -> 1 <= bufsize ->
  view_new (Nlen file) a b = Ok v ->
  exists fuel, read_all fuel file v bufsize = Ok (range file a b).
Proof. exact view_read_all. Qed.
Print Assumptions C18_view_read_all.

(* Non-vacuity: the D7 witness.  Window [5,10) of a 12-byte file; End(-8) reaches before the
   window (the unrepaired code panicked here), then reads and further seeks. *)
Definition ex_bytes : list N := [100; 101; 102; 103; 104; 105; 106; 107; 108; 109; 110; 111].
Definition ex_ops : list op :=
  [Seek (SEnd (-8)); Read 3; Seek (SCurrent 100); Read 1; Seek (SStart 4); Read 9; Seek (SEnd 5)].
Example C18_example_view :
  5 <= 10 /\ 5 <= Nlen ex_bytes /\ Nlen ex_bytes < 2 ^ 63 /\
  run_view ex_bytes 5 10 ex_ops =
    [Ok (Pos 0); Ok (Bytes [105; 106; 107]); Ok (Pos 5); Ok (Bytes []); Ok (Pos 4); Ok (Bytes [109]); Ok (Pos 5)].
Proof. repeat split; vm_compute; congruence. Qed.

(* ------------------------------------------------------------------ chunker *)
(* For every file (any bytes: any lines, last one with or without newline) and every chunk count
   n >= 1, split_file_into_chunks_by_size terminates without error and returns pieces (a_i, b_i)
   with a_0 = 0, a_{i+1} = b_i, b_last = file size; every a_i is the start of a line; and no piece
   is empty unless the file is. *)
Theorem C18_chunks_partition : forall (file : list N) (n : N), 1 <= n ->
  exists cs, split_file_into_chunks_by_size file n = Ok cs /\
             chain 0 cs (Nlen file) /\
             Forall (fun ab => cut_ok file (fst ab)) cs /\
             (file <> [] -> Forall (fun ab => fst ab < snd ab) cs).
Proof. exact chunks_partition. Qed.
Print Assumptions C18_chunks_partition.

(* Consequently the lines read piece by piece are the lines of the file, in order: raw lines ... *)
Theorem C18_chunks_lines : forall (file : list N) (n : N) (cs : list (N * N)),
  split_file_into_chunks_by_size file n = Ok cs ->
  concat (map (fun ab => split_lines (range file (fst ab) (snd ab))) cs) = split_lines file.
Proof. exact chunks_lines. Qed.
Print Assumptions C18_chunks_lines.

(* ... and as StreamingLineReader delivers them (trailing white space trimmed). *)
Theorem C18_chunks_line_stream : forall (file : list N) (n : N) (cs : list (N * N)),
  split_file_into_chunks_by_size file n = Ok cs ->
  concat (map (fun ab => line_stream (range file (fst ab) (snd ab))) cs) = line_stream file.
Proof. exact chunks_line_stream. Qed.
Print Assumptions C18_chunks_line_stream.

(* Non-vacuity: "ab\ncd\n\nefgh" (no final newline) in 3 pieces; with 7 requested pieces there are
   only as many as lines. *)
Definition ex_text : list N := [97; 98; 10; 99; 100; 10; 10; 101; 102; 103; 104].
Example C18_example_chunks :
  split_file_into_chunks_by_size ex_text 3 = Ok [(0, 6); (6, 7); (7, 11)] /\
  split_file_into_chunks_by_size ex_text 7 = Ok [(0, 3); (3, 6); (6, 7); (7, 11)] /\
  split_file_into_chunks_by_size ex_text 1 = Ok [(0, 11)].
Proof. repeat split; vm_compute; reflexivity. Qed.

(* ------------------------------------------------------------------ indexer *)
(* A file is its list of lines (chromosome id, length in bytes >= 1); [grouped]: between two lines
   of one chromosome there is no line of another; [run_starts f]: (offset, chromosome) of the first
   line of every maximal run.
   For every non-empty chromosome-grouped file of well-formed lines, index_chroms returns exactly
   the first-line offset of each chromosome run.  The recursion depth limit of do_index (S lim)
   is not reached when size^2 < 2^lim. *)
Theorem C18_index_grouped : forall (lim : nat) (f : file),
  f <> [] -> Forall wf_line f -> grouped f ->
  fsize f * fsize f < 2 ^ N.of_nat lim ->
  index_chroms (S lim) f = Ok (Some (run_starts f)).
Proof. exact index_chroms_grouped. Qed.
Print Assumptions C18_index_grouped.

(* With the limit 100 written in the code: every such file below 2^49 bytes. *)
Theorem C18_index_grouped_100 : forall (f : file),
  f <> [] -> Forall wf_line f -> grouped f -> fsize f < 2 ^ 49 ->
  index_chroms depth_limit f = Ok (Some (run_starts f)).
Proof. exact index_chroms_grouped_100. Qed.
Print Assumptions C18_index_grouped_100.

(* Whatever the limit and the size: on a grouped file an answer, if there is one (no panic at the
   depth limit, no malformed line), is the run starts. *)
Theorem C18_index_grouped_if_ok : forall (limit : nat) (f : file) r,
  Forall (fun l => 1 <= snd l) f -> grouped f ->
  index_chroms limit f = Ok r -> r = Some (run_starts f).
Proof. exact index_chroms_grouped_ok. Qed.
Print Assumptions C18_index_grouped_if_ok.

(* "reports that the file is not grouped" (Ok None) is sound ... *)
Theorem C18_index_none_not_grouped : forall (limit : nat) (f : file),
  Forall (fun l => 1 <= snd l) f -> index_chroms limit f = Ok None -> ~ grouped f.
Proof. exact index_chroms_none_not_grouped. Qed.
Print Assumptions C18_index_none_not_grouped.

(* ... but only because it never happens: the duplicate check sorts (offset, name) pairs that are
   in offset order already and compares the list with itself (finding, see notes/C18.md). *)
Theorem C18_index_never_none : forall (limit : nat) (f : file),
  Forall (fun l => 1 <= snd l) f -> index_chroms limit f <> Ok None.
Proof. exact index_chroms_never_none. Qed.
Print Assumptions C18_index_never_none.

(* The decidable test the check's oracle uses is the declarative [grouped]. *)
Theorem C18_groupedb_iff : forall (f : file), groupedb f = true <-> grouped f.
Proof. intros f. split; [apply groupedb_sound | apply groupedb_complete]. Qed.
Print Assumptions C18_groupedb_iff.

(* Whatever index_chroms answers, on a grouped file or not: the line streams of the views the
   parallel source opens at its entries ([e_i, e_{i+1}), the last one to the end of the file), read one
   after the other, are exactly the lines of the file in order - nothing lost, nothing reordered.
   ([lines_between] is what a BufReader over such a view delivers when the bounds are line starts;
   that reading of FileView is checked on the real code, not proved.) *)
Theorem C18_index_views_concat : forall (limit : nat) (f : file) (ix : list entry),
  Forall (fun l => 1 <= snd l) f ->
  index_chroms limit f = Ok (Some ix) -> concat (view_streams f ix) = f.
Proof. exact index_views_concat. Qed.
Print Assumptions C18_index_views_concat.

(* Non-vacuity: the two D8 witnesses (the unrepaired bisection answered [(0,1)] on both), and a
   file with a long line inside a run. *)
Definition ex_f1 : file := [(1, 12); (2, 12)].
Definition ex_f2 : file := [(1, 11); (2, 11); (3, 50)].
Definition ex_f3 : file := [(7, 8); (7, 300); (7, 8); (3, 9); (5, 10); (5, 10); (5, 1)].
Example C18_example_index :
  (ex_f1 <> [] /\ Forall wf_line ex_f1 /\ grouped ex_f1 /\ fsize ex_f1 < 2 ^ 49 /\
   index_chroms depth_limit ex_f1 = Ok (Some [(0, 1); (12, 2)])) /\
  (ex_f2 <> [] /\ Forall wf_line ex_f2 /\ grouped ex_f2 /\ fsize ex_f2 < 2 ^ 49 /\
   index_chroms depth_limit ex_f2 = Ok (Some [(0, 1); (11, 2); (22, 3)])) /\
  (ex_f3 <> [] /\ Forall wf_line ex_f3 /\ grouped ex_f3 /\ fsize ex_f3 < 2 ^ 49 /\
   run_starts ex_f3 = [(0, 7); (316, 3); (325, 5)] /\
   index_chroms depth_limit ex_f3 = Ok (Some (run_starts ex_f3))).
Proof.
  repeat split; try discriminate; try (apply groupedb_sound; vm_compute; reflexivity);
    try (vm_compute; reflexivity);
    repeat (constructor; try (split; [discriminate | vm_compute; discriminate])).
Qed.

(* A file that is not grouped, whose three runs the probes do find: the answer lists chromosome 1
   twice instead of reporting (see C18_index_never_none). *)
Example C18_example_not_grouped :
  ~ grouped [(1, 30); (3, 9); (1, 9)] /\
  index_chroms depth_limit [(1, 30); (3, 9); (1, 9)] = Ok (Some [(0, 1); (30, 3); (39, 1)]).
Proof.
  split; [|vm_compute; reflexivity].
  intros H. apply groupedb_complete in H. vm_compute in H. discriminate.
Qed.
