(* C18 - slicing a text input for parallel work loses nothing and reorders nothing. (stub) *)
From BT Require Import Base.Util Model.FileView Model.Chunker Model.Indexer.
