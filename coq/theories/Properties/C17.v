(* C17 - per-region bigWig statistics and values are exact and thread-count independent.
   Statements only, each closed by [exact]; the proofs are in Proofs/BedStats*.v.

   Level: the region statistics are stated over the list-level answer of a range query on a file written
   from an accepted value list in blocks of any size (Proofs/BigWigQuery.v query_sections, C01); the byte
   level under it is C01/C05 plus the byte-exact correspondence of the writer and reader models.  The
   tool level is stated on the bytes of the BED file and of the output file. *)
From Coq Require Import QArith.
From BT Require Import Base.Util Base.Float Model.RTree Model.BBIFile Model.BigWigWrite Model.BBIRead
  Model.BedStats Proofs.Chunks Proofs.BigWigQuery Proofs.BedStatsThms Proofs.BedStatsFloat Proofs.BedStatsRows Proofs.BedStatsNames Proofs.BedStatsValues Proofs.BedStatsPerBase.
Local Open Scope N_scope.

(* size = e - s, bases = sum of the clipped lengths, sum = the code's accumulation over exactly the clipped
   values, mean0 = sum / size, mean = sum / bases, min / max folded over the clipped values, and
   mean = min = max = NaN when no base is covered; no panic for s <= e.  For every rounding mode. *)
Theorem C17_stats : forall fp len ips s e vals, (0 < ips)%nat -> wf_vals len vals -> s <= e ->
  let cl := clip_filter s e vals in
  exists st,
    stats_of fp s e (flat_map (clip_filter s e) (filter (chunk_hit s e) (chunks ips vals))) = Ok st /\
    st_size st = e - s /\ st_bases st = bases_of cl /\ st_sum st = sum_of fp cl /\
    st_mean0 st = fdiv64 fp (sum_of fp cl) (f_of_N (e - s)) /\
    (bases_of cl = 0 -> st_mean st = FNaN /\ st_min st = FNaN /\ st_max st = FNaN) /\
    (bases_of cl <> 0 ->
       st_mean st = fdiv64 fp (sum_of fp cl) (f_of_N (bases_of cl)) /\
       st_min st = fold_left fmin (map v_val cl) f64_max /\
       st_max st = fold_left fmax (map v_val cl) f64_min).
Proof. exact stats_spec. Qed.
Print Assumptions C17_stats.

(* without rounding the accumulated sum is the rational number  sum_i len_i * value_i *)
Theorem C17_sum_exact : forall cl, all_finite cl ->
  is_fin (sum_of exact cl) = true /\ (fl_Q (sum_of exact cl) == sumQ cl)%Q.
Proof. exact sum_exact. Qed.
Print Assumptions C17_sum_exact.

(* the folded minimum (maximum) bounds every clipped value and is one of them or the start value *)
Theorem C17_minmax : forall cl, all_finite cl ->
  let mn := fold_left fmin (map v_val cl) f64_max in
  let mx := fold_left fmax (map v_val cl) f64_min in
  (forall v, In v cl -> fle mn (v_val v) /\ fle (v_val v) mx) /\
  (mn = f64_max \/ In mn (map v_val cl)) /\ (mx = f64_min \/ In mx (map v_val cl)).
Proof. exact minmax_spec. Qed.
Print Assumptions C17_minmax.

(* one row per line, in line order, in the tool output and in the library iterator *)
Theorem C17_rows_in_order : forall fp q m minmax bed rs,
  Forall2 (fun l r => line_result fp q m l = Ok r) (file_lines bed) rs ->
  avg_serial fp q m minmax bed = Ok (concat (map (fun r => fmt_row minmax (fst r) (snd r)) rs)) /\
  lib_iter fp q m (file_lines bed) = Ok (map (fun r => IOk (fst r) (snd r)) rs).
Proof. exact rows_in_order. Qed.
Print Assumptions C17_rows_in_order.

(* every chunking that cuts at line starts and covers the file once: the concatenation of the per-chunk
   outputs is the serial output *)
Theorem C17_chunked_eq_serial : forall fp q m minmax chunks out, cuts_at_lines chunks ->
  avg_serial fp q m minmax (concat chunks) = Ok out -> avg_parallel fp q m minmax chunks = Ok out.
Proof. exact chunked_eq_serial. Qed.
Print Assumptions C17_chunked_eq_serial.

(* the parallel path itself does not depend on the chunking, whatever the outcome *)
Theorem C17_chunking_irrelevant : forall fp q m minmax chunks, cuts_at_lines chunks ->
  avg_parallel fp q m minmax chunks = avg_chunk fp q m minmax (concat chunks).
Proof. exact chunking_irrelevant. Qed.
Print Assumptions C17_chunking_irrelevant.

(* a BED line made of the tab-separated fields chrom, start, end, extra...: parse_bed recovers them;
   Column n (zero based) is field n for every field there is, Interval is chrom:start-end, None is the
   whole line (followed by a tab when the line has only three fields) *)
Theorem C17_name : forall chrom s e extra,
  no_tab chrom -> Forall no_tab extra -> s < 2 ^ 32 -> e < 2 ^ 32 ->
  let fields := chrom :: dec s :: dec e :: extra in
  let line := join TAB fields in
  let en := {| be_start := s; be_end := e; be_rest := join TAB extra |} in
  trim_end line = line ->
  parse_bed line = Ok (chrom, en) /\
  (forall n f, nth_error fields n = Some f -> name_for_bed_item (NColumn n) chrom en = Ok f) /\
  name_for_bed_item NInterval chrom en = Ok (chrom ++ [58] ++ dec s ++ [45] ++ dec e) /\
  name_for_bed_item NNone chrom en = Ok (match extra with [] => line ++ [TAB] | _ => line end).
Proof. exact name_of_fields. Qed.
Print Assumptions C17_name.

(* valuesoverbed: no index leaves the vector; one cell per base of the region; cell i is the bit pattern of
   the stored value covering base s+i, and 0.0 where no value covers it *)
Theorem C17_values_over_bed : forall len s e vals, wf_vals len vals -> s <= e ->
  existsb (out_of_region s e) (clip_filter s e vals) = false /\
  length (vob_fill s e (clip_filter s e vals)) = N.to_nat (e - s) /\
  forall i, (i < N.to_nat (e - s))%nat ->
    nth_error (vob_fill s e (clip_filter s e vals)) i =
    Some (match find (covers (s + N.of_nat i)) vals with Some v => v_bits v | None => 0 end).
Proof. exact values_spec. Qed.
Print Assumptions C17_values_over_bed.

(* the same over any stored list (not necessarily disjoint): the last covering value in file order *)
Theorem C17_values_over_bed_last : forall s e vals, s <= e ->
  existsb (out_of_region s e) (clip_filter s e vals) = false /\
  length (vob_fill s e (clip_filter s e vals)) = N.to_nat (e - s) /\
  forall i, (i < N.to_nat (e - s))%nat ->
    nth_error (vob_fill s e (clip_filter s e vals)) i =
    Some (match find (covers (s + N.of_nat i)) (rev vals) with Some v => v_bits v | None => 0 end).
Proof. exact values_spec_last. Qed.
Print Assumptions C17_values_over_bed_last.

(* base by base: bases = the number of bases of the region covered by a stored value; the exact sum = the
   sum over the region's bases of the value stored at the base (0 where there is none) *)
Theorem C17_stats_per_base : forall len s e vals, wf_vals len vals -> s <= e -> all_finite (clip_filter s e vals) ->
  bases_of (clip_filter s e vals) = N.of_nat (covered_count vals s e) /\
  (fl_Q (sum_of exact (clip_filter s e vals)) == sum_over (base_val vals) (region_bases s e))%Q.
Proof. exact stats_per_base. Qed.
Print Assumptions C17_stats_per_base.

(* valuesoverbed: one row per line of the BED file, in line order *)
Theorem C17_values_rows_in_order : forall q withnames bed rows,
  values_over_bed q withnames bed = Ok rows <->
  Forall2 (fun l r => vob_line q withnames (unique_names withnames bed) l = Ok r) (file_lines bed) rows.
Proof. exact values_rows_in_order. Qed.
Print Assumptions C17_values_rows_in_order.

(* ================= the IEEE sum is the exact sum on a checkable domain =================
   (Proofs/FloatExact.v, Proofs/FloatExactStats.v.)  C17_sum_exact is about the non-rounding mode; the
   implementation accumulates in binary64.  For clipped values that are integer multiples of 2^G ([vgrid E G];
   E a unit below every exponent) with  sum len*|val| < 2^53  units of 2^G, the IEEE accumulation ([sum_of ieee],
   what C17_stats says st_sum is) denotes the rational number  sum_i len_i * val_i. *)
From BT Require Proofs.FloatExact Proofs.FloatExactStats Proofs.C06FileFloat.

Theorem C17_sum_ieee_on_grid : forall E G cl, FloatExact.grid_ok_sum E G -> Forall (FloatExact.vgrid E G) cl ->
  (FloatExact.gabs E G cl < FloatExact.P53)%Z ->
  is_fin (sum_of ieee cl) = true /\ (fl_Q (sum_of ieee cl) == sumQ cl)%Q /\
  C06FileFloat.same_num (sum_of ieee cl) (sum_of exact cl) /\
  FloatExact.gval E G (sum_of ieee cl) (FloatExact.gsum E G cl).
Proof. exact FloatExactStats.sum_ieee_on_grid. Qed.
Print Assumptions C17_sum_ieee_on_grid.

(* the generator domain (stored values multiples of 1/8, |v| <= 1024, fewer than 2^24 bases; decidable):
   every region of such a file *)
Theorem C17_sum_ieee_in_domain : forall s e vals, FloatExact.in_exact_domain vals = true ->
  let cl := clip_filter s e vals in
  is_fin (sum_of ieee cl) = true /\ (fl_Q (sum_of ieee cl) == sumQ cl)%Q /\
  C06FileFloat.same_num (sum_of ieee cl) (sum_of exact cl).
Proof. exact FloatExactStats.sum_ieee_in_domain. Qed.
Print Assumptions C17_sum_ieee_in_domain.

Example C17_example_ieee_domain :
  let vals := [ {| v_start := 2; v_end := 4; v_bits := 1065353216 |}; {| v_start := 6; v_end := 8; v_bits := 3212836864 |} ] in
  FloatExact.in_exact_domain vals = true /\ sum_of ieee (clip_filter 3 8 vals) = sum_of exact (clip_filter 3 8 vals).
Proof. cbv zeta. split; [vm_compute; reflexivity|]. vm_compute. reflexivity. Qed.
