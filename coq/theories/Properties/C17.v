(* C17 - per-region bigWig statistics and values are exact and thread-count independent.
   Statements only, each closed by [exact]; the proofs are in Proofs/BedStats*.v.

   Level: the region statistics are stated over the list-level answer of a range query on a file written
   from an accepted value list in blocks of any size (Proofs/BigWigQuery.v query_sections, C01); the byte
   level under it is C01/C05 plus the byte-exact correspondence of the writer and reader models.  The
   tool level is stated on the bytes of the BED file and of the output file. *)
From Coq Require Import QArith.
From BT Require Import Base.Util Base.Float Model.RTree Model.BBIFile Model.BigWigWrite Model.BBIRead
  Model.BedStats Proofs.Chunks Proofs.BigWigQuery Proofs.BedStatsThms Proofs.BedStatsFloat Proofs.BedStatsRows Proofs.BedStatsNames Proofs.BedStatsValues Proofs.BedStatsPerBase.
Local Open Scope N_scope.

(* size = e - s, bases = sum of the clipped lengths, sum = the code's accumulation over exactly the clipped
   values, mean0 = sum / size, mean = sum / bases, min / max folded over the clipped values, and
   mean = min = max = NaN when no base is covered; no panic for s <= e.  For every rounding mode. *)
Theorem C17_stats : forall fp len ips s e vals, (0 < ips)%nat -> wf_vals len vals -> s <= e ->
  let cl := clip_filter s e vals in
  exists st,
    stats_of fp s e (flat_map (clip_filter s e) (filter (chunk_hit s e) (chunks ips vals))) = Ok st /\
    st_size st = e - s /\ st_bases st = bases_of cl /\ st_sum st = sum_of fp cl /\
    st_mean0 st = fdiv64 fp (sum_of fp cl) (f_of_N (e - s)) /\
    (bases_of cl = 0 -> st_mean st = FNaN /\ st_min st = FNaN /\ st_max st = FNaN) /\
    (bases_of cl <> 0 ->
       st_mean st = fdiv64 fp (sum_of fp cl) (f_of_N (bases_of cl)) /\
       st_min st = fold_left fmin (map v_val cl) f64_max /\
       st_max st = fold_left fmax (map v_val cl) f64_min).
Proof. exact stats_spec. Qed.
Print Assumptions C17_stats.

(* without rounding the accumulated sum is the rational number  sum_i len_i * value_i *)
Theorem C17_sum_exact : forall cl, all_finite cl ->
  is_fin (sum_of exact cl) = true /\ (fl_Q (sum_of exact cl) == sumQ cl)%Q.
Proof. exact sum_exact. Qed.
Print Assumptions C17_sum_exact.

(* the folded minimum (maximum) bounds every clipped value and is one of them or the start value *)
Theorem C17_minmax : forall cl, all_finite cl ->
  let mn := fold_left fmin (map v_val cl) f64_max in
  let mx := fold_left fmax (map v_val cl) f64_min in
  (forall v, In v cl -> fle mn (v_val v) /\ fle (v_val v) mx) /\
  (mn = f64_max \/ In mn (map v_val cl)) /\ (mx = f64_min \/ In mx (map v_val cl)).
Proof. exact minmax_spec. Qed.
Print Assumptions C17_minmax.

(* one row per line, in line order, in the tool output and in the library iterator *)
Theorem C17_rows_in_order : forall fp q m minmax bed rs,
  Forall2 (fun l r => line_result fp q m l = Ok r) (file_lines bed) rs ->
  avg_serial fp q m minmax bed = Ok (concat (map (fun r => fmt_row minmax (fst r) (snd r)) rs)) /\
  lib_iter fp q m (file_lines bed) = Ok (map (fun r => IOk (fst r) (snd r)) rs).
Proof. exact rows_in_order. Qed.
Print Assumptions C17_rows_in_order.

(* every chunking that cuts at line starts and covers the file once: the concatenation of the per-chunk
   outputs is the serial output *)
Theorem C17_chunked_eq_serial : forall fp q m minmax chunks out, cuts_at_lines chunks ->
  avg_serial fp q m minmax (concat chunks) = Ok out -> avg_parallel fp q m minmax chunks = Ok out.
Proof. exact chunked_eq_serial. Qed.
Print Assumptions C17_chunked_eq_serial.

(* the parallel path itself does not depend on the chunking, whatever the outcome *)
Theorem C17_chunking_irrelevant : forall fp q m minmax chunks, cuts_at_lines chunks ->
  avg_parallel fp q m minmax chunks = avg_chunk fp q m minmax (concat chunks).
Proof. exact chunking_irrelevant. Qed.
Print Assumptions C17_chunking_irrelevant.

(* a BED line made of the tab-separated fields chrom, start, end, extra...: parse_bed recovers them;
   Column n (zero based) is field n for every field there is, Interval is chrom:start-end, None is the
   whole line (followed by a tab when the line has only three fields) *)
Theorem C17_name : forall chrom s e extra,
  no_tab chrom -> Forall no_tab extra -> s < 2 ^ 32 -> e < 2 ^ 32 ->
  let fields := chrom :: dec s :: dec e :: extra in
  let line := join TAB fields in
  let en := {| be_start := s; be_end := e; be_rest := join TAB extra |} in
  trim_end line = line ->
  parse_bed line = Ok (chrom, en) /\
  (forall n f, nth_error fields n = Some f -> name_for_bed_item (NColumn n) chrom en = Ok f) /\
  name_for_bed_item NInterval chrom en = Ok (chrom ++ [58] ++ dec s ++ [45] ++ dec e) /\
  name_for_bed_item NNone chrom en = Ok (match extra with [] => line ++ [TAB] | _ => line end).
Proof. exact name_of_fields. Qed.
Print Assumptions C17_name.

(* valuesoverbed: no index leaves the vector; one cell per base of the region; cell i is the bit pattern of
   the stored value covering base s+i, and 0.0 where no value covers it *)
Theorem C17_values_over_bed : forall len s e vals, wf_vals len vals -> s <= e ->
  existsb (out_of_region s e) (clip_filter s e vals) = false /\
  length (vob_fill s e (clip_filter s e vals)) = N.to_nat (e - s) /\
  forall i, (i < N.to_nat (e - s))%nat ->
    nth_error (vob_fill s e (clip_filter s e vals)) i =
    Some (match find (covers (s + N.of_nat i)) vals with Some v => v_bits v | None => 0 end).
Proof. exact values_spec. Qed.
Print Assumptions C17_values_over_bed.

(* the same over any stored list (not necessarily disjoint): the last covering value in file order *)
Theorem C17_values_over_bed_last : forall s e vals, s <= e ->
  existsb (out_of_region s e) (clip_filter s e vals) = false /\
  length (vob_fill s e (clip_filter s e vals)) = N.to_nat (e - s) /\
  forall i, (i < N.to_nat (e - s))%nat ->
    nth_error (vob_fill s e (clip_filter s e vals)) i =
    Some (match find (covers (s + N.of_nat i)) (rev vals) with Some v => v_bits v | None => 0 end).
Proof. exact values_spec_last. Qed.
Print Assumptions C17_values_over_bed_last.

(* base by base: bases = the number of bases of the region covered by a stored value; the exact sum = the
   sum over the region's bases of the value stored at the base (0 where there is none) *)
Theorem C17_stats_per_base : forall len s e vals, wf_vals len vals -> s <= e -> all_finite (clip_filter s e vals) ->
  bases_of (clip_filter s e vals) = N.of_nat (covered_count vals s e) /\
  (fl_Q (sum_of exact (clip_filter s e vals)) == sum_over (base_val vals) (region_bases s e))%Q.
Proof. exact stats_per_base. Qed.
Print Assumptions C17_stats_per_base.

(* valuesoverbed: one row per line of the BED file, in line order *)
Theorem C17_values_rows_in_order : forall q withnames bed rows,
  values_over_bed q withnames bed = Ok rows <->
  Forall2 (fun l r => vob_line q withnames (unique_names withnames bed) l = Ok r) (file_lines bed) rows.
Proof. exact values_rows_in_order. Qed.
Print Assumptions C17_values_rows_in_order.

(* ================= the IEEE sum is the exact sum on a checkable domain =================
   (Proofs/FloatExact.v, Proofs/FloatExactStats.v.)  C17_sum_exact is about the non-rounding mode; the
   implementation accumulates in binary64.  For clipped values that are integer multiples of 2^G ([vgrid E G];
   E a unit below every exponent) with  sum len*|val| < 2^53  units of 2^G, the IEEE accumulation ([sum_of ieee],
   what C17_stats says st_sum is) denotes the rational number  sum_i len_i * val_i. *)
From BT Require Proofs.FloatExact Proofs.FloatExactStats Proofs.C06FileFloat.

Theorem C17_sum_ieee_on_grid : forall E G cl, FloatExact.grid_ok_sum E G -> Forall (FloatExact.vgrid E G) cl ->
  (FloatExact.gabs E G cl < FloatExact.P53)%Z ->
  is_fin (sum_of ieee cl) = true /\ (fl_Q (sum_of ieee cl) == sumQ cl)%Q /\
  C06FileFloat.same_num (sum_of ieee cl) (sum_of exact cl) /\
  FloatExact.gval E G (sum_of ieee cl) (FloatExact.gsum E G cl).
Proof. exact FloatExactStats.sum_ieee_on_grid. Qed.
Print Assumptions C17_sum_ieee_on_grid.

(* the generator domain (stored values multiples of 1/8, |v| <= 1024, fewer than 2^24 bases; decidable):
   every region of such a file *)
Theorem C17_sum_ieee_in_domain : forall s e vals, FloatExact.in_exact_domain vals = true ->
  let cl := clip_filter s e vals in
  is_fin (sum_of ieee cl) = true /\ (fl_Q (sum_of ieee cl) == sumQ cl)%Q /\
  C06FileFloat.same_num (sum_of ieee cl) (sum_of exact cl).
Proof. exact FloatExactStats.sum_ieee_in_domain. Qed.
Print Assumptions C17_sum_ieee_in_domain.

Example C17_example_ieee_domain :
  let vals := [ {| v_start := 2; v_end := 4; v_bits := 1065353216 |}; {| v_start := 6; v_end := 8; v_bits := 3212836864 |} ] in
  FloatExact.in_exact_domain vals = true /\ sum_of ieee (clip_filter 3 8 vals) = sum_of exact (clip_filter 3 8 vals).
Proof. cbv zeta. split; [vm_compute; reflexivity|]. vm_compute. reflexivity. Qed.

(* ================= the same with the FILE BYTES as the subject (Proofs/BedStatsFile.v) =================
   Above, the statistics are stated over [clip_filter s e vals], the list-level answer of a range query.  Here the
   subject is [bs], the bytes returned by the bigWig writer model ([bw_write] = BigWigWrite::write, or the two-pass
   writer) on an accepted input: the model of stats_for_bed_item / of the valuesoverbed row, run on what the READER
   returns for those bytes ([bw_interval infl bs i]: header -> chromosome tree -> R-tree search on the index bytes ->
   block reads -> section decode -> clip; C01_query_on_input), yields the statistics of C17_stats over
   [clip_filter s e (vals_of inp c)], [vals_of inp c] = the values the INPUT holds for chromosome c, in input order.
   Hypotheses: C01's ([opts_ok]: 2 <= block_size <= 65535, 1 <= items_per_slot <= 65535; [input_ok]: names NUL-free and
   < 2^32 bytes, < 65536 chromosomes, lengths and bit patterns < 2^32; file < 2^64 bytes), the chromosome has data, and
   s <= e.  [fp] (rounding mode of the writer's summary arithmetic), [fq] (rounding mode of the statistics), [infl]
   (decompressor; the file is uncompressed) and the region's extra columns are arbitrary. *)
From BT Require Proofs.RTreeCodec Proofs.BigWigFileRoundTrip Proofs.BigWigFileInput Proofs.BedStatsFile.

Theorem C17_stats_file : forall fp o sizes (inp : list BigWigWrite.item) bs,
  BigWigFileRoundTrip.opts_ok o -> BigWigFileRoundTrip.input_ok sizes inp -> Nlen bs < RTreeCodec.U64 ->
  bw_write fp o sizes inp = Ok bs \/ bw_write_multipass fp o sizes inp = Ok bs ->
  exists i, read_info bs = Ok i /\
  forall fq infl c s e rest, In c (map fst inp) -> s <= e ->
  let cl := clip_filter s e (BigWigFileInput.vals_of inp c) in
  bw_interval infl bs i c s e = Ok cl /\
  exists st,
    stats_for_bed_item fq (bw_interval infl bs i) c {| be_start := s; be_end := e; be_rest := rest |} = Ok st /\
    st_size st = e - s /\ st_bases st = bases_of cl /\ st_sum st = sum_of fq cl /\
    st_mean0 st = fdiv64 fq (sum_of fq cl) (f_of_N (e - s)) /\
    (bases_of cl = 0 -> st_mean st = FNaN /\ st_min st = FNaN /\ st_max st = FNaN) /\
    (bases_of cl <> 0 ->
       st_mean st = fdiv64 fq (sum_of fq cl) (f_of_N (bases_of cl)) /\
       st_min st = fold_left fmin (map v_val cl) f64_max /\
       st_max st = fold_left fmax (map v_val cl) f64_min).
Proof. exact BedStatsFile.stats_file. Qed.
Print Assumptions C17_stats_file.

(* base by base, in terms of the data that was written: bases = number of bases of [s,e) at which the input holds a
   value (every rounding mode); without rounding the sum is finite and is the sum over the region's bases of the value
   written at the base (0 where none) *)
Theorem C17_bases_file : forall fp o sizes (inp : list BigWigWrite.item) bs,
  BigWigFileRoundTrip.opts_ok o -> BigWigFileRoundTrip.input_ok sizes inp -> Nlen bs < RTreeCodec.U64 ->
  bw_write fp o sizes inp = Ok bs \/ bw_write_multipass fp o sizes inp = Ok bs ->
  exists i, read_info bs = Ok i /\
  forall fq infl c s e rest, In c (map fst inp) -> s <= e ->
  exists st,
    stats_for_bed_item fq (bw_interval infl bs i) c {| be_start := s; be_end := e; be_rest := rest |} = Ok st /\
    st_bases st = N.of_nat (covered_count (BigWigFileInput.vals_of inp c) s e).
Proof. exact BedStatsFile.bases_file. Qed.
Print Assumptions C17_bases_file.

Theorem C17_stats_per_base_file : forall fp o sizes (inp : list BigWigWrite.item) bs,
  BigWigFileRoundTrip.opts_ok o -> BigWigFileRoundTrip.input_ok sizes inp -> Nlen bs < RTreeCodec.U64 ->
  bw_write fp o sizes inp = Ok bs \/ bw_write_multipass fp o sizes inp = Ok bs ->
  exists i, read_info bs = Ok i /\
  forall infl c s e rest, In c (map fst inp) -> s <= e ->
  let vals := BigWigFileInput.vals_of inp c in
  all_finite (clip_filter s e vals) ->
  exists st,
    stats_for_bed_item exact (bw_interval infl bs i) c {| be_start := s; be_end := e; be_rest := rest |} = Ok st /\
    st_bases st = N.of_nat (covered_count vals s e) /\
    is_fin (st_sum st) = true /\
    (fl_Q (st_sum st) == sum_over (base_val vals) (region_bases s e))%Q.
Proof. exact BedStatsFile.stats_per_base_file. Qed.
Print Assumptions C17_stats_per_base_file.

(* valuesoverbed on the bytes: the reader's answer never indexes outside the vector; one cell per base of the region;
   cell k = bit pattern of the value WRITTEN at base s+k, 0.0 where none was written; and this is the row the tool
   model computes for any line whose first three tab-separated fields are c, s, e *)
Theorem C17_values_file : forall fp o sizes (inp : list BigWigWrite.item) bs,
  BigWigFileRoundTrip.opts_ok o -> BigWigFileRoundTrip.input_ok sizes inp -> Nlen bs < RTreeCodec.U64 ->
  bw_write fp o sizes inp = Ok bs \/ bw_write_multipass fp o sizes inp = Ok bs ->
  exists i, read_info bs = Ok i /\
  forall infl c s e, In c (map fst inp) -> s <= e ->
  let vals := BigWigFileInput.vals_of inp c in
  exists cl, bw_interval infl bs i c s e = Ok cl /\
    existsb (out_of_region s e) cl = false /\
    length (vob_fill s e cl) = N.to_nat (e - s) /\
    (forall k, (k < N.to_nat (e - s))%nat ->
       nth_error (vob_fill s e cl) k =
       Some (match find (covers (s + N.of_nat k)) vals with Some v => v_bits v | None => 0 end)) /\
    (forall l st en uniq,
       piece 0 (trim l) = Some c -> piece 1 (trim l) = Some st -> piece 2 (trim l) = Some en ->
       parse_u32 st = Some s -> parse_u32 en = Some e ->
       vob_line (bw_interval infl bs i) false uniq l = Ok (None, vob_fill s e cl)).
Proof. exact BedStatsFile.values_file. Qed.
Print Assumptions C17_values_file.

(* one line of bigwigaverageoverbed / one item of the library iterator on the bytes (feeds C17_rows_in_order) *)
Theorem C17_line_file : forall fp o sizes (inp : list BigWigWrite.item) bs,
  BigWigFileRoundTrip.opts_ok o -> BigWigFileRoundTrip.input_ok sizes inp -> Nlen bs < RTreeCodec.U64 ->
  bw_write fp o sizes inp = Ok bs \/ bw_write_multipass fp o sizes inp = Ok bs ->
  exists i, read_info bs = Ok i /\
  forall fq infl m l c en nm, parse_bed l = Ok (c, en) -> name_for_bed_item m c en = Ok nm ->
  In c (map fst inp) -> be_start en <= be_end en ->
  let cl := clip_filter (be_start en) (be_end en) (BigWigFileInput.vals_of inp c) in
  exists st, line_result fq (bw_interval infl bs i) m l = Ok (nm, st) /\
    stats_of fq (be_start en) (be_end en) cl = Ok st /\
    st_size st = be_end en - be_start en /\ st_bases st = bases_of cl /\ st_sum st = sum_of fq cl.
Proof. exact BedStatsFile.line_file. Qed.
Print Assumptions C17_line_file.

(* non-vacuity: BedStatsFile.stats_file_example_hyps (two chromosomes, three sections, both writers meet every
   hypothesis) and stats_file_example_run (the statistics of region [5,35) and the valuesoverbed row of [8,12) are
   computed from the bytes by vm_compute: size 30, bases 20, sum 10, min -1, max 3; cells 1 1 -1 -1) *)
Example C17_stats_file_example :
  BigWigFileRoundTrip.opts_ok BedStatsFile.sf_opts /\ BigWigFileRoundTrip.input_ok BedStatsFile.sf_sizes BedStatsFile.sf_inp /\
  In [97] (map fst BedStatsFile.sf_inp) /\ BigWigFileInput.vals_of BedStatsFile.sf_inp [97] = BedStatsFile.sf_a /\
  (exists bs, bw_write ieee BedStatsFile.sf_opts BedStatsFile.sf_sizes BedStatsFile.sf_inp = Ok bs /\ Nlen bs < RTreeCodec.U64) /\
  (exists bs, bw_write_multipass ieee BedStatsFile.sf_opts BedStatsFile.sf_sizes BedStatsFile.sf_inp = Ok bs /\ Nlen bs < RTreeCodec.U64).
Proof. exact BedStatsFile.stats_file_example_hyps. Qed.
