(* Statement pins for C20: each property theorem is re-checked against the statement recorded here, so
   a theorem cannot be weakened in its own file without this file failing to compile. *)
From BT Require Import Base.Util.
From BT Require Model.PyArrays Proofs.PyArraysCover Proofs.PyArraysBed Proofs.PyArraysZoom Properties.C20.

Module PinC20.
Import Model.PyArrays Proofs.PyArraysCover Proofs.PyArraysBed Proofs.PyArraysZoom Properties.C20.
Local Open Scope Z_scope.
Check (C20_bin_index_spec : forall pos span bins, 0 <= pos < span -> 0 < bins ->
  let k := bin_index pos span bins in
  0 <= k < bins /\ bin_edge k span bins <= pos < bin_edge (k + 1) span bins).
Check (C20_per_base : forall touch len vals ents s e st missing oob,
  wig_ok 0 len vals -> bed_ok 0 len ents -> s < e ->
  values_wig len vals s e None st missing oob
    = Ok (map (base_cell (wig_at vals) len missing oob) (seqZ s (Z.to_nat (e - s))))
  /\ values_bed touch len ents s e None st missing oob
    = Ok (map (base_cell (bed_at ents) len missing oob) (seqZ s (Z.to_nat (e - s))))).
Check (C20_bins : forall touch len vals ents s e bins st missing oob,
  wig_ok 0 len vals -> bed_ok 0 len ents -> s < e -> 0 < bins <= e - s ->
  values_wig len vals s e (Some bins) st missing oob
    = Ok (map (fun k => bin_cell (wig_at vals) len st missing oob
                          (s + bin_edge k (e - s) bins) (s + bin_edge (k + 1) (e - s) bins))
              (seqZ 0 (Z.to_nat bins)))
  /\ values_bed touch len ents s e (Some bins) st missing oob
    = Ok (map (fun k => bin_cell (bed_at ents) len st missing oob
                          (s + bin_edge k (e - s) bins) (s + bin_edge (k + 1) (e - s) bins))
              (seqZ 0 (Z.to_nat bins)))).
Check (C20_bins_nan_free : forall touch len vals ents s e obins st m o,
  wig_ok 0 len vals -> bed_ok 0 len ents -> s < e ->
  match obins with Some bins => 0 < bins <= e - s | None => True end ->
  exists cw cb, values_wig len vals s e obins st (FV m) (FV o) = Ok cw
             /\ values_bed touch len ents s e obins st (FV m) (FV o) = Ok cb
             /\ Forall (fun c => exists n d, c = OQ n d /\ 0 < d) cw
             /\ Forall (fun c => exists n d, c = OQ n d /\ 0 < d) cb).
Check (C20_oob : forall touch len vals ents s e st missing oob,
  wig_ok 0 len vals -> bed_ok 0 len ents -> s < e ->
  (exists cw cb, values_wig len vals s e None st missing oob = Ok cw
              /\ values_bed touch len ents s e None st missing oob = Ok cb
              /\ forall p, s <= p < e -> p < 0 \/ len <= p ->
                   nth (Z.to_nat (p - s)) cw ONaN = out_of_fl oob /\ nth (Z.to_nat (p - s)) cb ONaN = out_of_fl oob)
  /\ forall bins, 0 < bins <= e - s ->
     exists cw cb, values_wig len vals s e (Some bins) st missing oob = Ok cw
                /\ values_bed touch len ents s e (Some bins) st missing oob = Ok cb
                /\ forall k, 0 <= k < bins ->
                     s + bin_edge k (e - s) bins < 0 \/ len < s + bin_edge (k + 1) (e - s) bins ->
                     nth (Z.to_nat k) cw ONaN = out_of_fl oob /\ nth (Z.to_nat k) cb ONaN = out_of_fl oob).
Check (C20_zoom_bins : forall touch len recs s e bins st missing oob,
  zoom_ok 0 len recs -> s < e -> 0 < bins <= e - s ->
  values_wig_zoom touch len recs s e bins st missing oob
    = Ok (map (fun k => zoom_cell zmean recs len st missing oob
                          (s + bin_edge k (e - s) bins) (s + bin_edge (k + 1) (e - s) bins))
              (seqZ 0 (Z.to_nat bins)))
  /\ values_bed_zoom touch len recs s e bins st missing oob
    = Ok (map (fun k => zoom_cell zmean0 recs len st missing oob
                          (s + bin_edge k (e - s) bins) (s + bin_edge (k + 1) (e - s) bins))
              (seqZ 0 (Z.to_nat bins)))).
Check (C20_zoom_step_function : forall touch len recs s e bins st missing oob,
  zoom_ok 0 len recs -> s < e -> 0 < bins <= e - s ->
  values_wig_zoom touch len recs s e bins st missing oob
    = values_wig len (map (zwv false st) recs) s e (Some bins) st missing oob
  /\ values_bed_zoom touch len recs s e bins st missing oob
    = values_wig len (map (zwv true st) recs) s e (Some bins) st missing oob).
Check (C20_zoom_missing : forall mval recs len st missing oob lo hi, 0 <= lo -> hi <= len ->
  (forall z, In z recs -> zov lo hi z <= 0) ->
  zoom_cell mval recs len st missing oob lo hi = out_of_fl missing).
Check (C20_zoom_nan_free : forall touch len recs s e bins st m o,
  zoom_ok 0 len recs -> s < e -> 0 < bins <= e - s ->
  exists cw cb, values_wig_zoom touch len recs s e bins st (FV m) (FV o) = Ok cw
             /\ values_bed_zoom touch len recs s e bins st (FV m) (FV o) = Ok cb
             /\ Forall (fun c => exists n d, c = OQ n d /\ 0 < d) cw
             /\ Forall (fun c => exists n d, c = OQ n d /\ 0 < d) cb).
Check (C20_zoom_oob : forall touch len recs s e bins st missing oob,
  zoom_ok 0 len recs -> s < e -> 0 < bins <= e - s ->
  exists cw cb, values_wig_zoom touch len recs s e bins st missing oob = Ok cw
             /\ values_bed_zoom touch len recs s e bins st missing oob = Ok cb
             /\ forall k, 0 <= k < bins ->
                  s + bin_edge k (e - s) bins < 0 \/ len < s + bin_edge (k + 1) (e - s) bins ->
                  nth (Z.to_nat k) cw ONaN = out_of_fl oob /\ nth (Z.to_nat k) cb ONaN = out_of_fl oob).
Check (C20_fetch_clamp : forall s e len p,
  let '(fs, fe) := clamp s e len in
  0 <= fs /\ 0 <= fe /\ (fs <= p < fe <-> (s <= p < e /\ 0 <= p < len))).
Check (C20_oob_layout : forall s e len nbins oob arr, s < e -> 0 < nbins <= e - s -> length arr = Z.to_nat nbins ->
  oob_fill s e len nbins oob arr
  = Ok (map (fun k => if (s + bin_edge k (e - s) nbins <? 0) || (len <? s + bin_edge (k + 1) (e - s) nbins)
                      then out_of_fl oob else nth (Z.to_nat k) arr ONaN)
            (seqZ 0 (Z.to_nat nbins)))).
End PinC20.

(* binary64 sums on the generator's domain *)
From BT Require Base.Float Model.PyArraysIeee Proofs.FloatExact Proofs.PyArraysIeee.
Module PinC20Ieee.
Import Model.PyArrays Base.Float Model.PyArraysIeee Proofs.FloatExact Proofs.PyArraysIeee Properties.C20.
Local Open Scope Z_scope.
Check (C20_sums_exact_in_domain : forall l : list (Z * Z), py_in_domain l = true ->
  (forall E (v64 : Z -> Float.fl), E <= -3 -> (forall t, In t l -> gval E (-3) (v64 (snd t)) (snd t)) ->
     gval E (-3) (py_sum_ieee ieee (lift v64 l)) (py_sum_exact l))
  /\ py_sum_ieee ieee (lift f8 l) = f8 (py_sum_exact l)
  /\ py_mean_ieee ieee (lift f8 l) = fdiv64 ieee (f8 (py_sum_exact l)) (f_of_Z (py_count l))
  /\ Z.abs (py_sum_exact l) <= 8192 * 2 ^ 24).
Check (C20_bin_mean_ieee : forall (is_ ie : wval -> Z) bs be iv r missing m64,
  let items := iv :: r in
  let l := wig_contribs is_ ie bs be items in
  py_in_domain l = true ->
  (exists d, foldM (fun d iv => wig_upd Mean (is_ iv) (ie iv) (w_val iv) bs be d) items None = Ok d
             /\ wig_fin Mean missing d = fdiv (FV (py_sum_exact l)) (py_count l))
  /\ wig_mean_fin64 ieee m64
       (fold_left (fun d iv => wig_mean_upd64 ieee (is_ iv) (ie iv) (f8 (w_val iv)) bs be d) items None)
     = fdiv64 ieee (f8 (py_sum_exact l)) (f_of_Z (py_count l))).
Check (C20_entry_sums_exact_in_domain : forall cells : list PyArrays.fl, py_cells_in_domain cells = true ->
  (forall E x y, E <= -3 -> cell_rel E x y -> cell_z x + 8 < 2 ^ 53 ->
     cell_rel E (PyArrays.fadd (PyArrays.fmax x (FV 0)) (FV 8)) (bed_cell_upd64 ieee y))
  /\ (forall E ys, E <= -3 -> Forall2 (cell_rel E) cells ys -> gval E (-3) (bed_sum64 ieee ys) (bed_sum_exact cells))
  /\ fsum0 cells = FV (bed_sum_exact cells)
  /\ bed_sum64 ieee (map c64 cells) = f8 (bed_sum_exact cells)
  /\ (forall missing m64 cov, existsb (fun c => 0 <? c) cov = true ->
        bed_fin Mean missing (cov, cells) = fdiv (FV (bed_sum_exact cells)) (fold_left Z.add cov 0)
        /\ bed_mean64 ieee m64 cov (map c64 cells) = fdiv64 ieee (f8 (bed_sum_exact cells)) (f_of_Z (fold_left Z.add cov 0)))).
(* the vocabulary of those statements *)
Check (eq_refl : gval = fun E G x k => BwSummary.fin_ge E x /\ BwSummary.fval E x = k * 2 ^ (G - E)).
Check (eq_refl : f8 = fun z => if z =? 0 then fzero else FFin z (-3)).
Check (eq_refl : py_sum_ieee = fun fp l => fold_left (fun a t => fadd64 fp a (fmul64 fp (f_of_Z (fst t)) (snd t))) l fzero).
Check (eq_refl : py_sum_exact = fun l => fold_left (fun a t => a + fst t * snd t) l 0).
Check (eq_refl : bed_sum64 = fun fp cells => fold_left (fadd64 fp) (map (fun x => Float.fmax x fzero) cells) fzero).
End PinC20Ieee.


(* ---- the written file as the subject (appended; Proofs/PyArraysFile.v): statements and the wrappers they speak about ---- *)
From BT Require Model.BBIFile Model.BigWigWrite Model.BBIRead Model.BigBedWrite Model.BBIReadBed Proofs.RTreeCodec
  Proofs.BigWigFileChroms Proofs.BigWigFileRoundTrip Proofs.BigWigFileInput Proofs.BedEndToEnd Proofs.BedZoomFit Proofs.PyArraysFile.
Module PinC20File.
Import Model.PyArrays Proofs.PyArraysCover Proofs.PyArraysBed Properties.C20.
Local Open Scope Z_scope.
Check (C20_values_wig_written : forall fp o sizes inp bs,
  BigWigFileRoundTrip.opts_ok o -> BigWigFileRoundTrip.input_ok sizes inp -> (Nlen bs < RTreeCodec.U64)%N ->
  BigWigWrite.bw_write fp o sizes inp = Ok bs \/ BigWigWrite.bw_write_multipass fp o sizes inp = Ok bs ->
  exists i, BBIRead.read_info bs = Ok i /\
  forall num infl c, In c (map fst inp) ->
  PyArraysFile.chrom_len i c = Some (Z.of_N (BigWigFileChroms.len_of sizes c)) /\
  forall s e bins st missing oob,
    PyArraysFile.values_wig_file num infl bs i c s e bins st missing oob =
    values_wig (Z.of_N (BigWigFileChroms.len_of sizes c)) (map (PyArraysFile.wv_of num) (BigWigFileInput.vals_of inp c))
      s e bins st missing oob).
Check (C20_values_bed_written : forall two_pass fp o sizes autosql input f,
  BedZoomFit.bb_write_either two_pass fp o sizes autosql input = Ok f -> BedEndToEnd.file_hyps o sizes input f ->
  exists i, BBIRead.read_info f = Ok i /\
  forall infl c es, In (c, es) (BigBedWrite.bruns input) ->
  exists len, BBIFile.lookup c sizes = Some len /\ PyArraysFile.chrom_len i c = Some (Z.of_N len) /\
  forall s e bins st missing oob,
    PyArraysFile.values_bed_file infl f i c s e bins st missing oob =
    values_bed true (Z.of_N len) (map PyArraysFile.be_of es) s e bins st missing oob).
Check (C20_values_file : forall fp o sizes inp bs,
  BigWigFileRoundTrip.opts_ok o -> BigWigFileRoundTrip.input_ok sizes inp -> (Nlen bs < RTreeCodec.U64)%N ->
  BigWigWrite.bw_write fp o sizes inp = Ok bs \/ BigWigWrite.bw_write_multipass fp o sizes inp = Ok bs ->
  exists i, BBIRead.read_info bs = Ok i /\
  forall num infl c, In c (map fst inp) ->
  Forall (fun v => (BigWigWrite.v_start v < BigWigWrite.v_end v)%N) (BigWigFileInput.vals_of inp c) ->
  let len := Z.of_N (BigWigFileChroms.len_of sizes c) in
  let vals := map (PyArraysFile.wv_of num) (BigWigFileInput.vals_of inp c) in
  forall s e st missing oob, s < e ->
  PyArraysFile.values_wig_file num infl bs i c s e None st missing oob
    = Ok (map (base_cell (wig_at vals) len missing oob) (seqZ s (Z.to_nat (e - s))))
  /\ forall bins, 0 < bins <= e - s ->
     PyArraysFile.values_wig_file num infl bs i c s e (Some bins) st missing oob
       = Ok (map (fun k => bin_cell (wig_at vals) len st missing oob
                             (s + bin_edge k (e - s) bins) (s + bin_edge (k + 1) (e - s) bins))
                 (seqZ 0 (Z.to_nat bins)))).
Check (C20_values_file_bed : forall two_pass fp o sizes autosql input f,
  BedZoomFit.bb_write_either two_pass fp o sizes autosql input = Ok f -> BedEndToEnd.file_hyps o sizes input f ->
  exists i, BBIRead.read_info f = Ok i /\
  forall infl c es, In (c, es) (BigBedWrite.bruns input) ->
  exists len, BBIFile.lookup c sizes = Some len /\
  (bed_ok 0 (Z.of_N len) (map PyArraysFile.be_of es) ->
   forall s e st missing oob, s < e ->
   PyArraysFile.values_bed_file infl f i c s e None st missing oob
     = Ok (map (base_cell (bed_at (map PyArraysFile.be_of es)) (Z.of_N len) missing oob) (seqZ s (Z.to_nat (e - s))))
   /\ forall bins, 0 < bins <= e - s ->
      PyArraysFile.values_bed_file infl f i c s e (Some bins) st missing oob
        = Ok (map (fun k => bin_cell (bed_at (map PyArraysFile.be_of es)) (Z.of_N len) st missing oob
                              (s + bin_edge k (e - s) bins) (s + bin_edge (k + 1) (e - s) bins))
                  (seqZ 0 (Z.to_nat bins))))).
Check (eq_refl : PyArraysFile.wv_of = fun (num : N -> Z) (v : BigWigWrite.value) =>
  {| w_start := Z.of_N (BigWigWrite.v_start v); w_end := Z.of_N (BigWigWrite.v_end v); w_val := num (BigWigWrite.v_bits v) |}).
Check (eq_refl : PyArraysFile.be_of = fun (x : BigBedWrite.entry) =>
  {| b_start := Z.of_N (BigBedWrite.e_start x); b_end := Z.of_N (BigBedWrite.e_end x) |}).
Check (eq_refl : PyArraysFile.chrom_len = fun (i : BBIRead.info) (c : BBIFile.name) =>
  match find (fun ci => BBIFile.name_eqb (BBIRead.ci_name ci) c) (BBIRead.i_chroms i) with
  | Some ci => Some (Z.of_N (BBIRead.ci_len ci))
  | None => None
  end).
Check (eq_refl : PyArraysFile.values_wig_file = fun num infl bs i c s e bins st missing oob =>
  match PyArraysFile.chrom_len i c with
  | None => Err PyArraysFile.E_NOCHROM_PY
  | Some length =>
      if e <=? s then Err 9%N else
      let nbins := match bins with Some b => b | None => to_usize (e - s) end in
      let '(fs, fe) := clamp s e length in
      match BBIRead.bw_interval infl bs i c (Z.to_N fs) (Z.to_N fe) with
      | Ok got =>
          let fetched := map (PyArraysFile.wv_of num) got in
          match (match bins with
                 | Some b => to_array_bins s e fetched st b missing (Z.to_nat nbins)
                 | None => to_array s e fetched missing (Z.to_nat nbins)
                 end) with
          | Ok arr => oob_fill s e length nbins oob arr
          | Err x => Err x | Panic => Panic | Fuel => Fuel
          end
      | Err x => Err x | Panic => Panic | Fuel => Fuel
      end
  end).
Check (eq_refl : PyArraysFile.values_bed_file = fun infl f i c s e bins st missing oob =>
  match PyArraysFile.chrom_len i c with
  | None => Err PyArraysFile.E_NOCHROM_PY
  | Some length =>
      if e <=? s then Err 9%N else
      let nbins := match bins with Some b => b | None => to_usize (e - s) end in
      let '(fs, fe) := clamp s e length in
      match BBIReadBed.bb_interval infl f i c (Z.to_N fs) (Z.to_N fe) with
      | Ok got =>
          let fetched := map PyArraysFile.be_of got in
          match (match bins with
                 | Some b => to_entry_array_bins s e fetched st b missing (Z.to_nat nbins)
                 | None => to_entry_array s e fetched missing (Z.to_nat nbins)
                 end) with
          | Ok arr => oob_fill s e length nbins oob arr
          | Err x => Err x | Panic => Panic | Fuel => Fuel
          end
      | Err x => Err x | Panic => Panic | Fuel => Fuel
      end
  end).
End PinC20File.
