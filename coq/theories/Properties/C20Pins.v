(* Statement pins for C20: each property theorem is re-checked against the statement recorded here. *)
From BT Require Import Base.Util.
From BT Require Model.PyArrays Properties.C20.

Module PinC20.
Import Model.PyArrays Properties.C20.
Local Open Scope Z_scope.
Check (C20_bin_index_spec : forall pos span bins, 0 <= pos < span -> 0 < bins ->
  let k := bin_index pos span bins in
  0 <= k < bins /\ bin_edge k span bins <= pos < bin_edge (k + 1) span bins).
End PinC20.
