(* C07 — bigWig zoom levels are faithful reductions of the data.
   Statements only, each closed by [exact], with Print Assumptions beneath.

   The objects: [zoom_chrom fp ips size chrom vals zstate0] is the writer's zoom accumulator
   (process_val_zoom, Model/BigWigWrite.v) run over the accepted values [vals] of one chromosome at
   resolution [size] with items_per_slot [ips]; [concat (zs_out st)] is the list of records it hands
   to encode_zoom_section, section after section.  [wf_vals len vals] is exactly what the writer's
   input checks accept (C01_accept_iff): start <= end <= len, no value starts before its
   predecessor ends.  All theorems hold for every arithmetic mode [fp] (IEEE rounding as the Rust
   code computes, or exact dyadic arithmetic), every resolution >= 1, every items_per_slot and
   value lists of any length. *)
From BT Require Import Base.Util Base.Float Model.RTree Model.BBIFile Model.BigWigWrite Model.BBIRead
  Proofs.BigWigQuery Proofs.ZoomLoop Proofs.ZoomInv Proofs.ZoomThms.
Local Open Scope N_scope.

(* the tiling loop of process_val_zoom, run with the fuel the model gives it, always returns a
   state: never Fuel (= the Rust loop terminates), never Err or Panic.  Resolution 0 has no
   measure (the loop spins: D14, repaired by dropping zeros from the list). *)
Theorem C07_inner_loop_terminates : forall fp ips size chrom st cur has_next, 1 <= size ->
  exists st', zoom_step fp ips size chrom st cur has_next = Ok st'.
Proof. exact zoom_step_terminates. Qed.
Print Assumptions C07_inner_loop_terminates.

Theorem C07_chrom_terminates : forall fp ips size chrom, 1 <= size -> forall vals st,
  exists st', zoom_chrom fp ips size chrom vals st = Ok st'.
Proof. exact zoom_chrom_terminates. Qed.
Print Assumptions C07_chrom_terminates.

(* nothing is left pending after the last value; the records of a chromosome are in order, do not
   overlap, are non-empty, at most [size] wide, carry the chromosome's id and end inside it *)
Theorem C07_ordered_disjoint : forall fp ips size chrom len vals st, 1 <= size -> wf_vals len vals ->
  zoom_chrom fp ips size chrom vals zstate0 = Ok st ->
  zs_live st = None /\ zs_records st = [] /\
  let R := concat (zs_out st) in
  Forall (fun r => z_chrom r = chrom /\ z_start r < z_end r /\ z_end r - z_start r <= size /\ z_end r <= len) R /\
  (forall R1 r1 r2 R2, R = R1 ++ r1 :: r2 :: R2 -> z_end r1 <= z_start r2).
Proof. exact zoom_ordered_disjoint. Qed.
Print Assumptions C07_ordered_disjoint.

(* every base of every value lies in exactly one record; the covered counts add up to the number
   of bases with data; a record's covered count is the number of data bases inside its span
   (overlap_len = |value ∩ [start,end)|), so bases without data are never counted *)
Theorem C07_partition : forall fp ips size chrom len vals st, 1 <= size -> wf_vals len vals ->
  zoom_chrom fp ips size chrom vals zstate0 = Ok st ->
  let R := concat (zs_out st) in
  (forall v p, In v vals -> v_start v <= p < v_end v ->
     exists r, In r R /\ z_start r <= p < z_end r /\
               forall r', In r' R -> z_start r' <= p < z_end r' -> r' = r) /\
  sumN (map cov R) = sumN (map vlen vals) /\
  Forall (fun r => cov r = sumN (map (overlap_len (z_start r) (z_end r)) vals)) R.
Proof. exact zoom_partition. Qed.
Print Assumptions C07_partition.

(* per-record statistics.  [contribs s e vals] lists, in order, the non-empty overlaps
   (max v.start s, min v.end e, value) of the stored values with the span [s,e) (C07_contributions
   below); every record IS the fold of the writer's accumulation step over exactly these, started
   from the empty record at its start; hence item count, covered bases, min, max, sum and sum of
   squares are those of the stored values inside the record's span, in the arithmetic [fp] — in
   particular in exact arithmetic (fp = exact), and every record holds data. *)
Theorem C07_stats : forall fp ips size chrom len vals st, 1 <= size -> wf_vals len vals ->
  zoom_chrom fp ips size chrom vals zstate0 = Ok st ->
  Forall (fun r => let cs := contribs (z_start r) (z_end r) vals in
                   build fp chrom (z_start r) cs = Some r /\ stats_of fp r cs)
         (concat (zs_out st)).
Proof. exact zoom_stats. Qed.
Print Assumptions C07_stats.

Theorem C07_contributions : forall s e vals p, In p (contribs s e vals) <->
  exists v, In v vals /\ p = (N.max (v_start v) s, N.min (v_end v) e, v_val v) /\ N.max (v_start v) s < N.min (v_end v) e.
Proof. exact contribs_spec. Qed.
Print Assumptions C07_contributions.

(* Non-vacuity: three values with a gap longer than the resolution after the second, the second
   starting where the first ends and crossing a record boundary; resolution 10, items_per_slot 2. *)
Definition ex_vals : list value :=
  [ {| v_start := 2; v_end := 9; v_bits := 1065353216 |};      (* 1.0  *)
    {| v_start := 9; v_end := 14; v_bits := 1078984704 |};     (* 3.25 *)
    {| v_start := 30; v_end := 31; v_bits := 3212836864 |} ].  (* -1.0 *)
Example C07_example_hyps : 1 <= 10 /\ wf_vals 40 ex_vals /\
  exists st, zoom_chrom ieee 2 10 0 ex_vals zstate0 = Ok st /\
    map (fun r => (z_start r, z_end r, cov r)) (concat (zs_out st)) = [(2, 12, 10); (12, 14, 2); (30, 31, 1)] /\
    map (fun r => contribs (z_start r) (z_end r) ex_vals) (concat (zs_out st))
    = [ [(2, 9, f32_of_bits 1065353216); (9, 12, f32_of_bits 1078984704)];
        [(12, 14, f32_of_bits 1078984704)]; [(30, 31, f32_of_bits 3212836864)] ].
Proof.
  split; [lia|]. split.
  - repeat (constructor; cbn; try lia).
  - eexists. split; [vm_compute; reflexivity|]. split; vm_compute; reflexivity.
Qed.
