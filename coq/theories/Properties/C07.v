(* C07 — bigWig zoom levels are faithful reductions of the data.
   Statements only, each closed by [exact], with Print Assumptions beneath.

   The objects: [zoom_chrom fp ips size chrom vals zstate0] is the writer's zoom accumulator
   (process_val_zoom, Model/BigWigWrite.v) run over the accepted values [vals] of one chromosome at
   resolution [size] with items_per_slot [ips]; [concat (zs_out st)] is the list of records it hands
   to encode_zoom_section, section after section.  [wf_vals len vals] is exactly what the writer's
   input checks accept (C01_accept_iff): start <= end <= len, no value starts before its
   predecessor ends.  All theorems hold for every arithmetic mode [fp] (IEEE rounding as the Rust
   code computes, or exact dyadic arithmetic), every resolution >= 1, every items_per_slot and
   value lists of any length. *)
From BT Require Import Base.Util Base.LE Base.Float Generated.Consts Model.RTree Model.BBIFile Model.BigWigWrite Model.BBIRead
  Proofs.RTreeAbs Proofs.RTreeBuild Proofs.RTreeCodec Proofs.RTreeLayout
  Proofs.BigWigQuery Proofs.ZoomLoop Proofs.ZoomInv Proofs.ZoomThms Proofs.ZoomBwLevels Proofs.ZoomSections
  Proofs.ZoomQuery Proofs.ZoomOld Proofs.ZoomExact Proofs.ZoomSorted
  Proofs.BigWigFile Proofs.BigWigFileRoundTrip Proofs.BigWigFileThms Proofs.ZoomFile
  Proofs.FileRegions Proofs.ZoomReadCodec Proofs.ZoomReadRegions Proofs.ZoomReadFile.
From Coq Require Import Sorting.Sorted.
Local Open Scope N_scope.

(* the tiling loop of process_val_zoom, run with the fuel the model gives it, always returns a
   state: never Fuel (= the Rust loop terminates), never Err or Panic.  Resolution 0 has no
   measure (the loop spins: D14, repaired by dropping zeros from the list). *)
Theorem C07_inner_loop_terminates : forall fp ips size chrom st cur has_next, 1 <= size ->
  exists st', zoom_step fp ips size chrom st cur has_next = Ok st'.
Proof. exact zoom_step_terminates. Qed.
Print Assumptions C07_inner_loop_terminates.

Theorem C07_chrom_terminates : forall fp ips size chrom, 1 <= size -> forall vals st,
  exists st', zoom_chrom fp ips size chrom vals st = Ok st'.
Proof. exact zoom_chrom_terminates. Qed.
Print Assumptions C07_chrom_terminates.

(* nothing is left pending after the last value; the records of a chromosome are in order, do not
   overlap, are non-empty, at most [size] wide, carry the chromosome's id and end inside it *)
Theorem C07_ordered_disjoint : forall fp ips size chrom len vals st, 1 <= size -> wf_vals len vals ->
  zoom_chrom fp ips size chrom vals zstate0 = Ok st ->
  zs_live st = None /\ zs_records st = [] /\
  let R := concat (zs_out st) in
  Forall (fun r => z_chrom r = chrom /\ z_start r < z_end r /\ z_end r - z_start r <= size /\ z_end r <= len) R /\
  (forall R1 r1 r2 R2, R = R1 ++ r1 :: r2 :: R2 -> z_end r1 <= z_start r2).
Proof. exact zoom_ordered_disjoint. Qed.
Print Assumptions C07_ordered_disjoint.

(* every base of every value lies in exactly one record; the covered counts add up to the number
   of bases with data; a record's covered count is the number of data bases inside its span
   (overlap_len = |value ∩ [start,end)|), so bases without data are never counted *)
Theorem C07_partition : forall fp ips size chrom len vals st, 1 <= size -> wf_vals len vals ->
  zoom_chrom fp ips size chrom vals zstate0 = Ok st ->
  let R := concat (zs_out st) in
  (forall v p, In v vals -> v_start v <= p < v_end v ->
     exists r, In r R /\ z_start r <= p < z_end r /\
               forall r', In r' R -> z_start r' <= p < z_end r' -> r' = r) /\
  sumN (map cov R) = sumN (map vlen vals) /\
  Forall (fun r => cov r = sumN (map (overlap_len (z_start r) (z_end r)) vals)) R.
Proof. exact zoom_partition. Qed.
Print Assumptions C07_partition.

(* per-record statistics.  [contribs s e vals] lists, in order, the non-empty overlaps
   (max v.start s, min v.end e, value) of the stored values with the span [s,e) (C07_contributions
   below); every record IS the fold of the writer's accumulation step over exactly these, started
   from the empty record at its start; hence item count, covered bases, min, max, sum and sum of
   squares are those of the stored values inside the record's span, in the arithmetic [fp] — in
   particular in exact arithmetic (fp = exact), and every record holds data. *)
Theorem C07_stats : forall fp ips size chrom len vals st, 1 <= size -> wf_vals len vals ->
  zoom_chrom fp ips size chrom vals zstate0 = Ok st ->
  Forall (fun r => let cs := contribs (z_start r) (z_end r) vals in
                   build fp chrom (z_start r) cs = Some r /\ stats_of fp r cs)
         (concat (zs_out st)).
Proof. exact zoom_stats. Qed.
Print Assumptions C07_stats.

(* the same in exact arithmetic, read as rational numbers ([qval (FFin m e)] = m * 2^e, Proofs/ZoomExact.v):
   with finite stored values and the non-rounding mode [exact], a record's sum is the sum over the
   stored values meeting it of (overlap length x value), its sum of squares the sum of
   (overlap length x value x value), its min / max are values of contributing stored values that are
   <= / >= every contributing value.  ([exact_stats], [qsum], [qlen]: Proofs/ZoomExact.v.) *)
Theorem C07_stats_exact : forall ips size chrom len vals st, 1 <= size -> wf_vals len vals ->
  Forall (fun v => finite (v_val v)) vals ->
  zoom_chrom exact ips size chrom vals zstate0 = Ok st ->
  Forall (fun r => exact_stats r (contribs (z_start r) (z_end r) vals)) (concat (zs_out st)).
Proof. exact zoom_stats_exact. Qed.
Print Assumptions C07_stats_exact.

Theorem C07_contributions : forall s e vals p, In p (contribs s e vals) <->
  exists v, In v vals /\ p = (N.max (v_start v) s, N.min (v_end v) e, v_val v) /\ N.max (v_start v) s < N.min (v_end v) e.
Proof. exact contribs_spec. Qed.
Print Assumptions C07_contributions.

(* every section handed to encode_zoom_section holds between 1 and items_per_slot records (so its
   `items_in_section[0]` cannot panic), and the bytes of the chromosome's sections at this level
   are the records' encodings in order *)
Theorem C07_sections_encoded : forall fp ips size chrom vals, 1 <= size -> 1 <= ips ->
  exists st sds, zoom_chrom fp ips size chrom vals zstate0 = Ok st
    /\ zoom_sections fp ips size chrom vals = Ok sds
    /\ Forall (sec_wf ips) (zs_out st)
    /\ length sds = length (zs_out st)
    /\ data_bytes sds = flat_map (zrec_bytes fp) (concat (zs_out st)).
Proof. exact zoom_sections_encoded. Qed.
Print Assumptions C07_sections_encoded.

(* levels are listed with strictly increasing resolution, all >= 1 ([inc_from 0 l]: 0 < l1 < l2 < ...),
   and there are at most MAX_ZOOM_LEVELS of them (the directory has that many slots; /repo 3a3ac98).
   [build_levels] is the level list exactly as bw_write / bw_write_multipass build it
   (bw_write_uses_build_levels, by reflexivity).  Single pass: the directory is the sub-sequence of
   the normalised size list that write_zooms keeps. *)
Theorem C07_levels_increasing : forall fp o outs data_size pos zooms bytes hdrs,
  build_levels fp o outs (zoom_sizes_single o) = Ok zooms ->
  write_zooms_loop o data_size pos zooms None 0 = Ok (bytes, hdrs) ->
  inc_from 0 (map zh_res hdrs) /\ Nlen hdrs <= MAX_ZOOM_LEVELS.
Proof. exact levels_increasing_single. Qed.
Print Assumptions C07_levels_increasing.

(* two passes: the directory is the selected size list itself (manual: normalised; automatic: a
   contiguous piece of the ladder 10, 40, 160, ...), strictly increasing *)
Theorem C07_levels_increasing_two_pass : forall fp o outs sum data_size pos zooms bytes hdrs,
  build_levels fp o outs (zoom_sizes_two_pass o sum (total_zoom_counts outs) data_size) = Ok zooms ->
  write_zooms_two_pass o pos zooms = Ok (bytes, hdrs) ->
  map zh_res hdrs = zoom_sizes_two_pass o sum (total_zoom_counts outs) data_size
  /\ inc_from 0 (map zh_res hdrs) /\ Nlen hdrs <= MAX_ZOOM_LEVELS.
Proof. exact levels_increasing_two_pass. Qed.
Print Assumptions C07_levels_increasing_two_pass.

(* ... and in the WRITTEN FILE (with C01's description of the file regions): the zoom directory that
   read_info reads back from the bytes returned by bw_write / bw_write_multipass is strictly
   increasing, all >= 1, at most MAX_ZOOM_LEVELS long (single pass: and lists only sizes of the
   normalised size list).  opts_ok / input_ok are C01's hypotheses (2 <= block_size <= 65535,
   1 <= items_per_slot <= 65535, one run per chromosome, names without NUL, u32 lengths and patterns);
   the resolutions must fit the directory's u32 field. *)
Theorem C07_file_levels_increasing : forall fp o sizes inp bs,
  opts_ok o -> input_ok sizes inp -> Nlen bs < U64 ->
  Forall (fun z => z < U32) (zoom_sizes_single o) ->
  bw_write fp o sizes inp = Ok bs ->
  exists i, read_info bs = Ok i /\ inc_from 0 (map zh_res (i_zooms i)) /\ Nlen (i_zooms i) <= MAX_ZOOM_LEVELS
            /\ incl (map zh_res (i_zooms i)) (zoom_sizes_single o).
Proof. exact file_levels_single. Qed.
Print Assumptions C07_file_levels_increasing.

Theorem C07_file_levels_increasing_two_pass : forall fp o sizes inp bs,
  opts_ok o -> input_ok sizes inp -> Nlen bs < U64 -> manual_u32 o ->
  bw_write_multipass fp o sizes inp = Ok bs ->
  exists i, read_info bs = Ok i /\ inc_from 0 (map zh_res (i_zooms i)) /\ Nlen (i_zooms i) <= MAX_ZOOM_LEVELS.
Proof. exact file_levels_two_pass. Qed.
Print Assumptions C07_file_levels_increasing_two_pass.

(* zoom range query, list level: the sections of one chromosome are well-formed sections
   ([sec_ok]: one chromosome, first record starts first, last ends last), and over any list of such
   sections (all chromosomes of a level) reading only the sections that pass the index test
   ([zsec_hit] = `overlaps` on the span encode_zoom_section records) and filtering their records as
   get_zoom_block_values does ([zkeep]) is filtering all records of the level *)
Theorem C07_sections_ok : forall fp ips size chrom len vals st, 1 <= size -> wf_vals len vals ->
  zoom_chrom fp ips size chrom vals zstate0 = Ok st -> Forall sec_ok (zs_out st).
Proof. exact zoom_sections_ok. Qed.
Print Assumptions C07_sections_ok.

Theorem C07_zoom_query_sections : forall q s e (secs : list (list zrec)), Forall sec_ok secs ->
  flat_map (filter (zkeep q s e)) (filter (zsec_hit q s e) secs) = filter (zkeep q s e) (concat secs).
Proof. exact zoom_query_sections. Qed.
Print Assumptions C07_zoom_query_sections.

(* zoom range query down to the index bytes (with C05's search theorem): for the sections [rsecs]
   of a level, encoded and laid out from [dpos], with the index written at [ipos] (fan-out b),
   whatever surrounds the index in the file: the reader's search returns exactly the blocks of the
   sections passing the test, in file order; the records of those blocks that pass the reader's
   filter are all records of the level that pass it; and every record that intersects the
   range [s,e) on chromosome q lies in one of the returned blocks. *)
Theorem C07_zoom_query : forall fp (b ips dpos ipos : N) (rsecs : list (list zrec)) (sds : list sdata),
  Forall sec_ok rsecs -> mapM (encode_zoom_section fp) rsecs = Ok sds ->
  let secs := place dpos sds in
  2 <= b <= 65535 -> secs <> [] -> sorted_starts (map sect_span secs) -> Forall sect_ok secs ->
  exists bs levels, write_index b ips ipos secs = Ok (bs, levels)
    /\ (ipos + Nlen bs <= U64 ->
        forall pre post q s e fuel, Nlen pre = ipos -> (length bs <= fuel)%nat ->
          let hit := filter (fun p => zsec_hit q s e (fst p)) (combine rsecs secs) in
          search_bytes fuel false (pre ++ bs ++ post) (ipos + 48) q s e
            = Ok (map (fun p => (s_off (snd p), s_size (snd p))) hit)
          /\ flat_map (fun p => filter (zkeep q s e) (fst p)) hit = filter (zkeep q s e) (concat rsecs)
          /\ forall z, In z (concat rsecs) -> z_chrom z = q -> s < z_end z -> z_start z < e ->
               exists p, In p hit /\ In z (fst p)).
Proof. exact zoom_query_complete. Qed.
Print Assumptions C07_zoom_query.

(* the hypothesis `sorted_starts` of C07_zoom_query holds for what the writer lays out: the sections
   of one chromosome are sorted by start; a level made of the section lists of several chromosomes
   whose ids increase in file order, each with tiling-ordered records ([ordered], which
   C07_chrom_ordered gives for every chromosome), is sorted by (chromosome, start) *)
Theorem C07_sections_sorted : forall fp ips size chrom len vals sds pos, 1 <= size -> wf_vals len vals ->
  zoom_sections fp ips size chrom vals = Ok sds -> sorted_starts (map sect_span (place pos sds)).
Proof. exact zoom_sections_sorted. Qed.
Print Assumptions C07_sections_sorted.

Theorem C07_chrom_ordered : forall fp ips size chrom len vals st, 1 <= size -> wf_vals len vals ->
  zoom_chrom fp ips size chrom vals zstate0 = Ok st -> ordered size chrom 0 (concat (zs_out st)).
Proof. exact zoom_chrom_ordered. Qed.
Print Assumptions C07_chrom_ordered.

Theorem C07_level_sections_sorted : forall fp size (chs : list (N * list (list zrec))) sds pos,
  StronglySorted N.lt (map fst chs) ->
  Forall (fun c => ordered size (fst c) 0 (concat (snd c))) chs ->
  mapM (encode_zoom_section fp) (flat_map snd chs) = Ok sds ->
  sorted_starts (map sect_span (place pos sds)).
Proof. exact level_sections_sorted. Qed.
Print Assumptions C07_level_sections_sorted.

(* ---- reading the zoom records back from the bytes of the WHOLE written file ---- *)

(* the f32 bit pattern the encoder produces always fits the 4-byte field (every value, every
   arithmetic mode, also a rounding that carries into 2^24, overflow to infinity, NaN): nothing is
   truncated when a statistic is stored *)
Theorem C07_f32_pattern_fits : forall x, bits_of_f32 x < 4294967296.
Proof. exact bits_of_f32_lt. Qed.
Print Assumptions C07_f32_pattern_fits.

(* a value denoted by an f32 pattern (every stored value is one) survives the narrowing `as f32`
   (IEEE mode: representable, nothing is rounded; exact mode: no rounding at all) and being stored as
   a pattern and decoded again: f32_of_bits o bits_of_f32 is the identity on the image of f32_of_bits *)
Theorem C07_f32_store_load : forall b, b < 4294967296 ->
  f32_of_bits (bits_of_f32 (f32_of_bits b)) = f32_of_bits b
  /\ to_f32 ieee (f32_of_bits b) = f32_of_bits b /\ to_f32 exact (f32_of_bits b) = f32_of_bits b.
Proof. exact f32_store_load. Qed.
Print Assumptions C07_f32_store_load.

(* IEEE mode, any finite statistic x = M * 2^E (sum, sum of squares): what the reader returns for it,
   [stat_read ieee x] = f32_of_bits (bits_of_f32 (to_f32 ieee x)), denotes EXACTLY the binary32 rounding
   [to_f32 ieee x] of x (round to nearest, ties to even, gradual underflow: Base/Float.v round_dy 24 (-149) 128);
   an overflow is read back as that infinity.  Only the representation may change (the decoder returns
   the normalised significand): values are compared as integers after scaling by 2^149. *)
Theorem C07_stat_read_value_ieee : forall M E,
  match to_f32 ieee (FFin M E) with
  | FFin m e =>
      exists m' e', f32_of_bits (bits_of_f32 (to_f32 ieee (FFin M E))) = FFin m' e'
        /\ (m = 0 -> m' = 0)%Z
        /\ (m <> 0 -> -149 <= e /\ -149 <= e' /\ m' * 2 ^ (e' + 149) = m * 2 ^ (e + 149))%Z
  | FInf s => f32_of_bits (bits_of_f32 (to_f32 ieee (FFin M E))) = FInf s
  | FNaN => False
  end.
Proof. exact f32_read_value_ieee. Qed.
Print Assumptions C07_stat_read_value_ieee.

(* zoom record codec: parse_zrecs (get_zoom_block_values' decoding loop) on the bytes
   encode_zoom_section writes returns [zrec_read fp z] for each record z: chromosome, start, end and
   covered bases as written, item count 0 (not stored in the file), and every statistic x as
   [stat_read fp x = f32_of_bits (bits_of_f32 (to_f32 fp x))], the value of the f32 pattern of the
   narrowed statistic.  [zrec_u32]: the four integer fields fit u32 (proved for the writer's records
   in the file theorem below). *)
Theorem C07_zoom_record_codec : forall fp recs, Forall zrec_u32 recs ->
  parse_zrecs false (length recs) (flat_map (zrec_bytes fp) recs) = map (zrec_read fp) recs.
Proof. exact parse_zrecs_ok. Qed.
Print Assumptions C07_zoom_record_codec.

(* get_zoom_block_values on a block holding one uncompressed zoom section: the records passing the
   reader's filter ([zkeep]: same chromosome id, s <= end, start <= e), narrowed, in order *)
Theorem C07_zoom_block_read : forall infl i bs, h_big (i_hdr i) = false -> h_ubuf (i_hdr i) = 0 ->
  forall fp b recs q s e,
  slice bs (fst b) (N.to_nat (snd b)) = Some (flat_map (zrec_bytes fp) recs) -> Forall zrec_u32 recs ->
  zoom_block_values infl i bs b q s e = Ok (Some (map (zrec_read fp) (filter (zkeep q s e) recs))).
Proof. exact zoom_block_values_section. Qed.
Print Assumptions C07_zoom_block_read.

(* where a level lies: for every directory entry h written by write_zooms (single pass, with its
   level skipping) resp. write_zoom_vals (two passes) there is a level z of the list handed to it
   with h's resolution whose section bytes lie at zh_data h of the image, and whose index, written
   by write_index over the sections placed from zh_data h, lies at zh_index h = zh_data h + data size
   ([level_at], Proofs/ZoomReadRegions.v) *)
Theorem C07_level_regions : forall o ds img zs pos lc zc bytes hdrs,
  write_zooms_loop o ds pos zs lc zc = Ok (bytes, hdrs) -> has_at img pos bytes ->
  Forall (level_at o img zs) hdrs.
Proof. exact wzl_regions. Qed.
Print Assumptions C07_level_regions.

Theorem C07_level_regions_two_pass : forall o img zs pos bytes hdrs,
  write_zooms_two_pass o pos zs = Ok (bytes, hdrs) -> has_at img pos bytes ->
  Forall (level_at o img zs) hdrs.
Proof. exact w2p_regions. Qed.
Print Assumptions C07_level_regions_two_pass.

(* THE FILE THEOREM.  For the bytes bs that bw_write returns on accepted input (C01's opts_ok /
   input_ok, file < 2^64, resolutions < 2^32): read_info succeeds, and for EVERY resolution r of the
   directory it read back, every chromosome c with data (a run (c, vs) of the input) and EVERY range
   s e, get_zoom_interval (header -> directory lookup -> index header -> chromosome tree -> R-tree
   search on the level's index bytes -> block reads -> record decode -> filter) returns exactly
        map (zrec_read fp) (filter (ztouch s e) R),       R = concat (zs_out st)
   where st is the final state of the writer's zoom accumulator on vs at resolution r with the id
   the file gives c: R are the records characterised by C07_ordered_disjoint / C07_partition /
   C07_stats / C07_contributions (vs is accepted: wf_vals len vs, r >= 1, so those theorems apply);
   [ztouch s e z = (s <=? z_end z) && (z_start z <=? e)] is the reader's test — inclusive at both ends,
   so a record that merely touches the range is returned too — and the reader does NOT clip zoom
   records; statistics come back narrowed to f32 ([zrec_read], C07_zoom_record_codec), item count 0.
   Records of other chromosomes are never returned.  Also for levels without any record (input of
   zero-length values only: the empty index). *)
Theorem C07_file_zoom_query : forall fp o sizes inp bs,
  opts_ok o -> input_ok sizes inp -> Nlen bs < U64 ->
  Forall (fun z => z < U32) (zoom_sizes_single o) ->
  bw_write fp o sizes inp = Ok bs ->
  exists i, read_info bs = Ok i /\
    forall (infl : list N -> list N) r c vs s e, In r (map zh_res (i_zooms i)) -> In (c, vs) (runs inp) ->
      exists id len st, chrom_id i c = Ok id /\ 1 <= r
        /\ lookup c sizes = Some len /\ wf_vals len vs
        /\ zoom_chrom fp (o_ips o) r id vs zstate0 = Ok st
        /\ zoom_interval infl bs i c s e r
           = Ok (map (zrec_read fp) (filter (ztouch s e) (concat (zs_out st)))).
Proof. exact file_zoom_query_single. Qed.
Print Assumptions C07_file_zoom_query.

Theorem C07_file_zoom_query_two_pass : forall fp o sizes inp bs,
  opts_ok o -> input_ok sizes inp -> Nlen bs < U64 -> manual_u32 o ->
  bw_write_multipass fp o sizes inp = Ok bs ->
  exists i, read_info bs = Ok i /\
    forall (infl : list N -> list N) r c vs s e, In r (map zh_res (i_zooms i)) -> In (c, vs) (runs inp) ->
      exists id len st, chrom_id i c = Ok id /\ 1 <= r
        /\ lookup c sizes = Some len /\ wf_vals len vs
        /\ zoom_chrom fp (o_ips o) r id vs zstate0 = Ok st
        /\ zoom_interval infl bs i c s e r
           = Ok (map (zrec_read fp) (filter (ztouch s e) (concat (zs_out st)))).
Proof. exact file_zoom_query_two_pass. Qed.
Print Assumptions C07_file_zoom_query_two_pass.

(* minimum and maximum are read back EXACTLY: for IEEE and for exact arithmetic, with stored values
   that are f32 patterns (input_ok), the min / max of every record of a chromosome are the values of
   stored values of that chromosome (v, w), and [zrec_read] leaves them unchanged.  (Sum and sum of
   squares come back as [stat_read fp x]: in IEEE mode the f32 rounding of the f64 accumulator.) *)
Theorem C07_minmax_read_exact : forall fp ips size chrom len vals st, fp = ieee \/ fp = exact ->
  1 <= size -> wf_vals len vals -> Forall (fun v => v_bits v < U32) vals ->
  zoom_chrom fp ips size chrom vals zstate0 = Ok st ->
  Forall (fun r => su_min (z_sum (zrec_read fp r)) = su_min (z_sum r)
                   /\ su_max (z_sum (zrec_read fp r)) = su_max (z_sum r)
                   /\ exists v w, In v vals /\ In w vals /\ su_min (z_sum r) = v_val v /\ su_max (z_sum r) = v_val w)
         (concat (zs_out st)).
Proof. exact zoom_minmax_read. Qed.
Print Assumptions C07_minmax_read_exact.

(* what that answer contains: every record of the chromosome that intersects [s, e) is returned;
   every returned record is the narrowing of a record of that chromosome touching the range; order,
   spans and covered counts are those of the writer's list *)
Theorem C07_file_zoom_query_complete : forall fp s e (R : list zrec),
  let ans := map (zrec_read fp) (filter (ztouch s e) R) in
  (forall z, In z R -> s < z_end z -> z_start z < e -> In (zrec_read fp z) ans)
  /\ (forall z', In z' ans -> exists z, In z R /\ z' = zrec_read fp z /\ s <= z_end z /\ z_start z <= e)
  /\ map (fun z => (z_chrom z, z_start z, z_end z, cov z)) ans
     = map (fun z => (z_chrom z, z_start z, z_end z, cov z)) (filter (ztouch s e) R).
Proof. exact zoom_answer_complete. Qed.
Print Assumptions C07_file_zoom_query_complete.

(* the loop as it was before the repair 9296bc5 violates the property on the design's witnesses *)
Theorem C07_gap_refuted_before_fix :
  exists R, achrom_old false true ieee 10 0
              [{| v_start := 0; v_end := 5; v_bits := one |}; {| v_start := 20; v_end := 25; v_bits := one |}] [] None
            = Ok (R, None)
    /\ map (fun r => (z_start r, z_end r, cov r)) R = [(0, 5, 5); (10, 20, 10); (20, 25, 5)].
Proof. exact D1a_old_loop_refuted. Qed.
Print Assumptions C07_gap_refuted_before_fix.

Theorem C07_minmax_refuted_before_fix :
  exists R, achrom_old true false ieee 10 0
              [{| v_start := 0; v_end := 5; v_bits := one |}; {| v_start := 10; v_end := 15; v_bits := hundred |}] [] None
            = Ok (R, None)
    /\ map (fun r => (z_start r, z_end r, cov r, su_items (z_sum r), bits_of_f64 (su_max (z_sum r)))) R
       = [(0, 10, 5, 2, bits_of_f64 (f32_of_bits hundred)); (10, 15, 5, 1, bits_of_f64 (f32_of_bits hundred))].
Proof. exact D1b_old_loop_refuted. Qed.
Print Assumptions C07_minmax_refuted_before_fix.

(* Non-vacuity: three values with a gap longer than the resolution after the second, the second
   starting where the first ends and crossing a record boundary; resolution 10, items_per_slot 2. *)
Definition ex_vals : list value :=
  [ {| v_start := 2; v_end := 9; v_bits := 1065353216 |};      (* 1.0  *)
    {| v_start := 9; v_end := 14; v_bits := 1078984704 |};     (* 3.25 *)
    {| v_start := 30; v_end := 31; v_bits := 3212836864 |} ].  (* -1.0 *)
Example C07_example_hyps : 1 <= 10 /\ wf_vals 40 ex_vals /\
  exists st, zoom_chrom ieee 2 10 0 ex_vals zstate0 = Ok st /\
    map (fun r => (z_start r, z_end r, cov r)) (concat (zs_out st)) = [(2, 12, 10); (12, 14, 2); (30, 31, 1)] /\
    map (fun r => contribs (z_start r) (z_end r) ex_vals) (concat (zs_out st))
    = [ [(2, 9, f32_of_bits 1065353216); (9, 12, f32_of_bits 1078984704)];
        [(12, 14, f32_of_bits 1078984704)]; [(30, 31, f32_of_bits 3212836864)] ].
Proof.
  split; [lia|]. split.
  - repeat (constructor; cbn; try lia).
  - eexists. split; [vm_compute; reflexivity|]. split; vm_compute; reflexivity.
Qed.
Example C07_example_finite : Forall (fun v => finite (v_val v)) ex_vals.
Proof. repeat constructor; eexists; eexists; vm_compute; reflexivity. Qed.

(* ... and the sections of that instance meet the hypotheses of C07_zoom_query (fan-out 2, data at
   1000, index at 2000); the reader run on the index bytes returns the one block holding the
   records that meet [11,13) *)
Example C07_query_example_hyps :
  exists st sds, zoom_chrom ieee 2 10 0 ex_vals zstate0 = Ok st /\ mapM (encode_zoom_section ieee) (zs_out st) = Ok sds /\
    let secs := place 1000 sds in
    length secs = 2%nat /\ sorted_starts (map sect_span secs) /\ Forall sect_ok secs /\
    match write_index 2 2 2000 secs with
    | Ok (bs, _) => search_bytes (length bs) false (repeatN 7 2000 ++ bs ++ [9]) 2048 0 11 13 = Ok [(1000, 64)]
    | _ => False
    end.
Proof.
  eexists. eexists. split; [vm_compute; reflexivity|]. split; [vm_compute; reflexivity|]. cbv zeta.
  split; [vm_compute; reflexivity|]. split; [|split].
  - match goal with |- sorted_starts ?l => let l' := eval vm_compute in l in change (sorted_starts l') end.
    repeat (constructor; [|repeat constructor; unfold start_le, ple; cbn; lia]). constructor.
  - apply Forall_forall. intros s Hs. vm_compute in Hs.
    repeat (destruct Hs as [<-|Hs]; [vm_compute; repeat split; reflexivity|]). destruct Hs.
  - vm_compute. reflexivity.
Qed.

(* the file-level hypotheses are met by a concrete two-level file of that instance (both writers) *)
Definition ex_file_opts : opts :=
  {| o_compress := false; o_ips := 2; o_bs := 2; o_izoom := 160; o_maxzooms := 10; o_manual := Some [10; 0; 3; 10];
     o_sort_all := true |}.
Definition ex_file_inp : list item := map (pair [97]) ex_vals.
Example C07_file_example_hyps :
  opts_ok ex_file_opts /\ input_ok [([97], 40)] ex_file_inp
  /\ Forall (fun z => z < U32) (zoom_sizes_single ex_file_opts) /\ manual_u32 ex_file_opts
  /\ (exists bs, bw_write ieee ex_file_opts [([97], 40)] ex_file_inp = Ok bs /\ Nlen bs < U64
                 /\ match read_info bs with Ok i => map zh_res (i_zooms i) = [3; 10] | _ => False end)
  /\ (exists bs, bw_write_multipass ieee ex_file_opts [([97], 40)] ex_file_inp = Ok bs /\ Nlen bs < U64
                 /\ match read_info bs with Ok i => map zh_res (i_zooms i) = [3; 10] | _ => False end).
Proof.
  split; [unfold opts_ok; cbn; lia|]. split.
  - (* written so that it survives changes in the number / order of input_ok's conjuncts *)
    unfold input_ok. assert (Hr : runs ex_file_inp = [([97], ex_vals)]) by reflexivity. rewrite Hr.
    cbv [ex_file_inp ex_vals map fst].
    repeat match goal with |- _ /\ _ => split end;
      first [ reflexivity
            | repeat constructor; try discriminate; try reflexivity;
              try (intros H; repeat (destruct H as [H|H]; try discriminate); try assumption; try contradiction) ].
  - assert (E : zoom_sizes_single ex_file_opts = [3; 10]) by (vm_compute; reflexivity).
    split; [rewrite E; repeat constructor; unfold U32; lia|].
    split; [unfold manual_u32, ex_file_opts; cbn [o_manual]; repeat constructor; unfold U32; lia|].
    split; eexists; (split; [vm_compute; reflexivity|split; [reflexivity|vm_compute; reflexivity]]).
Qed.

(* ... and on that file (which meets every hypothesis of C07_file_zoom_query(_two_pass), see
   C07_file_example_hyps) the reader model run on the bytes returns what the theorem says; the range
   [14,30] touches record [12,14) at its end and record [30,31) at its start: both are returned
   (the reader's test is inclusive), [15,29] returns nothing; sum 2*3.25 = 6.5, sumsq 21.125 as f32 patterns *)
Example C07_file_zoom_example :
  exists st, zoom_chrom ieee 2 10 0 ex_vals zstate0 = Ok st /\
  forall w : bool,
  match (if w then bw_write ieee ex_file_opts [([97], 40)] ex_file_inp
         else bw_write_multipass ieee ex_file_opts [([97], 40)] ex_file_inp) with
  | Ok bs =>
      match read_info bs with
      | Ok i =>
          zoom_interval (fun x => x) bs i [97] 14 30 10
            = Ok (map (zrec_read ieee) (filter (ztouch 14 30) (concat (zs_out st))))
          /\ zoom_interval (fun x => x) bs i [97] 15 29 10 = Ok []
          /\ match zoom_interval (fun x => x) bs i [97] 14 30 10 with
             | Ok l => map (fun z => (z_chrom z, z_start z, z_end z, cov z, su_items (z_sum z),
                                      bits_of_f32 (su_sum (z_sum z)), bits_of_f32 (su_sumsq (z_sum z)))) l
                       = [(0, 12, 14, 2, 0, 1087373312, 1101594624); (0, 30, 31, 1, 0, 3212836864, 1065353216)]
             | _ => False
             end
      | _ => False
      end
  | _ => False
  end.
Proof.
  eexists. split; [vm_compute; reflexivity|]. intros [|]; vm_compute; repeat split; reflexivity.
Qed.

(* ================= the IEEE run has the exact statistics on a checkable domain =================
   (Proofs/FloatExact.v, Proofs/FloatExactZoom.v.)  C07_stats holds for every mode but leaves sum / sum of
   squares as folds in that mode; C07_stats_exact reads them as rational sums for the non-rounding mode.
   Here the same is proved for the IEEE mode -- the one the implementation is compared with bit for bit --
   when the stored values are integer multiples of 2^G ([vgrid E G]; E is a unit below every exponent) and
   the chromosome's  sum len*|val|  and  sum len*val^2  stay below 2^53 in units 2^G resp. 2^(2G). *)
From BT Require Proofs.FloatExact Proofs.FloatExactZoom Proofs.C06FileFloat.

Theorem C07_stats_ieee_on_grid : forall E G ips size chrom len vals st, 1 <= size -> wf_vals len vals ->
  FloatExact.grid_ok E G -> Forall (FloatExact.vgrid E G) vals ->
  (FloatExact.gabs E G vals < FloatExact.P53)%Z -> (FloatExact.gsq E G vals < FloatExact.P53)%Z ->
  zoom_chrom ieee ips size chrom vals zstate0 = Ok st ->
  Forall (fun r => let cs := contribs (z_start r) (z_end r) vals in
            exact_stats r cs /\
            FloatExact.gval E G (su_sum (z_sum r)) (FloatExact.ksum plen (fun p => FloatExact.gk E G (p_val p)) cs) /\
            FloatExact.gval (E + E) (G + G) (su_sumsq (z_sum r)) (FloatExact.ksq plen (fun p => FloatExact.gk E G (p_val p)) cs))
         (concat (zs_out st)).
Proof. exact FloatExactZoom.zoom_stats_ieee_on_grid. Qed.
Print Assumptions C07_stats_ieee_on_grid.

(* record by record against the exact run: same counts and extremes, sums denote the same numbers *)
Theorem C07_ieee_exact_records : forall E G ips size chrom len vals st st', 1 <= size -> wf_vals len vals ->
  FloatExact.grid_ok E G -> Forall (FloatExact.vgrid E G) vals ->
  (FloatExact.gabs E G vals < FloatExact.P53)%Z -> (FloatExact.gsq E G vals < FloatExact.P53)%Z ->
  zoom_chrom ieee ips size chrom vals zstate0 = Ok st -> zoom_chrom exact ips size chrom vals zstate0 = Ok st' ->
  Forall (fun r => forall r', In r' (concat (zs_out st')) -> z_start r' = z_start r -> z_end r' = z_end r ->
            su_items (z_sum r) = su_items (z_sum r') /\ su_bases (z_sum r) = su_bases (z_sum r') /\
            su_min (z_sum r) = su_min (z_sum r') /\ su_max (z_sum r) = su_max (z_sum r') /\
            C06FileFloat.same_num (su_sum (z_sum r)) (su_sum (z_sum r')) /\
            C06FileFloat.same_num (su_sumsq (z_sum r)) (su_sumsq (z_sum r')))
         (concat (zs_out st)).
Proof. exact FloatExactZoom.zoom_ieee_exact_records. Qed.
Print Assumptions C07_ieee_exact_records.

(* the generator domain (multiples of 1/8, |v| <= 1024, fewer than 2^24 bases): decidable *)
Theorem C07_stats_ieee_in_domain : forall ips size chrom len vals st, 1 <= size -> wf_vals len vals ->
  FloatExact.in_exact_domain vals = true ->
  zoom_chrom ieee ips size chrom vals zstate0 = Ok st ->
  Forall (fun r => exact_stats r (contribs (z_start r) (z_end r) vals)) (concat (zs_out st)).
Proof. exact FloatExactZoom.zoom_stats_ieee_in_domain. Qed.
Print Assumptions C07_stats_ieee_in_domain.

(* what the reader returns for such a statistic: a grid number below 2^24 grid units survives the narrowing
   to f32, the pattern and its decoding ([stat_read ieee x], C07_zoom_record_codec): the exact sum comes back *)
Theorem C07_stat_read_on_grid : forall E G x k, (E <= 0 -> E <= G -> -149 <= G <= 104 -> Z.abs k < 2 ^ 24 ->
  FloatExact.gval E G x k -> C06FileFloat.same_num (stat_read ieee x) x)%Z.
Proof. exact FloatExactZoom.stat_read_on_grid. Qed.
Print Assumptions C07_stat_read_on_grid.

Example C07_example_in_domain : FloatExact.in_exact_domain ex_vals = true /\
  exists st, zoom_chrom ieee 2 10 0 ex_vals zstate0 = Ok st /\
    map (fun r => (FloatExact.gk FloatExact.dom_E FloatExact.dom_G (su_sum (z_sum r)),
                   FloatExact.gk (FloatExact.dom_E + FloatExact.dom_E) (FloatExact.dom_G + FloatExact.dom_G) (su_sumsq (z_sum r))))
        (concat (zs_out st)) = [(134, 2476); (52, 1352); (-8, 64)]%Z.
Proof. split; [vm_compute; reflexivity|]. eexists. split; [vm_compute; reflexivity|]. vm_compute. reflexivity. Qed.
