(* Statement pins for C16: a theorem cannot be weakened in Properties/C16.v without this file failing to compile. *)
From BT Require Import Base.Util Generated.Consts Model.BBIFile Model.BigWigWrite Model.BBIRead Model.CliText
  Proofs.CliTextRoundtrip Proofs.CliCompat Proofs.CliQuery Proofs.CliPipeline Properties.C16.
Local Open Scope N_scope.

Check (C16_dec_roundtrip : forall n, n < 4294967296 -> parse_u32 (print_dec n) = Some n).
Check (C16_bed_line_roundtrip : forall c e, ~ In TAB c -> be_start e < 4294967296 -> be_end e < 4294967296 -> trim_end (be_rest e) = be_rest e ->
  parse_bed (format_bed_line c e) = Ok (c, e) /\ parse_bed (format_bed c e) = Ok (c, e)).
Check (C16_bedgraph_line_roundtrip : forall fparse c s e vtext bits, ~ In TAB c -> s < 4294967296 -> e < 4294967296 -> vtext <> [] -> ~ In TAB vtext ->
  trim_end vtext = vtext -> fparse vtext = Some bits ->
  parse_bedgraph fparse (format_bedgraph_line c s e vtext) = Ok (c, {| v_start := s; v_end := e; v_bits := bits |})).
Check (C16_bed_text_roundtrip : forall l, Forall canonical_bed l -> mapM parse_bed (lines (format_bed_text l)) = Ok l).
Check (C16_chrom_sizes_parse : forall l, Forall canonical_size l -> parse_chrom_sizes (format_sizes l) = Ok (rev l)).
Check (C16_compat_ucsc : forall u n, In (u, n) ucsc_named -> forall v, compat_arg (u ++ v) = Ok (n ++ v)).
Check (C16_compat_native_fixed : (forall t, compat_arg (45 :: 45 :: t) = Ok (45 :: 45 :: t)) /\
  (forall c t, c <> 45 -> compat_arg (c :: t) = Ok (c :: t)) /\
  compat_arg [] = Ok [] /\ compat_arg [45] = Ok [45] /\
  (forall x d t, is_digit d = true -> compat_arg (45 :: x :: d :: t) = Ok (45 :: x :: d :: t)) /\
  (forall f, In f (NATIVE_LONG_FLAGS ++ NATIVE_SHORT_FLAGS) -> compat_arg f = Ok f)).
Check (C16_compat_ignored_dropped : forall pre post, Forall fixed_arg pre -> Forall fixed_arg post ->
  compat_args_vec (pre ++ [[45;116;97;98]] ++ post) = Ok (pre ++ post)).
Check (C16_bw_query_is_clip_filter : forall ips len vals s e, (0 < ips)%nat -> check_chrom len vals = Ok tt -> bw_query ips vals s e = clip_filter s e vals).
Check (C16_bb_query_is_overlap_filter : forall ips len l s e, (0 < ips)%nat -> bb_check_chrom len l = Ok tt -> bb_query ips l s e = filter (bb_keep s e) l).
Check (C16_restrict_is_query_bigwig : forall fparse cs txt file ips c st en w, (0 < ips)%nat -> bedgraph_to_bigwig fparse cs txt = Ok file ->
  find (fun w => name_eqb (wc_name w) c) (sort_by_name file) = Some w ->
  bigwig_to_bedgraph ips file (Some c) st en =
  map (fun v => (wc_name w, v))
      (clip_filter (match st with Some s => s | None => 0 end) (match en with Some e => e | None => wc_len w end) (wc_items w))).
Check (C16_restrict_is_query_bigbed : forall asql cs txt file ips c st en w, (0 < ips)%nat -> bed_to_bigbed asql cs txt = Ok file ->
  find (fun w => name_eqb (wc_name w) c) (sort_by_name file) = Some w ->
  bigbed_to_bed ips file (Some c) st en =
  map (fun v => (wc_name w, v))
      (filter (bb_keep (match st with Some s => s | None => 0 end) (match en with Some e => e | None => wc_len w end)) (wc_items w))).
Check (C16_bedgraph_roundtrip_records : forall fparse cs txt file ips items sizes, (0 < ips)%nat ->
  parse_chrom_sizes cs = Ok sizes -> mapM (parse_bedgraph fparse) (lines txt) = Ok items ->
  bedgraph_to_bigwig fparse cs txt = Ok file ->
  Forall (fun it => v_start (snd it) < v_end (snd it)) items ->
  bigwig_to_bedgraph ips file None None None = items).
Check (C16_bed_roundtrip_records : forall asql cs txt file ips items sizes, (0 < ips)%nat ->
  parse_chrom_sizes cs = Ok sizes -> mapM parse_bed (lines txt) = Ok items ->
  bed_to_bigbed asql cs txt = Ok file ->
  bigbed_to_bed ips file None None None = items).
Check (C16_bed_pipeline_text : forall szs items file ips asql, (0 < ips)%nat -> Forall canonical_size szs -> Forall canonical_bed items ->
  bed_to_bigbed asql (format_sizes szs) (format_bed_text items) = Ok file ->
  format_bed_text (bigbed_to_bed ips file None None None) = format_bed_text items).
Check (C16_bedgraph_pipeline_records : forall fparse szs recs file ips, (0 < ips)%nat -> Forall canonical_size szs -> Forall (canonical_bg fparse) recs ->
  Forall (fun r => bg_start r < bg_end r) recs ->
  bedgraph_to_bigwig fparse (format_sizes szs) (format_bedgraph_text recs) = Ok file ->
  bigwig_to_bedgraph ips file None None None = map (bg_value fparse) recs).
Check (C16_compat_args_tools : forall tool args, In tool COMPAT_COMMANDS ->
  compat_args (tool :: args) = compat_args_vec (tool :: args) /\
  compat_args (COMPAT_MULTICALL :: tool :: args) = compat_args_vec (COMPAT_MULTICALL :: tool :: args)).
