(* Statement pins for C16: a theorem cannot be weakened in Properties/C16.v without this file failing to compile. *)
From BT Require Import Base.Util Generated.Consts Model.BBIFile Model.BigWigWrite Model.BBIRead Model.CliText
  Proofs.CliTextRoundtrip Proofs.CliCompat Proofs.CliQuery Proofs.CliPipeline Properties.C16.
Local Open Scope N_scope.

Check (C16_dec_roundtrip : forall n, n < 4294967296 -> parse_u32 (print_dec n) = Some n).
Check (C16_bed_line_roundtrip : forall c e, ~ In TAB c -> be_start e < 4294967296 -> be_end e < 4294967296 -> trim_end (be_rest e) = be_rest e ->
  parse_bed (format_bed_line c e) = Ok (c, e) /\ parse_bed (format_bed c e) = Ok (c, e)).
Check (C16_bedgraph_line_roundtrip : forall fparse c s e vtext bits, ~ In TAB c -> s < 4294967296 -> e < 4294967296 -> vtext <> [] -> ~ In TAB vtext ->
  trim_end vtext = vtext -> fparse vtext = Some bits ->
  parse_bedgraph fparse (format_bedgraph_line c s e vtext) = Ok (c, {| v_start := s; v_end := e; v_bits := bits |})).
Check (C16_bed_text_roundtrip : forall l, Forall canonical_bed l -> mapM parse_bed (lines (format_bed_text l)) = Ok l).
Check (C16_chrom_sizes_parse : forall l, Forall canonical_size l -> parse_chrom_sizes (format_sizes l) = Ok (rev l)).
Check (C16_compat_ucsc : forall u n, In (u, n) ucsc_named -> forall v, compat_arg (u ++ v) = Ok (n ++ v)).
Check (C16_compat_native_fixed : (forall t, compat_arg (45 :: 45 :: t) = Ok (45 :: 45 :: t)) /\
  (forall c t, c <> 45 -> compat_arg (c :: t) = Ok (c :: t)) /\
  compat_arg [] = Ok [] /\ compat_arg [45] = Ok [45] /\
  (forall x d t, is_digit d = true -> compat_arg (45 :: x :: d :: t) = Ok (45 :: x :: d :: t)) /\
  (forall f, In f (NATIVE_LONG_FLAGS ++ NATIVE_SHORT_FLAGS) -> compat_arg f = Ok f)).
Check (C16_compat_ignored_dropped : forall pre post, Forall fixed_arg pre -> Forall fixed_arg post ->
  compat_args_vec (pre ++ [[45;116;97;98]] ++ post) = Ok (pre ++ post)).
Check (C16_bw_query_is_clip_filter : forall ips len vals s e, (0 < ips)%nat -> check_chrom len vals = Ok tt -> bw_query ips vals s e = clip_filter s e vals).
Check (C16_bb_query_is_overlap_filter : forall ips len l s e, (0 < ips)%nat -> bb_check_chrom len l = Ok tt -> bb_query ips l s e = filter (bb_keep s e) l).
Check (C16_restrict_is_query_bigwig : forall fparse cs txt file ips c st en w, (0 < ips)%nat -> bedgraph_to_bigwig fparse cs txt = Ok file ->
  find (fun w => name_eqb (wc_name w) c) (sort_by_name file) = Some w ->
  bigwig_to_bedgraph ips file (Some c) st en =
  map (fun v => (wc_name w, v))
      (clip_filter (match st with Some s => s | None => 0 end) (match en with Some e => e | None => wc_len w end) (wc_items w))).
Check (C16_restrict_is_query_bigbed : forall asql cs txt file ips c st en w, (0 < ips)%nat -> bed_to_bigbed asql cs txt = Ok file ->
  find (fun w => name_eqb (wc_name w) c) (sort_by_name file) = Some w ->
  bigbed_to_bed ips file (Some c) st en =
  map (fun v => (wc_name w, v))
      (filter (bb_keep (match st with Some s => s | None => 0 end) (match en with Some e => e | None => wc_len w end)) (wc_items w))).
Check (C16_bedgraph_roundtrip_records : forall fparse cs txt file ips items sizes, (0 < ips)%nat ->
  parse_chrom_sizes cs = Ok sizes -> mapM (parse_bedgraph fparse) (lines txt) = Ok items ->
  bedgraph_to_bigwig fparse cs txt = Ok file ->
  Forall (fun it => v_start (snd it) < v_end (snd it)) items ->
  bigwig_to_bedgraph ips file None None None = items).
Check (C16_bed_roundtrip_records : forall asql cs txt file ips items sizes, (0 < ips)%nat ->
  parse_chrom_sizes cs = Ok sizes -> mapM parse_bed (lines txt) = Ok items ->
  bed_to_bigbed asql cs txt = Ok file ->
  bigbed_to_bed ips file None None None = items).
Check (C16_bed_pipeline_text : forall szs items file ips asql, (0 < ips)%nat -> Forall canonical_size szs -> Forall canonical_bed items ->
  bed_to_bigbed asql (format_sizes szs) (format_bed_text items) = Ok file ->
  format_bed_text (bigbed_to_bed ips file None None None) = format_bed_text items).
Check (C16_bedgraph_pipeline_records : forall fparse szs recs file ips, (0 < ips)%nat -> Forall canonical_size szs -> Forall (canonical_bg fparse) recs ->
  Forall (fun r => bg_start r < bg_end r) recs ->
  bedgraph_to_bigwig fparse (format_sizes szs) (format_bedgraph_text recs) = Ok file ->
  bigwig_to_bedgraph ips file None None None = map (bg_value fparse) recs).
Check (C16_compat_args_tools : forall tool args, In tool COMPAT_COMMANDS ->
  compat_args (tool :: args) = compat_args_vec (tool :: args) /\
  compat_args (COMPAT_MULTICALL :: tool :: args) = compat_args_vec (COMPAT_MULTICALL :: tool :: args)).

(* ---- through the file bytes (Model/CliFile.v, Proofs/CliEndToEnd.v) ---- *)
From BT Require Import Base.LE Base.Float Model.RTree Model.AutoSql Model.BigBedWrite Model.BBIReadBed Model.CliFile.
From BT Require Import Proofs.RTreeCodec Proofs.BigWigFileChroms Proofs.BigWigFileInput Proofs.AcceptRules Proofs.CliEndToEnd Proofs.CliEndToEndBridge.
From BT Require Model.Accept Model.AcceptBed Proofs.BigWigFileRoundTrip Proofs.BedCodec Proofs.BedReadInfo Proofs.BedEndToEnd.
Check (C16_bedgraph_file_roundtrip : forall pf fp o two_pass cs_text in_text sizes items,
  parse_chrom_sizes cs_text = Ok sizes -> mapM (parse_bedgraph pf) (lines in_text) = Ok items ->
  BigWigFileRoundTrip.opts_ok o -> BigWigFileRoundTrip.input_ok sizes items ->
  items <> [] -> stream_ok bw_good_val bw_good_pair (o_sort_all o) sizes [] None items ->
  exists bs, bedgraphtobigwig_file pf fp o two_pass cs_text in_text = Ok bs /\
    (Nlen bs < U64 -> forall infl,
       bigwigtobedgraph_records infl bs None None None = Ok (filter (fun it => negb (bzero sizes it)) items)
       /\ (Forall (fun it : item => v_start (snd it) < v_end (snd it)) items ->
           bigwigtobedgraph_records infl bs None None None = Ok items))).
Check (C16_bedgraph_file_text : forall pf pr fp o two_pass cs_text in_text sizes items,
  parse_chrom_sizes cs_text = Ok sizes -> mapM (parse_bedgraph pf) (lines in_text) = Ok items ->
  BigWigFileRoundTrip.opts_ok o -> BigWigFileRoundTrip.input_ok sizes items ->
  items <> [] -> stream_ok bw_good_val bw_good_pair (o_sort_all o) sizes [] None items ->
  Forall (fun it : item => v_start (snd it) < v_end (snd it)) items ->
  exists bs, bedgraphtobigwig_file pf fp o two_pass cs_text in_text = Ok bs /\
    (Nlen bs < U64 -> forall infl,
       bigwigtobedgraph_file infl pr bs None None None = Ok (format_bedgraph_records pr items)
       /\ (Forall (fun it : item => printer_ok pf pr (v_bits (snd it))) items ->
           mapM (parse_bedgraph pf) (lines (format_bedgraph_records pr items)) = Ok items))).
Check (C16_bed_file_roundtrip : forall fp o two_pass user_autosql cs_text in_text sizes items,
  parse_chrom_sizes cs_text = Ok sizes -> mapM parse_bed (lines in_text) = Ok items ->
  (forall s, user_autosql = Some s -> AcceptBed.has_nul s = false) ->
  Accept.opts_ok o = true -> items <> [] ->
  stream_ok bb_good_val bb_good_pair (o_sort_all o) sizes [] None (AcceptBed.bb_items (to_bitems items)) ->
  exists f, bedtobigbed_file fp o two_pass user_autosql cs_text in_text = Ok f /\
    (BedEndToEnd.file_hyps o sizes (to_bitems items) f -> forall infl,
       bigbedtobed_records infl f None None None = Ok items
       /\ bigbedtobed_file infl f None None None = Ok (format_bed_text items)
       /\ mapM parse_bed (lines (format_bed_text items)) = Ok items
       /\ (forall items0, Forall canonical_bed items0 -> in_text = format_bed_text items0 ->
             bigbedtobed_file infl f None None None = Ok in_text))).
Check (C16_restrict_file_bigwig : forall pf fp o two_pass cs_text in_text sizes items bs,
  parse_chrom_sizes cs_text = Ok sizes -> mapM (parse_bedgraph pf) (lines in_text) = Ok items ->
  BigWigFileRoundTrip.opts_ok o -> BigWigFileRoundTrip.input_ok sizes items ->
  bedgraphtobigwig_file pf fp o two_pass cs_text in_text = Ok bs -> Nlen bs < U64 ->
  forall infl st en,
    (forall c, In c (map fst items) ->
       exists len i, lookup c sizes = Some len /\ read_info bs = Ok i /\
         let s := match st with Some s => s | None => 0 end in
         let e := match en with Some e => e | None => len end in
         bw_interval infl bs i c s e = Ok (clip_filter s e (vals_of items c)) /\
         bigwigtobedgraph_records infl bs (Some c) st en = Ok (map (fun v => (c, v)) (clip_filter s e (vals_of items c))))
    /\ (forall c, ~ In c (map fst items) -> bigwigtobedgraph_records infl bs (Some c) st en = Ok [])
    /\ ((st <> None \/ en <> None) -> bigwigtobedgraph_records infl bs None st en = Ok [])).
Check (C16_restrict_file_bigbed : forall fp o two_pass user_autosql cs_text in_text sizes items f,
  parse_chrom_sizes cs_text = Ok sizes -> mapM parse_bed (lines in_text) = Ok items ->
  bedtobigbed_file fp o two_pass user_autosql cs_text in_text = Ok f -> BedEndToEnd.file_hyps o sizes (to_bitems items) f ->
  forall infl st en,
    (forall c es, In (c, es) (bruns (to_bitems items)) ->
       exists len i, lookup c sizes = Some len /\ read_info f = Ok i /\
         let s := match st with Some s => s | None => 0 end in
         let e := match en with Some e => e | None => len end in
         bb_interval infl f i c s e = Ok (filter (bkeep s e) es) /\
         bigbedtobed_records infl f (Some c) st en = Ok (map (fun x => (c, of_entry x)) (filter (bkeep s e) es)))
    /\ (forall c, ~ In c (map fst items) -> bigbedtobed_records infl f (Some c) st en = Ok [])
    /\ ((st <> None \/ en <> None) -> bigbedtobed_records infl f None st en = Ok [])).
Check (C16_bedgraph_input_ok : forall pf cs_text in_text sizes items,
  parse_chrom_sizes cs_text = Ok sizes -> mapM (parse_bedgraph pf) (lines in_text) = Ok items ->
  (forall t b, pf t = Some b -> b < U32) ->
  Forall (fun it : item => no_zero (fst it) /\ Nlen (fst it) < U32) items -> Nlen (runs items) < U16 ->
  BigWigFileRoundTrip.input_ok sizes items).
Check (C16_bed_file_hyps : forall o cs_text in_text sizes items f,
  parse_chrom_sizes cs_text = Ok sizes -> mapM parse_bed (lines in_text) = Ok items ->
  o_bs o <= 65535 -> Nlen (bruns (to_bitems items)) < U16 ->
  Forall (fun it : name * bed_entry => BedReadInfo.no_nul_name (fst it) /\ Nlen (fst it) < U32 /\ BedCodec.no_nul (be_rest (snd it))
                                       /\ ~ (be_start (snd it) = 0 /\ be_end (snd it) = 0)) items ->
  Nlen f <= U64 -> BedEndToEnd.file_hyps o sizes (to_bitems items) f).
Check (C16_file_matches_list_model_bigwig : forall pf fp o two_pass cs_text in_text sizes items file,
  parse_chrom_sizes cs_text = Ok sizes -> mapM (parse_bedgraph pf) (lines in_text) = Ok items ->
  BigWigFileRoundTrip.opts_ok o -> BigWigFileRoundTrip.input_ok sizes items ->
  bedgraph_to_bigwig pf cs_text in_text = Ok file ->
  exists bs, bedgraphtobigwig_file pf fp o two_pass cs_text in_text = Ok bs /\
    (Nlen bs < U64 -> forall infl ips chrom st en, (0 < ips)%nat ->
       bigwigtobedgraph_records infl bs chrom st en = Ok (bigwig_to_bedgraph ips file chrom st en))).
Check (C16_file_matches_list_model_bigbed : forall fp o two_pass user_autosql cs_text in_text sizes items file,
  parse_chrom_sizes cs_text = Ok sizes -> mapM parse_bed (lines in_text) = Ok items ->
  (forall s, user_autosql = Some s -> AcceptBed.has_nul s = false) -> Accept.opts_ok o = true ->
  bed_to_bigbed (match user_autosql with Some _ => true | None => false end) cs_text in_text = Ok file ->
  exists f, bedtobigbed_file fp o two_pass user_autosql cs_text in_text = Ok f /\
    (BedEndToEnd.file_hyps o sizes (to_bitems items) f -> forall infl ips chrom st en, (0 < ips)%nat ->
       bigbedtobed_records infl f chrom st en = Ok (bigbed_to_bed ips file chrom st en))).
