(* C14 — no partial file passes for a complete one; no I/O failure is reported as success.
   Statements only, each closed by [exact] / a direct application, with Print Assumptions beneath.

   The model (Model/SinkTrace.v): one call of BigWigWrite::write / write_multipass as the list of
   operations (seek, write, flush) it performs on its destination through an explicit model of
   std::io::BufWriter (8 KiB; flush on seek; large writes bypass; errors discarded on drop), for
   EVERY way [ck] the bytes of a region may be cut into write calls (per-chromosome buffers, temp
   files copied in, field-by-field writes) — the schedule-dependent part of the real trace.
   [bw_sink_run f ck fp kind o sizes input] = (what `write` returns, the operations that reached
   the destination) when the sink operation [f] (if any) is made to fail. *)
From BT Require Import Base.Util Base.LE Base.Float Generated.Consts Model.RTree Model.BBIFile Model.BigWigWrite
  Model.BBIRead Model.SinkTrace
  Proofs.RTreeCodec Proofs.BigWigFileChroms Proofs.BigWigFileRoundTrip Proofs.SinkBytes Proofs.SinkFault Proofs.SinkExec Proofs.SinkPhases Proofs.SinkRefine
  Proofs.SinkRead Proofs.SinkServe Proofs.SinkFaultPrefix.
Local Open Scope N_scope.

Lemma sink_run_accepted f ck fp kind o sizes input p : bw_parts fp kind o sizes input = Ok p ->
  bw_sink_run f ck fp kind o sizes input = run f (Ok tt) (calls_accept ck false true kind p).
Proof. intros H. unfold bw_sink_run, sink_run. rewrite H. reflexivity. Qed.

(* ------------------------------------------------------------------------------------------
   Accepted inputs.  Hypothesis: [chunker_ok ck] (the pieces of a region concatenate to the region).
   That at most MAX_ZOOM_LEVELS = 10 levels are written, so that the zoom directory stays inside
   the space write_blank_headers reserves, is proved from the model (Proofs/SinkRefine.v
   bw_parts_zooms_le; the size lists are cut to 10 since /repo 3a3ac98). *)

(* The trace has a header operation: operation number [header_index] is one write, at offset 0,
   of the 64-byte common header and the zoom directory, and it begins with the bigWig magic. *)
Theorem C14_header_operation : forall ck fp kind o sizes input p,
  chunker_ok ck -> bw_parts fp kind o sizes input = Ok p ->
  nth_error (snd (bw_sink_run None ck fp kind o sizes input)) (header_index ck kind p)
    = Some (SWrite 0 (p_hdr p ++ p_zdir p))
  /\ firstn 4 (p_hdr p) = u32 BIGWIG_MAGIC /\ Nlen (p_hdr p ++ p_zdir p) <= 304.
Proof.
  intros ck fp kind o sizes input p Hck Hp. pose proof (bw_parts_zooms_le fp kind o sizes input p Hp) as Hz. pose proof (bw_parts_ok fp kind o sizes input p Hp Hz) as K.
  rewrite (sink_run_accepted None ck fp kind o sizes input p Hp). split; [|split].
  - exact (header_at ck kind p Hck K).
  - exact (bw_parts_magic fp kind o sizes input p Hp).
  - rewrite Nlen_app', (pk_hdr p K). pose proof (pk_zdir p K). lia.
Qed.
Print Assumptions C14_header_operation.

(* Every crash point before the header operation — any number [n] of completed operations and
   any number [c] of bytes of the next write — leaves a destination that read_info refuses
   (its first four bytes are zero, or it is shorter than a header). *)
Theorem C14_prefix_rejected : forall ck fp kind o sizes input p n c,
  chunker_ok ck -> bw_parts fp kind o sizes input = Ok p ->
  (n < header_index ck kind p)%nat ->
  rejected (replay (cut_ops (snd (bw_sink_run None ck fp kind o sizes input)) n c)).
Proof.
  intros ck fp kind o sizes input p n c Hck Hp Hn. pose proof (bw_parts_zooms_le fp kind o sizes input p Hp) as Hz.
  rewrite (sink_run_accepted None ck fp kind o sizes input p Hp).
  exact (crash_before_rejected ck kind p Hck (bw_parts_ok fp kind o sizes input p Hp Hz) n c Hn).
Qed.
Print Assumptions C14_prefix_rejected.

(* ... including the crash point immediately before the header operation itself. *)
Theorem C14_prefix_rejected_ops : forall ck fp kind o sizes input p n,
  chunker_ok ck -> bw_parts fp kind o sizes input = Ok p ->
  (n <= header_index ck kind p)%nat ->
  rejected (replay (firstn n (snd (bw_sink_run None ck fp kind o sizes input)))).
Proof.
  intros ck fp kind o sizes input p n Hck Hp Hn. pose proof (bw_parts_zooms_le fp kind o sizes input p Hp) as Hz.
  rewrite (sink_run_accepted None ck fp kind o sizes input p Hp).
  exact (crash_at_header_rejected ck kind p Hck (bw_parts_ok fp kind o sizes input p Hp Hz) n Hn).
Qed.
Print Assumptions C14_prefix_rejected_ops.

(* Every crash point that includes the header operation: the destination has the length of the
   finished file up to the 4-byte closing magic, and every byte of it outside the total-summary
   slot and the section count, [304,352), already has its final value: the header, the zoom
   directory, the data, the chromosome tree, the index and every zoom level's data and index.
   What may still differ is exactly: the 40-byte total summary, the 8-byte section count, and
   the presence of the closing magic (which no reader looks at). *)
Theorem C14_prefix_complete : forall ck fp kind o sizes input p n c,
  chunker_ok ck -> bw_parts fp kind o sizes input = Ok p ->
  (header_index ck kind p < n)%nat ->
  complete_state p (replay (cut_ops (snd (bw_sink_run None ck fp kind o sizes input)) n c)).
Proof.
  intros ck fp kind o sizes input p n c Hck Hp Hn. pose proof (bw_parts_zooms_le fp kind o sizes input p Hp) as Hz.
  rewrite (sink_run_accepted None ck fp kind o sizes input p Hp).
  exact (crash_after_complete ck kind p Hck (bw_parts_ok fp kind o sizes input p Hp Hz) n c Hn).
Qed.
Print Assumptions C14_prefix_complete.

(* The undisturbed run returns Ok and its trace replays to the bytes of Model/BigWigWrite.v
   (the byte-exact writer model of C01/C09), whatever the chunking. *)
Theorem C14_trace_is_file : forall ck fp o sizes input p,
  chunker_ok ck -> bw_parts fp 0 o sizes input = Ok p ->
  fst (bw_sink_run None ck fp 0 o sizes input) = Ok tt
  /\ bw_write fp o sizes input = Ok (replay (snd (bw_sink_run None ck fp 0 o sizes input))).
Proof.
  intros ck fp o sizes input p Hck Hp. pose proof (bw_parts_zooms_le fp 0 o sizes input p Hp) as Hz. pose proof (bw_parts_ok fp 0 o sizes input p Hp Hz) as K.
  rewrite (sink_run_accepted None ck fp 0 o sizes input p Hp). split.
  - exact (accept_returns_ok ck 0 p Hck K).
  - rewrite bw_write_refines, Hp. cbn [rbind]. f_equal. symmetry. exact (replay_final ck 0 p Hck K).
Qed.
Print Assumptions C14_trace_is_file.

Theorem C14_trace_is_file_multipass : forall ck fp o sizes input p,
  chunker_ok ck -> bw_parts fp 1 o sizes input = Ok p ->
  fst (bw_sink_run None ck fp 1 o sizes input) = Ok tt
  /\ bw_write_multipass fp o sizes input = Ok (replay (snd (bw_sink_run None ck fp 1 o sizes input))).
Proof.
  intros ck fp o sizes input p Hck Hp. pose proof (bw_parts_zooms_le fp 1 o sizes input p Hp) as Hz. pose proof (bw_parts_ok fp 1 o sizes input p Hp Hz) as K.
  rewrite (sink_run_accepted None ck fp 1 o sizes input p Hp). split.
  - exact (accept_returns_ok ck 1 p Hck K).
  - rewrite bw_write_multipass_refines, Hp. cbn [rbind]. f_equal. symmetry. exact (replay_final ck 1 p Hck K).
Qed.
Print Assumptions C14_trace_is_file_multipass.

(* ------------------------------------------------------------------------------------------
   Refused inputs (any refusal, panic or non-termination of the pure writer model): `write`
   does not return Ok, and at every crash point of whatever reached the destination — the blank
   headers and sections encoded before the refusal — read_info refuses the file. *)
Theorem C14_refused_input : forall ck fp kind o sizes input n c,
  chunker_ok ck -> (forall p, bw_parts fp kind o sizes input <> Ok p) ->
  fst (bw_sink_run None ck fp kind o sizes input) <> Ok tt
  /\ rejected (replay (cut_ops (snd (bw_sink_run None ck fp kind o sizes input)) n c)).
Proof.
  intros ck fp kind o sizes input n c Hck Hno. unfold bw_sink_run, sink_run.
  destruct (bw_parts fp kind o sizes input) as [p| e | |]; [exfalso; exact (Hno p eq_refl)| | |];
    (split; [apply refused_status; discriminate|apply refused_rejected; exact Hck]).
Qed.
Print Assumptions C14_refused_input.

(* ------------------------------------------------------------------------------------------
   Failures of the destination.  For every operation of the undisturbed trace — the k-th seek,
   the k-th write or the k-th flush, for every k — if that operation fails, `write` does not
   return Ok.  (No hypothesis on the chunker or on the number of zoom levels.) *)
Theorem C14_fault : forall ck fp kind o sizes input kd k,
  (k < count_kind kd (snd (bw_sink_run None ck fp kind o sizes input)))%nat ->
  fst (bw_sink_run (Some (kd, k)) ck fp kind o sizes input) <> Ok tt.
Proof.
  intros ck fp kind o sizes input kd k. unfold bw_sink_run, sink_run.
  destruct (bw_parts fp kind o sizes input) as [p| e | |].
  - unfold calls_accept, calls_info. cbn [app].
    replace (calls_body ck kind p ++ CSeek (ToStart 0) :: W (p_hdr p) :: W (p_zdir p) :: CSeek (ToStart (p_so p)) :: W (p_sum p)
             :: CSeek (ToStart (p_fdo p)) :: W (p_cnt p) :: CSeek ToEnd :: W (p_magic p) :: [CFlush])
      with ((calls_body ck kind p ++ [CSeek (ToStart 0); W (p_hdr p); W (p_zdir p); CSeek (ToStart (p_so p)); W (p_sum p);
             CSeek (ToStart (p_fdo p)); W (p_cnt p); CSeek ToEnd; W (p_magic p)]) ++ [CFlush])
      by (rewrite <- app_assoc; reflexivity).
    apply fault_not_ok.
  - intros _. apply refused_status_any. discriminate.
  - intros _. apply refused_status_any. discriminate.
  - intros _. apply refused_status_any. discriminate.
Qed.
Print Assumptions C14_fault.

(* ------------------------------------------------------------------------------------------
   Non-vacuity.  Two chunkers meet the hypothesis; a concrete input (one chromosome, two values,
   one zoom level) is accepted, its trace has 32 operations, the header operation is number 24. *)
Lemma ck_whole_ok : chunker_ok ck_whole.
Proof. intros r b. destruct b; cbn; [reflexivity|now rewrite app_nil_r]. Qed.
(* every region in two pieces, the second one copied in from a temp file and unwrapped *)
Definition ck_split : chunker := fun _ b => [(false, false, firstn 5 b); (true, true, skipn 5 b)].
Lemma ck_split_ok : chunker_ok ck_split.
Proof. intros r b. unfold ck_split. cbn [map snd concat]. rewrite app_nil_r. apply firstn_skipn. Qed.

Definition ex_o : opts := {| o_compress := false; o_ips := 1024; o_bs := 256; o_izoom := 160; o_maxzooms := 10;
                             o_manual := Some [10]; o_sort_all := true |}.
Definition ex_chr1 : name := [99; 104; 114; 49].
Definition ex_sizes : list (name * N) := [(ex_chr1, 1000)].
Definition ex_input : list item :=
  [(ex_chr1, {| v_start := 0; v_end := 5; v_bits := 1065353216 |});
   (ex_chr1, {| v_start := 20; v_end := 25; v_bits := 1073741824 |})].
Definition ex_trace (ck : chunker) := snd (bw_sink_run None ck ieee 0 ex_o ex_sizes ex_input).

Example C14_example_accepted :
  exists p, bw_parts ieee 0 ex_o ex_sizes ex_input = Ok p
    /\ header_index ck_whole 0 p = 24%nat /\ length (ex_trace ck_whole) = 32%nat
    /\ header_index ck_split 0 p = 29%nat /\ length (ex_trace ck_split) = 37%nat
    /\ count_kind 0 (ex_trace ck_whole) = 17%nat /\ count_kind 1 (ex_trace ck_whole) = 14%nat
    /\ count_kind 2 (ex_trace ck_whole) = 1%nat.
Proof. eexists. split; [vm_compute; reflexivity|]. vm_compute. repeat split; reflexivity. Qed.

(* the two sides of the crash-point theorems on the example: just before the header operation
   read_info refuses the file, just after it read_info returns what it returns on the finished file *)
Example C14_example_crash_points :
  read_info (replay (firstn 24 (ex_trace ck_whole))) = Err R_MAGIC
  /\ (exists i, read_info (replay (ex_trace ck_whole)) = Ok i
               /\ read_info (replay (firstn 25 (ex_trace ck_whole))) = Ok i
               /\ bw_interval (fun l => l) (replay (firstn 25 (ex_trace ck_whole))) i ex_chr1 0 1000
                  = bw_interval (fun l => l) (replay (ex_trace ck_whole)) i ex_chr1 0 1000
               /\ zoom_interval (fun l => l) (replay (firstn 25 (ex_trace ck_whole))) i ex_chr1 0 1000 10
                  = zoom_interval (fun l => l) (replay (ex_trace ck_whole)) i ex_chr1 0 1000 10)
  /\ replay (ex_trace ck_split) = replay (ex_trace ck_whole).
Proof.
  split; [vm_compute; reflexivity|]. split; [|vm_compute; reflexivity].
  eexists. split; [vm_compute; reflexivity|]. split; [vm_compute; reflexivity|]. split; vm_compute; reflexivity.
Qed.

(* a refused input (the second value overlaps the third): refused with the overlap code, and the
   one section complete before the refusal may have been written *)
Definition ex_bad : list item :=
  ex_input ++ [(ex_chr1, {| v_start := 22; v_end := 30; v_bits := 1065353216 |})].
Definition ex_o1 : opts := {| o_compress := false; o_ips := 1; o_bs := 256; o_izoom := 160; o_maxzooms := 10;
                              o_manual := Some [10]; o_sort_all := true |}.
Example C14_example_refused :
  (forall p, bw_parts ieee 0 ex_o1 ex_sizes ex_bad <> Ok p)
  /\ fst (bw_sink_run None ck_whole ieee 0 ex_o1 ex_sizes ex_bad) = Err E_OVERLAP
  /\ map (fun op => match op with SWrite q b => (q, Nlen b) | _ => (0, 0) end)
         (filter (fun op => kind_of op =? 1) (snd (bw_sink_run None ck_whole ieee 0 ex_o1 ex_sizes ex_bad)))
     = [(0, 304); (304, 40); (344, 8); (352, 36)].
Proof.
  split; [intros p; vm_compute; discriminate|]. split; vm_compute; reflexivity.
Qed.

(* ------------------------------------------------------------------------------------------
   What the READERS answer at a crash point that includes the header operation (composition with
   the whole-file round trip of C01, redone for any image holding the regions: Proofs/SinkRead.v).
   Hypotheses as in C01: [opts_ok] (block_size in 2..65535, items_per_slot in 1..65535),
   [input_ok] (one run per chromosome, names without NUL and shorter than 2^32, fewer than 65536
   chromosomes, lengths and value patterns below 2^32), file shorter than 2^64 bytes.
   [serves sizes input F X]: read_info returns the SAME header, zoom directory and chromosome
   table on the crash-point image X as on the finished file F, and every range query on a
   chromosome that had data returns on X, as on F, exactly the accepted values overlapping the
   range, clipped, in order, bit-identical.  (The total summary is what may still be missing;
   zoom-level queries are covered at the byte level by C14_prefix_complete: the zoom directory,
   every level's data and every level's index already hold their final bytes.) *)
Theorem C14_prefix_serves : forall ck fp kind o sizes input p n c,
  chunker_ok ck -> bw_parts fp kind o sizes input = Ok p -> kind = 0 \/ kind = 1 ->
  opts_ok o -> input_ok sizes input -> Nlen (final_bytes p) < U64 ->
  (header_index ck kind p < n)%nat ->
  let T := snd (bw_sink_run None ck fp kind o sizes input) in
  serves sizes input (replay T) (replay (cut_ops T n c)).
Proof. exact crash_after_serves. Qed.
Print Assumptions C14_prefix_serves.

(* ------------------------------------------------------------------------------------------
   After a failure of the destination (any operation, any kind), what has reached the destination
   is the first n operations of the undisturbed trace, for some n: the call that issued the
   failing operation returns the error, nothing further is attempted, and the drop of the
   BufWriter at most retries the very write that failed.  So the destination is then in one of
   the crash-point states above: refused by read_info, or complete. *)
Theorem C14_fault_state : forall f ck fp kind o sizes input,
  exists n, snd (bw_sink_run f ck fp kind o sizes input)
            = firstn n (snd (bw_sink_run None ck fp kind o sizes input)).
Proof.
  intros f ck fp kind o sizes input. unfold bw_sink_run, sink_run.
  assert (H : forall status cs, exists n, snd (run f status cs) = firstn n (snd (run None status cs))).
  { intros status cs. destruct (fault_prefix f status cs) as [t E]. exists (length (snd (run f status cs))).
    rewrite E, firstn_app, Nat.sub_diag, firstn_all. cbn [firstn]. now rewrite app_nil_r. }
  destruct (bw_parts fp kind o sizes input); apply H.
Qed.
Print Assumptions C14_fault_state.

Example C14_example_serves_hyps : opts_ok ex_o /\ input_ok ex_sizes ex_input
  /\ exists p, bw_parts ieee 0 ex_o ex_sizes ex_input = Ok p /\ Nlen (final_bytes p) < U64.
Proof.
  split; [unfold opts_ok, ex_o; cbn [o_bs o_ips]; lia|]. split.
  - unfold input_ok.
    assert (Hr : map fst (runs ex_input) = [ex_chr1]) by (vm_compute; reflexivity).
    assert (Hn : Nlen (runs ex_input) = 1) by (vm_compute; reflexivity).
    rewrite Hr, Hn. split; [|split; [|split]].
    + constructor; [|constructor]. split; [|unfold U32; vm_compute; reflexivity].
      unfold BigWigFileChroms.no_zero, ex_chr1. repeat (constructor; [discriminate|]). constructor.
    + unfold U16. lia.
    + unfold ex_sizes. constructor; [|constructor]. cbn [snd]. unfold U32. lia.
    + unfold ex_input. constructor; [|constructor; [|constructor]]; cbn [snd v_bits]; unfold U32; lia.
  - eexists. split; [vm_compute; reflexivity|]. unfold U64. vm_compute. reflexivity.
Qed.

(* ------------------------------------------------------------------------------------------
   The two defects repaired in /repo, on the model of the code as it was (parameters [dbg], [ff]
   of Model/SinkTrace.v calls_info).

   D5 (3b5992e): without the final flush the closing magic is written by the drop of the
   BufWriter, which discards the error: failing the last write still returns Ok. *)
Theorem C14_last_flush_refuted :
  count_kind 1 (snd (sink_run None ck_whole false false ieee 0 ex_o ex_sizes ex_input)) = 14%nat
  /\ fst (sink_run (Some (1, 13%nat)) ck_whole false false ieee 0 ex_o ex_sizes ex_input) = Ok tt
  /\ fst (sink_run (Some (1, 13%nat)) ck_whole false true ieee 0 ex_o ex_sizes ex_input) = Err E_IO.
Proof. vm_compute. repeat split; reflexivity. Qed.
Print Assumptions C14_last_flush_refuted.

(* D12 (ce3b132): with the header-size assertion implemented by a seek (debug builds), the
   64-byte header reaches the destination one operation before the zoom directory; at the crash
   point in between the file opens and advertises one zoom level, of resolution 0 at offset 0,
   where the finished file has resolution 10. *)
Theorem C14_debug_split_refuted :
  let T := snd (sink_run None ck_whole true true ieee 0 ex_o ex_sizes ex_input) in
  nth_error T 24 = Some (SWrite 0 (firstn 64 (replay T)))
  /\ nth_error T 26 = Some (SWrite 64 (firstn 24 (skipn 64 (replay T))))
  /\ (exists i j, read_info (replay (firstn 25 T)) = Ok i /\ read_info (replay T) = Ok j
                  /\ map zh_res (i_zooms i) = [0] /\ map zh_res (i_zooms j) = [10])
  /\ replay T = replay (ex_trace ck_whole).
Proof.
  cbv zeta. split; [vm_compute; reflexivity|]. split; [vm_compute; reflexivity|]. split; [|vm_compute; reflexivity].
  eexists. eexists. split; [vm_compute; reflexivity|]. split; [vm_compute; reflexivity|]. split; vm_compute; reflexivity.
Qed.
Print Assumptions C14_debug_split_refuted.

(* ==========================================================================================
   The bigBed writer (Model/SinkTraceBed.v): BigBedWrite::write / write_multipass through the same
   BufWriter model and call interpreter.  Its write_pre stores the autoSql text, NUL-terminated, at
   offset 304, so the total-summary slot and the item count — the 48 bytes write_info patches after
   the header operation — lie at [305 + |autoSql|, 353 + |autoSql|), and the data begins there.
   [bb_parts fp kind o sizes autosql input = Ok (sql, p)]: the input is accepted, [sql] is the text
   stored (the supplied one, or the library's BED3 schema), [p] the regions of the file.
   [bb_sink_run f ck fp kind o sizes autosql input] = (what `write` returns, the operations that
   reached the destination) when the sink operation [f] (if any) is made to fail. *)
From BT Require Model.BigBedWrite Model.BBIReadBed Model.SinkTraceBed Proofs.BedEndToEnd
  Proofs.SinkBedPhases Proofs.SinkBedRefine Proofs.SinkBedServe.

Module Bed.
Import Model.BigBedWrite Model.BBIReadBed Model.SinkTraceBed Proofs.SinkBedPhases Proofs.SinkBedRefine Proofs.SinkBedServe.

(* The header operation: one write at offset 0 of the 64-byte header and the zoom directory,
   beginning with the bigBed magic, not reaching the autoSql at offset 304. *)
Theorem C14_bb_header_operation : forall ck fp kind o sizes autosql input sql p,
  chunker_ok ck -> bb_parts fp kind o sizes autosql input = Ok (sql, p) ->
  nth_error (snd (bb_sink_run None ck fp kind o sizes autosql input)) (bb_header_index ck kind sql p)
    = Some (SWrite 0 (p_hdr p ++ p_zdir p))
  /\ firstn 4 (p_hdr p) = u32 BIGBED_MAGIC /\ Nlen (p_hdr p ++ p_zdir p) <= 304.
Proof.
  intros ck fp kind o sizes autosql input sql p Hck Hp. destruct (bb_parts_ok fp kind o sizes autosql input sql p Hp) as [K M].
  rewrite (bb_sink_run_accepted None ck fp kind o sizes autosql input sql p Hp). split; [|split].
  - exact (bb_header_at ck kind sql p Hck K).
  - exact M.
  - rewrite Nlen_app', (bk_hdr sql p K). pose proof (bk_zdir sql p K). lia.
Qed.
Print Assumptions C14_bb_header_operation.

(* Every crash point before the header operation — [n] completed operations and any number [c] of
   bytes of the next write — leaves a destination that read_info refuses: its first four bytes
   are zero (the autoSql text, the data, the chromosome tree, the index and the zoom levels are all
   written at or after offset 304), or it is shorter than a header. *)
Theorem C14_bb_prefix_rejected : forall ck fp kind o sizes autosql input sql p n c,
  chunker_ok ck -> bb_parts fp kind o sizes autosql input = Ok (sql, p) ->
  (n < bb_header_index ck kind sql p)%nat ->
  rejected (replay (cut_ops (snd (bb_sink_run None ck fp kind o sizes autosql input)) n c)).
Proof.
  intros ck fp kind o sizes autosql input sql p n c Hck Hp Hn. destruct (bb_parts_ok fp kind o sizes autosql input sql p Hp) as [K _].
  rewrite (bb_sink_run_accepted None ck fp kind o sizes autosql input sql p Hp).
  exact (bb_crash_before_rejected ck kind sql p Hck K n c Hn).
Qed.
Print Assumptions C14_bb_prefix_rejected.

(* ... including the crash point immediately before the header operation itself. *)
Theorem C14_bb_prefix_rejected_ops : forall ck fp kind o sizes autosql input sql p n,
  chunker_ok ck -> bb_parts fp kind o sizes autosql input = Ok (sql, p) ->
  (n <= bb_header_index ck kind sql p)%nat ->
  rejected (replay (firstn n (snd (bb_sink_run None ck fp kind o sizes autosql input)))).
Proof.
  intros ck fp kind o sizes autosql input sql p n Hck Hp Hn. destruct (bb_parts_ok fp kind o sizes autosql input sql p Hp) as [K _].
  rewrite (bb_sink_run_accepted None ck fp kind o sizes autosql input sql p Hp).
  exact (bb_crash_at_header_rejected ck kind sql p Hck K n Hn).
Qed.
Print Assumptions C14_bb_prefix_rejected_ops.

(* Every crash point that includes the header operation: the destination has the length of the
   finished file up to the 4-byte closing magic, and every byte of it outside the total-summary
   slot and the item count, [305 + |sql|, 353 + |sql|), already has its final value: the header,
   the zoom directory, the autoSql text, the data, the chromosome tree, the index and every zoom
   level's data and index. *)
Theorem C14_bb_prefix_complete : forall ck fp kind o sizes autosql input sql p n c,
  chunker_ok ck -> bb_parts fp kind o sizes autosql input = Ok (sql, p) ->
  (bb_header_index ck kind sql p < n)%nat ->
  complete_at (305 + length sql) p (replay (cut_ops (snd (bb_sink_run None ck fp kind o sizes autosql input)) n c)).
Proof.
  intros ck fp kind o sizes autosql input sql p n c Hck Hp Hn. destruct (bb_parts_ok fp kind o sizes autosql input sql p Hp) as [K _].
  rewrite (bb_sink_run_accepted None ck fp kind o sizes autosql input sql p Hp).
  replace (305 + length sql)%nat with (N.to_nat (p_so p)) by (rewrite (bk_so sql p K); unfold Nlen; lia).
  exact (bb_crash_after_complete ck kind sql p Hck K n c Hn).
Qed.
Print Assumptions C14_bb_prefix_complete.

(* The undisturbed run returns Ok and its trace replays to the bytes of Model/BigBedWrite.v (the
   byte-exact writer model of C02/C04/C06/C08), whatever the chunking. *)
Theorem C14_bb_trace_is_file : forall ck fp o sizes autosql input sql p,
  chunker_ok ck -> bb_parts fp 0 o sizes autosql input = Ok (sql, p) ->
  fst (bb_sink_run None ck fp 0 o sizes autosql input) = Ok tt
  /\ bb_write fp o sizes autosql input = Ok (replay (snd (bb_sink_run None ck fp 0 o sizes autosql input))).
Proof.
  intros ck fp o sizes autosql input sql p Hck Hp. destruct (bb_parts_ok fp 0 o sizes autosql input sql p Hp) as [K _].
  rewrite (bb_sink_run_accepted None ck fp 0 o sizes autosql input sql p Hp). split.
  - exact (bb_accept_returns_ok ck 0 sql p Hck K).
  - rewrite bb_write_refines, Hp. cbn [rbind snd]. f_equal. symmetry. exact (bb_replay_final ck 0 sql p Hck K).
Qed.
Print Assumptions C14_bb_trace_is_file.

Theorem C14_bb_trace_is_file_multipass : forall ck fp o sizes autosql input sql p,
  chunker_ok ck -> bb_parts fp 1 o sizes autosql input = Ok (sql, p) ->
  fst (bb_sink_run None ck fp 1 o sizes autosql input) = Ok tt
  /\ bb_write_multipass fp o sizes autosql input = Ok (replay (snd (bb_sink_run None ck fp 1 o sizes autosql input))).
Proof.
  intros ck fp o sizes autosql input sql p Hck Hp. destruct (bb_parts_ok fp 1 o sizes autosql input sql p Hp) as [K _].
  rewrite (bb_sink_run_accepted None ck fp 1 o sizes autosql input sql p Hp). split.
  - exact (bb_accept_returns_ok ck 1 sql p Hck K).
  - rewrite bb_write_multipass_refines, Hp. cbn [rbind snd]. f_equal. symmetry. exact (bb_replay_final ck 1 sql p Hck K).
Qed.
Print Assumptions C14_bb_trace_is_file_multipass.

(* What the READERS answer at a crash point that includes the header operation (composition with
   the whole-file theorem of C02/C04, redone for any image holding the regions:
   Proofs/SinkBedRead.v).  Hypotheses as in C02_written_file_roundtrip / C04_written_file_query
   ([file_hyps]: block_size <= 65535, fewer than 65536 chromosomes, names NUL-free and shorter
   than 2^32, entries with start, end < 2^32, NUL-free rest, not [0,0); sizes < 2^32; file <= 2^64).
   [bb_serves autosql input F X]: read_info returns the SAME header, zoom directory and chromosome
   table on the crash-point image X as on the finished file F; every range query on a chromosome
   that had data returns on X, as on F, exactly the stored entries the reader's overlap test keeps,
   in stored order; and autosql() returns the stored text on both.  (The total summary and the item
   count are what may still be missing; zoom-level queries are covered at the byte level by
   C14_bb_prefix_complete.) *)
Theorem C14_bb_prefix_serves : forall ck fp kind o sizes autosql input sql p n c,
  chunker_ok ck -> bb_parts fp kind o sizes autosql input = Ok (sql, p) ->
  BedEndToEnd.file_hyps o sizes input (final_bytes p) ->
  (bb_header_index ck kind sql p < n)%nat ->
  let T := snd (bb_sink_run None ck fp kind o sizes autosql input) in
  bb_serves autosql input (replay T) (replay (cut_ops T n c)).
Proof. exact bb_crash_after_serves. Qed.
Print Assumptions C14_bb_prefix_serves.

(* Refused calls (refused options, a refused autoSql, a refused input, panic or non-termination of
   the pure writer model): `write` does not return Ok, and at every crash point of whatever
   reached the destination — nothing, the blank headers, or write_pre and sections encoded before
   the refusal — read_info refuses the file. *)
Theorem C14_bb_refused_input : forall ck fp kind o sizes autosql input n c,
  chunker_ok ck -> (forall sp, bb_parts fp kind o sizes autosql input <> Ok sp) ->
  fst (bb_sink_run None ck fp kind o sizes autosql input) <> Ok tt
  /\ rejected (replay (cut_ops (snd (bb_sink_run None ck fp kind o sizes autosql input)) n c)).
Proof.
  intros ck fp kind o sizes autosql input n c Hck Hno. unfold bb_sink_run. unfold bb_parts in Hno.
  destruct ((o_bs o <? 2) || (o_ips o <? 1)).
  - split; [apply refused_status_any; discriminate|]. apply zero4_rejected, zero4_replay, phase1_cut. constructor.
  - destruct (bb_schema autosql) as [[sql fc]| e | |]; cbn [rbind] in Hno.
    + destruct (bb_parts_after_pre fp kind o sizes sql fc input) as [p| e | |]; cbn [rbind] in Hno;
        [exfalso; exact (Hno (sql, p) eq_refl)| | |];
        (split; [apply refused_status_any; discriminate
                |apply zero4_rejected, zero4_replay, phase1_cut, bb_refused_phase1; exact Hck]).
    + split; [apply refused_status_any; discriminate|apply zero4_rejected, zero4_replay, phase1_cut, refused_schema_phase1].
    + split; [apply refused_status_any; discriminate|apply zero4_rejected, zero4_replay, phase1_cut, refused_schema_phase1].
    + split; [apply refused_status_any; discriminate|apply zero4_rejected, zero4_replay, phase1_cut, refused_schema_phase1].
Qed.
Print Assumptions C14_bb_refused_input.

(* Failures of the destination: for every operation of the undisturbed trace — the k-th seek, the
   k-th write or the k-th flush, for every k — if that operation fails, `write` does not return Ok.
   (No hypothesis.) *)
Theorem C14_bb_fault : forall ck fp kind o sizes autosql input kd k,
  (k < count_kind kd (snd (bb_sink_run None ck fp kind o sizes autosql input)))%nat ->
  fst (bb_sink_run (Some (kd, k)) ck fp kind o sizes autosql input) <> Ok tt.
Proof.
  intros ck fp kind o sizes autosql input kd k. unfold bb_sink_run.
  destruct ((o_bs o <? 2) || (o_ips o <? 1)); [intros _; apply refused_status_any; discriminate|].
  destruct (bb_schema autosql) as [[sql fc]| e | |]; try (intros _; apply refused_status_any; discriminate).
  destruct (bb_parts_after_pre fp kind o sizes sql fc input) as [p| e | |]; try (intros _; apply refused_status_any; discriminate).
  unfold bb_calls_accept, calls_info. cbn [app].
  replace (bb_calls_body ck kind sql p ++ CSeek (ToStart 0) :: W (p_hdr p) :: W (p_zdir p) :: CSeek (ToStart (p_so p)) :: W (p_sum p)
           :: CSeek (ToStart (p_fdo p)) :: W (p_cnt p) :: CSeek ToEnd :: W (p_magic p) :: [CFlush])
    with ((bb_calls_body ck kind sql p ++ [CSeek (ToStart 0); W (p_hdr p); W (p_zdir p); CSeek (ToStart (p_so p)); W (p_sum p);
           CSeek (ToStart (p_fdo p)); W (p_cnt p); CSeek ToEnd; W (p_magic p)]) ++ [CFlush])
    by (rewrite <- app_assoc; reflexivity).
  apply fault_not_ok.
Qed.
Print Assumptions C14_bb_fault.

(* After any failure what has reached the destination is the first n operations of the undisturbed
   trace, for some n: the destination is in one of the crash-point states above. *)
Theorem C14_bb_fault_state : forall f ck fp kind o sizes autosql input,
  exists n, snd (bb_sink_run f ck fp kind o sizes autosql input)
            = firstn n (snd (bb_sink_run None ck fp kind o sizes autosql input)).
Proof.
  intros f ck fp kind o sizes autosql input. unfold bb_sink_run.
  assert (H : forall status cs, exists n, snd (run f status cs) = firstn n (snd (run None status cs))).
  { intros status cs. destruct (fault_prefix f status cs) as [t E]. exists (length (snd (run f status cs))).
    rewrite E, firstn_app, Nat.sub_diag, firstn_all. cbn [firstn]. now rewrite app_nil_r. }
  destruct ((o_bs o <? 2) || (o_ips o <? 1)); [apply H|].
  destruct (bb_schema autosql) as [[sql fc]| e | |]; try apply H.
  destruct (bb_parts_after_pre fp kind o sizes sql fc input); apply H.
Qed.
Print Assumptions C14_bb_fault_state.

(* ------------------------------------------------------------------------------------------
   Non-vacuity: a concrete input (one chromosome, three overlapping entries with rest fields, the
   library's BED3 schema, one zoom level) is accepted by both writers; the header operation is
   number 26 of 34 (31 of 39 when every region arrives in two pieces, one of them copied). *)
Definition exb_input : list bitem :=
  [(ex_chr1, {| e_start := 0; e_end := 50; e_rest := [97] |});
   (ex_chr1, {| e_start := 3; e_end := 25; e_rest := [] |});
   (ex_chr1, {| e_start := 20; e_end := 30; e_rest := [98; 9; 99] |})].
Definition exb_trace (ck : chunker) (kind : N) := snd (bb_sink_run None ck ieee kind ex_o ex_sizes None exb_input).

Example C14_bb_example_accepted :
  exists p, bb_parts ieee 0 ex_o ex_sizes None exb_input = Ok (AUTOSQL_BED3, p)
    /\ bb_header_index ck_whole 0 AUTOSQL_BED3 p = 26%nat /\ length (exb_trace ck_whole 0) = 34%nat
    /\ bb_header_index ck_split 0 AUTOSQL_BED3 p = 31%nat /\ length (exb_trace ck_split 0) = 39%nat
    /\ count_kind 0 (exb_trace ck_whole 0) = 18%nat /\ count_kind 1 (exb_trace ck_whole 0) = 15%nat
    /\ count_kind 2 (exb_trace ck_whole 0) = 1%nat
    /\ (exists p1, bb_parts ieee 1 ex_o ex_sizes None exb_input = Ok (AUTOSQL_BED3, p1)
                   /\ bb_header_index ck_whole 1 AUTOSQL_BED3 p1 = 26%nat).
Proof.
  eexists. split; [vm_compute; reflexivity|].
  repeat (split; [vm_compute; reflexivity|]).
  eexists. split; vm_compute; reflexivity.
Qed.

(* the two sides of the crash-point theorems on the example *)
Example C14_bb_example_crash_points :
  let T := exb_trace ck_whole 0 in
  read_info (replay (firstn 26 T)) = Err R_MAGIC
  /\ (exists i, read_info (replay T) = Ok i
               /\ read_info (replay (firstn 27 T)) = Ok i
               /\ bb_interval (fun l => l) (replay (firstn 27 T)) i ex_chr1 4 22
                  = Ok [{| e_start := 0; e_end := 50; e_rest := [97] |}; {| e_start := 3; e_end := 25; e_rest := [] |};
                        {| e_start := 20; e_end := 30; e_rest := [98; 9; 99] |}]
               /\ bb_interval (fun l => l) (replay T) i ex_chr1 26 40
                  = Ok [{| e_start := 0; e_end := 50; e_rest := [97] |}; {| e_start := 20; e_end := 30; e_rest := [98; 9; 99] |}]
               /\ bb_interval (fun l => l) (replay (firstn 27 T)) i ex_chr1 26 40 = bb_interval (fun l => l) (replay T) i ex_chr1 26 40
               /\ bb_autosql (replay (firstn 27 T)) i = Ok (Some AUTOSQL_BED3)
               /\ bb_item_count (replay (firstn 27 T)) i = Ok 0 /\ bb_item_count (replay T) i = Ok 3)
  /\ replay (exb_trace ck_split 0) = replay T.
Proof.
  cbv zeta. split; [vm_compute; reflexivity|]. split; [|vm_compute; reflexivity].
  eexists. split; [vm_compute; reflexivity|].
  repeat (split; [vm_compute; reflexivity|]). vm_compute; reflexivity.
Qed.

Example C14_bb_example_serves_hyps :
  exists p, bb_parts ieee 0 ex_o ex_sizes None exb_input = Ok (AUTOSQL_BED3, p)
    /\ BedEndToEnd.file_hyps ex_o ex_sizes exb_input (final_bytes p).
Proof.
  eexists. split; [vm_compute; reflexivity|]. unfold BedEndToEnd.file_hyps.
  split; [cbn; lia|]. split; [vm_compute; reflexivity|]. split; [|split].
  - unfold BedEndToEnd.input_ok, exb_input. repeat constructor; cbn [fst snd e_start e_end e_rest];
      try (unfold RTreeCodec.U32; vm_compute; reflexivity); try discriminate; try (intros [? ?]; discriminate).
  - repeat constructor; cbn; unfold RTreeCodec.U32; lia.
  - vm_compute. discriminate.
Qed.

(* refused calls: an autoSql with a NUL byte leaves the blank headers (written by the drop of the
   BufWriter); entries out of order leave write_pre and the one section complete before the
   refusal; refused options leave nothing *)
Example C14_bb_example_refused :
  bb_sink_run None ck_whole ieee 0 ex_o ex_sizes (Some [116; 0; 120]) exb_input
    = (Err E_BED_AUTOSQL_NUL, [SSeek 0; SWrite 0 (repeatN 0 304)])
  /\ (let bad := exb_input ++ [(ex_chr1, {| e_start := 10; e_end := 12; e_rest := [] |})] in
      (forall sp, bb_parts ieee 0 ex_o1 ex_sizes None bad <> Ok sp)
      /\ fst (bb_sink_run None ck_whole ieee 0 ex_o1 ex_sizes None bad) = Err E_BED_UNSORTED
      /\ map (fun op => match op with SWrite q b => (q, Nlen b) | _ => (0, 0) end)
             (filter (fun op => kind_of op =? 1) (snd (bb_sink_run None ck_whole ieee 0 ex_o1 ex_sizes None bad)))
         = [(0, 304); (304, Nlen AUTOSQL_BED3 + 1); (305 + Nlen AUTOSQL_BED3, 40); (345 + Nlen AUTOSQL_BED3, 8);
            (353 + Nlen AUTOSQL_BED3, 27)])
  /\ bb_sink_run None ck_whole ieee 0 {| o_compress := false; o_ips := 0; o_bs := 256; o_izoom := 160; o_maxzooms := 10;
                                         o_manual := None; o_sort_all := true |} ex_sizes None exb_input
     = (Err E_BED_OPTIONS, []).
Proof.
  split; [vm_compute; reflexivity|]. split; [|vm_compute; reflexivity].
  cbv zeta. split; [intros sp; vm_compute; discriminate|]. split; vm_compute; reflexivity.
Qed.
End Bed.
Export Bed.

(* ------------------------------------------------------------------------------------------
   Zoom queries at crash points (bigWig).  C14_prefix_complete says the zoom directory, every
   level's data and every level's index hold their final bytes once the header operation is
   included; here the READER is taken through them (Proofs/SinkReadZoom.v: C07's file theorem redone
   for any image that reads the same info and holds each advertised level's sections and index).
   For every crash point that includes the header operation -- n whole operations and any number
   [c] of bytes of the next write -- read_info returns on the crash-point image the info [i] it
   returns on the finished file, and for every resolution [r] of its zoom directory, every
   chromosome with data and every range, [zoom_interval] returns on both images
     Ok (map (zrec_read fp) (filter (ztouch s e) R)),
   R = the records the zoom accumulator produced for that chromosome at that resolution
   (C07_ordered_disjoint / C07_partition / C07_stats): the right-hand side of C07_file_zoom_query.
   Hypotheses: those of C14_prefix_serves plus C07's guard that the resolutions fit the directory's
   u32 field (single pass: the normalised size list; two passes: the manual list). *)
From BT Require Proofs.ZoomFile Proofs.ZoomReadCodec Proofs.ZoomReadFile Proofs.SinkReadZoom.
Theorem C14_prefix_serves_zoom : forall ck fp kind o sizes input p n c,
  chunker_ok ck -> bw_parts fp kind o sizes input = Ok p ->
  (kind = 0 /\ Forall (fun z => z < U32) (zoom_sizes_single o)) \/ (kind = 1 /\ ZoomFile.manual_u32 o) ->
  opts_ok o -> input_ok sizes input -> Nlen (final_bytes p) < U64 ->
  (header_index ck kind p < n)%nat ->
  let T := snd (bw_sink_run None ck fp kind o sizes input) in
  SinkReadZoom.serves_zoom fp o sizes input (replay T) (replay (cut_ops T n c)).
Proof. exact SinkReadZoom.crash_after_serves_zoom. Qed.
Print Assumptions C14_prefix_serves_zoom.

(* Non-vacuity on the example (two values, manual zoom list [10], 32 operations, header operation
   number 24): the extra hypothesis holds, and at the crash point right after the header operation
   the level-10 query over the whole chromosome returns the two records [0,5) and [20,25) of the
   accumulator (a record ends where its data ends), read back through zrec_read, as on the finished file. *)
Example C14_example_serves_zoom :
  Forall (fun z => z < U32) (zoom_sizes_single ex_o)
  /\ exists i st,
       read_info (replay (ex_trace ck_whole)) = Ok i
       /\ read_info (replay (firstn 25 (ex_trace ck_whole))) = Ok i
       /\ map zh_res (i_zooms i) = [10]
       /\ zoom_chrom ieee (o_ips ex_o) 10 0 (map snd ex_input) zstate0 = Ok st
       /\ map (fun z => (z_start z, z_end z)) (concat (zs_out st)) = [(0, 5); (20, 25)]
       /\ zoom_interval (fun l => l) (replay (firstn 25 (ex_trace ck_whole))) i ex_chr1 0 1000 10
          = Ok (map (ZoomReadCodec.zrec_read ieee) (filter (ZoomReadFile.ztouch 0 1000) (concat (zs_out st))))
       /\ zoom_interval (fun l => l) (replay (ex_trace ck_whole)) i ex_chr1 0 1000 10
          = Ok (map (ZoomReadCodec.zrec_read ieee) (filter (ZoomReadFile.ztouch 0 1000) (concat (zs_out st)))).
Proof.
  split.
  { assert (E : zoom_sizes_single ex_o = [10]) by (vm_compute; reflexivity). rewrite E.
    constructor; [unfold U32; lia|constructor]. }
  eexists. eexists. split; [vm_compute; reflexivity|]. split; [vm_compute; reflexivity|].
  split; [vm_compute; reflexivity|]. split; [vm_compute; reflexivity|].
  split; [vm_compute; reflexivity|]. split; vm_compute; reflexivity.
Qed.

(* ------------------------------------------------------------------------------------------
   Zoom queries at crash points (bigBed), the twin of C14_prefix_serves_zoom
   (Proofs/SinkBedReadZoom.v: the argument of C08_zoom_query redone once, its last step applied to
   the finished file and to the crash-point image, which holds every level's sections and index
   because they lie beyond the 48 bytes still to be written).  For every crash point that includes
   the header operation: read_info returns the info [i] of the finished file, and for every
   resolution [r] of its directory, every chromosome that had entries and every range,
   [zoom_interval] returns on both images the records bb_zoom_records yields for that chromosome
   at that resolution that pass the reader's inclusive overlap test, each statistic as its stored
   f32: the right-hand side of C08_zoom_query.  Hypotheses: file_hyps (as C14_bb_prefix_serves)
   and C08's guard that the resolutions fit the directory's u32 field ([zoom_res_u32 two_pass o]:
   single pass = the normalised size list, two passes = the manual list). *)
From BT Require Proofs.C08FileQuery Proofs.SinkBedReadZoom.
Module BedZoom.
Import Model.BigBedWrite Model.BBIReadBed Model.SinkTraceBed Proofs.SinkBedPhases Proofs.SinkBedRefine Proofs.SinkBedServe.
Theorem C14_bb_prefix_serves_zoom : forall ck fp kind o sizes autosql input sql p n c,
  chunker_ok ck -> bb_parts fp kind o sizes autosql input = Ok (sql, p) ->
  BedEndToEnd.file_hyps o sizes input (final_bytes p) ->
  C08FileQuery.zoom_res_u32 (negb (kind =? 0)) o ->
  (bb_header_index ck kind sql p < n)%nat ->
  let T := snd (bb_sink_run None ck fp kind o sizes autosql input) in
  SinkBedReadZoom.bb_serves_zoom fp o input (replay T) (replay (cut_ops T n c)).
Proof. exact SinkBedReadZoom.bb_crash_after_serves_zoom. Qed.
Print Assumptions C14_bb_prefix_serves_zoom.

(* Non-vacuity on the bigBed example (three overlapping entries, BED3 schema, manual zoom list [10],
   header operation number 26): the extra hypothesis holds for both pass modes, and right after the
   header operation the level-10 query over the whole chromosome returns, as on the finished file,
   the records of bb_zoom_records read back through zrec_read *)
Example C14_bb_example_serves_zoom :
  C08FileQuery.zoom_res_u32 false ex_o /\ C08FileQuery.zoom_res_u32 true ex_o
  /\ exists i secs,
       read_info (replay (exb_trace ck_whole 0)) = Ok i
       /\ read_info (replay (firstn 27 (exb_trace ck_whole 0))) = Ok i
       /\ map zh_res (i_zooms i) = [10]
       /\ BedSweep.bb_zoom_records ieee (o_ips ex_o) 10 0 (map to_sw (map snd exb_input)) = Ok secs
       /\ concat secs <> []
       /\ zoom_interval (fun l => l) (replay (firstn 27 (exb_trace ck_whole 0))) i ex_chr1 0 1000 10
          = Ok (map (ZoomReadCodec.zrec_read ieee)
                    (filter (fun z => (0 <=? z_end z) && (z_start z <=? 1000)) (concat secs)))
       /\ zoom_interval (fun l => l) (replay (exb_trace ck_whole 0)) i ex_chr1 0 1000 10
          = Ok (map (ZoomReadCodec.zrec_read ieee)
                    (filter (fun z => (0 <=? z_end z) && (z_start z <=? 1000)) (concat secs))).
Proof.
  split; [|split].
  - unfold C08FileQuery.zoom_res_u32.
    assert (E : zoom_sizes_single ex_o = [10]) by (vm_compute; reflexivity). rewrite E.
    constructor; [unfold U32; lia|constructor].
  - unfold C08FileQuery.zoom_res_u32, ZoomFile.manual_u32, ex_o. cbn [o_manual].
    constructor; [unfold U32; lia|constructor].
  - eexists. eexists. split; [vm_compute; reflexivity|]. split; [vm_compute; reflexivity|].
    split; [vm_compute; reflexivity|]. split; [vm_compute; reflexivity|].
    split; [vm_compute; discriminate|]. split; vm_compute; reflexivity.
Qed.
End BedZoom.
Export BedZoom.
