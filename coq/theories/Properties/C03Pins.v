From BT Require Import Base.Util Base.Sexp Base.LE Base.Float Generated.Consts Model.RTree Model.BBIFile Model.BigWigWrite
  Model.BBIRead Model.CachedRead Model.Entry_C03 Proofs.Chunks Proofs.BigWigQuery Proofs.RTreeCodec Proofs.CachedReadInv
  Proofs.BigWigSection Proofs.C03Image Proofs.BigWigValues Proofs.BigWigFileRoundTrip Proofs.BigWigFileThms Proofs.C03Written.
From Coq Require Import Sorting.Sorted.
From BT Require Properties.C03.
Local Open Scope N_scope.
Check (C03.C03_section_codec : forall l rest, Forall BigWigSection.value_ok l ->
  parse_type1 false (length l) (flat_map value_bytes l ++ rest) = l).
Check (C03.C03_block_decode : forall i cid st en items chrom s e,
  h_big (i_hdr i) = false -> cid < U32 -> st < U32 -> Nlen items < U16 -> Forall BigWigSection.value_ok items ->
  block_values_of i (section_header cid st en (Nlen items) ++ flat_map value_bytes items) chrom s e
  = Ok (if cid =? chrom then Some (clip_filter s e items) else None)).
Check (C03.C03_query_image : forall (infl store : list N -> list N) (b ips : N) (outs : list chrom_out)
    (pre mid post ix : list N) (lv : nat) (i : info) (c : chrom_out) (cn : name) (s e : N),
  let abs := file_ablocks (N.to_nat ips) outs in
  let data := map (ab_sdata store) abs in
  let ixpos := Nlen (pre ++ data_bytes data ++ mid) in
  let bs := pre ++ data_bytes data ++ mid ++ ix ++ post in
  write_index b ips ixpos (place (Nlen pre) data) = Ok (ix, lv) ->
  Nlen bs < U64 ->
  h_big (i_hdr i) = false ->
  (forall x, (if 0 <? h_ubuf (i_hdr i) then infl (store x) else store x) = x) ->
  h_full_index_off (i_hdr i) = ixpos ->
  chrom_id i cn = Ok (co_id c) ->
  2 <= b <= 65535 -> 0 < ips < U16 ->
  ids_increasing outs -> Forall (out_ok ips) outs ->
  In c outs -> co_vals c <> [] ->
  bw_interval infl bs i cn s e = Ok (clip_filter s e (co_vals c))).
Check (C03.C03_query : forall fp o sizes inp bs,
  bw_write fp o sizes inp = Ok bs \/ bw_write_multipass fp o sizes inp = Ok bs ->
  opts_ok o -> input_ok sizes inp -> Nlen bs < U64 ->
  exists i, read_info bs = Ok i /\
    forall infl c vs s e, In (c, vs) (runs inp) -> bw_interval infl bs i c s e = Ok (clip_filter s e vs)).
Check (C03.C03_values : forall fp o sizes inp bs,
  bw_write fp o sizes inp = Ok bs \/ bw_write_multipass fp o sizes inp = Ok bs ->
  opts_ok o -> input_ok sizes inp -> Nlen bs < U64 ->
  exists i, read_info bs = Ok i /\
    forall infl c vs s e, In (c, vs) (runs inp) -> s <= e -> bw_values infl bs i c s e = Ok (spec_values s e vs)).
Check (C03.C03_sorted_clipped : forall len s e vals, wf_vals len vals -> s <= e ->
  let ans := clip_filter s e vals in
  StronglySorted before ans
  /\ Forall (fun a => s <= v_start a /\ v_start a <= v_end a /\ v_end a <= e) ans
  /\ (s < e -> Forall (fun v => v_start v < v_end v) vals -> Forall (fun a => v_start a < v_end a) ans)
  /\ Forall (fun a => exists v, In v vals /\ keep s e v = true /\ a = clip s e v) ans).
Check (C03.C03_values_array : forall len s e vals, wf_vals len vals -> s <= e ->
  fill_values s e (clip_filter s e vals) = spec_values s e vals).
Check (C03.C03_values_pointwise : forall s e vals j, (j < N.to_nat (e - s))%nat ->
  nth_error (spec_values s e vals) j
  = Some (match find (cover (s + N.of_nat j)) vals with Some v => Some (v_bits v) | None => None end)).
Check (C03.C03_cover_unique : forall len vals p v w, wf_vals len vals -> In v vals -> In w vals ->
  cover p v = true -> cover p w = true -> v = w).
Check (C03.C03_step : forall infl bs i c q, cache_ok infl bs i c ->
  fst (qstep infl bs i c q) = fresh_answer infl bs i q /\ cache_ok infl bs i (snd (qstep infl bs i c q))).
Check (C03.C03_block_read_reset : forall infl bs i c b, cache_ok infl bs i c ->
  fst (c_block_data infl i bs c b) = block_data infl i bs b /\ cache_ok infl bs i (snd (c_block_data infl i bs c b))).
Check (C03.C03_cache_bounded : forall infl bs i qs1 qs2,
  cache_small (snd (qrun infl bs i cache0 qs1))
  /\ cache_small (snd (qrun infl bs i (c_reopen (snd (qrun infl bs i cache0 qs1))) qs2))).
Check (C03.C03_reopen : forall infl bs i c, cache_ok infl bs i c -> cache_ok infl bs i (c_reopen c)).
Check (C03.C03_history : forall infl bs i qs1 qs2,
  fst (qrun infl bs i cache0 qs1) = map (fresh_answer infl bs i) qs1
  /\ fst (qrun infl bs i (c_reopen (snd (qrun infl bs i cache0 qs1))) qs2) = map (fresh_answer infl bs i) qs2).
Check (C03.C03_history_written : forall fp o sizes inp bs,
  bw_write fp o sizes inp = Ok bs \/ bw_write_multipass fp o sizes inp = Ok bs ->
  opts_ok o -> input_ok sizes inp -> Nlen bs < U64 ->
  exists i, read_info bs = Ok i /\
  forall infl,
    (forall qs1 qs2,
        fst (qrun infl bs i cache0 qs1) = map (fresh_answer infl bs i) qs1
        /\ fst (qrun infl bs i (c_reopen (snd (qrun infl bs i cache0 qs1))) qs2) = map (fresh_answer infl bs i) qs2)
    /\ (forall c vs s e, In (c, vs) (runs inp) ->
          fresh_answer infl bs i (QInterval c s e) = AInterval (Ok (clip_filter s e vs))
          /\ (s <= e -> fresh_answer infl bs i (QValues c s e) = AValues (Ok (spec_values s e vs))))).

(* ---- compressed files (Model/BigWigWriteZ.v: the compressor is a parameter) ---- *)
From BT Require Import Model.BigWigWriteZ.
Check (eq_refl : bw_write_z = fun cmp fp o => bw_write_zc cmp (o_compress o) fp o).
Check (eq_refl : bw_write_multipass_z = fun cmp fp o => bw_write_multipass_zc cmp (o_compress o) fp o).
Check (C03.C03_query_compressed : forall cmp infl fp o sizes inp bs,
  bw_write_z cmp fp o sizes inp = Ok bs \/ bw_write_multipass_z cmp fp o sizes inp = Ok bs ->
  (o_compress o = true -> forall b, infl (cmp b) = b) ->
  opts_ok o -> input_ok sizes inp -> Nlen bs < U64 ->
  exists i, read_info bs = Ok i /\
    forall c vs s e, In (c, vs) (runs inp) -> bw_interval infl bs i c s e = Ok (clip_filter s e vs)).
Check (C03.C03_values_compressed : forall cmp infl fp o sizes inp bs,
  bw_write_z cmp fp o sizes inp = Ok bs \/ bw_write_multipass_z cmp fp o sizes inp = Ok bs ->
  (o_compress o = true -> forall b, infl (cmp b) = b) ->
  opts_ok o -> input_ok sizes inp -> Nlen bs < U64 ->
  exists i, read_info bs = Ok i /\
    forall c vs s e, In (c, vs) (runs inp) -> s <= e -> bw_values infl bs i c s e = Ok (spec_values s e vs)).
Check (C03.C03_history_written_compressed : forall cmp infl fp o sizes inp bs,
  bw_write_z cmp fp o sizes inp = Ok bs \/ bw_write_multipass_z cmp fp o sizes inp = Ok bs ->
  (o_compress o = true -> forall b, infl (cmp b) = b) ->
  opts_ok o -> input_ok sizes inp -> Nlen bs < U64 ->
  exists i, read_info bs = Ok i /\
    (forall qs1 qs2,
        fst (qrun infl bs i cache0 qs1) = map (fresh_answer infl bs i) qs1
        /\ fst (qrun infl bs i (c_reopen (snd (qrun infl bs i cache0 qs1))) qs2) = map (fresh_answer infl bs i) qs2)
    /\ (forall c vs s e, In (c, vs) (runs inp) ->
          fresh_answer infl bs i (QInterval c s e) = AInterval (Ok (clip_filter s e vs))
          /\ (s <= e -> fresh_answer infl bs i (QValues c s e) = AValues (Ok (spec_values s e vs))))).
