From BT Require Import Base.Util Base.LE Base.Float Generated.Consts Model.RTree Model.BBIFile Model.BigWigWrite
  Model.BBIRead Model.CachedRead Proofs.Chunks Proofs.BigWigQuery Proofs.CachedReadInv.
From BT Require Properties.C03.
Local Open Scope N_scope.
Check (C03.C03_step : forall infl bs i c q, cache_ok infl bs i c ->
  fst (qstep infl bs i c q) = fresh_answer infl bs i q /\ cache_ok infl bs i (snd (qstep infl bs i c q))).
Check (C03.C03_history : forall infl bs i qs1 qs2,
  fst (qrun infl bs i cache0 qs1) = map (fresh_answer infl bs i) qs1
  /\ fst (qrun infl bs i (c_reopen (snd (qrun infl bs i cache0 qs1))) qs2) = map (fresh_answer infl bs i) qs2).
