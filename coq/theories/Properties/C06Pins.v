(* Statement pins for C06: each property theorem is re-checked against the statement recorded here. *)
From BT Require Import Base.Util Base.Float.
From BT Require Model.EntryBedSweep Proofs.BedFile Model.RTree Model.BBIFile Model.BigWigWrite Model.BedSweep Spec.Depth Proofs.DepthStats Proofs.SweepRLE
  Proofs.BedSummary Proofs.BedIeee Proofs.BwSummary Proofs.BwCollect Properties.C06.
From BT Require Model.BBIRead Model.BigBedWrite Model.BBIReadBed Proofs.RTreeCodec Proofs.BigWigFileRoundTrip
  Proofs.BedEndToEnd Proofs.BedZoomFit Proofs.C06FileFloat Proofs.C06FileRead Proofs.C06FileBed Proofs.C06FileIeee.

Module PinC06.
Import Model.EntryBedSweep Proofs.BedFile Model.RTree Model.BBIFile Model.BigWigWrite Model.BedSweep Spec.Depth Proofs.DepthStats Proofs.SweepRLE
  Proofs.BedSummary Proofs.BedIeee Proofs.BwSummary Proofs.BwCollect Properties.C06.
Local Open Scope N_scope.
Check (C06_bw_summary : forall E o sizes input ids outs sum data,
  (E <= 0)%Z -> Forall (fun it => vfin E (snd it)) input ->
  bw_collect exact o sizes input = Ok (ids, outs, sum, data) ->
  let all := map snd input in
  wform E sum (Nlen all) (w_bases all) (w_sum E all) (w_sumsq E all)
        (w_min E all (fval E f64_max)) (w_max E all (fval E f64_min))).
Check (C06_bw_min_of_values : forall E v r, in_range E v ->
  w_min E (v :: r) (fval E f64_max) = w_min E r (fval E (v_val v)) /\
  w_max E (v :: r) (fval E f64_min) = w_max E r (fval E (v_val v))).
Check (C06_sweep_eq_rle_depth : forall U es,
  U <= U32_MAX -> Forall (entry_ok U) es -> starts_sorted es ->
  segs_sorted 0 (sweep_emitted es) /\ Forall (seg_ok U) (sweep_emitted es) /\
  (forall x, x < U32_MAX -> segs_depth (sweep_emitted es) x = depth es x)).
Check (C06_bb_accepted_valid : forall U len es, U <= U32_MAX -> Forall (fun e => e_end e <= U) es ->
  bb_check_chrom len es = Ok tt -> valid_chrom U es).
Check (C06_bb_chrom_summary : forall U es, valid_chrom U es ->
  let d := depth es in let xs := span 0 U in
  sform (bb_chrom_summary exact es) (Nlen es) (st_cov d xs) (st_sum d xs) (st_sumsq d xs) (st_min d xs) (st_max d xs)).
Check (C06_bb_summary : forall U c chroms,
  Forall (valid_chrom U) (c :: chroms) ->
  sform (bb_total_summary exact (c :: chroms))
        (sumN (map c_items (c :: chroms))) (sumN (map (c_cov U) (c :: chroms))) (sumN (map (c_sum U) (c :: chroms)))
        (sumN (map (c_sumsq U) (c :: chroms)))
        (fold_left (fun a es => opt_meet N.min a (c_min U es)) (c :: chroms) None)
        (fold_left (fun a es => opt_meet N.max a (c_max U es)) (c :: chroms) None)).
Check (C06_bb_item_count : forall U c chroms,
  Forall (valid_chrom U) (c :: chroms) ->
  su_items (bb_total_summary exact (c :: chroms)) = sumN (map (fun es => Nlen es) (c :: chroms))).
Check (C06_bb_file_summary : forall U two_pass o sizes input sum levels cs,
  U <= U32_MAX -> Forall (fun it => e_end (snd it) <= U) input ->
  bb_file exact two_pass o sizes input = Ok (sum, levels, cs) ->
  let chroms := map bc_es cs in
  concat chroms = map snd input /\ chroms <> [] /\ Forall (valid_chrom U) chroms /\
  sum = bb_total_summary exact chroms /\ su_items sum = Nlen input).
Check (C06_bb_summary_ieee : forall U c chroms,
  Forall (valid_chrom U) (c :: chroms) -> sumN (map (c_sumsq U) (c :: chroms)) < P53 ->
  bb_total_summary ieee (c :: chroms) = bb_total_summary exact (c :: chroms)).
Check (eq_refl : P53 = 2 ^ 53).
(* the definitions the statements rest on, pinned as well *)
Check (eq_refl : sform = fun s items b su q mn mx =>
  su_items s = items /\ su_bases s = b /\ su_sum s = f_of_N su /\ su_sumsq s = f_of_N q /\
  su_min s = optf mn /\ su_max s = optf mx).
Check (eq_refl : valid_chrom = fun U es => U <= U32_MAX /\ Forall (entry_ok U) es /\ starts_sorted es).
Check (eq_refl : depth = fun es x => Nlen (filter (fun e => covers e x) es)).
(* ---- the reader on the bytes of the written file ---- *)
Check (C06_f64_roundtrip : forall x, C06FileFloat.rep64 x ->
  C06FileFloat.same_num (C06FileFloat.f64_rt x) x /\
  match x with FFin _ _ => fin_ge (-1074) (C06FileFloat.f64_rt x) | _ => C06FileFloat.f64_rt x = x end /\
  bits_of_f64 x < 18446744073709551616).
Check (C06_bw_file_stored : forall fp o sizes inp bs,
  BigWigFileRoundTrip.opts_ok o -> BigWigFileRoundTrip.input_ok sizes inp -> Nlen bs < RTreeCodec.U64 ->
  bw_write fp o sizes inp = Ok bs \/ bw_write_multipass fp o sizes inp = Ok bs ->
  exists ids outs sum data i,
    bw_collect fp o sizes inp = Ok (ids, outs, sum, data) /\ BBIRead.read_info bs = Ok i /\
    BBIRead.read_summary bs i = Ok (C06FileRead.stored (C06FileRead.bw_section_count o inp) sum)).
Check (C06_bw_file_summary : forall E o sizes inp bs,
  (E <= -1074)%Z -> Forall (fun it => vfin E (snd it)) inp ->
  BigWigFileRoundTrip.opts_ok o -> BigWigFileRoundTrip.input_ok sizes inp -> Nlen bs < RTreeCodec.U64 ->
  bw_write exact o sizes inp = Ok bs \/ bw_write_multipass exact o sizes inp = Ok bs ->
  let all := map snd inp in
  C06FileRead.is_f64 E (w_sum E all) -> C06FileRead.is_f64 (E + E) (w_sumsq E all) ->
  exists i s, BBIRead.read_info bs = Ok i /\ BBIRead.read_summary bs i = Ok s /\
    wform E s (C06FileRead.bw_section_count o inp) (w_bases all) (w_sum E all) (w_sumsq E all)
          (w_min E all (fval E f64_max)) (w_max E all (fval E f64_min))).
Check (C06_bw_file_summary_ieee : forall o sizes inp bs,
  BigWigFileRoundTrip.opts_ok o -> BigWigFileRoundTrip.input_ok sizes inp -> Nlen bs < RTreeCodec.U64 ->
  bw_write ieee o sizes inp = Ok bs \/ bw_write_multipass ieee o sizes inp = Ok bs ->
  exists ids outs sum data i s,
    bw_collect ieee o sizes inp = Ok (ids, outs, sum, data) /\ BBIRead.read_info bs = Ok i /\
    BBIRead.read_summary bs i = Ok s /\ C06FileIeee.same_summary s sum (C06FileRead.bw_section_count o inp)).
Check (eq_refl : C06FileIeee.same_summary = fun s w items =>
  su_items s = items /\ su_bases s = su_bases w /\ C06FileFloat.same_num (su_min s) (su_min w) /\ C06FileFloat.same_num (su_max s) (su_max w)
  /\ C06FileFloat.same_num (su_sum s) (su_sum w) /\ C06FileFloat.same_num (su_sumsq s) (su_sumsq w)).
Check (C06_bb_file_summary_read : forall U two_pass fp o sizes autosql input f,
  fp = exact \/ fp = ieee ->
  U <= U32_MAX -> Forall (fun it : BigBedWrite.bitem => BigBedWrite.e_end (snd it) <= U) input ->
  BedZoomFit.bb_write_either two_pass fp o sizes autosql input = Ok f ->
  BedEndToEnd.file_hyps o sizes input f ->
  let chroms := C06FileBed.chroms_of input in
  sumN (map (c_sumsq U) chroms) < P53 ->
  exists i s, BBIRead.read_info f = Ok i /\ BBIRead.read_summary f i = Ok s /\
    BBIReadBed.bb_item_count f i = Ok (Nlen input) /\
    concat chroms = map (fun it => BigBedWrite.to_sw (snd it)) input /\ Forall (valid_chrom U) chroms /\
    C06FileBed.sform_num s (Nlen input) (sumN (map (c_cov U) chroms)) (sumN (map (c_sum U) chroms))
      (sumN (map (c_sumsq U) chroms))
      (fold_left (fun a es => opt_meet N.min a (c_min U es)) chroms None)
      (fold_left (fun a es => opt_meet N.max a (c_max U es)) chroms None)).
Check (C06_bb_file_item_count : forall two_pass fp o sizes autosql input f,
  BedZoomFit.bb_write_either two_pass fp o sizes autosql input = Ok f ->
  BedEndToEnd.file_hyps o sizes input f ->
  exists i, BBIRead.read_info f = Ok i /\ BBIReadBed.bb_item_count f i = Ok (Nlen input)).
(* the definitions the new statements rest on *)
Check (eq_refl : C06FileFloat.f64_rt = fun x => f64_of_bits (bits_of_f64 x)).
Check (eq_refl : C06FileFloat.same_num = fun a b =>
  match a, b with
  | FFin m1 e1, FFin m2 e2 => (m1 * 2 ^ (e1 - Z.min e1 e2) = m2 * 2 ^ (e2 - Z.min e1 e2))%Z
  | FNaN, FNaN => True
  | FInf s, FInf t => s = t
  | _, _ => False
  end).
Check (eq_refl : C06FileFloat.canon64 = fun m e => (Z.abs m < 2 ^ 53 /\ -1074 <= e /\ e + bitlen m <= 1024)%Z).
Check (eq_refl : C06FileFloat.rep64 = fun x =>
  match x with
  | FFin m e => exists m' e', C06FileFloat.canon64 m' e' /\ C06FileFloat.same_num (FFin m e) (FFin m' e')
  | _ => True
  end).
Check (eq_refl : C06FileRead.is_f64 = fun E z => C06FileFloat.rep64 (FFin z E)).
Check (eq_refl : C06FileRead.stored = fun cnt s =>
  {| su_items := cnt; su_bases := su_bases s; su_min := C06FileFloat.f64_rt (su_min s); su_max := C06FileFloat.f64_rt (su_max s);
     su_sum := C06FileFloat.f64_rt (su_sum s); su_sumsq := C06FileFloat.f64_rt (su_sumsq s) |}).
Check (eq_refl : C06FileRead.bw_section_count = fun o inp =>
  sumN (map (fun r => Nlen (chunks (N.to_nat (o_ips o)) (snd r))) (runs inp))).
Check (eq_refl : C06FileBed.chroms_of = fun input => map (fun r => map BigBedWrite.to_sw (snd r)) (BigBedWrite.bruns input)).
Check (eq_refl : C06FileBed.sform_num = fun s items b su q mn mx =>
  su_items s = items /\ su_bases s = b /\ C06FileFloat.same_num (su_sum s) (f_of_N su) /\ C06FileFloat.same_num (su_sumsq s) (f_of_N q) /\
  C06FileFloat.same_num (su_min s) (optf mn) /\ C06FileFloat.same_num (su_max s) (optf mx)).
Check (eq_refl : wform = fun E s items bases su sq mn mx =>
  su_items s = items /\ su_bases s = bases /\
  fin_ge E (su_sum s) /\ fval E (su_sum s) = su /\
  fin_ge (E + E) (su_sumsq s) /\ fval (E + E) (su_sumsq s) = sq /\
  fin_ge E (su_min s) /\ fval E (su_min s) = mn /\ fin_ge E (su_max s) /\ fval E (su_max s) = mx)%Z.
End PinC06.

(* ---- IEEE = exact on a checkable domain (appended; Proofs/FloatExact.v) ---- *)
From BT Require Proofs.FloatExact.
Module PinC06Float.
Import Model.RTree Model.BBIFile Model.BigWigWrite Proofs.BwSummary Proofs.BwCollect Proofs.C06FileFloat Proofs.FloatExact Properties.C06.
Local Open Scope Z_scope.
Check (C06_fadd_ieee_exact : forall x y, rep64 (fadd64 exact x y) -> same_num (fadd64 ieee x y) (fadd64 exact x y)).
Check (C06_fmul_ieee_exact : forall x y, rep64 (fmul64 exact x y) -> same_num (fmul64 ieee x y) (fmul64 exact x y)).
Check (C06_to_f32_ieee_exact : forall x, rep32 x -> same_num (to_f32 ieee x) x /\ to_f32 exact x = x).
Check (C06_grid_fadd_ieee : forall E G B1 B2 x y, E <= 0 -> E <= G -> -1074 <= G <= 971 -> B1 + B2 < FloatExact.P53 ->
  grid E G B1 x -> grid E G B2 y ->
  grid E G (B1 + B2) (fadd64 ieee x y) /\ grid E G (B1 + B2) (fadd64 exact x y) /\
  same_num (fadd64 ieee x y) (fadd64 exact x y)).
Check (C06_grid_fmul_ieee : forall E1 G1 E2 G2 B1 B2 x y,
  E1 <= G1 -> E2 <= G2 -> E1 + E2 <= 0 -> -1074 <= G1 + G2 <= 971 -> 0 <= B1 -> B1 * B2 < FloatExact.P53 ->
  grid E1 G1 B1 x -> grid E2 G2 B2 y ->
  grid (E1 + E2) (G1 + G2) (B1 * B2) (fmul64 ieee x y) /\ grid (E1 + E2) (G1 + G2) (B1 * B2) (fmul64 exact x y) /\
  same_num (fmul64 ieee x y) (fmul64 exact x y)).
Check (C06_fold_sum_ieee_exact : forall (T : Type) (len : T -> N) (val : T -> fl) E G l, grid_ok_sum E G ->
  Forall (fun t => on_grid E G (val t)) l -> kabs len (fun t => gk E G (val t)) l < FloatExact.P53 ->
  let k := ksum len (fun t => gk E G (val t)) l in
  gval E G (fold_left (step_sum len val ieee) l fzero) k /\ gval E G (fold_left (step_sum len val exact) l fzero) k /\
  same_num (fold_left (step_sum len val ieee) l fzero) (fold_left (step_sum len val exact) l fzero)).
Check (C06_fold_sq_ieee_exact : forall (T : Type) (len : T -> N) (val : T -> fl) E G l, grid_ok E G ->
  Forall (fun t => on_grid E G (val t)) l -> ksq len (fun t => gk E G (val t)) l < FloatExact.P53 ->
  let k := ksq len (fun t => gk E G (val t)) l in
  gval (E + E) (G + G) (fold_left (step_sq len val ieee) l fzero) k /\
  gval (E + E) (G + G) (fold_left (step_sq len val exact) l fzero) k /\
  same_num (fold_left (step_sq len val ieee) l fzero) (fold_left (step_sq len val exact) l fzero)).
Check (C06_in_exact_domain_hyps : forall vs, in_exact_domain vs = true ->
  grid_ok dom_E dom_G /\ Forall (vgrid dom_E dom_G) vs /\ gabs dom_E dom_G vs < FloatExact.P53 /\ gsq dom_E dom_G vs < FloatExact.P53).
Check (C06_bw_summary_ieee_exact_on_grid : forall E G o sizes input ids outs sum data, grid_ok E G ->
  let all := map snd input in
  Forall (vgrid E G) all -> gabs E G all < FloatExact.P53 -> gsq E G all < FloatExact.P53 ->
  bw_collect ieee o sizes input = Ok (ids, outs, sum, data) ->
  wform E sum (Nlen all) (w_bases all) (w_sum E all) (w_sumsq E all)
        (w_min E all (fval E f64_max)) (w_max E all (fval E f64_min)) /\
  exists sum_e, bw_collect exact o sizes input = Ok (ids, outs, sum_e, data) /\
    su_items sum = su_items sum_e /\ su_bases sum = su_bases sum_e /\ su_min sum = su_min sum_e /\ su_max sum = su_max sum_e /\
    same_num (su_sum sum) (su_sum sum_e) /\ same_num (su_sumsq sum) (su_sumsq sum_e)).
Check (C06_bw_summary_ieee_in_domain : forall o sizes input ids outs sum data,
  let all := map snd input in
  in_exact_domain all = true ->
  bw_collect ieee o sizes input = Ok (ids, outs, sum, data) ->
  wform dom_E sum (Nlen all) (w_bases all) (w_sum dom_E all) (w_sumsq dom_E all)
        (w_min dom_E all (fval dom_E f64_max)) (w_max dom_E all (fval dom_E f64_min)) /\
  exists sum_e, bw_collect exact o sizes input = Ok (ids, outs, sum_e, data) /\
    su_items sum = su_items sum_e /\ su_bases sum = su_bases sum_e /\ su_min sum = su_min sum_e /\ su_max sum = su_max sum_e /\
    same_num (su_sum sum) (su_sum sum_e) /\ same_num (su_sumsq sum) (su_sumsq sum_e)).
(* the definitions the statements are made of *)
Check (eq_refl : FloatExact.P53 = 2 ^ 53).
Check (eq_refl : canonP = fun prec emin emax m e => Z.abs m < 2 ^ prec /\ emin <= e /\ e + bitlen m <= emax).
Check (eq_refl : repP = fun prec emin emax x =>
  match x with
  | FFin m e => exists m' e', canonP prec emin emax m' e' /\ same_num (FFin m e) (FFin m' e')
  | _ => True
  end).
Check (eq_refl : rep32 = repP 24 (-149) 128).
Check (eq_refl : fval = fun E a => match a with FFin m e => m * 2 ^ (e - E) | _ => 0 end).
Check (eq_refl : fin_ge = fun E a => match a with FFin _ e => E <= e | _ => False end).
Check (eq_refl : gval = fun E G x k => fin_ge E x /\ fval E x = k * 2 ^ (G - E)).
Check (eq_refl : on_grid = fun E G x => fin_ge E x /\ fval E x mod 2 ^ (G - E) = 0).
Check (eq_refl : gk = fun E G x => fval E x / 2 ^ (G - E)).
Check (eq_refl : grid = fun E G B x => on_grid E G x /\ Z.abs (gk E G x) <= B).
Check (eq_refl : grid_ok_sum = fun E G => E <= 0 /\ E <= G /\ -1074 <= G <= 971).
Check (eq_refl : grid_ok = fun E G => E <= 0 /\ E <= G /\ -537 <= G <= 485).
Check (eq_refl : @step_sum = fun T len val fp a t => fadd64 fp a (fmul64 fp (f_of_N (len t)) (val t))).
Check (eq_refl : @step_sq = fun T len val fp a t => fadd64 fp a (fmul64 fp (fmul64 fp (f_of_N (len t)) (val t)) (val t))).
Check (eq_refl : @ksum = fun T len kv l => zsum (map (fun t => Z.of_N (len t) * kv t) l)).
Check (eq_refl : @kabs = fun T len kv l => zsum (map (fun t => Z.of_N (len t) * Z.abs (kv t)) l)).
Check (eq_refl : @ksq = fun T len kv l => zsum (map (fun t => Z.of_N (len t) * kv t * kv t) l)).
Check (eq_refl : zsum = fun l => fold_right Z.add 0 l).
Check (eq_refl : vlenN = fun v => (v_end v - v_start v)%N).
Check (eq_refl : vgrid = fun E G v => on_grid E G (v_val v)).
Check (eq_refl : vk = fun E G v => gk E G (v_val v)).
Check (eq_refl : gsum = fun E G vs => ksum vlenN (vk E G) vs).
Check (eq_refl : gabs = fun E G vs => kabs vlenN (vk E G) vs).
Check (eq_refl : gsq = fun E G vs => ksq vlenN (vk E G) vs).
Check (eq_refl : dom_E = -149).
Check (eq_refl : dom_G = -3).
Check (eq_refl : val_in_domain = fun x =>
  match x with
  | FFin m e => (dom_E <=? e) && (fval dom_E x mod 2 ^ (dom_G - dom_E) =? 0) && (Z.abs (fval dom_E x) <=? 8192 * 2 ^ (dom_G - dom_E))
  | _ => false
  end).
Check (eq_refl : in_exact_domain = fun vs =>
  forallb (fun v => val_in_domain (v_val v)) vs && (Z.of_N (sumN (map vlenN vs)) <? 2 ^ 24)).
End PinC06Float.
