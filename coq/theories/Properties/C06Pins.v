(* Statement pins for C06: each property theorem is re-checked against the statement recorded here. *)
From BT Require Import Base.Util Base.Float.
From BT Require Model.EntryBedSweep Proofs.BedFile Model.RTree Model.BBIFile Model.BigWigWrite Model.BedSweep Spec.Depth Proofs.DepthStats Proofs.SweepRLE
  Proofs.BedSummary Proofs.BedIeee Proofs.BwSummary Proofs.BwCollect Properties.C06.

Module PinC06.
Import Model.EntryBedSweep Proofs.BedFile Model.RTree Model.BBIFile Model.BigWigWrite Model.BedSweep Spec.Depth Proofs.DepthStats Proofs.SweepRLE
  Proofs.BedSummary Proofs.BedIeee Proofs.BwSummary Proofs.BwCollect Properties.C06.
Local Open Scope N_scope.
Check (C06_bw_summary : forall E o sizes input ids outs sum data,
  (E <= 0)%Z -> Forall (fun it => vfin E (snd it)) input ->
  bw_collect exact o sizes input = Ok (ids, outs, sum, data) ->
  let all := map snd input in
  wform E sum (Nlen all) (w_bases all) (w_sum E all) (w_sumsq E all)
        (w_min E all (fval E f64_max)) (w_max E all (fval E f64_min))).
Check (C06_bw_min_of_values : forall E v r, in_range E v ->
  w_min E (v :: r) (fval E f64_max) = w_min E r (fval E (v_val v)) /\
  w_max E (v :: r) (fval E f64_min) = w_max E r (fval E (v_val v))).
Check (C06_sweep_eq_rle_depth : forall U es,
  U <= U32_MAX -> Forall (entry_ok U) es -> starts_sorted es ->
  segs_sorted 0 (sweep_emitted es) /\ Forall (seg_ok U) (sweep_emitted es) /\
  (forall x, x < U32_MAX -> segs_depth (sweep_emitted es) x = depth es x)).
Check (C06_bb_accepted_valid : forall U len es, U <= U32_MAX -> Forall (fun e => e_end e <= U) es ->
  bb_check_chrom len es = Ok tt -> valid_chrom U es).
Check (C06_bb_chrom_summary : forall U es, valid_chrom U es ->
  let d := depth es in let xs := span 0 U in
  sform (bb_chrom_summary exact es) (Nlen es) (st_cov d xs) (st_sum d xs) (st_sumsq d xs) (st_min d xs) (st_max d xs)).
Check (C06_bb_summary : forall U c chroms,
  Forall (valid_chrom U) (c :: chroms) ->
  sform (bb_total_summary exact (c :: chroms))
        (sumN (map c_items (c :: chroms))) (sumN (map (c_cov U) (c :: chroms))) (sumN (map (c_sum U) (c :: chroms)))
        (sumN (map (c_sumsq U) (c :: chroms)))
        (fold_left (fun a es => opt_meet N.min a (c_min U es)) (c :: chroms) None)
        (fold_left (fun a es => opt_meet N.max a (c_max U es)) (c :: chroms) None)).
Check (C06_bb_item_count : forall U c chroms,
  Forall (valid_chrom U) (c :: chroms) ->
  su_items (bb_total_summary exact (c :: chroms)) = sumN (map (fun es => Nlen es) (c :: chroms))).
Check (C06_bb_file_summary : forall U two_pass o sizes input sum levels cs,
  U <= U32_MAX -> Forall (fun it => e_end (snd it) <= U) input ->
  bb_file exact two_pass o sizes input = Ok (sum, levels, cs) ->
  let chroms := map bc_es cs in
  concat chroms = map snd input /\ chroms <> [] /\ Forall (valid_chrom U) chroms /\
  sum = bb_total_summary exact chroms /\ su_items sum = Nlen input).
Check (C06_bb_summary_ieee : forall U c chroms,
  Forall (valid_chrom U) (c :: chroms) -> sumN (map (c_sumsq U) (c :: chroms)) < P53 ->
  bb_total_summary ieee (c :: chroms) = bb_total_summary exact (c :: chroms)).
Check (eq_refl : P53 = 2 ^ 53).
(* the definitions the statements rest on, pinned as well *)
Check (eq_refl : sform = fun s items b su q mn mx =>
  su_items s = items /\ su_bases s = b /\ su_sum s = f_of_N su /\ su_sumsq s = f_of_N q /\
  su_min s = optf mn /\ su_max s = optf mx).
Check (eq_refl : valid_chrom = fun U es => U <= U32_MAX /\ Forall (entry_ok U) es /\ starts_sorted es).
Check (eq_refl : depth = fun es x => Nlen (filter (fun e => covers e x) es)).
End PinC06.
