(* C06 — whole-file summary statistics equal the statistics of the written data.
   Only statements, closed by [exact], with Print Assumptions beneath each.
   Arithmetic: the models are evaluated under an [fpmode]; the theorems are about [exact] (no rounding),
   the correspondence check runs [ieee] against the implementation bit for bit (DESIGN.md 3.2). *)
From BT Require Import Base.Util Base.Float Model.RTree Model.BBIFile Model.BigWigWrite Model.BedSweep Spec.Depth Model.EntryBedSweep Proofs.BedFile
  Proofs.DepthStats Proofs.SweepRLE Proofs.BedSummary Proofs.BedIeee Proofs.BwSummary Proofs.BwCollect.
(* the reader on the bytes of the written file (C01 / C02 whole-file developments): used qualified, the
   bigBed writer model has its own [entry] / [bchrom] *)
From BT Require Model.BBIRead Model.BigBedWrite Model.BBIReadBed Proofs.RTreeCodec Proofs.BigWigFileRoundTrip
  Proofs.BedEndToEnd Proofs.BedZoomFit Proofs.C06FileFloat Proofs.C06FileRead Proofs.C06FileBed Proofs.C06FileIeee.
Local Open Scope N_scope.

(* ---- bigWig ----
   For every accepted input (bw_collect returns) whose values are finite dyadics m*2^e with e >= E
   (any E <= 0 below every exponent: the unit 2^E makes all quantities whole numbers), the summary
   handed to the writer denotes: number of values, bases = sum of lengths, sum = sum of len*val,
   sumsq = sum of len*val^2 (in units 2^E resp. 2^(2E)), min/max = the least / largest value folded from
   +-f64::MAX; over all chromosomes at once: the per-chromosome accumulation and the `advance` fold
   together equal one fold over the input stream. *)
Theorem C06_bw_summary : forall E o sizes input ids outs sum data,
  (E <= 0)%Z -> Forall (fun it => vfin E (snd it)) input ->
  bw_collect exact o sizes input = Ok (ids, outs, sum, data) ->
  let all := map snd input in
  wform E sum (Nlen all) (w_bases all) (w_sum E all) (w_sumsq E all)
        (w_min E all (fval E f64_max)) (w_max E all (fval E f64_min)).
Proof. exact bw_collect_summary. Qed.
Print Assumptions C06_bw_summary.

(* every value within +-f64::MAX (all f32 are): the extremes are those of the values themselves *)
Theorem C06_bw_min_of_values : forall E v r, in_range E v ->
  w_min E (v :: r) (fval E f64_max) = w_min E r (fval E (v_val v)) /\
  w_max E (v :: r) (fval E f64_min) = w_max E r (fval E (v_val v)).
Proof. intros E v r H. split; [apply w_min_in_range | apply w_max_in_range]; exact H. Qed.
Print Assumptions C06_bw_min_of_values.

(* ---- bigBed ----
   The sweep emits the run-length encoding of the coverage depth (shared with C08). *)
Theorem C06_sweep_eq_rle_depth : forall U es,
  U <= U32_MAX -> Forall (entry_ok U) es -> starts_sorted es ->
  segs_sorted 0 (sweep_emitted es) /\ Forall (seg_ok U) (sweep_emitted es) /\
  (forall x, x < U32_MAX -> segs_depth (sweep_emitted es) x = depth es x).
Proof. exact sweep_eq_rle_depth. Qed.
Print Assumptions C06_sweep_eq_rle_depth.

(* what the writer accepts is what the sweep theorem needs (entry ends are u32: <= U <= 2^32-1) *)
Theorem C06_bb_accepted_valid : forall U len es, U <= U32_MAX -> Forall (fun e => e_end e <= U) es ->
  bb_check_chrom len es = Ok tt -> valid_chrom U es.
Proof. exact accepted_valid. Qed.
Print Assumptions C06_bb_accepted_valid.

(* one chromosome: items = number of entries; bases = #{x < U | depth x > 0} (each covered base once);
   sum = sum of depth; sumsq = sum of depth^2; min / max over the covered bases (NaN when none) *)
Theorem C06_bb_chrom_summary : forall U es, valid_chrom U es ->
  let d := depth es in let xs := span 0 U in
  sform (bb_chrom_summary exact es) (Nlen es) (st_cov d xs) (st_sum d xs) (st_sumsq d xs) (st_min d xs) (st_max d xs).
Proof. exact bb_chrom_summary_spec. Qed.
Print Assumptions C06_bb_chrom_summary.

(* the file: any non-empty list of accepted chromosomes *)
Theorem C06_bb_summary : forall U c chroms,
  Forall (valid_chrom U) (c :: chroms) ->
  sform (bb_total_summary exact (c :: chroms))
        (sumN (map c_items (c :: chroms))) (sumN (map (c_cov U) (c :: chroms))) (sumN (map (c_sum U) (c :: chroms)))
        (sumN (map (c_sumsq U) (c :: chroms)))
        (fold_left (fun a es => opt_meet N.min a (c_min U es)) (c :: chroms) None)
        (fold_left (fun a es => opt_meet N.max a (c_max U es)) (c :: chroms) None).
Proof. exact bb_total_summary_spec. Qed.
Print Assumptions C06_bb_summary.

Theorem C06_bb_item_count : forall U c chroms,
  Forall (valid_chrom U) (c :: chroms) ->
  su_items (bb_total_summary exact (c :: chroms)) = sumN (map (fun es => Nlen es) (c :: chroms)).
Proof. intros U c chroms H. exact (proj1 (bb_total_summary_spec U c chroms H)). Qed.
Print Assumptions C06_bb_item_count.

(* File level: for an accepted input the summary the file-level model reports is bb_total_summary over the
   chromosome runs of the input; the runs concatenate to the input, each passed the writer's checks
   (so C06_bb_summary applies to them) and the item count is the number of input entries. *)
Theorem C06_bb_file_summary : forall U two_pass o sizes input sum levels cs,
  U <= U32_MAX -> Forall (fun it => e_end (snd it) <= U) input ->
  bb_file exact two_pass o sizes input = Ok (sum, levels, cs) ->
  let chroms := map bc_es cs in
  concat chroms = map snd input /\ chroms <> [] /\ Forall (valid_chrom U) chroms /\
  sum = bb_total_summary exact chroms /\ su_items sum = Nlen input.
Proof. exact bb_file_summary. Qed.
Print Assumptions C06_bb_file_summary.

(* The IEEE-754 instance of the model (binary64, round to nearest even: the instance that is compared
   bit for bit with the implementation on every run) computes exactly what the exact instance computes
   as long as the sum of squared depths of the file stays below 2^53; with C06_bb_summary: the summary
   the IEEE model writes IS the per-base statistics of the depth. *)
Theorem C06_bb_summary_ieee : forall U c chroms,
  Forall (valid_chrom U) (c :: chroms) -> sumN (map (c_sumsq U) (c :: chroms)) < P53 ->
  bb_total_summary ieee (c :: chroms) = bb_total_summary exact (c :: chroms).
Proof. exact bb_total_summary_ieee. Qed.
Print Assumptions C06_bb_summary_ieee.

(* ---- non-vacuity ---- *)
Definition ent (s e : N) : entry := {| e_start := s; e_end := e; e_rest := [] |}.
(* chromosome 1: partly overlapping, nested, identical and zero-length entries (the witnesses of the
   repaired defects D3 and D13); chromosome 2: only a zero-length entry *)
Definition ex_c1 := [ent 0 10; ent 0 10; ent 5 5; ent 5 15; ent 20 22].
Definition ex_c2 := [ent 5 5].
Example C06_example_bb_hyps :
  Forall (valid_chrom 30) [ex_c1; ex_c2] /\ bb_check_chrom 30 ex_c1 = Ok tt /\
  sform (bb_total_summary exact [ex_c1; ex_c2]) 6 17 32 72 (Some 1) (Some 3).
Proof.
  split; [|split].
  - repeat constructor; unfold U32_MAX, entry_ok; cbn; lia.
  - reflexivity.
  - vm_compute. repeat split.
Qed.
Example C06_example_bb_ieee :
  sumN (map (c_sumsq 30) [ex_c1; ex_c2]) < P53 /\ bb_total_summary ieee [ex_c1; ex_c2] = bb_total_summary exact [ex_c1; ex_c2].
Proof. split; vm_compute; reflexivity. Qed.
(* the depth by hand: [0,5) 2, [5,10) 3, [10,15) 1, [20,22) 1 -> 17 bases, sum 32, sumsq 72 (the sweep also emits the empty segment [5,5) with phantom depth 4, which is ignored) *)
Example C06_example_bb_spec :
  (sumN (map (c_cov 30) [ex_c1; ex_c2]), sumN (map (c_sum 30) [ex_c1; ex_c2]), sumN (map (c_sumsq 30) [ex_c1; ex_c2])) = (17, 32, 72).
Proof. vm_compute. reflexivity. Qed.

(* bigWig: 1.0 = 0x3F800000 = 2^23 * 2^-23, 0.5 = 0x3F000000, -2.5 = 0xC0200000; unit 2^-24 *)
Definition ex_bw_input : list item :=
  [([99; 104; 114; 49], {| v_start := 0; v_end := 10; v_bits := 1065353216 |});
   ([99; 104; 114; 49], {| v_start := 10; v_end := 14; v_bits := 1056964608 |});
   ([99; 104; 114; 50], {| v_start := 3; v_end := 5; v_bits := 3223322624 |})].
Definition ex_bw_opts : opts :=
  {| o_compress := false; o_ips := 2; o_bs := 256; o_izoom := 10; o_maxzooms := 2; o_manual := None; o_sort_all := true |}.
Example C06_example_bw_hyps :
  Forall (fun it => vfin (-24) (snd it)) ex_bw_input /\
  Forall (fun it => in_range (-24) (snd it)) ex_bw_input /\
  exists ids outs sum data,
    bw_collect exact ex_bw_opts [([99; 104; 114; 49], 20); ([99; 104; 114; 50], 20)] ex_bw_input = Ok (ids, outs, sum, data) /\
    su_bases sum = 16 /\ fval (-24) (su_sum sum) = (7 * 2 ^ 24)%Z.
Proof.
  split; [|split].
  - repeat constructor; vm_compute; discriminate.
  - repeat constructor; vm_compute; discriminate.
  - do 4 eexists. split; [vm_compute; reflexivity|]. split; vm_compute; reflexivity.
Qed.

(* ================= the last link: the READER on the BYTES of the written file =================
   write_info patches the summary block (bases u64, min, max, sum, sum of squares as f64 bit patterns)
   at the header's summary offset and a u64 count at the data offset; get_summary / item_count read
   them back.  [C06FileRead.stored cnt s] is what the reader returns: count and bases verbatim, each
   statistic through f64_of_bits (bits_of_f64 _). *)

(* the binary64 field codec: a value that is a binary64 number (in whatever mantissa/exponent pair the
   model carries it) comes back denoting the same number, with exponent >= -1074; NaN and the
   infinities come back as themselves; every pattern fits the 8-byte field *)
Theorem C06_f64_roundtrip : forall x, C06FileFloat.rep64 x ->
  C06FileFloat.same_num (C06FileFloat.f64_rt x) x /\
  match x with FFin _ _ => fin_ge (-1074) (C06FileFloat.f64_rt x) | _ => C06FileFloat.f64_rt x = x end /\
  bits_of_f64 x < 18446744073709551616.
Proof. exact C06FileFloat.f64_roundtrip. Qed.
Print Assumptions C06_f64_roundtrip.

(* bigWig, every rounding mode, both writers, every accepted input (hypotheses = C01's): read_info
   succeeds on the bytes and get_summary returns the stored form of the summary bw_collect folded
   (the one C06_bw_summary is about), with su_items = the number of data sections (what bigWig keeps
   in the count slot) *)
Theorem C06_bw_file_stored : forall fp o sizes inp bs,
  BigWigFileRoundTrip.opts_ok o -> BigWigFileRoundTrip.input_ok sizes inp -> Nlen bs < RTreeCodec.U64 ->
  bw_write fp o sizes inp = Ok bs \/ bw_write_multipass fp o sizes inp = Ok bs ->
  exists ids outs sum data i,
    bw_collect fp o sizes inp = Ok (ids, outs, sum, data) /\ BBIRead.read_info bs = Ok i /\
    BBIRead.read_summary bs i = Ok (C06FileRead.stored (C06FileRead.bw_section_count o inp) sum).
Proof. exact C06FileRead.bw_file_stored. Qed.
Print Assumptions C06_bw_file_stored.

(* bigWig end to end, exact arithmetic: values finite dyadics in units 2^E (E <= -1074 is below the
   exponent of every binary32 and binary64, so this is no restriction on the values); if the exact sum
   and sum of squares are binary64 numbers at all, the summary the READER reports on the written bytes
   denotes: bases = sum of lengths, sum = sum len*val, sumsq = sum len*val^2, min / max = the least /
   largest value folded from +-f64::MAX (C06_bw_min_of_values), items = number of data sections.
   (The extremes need no hypothesis: they are stored values, every binary32 is a binary64.) *)
Theorem C06_bw_file_summary : forall E o sizes inp bs,
  (E <= -1074)%Z -> Forall (fun it => vfin E (snd it)) inp ->
  BigWigFileRoundTrip.opts_ok o -> BigWigFileRoundTrip.input_ok sizes inp -> Nlen bs < RTreeCodec.U64 ->
  bw_write exact o sizes inp = Ok bs \/ bw_write_multipass exact o sizes inp = Ok bs ->
  let all := map snd inp in
  C06FileRead.is_f64 E (w_sum E all) -> C06FileRead.is_f64 (E + E) (w_sumsq E all) ->
  exists i s, BBIRead.read_info bs = Ok i /\ BBIRead.read_summary bs i = Ok s /\
    wform E s (C06FileRead.bw_section_count o inp) (w_bases all) (w_sum E all) (w_sumsq E all)
          (w_min E all (fval E f64_max)) (w_max E all (fval E f64_min)).
Proof. exact C06FileRead.bw_file_summary. Qed.
Print Assumptions C06_bw_file_summary.

(* bigWig in the IEEE-754 instance (binary64 round-to-nearest-even: the instance compared bit for bit
   with the implementation on every run), NO hypothesis on the values: every statistic the writer folds
   is the result of a binary64 rounding, a stored binary32, +-f64::MAX or zero, so the field codec loses
   nothing and the summary the reader reports on the written bytes denotes, field by field, the summary
   that was handed to the writer (bases and section count verbatim) *)
Theorem C06_bw_file_summary_ieee : forall o sizes inp bs,
  BigWigFileRoundTrip.opts_ok o -> BigWigFileRoundTrip.input_ok sizes inp -> Nlen bs < RTreeCodec.U64 ->
  bw_write ieee o sizes inp = Ok bs \/ bw_write_multipass ieee o sizes inp = Ok bs ->
  exists ids outs sum data i s,
    bw_collect ieee o sizes inp = Ok (ids, outs, sum, data) /\ BBIRead.read_info bs = Ok i /\
    BBIRead.read_summary bs i = Ok s /\ C06FileIeee.same_summary s sum (C06FileRead.bw_section_count o inp).
Proof. exact C06FileIeee.bw_file_summary_ieee. Qed.
Print Assumptions C06_bw_file_summary_ieee.

(* bigBed end to end, both writers (bb_write / bb_write_multipass of Model/BigBedWrite.v, the byte-exact
   writer model of C02), exact and IEEE arithmetic, hypotheses of C02's whole-file theorem: on the
   bytes of the written file read_info succeeds, item_count is the number of input entries, and the
   summary the READER reports is the per-base statistics of the coverage depth of the input: the
   chromosome runs concatenate to the input, each is valid for the sweep theorems, bases = number of
   covered bases (each once), sum = sum of depth, sumsq = sum of depth^2, min / max over covered bases
   (NaN when none), as numbers -- provided the sum of squared depths is below 2^53 (all fields then
   are binary64 numbers; C06_bb_summary_ieee's bound) *)
Theorem C06_bb_file_summary_read : forall U two_pass fp o sizes autosql input f,
  fp = exact \/ fp = ieee ->
  U <= U32_MAX -> Forall (fun it : BigBedWrite.bitem => BigBedWrite.e_end (snd it) <= U) input ->
  BedZoomFit.bb_write_either two_pass fp o sizes autosql input = Ok f ->
  BedEndToEnd.file_hyps o sizes input f ->
  let chroms := C06FileBed.chroms_of input in
  sumN (map (c_sumsq U) chroms) < P53 ->
  exists i s, BBIRead.read_info f = Ok i /\ BBIRead.read_summary f i = Ok s /\
    BBIReadBed.bb_item_count f i = Ok (Nlen input) /\
    concat chroms = map (fun it => BigBedWrite.to_sw (snd it)) input /\ Forall (valid_chrom U) chroms /\
    C06FileBed.sform_num s (Nlen input) (sumN (map (c_cov U) chroms)) (sumN (map (c_sum U) chroms))
      (sumN (map (c_sumsq U) chroms))
      (fold_left (fun a es => opt_meet N.min a (c_min U es)) chroms None)
      (fold_left (fun a es => opt_meet N.max a (c_max U es)) chroms None).
Proof. exact C06FileBed.bb_file_summary_read. Qed.
Print Assumptions C06_bb_file_summary_read.

(* the item count alone: every rounding mode, no condition on the depths (C02_written_file_roundtrip) *)
Theorem C06_bb_file_item_count : forall two_pass fp o sizes autosql input f,
  BedZoomFit.bb_write_either two_pass fp o sizes autosql input = Ok f ->
  BedEndToEnd.file_hyps o sizes input f ->
  exists i, BBIRead.read_info f = Ok i /\ BBIReadBed.bb_item_count f i = Ok (Nlen input).
Proof. exact C06FileBed.bb_file_item_count. Qed.
Print Assumptions C06_bb_file_item_count.

(* ---- non-vacuity of the file-level theorems: small concrete files, computed ---- *)
Definition ex_bw_sizes : list (name * N) := [([99; 104; 114; 49], 20); ([99; 104; 114; 50], 20)].
(* hypotheses of C06_bw_file_summary on ex_bw_input (1.0 on [0,10), 0.5 on [10,14), -2.5 on [3,5) of chr2):
   sum = 10 + 2 - 5 = 7, sumsq = 10 + 1 + 12.5 = 23.5 = 47 * 2^-1 *)
Example C06_example_bw_file_hyps :
  BigWigFileRoundTrip.opts_ok ex_bw_opts /\ BigWigFileRoundTrip.input_ok ex_bw_sizes ex_bw_input /\
  Forall (fun it => vfin (-1074) (snd it)) ex_bw_input /\
  C06FileRead.is_f64 (-1074) (w_sum (-1074) (map snd ex_bw_input)) /\
  C06FileRead.is_f64 (-1074 + -1074) (w_sumsq (-1074) (map snd ex_bw_input)) /\
  (exists bs, bw_write exact ex_bw_opts ex_bw_sizes ex_bw_input = Ok bs /\ Nlen bs < RTreeCodec.U64) /\
  (exists bs, bw_write_multipass exact ex_bw_opts ex_bw_sizes ex_bw_input = Ok bs /\ Nlen bs < RTreeCodec.U64).
Proof.
  split; [unfold BigWigFileRoundTrip.opts_ok; cbn; lia|]. split.
  { unfold BigWigFileRoundTrip.input_ok.
    assert (Hr : runs ex_bw_input = [([99; 104; 114; 49], map snd (firstn 2 ex_bw_input)); ([99; 104; 114; 50], map snd (skipn 2 ex_bw_input))]) by reflexivity.
    rewrite Hr. cbn [map fst].
    split; [repeat constructor; try discriminate; reflexivity|]. split; [reflexivity|].
    split; [unfold ex_bw_sizes; repeat constructor|unfold ex_bw_input; repeat constructor]. }
  split; [repeat constructor; vm_compute; discriminate|].
  split; [apply (C06FileRead.is_f64_intro _ _ 7 0); [vm_compute; repeat split; discriminate|lia|vm_compute; reflexivity]|].
  split; [apply (C06FileRead.is_f64_intro _ _ 47 (-1)); [vm_compute; repeat split; discriminate|lia|vm_compute; reflexivity]|].
  split; eexists; (split; [vm_compute; reflexivity|reflexivity]).
Qed.
(* the reader run on the computed bytes (both writers): 2 sections, 16 bases, min -2.5, max 1, sum 7, sumsq 23.5 *)
Example C06_example_bw_file_run :
  let check w :=
    match w with
    | Ok bs => match BBIRead.read_info bs with
               | Ok i => match BBIRead.read_summary bs i with
                         | Ok s => su_items s = 2 /\ su_bases s = 16 /\
                                   C06FileFloat.same_num (su_min s) (FFin (-5) (-1)) /\ C06FileFloat.same_num (su_max s) (FFin 1 0) /\
                                   C06FileFloat.same_num (su_sum s) (FFin 7 0) /\ C06FileFloat.same_num (su_sumsq s) (FFin 47 (-1))
                         | _ => False end
               | _ => False end
    | _ => False end in
  check (bw_write exact ex_bw_opts ex_bw_sizes ex_bw_input) /\ check (bw_write_multipass exact ex_bw_opts ex_bw_sizes ex_bw_input).
Proof. vm_compute. repeat split. Qed.

(* bigBed: the entries of C06_example_bb_hyps (D3 / D13 witnesses inside) as a bigBed input *)
Definition bent (c : name) (s e : N) : BigBedWrite.bitem :=
  (c, {| BigBedWrite.e_start := s; BigBedWrite.e_end := e; BigBedWrite.e_rest := [] |}).
Definition ex_bb_c1 : name := [99; 104; 114; 49].
Definition ex_bb_c2 : name := [99; 104; 114; 50].
Definition ex_bb_input : list BigBedWrite.bitem :=
  [bent ex_bb_c1 0 10; bent ex_bb_c1 0 10; bent ex_bb_c1 5 5; bent ex_bb_c1 5 15; bent ex_bb_c1 20 22; bent ex_bb_c2 5 5].
Definition ex_bb_sizes : list (name * N) := [(ex_bb_c1, 30); (ex_bb_c2, 30)].
Example C06_example_bb_file_hyps :
  C06FileBed.chroms_of ex_bb_input = [ex_c1; ex_c2] /\
  Forall (fun it : BigBedWrite.bitem => BigBedWrite.e_end (snd it) <= 30) ex_bb_input /\
  sumN (map (c_sumsq 30) (C06FileBed.chroms_of ex_bb_input)) < P53 /\
  (exists f, BedZoomFit.bb_write_either false exact ex_bw_opts ex_bb_sizes None ex_bb_input = Ok f /\
             BedEndToEnd.file_hyps ex_bw_opts ex_bb_sizes ex_bb_input f) /\
  (exists f, BedZoomFit.bb_write_either true ieee ex_bw_opts ex_bb_sizes None ex_bb_input = Ok f /\
             BedEndToEnd.file_hyps ex_bw_opts ex_bb_sizes ex_bb_input f).
Proof.
  split; [reflexivity|]. split; [repeat constructor; vm_compute; discriminate|].
  split; [vm_compute; reflexivity|].
  assert (Hin : BedEndToEnd.input_ok ex_bb_input).
  { unfold BedEndToEnd.input_ok, ex_bb_input, bent. repeat constructor; cbn; try discriminate; try lia; intros [A B]; discriminate. }
  split; eexists; (split; [vm_compute; reflexivity|]);
    (split; [vm_compute; discriminate|]; split; [vm_compute; reflexivity|]; split; [exact Hin|];
     split; [unfold ex_bb_sizes; repeat constructor|vm_compute; discriminate]).
Qed.
(* the reader on the computed bytes: 6 items, 17 covered bases, sum 32, sumsq 72, min 1, max 3 *)
Example C06_example_bb_file_run :
  let check w :=
    match w with
    | Ok f => match BBIRead.read_info f with
              | Ok i => match BBIRead.read_summary f i with
                        | Ok s => C06FileBed.sform_num s 6 17 32 72 (Some 1) (Some 3) /\ BBIReadBed.bb_item_count f i = Ok 6
                        | _ => False end
              | _ => False end
    | _ => False end in
  check (BedZoomFit.bb_write_either false exact ex_bw_opts ex_bb_sizes None ex_bb_input) /\
  check (BedZoomFit.bb_write_either true ieee ex_bw_opts ex_bb_sizes None ex_bb_input).
Proof. vm_compute. repeat split. Qed.

(* ================= IEEE = exact on a checkable domain (Proofs/FloatExact.v) =================
   The theorems above about sums are stated for the non-rounding mode; the implementation computes in
   binary64.  (a) an IEEE operation whose exact result is representable returns that number; (b) integer
   multiples of 2^G ("grid", [gval E G x k]: x denotes k * 2^G) are closed under + and * with exact IEEE
   results while |k| < 2^53; (c) hence the accumulation folds  acc + len*val  and  acc + (len*val)*val
   computed in IEEE mode denote the same numbers as in exact mode; (d) the bigWig total summary of the IEEE
   writer model IS the statistics of the input on that domain.  [in_exact_domain] is the decidable domain
   the generators use (multiples of 1/8, |v| <= 1024, fewer than 2^24 bases). *)
From BT Require Proofs.FloatExact.

Theorem C06_fadd_ieee_exact : forall x y, C06FileFloat.rep64 (fadd64 exact x y) ->
  C06FileFloat.same_num (fadd64 ieee x y) (fadd64 exact x y).
Proof. exact FloatExact.fadd_ieee_exact. Qed.
Print Assumptions C06_fadd_ieee_exact.

Theorem C06_fmul_ieee_exact : forall x y, C06FileFloat.rep64 (fmul64 exact x y) ->
  C06FileFloat.same_num (fmul64 ieee x y) (fmul64 exact x y).
Proof. exact FloatExact.fmul_ieee_exact. Qed.
Print Assumptions C06_fmul_ieee_exact.

(* `x as f32` of a number that is a binary32 value (24 significant bits, exponent >= -149) *)
Theorem C06_to_f32_ieee_exact : forall x, FloatExact.rep32 x ->
  C06FileFloat.same_num (to_f32 ieee x) x /\ to_f32 exact x = x.
Proof. exact FloatExact.to_f32_ieee_exact. Qed.
Print Assumptions C06_to_f32_ieee_exact.

(* closure of the grid: [grid E G B x] = x is an integer multiple of 2^G, at most B * 2^G in absolute value *)
Theorem C06_grid_fadd_ieee : forall E G B1 B2 x y, (E <= 0 -> E <= G -> -1074 <= G <= 971 -> B1 + B2 < FloatExact.P53 ->
  FloatExact.grid E G B1 x -> FloatExact.grid E G B2 y ->
  FloatExact.grid E G (B1 + B2) (fadd64 ieee x y) /\ FloatExact.grid E G (B1 + B2) (fadd64 exact x y) /\
  C06FileFloat.same_num (fadd64 ieee x y) (fadd64 exact x y))%Z.
Proof. exact FloatExact.grid_fadd_ieee. Qed.
Print Assumptions C06_grid_fadd_ieee.

Theorem C06_grid_fmul_ieee : forall E1 G1 E2 G2 B1 B2 x y,
  (E1 <= G1 -> E2 <= G2 -> E1 + E2 <= 0 -> -1074 <= G1 + G2 <= 971 -> 0 <= B1 -> B1 * B2 < FloatExact.P53 ->
  FloatExact.grid E1 G1 B1 x -> FloatExact.grid E2 G2 B2 y ->
  FloatExact.grid (E1 + E2) (G1 + G2) (B1 * B2) (fmul64 ieee x y) /\
  FloatExact.grid (E1 + E2) (G1 + G2) (B1 * B2) (fmul64 exact x y) /\
  C06FileFloat.same_num (fmul64 ieee x y) (fmul64 exact x y))%Z.
Proof. exact FloatExact.grid_fmul_ieee. Qed.
Print Assumptions C06_grid_fmul_ieee.

(* the fold lemma, any element type: lengths [len t], values [val t] on the grid, bound in grid units *)
Theorem C06_fold_sum_ieee_exact : forall (T : Type) (len : T -> N) (val : T -> fl) E G l, FloatExact.grid_ok_sum E G ->
  Forall (fun t => FloatExact.on_grid E G (val t)) l ->
  (FloatExact.kabs len (fun t => FloatExact.gk E G (val t)) l < FloatExact.P53)%Z ->
  let k := FloatExact.ksum len (fun t => FloatExact.gk E G (val t)) l in
  FloatExact.gval E G (fold_left (FloatExact.step_sum len val ieee) l fzero) k /\
  FloatExact.gval E G (fold_left (FloatExact.step_sum len val exact) l fzero) k /\
  C06FileFloat.same_num (fold_left (FloatExact.step_sum len val ieee) l fzero) (fold_left (FloatExact.step_sum len val exact) l fzero).
Proof. exact @FloatExact.fold_sum_ieee_exact. Qed.
Print Assumptions C06_fold_sum_ieee_exact.

Theorem C06_fold_sq_ieee_exact : forall (T : Type) (len : T -> N) (val : T -> fl) E G l, FloatExact.grid_ok E G ->
  Forall (fun t => FloatExact.on_grid E G (val t)) l ->
  (FloatExact.ksq len (fun t => FloatExact.gk E G (val t)) l < FloatExact.P53)%Z ->
  let k := FloatExact.ksq len (fun t => FloatExact.gk E G (val t)) l in
  FloatExact.gval (E + E) (G + G) (fold_left (FloatExact.step_sq len val ieee) l fzero) k /\
  FloatExact.gval (E + E) (G + G) (fold_left (FloatExact.step_sq len val exact) l fzero) k /\
  C06FileFloat.same_num (fold_left (FloatExact.step_sq len val ieee) l fzero) (fold_left (FloatExact.step_sq len val exact) l fzero).
Proof. exact @FloatExact.fold_sq_ieee_exact. Qed.
Print Assumptions C06_fold_sq_ieee_exact.

(* the decidable generator domain implies the hypotheses of the fold theorems (E = -149, G = -3) *)
Theorem C06_in_exact_domain_hyps : forall vs, FloatExact.in_exact_domain vs = true ->
  FloatExact.grid_ok FloatExact.dom_E FloatExact.dom_G /\ Forall (FloatExact.vgrid FloatExact.dom_E FloatExact.dom_G) vs /\
  (FloatExact.gabs FloatExact.dom_E FloatExact.dom_G vs < FloatExact.P53)%Z /\
  (FloatExact.gsq FloatExact.dom_E FloatExact.dom_G vs < FloatExact.P53)%Z.
Proof. exact FloatExact.in_exact_domain_hyps. Qed.
Print Assumptions C06_in_exact_domain_hyps.

(* C06_bw_summary for the IEEE instance (the one compared bit for bit with the implementation): values on
   the grid 2^G, sum of len*|val| and of len*val^2 below 2^53 grid units: the summary bw_collect hands to
   the writer denotes exactly the statistics of the input, and field by field the numbers of the exact run *)
Theorem C06_bw_summary_ieee_exact_on_grid : forall E G o sizes input ids outs sum data, FloatExact.grid_ok E G ->
  let all := map snd input in
  Forall (FloatExact.vgrid E G) all -> (FloatExact.gabs E G all < FloatExact.P53)%Z -> (FloatExact.gsq E G all < FloatExact.P53)%Z ->
  bw_collect ieee o sizes input = Ok (ids, outs, sum, data) ->
  wform E sum (Nlen all) (w_bases all) (w_sum E all) (w_sumsq E all)
        (w_min E all (fval E f64_max)) (w_max E all (fval E f64_min)) /\
  exists sum_e, bw_collect exact o sizes input = Ok (ids, outs, sum_e, data) /\
    su_items sum = su_items sum_e /\ su_bases sum = su_bases sum_e /\ su_min sum = su_min sum_e /\ su_max sum = su_max sum_e /\
    C06FileFloat.same_num (su_sum sum) (su_sum sum_e) /\ C06FileFloat.same_num (su_sumsq sum) (su_sumsq sum_e).
Proof. exact FloatExact.bw_collect_ieee_wform. Qed.
Print Assumptions C06_bw_summary_ieee_exact_on_grid.

Theorem C06_bw_summary_ieee_in_domain : forall o sizes input ids outs sum data,
  let all := map snd input in
  FloatExact.in_exact_domain all = true ->
  bw_collect ieee o sizes input = Ok (ids, outs, sum, data) ->
  wform FloatExact.dom_E sum (Nlen all) (w_bases all) (w_sum FloatExact.dom_E all) (w_sumsq FloatExact.dom_E all)
        (w_min FloatExact.dom_E all (fval FloatExact.dom_E f64_max)) (w_max FloatExact.dom_E all (fval FloatExact.dom_E f64_min)) /\
  exists sum_e, bw_collect exact o sizes input = Ok (ids, outs, sum_e, data) /\
    su_items sum = su_items sum_e /\ su_bases sum = su_bases sum_e /\ su_min sum = su_min sum_e /\ su_max sum = su_max sum_e /\
    C06FileFloat.same_num (su_sum sum) (su_sum sum_e) /\ C06FileFloat.same_num (su_sumsq sum) (su_sumsq sum_e).
Proof. exact FloatExact.bw_collect_ieee_in_domain. Qed.
Print Assumptions C06_bw_summary_ieee_in_domain.

(* non-vacuity: the input of C06_example_bw_hyps (1.0, 0.5, -2.5 over two chromosomes) is in the domain; the
   IEEE run returns, and its sum is 7 = 56/8, its sum of squares 23.5 = 1504/64 *)
Example C06_example_bw_ieee_domain :
  FloatExact.in_exact_domain (map snd ex_bw_input) = true /\
  exists ids outs sum data,
    bw_collect ieee ex_bw_opts [([99; 104; 114; 49], 20); ([99; 104; 114; 50], 20)] ex_bw_input = Ok (ids, outs, sum, data) /\
    FloatExact.gk FloatExact.dom_E FloatExact.dom_G (su_sum sum) = 56%Z /\
    FloatExact.gk (FloatExact.dom_E + FloatExact.dom_E) (FloatExact.dom_G + FloatExact.dom_G) (su_sumsq sum) = 1504%Z.
Proof.
  split; [vm_compute; reflexivity|]. do 4 eexists. split; [vm_compute; reflexivity|]. split; vm_compute; reflexivity.
Qed.
