(* C06 — whole-file summary statistics equal the statistics of the written data.
   Only statements, closed by [exact], with Print Assumptions beneath each.
   Arithmetic: the models are evaluated under an [fpmode]; the theorems are about [exact] (no rounding),
   the correspondence check runs [ieee] against the implementation bit for bit (DESIGN.md 3.2). *)
From BT Require Import Base.Util Base.Float Model.RTree Model.BBIFile Model.BigWigWrite Model.BedSweep Spec.Depth Model.EntryBedSweep Proofs.BedFile
  Proofs.DepthStats Proofs.SweepRLE Proofs.BedSummary Proofs.BedIeee Proofs.BwSummary Proofs.BwCollect.
Local Open Scope N_scope.

(* ---- bigWig ----
   For every accepted input (bw_collect returns) whose values are finite dyadics m*2^e with e >= E
   (any E <= 0 below every exponent: the unit 2^E makes all quantities whole numbers), the summary
   handed to the writer denotes: number of values, bases = sum of lengths, sum = sum of len*val,
   sumsq = sum of len*val^2 (in units 2^E resp. 2^(2E)), min/max = the least / largest value folded from
   +-f64::MAX; over all chromosomes at once: the per-chromosome accumulation and the `advance` fold
   together equal one fold over the input stream. *)
Theorem C06_bw_summary : forall E o sizes input ids outs sum data,
  (E <= 0)%Z -> Forall (fun it => vfin E (snd it)) input ->
  bw_collect exact o sizes input = Ok (ids, outs, sum, data) ->
  let all := map snd input in
  wform E sum (Nlen all) (w_bases all) (w_sum E all) (w_sumsq E all)
        (w_min E all (fval E f64_max)) (w_max E all (fval E f64_min)).
Proof. exact bw_collect_summary. Qed.
Print Assumptions C06_bw_summary.

(* every value within +-f64::MAX (all f32 are): the extremes are those of the values themselves *)
Theorem C06_bw_min_of_values : forall E v r, in_range E v ->
  w_min E (v :: r) (fval E f64_max) = w_min E r (fval E (v_val v)) /\
  w_max E (v :: r) (fval E f64_min) = w_max E r (fval E (v_val v)).
Proof. intros E v r H. split; [apply w_min_in_range | apply w_max_in_range]; exact H. Qed.
Print Assumptions C06_bw_min_of_values.

(* ---- bigBed ----
   The sweep emits the run-length encoding of the coverage depth (shared with C08). *)
Theorem C06_sweep_eq_rle_depth : forall U es,
  U <= U32_MAX -> Forall (entry_ok U) es -> starts_sorted es ->
  segs_sorted 0 (sweep_emitted es) /\ Forall (seg_ok U) (sweep_emitted es) /\
  (forall x, x < U32_MAX -> segs_depth (sweep_emitted es) x = depth es x).
Proof. exact sweep_eq_rle_depth. Qed.
Print Assumptions C06_sweep_eq_rle_depth.

(* what the writer accepts is what the sweep theorem needs (entry ends are u32: <= U <= 2^32-1) *)
Theorem C06_bb_accepted_valid : forall U len es, U <= U32_MAX -> Forall (fun e => e_end e <= U) es ->
  bb_check_chrom len es = Ok tt -> valid_chrom U es.
Proof. exact accepted_valid. Qed.
Print Assumptions C06_bb_accepted_valid.

(* one chromosome: items = number of entries; bases = #{x < U | depth x > 0} (each covered base once);
   sum = sum of depth; sumsq = sum of depth^2; min / max over the covered bases (NaN when none) *)
Theorem C06_bb_chrom_summary : forall U es, valid_chrom U es ->
  let d := depth es in let xs := span 0 U in
  sform (bb_chrom_summary exact es) (Nlen es) (st_cov d xs) (st_sum d xs) (st_sumsq d xs) (st_min d xs) (st_max d xs).
Proof. exact bb_chrom_summary_spec. Qed.
Print Assumptions C06_bb_chrom_summary.

(* the file: any non-empty list of accepted chromosomes *)
Theorem C06_bb_summary : forall U c chroms,
  Forall (valid_chrom U) (c :: chroms) ->
  sform (bb_total_summary exact (c :: chroms))
        (sumN (map c_items (c :: chroms))) (sumN (map (c_cov U) (c :: chroms))) (sumN (map (c_sum U) (c :: chroms)))
        (sumN (map (c_sumsq U) (c :: chroms)))
        (fold_left (fun a es => opt_meet N.min a (c_min U es)) (c :: chroms) None)
        (fold_left (fun a es => opt_meet N.max a (c_max U es)) (c :: chroms) None).
Proof. exact bb_total_summary_spec. Qed.
Print Assumptions C06_bb_summary.

Theorem C06_bb_item_count : forall U c chroms,
  Forall (valid_chrom U) (c :: chroms) ->
  su_items (bb_total_summary exact (c :: chroms)) = sumN (map (fun es => Nlen es) (c :: chroms)).
Proof. intros U c chroms H. exact (proj1 (bb_total_summary_spec U c chroms H)). Qed.
Print Assumptions C06_bb_item_count.

(* File level: for an accepted input the summary the file-level model reports is bb_total_summary over the
   chromosome runs of the input; the runs concatenate to the input, each passed the writer's checks
   (so C06_bb_summary applies to them) and the item count is the number of input entries. *)
Theorem C06_bb_file_summary : forall U two_pass o sizes input sum levels cs,
  U <= U32_MAX -> Forall (fun it => e_end (snd it) <= U) input ->
  bb_file exact two_pass o sizes input = Ok (sum, levels, cs) ->
  let chroms := map bc_es cs in
  concat chroms = map snd input /\ chroms <> [] /\ Forall (valid_chrom U) chroms /\
  sum = bb_total_summary exact chroms /\ su_items sum = Nlen input.
Proof. exact bb_file_summary. Qed.
Print Assumptions C06_bb_file_summary.

(* The IEEE-754 instance of the model (binary64, round to nearest even: the instance that is compared
   bit for bit with the implementation on every run) computes exactly what the exact instance computes
   as long as the sum of squared depths of the file stays below 2^53; with C06_bb_summary: the summary
   the IEEE model writes IS the per-base statistics of the depth. *)
Theorem C06_bb_summary_ieee : forall U c chroms,
  Forall (valid_chrom U) (c :: chroms) -> sumN (map (c_sumsq U) (c :: chroms)) < P53 ->
  bb_total_summary ieee (c :: chroms) = bb_total_summary exact (c :: chroms).
Proof. exact bb_total_summary_ieee. Qed.
Print Assumptions C06_bb_summary_ieee.

(* ---- non-vacuity ---- *)
Definition ent (s e : N) : entry := {| e_start := s; e_end := e; e_rest := [] |}.
(* chromosome 1: partly overlapping, nested, identical and zero-length entries (the witnesses of the
   repaired defects D3 and D13); chromosome 2: only a zero-length entry *)
Definition ex_c1 := [ent 0 10; ent 0 10; ent 5 5; ent 5 15; ent 20 22].
Definition ex_c2 := [ent 5 5].
Example C06_example_bb_hyps :
  Forall (valid_chrom 30) [ex_c1; ex_c2] /\ bb_check_chrom 30 ex_c1 = Ok tt /\
  sform (bb_total_summary exact [ex_c1; ex_c2]) 6 17 32 72 (Some 1) (Some 3).
Proof.
  split; [|split].
  - repeat constructor; unfold U32_MAX, entry_ok; cbn; lia.
  - reflexivity.
  - vm_compute. repeat split.
Qed.
Example C06_example_bb_ieee :
  sumN (map (c_sumsq 30) [ex_c1; ex_c2]) < P53 /\ bb_total_summary ieee [ex_c1; ex_c2] = bb_total_summary exact [ex_c1; ex_c2].
Proof. split; vm_compute; reflexivity. Qed.
(* the depth by hand: [0,5) 2, [5,10) 3, [10,15) 1, [20,22) 1 -> 17 bases, sum 32, sumsq 72 (the sweep also emits the empty segment [5,5) with phantom depth 4, which is ignored) *)
Example C06_example_bb_spec :
  (sumN (map (c_cov 30) [ex_c1; ex_c2]), sumN (map (c_sum 30) [ex_c1; ex_c2]), sumN (map (c_sumsq 30) [ex_c1; ex_c2])) = (17, 32, 72).
Proof. vm_compute. reflexivity. Qed.

(* bigWig: 1.0 = 0x3F800000 = 2^23 * 2^-23, 0.5 = 0x3F000000, -2.5 = 0xC0200000; unit 2^-24 *)
Definition ex_bw_input : list item :=
  [([99; 104; 114; 49], {| v_start := 0; v_end := 10; v_bits := 1065353216 |});
   ([99; 104; 114; 49], {| v_start := 10; v_end := 14; v_bits := 1056964608 |});
   ([99; 104; 114; 50], {| v_start := 3; v_end := 5; v_bits := 3223322624 |})].
Definition ex_bw_opts : opts :=
  {| o_compress := false; o_ips := 2; o_bs := 256; o_izoom := 10; o_maxzooms := 2; o_manual := None; o_sort_all := true |}.
Example C06_example_bw_hyps :
  Forall (fun it => vfin (-24) (snd it)) ex_bw_input /\
  Forall (fun it => in_range (-24) (snd it)) ex_bw_input /\
  exists ids outs sum data,
    bw_collect exact ex_bw_opts [([99; 104; 114; 49], 20); ([99; 104; 114; 50], 20)] ex_bw_input = Ok (ids, outs, sum, data) /\
    su_bases sum = 16 /\ fval (-24) (su_sum sum) = (7 * 2 ^ 24)%Z.
Proof.
  split; [|split].
  - repeat constructor; vm_compute; discriminate.
  - repeat constructor; vm_compute; discriminate.
  - do 4 eexists. split; [vm_compute; reflexivity|]. split; vm_compute; reflexivity.
Qed.
