From BT Require Import Base.Util.
From BT Require Properties.C19.
