(* Statement pins: each property theorem is re-checked against the statement recorded here, so
   a theorem cannot be weakened in its own file without this file failing to compile. *)
From Coq Require Import String.
From BT Require Import Base.Util.
From BT Require Generated.Consts Model.AutoSql Proofs.AutoSqlLex Proofs.AutoSqlTotal Proofs.AutoSqlGen Proofs.AutoSqlStore Proofs.AutoSqlD9 Properties.C19.

Module PinC19.
Import Generated.Consts Model.AutoSql Proofs.AutoSqlLex Proofs.AutoSqlTotal Proofs.AutoSqlGen Proofs.AutoSqlStore Proofs.AutoSqlD9 Properties.C19.
Local Open Scope nat_scope.
Check (C19_parser_total : forall (s : list N) (fuel : nat), parse_fuel s <= fuel ->
  (exists ds, parse_autosql fuel s = Ok ds) \/ (exists c, parse_autosql fuel s = Err c)).
Check (C19_parser_output_bounded : forall (s : list N) (fuel : nat) ds, parse_fuel s <= fuel ->
  parse_autosql fuel s = Ok ds ->
  length ds <= N.to_nat AUTOSQL_DECL_CAP + 1 /\ decls_weight ds <= length s).
Check (C19_parser_fuel_independent : forall s f1 f2, parse_fuel s <= f1 -> parse_fuel s <= f2 ->
  parse_autosql f1 s = parse_autosql f2 s).
Check (C19_enum_loop_unrepaired_diverges : forall lf fuel, 4 < fuel ->
  values_loop_unrepaired lf fuel (mkP (bs "a, b") 0) [] = Fuel).
Check (C19_generated_field_count : forall n, declared_fields (bed_autosql_n n) = 3 + n).
Check (C19_generated_field_count_rest : forall cols, Forall no_sep cols -> join_cols cols <> [] ->
  declared_fields (bed_autosql (join_cols cols)) = 3 + length cols).
Check (C19_generated_field_count_bed3_line : declared_fields (bed_autosql []) = 3).
Check (C19_parse_generated : forall n, exists d,
  parse (bed_autosql_n n) = Ok [d] /\ length (d_fields d) = 3 + n
  /\ d_type d = Table /\ dn_name (d_name d) = [98; 101; 100]%N).
Check (C19_header_field_count : forall n, (N.of_nat (3 + n) < 65536)%N ->
  write_pre_schema (Some (bed_autosql_n n)) = Ok (bed_autosql_n n, N.of_nat (3 + n))).
Check (C19_header_field_count_tool : forall cols, Forall no_sep cols -> join_cols cols <> [] ->
  (N.of_nat (3 + length cols) < 65536)%N ->
  write_pre_schema (Some (bed_autosql (join_cols cols)))
  = Ok (bed_autosql (join_cols cols), N.of_nat (3 + length cols))
  /\ declared_fields (bed_autosql (join_cols cols)) = 3 + length cols).
Check (C19_supplied_schema_verbatim : forall s,
  (has_nul s = true -> write_pre_schema (Some s) = Err E_NulInSchema) /\
  (has_nul s = false -> write_pre_schema (Some s) = Ok (s, (count_of (parse s) mod 65536)%N))).
Check (C19_stored_is_supplied : forall s stored fc,
  write_pre_schema (Some s) = Ok (stored, fc) -> stored = s /\ has_nul s = false /\ (fc < 65536)%N).
Check (C19_write_pre_total : forall o,
  (exists v, write_pre_schema o = Ok v) \/ write_pre_schema o = Err E_NulInSchema).
Check (C19_default_schema :
  write_pre_schema None = Ok (AUTOSQL_BED3, 3%N) /\ declared_fields AUTOSQL_BED3 = 3).
(* the definitions the statements rest on, pinned as well *)
Check (eq_refl : parse_fuel = fun data => length data + N.to_nat AUTOSQL_DECL_CAP + 2).
Check (eq_refl : parse = fun data => parse_autosql (parse_fuel data) data).
Check (eq_refl : declared_fields = count_semis false).
Check (eq_refl : has_nul = existsb (N.eqb 0)).
Check (eq_refl : no_sep = fun c => Forall (fun x => (x =? AUTOSQL_COLUMN_SEP)%N = false) c).
End PinC19.
