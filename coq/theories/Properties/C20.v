(* C20 -- Python-binding array routines compute the documented per-base and binned values.
   Only statements, closed by [exact], with Print Assumptions beneath each.

   Model/PyArrays.v: [values_wig] / [values_bed] are intervals_to_array / entries_to_array from the fetch
   clamp on (clamp, fetch through the reader's overlap filter, to_array / to_entry_array /
   to_array_bins / to_entry_array_bins with their VecDeque loop, out-of-bounds fill), branch for branch,
   panics explicit; [wig_at] / [bed_at] / [base_cell] / [bin_cell] / [stat_of] / [covered_vals] are the
   documentation of `values`.  Numbers are exact (eighths); a cell [OQ n d] is the exact quotient n/d.
   [wig_ok 0 len vals]: stored bigWig values lie in [0, len), are non-empty, disjoint and in start order;
   [bed_ok 0 len ents]: bigBed entries lie in [0, len], are non-empty, starts do not decrease (any overlap).
   [touch]: whether the bigBed reader also hands over entries that merely touch the fetched range (it does
   when their block is read at all) -- the theorems hold either way.
   Zoom mode (`exact = False`): [values_wig_zoom] / [values_bed_zoom] are the same wrappers with to_array_zoom /
   to_entry_array_zoom (after the repair 7cf302c) in the middle, on the records of the chosen zoom level;
   [zoom_ok 0 len recs]: the records lie in [0, len), are non-empty, disjoint and in start order (what C07/C08
   prove of a stored level), have at least one covered base and a mean sum/bases_covered that is exact in the
   model's unit; [zoom_cell] / [zoom_stat] / [zov] say what a bin reports.  [touch] as above (get_zoom_interval
   hands over touching records like the bigBed reader). *)
From BT Require Import Base.Util Model.PyArrays Proofs.PyArraysGeom Proofs.PyArraysCover Proofs.PyArraysBed
  Proofs.PyArraysValues Proofs.PyArraysZoom Proofs.PyArraysZoomValues.
Local Open Scope Z_scope.

(* The bin the routines pick for a base is the one whose whole-number span holds it, for every width. *)
Theorem C20_bin_index_spec : forall pos span bins, 0 <= pos < span -> 0 < bins ->
  let k := bin_index pos span bins in
  0 <= k < bins /\ bin_edge k span bins <= pos < bin_edge (k + 1) span bins.
Proof. exact bin_index_spec. Qed.
Print Assumptions C20_bin_index_spec.

(* Per base: for every range [s, e), also below 0 and past the chromosome end, every `missing` and `oob`
   (NaN included), the call does not panic and cell p - s is: oob outside [0, len); the stored value
   (bigWig) / the number of entries overlapping p (bigBed) where there is data; missing where there is none. *)
Theorem C20_per_base : forall touch len vals ents s e st missing oob,
  wig_ok 0 len vals -> bed_ok 0 len ents -> s < e ->
  values_wig len vals s e None st missing oob
    = Ok (map (base_cell (wig_at vals) len missing oob) (seqZ s (Z.to_nat (e - s))))
  /\ values_bed touch len ents s e None st missing oob
    = Ok (map (base_cell (bed_at ents) len missing oob) (seqZ s (Z.to_nat (e - s)))).
Proof. exact per_base_thm. Qed.
Print Assumptions C20_per_base.

(* Bins, exact mode, EVERY bin count 1..e-s (whole-number bin width or not): bin k spans
   [s + floor(k(e-s)/bins), s + floor((k+1)(e-s)/bins)); its cell is oob when the span holds a base outside
   [0, len), else the mean / min / max over the covered bases of the span, missing when none is covered. *)
Theorem C20_bins : forall touch len vals ents s e bins st missing oob,
  wig_ok 0 len vals -> bed_ok 0 len ents -> s < e -> 0 < bins <= e - s ->
  values_wig len vals s e (Some bins) st missing oob
    = Ok (map (fun k => bin_cell (wig_at vals) len st missing oob
                          (s + bin_edge k (e - s) bins) (s + bin_edge (k + 1) (e - s) bins))
              (seqZ 0 (Z.to_nat bins)))
  /\ values_bed touch len ents s e (Some bins) st missing oob
    = Ok (map (fun k => bin_cell (bed_at ents) len st missing oob
                          (s + bin_edge k (e - s) bins) (s + bin_edge (k + 1) (e - s) bins))
              (seqZ 0 (Z.to_nat bins))).
Proof. exact bins_thm. Qed.
Print Assumptions C20_bins.

(* Never NaN (nor an infinity) for finite data and finite missing / oob, per base and for every bin count:
   every cell is a number n/d with d > 0.  (Stored values are numbers by construction in the model.) *)
Theorem C20_bins_nan_free : forall touch len vals ents s e obins st m o,
  wig_ok 0 len vals -> bed_ok 0 len ents -> s < e ->
  match obins with Some bins => 0 < bins <= e - s | None => True end ->
  exists cw cb, values_wig len vals s e obins st (FV m) (FV o) = Ok cw
             /\ values_bed touch len ents s e obins st (FV m) (FV o) = Ok cb
             /\ Forall (fun c => exists n d, c = OQ n d /\ 0 < d) cw
             /\ Forall (fun c => exists n d, c = OQ n d /\ 0 < d) cb.
Proof. exact nan_free_thm. Qed.
Print Assumptions C20_bins_nan_free.

(* The requested portion outside the chromosome holds the out-of-bounds value: every base outside [0, len),
   and every bin whose span holds such a base. *)
Theorem C20_oob : forall touch len vals ents s e st missing oob,
  wig_ok 0 len vals -> bed_ok 0 len ents -> s < e ->
  (exists cw cb, values_wig len vals s e None st missing oob = Ok cw
              /\ values_bed touch len ents s e None st missing oob = Ok cb
              /\ forall p, s <= p < e -> p < 0 \/ len <= p ->
                   nth (Z.to_nat (p - s)) cw ONaN = out_of_fl oob /\ nth (Z.to_nat (p - s)) cb ONaN = out_of_fl oob)
  /\ forall bins, 0 < bins <= e - s ->
     exists cw cb, values_wig len vals s e (Some bins) st missing oob = Ok cw
                /\ values_bed touch len ents s e (Some bins) st missing oob = Ok cb
                /\ forall k, 0 <= k < bins ->
                     s + bin_edge k (e - s) bins < 0 \/ len < s + bin_edge (k + 1) (e - s) bins ->
                     nth (Z.to_nat k) cw ONaN = out_of_fl oob /\ nth (Z.to_nat k) cb ONaN = out_of_fl oob.
Proof. exact oob_thm. Qed.
Print Assumptions C20_oob.

(* ---- zoom mode (`exact = False`) *)

(* Bins from a zoom level, EVERY bin count 1..e-s: no panic; the cell of bin k (same spans as in exact mode) is
   oob when the span holds a base outside [0, len); `missing` when no record overlaps the span; else, over the
   records r overlapping it, with ov(r) = number of bases of r inside the span:
     mean = sum ov(r) * mean(r) / sum ov(r)     (mean(r) = sum / bases_covered; to_entry_array_zoom: max(mean(r), 0))
     min  = the smallest min_val,   max = the largest max_val.
   In particular the cell does not depend on `missing` where there is data (D11g). *)
Theorem C20_zoom_bins : forall touch len recs s e bins st missing oob,
  zoom_ok 0 len recs -> s < e -> 0 < bins <= e - s ->
  values_wig_zoom touch len recs s e bins st missing oob
    = Ok (map (fun k => zoom_cell zmean recs len st missing oob
                          (s + bin_edge k (e - s) bins) (s + bin_edge (k + 1) (e - s) bins))
              (seqZ 0 (Z.to_nat bins)))
  /\ values_bed_zoom touch len recs s e bins st missing oob
    = Ok (map (fun k => zoom_cell zmean0 recs len st missing oob
                          (s + bin_edge k (e - s) bins) (s + bin_edge (k + 1) (e - s) bins))
              (seqZ 0 (Z.to_nat bins))).
Proof. exact zoom_bins_thm. Qed.
Print Assumptions C20_zoom_bins.

(* The same said differently: zoom mode is exact mode applied to the step function that gives every base of a
   record the record's mean (resp. min_val, max_val) -- cell for cell the answer of the exact bigWig routine on
   those values. *)
Theorem C20_zoom_step_function : forall touch len recs s e bins st missing oob,
  zoom_ok 0 len recs -> s < e -> 0 < bins <= e - s ->
  values_wig_zoom touch len recs s e bins st missing oob
    = values_wig len (map (zwv false st) recs) s e (Some bins) st missing oob
  /\ values_bed_zoom touch len recs s e bins st missing oob
    = values_wig len (map (zwv true st) recs) s e (Some bins) st missing oob.
Proof. exact zoom_step_thm. Qed.
Print Assumptions C20_zoom_step_function.

(* `missing` where there is no data: a bin inside the chromosome that no record overlaps. *)
Theorem C20_zoom_missing : forall mval recs len st missing oob lo hi, 0 <= lo -> hi <= len ->
  (forall z, In z recs -> zov lo hi z <= 0) ->
  zoom_cell mval recs len st missing oob lo hi = out_of_fl missing.
Proof. exact zoom_missing_thm. Qed.
Print Assumptions C20_zoom_missing.

(* Never NaN (nor an infinity) for finite missing / oob: every cell is a number n/d with d > 0. *)
Theorem C20_zoom_nan_free : forall touch len recs s e bins st m o,
  zoom_ok 0 len recs -> s < e -> 0 < bins <= e - s ->
  exists cw cb, values_wig_zoom touch len recs s e bins st (FV m) (FV o) = Ok cw
             /\ values_bed_zoom touch len recs s e bins st (FV m) (FV o) = Ok cb
             /\ Forall (fun c => exists n d, c = OQ n d /\ 0 < d) cw
             /\ Forall (fun c => exists n d, c = OQ n d /\ 0 < d) cb.
Proof. exact zoom_nan_free_thm. Qed.
Print Assumptions C20_zoom_nan_free.

(* Every bin whose span holds a base outside [0, len) reads oob. *)
Theorem C20_zoom_oob : forall touch len recs s e bins st missing oob,
  zoom_ok 0 len recs -> s < e -> 0 < bins <= e - s ->
  exists cw cb, values_wig_zoom touch len recs s e bins st missing oob = Ok cw
             /\ values_bed_zoom touch len recs s e bins st missing oob = Ok cb
             /\ forall k, 0 <= k < bins ->
                  s + bin_edge k (e - s) bins < 0 \/ len < s + bin_edge (k + 1) (e - s) bins ->
                  nth (Z.to_nat k) cw ONaN = out_of_fl oob /\ nth (Z.to_nat k) cb ONaN = out_of_fl oob.
Proof. exact zoom_oob_thm. Qed.
Print Assumptions C20_zoom_oob.

(* ---- the wrappers' own arithmetic (the text make_glue cuts out of lib.rs is this, compiled) *)

(* The fetch clamp `(start.max(0), end.min(length).max(0))`: both ends fit a u32 and the fetched range is exactly
   the part of [s, e) inside the chromosome (empty when the range lies wholly outside). *)
Theorem C20_fetch_clamp : forall s e len p,
  let '(fs, fe) := clamp s e len in
  0 <= fs /\ 0 <= fe /\ (fs <= p < fe <-> (s <= p < e /\ 0 <= p < len)).
Proof. exact clamp_range. Qed.
Print Assumptions C20_fetch_clamp.

(* The out-of-bounds block on an array of nbins cells (any content): no index out of range, and exactly the
   cells of the bins whose span holds a base outside [0, len) are overwritten with oob. *)
Theorem C20_oob_layout : forall s e len nbins oob arr, s < e -> 0 < nbins <= e - s -> length arr = Z.to_nat nbins ->
  oob_fill s e len nbins oob arr
  = Ok (map (fun k => if (s + bin_edge k (e - s) nbins <? 0) || (len <? s + bin_edge (k + 1) (e - s) nbins)
                      then out_of_fl oob else nth (Z.to_nat k) arr ONaN)
            (seqZ 0 (Z.to_nat nbins))).
Proof. exact oob_layout. Qed.
Print Assumptions C20_oob_layout.

(* Non-vacuity: concrete layouts meet the hypotheses; a non-integral width (5 bases in 3 bins, edges 0 1 3 5),
   a range sticking out on both sides, overlapping entries. *)
Definition ex_vals : list wval :=
  [ {| w_start := 1; w_end := 3; w_val := 8 |}; {| w_start := 4; w_end := 5; w_val := 20 |} ].      (* 1.0, 2.5 *)
Definition ex_ents : list bent :=
  [ {| b_start := 0; b_end := 4 |}; {| b_start := 2; b_end := 3 |}; {| b_start := 2; b_end := 6 |} ].
Example C20_example_hyps : wig_ok 0 6 ex_vals /\ bed_ok 0 6 ex_ents.
Proof. cbn. lia. Qed.
Example C20_example_bins_wig :
  values_wig 6 ex_vals 0 5 (Some 3) Mean (FV (-8)) FNaN = Ok [OQ (-8) 1; OQ 16 2; OQ 20 1]      (* -1 (missing), 1, 2.5 *)
  /\ values_wig 6 ex_vals (-1) 7 (Some 3) Mean (FV 0) FNaN = Ok [ONaN; OQ 16 2; ONaN].           (* oob = NaN at both ends *)
Proof. split; vm_compute; reflexivity. Qed.
Example C20_example_bins_bed :
  values_bed true 6 ex_ents 0 5 (Some 2) Mean (FV 20) FNaN = Ok [OQ 16 2; OQ 48 3]                (* depths 1 1 | 3 2 1 *)
  /\ values_bed true 6 ex_ents 0 5 (Some 2) Min (FV 20) FNaN = Ok [OQ 8 1; OQ 8 1].
Proof. split; vm_compute; reflexivity. Qed.
Example C20_example_per_base :
  values_wig 6 ex_vals (-1) 7 None Mean (FV 0) (FV 56)
    = Ok [OQ 56 1; OQ 0 1; OQ 8 1; OQ 8 1; OQ 0 1; OQ 20 1; OQ 0 1; OQ 56 1]
  /\ values_bed false 6 ex_ents (-2) 8 None Mean (FV 20) (FV 56)
    = Ok [OQ 56 1; OQ 56 1; OQ 8 1; OQ 8 1; OQ 24 1; OQ 16 1; OQ 8 1; OQ 8 1; OQ 56 1; OQ 56 1].
Proof. split; vm_compute; reflexivity. Qed.
(* the repaired D11b witness: 3 bases in 2 bins, one value on [1,2): bin 0 = [0,1) missing, bin 1 = [1,3) mean 1 *)
Example C20_example_d11b :
  values_wig 3 [ {| w_start := 1; w_end := 2; w_val := 8 |} ] 0 3 (Some 2) Mean (FV 0) FNaN = Ok [OQ 0 1; OQ 8 1].
Proof. vm_compute. reflexivity. Qed.
(* a zoom level: record [0,4) mean 2 (min 1, max 3), record [5,8) with 2 covered bases, mean 0.5 (min 0, max 1) *)
Definition ex_recs : list zrec :=
  [ {| z_start := 0; z_end := 4; z_bases := 4; z_min := 8; z_max := 24; z_sum := 64 |};
    {| z_start := 5; z_end := 8; z_bases := 2; z_min := 0; z_max := 8; z_sum := 8 |} ].
Example C20_example_zoom_hyps : zoom_ok 0 8 ex_recs.
Proof. unfold ex_recs. cbn [zoom_ok]. repeat split; first [reflexivity | cbn; lia]. Qed.
(* 8 bases in 3 bins (edges 0 2 5 8), missing 2.5: means 2, 2, 0.5 -- the missing value does not enter *)
Example C20_example_zoom :
  values_wig_zoom true 8 ex_recs 0 8 3 Mean (FV 20) FNaN = Ok [OQ 32 2; OQ 32 2; OQ 12 3]
  /\ values_bed_zoom true 8 ex_recs 0 8 3 Mean (FV 20) FNaN = Ok [OQ 32 2; OQ 32 2; OQ 12 3]
  /\ values_bed_zoom false 8 ex_recs (-1) 9 4 Min (FV 20) (FV 56) = Ok [OQ 56 1; OQ 8 1; OQ 0 1; OQ 56 1]
  /\ values_wig_zoom false 8 ex_recs 3 7 4 Max (FV 20) (FV 56) = Ok [OQ 24 1; OQ 20 1; OQ 8 1; OQ 8 1].
Proof. repeat split; vm_compute; reflexivity. Qed.
(* the repaired D11g witnesses: one record [0,4) with mean = min = max = 1 in one bin: mean 1 with missing 2.5
   (was 3.5), min 1 with the default missing 0 (was 0) *)
Example C20_example_d11g :
  let r := [ {| z_start := 0; z_end := 4; z_bases := 4; z_min := 8; z_max := 8; z_sum := 32 |} ] in
  values_bed_zoom false 4 r 0 4 1 Mean (FV 20) FNaN = Ok [OQ 32 4]
  /\ values_bed_zoom false 4 r 0 4 1 Min (FV 0) FNaN = Ok [OQ 8 1].
Proof. split; vm_compute; reflexivity. Qed.
Example C20_example_clamp : clamp (-3) 20 8 = (0, 8) /\ clamp (-5) (-2) 8 = (0, 0) /\ clamp 9 12 8 = (9, 8).
Proof. repeat split. Qed.
