(* C20 -- Python-binding array routines compute the documented per-base and binned values.
   Only statements, closed by [exact], with Print Assumptions beneath each.

   Model/PyArrays.v: [values_wig] / [values_bed] are intervals_to_array / entries_to_array from the fetch
   clamp on (clamp, fetch through the reader's overlap filter, to_array / to_entry_array /
   to_array_bins / to_entry_array_bins with their VecDeque loop, out-of-bounds fill), branch for branch,
   panics explicit; [wig_at] / [bed_at] / [base_cell] / [bin_cell] / [stat_of] / [covered_vals] are the
   documentation of `values`.  Numbers are exact (eighths); a cell [OQ n d] is the exact quotient n/d.
   [wig_ok 0 len vals]: stored bigWig values lie in [0, len), are non-empty, disjoint and in start order;
   [bed_ok 0 len ents]: bigBed entries lie in [0, len], are non-empty, starts do not decrease (any overlap).
   [touch]: whether the bigBed reader also hands over entries that merely touch the fetched range (it does
   when their block is read at all) -- the theorems hold either way.
   Zoom mode (`exact = False`): [values_wig_zoom] / [values_bed_zoom] are the same wrappers with to_array_zoom /
   to_entry_array_zoom (after the repair 7cf302c) in the middle, on the records of the chosen zoom level;
   [zoom_ok 0 len recs]: the records lie in [0, len), are non-empty, disjoint and in start order (what C07/C08
   prove of a stored level), have at least one covered base and a mean sum/bases_covered that is exact in the
   model's unit; [zoom_cell] / [zoom_stat] / [zov] say what a bin reports.  [touch] as above (get_zoom_interval
   hands over touching records like the bigBed reader). *)
From BT Require Import Base.Util Model.PyArrays Proofs.PyArraysGeom Proofs.PyArraysCover Proofs.PyArraysBed
  Proofs.PyArraysValues Proofs.PyArraysZoom Proofs.PyArraysZoomValues.
Local Open Scope Z_scope.

(* The bin the routines pick for a base is the one whose whole-number span holds it, for every width. *)
Theorem C20_bin_index_spec : forall pos span bins, 0 <= pos < span -> 0 < bins ->
  let k := bin_index pos span bins in
  0 <= k < bins /\ bin_edge k span bins <= pos < bin_edge (k + 1) span bins.
Proof. exact bin_index_spec. Qed.
Print Assumptions C20_bin_index_spec.

(* Per base: for every range [s, e), also below 0 and past the chromosome end, every `missing` and `oob`
   (NaN included), the call does not panic and cell p - s is: oob outside [0, len); the stored value
   (bigWig) / the number of entries overlapping p (bigBed) where there is data; missing where there is none. *)
Theorem C20_per_base : forall touch len vals ents s e st missing oob,
  wig_ok 0 len vals -> bed_ok 0 len ents -> s < e ->
  values_wig len vals s e None st missing oob
    = Ok (map (base_cell (wig_at vals) len missing oob) (seqZ s (Z.to_nat (e - s))))
  /\ values_bed touch len ents s e None st missing oob
    = Ok (map (base_cell (bed_at ents) len missing oob) (seqZ s (Z.to_nat (e - s)))).
Proof. exact per_base_thm. Qed.
Print Assumptions C20_per_base.

(* Bins, exact mode, EVERY bin count 1..e-s (whole-number bin width or not): bin k spans
   [s + floor(k(e-s)/bins), s + floor((k+1)(e-s)/bins)); its cell is oob when the span holds a base outside
   [0, len), else the mean / min / max over the covered bases of the span, missing when none is covered. *)
Theorem C20_bins : forall touch len vals ents s e bins st missing oob,
  wig_ok 0 len vals -> bed_ok 0 len ents -> s < e -> 0 < bins <= e - s ->
  values_wig len vals s e (Some bins) st missing oob
    = Ok (map (fun k => bin_cell (wig_at vals) len st missing oob
                          (s + bin_edge k (e - s) bins) (s + bin_edge (k + 1) (e - s) bins))
              (seqZ 0 (Z.to_nat bins)))
  /\ values_bed touch len ents s e (Some bins) st missing oob
    = Ok (map (fun k => bin_cell (bed_at ents) len st missing oob
                          (s + bin_edge k (e - s) bins) (s + bin_edge (k + 1) (e - s) bins))
              (seqZ 0 (Z.to_nat bins))).
Proof. exact bins_thm. Qed.
Print Assumptions C20_bins.

(* Never NaN (nor an infinity) for finite data and finite missing / oob, per base and for every bin count:
   every cell is a number n/d with d > 0.  (Stored values are numbers by construction in the model.) *)
Theorem C20_bins_nan_free : forall touch len vals ents s e obins st m o,
  wig_ok 0 len vals -> bed_ok 0 len ents -> s < e ->
  match obins with Some bins => 0 < bins <= e - s | None => True end ->
  exists cw cb, values_wig len vals s e obins st (FV m) (FV o) = Ok cw
             /\ values_bed touch len ents s e obins st (FV m) (FV o) = Ok cb
             /\ Forall (fun c => exists n d, c = OQ n d /\ 0 < d) cw
             /\ Forall (fun c => exists n d, c = OQ n d /\ 0 < d) cb.
Proof. exact nan_free_thm. Qed.
Print Assumptions C20_bins_nan_free.

(* The requested portion outside the chromosome holds the out-of-bounds value: every base outside [0, len),
   and every bin whose span holds such a base. *)
Theorem C20_oob : forall touch len vals ents s e st missing oob,
  wig_ok 0 len vals -> bed_ok 0 len ents -> s < e ->
  (exists cw cb, values_wig len vals s e None st missing oob = Ok cw
              /\ values_bed touch len ents s e None st missing oob = Ok cb
              /\ forall p, s <= p < e -> p < 0 \/ len <= p ->
                   nth (Z.to_nat (p - s)) cw ONaN = out_of_fl oob /\ nth (Z.to_nat (p - s)) cb ONaN = out_of_fl oob)
  /\ forall bins, 0 < bins <= e - s ->
     exists cw cb, values_wig len vals s e (Some bins) st missing oob = Ok cw
                /\ values_bed touch len ents s e (Some bins) st missing oob = Ok cb
                /\ forall k, 0 <= k < bins ->
                     s + bin_edge k (e - s) bins < 0 \/ len < s + bin_edge (k + 1) (e - s) bins ->
                     nth (Z.to_nat k) cw ONaN = out_of_fl oob /\ nth (Z.to_nat k) cb ONaN = out_of_fl oob.
Proof. exact oob_thm. Qed.
Print Assumptions C20_oob.

(* ---- zoom mode (`exact = False`) *)

(* Bins from a zoom level, EVERY bin count 1..e-s: no panic; the cell of bin k (same spans as in exact mode) is
   oob when the span holds a base outside [0, len); `missing` when no record overlaps the span; else, over the
   records r overlapping it, with ov(r) = number of bases of r inside the span:
     mean = sum ov(r) * mean(r) / sum ov(r)     (mean(r) = sum / bases_covered; to_entry_array_zoom: max(mean(r), 0))
     min  = the smallest min_val,   max = the largest max_val.
   In particular the cell does not depend on `missing` where there is data (D11g). *)
Theorem C20_zoom_bins : forall touch len recs s e bins st missing oob,
  zoom_ok 0 len recs -> s < e -> 0 < bins <= e - s ->
  values_wig_zoom touch len recs s e bins st missing oob
    = Ok (map (fun k => zoom_cell zmean recs len st missing oob
                          (s + bin_edge k (e - s) bins) (s + bin_edge (k + 1) (e - s) bins))
              (seqZ 0 (Z.to_nat bins)))
  /\ values_bed_zoom touch len recs s e bins st missing oob
    = Ok (map (fun k => zoom_cell zmean0 recs len st missing oob
                          (s + bin_edge k (e - s) bins) (s + bin_edge (k + 1) (e - s) bins))
              (seqZ 0 (Z.to_nat bins))).
Proof. exact zoom_bins_thm. Qed.
Print Assumptions C20_zoom_bins.

(* The same said differently: zoom mode is exact mode applied to the step function that gives every base of a
   record the record's mean (resp. min_val, max_val) -- cell for cell the answer of the exact bigWig routine on
   those values. *)
Theorem C20_zoom_step_function : forall touch len recs s e bins st missing oob,
  zoom_ok 0 len recs -> s < e -> 0 < bins <= e - s ->
  values_wig_zoom touch len recs s e bins st missing oob
    = values_wig len (map (zwv false st) recs) s e (Some bins) st missing oob
  /\ values_bed_zoom touch len recs s e bins st missing oob
    = values_wig len (map (zwv true st) recs) s e (Some bins) st missing oob.
Proof. exact zoom_step_thm. Qed.
Print Assumptions C20_zoom_step_function.

(* `missing` where there is no data: a bin inside the chromosome that no record overlaps. *)
Theorem C20_zoom_missing : forall mval recs len st missing oob lo hi, 0 <= lo -> hi <= len ->
  (forall z, In z recs -> zov lo hi z <= 0) ->
  zoom_cell mval recs len st missing oob lo hi = out_of_fl missing.
Proof. exact zoom_missing_thm. Qed.
Print Assumptions C20_zoom_missing.

(* Never NaN (nor an infinity) for finite missing / oob: every cell is a number n/d with d > 0. *)
Theorem C20_zoom_nan_free : forall touch len recs s e bins st m o,
  zoom_ok 0 len recs -> s < e -> 0 < bins <= e - s ->
  exists cw cb, values_wig_zoom touch len recs s e bins st (FV m) (FV o) = Ok cw
             /\ values_bed_zoom touch len recs s e bins st (FV m) (FV o) = Ok cb
             /\ Forall (fun c => exists n d, c = OQ n d /\ 0 < d) cw
             /\ Forall (fun c => exists n d, c = OQ n d /\ 0 < d) cb.
Proof. exact zoom_nan_free_thm. Qed.
Print Assumptions C20_zoom_nan_free.

(* Every bin whose span holds a base outside [0, len) reads oob. *)
Theorem C20_zoom_oob : forall touch len recs s e bins st missing oob,
  zoom_ok 0 len recs -> s < e -> 0 < bins <= e - s ->
  exists cw cb, values_wig_zoom touch len recs s e bins st missing oob = Ok cw
             /\ values_bed_zoom touch len recs s e bins st missing oob = Ok cb
             /\ forall k, 0 <= k < bins ->
                  s + bin_edge k (e - s) bins < 0 \/ len < s + bin_edge (k + 1) (e - s) bins ->
                  nth (Z.to_nat k) cw ONaN = out_of_fl oob /\ nth (Z.to_nat k) cb ONaN = out_of_fl oob.
Proof. exact zoom_oob_thm. Qed.
Print Assumptions C20_zoom_oob.

(* ---- the wrappers' own arithmetic (the text make_glue cuts out of lib.rs is this, compiled) *)

(* The fetch clamp `(start.max(0), end.min(length).max(0))`: both ends fit a u32 and the fetched range is exactly
   the part of [s, e) inside the chromosome (empty when the range lies wholly outside). *)
Theorem C20_fetch_clamp : forall s e len p,
  let '(fs, fe) := clamp s e len in
  0 <= fs /\ 0 <= fe /\ (fs <= p < fe <-> (s <= p < e /\ 0 <= p < len)).
Proof. exact clamp_range. Qed.
Print Assumptions C20_fetch_clamp.

(* The out-of-bounds block on an array of nbins cells (any content): no index out of range, and exactly the
   cells of the bins whose span holds a base outside [0, len) are overwritten with oob. *)
Theorem C20_oob_layout : forall s e len nbins oob arr, s < e -> 0 < nbins <= e - s -> length arr = Z.to_nat nbins ->
  oob_fill s e len nbins oob arr
  = Ok (map (fun k => if (s + bin_edge k (e - s) nbins <? 0) || (len <? s + bin_edge (k + 1) (e - s) nbins)
                      then out_of_fl oob else nth (Z.to_nat k) arr ONaN)
            (seqZ 0 (Z.to_nat nbins))).
Proof. exact oob_layout. Qed.
Print Assumptions C20_oob_layout.

(* Non-vacuity: concrete layouts meet the hypotheses; a non-integral width (5 bases in 3 bins, edges 0 1 3 5),
   a range sticking out on both sides, overlapping entries. *)
Definition ex_vals : list wval :=
  [ {| w_start := 1; w_end := 3; w_val := 8 |}; {| w_start := 4; w_end := 5; w_val := 20 |} ].      (* 1.0, 2.5 *)
Definition ex_ents : list bent :=
  [ {| b_start := 0; b_end := 4 |}; {| b_start := 2; b_end := 3 |}; {| b_start := 2; b_end := 6 |} ].
Example C20_example_hyps : wig_ok 0 6 ex_vals /\ bed_ok 0 6 ex_ents.
Proof. cbn. lia. Qed.
Example C20_example_bins_wig :
  values_wig 6 ex_vals 0 5 (Some 3) Mean (FV (-8)) FNaN = Ok [OQ (-8) 1; OQ 16 2; OQ 20 1]      (* -1 (missing), 1, 2.5 *)
  /\ values_wig 6 ex_vals (-1) 7 (Some 3) Mean (FV 0) FNaN = Ok [ONaN; OQ 16 2; ONaN].           (* oob = NaN at both ends *)
Proof. split; vm_compute; reflexivity. Qed.
Example C20_example_bins_bed :
  values_bed true 6 ex_ents 0 5 (Some 2) Mean (FV 20) FNaN = Ok [OQ 16 2; OQ 48 3]                (* depths 1 1 | 3 2 1 *)
  /\ values_bed true 6 ex_ents 0 5 (Some 2) Min (FV 20) FNaN = Ok [OQ 8 1; OQ 8 1].
Proof. split; vm_compute; reflexivity. Qed.
Example C20_example_per_base :
  values_wig 6 ex_vals (-1) 7 None Mean (FV 0) (FV 56)
    = Ok [OQ 56 1; OQ 0 1; OQ 8 1; OQ 8 1; OQ 0 1; OQ 20 1; OQ 0 1; OQ 56 1]
  /\ values_bed false 6 ex_ents (-2) 8 None Mean (FV 20) (FV 56)
    = Ok [OQ 56 1; OQ 56 1; OQ 8 1; OQ 8 1; OQ 24 1; OQ 16 1; OQ 8 1; OQ 8 1; OQ 56 1; OQ 56 1].
Proof. split; vm_compute; reflexivity. Qed.
(* the repaired D11b witness: 3 bases in 2 bins, one value on [1,2): bin 0 = [0,1) missing, bin 1 = [1,3) mean 1 *)
Example C20_example_d11b :
  values_wig 3 [ {| w_start := 1; w_end := 2; w_val := 8 |} ] 0 3 (Some 2) Mean (FV 0) FNaN = Ok [OQ 0 1; OQ 8 1].
Proof. vm_compute. reflexivity. Qed.
(* a zoom level: record [0,4) mean 2 (min 1, max 3), record [5,8) with 2 covered bases, mean 0.5 (min 0, max 1) *)
Definition ex_recs : list zrec :=
  [ {| z_start := 0; z_end := 4; z_bases := 4; z_min := 8; z_max := 24; z_sum := 64 |};
    {| z_start := 5; z_end := 8; z_bases := 2; z_min := 0; z_max := 8; z_sum := 8 |} ].
Example C20_example_zoom_hyps : zoom_ok 0 8 ex_recs.
Proof. unfold ex_recs. cbn [zoom_ok]. repeat split; first [reflexivity | cbn; lia]. Qed.
(* 8 bases in 3 bins (edges 0 2 5 8), missing 2.5: means 2, 2, 0.5 -- the missing value does not enter *)
Example C20_example_zoom :
  values_wig_zoom true 8 ex_recs 0 8 3 Mean (FV 20) FNaN = Ok [OQ 32 2; OQ 32 2; OQ 12 3]
  /\ values_bed_zoom true 8 ex_recs 0 8 3 Mean (FV 20) FNaN = Ok [OQ 32 2; OQ 32 2; OQ 12 3]
  /\ values_bed_zoom false 8 ex_recs (-1) 9 4 Min (FV 20) (FV 56) = Ok [OQ 56 1; OQ 8 1; OQ 0 1; OQ 56 1]
  /\ values_wig_zoom false 8 ex_recs 3 7 4 Max (FV 20) (FV 56) = Ok [OQ 24 1; OQ 20 1; OQ 8 1; OQ 8 1].
Proof. repeat split; vm_compute; reflexivity. Qed.
(* the repaired D11g witnesses: one record [0,4) with mean = min = max = 1 in one bin: mean 1 with missing 2.5
   (was 3.5), min 1 with the default missing 0 (was 0) *)
Example C20_example_d11g :
  let r := [ {| z_start := 0; z_end := 4; z_bases := 4; z_min := 8; z_max := 8; z_sum := 32 |} ] in
  values_bed_zoom false 4 r 0 4 1 Mean (FV 20) FNaN = Ok [OQ 32 4]
  /\ values_bed_zoom false 4 r 0 4 1 Min (FV 0) FNaN = Ok [OQ 8 1].
Proof. split; vm_compute; reflexivity. Qed.
Example C20_example_clamp : clamp (-3) 20 8 = (0, 8) /\ clamp (-5) (-2) 8 = (0, 0) /\ clamp 9 12 8 = (9, 8).
Proof. repeat split. Qed.

(* ---- binary64: the sums are exact on the generator's domain -----------------------------------
   Model/PyArrays.v computes in exact arithmetic (values in eighths, a mean cell is the exact quotient
   [OQ sum count]); lib.rs accumulates in f64.  Model/PyArraysIeee.v writes the same accumulations with the
   IEEE operations of Base/Float.v (round to nearest even): for one bin of to_array_bins,
   [py_sum_ieee] = fold of  v += (overlap as f64) * value  over the bin's contributions (overlap size, value).
   Domain [py_in_domain l] (decidable; the generator's VALS8 and ranges lie far inside): overlap sizes >= 0,
   every value a multiple of 1/8 with |v| <= 1024 (8192 eighths), at most 2^24 covered bases.
   [gval E (-3) x k] (Proofs/FloatExact.v): x is finite, its exponent is >= E, and it denotes exactly k/8.
   (1) whatever pair carries each value (v64; e.g. what an f32 pattern decodes to, E = -149), the accumulated
       f64 is finite and denotes EXACTLY the model's whole-number sum: no rounding ever happens;
   (2) on the canonical carrier [f8 z] (z at exponent -3) the accumulated pair is literally [f8 sum], hence
   (3) the mean cell is Base/Float.v's division (the exact quotient rounded once) applied to exactly the
       numerator sum/8 and the denominator count of the model's cell -- the correctly rounded quotient the
       correspondence check compares the implementation's bit pattern with;
   (4) the sum stays below 2^37 eighths. *)
From BT Require Import Base.Float Model.PyArraysIeee Proofs.FloatExact Proofs.PyArraysIeee.

Theorem C20_sums_exact_in_domain : forall l : list (Z * Z), py_in_domain l = true ->
  (forall E (v64 : Z -> Float.fl), E <= -3 -> (forall t, In t l -> gval E (-3) (v64 (snd t)) (snd t)) ->
     gval E (-3) (py_sum_ieee ieee (lift v64 l)) (py_sum_exact l))
  /\ py_sum_ieee ieee (lift f8 l) = f8 (py_sum_exact l)
  /\ py_mean_ieee ieee (lift f8 l) = fdiv64 ieee (f8 (py_sum_exact l)) (f_of_Z (py_count l))
  /\ Z.abs (py_sum_exact l) <= 8192 * 2 ^ 24.
Proof.
  intros l Hd. split; [|split; [exact (py_sum_f8 l Hd)|split; [exact (py_mean_f8 l Hd)|]]].
  - intros E v64 HE Hv. apply py_sum_grid; [exact HE|apply mode_ok64_ieee; lia|exact Hd|exact Hv].
  - destruct (py_in_domain_spec l Hd) as (Hok & Hc). pose proof (py_sum_bound l Hok). lia.
Qed.
Print Assumptions C20_sums_exact_in_domain.

(* The tie to the routine: ONE bin [bs, be) of to_array_bins with Summary::Mean and the items that reach it.
   The model folds [wig_upd Mean] and finishes with [wig_fin]: cell = sum / count exactly ([fdiv] on [FV]);
   the binary64 twin folds [wig_mean_upd64 ieee] and finishes with v / (c as f64): the f64 cell is the rounded
   quotient of exactly that sum and that count.  [l] = the bin's contributions (overlap size, value). *)
Theorem C20_bin_mean_ieee : forall (is_ ie : wval -> Z) bs be iv r missing m64,
  let items := iv :: r in
  let l := wig_contribs is_ ie bs be items in
  py_in_domain l = true ->
  (exists d, foldM (fun d iv => wig_upd Mean (is_ iv) (ie iv) (w_val iv) bs be d) items None = Ok d
             /\ wig_fin Mean missing d = fdiv (FV (py_sum_exact l)) (py_count l))
  /\ wig_mean_fin64 ieee m64
       (fold_left (fun d iv => wig_mean_upd64 ieee (is_ iv) (ie iv) (f8 (w_val iv)) bs be d) items None)
     = fdiv64 ieee (f8 (py_sum_exact l)) (f_of_Z (py_count l)).
Proof. exact wig_mean_cell. Qed.
Print Assumptions C20_bin_mean_ieee.

(* to_entry_array_bins keeps one f64 depth cell per base of a bin: NaN or a count.  [cell_rel E x y]: the
   model cell x (NaN / a number in eighths) and the f64 y agree.  Domain [py_cells_in_domain]: at most 2^24
   cells, each NaN or at most 2^24 in size.  (1) the update  cell.max(0.0) + 1.0  is exact; (2) the final
   sum  cells.map(|c| c.max(0.0)).sum()  denotes exactly the model's [fsum0], for any carriers; (3) on canonical
   carriers it is literally [f8 sum]; (4) the model's mean cell is sum / covered exactly and the f64 cell the
   rounded quotient of exactly that sum and that count. *)
Theorem C20_entry_sums_exact_in_domain : forall cells : list PyArrays.fl, py_cells_in_domain cells = true ->
  (forall E x y, E <= -3 -> cell_rel E x y -> cell_z x + 8 < 2 ^ 53 ->
     cell_rel E (PyArrays.fadd (PyArrays.fmax x (FV 0)) (FV 8)) (bed_cell_upd64 ieee y))
  /\ (forall E ys, E <= -3 -> Forall2 (cell_rel E) cells ys -> gval E (-3) (bed_sum64 ieee ys) (bed_sum_exact cells))
  /\ fsum0 cells = FV (bed_sum_exact cells)
  /\ bed_sum64 ieee (map c64 cells) = f8 (bed_sum_exact cells)
  /\ (forall missing m64 cov, existsb (fun c => 0 <? c) cov = true ->
        bed_fin Mean missing (cov, cells) = fdiv (FV (bed_sum_exact cells)) (fold_left Z.add cov 0)
        /\ bed_mean64 ieee m64 cov (map c64 cells) = fdiv64 ieee (f8 (bed_sum_exact cells)) (f_of_Z (fold_left Z.add cov 0))).
Proof.
  intros cells Hd. split; [|split; [|split; [exact (fsum0_exact cells)|split; [exact (bed_sum_f8 cells Hd)|]]]].
  - intros E x y HE Hr Hb. apply bed_cell_step; [exact HE|apply mode_ok64_ieee; lia|exact Hr|exact Hb].
  - intros E ys HE Hr. apply bed_sum_grid; [exact HE|apply mode_ok64_ieee; lia|exact Hd|exact Hr].
  - intros missing m64 cov He. exact (bed_mean_cell missing m64 cov cells Hd He).
Qed.
Print Assumptions C20_entry_sums_exact_in_domain.

(* Non-vacuity.  A bin receiving 3 bases of 2.5, 2 bases of -2.0 and nothing of a third item: in the domain;
   exact sum 28 eighths over 5 bases; the IEEE accumulation on canonical carriers and on f32-style carriers
   (mantissa scaled by 2^20, exponent -23) both denote 28/8; the mean cell is the f64 0.7 = 3.5 / 5 bit for bit.
   Outside the domain the claim is false: 2^53 eighths plus one more is rounded. *)
Definition ex_contribs : list (Z * Z) := [(3, 20); (2, -16); (0, 8)].
Definition ex_v32 (z : Z) : Float.fl := FFin (z * 1048576) (-23).
Example C20_example_sums :
  py_in_domain ex_contribs = true /\ py_sum_exact ex_contribs = 28 /\ py_count ex_contribs = 5
  /\ (forall t, In t ex_contribs -> gval (-149) (-3) (ex_v32 (snd t)) (snd t))
  /\ py_sum_ieee ieee (lift f8 ex_contribs) = FFin 28 (-3)
  /\ py_sum_ieee ieee (lift ex_v32 ex_contribs) = FFin 29360128 (-23) /\ gk (-149) (-3) (FFin 29360128 (-23)) = 28
  /\ bits_of_f64 (py_mean_ieee ieee (lift f8 ex_contribs)) = 4604480259023595110%N
  /\ py_in_domain [(1, 2 ^ 53); (1, 1)] = false
  /\ py_sum_ieee ieee (lift f8 [(1, 2 ^ 53); (1, 1)]) <> f8 (py_sum_exact [(1, 2 ^ 53); (1, 1)]).
Proof.
  split; [vm_compute; reflexivity|]. split; [reflexivity|]. split; [reflexivity|]. split.
  { intros t [<-|[<-|[<-|[]]]]; (split; [cbn; lia|vm_compute; reflexivity]). }
  split; [vm_compute; reflexivity|]. split; [vm_compute; reflexivity|]. split; [vm_compute; reflexivity|].
  split; [vm_compute; reflexivity|]. split; [vm_compute; reflexivity|]. vm_compute. discriminate.
Qed.
(* ... the bin [2,5) of the items of C20_example_bins_wig's shape through the routine's update: model cell and f64 cell *)
Example C20_example_bin_mean :
  let items := [ {| w_start := 0; w_end := 3; w_val := 20 |}; {| w_start := 3; w_end := 6; w_val := -16 |} ] in
  py_in_domain (wig_contribs w_start w_end 2 5 items) = true
  /\ foldM (fun d iv => wig_upd Mean (w_start iv) (w_end iv) (w_val iv) 2 5 d) items None = Ok (Some (3, FV (-12)))
  /\ wig_fin Mean PyArrays.FNaN (Some (3, FV (-12))) = OQ (-12) 3
  /\ bits_of_f64 (wig_mean_fin64 ieee Float.FNaN
       (fold_left (fun d iv => wig_mean_upd64 ieee (w_start iv) (w_end iv) (f8 (w_val iv)) 2 5 d) items None))
     = 13826050856027422720%N.                                    (* -0.5 *)
Proof. cbv zeta. split; [vm_compute; reflexivity|]. split; [reflexivity|]. split; vm_compute; reflexivity. Qed.
(* depth cells 1, NaN, 3, 2 of a 4-base bin with 3 covered bases: sum 48 eighths, mean 6/3 = 2.0 *)
Example C20_example_entry_sums :
  let cells := [FV 8; PyArrays.FNaN; FV 24; FV 16] in
  py_cells_in_domain cells = true /\ bed_sum_exact cells = 48 /\ bed_sum64 ieee (map c64 cells) = FFin 48 (-3)
  /\ bed_fin Mean PyArrays.FNaN ([1; 0; 1; 1], cells) = OQ 48 3
  /\ bits_of_f64 (bed_mean64 ieee Float.FNaN [1; 0; 1; 1] (map c64 cells)) = 4611686018427387904%N
  /\ cell_rel (-3) (PyArrays.fadd (PyArrays.fmax PyArrays.FNaN (FV 0)) (FV 8)) (bed_cell_upd64 ieee Float.FNaN).
Proof.
  cbv zeta. split; [vm_compute; reflexivity|]. split; [reflexivity|]. split; [vm_compute; reflexivity|].
  split; [vm_compute; reflexivity|]. split; [vm_compute; reflexivity|]. split; [cbn; lia|vm_compute; reflexivity].
Qed.

(* ================= the WRITTEN FILE as the subject (Proofs/PyArraysFile.v) =================
   Above, [values_wig] / [values_bed] take the stored items of the chromosome and filter them as the readers do.  Here
   the middle of the wrappers is the READER MODEL on a byte image: [PyArraysFile.values_wig_file num infl bs i c ...] /
   [values_bed_file infl f i c ...] look the chromosome's length up in the table read from the file ([chrom_len]; unknown
   chromosome: refused), clamp the request to [max s 0, max (min e len) 0) (C20_fetch_clamp), ask [bw_interval] /
   [bb_interval] ON THE BYTES for that range (cast to u32), hand the answer to the array routine and run the
   out-of-bounds block.  For the bytes returned by the writer models (bigWig: [bw_write] / [bw_write_multipass] under
   C01's hypotheses; bigBed: [bb_write] / [bb_write_multipass] under C02's [file_hyps]) the reader's answer is the
   filter of the data that was WRITTEN (C01_query_on_input; C04_written_file_query), so the array is stated in terms
   of the input: [vals_of inp c] (the input's values for c, input order) resp. the run [(c, es)] of the input.
   bigBed: the reader returns every entry that overlaps OR MERELY TOUCHES the fetched range ([bkeep]); that is the model's
   [fetch_bed true], and the theorems above hold for either [touch].
   [num] = the number (eighths) a stored f32 pattern stands for, [infl] the decompressor (files are uncompressed): arbitrary. *)
From BT Require Model.BBIFile Model.BigWigWrite Model.BBIRead Model.BigBedWrite Model.BBIReadBed Proofs.RTreeCodec
  Proofs.BigWigFileChroms Proofs.BigWigFileRoundTrip Proofs.BigWigFileInput Proofs.BedEndToEnd Proofs.BedZoomFit Proofs.PyArraysFile.

(* EVERY call of the wrapper on the written bytes (any range, also end <= start; per base or any bin count; any statistic,
   missing, oob) is the wrapper on the written values, and the length it clamps against is the supplied chromosome length *)
Theorem C20_values_wig_written : forall fp o sizes inp bs,
  BigWigFileRoundTrip.opts_ok o -> BigWigFileRoundTrip.input_ok sizes inp -> (Nlen bs < RTreeCodec.U64)%N ->
  BigWigWrite.bw_write fp o sizes inp = Ok bs \/ BigWigWrite.bw_write_multipass fp o sizes inp = Ok bs ->
  exists i, BBIRead.read_info bs = Ok i /\
  forall num infl c, In c (map fst inp) ->
  PyArraysFile.chrom_len i c = Some (Z.of_N (BigWigFileChroms.len_of sizes c)) /\
  forall s e bins st missing oob,
    PyArraysFile.values_wig_file num infl bs i c s e bins st missing oob =
    values_wig (Z.of_N (BigWigFileChroms.len_of sizes c)) (map (PyArraysFile.wv_of num) (BigWigFileInput.vals_of inp c))
      s e bins st missing oob.
Proof. exact PyArraysFile.values_wig_written. Qed.
Print Assumptions C20_values_wig_written.

Theorem C20_values_bed_written : forall two_pass fp o sizes autosql input f,
  BedZoomFit.bb_write_either two_pass fp o sizes autosql input = Ok f -> BedEndToEnd.file_hyps o sizes input f ->
  exists i, BBIRead.read_info f = Ok i /\
  forall infl c es, In (c, es) (BigBedWrite.bruns input) ->
  exists len, BBIFile.lookup c sizes = Some len /\ PyArraysFile.chrom_len i c = Some (Z.of_N len) /\
  forall s e bins st missing oob,
    PyArraysFile.values_bed_file infl f i c s e bins st missing oob =
    values_bed true (Z.of_N len) (map PyArraysFile.be_of es) s e bins st missing oob.
Proof. exact PyArraysFile.values_bed_written. Qed.
Print Assumptions C20_values_bed_written.

(* C20_per_base and C20_bins with the bytes as the subject, bigWig.  The written values of the chromosome are accepted
   by the writer (start <= end <= length, no overlap: C01_accepted_runs); C20's [wig_ok] also wants them non-empty. *)
Theorem C20_values_file : forall fp o sizes inp bs,
  BigWigFileRoundTrip.opts_ok o -> BigWigFileRoundTrip.input_ok sizes inp -> (Nlen bs < RTreeCodec.U64)%N ->
  BigWigWrite.bw_write fp o sizes inp = Ok bs \/ BigWigWrite.bw_write_multipass fp o sizes inp = Ok bs ->
  exists i, BBIRead.read_info bs = Ok i /\
  forall num infl c, In c (map fst inp) ->
  Forall (fun v => (BigWigWrite.v_start v < BigWigWrite.v_end v)%N) (BigWigFileInput.vals_of inp c) ->
  let len := Z.of_N (BigWigFileChroms.len_of sizes c) in
  let vals := map (PyArraysFile.wv_of num) (BigWigFileInput.vals_of inp c) in
  forall s e st missing oob, s < e ->
  PyArraysFile.values_wig_file num infl bs i c s e None st missing oob
    = Ok (map (base_cell (wig_at vals) len missing oob) (seqZ s (Z.to_nat (e - s))))
  /\ forall bins, 0 < bins <= e - s ->
     PyArraysFile.values_wig_file num infl bs i c s e (Some bins) st missing oob
       = Ok (map (fun k => bin_cell (wig_at vals) len st missing oob
                             (s + bin_edge k (e - s) bins) (s + bin_edge (k + 1) (e - s) bins))
                 (seqZ 0 (Z.to_nat bins))).
Proof. exact PyArraysFile.values_file_wig. Qed.
Print Assumptions C20_values_file.

(* ... bigBed.  [bed_ok 0 len (map be_of es)]: the run's entries are non-empty, end inside the chromosome and start in
   non-decreasing order (the writer checks the order and start < length, not the end: notes/C02.md). *)
Theorem C20_values_file_bed : forall two_pass fp o sizes autosql input f,
  BedZoomFit.bb_write_either two_pass fp o sizes autosql input = Ok f -> BedEndToEnd.file_hyps o sizes input f ->
  exists i, BBIRead.read_info f = Ok i /\
  forall infl c es, In (c, es) (BigBedWrite.bruns input) ->
  exists len, BBIFile.lookup c sizes = Some len /\
  (bed_ok 0 (Z.of_N len) (map PyArraysFile.be_of es) ->
   forall s e st missing oob, s < e ->
   PyArraysFile.values_bed_file infl f i c s e None st missing oob
     = Ok (map (base_cell (bed_at (map PyArraysFile.be_of es)) (Z.of_N len) missing oob) (seqZ s (Z.to_nat (e - s))))
   /\ forall bins, 0 < bins <= e - s ->
      PyArraysFile.values_bed_file infl f i c s e (Some bins) st missing oob
        = Ok (map (fun k => bin_cell (bed_at (map PyArraysFile.be_of es)) (Z.of_N len) st missing oob
                              (s + bin_edge k (e - s) bins) (s + bin_edge (k + 1) (e - s) bins))
                  (seqZ 0 (Z.to_nat bins)))).
Proof. exact PyArraysFile.values_file_bed. Qed.
Print Assumptions C20_values_file_bed.

(* non-vacuity: PyArraysFile.values_file_example_hyps (every hypothesis met: bigWig of two chromosomes / three sections,
   bigBed with overlapping and nested entries) and values_file_example_run, evaluated by vm_compute from the input through
   the bytes: bigWig range [-2,14) per base and [2,12) in 3 bins of unequal width; unknown chromosome refused; the bigBed
   reader asked for [20,30) returns two entries that only touch the range, and they leave the array untouched *)
Example C20_values_file_example :
  match BBIRead.read_info PyArraysFile.pf_wbytes with
  | Ok i =>
      PyArraysFile.values_wig_file PyArraysFile.pf_num (fun x => x) PyArraysFile.pf_wbytes i [97%N] (-2) 14 None Mean (FV 20) PyArrays.FNaN =
        Ok [ONaN; ONaN; OQ 12 1; OQ 12 1; OQ 12 1; OQ 12 1; OQ 8 1; OQ 8 1; OQ 20 1; OQ 20 1; OQ 20 1;
            OQ (-12) 1; OQ (-12) 1; OQ (-12) 1; ONaN; ONaN] /\
      PyArraysFile.values_wig_file PyArraysFile.pf_num (fun x => x) PyArraysFile.pf_wbytes i [97%N] 2 12 (Some 3) Mean (FV 20) PyArrays.FNaN =
        Ok [OQ 32 3; OQ 8 1; OQ (-36) 3] /\
      PyArraysFile.values_wig_file PyArraysFile.pf_num (fun x => x) PyArraysFile.pf_wbytes i [99%N] 2 12 (Some 3) Mean (FV 20) PyArrays.FNaN =
        Err PyArraysFile.E_NOCHROM_PY
  | _ => False
  end /\
  match BBIRead.read_info PyArraysFile.pf_bbytes with
  | Ok i =>
      BBIReadBed.bb_interval (fun x => x) PyArraysFile.pf_bbytes i [99%N] 20 30 = Ok [PyArraysFile.pf_e 5 20; PyArraysFile.pf_e 30 40] /\
      PyArraysFile.values_bed_file (fun x => x) PyArraysFile.pf_bbytes i [99%N] 4 12 None Mean (FV 20) PyArrays.FNaN =
        Ok [OQ 8 1; OQ 24 1; OQ 24 1; OQ 24 1; OQ 16 1; OQ 16 1; OQ 8 1; OQ 8 1] /\
      PyArraysFile.values_bed_file (fun x => x) PyArraysFile.pf_bbytes i [99%N] 4 12 (Some 2) Mean (FV 20) PyArrays.FNaN = Ok [OQ 80 4; OQ 48 4] /\
      PyArraysFile.values_bed_file (fun x => x) PyArraysFile.pf_bbytes i [99%N] 20 44 (Some 3) Max (FV 20) PyArrays.FNaN = Ok [OQ 20 1; OQ 8 1; ONaN]
  | _ => False
  end.
Proof. exact PyArraysFile.values_file_example_run. Qed.
