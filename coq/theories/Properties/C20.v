(* C20 -- Python-binding array routines compute the documented per-base and binned values.
   Only statements, closed by [exact], with Print Assumptions beneath each. *)
From BT Require Import Base.Util Model.PyArrays Proofs.PyArraysGeom.
Local Open Scope Z_scope.

(* The bin the routines pick for a base is the one whose whole-number span holds it, for every width. *)
Theorem C20_bin_index_spec : forall pos span bins, 0 <= pos < span -> 0 < bins ->
  let k := bin_index pos span bins in
  0 <= k < bins /\ bin_edge k span bins <= pos < bin_edge (k + 1) span bins.
Proof. exact bin_index_spec. Qed.
Print Assumptions C20_bin_index_spec.
