(* C03 — bigWig range queries: exactly the overlapping values, clipped, in order; history
   independent.  Statements only, each closed by [exact]. *)
From BT Require Import Base.Util Base.LE Base.Float Generated.Consts Model.RTree Model.BBIFile Model.BigWigWrite
  Model.BBIRead Model.CachedRead Proofs.Chunks Proofs.BigWigQuery Proofs.CachedReadInv.
Local Open Scope N_scope.

(* ---- history independence (for every decompressor, every byte image, every header) ---- *)

(* one step of the caching reader — interval, per-base or zoom query — from a cache in which every
   entry equals a fresh read of its key: the answer is the stateless reader's answer and the new
   cache (after an insertion, or after the reset at CACHE_LIMIT entries plus an insertion) is
   again such a cache *)
Theorem C03_step : forall infl bs i c q, cache_ok infl bs i c ->
  fst (qstep infl bs i c q) = fresh_answer infl bs i q /\ cache_ok infl bs i (snd (qstep infl bs i c q)).
Proof. exact qstep_spec. Qed.
Print Assumptions C03_step.

(* every finite query sequence against one caching reader, and every second sequence against a
   reader reopened from it afterwards: each answer is the stateless answer *)
Theorem C03_history : forall infl bs i qs1 qs2,
  fst (qrun infl bs i cache0 qs1) = map (fresh_answer infl bs i) qs1
  /\ fst (qrun infl bs i (c_reopen (snd (qrun infl bs i cache0 qs1))) qs2) = map (fresh_answer infl bs i) qs2.
Proof. exact history_independent. Qed.
Print Assumptions C03_history.
