(* C03 — bigWig range queries: exactly the overlapping values, clipped, in order; the per-base
   array agrees; history independent.  Statements only, each closed by [exact].

   Levels:  (a) one block: bytes of encode_section -> get_block_values  (C03_section_codec, C03_block_decode)
            (b) image: data sections + the index bytes of write_index over exactly those sections,
                anywhere in an image, for every block store (identity or a round-tripping compressor)
                -> bw_interval = clip_filter  (C03_query_image; uses C05_search_bytes_eq_scan)
            (c) the files bw_write / bw_write_multipass produce (header, chromosome tree, data, index:
                C01's whole-file round trip, Proofs/BigWigFileThms.v) -> C03_query, C03_values
            (d) shape of answers (C03_sorted_clipped), per-base array (C03_values_array)
            (e) the caching reader as a state machine: C03_step, C03_history, C03_history_written
            (f) (c) and (e) on COMPRESSED files, for every round-tripping compressor/decompressor pair:
                C03_query_compressed, C03_values_compressed, C03_history_written_compressed. *)
From BT Require Import Base.Util Base.Sexp Base.LE Base.Float Generated.Consts Model.RTree Model.BBIFile Model.BigWigWrite
  Model.BBIRead Model.CachedRead Model.Entry_C03 Proofs.Chunks Proofs.BigWigQuery Proofs.RTreeCodec Proofs.CachedReadInv
  Proofs.BigWigSection Proofs.C03Image Proofs.BigWigValues Proofs.BigWigFileRoundTrip Proofs.BigWigFileThms Proofs.C03Written.
From Coq Require Import Sorting.Sorted.
Local Open Scope N_scope.

(* ---- (a) one block ---- *)
(* item codec round trip: the 12-byte little-endian items of a section parse back to the items
   (start, end, f32 bit pattern all < 2^32), whatever follows them *)
Theorem C03_section_codec : forall l rest, Forall BigWigSection.value_ok l ->
  parse_type1 false (length l) (flat_map value_bytes l ++ rest) = l.
Proof. exact parse_type1_ok. Qed.
Print Assumptions C03_section_codec.

(* get_block_values on the bytes of an encoded section: the section's items filtered by strict
   overlap with [s,e) and clipped, or "other chromosome" *)
Theorem C03_block_decode : forall i cid st en items chrom s e,
  h_big (i_hdr i) = false -> cid < U32 -> st < U32 -> Nlen items < U16 -> Forall BigWigSection.value_ok items ->
  block_values_of i (section_header cid st en (Nlen items) ++ flat_map value_bytes items) chrom s e
  = Ok (if cid =? chrom then Some (clip_filter s e items) else None).
Proof. exact section_roundtrip. Qed.
Print Assumptions C03_block_decode.

(* ---- (b) any image holding the writer's sections and their index ---- *)
Theorem C03_query_image : forall (infl store : list N -> list N) (b ips : N) (outs : list chrom_out)
    (pre mid post ix : list N) (lv : nat) (i : info) (c : chrom_out) (cn : name) (s e : N),
  let abs := file_ablocks (N.to_nat ips) outs in
  let data := map (ab_sdata store) abs in
  let ixpos := Nlen (pre ++ data_bytes data ++ mid) in
  let bs := pre ++ data_bytes data ++ mid ++ ix ++ post in
  write_index b ips ixpos (place (Nlen pre) data) = Ok (ix, lv) ->
  Nlen bs < U64 ->
  h_big (i_hdr i) = false ->
  (forall x, (if 0 <? h_ubuf (i_hdr i) then infl (store x) else store x) = x) ->
  h_full_index_off (i_hdr i) = ixpos ->
  chrom_id i cn = Ok (co_id c) ->
  2 <= b <= 65535 -> 0 < ips < U16 ->
  ids_increasing outs -> Forall (out_ok ips) outs ->
  In c outs -> co_vals c <> [] ->
  bw_interval infl bs i cn s e = Ok (clip_filter s e (co_vals c)).
Proof. exact interval_on_image. Qed.
Print Assumptions C03_query_image.

(* ---- (c) the files the writer models produce ---- *)
(* for every accepted input and option set, both pass modes: the written bytes open, and for every
   chromosome run (c, vs) of the input and EVERY s, e (no side condition) the interval query returns
   map (clip s e) (filter (fun v => s <? v.end && v.start <? e) vs), for every decompressor *)
Theorem C03_query : forall fp o sizes inp bs,
  bw_write fp o sizes inp = Ok bs \/ bw_write_multipass fp o sizes inp = Ok bs ->
  opts_ok o -> input_ok sizes inp -> Nlen bs < U64 ->
  exists i, read_info bs = Ok i /\
    forall infl c vs s e, In (c, vs) (runs inp) -> bw_interval infl bs i c s e = Ok (clip_filter s e vs).
Proof. exact written_interval. Qed.
Print Assumptions C03_query.

(* ... and values(c, s, e), s <= e, is the array of length e-s that has at offset j the value of
   the stored item covering base s+j, None (NaN) where none does *)
Theorem C03_values : forall fp o sizes inp bs,
  bw_write fp o sizes inp = Ok bs \/ bw_write_multipass fp o sizes inp = Ok bs ->
  opts_ok o -> input_ok sizes inp -> Nlen bs < U64 ->
  exists i, read_info bs = Ok i /\
    forall infl c vs s e, In (c, vs) (runs inp) -> s <= e -> bw_values infl bs i c s e = Ok (spec_values s e vs).
Proof. exact written_values. Qed.
Print Assumptions C03_values.

(* ---- (d) shape of an answer; the array ---- *)
(* the answer is ascending and pairwise disjoint, every item lies inside [s,e] with start <= end,
   is non-empty when the range is non-empty and no stored value is empty, and is the clip of a
   stored value that overlaps the range *)
Theorem C03_sorted_clipped : forall len s e vals, wf_vals len vals -> s <= e ->
  let ans := clip_filter s e vals in
  StronglySorted before ans
  /\ Forall (fun a => s <= v_start a /\ v_start a <= v_end a /\ v_end a <= e) ans
  /\ (s < e -> Forall (fun v => v_start v < v_end v) vals -> Forall (fun a => v_start a < v_end a) ans)
  /\ Forall (fun a => exists v, In v vals /\ keep s e v = true /\ a = clip s e v) ans.
Proof. exact answer_shape. Qed.
Print Assumptions C03_sorted_clipped.

(* values()'s fill of the clipped answer = the per-base specification, read pointwise below *)
Theorem C03_values_array : forall len s e vals, wf_vals len vals -> s <= e ->
  fill_values s e (clip_filter s e vals) = spec_values s e vals.
Proof. exact values_spec. Qed.
Print Assumptions C03_values_array.

Theorem C03_values_pointwise : forall s e vals j, (j < N.to_nat (e - s))%nat ->
  nth_error (spec_values s e vals) j
  = Some (match find (cover (s + N.of_nat j)) vals with Some v => Some (v_bits v) | None => None end).
Proof. exact spec_values_nth. Qed.
Print Assumptions C03_values_pointwise.

(* the covering item is unique *)
Theorem C03_cover_unique : forall len vals p v w, wf_vals len vals -> In v vals -> In w vals ->
  cover p v = true -> cover p w = true -> v = w.
Proof. exact cover_unique. Qed.
Print Assumptions C03_cover_unique.

(* ---- (e) history independence (for every decompressor, every byte image, every header) ---- *)
(* one step of the caching reader — interval, per-base or zoom query — from a cache in which every
   entry equals a fresh read of its key: the answer is the stateless reader's answer and the new
   cache (after insertions, or after the reset at CACHE_LIMIT entries plus an insertion) is again
   such a cache *)
Theorem C03_step : forall infl bs i c q, cache_ok infl bs i c ->
  fst (qstep infl bs i c q) = fresh_answer infl bs i q /\ cache_ok infl bs i (snd (qstep infl bs i c q)).
Proof. exact qstep_spec. Qed.
Print Assumptions C03_step.

(* the block read that may clear the map: same bytes as a fresh read, invariant kept *)
Theorem C03_block_read_reset : forall infl bs i c b, cache_ok infl bs i c ->
  fst (c_block_data infl i bs c b) = block_data infl i bs b /\ cache_ok infl bs i (snd (c_block_data infl i bs c b)).
Proof. exact c_block_data_spec. Qed.
Print Assumptions C03_block_read_reset.

(* ... after any history, and after reopening and any second history, neither map holds a key
   twice and the block map holds at most CACHE_LIMIT blocks (so the association lists of the model
   have the HashMaps' content and length); re-checked against the limit in Generated/Consts.v *)
Theorem C03_cache_bounded : forall infl bs i qs1 qs2,
  cache_small (snd (qrun infl bs i cache0 qs1))
  /\ cache_small (snd (qrun infl bs i (c_reopen (snd (qrun infl bs i cache0 qs1))) qs2)).
Proof. intros infl bs i. exact (reachable_small infl bs i eq_refl). Qed.
Print Assumptions C03_cache_bounded.

Theorem C03_reopen : forall infl bs i c, cache_ok infl bs i c -> cache_ok infl bs i (c_reopen c).
Proof. exact reopen_ok. Qed.
Print Assumptions C03_reopen.

(* every finite query sequence against one caching reader, and every second sequence against a
   reader reopened from it afterwards: each answer is the stateless answer *)
Theorem C03_history : forall infl bs i qs1 qs2,
  fst (qrun infl bs i cache0 qs1) = map (fresh_answer infl bs i) qs1
  /\ fst (qrun infl bs i (c_reopen (snd (qrun infl bs i cache0 qs1))) qs2) = map (fresh_answer infl bs i) qs2.
Proof. exact history_independent. Qed.
Print Assumptions C03_history.

(* on a written file: whatever was asked before, through the caching reader or a reopened one, an
   interval / per-base query on a chromosome of the file is answered by the specification *)
Theorem C03_history_written : forall fp o sizes inp bs,
  bw_write fp o sizes inp = Ok bs \/ bw_write_multipass fp o sizes inp = Ok bs ->
  opts_ok o -> input_ok sizes inp -> Nlen bs < U64 ->
  exists i, read_info bs = Ok i /\
  forall infl,
    (forall qs1 qs2,
        fst (qrun infl bs i cache0 qs1) = map (fresh_answer infl bs i) qs1
        /\ fst (qrun infl bs i (c_reopen (snd (qrun infl bs i cache0 qs1))) qs2) = map (fresh_answer infl bs i) qs2)
    /\ (forall c vs s e, In (c, vs) (runs inp) ->
          fresh_answer infl bs i (QInterval c s e) = AInterval (Ok (clip_filter s e vs))
          /\ (s <= e -> fresh_answer infl bs i (QValues c s e) = AValues (Ok (spec_values s e vs)))).
Proof. exact written_history. Qed.
Print Assumptions C03_history_written.

(* ---- non-vacuity: a two-chromosome file with three data blocks (items_per_slot = 2) ---- *)
Definition ex_opts : opts :=
  {| o_compress := false; o_ips := 2; o_bs := 2; o_izoom := 160; o_maxzooms := 10; o_manual := Some []; o_sort_all := true |}.
Definition ex_a : name := [97].
Definition ex_b : name := [98].
Definition ex_sizes : list (name * N) := [(ex_b, 50); (ex_a, 40)].
Definition ex_v (s e b : N) : value := {| v_start := s; v_end := e; v_bits := b |}.
Definition ex_inp : list item :=
  [(ex_a, ex_v 2 10 1065353216); (ex_a, ex_v 10 12 1073741824); (ex_a, ex_v 20 30 1077936128); (ex_b, ex_v 0 5 1082130432)].

Example C03_example_hyps :
  opts_ok ex_opts /\ input_ok ex_sizes ex_inp
  /\ runs ex_inp = [(ex_a, [ex_v 2 10 1065353216; ex_v 10 12 1073741824; ex_v 20 30 1077936128]); (ex_b, [ex_v 0 5 1082130432])]
  /\ exists bs, bw_write ieee ex_opts ex_sizes ex_inp = Ok bs /\ Nlen bs < U64 /\ Nlen bs = 734.
Proof.
  split; [unfold opts_ok; cbn; lia|]. split.
  - unfold input_ok.
    split; [repeat constructor; cbn; try lia; repeat constructor; discriminate|].
    split; [vm_compute; reflexivity|]. split; repeat constructor; cbn; unfold U32; lia.
  - split; [reflexivity|]. eexists. split; [vm_compute; reflexivity|]. split; vm_compute; reflexivity.
Qed.

Definition idf (l : list N) : list N := l.

(* the reader model run on those bytes: a range inside one value; a range ending exactly on the
   boundary between the first and the second block; an empty range; the per-base array; and the
   same four through one caching reader, then through a reopened one in reverse order *)
Example C03_example_run :
  match bw_write ieee ex_opts ex_sizes ex_inp with
  | Ok bs =>
      match read_info bs with
      | Ok i =>
          bw_interval idf bs i ex_a 4 6 = Ok [ex_v 4 6 1065353216]
          /\ bw_interval idf bs i ex_a 0 12 = Ok [ex_v 2 10 1065353216; ex_v 10 12 1073741824]
          /\ bw_interval idf bs i ex_a 9 21 = Ok [ex_v 9 10 1065353216; ex_v 10 12 1073741824; ex_v 20 21 1077936128]
          /\ bw_interval idf bs i ex_a 15 15 = Ok []
          /\ bw_values idf bs i ex_a 8 14 = Ok [Some 1065353216; Some 1065353216; Some 1073741824; Some 1073741824; None; None]
          /\ let qs := [QInterval ex_a 4 6; QValues ex_a 8 14; QInterval ex_a 9 21; QInterval ex_b 0 50; QInterval ex_a 4 6] in
             let '(a1, c1) := qrun idf bs i cache0 qs in
             a1 = map (fresh_answer idf bs i) qs
             /\ length (c_blocks c1) = 3%nat /\ length (c_nodes c1) = 3%nat
             /\ fst (qrun idf bs i (c_reopen c1) (rev qs)) = map (fresh_answer idf bs i) (rev qs)
      | _ => False
      end
  | _ => False
  end.
Proof. vm_compute. repeat split; reflexivity. Qed.

(* the reset branch itself, on a cache that is full: the block comes from the file, the map is
   cleared and holds exactly the new block (CACHE_LIMIT entries of a dummy block fill the map) *)
Example C03_example_reset :
  let full := {| c_nodes := []; c_blocks := repeatN ((7, 7), []) (N.to_nat CACHE_LIMIT) |} in
  let img := [1; 2; 3; 4; 5] in
  let i := {| i_hdr := {| h_big := false; h_bigwig := true; h_version := 4; h_zoom_levels := 0; h_chrom_tree_off := 0;
                          h_full_data_off := 0; h_full_index_off := 0; h_field_count := 0; h_defined_fc := 0;
                          h_asql_off := 0; h_summary_off := 0; h_ubuf := 0 |}; i_zooms := []; i_chroms := [] |} in
  c_block_data idf i img full (1, 3) = (Ok [2; 3; 4], {| c_nodes := []; c_blocks := [((1, 3), [2; 3; 4])] |}).
Proof. vm_compute. reflexivity. Qed.

(* ------------------------------------------------------------------------------------------
   (f) COMPRESSED FILES.  Model/BigWigWriteZ.v (owned by C09) is the writer model with the block
   compressor as a parameter (bw_write_z cmp / bw_write_multipass_z cmp: every data and zoom section
   through [cmp] when options.compress is set, uncompress_buf_size as bbiwrite.rs computes it, all
   later offsets from the compressed sizes; = bw_write / bw_write_multipass when compression is off,
   C09_model_uncompressed).  (c) and (e) for those bytes, for EVERY compressor [cmp] and EVERY
   decompressor [infl] with   o_compress o = true -> forall b, infl (cmp b) = b   (nothing else is
   asked of the pair).  Proofs: Proofs/BigWigFileZ.v (whole-file layout, header, chromosome tree,
   C05's search on the index over the compressed blocks, block read through infl, section codec),
   Proofs/BigWigFileZHistory.v (per-base array; C03_history is already generic in the image, the
   header and the decompressor, so the history statement is its composition with the exact answer). *)
From BT Require Import Model.BigWigWriteZ Proofs.BigWigFileZ Proofs.BigWigFileZHistory.

Theorem C03_query_compressed : forall cmp infl fp o sizes inp bs,
  bw_write_z cmp fp o sizes inp = Ok bs \/ bw_write_multipass_z cmp fp o sizes inp = Ok bs ->
  (o_compress o = true -> forall b, infl (cmp b) = b) ->
  opts_ok o -> input_ok sizes inp -> Nlen bs < U64 ->
  exists i, read_info bs = Ok i /\
    forall c vs s e, In (c, vs) (runs inp) -> bw_interval infl bs i c s e = Ok (clip_filter s e vs).
Proof.
  intros cmp infl fp o sizes inp bs Hw Hrt Ho Hi Hs.
  destruct (written_z_query cmp infl fp o sizes inp bs Hrt Ho Hi Hs Hw) as (i & Hri & Hq).
  exists i. split; [exact Hri|]. intros c vs s e Hin. exact (proj1 (Hq c vs Hin) s e).
Qed.
Print Assumptions C03_query_compressed.

Theorem C03_values_compressed : forall cmp infl fp o sizes inp bs,
  bw_write_z cmp fp o sizes inp = Ok bs \/ bw_write_multipass_z cmp fp o sizes inp = Ok bs ->
  (o_compress o = true -> forall b, infl (cmp b) = b) ->
  opts_ok o -> input_ok sizes inp -> Nlen bs < U64 ->
  exists i, read_info bs = Ok i /\
    forall c vs s e, In (c, vs) (runs inp) -> s <= e -> bw_values infl bs i c s e = Ok (spec_values s e vs).
Proof.
  intros cmp infl fp o sizes inp bs Hw Hrt Ho Hi Hs.
  destruct (written_z_query cmp infl fp o sizes inp bs Hrt Ho Hi Hs Hw) as (i & Hri & Hq).
  exists i. split; [exact Hri|]. intros c vs s e Hin. exact (proj2 (Hq c vs Hin) s e).
Qed.
Print Assumptions C03_values_compressed.

(* on a compressed written file: whatever was asked before, through the caching reader (which caches
   the INFLATED blocks) or a reader reopened from it, an interval / per-base query on a chromosome of
   the file is answered by the specification *)
Theorem C03_history_written_compressed : forall cmp infl fp o sizes inp bs,
  bw_write_z cmp fp o sizes inp = Ok bs \/ bw_write_multipass_z cmp fp o sizes inp = Ok bs ->
  (o_compress o = true -> forall b, infl (cmp b) = b) ->
  opts_ok o -> input_ok sizes inp -> Nlen bs < U64 ->
  exists i, read_info bs = Ok i /\
    (forall qs1 qs2,
        fst (qrun infl bs i cache0 qs1) = map (fresh_answer infl bs i) qs1
        /\ fst (qrun infl bs i (c_reopen (snd (qrun infl bs i cache0 qs1))) qs2) = map (fresh_answer infl bs i) qs2)
    /\ (forall c vs s e, In (c, vs) (runs inp) ->
          fresh_answer infl bs i (QInterval c s e) = AInterval (Ok (clip_filter s e vs))
          /\ (s <= e -> fresh_answer infl bs i (QValues c s e) = AValues (Ok (spec_values s e vs)))).
Proof.
  intros cmp infl fp o sizes inp bs Hw Hrt Ho Hi Hs.
  exact (written_z_history cmp infl fp o sizes inp bs Hrt Ho Hi Hs Hw).
Qed.
Print Assumptions C03_history_written_compressed.

(* non-vacuity: the example file written compressed with a toy compressor (two marker bytes + the
   block reversed; toy_infl inverts it) meets every hypothesis; the reader model inflating with
   toy_infl answers as on the uncompressed file, also through the cache and the reopened cache *)
Definition exz_opts : opts :=
  {| o_compress := true; o_ips := 2; o_bs := 2; o_izoom := 160; o_maxzooms := 10; o_manual := Some [4]; o_sort_all := true |}.
Example C03_compressed_example_hyps :
  (forall b, toy_infl (toy_cmp b) = b) /\ opts_ok exz_opts /\ input_ok ex_sizes ex_inp
  /\ (exists bs, bw_write_z toy_cmp ieee exz_opts ex_sizes ex_inp = Ok bs /\ Nlen bs < U64)
  /\ (exists bs, bw_write_multipass_z toy_cmp ieee exz_opts ex_sizes ex_inp = Ok bs /\ Nlen bs < U64).
Proof.
  split; [exact toy_rt|]. split; [unfold opts_ok; cbn; lia|]. split; [exact (proj1 (proj2 C03_example_hyps))|].
  split; eexists; (split; [vm_compute; reflexivity|reflexivity]).
Qed.
Example C03_compressed_example_run :
  match bw_write_multipass_z toy_cmp ieee exz_opts ex_sizes ex_inp with
  | Ok bs =>
      match read_info bs with
      | Ok i =>
          0 <? h_ubuf (i_hdr i) = true
          /\ bw_interval toy_infl bs i ex_a 4 6 = Ok [ex_v 4 6 1065353216]
          /\ bw_interval toy_infl bs i ex_a 9 21 = Ok [ex_v 9 10 1065353216; ex_v 10 12 1073741824; ex_v 20 21 1077936128]
          /\ bw_interval toy_infl bs i ex_a 15 15 = Ok []
          /\ bw_values toy_infl bs i ex_a 8 14 = Ok [Some 1065353216; Some 1065353216; Some 1073741824; Some 1073741824; None; None]
          /\ let qs := [QInterval ex_a 4 6; QValues ex_a 8 14; QInterval ex_a 9 21; QInterval ex_b 0 50; QInterval ex_a 4 6] in
             let '(a1, c1) := qrun toy_infl bs i cache0 qs in
             a1 = map (fresh_answer toy_infl bs i) qs
             /\ length (c_blocks c1) = 3%nat
             /\ fst (qrun toy_infl bs i (c_reopen c1) (rev qs)) = map (fresh_answer toy_infl bs i) (rev qs)
      | _ => False
      end
  | _ => False
  end.
Proof. vm_compute. repeat split; reflexivity. Qed.
