(* Pins: the statement of every C10 theorem, so that none can be weakened silently. *)
From BT Require Import Base.Util Base.LE Base.Float Model.RTree Model.BBIFile Model.BigWigWrite Model.BBIRead
  Proofs.RTreeAbs Proofs.RTreeCodec Spec.FormatEmit Spec.FormatWf Model.ReadBed_C10
  Proofs.C10Codec Proofs.C10Search Proofs.C10Sections Proofs.C10ChromTree Properties.C10.
Local Open Scope N_scope.
