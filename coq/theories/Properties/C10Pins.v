From BT Require Import Properties.C10.
