(* Statement pins: each C10 theorem is re-checked against the statement recorded here, so a theorem
   cannot be weakened in its own file without this file failing to compile. *)
From BT Require Import Base.Util Base.LE Base.Float Model.RTree Model.BBIFile Model.BigWigWrite Model.BBIRead
  Proofs.RTreeAbs Proofs.RTreeCodec Spec.FormatEmit Spec.FormatWf Model.ReadBed_C10
  Proofs.C10Codec Proofs.C10Search Proofs.C10Sections Proofs.C10ChromTree Properties.C10.
Local Open Scope N_scope.

Check (C10_search_any_tree : forall big bs (st : store) h root ls q qs qe,
  (forall o n, st_find o st = Some n -> read_node big bs o = Ok n) ->
  st_leaves st h root = Some ls -> st_cov st h root ->
  forall fuel, (st_size st h root < fuel)%nat ->
    search_bytes fuel big bs root q qs qe
    = Ok (map (fun i => (li_off i, li_size i)) (filter (fun i => overlaps q qs qe (li_span i)) ls))).
Check (C10_search_any_tree_keyed : forall (K : Type) (get : K -> option (gnode K)) (off : K -> N) big bs,
  (forall k g, get k = Some g -> read_node big bs (off k) = Ok (render off g)) ->
  forall q qs qe h root ls, gleaves get h root = Some ls -> gcov get h root ->
  forall fuel, (gsize get h root < fuel)%nat ->
    search_bytes fuel big bs (off root) q qs qe = Ok (hits q qs qe ls)).
Check (C10_endianness : forall big w x, x < 256 ^ N.of_nat w ->
  dec big (enc big w x) = x /\ enc big w x = rev (enc (negb big) w x) /\ (forall bs, dec big bs = dec (negb big) (rev bs))).
Check (C10_endianness_fields : forall big fs o w x rest, fld_at fs o = Some (w, x) -> x < 256 ^ N.of_nat w ->
  dec big (firstn w (skipn o (enc_flds big fs ++ rest))) = x).
Check (C10_sections : forall L ty c v0 rest chrom s e,
  sec_ok ty ((c, v0) :: rest) = true ->
  section_values (l_big L) (sec_payload L ty ((c, v0) :: rest)) chrom s e
  = Ok (if c =? chrom then Some (clip_filter s e (map snd ((c, v0) :: rest))) else None)).
Check (C10_sections_fixed_step : forall L step span vs rest cur i b,
  Forall bits_ok vs -> nth_error (map v_bits vs) i = Some b ->
  nth_error (parse_type3 (l_big L) step span cur (length vs) (flat_map (vitem_bytes L 3) vs ++ rest)) i
  = Some {| v_start := cur + N.of_nat i * step; v_end := cur + N.of_nat i * step + span; v_bits := b |}).
Check (C10_sections_var_step : forall L span vs rest, Forall bits_ok vs ->
  parse_type2 (l_big L) span (length vs) (flat_map (vitem_bytes L 2) vs ++ rest)
  = map (fun v => {| v_start := v_start v; v_end := v_start v + span; v_bits := v_bits v |}) vs).
Check (C10_zoom_block : forall L recs chrom s e, Forall (fun z => zraw_ok z = true) recs ->
  zoom_values (l_big L) (flat_map (zraw_bytes L) recs) chrom s e
  = Ok (Some (map zrec_of (filter (fun z => (zr_chrom z =? chrom) && (s <=? zr_end z) && (zr_start z <=? e)) recs)))).
Check (C10_bed_block : forall L c items, forallb (fun cb => fst cb =? c) items = true -> forallb bed_ok items = true ->
  forall fuel more, (length items < fuel)%nat -> (length more < 12)%nat ->
  bed_entries fuel (l_big L) c (flat_map (bed_bytes L) items ++ more) = Ok (map snd items)).
Check (C10_chrom_tree : forall (K : Type) (get : K -> option (cgnode K)) (off : K -> N) big bs key,
  (forall k g, get k = Some g -> has_at bs (off k) (cg_bytes off big key g) /\ cg_ok off key g) ->
  forall h k l, cleaves get h k = Some l ->
  forall fuel, (h <= fuel)%nat -> read_chrom_block fuel big bs key (off k) = Ok l).
Check (C10_reads_emit : forall (cmp infl : list N -> list N) (L : layout) (X : content),
  (forall b, infl (cmp b) = b) -> wf_b cmp L X = true ->
  exists i, read_info (emit cmp L X) = Ok i /\
    forall q, (match q with QValues _ _ _ => x_bigwig X = true | _ => True end) ->
      read_answer infl (emit cmp L X) i q = spec_answer X q).

(* the caching reader, every history (composition with C03_history / C04_history) *)
From BT Require Import Model.CachedRead Model.BigBedWrite Model.BBIReadBed Model.CachedBed_C10 Proofs.CachedReadInv Proofs.C10Cached.
From BT Require Proofs.BedCached.
Check (C10_cached_reads_emit : forall (cmp infl : list N -> list N) (L : layout) (X : content),
  (forall b, infl (cmp b) = b) -> wf_b cmp L X = true -> x_bigwig X = true ->
  exists i, read_info (emit cmp L X) = Ok i /\
    forall qs1 qs2,
      map ca_spec (fst (qrun infl (emit cmp L X) i cache0 qs1)) = map (fun q => spec_answer X (cq_spec q)) qs1
      /\ map ca_spec (fst (qrun infl (emit cmp L X) i (c_reopen (snd (qrun infl (emit cmp L X) i cache0 qs1))) qs2))
         = map (fun q => spec_answer X (cq_spec q)) qs2).
Check (C10_cached_reads_emit_from : forall (cmp infl : list N -> list N) (L : layout) (X : content),
  (forall b, infl (cmp b) = b) -> wf_b cmp L X = true -> x_bigwig X = true ->
  exists i, read_info (emit cmp L X) = Ok i /\
    forall qs c, CachedReadInv.cache_ok infl (emit cmp L X) i c ->
      map ca_spec (fst (qrun infl (emit cmp L X) i c qs)) = map (fun q => spec_answer X (cq_spec q)) qs
      /\ CachedReadInv.cache_ok infl (emit cmp L X) i (snd (qrun infl (emit cmp L X) i c qs))).
Check (C10_cached_reads_emit_bed : forall (cmp infl : list N -> list N) (L : layout) (X : content),
  (forall b, infl (cmp b) = b) -> wf_b cmp L X = true -> x_bigwig X = false ->
  exists i, read_info (emit cmp L X) = Ok i /\
    (forall qs1 qs2,
      map Some (fst (bb_qrun infl (emit cmp L X) i cache0 qs1)) = map (fun q => spec_banswer (spec_answer X (bq_spec q))) qs1
      /\ map Some (fst (bb_qrun infl (emit cmp L X) i (c_reopen (snd (bb_qrun infl (emit cmp L X) i cache0 qs1))) qs2))
         = map (fun q => spec_banswer (spec_answer X (bq_spec q))) qs2)
    /\ (forall qs c, BedCached.cache_ok infl (emit cmp L X) i c ->
          c_bb_history infl (emit cmp L X) i c qs
          = map (fun q => rmap (map b2e)
                            (do id <- spec_chrom X (fst (fst q));
                             Ok (filter (fun b => (snd (fst q) <=? b_end b) && (b_start b <=? snd q)) (beds_of X id)))) qs)).
(* the renamings used in those statements are what they are said to be *)
Check (eq_refl : cq_spec = fun q => match q with
  | CachedRead.QInterval c s e => FormatEmit.QInterval c s e
  | CachedRead.QValues c s e => FormatEmit.QValues c s e
  | CachedRead.QZoom c s e lvl => FormatEmit.QZoom c s e lvl end).
Check (eq_refl : ca_spec = fun a => match a with
  | CachedRead.AInterval r => FormatEmit.AValuesIv r
  | CachedRead.AValues r => FormatEmit.APerBase r
  | CachedRead.AZoom r => FormatEmit.AZoom r end).
Check (eq_refl : spec_banswer = fun a => match a with
  | FormatEmit.ABeds r => Some (BAInterval (rmap (map b2e) r))
  | FormatEmit.AZoom r => Some (BAZoom r)
  | _ => None end).
