(* C16 — command-line conversions round-trip records.  Statements only, each closed by [exact] (or a one-line repackaging).

   What is proved here is about the MODEL (Model/CliText.v): the text formats, the decimal fields, the chrom.sizes reader,
   the UCSC flag rewriting over the table generated from cli.rs, and the converters at record level (accept, then one
   range query per chromosome).  What is outside the model and only validated by running the built binaries
   (tools/vlib/props/C16.py): clap, the tokio runtime and thread counts, --parallel / --single-pass / --inmemory plumbing,
   ryu's f32 printing and str::parse::<f32>, the file formats themselves (C01/C02/C05/C09/C10). *)
From BT Require Import Base.Util Generated.Consts Model.BBIFile Model.BigWigWrite Model.BBIRead Model.CliText
  Proofs.CliTextRoundtrip Proofs.CliCompat Proofs.CliQuery Proofs.CliPipeline.
Local Open Scope N_scope.

(* decimal u32: printing then parsing gives the number back, for every n < 2^32 *)
Theorem C16_dec_roundtrip : forall n, n < 4294967296 -> parse_u32 (print_dec n) = Some n.
Proof. intros n Hn. apply dec_roundtrip. unfold U32_MAX. lia. Qed.
Print Assumptions C16_dec_roundtrip.

(* one BED line (with and without its newline): the parser returns the chromosome and the entry the formatter was given.
   Hypotheses: no tab in the chromosome name (the field separator), positions fit u32, no trailing white space in the extra columns
   (trim_end would remove it; [trim_end] knows every Unicode White_Space character in UTF-8) *)
Theorem C16_bed_line_roundtrip : forall c e, ~ In TAB c -> be_start e < 4294967296 -> be_end e < 4294967296 -> trim_end (be_rest e) = be_rest e ->
  parse_bed (format_bed_line c e) = Ok (c, e) /\ parse_bed (format_bed c e) = Ok (c, e).
Proof. intros c e Hc Hs He Hr. split; [apply bed_line_roundtrip|apply bed_line_nl_roundtrip]; try assumption; unfold U32_MAX; lia. Qed.
Print Assumptions C16_bed_line_roundtrip.

(* one bedGraph line, relative to the float parser [fparse] (str::parse::<f32> is not modelled): positions and the value text reach it unchanged *)
Theorem C16_bedgraph_line_roundtrip : forall fparse c s e vtext bits, ~ In TAB c -> s < 4294967296 -> e < 4294967296 -> vtext <> [] -> ~ In TAB vtext ->
  trim_end vtext = vtext -> fparse vtext = Some bits ->
  parse_bedgraph fparse (format_bedgraph_line c s e vtext) = Ok (c, {| v_start := s; v_end := e; v_bits := bits |}).
Proof. intros. apply bedgraph_line_roundtrip; try assumption; unfold U32_MAX; lia. Qed.
Print Assumptions C16_bedgraph_line_roundtrip.

(* a whole BED text of canonical lines is read back line by line as the records that were formatted *)
Theorem C16_bed_text_roundtrip : forall l, Forall canonical_bed l -> mapM parse_bed (lines (format_bed_text l)) = Ok l.
Proof. exact bed_text_roundtrip. Qed.
Print Assumptions C16_bed_text_roundtrip.

(* the chrom.sizes reader on a formatted table (names non-empty and free of ASCII white space, sizes < 2^32): every line is read;
   the result lists the LATEST line first, which is what the HashMap holds when a name is repeated *)
Theorem C16_chrom_sizes_parse : forall l, Forall canonical_size l -> parse_chrom_sizes (format_sizes l) = Ok (rev l).
Proof. exact chrom_sizes_parse. Qed.
Print Assumptions C16_chrom_sizes_parse.

(* sweep over the GENERATED table: each UCSC spelling the property names (-unc -blockSize -itemsPerSlot -chrom -start -end -as -zooms),
   followed by anything (=value or nothing), is rewritten to the native flag followed by the same text *)
Theorem C16_compat_ucsc : forall u n, In (u, n) ucsc_named -> forall v, compat_arg (u ++ v) = Ok (n ++ v).
Proof. exact compat_ucsc. Qed.
Print Assumptions C16_compat_ucsc.

(* nothing native is changed by the rewriting: any --long flag (with or without =value), any argument not starting with '-'
   (values, numbers, paths), the empty argument, "-", a short flag with a number attached (-t4), and every flag the translator
   found in the clap structs of the six tools (as its own argument) *)
Theorem C16_compat_native_fixed : (forall t, compat_arg (45 :: 45 :: t) = Ok (45 :: 45 :: t)) /\
  (forall c t, c <> 45 -> compat_arg (c :: t) = Ok (c :: t)) /\
  compat_arg [] = Ok [] /\ compat_arg [45] = Ok [45] /\
  (forall x d t, is_digit d = true -> compat_arg (45 :: x :: d :: t) = Ok (45 :: x :: d :: t)) /\
  (forall f, In f (NATIVE_LONG_FLAGS ++ NATIVE_SHORT_FLAGS) -> compat_arg f = Ok f).
Proof. exact (conj compat_long_fixed (conj compat_nondash_fixed (conj compat_empty_fixed (conj compat_dash_fixed (conj compat_short_number_fixed compat_native_flags_fixed))))). Qed.
Print Assumptions C16_compat_native_fixed.

(* -tab (on the ignore list) disappears from the argument list, the other arguments keep their places *)
Theorem C16_compat_ignored_dropped : forall pre post, Forall fixed_arg pre -> Forall fixed_arg post ->
  compat_args_vec (pre ++ [[45;116;97;98]] ++ post) = Ok (pre ++ post).
Proof. exact compat_ignored_dropped. Qed.
Print Assumptions C16_compat_ignored_dropped.

(* whole argument vectors: for every command of the generated list (the four converters among them), called by its own name or as
   `bigtools <command>`, every argument goes through compat_arg and the blanked ones are dropped *)
Theorem C16_compat_args_tools : forall tool args, In tool COMPAT_COMMANDS ->
  compat_args (tool :: args) = compat_args_vec (tool :: args) /\
  compat_args (COMPAT_MULTICALL :: tool :: args) = compat_args_vec (COMPAT_MULTICALL :: tool :: args).
Proof. exact compat_args_tools. Qed.
Print Assumptions C16_compat_args_tools.

(* list level, bigWig: reading only the blocks the index reports and clipping = clipping the whole accepted value list, for every block size *)
Theorem C16_bw_query_is_clip_filter : forall ips len vals s e, (0 < ips)%nat -> check_chrom len vals = Ok tt -> bw_query ips vals s e = clip_filter s e vals.
Proof. exact bw_query_is_clip_filter. Qed.
Print Assumptions C16_bw_query_is_clip_filter.

(* list level, bigBed: reading only the blocks the index reports = the reader's overlap filter on the whole accepted entry list *)
Theorem C16_bb_query_is_overlap_filter : forall ips len l s e, (0 < ips)%nat -> bb_check_chrom len l = Ok tt -> bb_query ips l s e = filter (bb_keep s e) l.
Proof. exact bb_query_is_overlap_filter. Qed.
Print Assumptions C16_bb_query_is_overlap_filter.

(* bigwigtobedgraph --chrom c [--start s] [--end e] on a file the converter wrote = the range-query answer (C03's clip_filter) on the
   values of that chromosome, with the defaults 0 and the chromosome length *)
Theorem C16_restrict_is_query_bigwig : forall fparse cs txt file ips c st en w, (0 < ips)%nat -> bedgraph_to_bigwig fparse cs txt = Ok file ->
  find (fun w => name_eqb (wc_name w) c) (sort_by_name file) = Some w ->
  bigwig_to_bedgraph ips file (Some c) st en =
  map (fun v => (wc_name w, v))
      (clip_filter (match st with Some s => s | None => 0 end) (match en with Some e => e | None => wc_len w end) (wc_items w)).
Proof. exact bigwig_restrict_is_query. Qed.
Print Assumptions C16_restrict_is_query_bigwig.

(* bigbedtobed --chrom c [--start s] [--end e] = the entries of that chromosome the reader's overlap test keeps (touching entries included) *)
Theorem C16_restrict_is_query_bigbed : forall asql cs txt file ips c st en w, (0 < ips)%nat -> bed_to_bigbed asql cs txt = Ok file ->
  find (fun w => name_eqb (wc_name w) c) (sort_by_name file) = Some w ->
  bigbed_to_bed ips file (Some c) st en =
  map (fun v => (wc_name w, v))
      (filter (bb_keep (match st with Some s => s | None => 0 end) (match en with Some e => e | None => wc_len w end)) (wc_items w)).
Proof. exact bigbed_restrict_is_query. Qed.
Print Assumptions C16_restrict_is_query_bigbed.

(* bedGraph -> bigWig -> bedGraph, records: whatever the converter accepts comes back value by value in input order
   (no empty values: a zero-length value at a chromosome boundary is C01's known finding) *)
Theorem C16_bedgraph_roundtrip_records : forall fparse cs txt file ips items sizes, (0 < ips)%nat ->
  parse_chrom_sizes cs = Ok sizes -> mapM (parse_bedgraph fparse) (lines txt) = Ok items ->
  bedgraph_to_bigwig fparse cs txt = Ok file ->
  Forall (fun it => v_start (snd it) < v_end (snd it)) items ->
  bigwig_to_bedgraph ips file None None None = items.
Proof. exact bedgraph_roundtrip_records. Qed.
Print Assumptions C16_bedgraph_roundtrip_records.

(* BED -> bigBed -> BED, records *)
Theorem C16_bed_roundtrip_records : forall asql cs txt file ips items sizes, (0 < ips)%nat ->
  parse_chrom_sizes cs = Ok sizes -> mapM parse_bed (lines txt) = Ok items ->
  bed_to_bigbed asql cs txt = Ok file ->
  bigbed_to_bed ips file None None None = items.
Proof. exact bed_roundtrip_records. Qed.
Print Assumptions C16_bed_roundtrip_records.

(* BED text in, BED text out: when the converter accepts a canonical text, printing what bigbedtobed reads gives the input text back *)
Theorem C16_bed_pipeline_text : forall szs items file ips asql, (0 < ips)%nat -> Forall canonical_size szs -> Forall canonical_bed items ->
  bed_to_bigbed asql (format_sizes szs) (format_bed_text items) = Ok file ->
  format_bed_text (bigbed_to_bed ips file None None None) = format_bed_text items.
Proof. exact bed_pipeline_text. Qed.
Print Assumptions C16_bed_pipeline_text.

(* bedGraph text in, records out (value text -> bits through the float parser, which is outside the model) *)
Theorem C16_bedgraph_pipeline_records : forall fparse szs recs file ips, (0 < ips)%nat -> Forall canonical_size szs -> Forall (canonical_bg fparse) recs ->
  Forall (fun r => bg_start r < bg_end r) recs ->
  bedgraph_to_bigwig fparse (format_sizes szs) (format_bedgraph_text recs) = Ok file ->
  bigwig_to_bedgraph ips file None None None = map (bg_value fparse) recs.
Proof. exact bedgraph_pipeline_records. Qed.
Print Assumptions C16_bedgraph_pipeline_records.

(* ---- non-vacuity: concrete instances of the hypotheses ---- *)
Example C16_ex_dec : parse_u32 (print_dec 4294967295) = Some 4294967295 /\ print_dec 0 = [48] /\ parse_u32 (print_dec 4294967296) = None.
Proof. vm_compute. repeat split. Qed.
Example C16_ex_bed_line :
  let e := {| be_start := 5; be_end := 4294967295; be_rest := [110;49;9;195;169;32;120] |} in     (* "n1<TAB>é x" *)
  ~ In TAB [99;104;114;32;49] /\ trim_end (be_rest e) = be_rest e /\ parse_bed (format_bed [99;104;114;32;49] e) = Ok ([99;104;114;32;49], e).
Proof. cbv zeta. split; [intros H; cbn in H; intuition discriminate|]. split; vm_compute; reflexivity. Qed.
(* trailing white space in the extra columns is NOT preserved (why the hypothesis is there): "x " comes back as "x" *)
Example C16_ex_trailing_space_lost :
  parse_bed (format_bed [97] {| be_start := 1; be_end := 2; be_rest := [120;32] |}) = Ok ([97], {| be_start := 1; be_end := 2; be_rest := [120] |})
  /\ parse_bed (format_bed [97] {| be_start := 1; be_end := 2; be_rest := [120;194;160] |}) = Ok ([97], {| be_start := 1; be_end := 2; be_rest := [120] |}).
Proof. split; vm_compute; reflexivity. Qed.
Example C16_ex_sizes : Forall canonical_size ex_sizes /\ parse_chrom_sizes (format_sizes ex_sizes) = Ok (rev ex_sizes).
Proof. split; [exact ex_sizes_canonical|vm_compute; reflexivity]. Qed.
Example C16_ex_pipeline : Forall canonical_bed ex_bed /\ exists file,
  bed_to_bigbed false (format_sizes ex_sizes) (format_bed_text ex_bed) = Ok file /\
  bigbed_to_bed 2 file None None None = ex_bed /\
  bigbed_to_bed 2 file (Some [99;104;114;49]) (Some 9) None = firstn 2 ex_bed.
Proof. split; [exact ex_bed_canonical|exact ex_bed_accepted]. Qed.
Example C16_ex_compat : In (s_chrom, s_chrom_n) ucsc_named /\ In s_block_size NATIVE_LONG_FLAGS /\ Forall fixed_arg [[105;110]; s_uncompressed].
Proof.
  split; [cbn; tauto|]. split; [vm_compute; tauto|].
  repeat constructor; try discriminate; vm_compute; reflexivity.
Qed.
