(* C16 — command-line conversions round-trip records.  Statements only, each closed by [exact] (or a one-line repackaging).

   What is proved here is about the MODEL (Model/CliText.v): the text formats, the decimal fields, the chrom.sizes reader,
   the UCSC flag rewriting over the table generated from cli.rs, and the converters at record level (accept, then one
   range query per chromosome).  What is outside the model and only validated by running the built binaries
   (tools/vlib/props/C16.py): clap, the tokio runtime and thread counts, --parallel / --single-pass / --inmemory plumbing,
   ryu's f32 printing and str::parse::<f32>, the file formats themselves (C01/C02/C05/C09/C10). *)
From BT Require Import Base.Util Generated.Consts Model.BBIFile Model.BigWigWrite Model.BBIRead Model.CliText
  Proofs.CliTextRoundtrip Proofs.CliCompat Proofs.CliQuery Proofs.CliPipeline.
Local Open Scope N_scope.

(* decimal u32: printing then parsing gives the number back, for every n < 2^32 *)
Theorem C16_dec_roundtrip : forall n, n < 4294967296 -> parse_u32 (print_dec n) = Some n.
Proof. intros n Hn. apply dec_roundtrip. unfold U32_MAX. lia. Qed.
Print Assumptions C16_dec_roundtrip.

(* one BED line (with and without its newline): the parser returns the chromosome and the entry the formatter was given.
   Hypotheses: no tab in the chromosome name (the field separator), positions fit u32, no trailing white space in the extra columns
   (trim_end would remove it; [trim_end] knows every Unicode White_Space character in UTF-8) *)
Theorem C16_bed_line_roundtrip : forall c e, ~ In TAB c -> be_start e < 4294967296 -> be_end e < 4294967296 -> trim_end (be_rest e) = be_rest e ->
  parse_bed (format_bed_line c e) = Ok (c, e) /\ parse_bed (format_bed c e) = Ok (c, e).
Proof. intros c e Hc Hs He Hr. split; [apply bed_line_roundtrip|apply bed_line_nl_roundtrip]; try assumption; unfold U32_MAX; lia. Qed.
Print Assumptions C16_bed_line_roundtrip.

(* one bedGraph line, relative to the float parser [fparse] (str::parse::<f32> is not modelled): positions and the value text reach it unchanged *)
Theorem C16_bedgraph_line_roundtrip : forall fparse c s e vtext bits, ~ In TAB c -> s < 4294967296 -> e < 4294967296 -> vtext <> [] -> ~ In TAB vtext ->
  trim_end vtext = vtext -> fparse vtext = Some bits ->
  parse_bedgraph fparse (format_bedgraph_line c s e vtext) = Ok (c, {| v_start := s; v_end := e; v_bits := bits |}).
Proof. intros. apply bedgraph_line_roundtrip; try assumption; unfold U32_MAX; lia. Qed.
Print Assumptions C16_bedgraph_line_roundtrip.

(* a whole BED text of canonical lines is read back line by line as the records that were formatted *)
Theorem C16_bed_text_roundtrip : forall l, Forall canonical_bed l -> mapM parse_bed (lines (format_bed_text l)) = Ok l.
Proof. exact bed_text_roundtrip. Qed.
Print Assumptions C16_bed_text_roundtrip.

(* the chrom.sizes reader on a formatted table (names non-empty and free of ASCII white space, sizes < 2^32): every line is read;
   the result lists the LATEST line first, which is what the HashMap holds when a name is repeated *)
Theorem C16_chrom_sizes_parse : forall l, Forall canonical_size l -> parse_chrom_sizes (format_sizes l) = Ok (rev l).
Proof. exact chrom_sizes_parse. Qed.
Print Assumptions C16_chrom_sizes_parse.

(* sweep over the GENERATED table: each UCSC spelling the property names (-unc -blockSize -itemsPerSlot -chrom -start -end -as -zooms),
   followed by anything (=value or nothing), is rewritten to the native flag followed by the same text *)
Theorem C16_compat_ucsc : forall u n, In (u, n) ucsc_named -> forall v, compat_arg (u ++ v) = Ok (n ++ v).
Proof. exact compat_ucsc. Qed.
Print Assumptions C16_compat_ucsc.

(* nothing native is changed by the rewriting: any --long flag (with or without =value), any argument not starting with '-'
   (values, numbers, paths), the empty argument, "-", a short flag with a number attached (-t4), and every flag the translator
   found in the clap structs of the six tools (as its own argument) *)
Theorem C16_compat_native_fixed : (forall t, compat_arg (45 :: 45 :: t) = Ok (45 :: 45 :: t)) /\
  (forall c t, c <> 45 -> compat_arg (c :: t) = Ok (c :: t)) /\
  compat_arg [] = Ok [] /\ compat_arg [45] = Ok [45] /\
  (forall x d t, is_digit d = true -> compat_arg (45 :: x :: d :: t) = Ok (45 :: x :: d :: t)) /\
  (forall f, In f (NATIVE_LONG_FLAGS ++ NATIVE_SHORT_FLAGS) -> compat_arg f = Ok f).
Proof. exact (conj compat_long_fixed (conj compat_nondash_fixed (conj compat_empty_fixed (conj compat_dash_fixed (conj compat_short_number_fixed compat_native_flags_fixed))))). Qed.
Print Assumptions C16_compat_native_fixed.

(* -tab (on the ignore list) disappears from the argument list, the other arguments keep their places *)
Theorem C16_compat_ignored_dropped : forall pre post, Forall fixed_arg pre -> Forall fixed_arg post ->
  compat_args_vec (pre ++ [[45;116;97;98]] ++ post) = Ok (pre ++ post).
Proof. exact compat_ignored_dropped. Qed.
Print Assumptions C16_compat_ignored_dropped.

(* whole argument vectors: for every command of the generated list (the four converters among them), called by its own name or as
   `bigtools <command>`, every argument goes through compat_arg and the blanked ones are dropped *)
Theorem C16_compat_args_tools : forall tool args, In tool COMPAT_COMMANDS ->
  compat_args (tool :: args) = compat_args_vec (tool :: args) /\
  compat_args (COMPAT_MULTICALL :: tool :: args) = compat_args_vec (COMPAT_MULTICALL :: tool :: args).
Proof. exact compat_args_tools. Qed.
Print Assumptions C16_compat_args_tools.

(* list level, bigWig: reading only the blocks the index reports and clipping = clipping the whole accepted value list, for every block size *)
Theorem C16_bw_query_is_clip_filter : forall ips len vals s e, (0 < ips)%nat -> check_chrom len vals = Ok tt -> bw_query ips vals s e = clip_filter s e vals.
Proof. exact bw_query_is_clip_filter. Qed.
Print Assumptions C16_bw_query_is_clip_filter.

(* list level, bigBed: reading only the blocks the index reports = the reader's overlap filter on the whole accepted entry list *)
Theorem C16_bb_query_is_overlap_filter : forall ips len l s e, (0 < ips)%nat -> bb_check_chrom len l = Ok tt -> bb_query ips l s e = filter (bb_keep s e) l.
Proof. exact bb_query_is_overlap_filter. Qed.
Print Assumptions C16_bb_query_is_overlap_filter.

(* bigwigtobedgraph --chrom c [--start s] [--end e] on a file the converter wrote = the range-query answer (C03's clip_filter) on the
   values of that chromosome, with the defaults 0 and the chromosome length *)
Theorem C16_restrict_is_query_bigwig : forall fparse cs txt file ips c st en w, (0 < ips)%nat -> bedgraph_to_bigwig fparse cs txt = Ok file ->
  find (fun w => name_eqb (wc_name w) c) (sort_by_name file) = Some w ->
  bigwig_to_bedgraph ips file (Some c) st en =
  map (fun v => (wc_name w, v))
      (clip_filter (match st with Some s => s | None => 0 end) (match en with Some e => e | None => wc_len w end) (wc_items w)).
Proof. exact bigwig_restrict_is_query. Qed.
Print Assumptions C16_restrict_is_query_bigwig.

(* bigbedtobed --chrom c [--start s] [--end e] = the entries of that chromosome the reader's overlap test keeps (touching entries included) *)
Theorem C16_restrict_is_query_bigbed : forall asql cs txt file ips c st en w, (0 < ips)%nat -> bed_to_bigbed asql cs txt = Ok file ->
  find (fun w => name_eqb (wc_name w) c) (sort_by_name file) = Some w ->
  bigbed_to_bed ips file (Some c) st en =
  map (fun v => (wc_name w, v))
      (filter (bb_keep (match st with Some s => s | None => 0 end) (match en with Some e => e | None => wc_len w end)) (wc_items w)).
Proof. exact bigbed_restrict_is_query. Qed.
Print Assumptions C16_restrict_is_query_bigbed.

(* bedGraph -> bigWig -> bedGraph, records: whatever the converter accepts comes back value by value in input order
   (no empty values: a zero-length value at a chromosome boundary is C01's known finding) *)
Theorem C16_bedgraph_roundtrip_records : forall fparse cs txt file ips items sizes, (0 < ips)%nat ->
  parse_chrom_sizes cs = Ok sizes -> mapM (parse_bedgraph fparse) (lines txt) = Ok items ->
  bedgraph_to_bigwig fparse cs txt = Ok file ->
  Forall (fun it => v_start (snd it) < v_end (snd it)) items ->
  bigwig_to_bedgraph ips file None None None = items.
Proof. exact bedgraph_roundtrip_records. Qed.
Print Assumptions C16_bedgraph_roundtrip_records.

(* BED -> bigBed -> BED, records *)
Theorem C16_bed_roundtrip_records : forall asql cs txt file ips items sizes, (0 < ips)%nat ->
  parse_chrom_sizes cs = Ok sizes -> mapM parse_bed (lines txt) = Ok items ->
  bed_to_bigbed asql cs txt = Ok file ->
  bigbed_to_bed ips file None None None = items.
Proof. exact bed_roundtrip_records. Qed.
Print Assumptions C16_bed_roundtrip_records.

(* BED text in, BED text out: when the converter accepts a canonical text, printing what bigbedtobed reads gives the input text back *)
Theorem C16_bed_pipeline_text : forall szs items file ips asql, (0 < ips)%nat -> Forall canonical_size szs -> Forall canonical_bed items ->
  bed_to_bigbed asql (format_sizes szs) (format_bed_text items) = Ok file ->
  format_bed_text (bigbed_to_bed ips file None None None) = format_bed_text items.
Proof. exact bed_pipeline_text. Qed.
Print Assumptions C16_bed_pipeline_text.

(* bedGraph text in, records out (value text -> bits through the float parser, which is outside the model) *)
Theorem C16_bedgraph_pipeline_records : forall fparse szs recs file ips, (0 < ips)%nat -> Forall canonical_size szs -> Forall (canonical_bg fparse) recs ->
  Forall (fun r => bg_start r < bg_end r) recs ->
  bedgraph_to_bigwig fparse (format_sizes szs) (format_bedgraph_text recs) = Ok file ->
  bigwig_to_bedgraph ips file None None None = map (bg_value fparse) recs.
Proof. exact bedgraph_pipeline_records. Qed.
Print Assumptions C16_bedgraph_pipeline_records.

(* ---- non-vacuity: concrete instances of the hypotheses ---- *)
Example C16_ex_dec : parse_u32 (print_dec 4294967295) = Some 4294967295 /\ print_dec 0 = [48] /\ parse_u32 (print_dec 4294967296) = None.
Proof. vm_compute. repeat split. Qed.
Example C16_ex_bed_line :
  let e := {| be_start := 5; be_end := 4294967295; be_rest := [110;49;9;195;169;32;120] |} in     (* "n1<TAB>é x" *)
  ~ In TAB [99;104;114;32;49] /\ trim_end (be_rest e) = be_rest e /\ parse_bed (format_bed [99;104;114;32;49] e) = Ok ([99;104;114;32;49], e).
Proof. cbv zeta. split; [intros H; cbn in H; intuition discriminate|]. split; vm_compute; reflexivity. Qed.
(* trailing white space in the extra columns is NOT preserved (why the hypothesis is there): "x " comes back as "x" *)
Example C16_ex_trailing_space_lost :
  parse_bed (format_bed [97] {| be_start := 1; be_end := 2; be_rest := [120;32] |}) = Ok ([97], {| be_start := 1; be_end := 2; be_rest := [120] |})
  /\ parse_bed (format_bed [97] {| be_start := 1; be_end := 2; be_rest := [120;194;160] |}) = Ok ([97], {| be_start := 1; be_end := 2; be_rest := [120] |}).
Proof. split; vm_compute; reflexivity. Qed.
Example C16_ex_sizes : Forall canonical_size ex_sizes /\ parse_chrom_sizes (format_sizes ex_sizes) = Ok (rev ex_sizes).
Proof. split; [exact ex_sizes_canonical|vm_compute; reflexivity]. Qed.
Example C16_ex_pipeline : Forall canonical_bed ex_bed /\ exists file,
  bed_to_bigbed false (format_sizes ex_sizes) (format_bed_text ex_bed) = Ok file /\
  bigbed_to_bed 2 file None None None = ex_bed /\
  bigbed_to_bed 2 file (Some [99;104;114;49]) (Some 9) None = firstn 2 ex_bed.
Proof. split; [exact ex_bed_canonical|exact ex_bed_accepted]. Qed.
Example C16_ex_compat : In (s_chrom, s_chrom_n) ucsc_named /\ In s_block_size NATIVE_LONG_FLAGS /\ Forall fixed_arg [[105;110]; s_uncompressed].
Proof.
  split; [cbn; tauto|]. split; [vm_compute; tauto|].
  repeat constructor; try discriminate; vm_compute; reflexivity.
Qed.

(* ==========================================================================================================================
   THROUGH THE FILE BYTES.  Model/CliFile.v composes the text layer above with the byte-exact writer and reader models:
     bedgraphtobigwig_file pf fp o two_pass cs_text in_text : res (list N)    the BYTES of the bigWig the tool writes
     bedtobigbed_file fp o two_pass autosql cs_text in_text : res (list N)    the BYTES of the bigBed
     bigwigtobedgraph_records / _file infl [pr] bs chrom start end            BigWigRead::open on the bytes, chromosomes in TABLE
     bigbedtobed_records / _file infl bs chrom start end                      order, one get_interval each, one line per record
   [pf] = str::parse::<f32> (token -> bit pattern), [pr] = ryu (bit pattern -> token), [infl] = the decompressor, [fp] = the
   rounding mode of the summary arithmetic, [two_pass] = write_multipass / --single-pass: all universally quantified.
   The theorems below are compositions: C13's accept rule (the writer returns a file for every text the rule accepts),
   C01_query_on_input / C01_roundtrip_on_input and C02_written_file_roundtrip / C04_written_file_query (what the reader returns
   from those bytes), the chromosome-table theorems (order of the output), and the text round trips above.  Nothing about the
   formats is re-proved (Proofs/CliEndToEnd.v; examples computed in Proofs/CliEndToEndEx.v).
   What is NOT in these statements: thread counts / --parallel / --inmemory (C11: same bytes and same text for every schedule),
   compression (the modelled writers emit uncompressed files; C01_*_compressed has the reader side for any round-tripping
   compressor), clap.  The glue of Model/CliFile.v itself is not compared with the binaries by the check; its parts are
   (CliText.v here, the writers and readers byte for byte by C01/C02). *)
From BT Require Import Base.LE Base.Float Model.RTree Model.AutoSql Model.BigBedWrite Model.BBIReadBed Model.CliFile.
From BT Require Import Proofs.RTreeCodec Proofs.BigWigFileChroms Proofs.BigWigFileInput Proofs.AcceptRules Proofs.CliEndToEnd Proofs.CliEndToEndBridge Proofs.CliEndToEndEx.
From BT Require Model.Accept Model.AcceptBed Proofs.BigWigFileRoundTrip Proofs.BedCodec Proofs.BedReadInfo Proofs.BedEndToEnd.

(* bedGraph -> bigWig -> bedGraph.  For a chrom.sizes text and a bedGraph text that parse to [sizes] and [items], with the items
   accepted by the writer rule of C13 (non-empty; every value start <= end <= chromosome size; a value's successor on the same
   chromosome starts at or after its end; chromosomes known, none coming back, ascending when sorted input is required):
   the converter model returns a file [bs], and bigwigtobedgraph on those BYTES returns the records of the input text in input
   order - chromosome, start, end identical, value bit pattern identical - except zero-length values at position 0 / at the end
   of their chromosome (K1, C01's known finding: parse_bedgraph accepts start = end, the writer stores such values, the reader's
   filter start < e && end > s drops them); with no empty value: exactly the input records.
   Hypotheses besides the rule: C01's field-width guards [opts_ok] (2 <= block_size <= 65535, 1 <= items_per_slot <= 65535),
   [input_ok] (names NUL-free and < 2^32 bytes, < 65536 chromosomes, sizes and bit patterns u32: see C16_bedgraph_input_ok for
   what the parsers already guarantee), file shorter than 2^64 bytes.  No hypothesis on the sort mode: the table is in order of
   first appearance and an accepted input has one run per chromosome. *)
Theorem C16_bedgraph_file_roundtrip : forall pf fp o two_pass cs_text in_text sizes items,
  parse_chrom_sizes cs_text = Ok sizes -> mapM (parse_bedgraph pf) (lines in_text) = Ok items ->
  BigWigFileRoundTrip.opts_ok o -> BigWigFileRoundTrip.input_ok sizes items ->
  items <> [] -> stream_ok bw_good_val bw_good_pair (o_sort_all o) sizes [] None items ->
  exists bs, bedgraphtobigwig_file pf fp o two_pass cs_text in_text = Ok bs /\
    (Nlen bs < U64 -> forall infl,
       bigwigtobedgraph_records infl bs None None None = Ok (filter (fun it => negb (bzero sizes it)) items)
       /\ (Forall (fun it : item => v_start (snd it) < v_end (snd it)) items ->
           bigwigtobedgraph_records infl bs None None None = Ok items)).
Proof. exact bedgraph_file_roundtrip. Qed.
Print Assumptions C16_bedgraph_file_roundtrip.

(* the same at text level, for any printer [pr]: the output text is one line per input record with the value printed by [pr]; if
   printer and parser fit together on the values of the input ([printer_ok]: the printed token is non-empty, has no TAB / NL /
   trailing white space, and pf maps it back to the bit pattern) the output text parses to the same records: text in = text out
   up to the formatting of the numbers *)
Theorem C16_bedgraph_file_text : forall pf pr fp o two_pass cs_text in_text sizes items,
  parse_chrom_sizes cs_text = Ok sizes -> mapM (parse_bedgraph pf) (lines in_text) = Ok items ->
  BigWigFileRoundTrip.opts_ok o -> BigWigFileRoundTrip.input_ok sizes items ->
  items <> [] -> stream_ok bw_good_val bw_good_pair (o_sort_all o) sizes [] None items ->
  Forall (fun it : item => v_start (snd it) < v_end (snd it)) items ->
  exists bs, bedgraphtobigwig_file pf fp o two_pass cs_text in_text = Ok bs /\
    (Nlen bs < U64 -> forall infl,
       bigwigtobedgraph_file infl pr bs None None None = Ok (format_bedgraph_records pr items)
       /\ (Forall (fun it : item => printer_ok pf pr (v_bits (snd it))) items ->
           mapM (parse_bedgraph pf) (lines (format_bedgraph_records pr items)) = Ok items)).
Proof. exact bedgraph_file_text. Qed.
Print Assumptions C16_bedgraph_file_text.

(* BED -> bigBed -> BED.  For texts that parse, with the entries accepted by the bigBed writer rule of C13 (option guards,
   autoSql text without NUL - automatic unless --autosql supplies one -, non-empty, start <= end, start < chromosome size, starts
   non-decreasing, chromosome rules as above): the converter model returns a file [f], and bigbedtobed on those BYTES returns
   the records of the input in input order with the extra columns byte for byte; the text it prints is the canonical formatting
   of the records, parses back to them, and IS the input text when the input text was canonical.
   Hypotheses besides the rule: C02's [file_hyps] (block_size <= 65535, < 65536 chromosomes, names NUL-free and < 2^32 bytes,
   positions and sizes u32, extra columns NUL-free, no entry [0,0), file <= 2^64 bytes; C16_bed_file_hyps says which follow
   from parsing).  K2 (C02/C04's known finding): an entry [0,0) is written and makes the reader fail (C16_ex_file_k2). *)
Theorem C16_bed_file_roundtrip : forall fp o two_pass user_autosql cs_text in_text sizes items,
  parse_chrom_sizes cs_text = Ok sizes -> mapM parse_bed (lines in_text) = Ok items ->
  (forall s, user_autosql = Some s -> AcceptBed.has_nul s = false) ->
  Accept.opts_ok o = true -> items <> [] ->
  stream_ok bb_good_val bb_good_pair (o_sort_all o) sizes [] None (AcceptBed.bb_items (to_bitems items)) ->
  exists f, bedtobigbed_file fp o two_pass user_autosql cs_text in_text = Ok f /\
    (BedEndToEnd.file_hyps o sizes (to_bitems items) f -> forall infl,
       bigbedtobed_records infl f None None None = Ok items
       /\ bigbedtobed_file infl f None None None = Ok (format_bed_text items)
       /\ mapM parse_bed (lines (format_bed_text items)) = Ok items
       /\ (forall items0, Forall canonical_bed items0 -> in_text = format_bed_text items0 ->
             bigbedtobed_file infl f None None None = Ok in_text)).
Proof. exact bed_file_roundtrip. Qed.
Print Assumptions C16_bed_file_roundtrip.

(* --chrom / --start / --end on the BYTES the model converter wrote.  bigWig: for a chromosome of the input, the output is the
   answer of C01_query_on_input on those bytes (bw_interval = header -> chromosome tree -> index search -> blocks -> clip) for
   [start or 0, end or chromosome size), i.e. clip_filter of the input's values of that chromosome, each labelled with the name;
   a chromosome not in the input and --start/--end without --chrom print nothing. *)
Theorem C16_restrict_file_bigwig : forall pf fp o two_pass cs_text in_text sizes items bs,
  parse_chrom_sizes cs_text = Ok sizes -> mapM (parse_bedgraph pf) (lines in_text) = Ok items ->
  BigWigFileRoundTrip.opts_ok o -> BigWigFileRoundTrip.input_ok sizes items ->
  bedgraphtobigwig_file pf fp o two_pass cs_text in_text = Ok bs -> Nlen bs < U64 ->
  forall infl st en,
    (forall c, In c (map fst items) ->
       exists len i, lookup c sizes = Some len /\ read_info bs = Ok i /\
         let s := match st with Some s => s | None => 0 end in
         let e := match en with Some e => e | None => len end in
         bw_interval infl bs i c s e = Ok (clip_filter s e (vals_of items c)) /\
         bigwigtobedgraph_records infl bs (Some c) st en = Ok (map (fun v => (c, v)) (clip_filter s e (vals_of items c))))
    /\ (forall c, ~ In c (map fst items) -> bigwigtobedgraph_records infl bs (Some c) st en = Ok [])
    /\ ((st <> None \/ en <> None) -> bigwigtobedgraph_records infl bs None st en = Ok []).
Proof. exact restrict_file_bigwig. Qed.
Print Assumptions C16_restrict_file_bigwig.

(* bigBed: for a chromosome run (c, es) of the input, the output is the answer of C04_written_file_query on the bytes: the
   entries of c that the reader's inclusive test keeps (end >= s && start <= e), stored order, rest fields unchanged *)
Theorem C16_restrict_file_bigbed : forall fp o two_pass user_autosql cs_text in_text sizes items f,
  parse_chrom_sizes cs_text = Ok sizes -> mapM parse_bed (lines in_text) = Ok items ->
  bedtobigbed_file fp o two_pass user_autosql cs_text in_text = Ok f -> BedEndToEnd.file_hyps o sizes (to_bitems items) f ->
  forall infl st en,
    (forall c es, In (c, es) (bruns (to_bitems items)) ->
       exists len i, lookup c sizes = Some len /\ read_info f = Ok i /\
         let s := match st with Some s => s | None => 0 end in
         let e := match en with Some e => e | None => len end in
         bb_interval infl f i c s e = Ok (filter (bkeep s e) es) /\
         bigbedtobed_records infl f (Some c) st en = Ok (map (fun x => (c, of_entry x)) (filter (bkeep s e) es)))
    /\ (forall c, ~ In c (map fst items) -> bigbedtobed_records infl f (Some c) st en = Ok [])
    /\ ((st <> None \/ en <> None) -> bigbedtobed_records infl f None st en = Ok []).
Proof. exact restrict_file_bigbed. Qed.
Print Assumptions C16_restrict_file_bigbed.

(* which of the field-width hypotheses the parsers already guarantee: sizes and positions are u32 (parse_u32 refuses the rest),
   value patterns are u32 when the float parser returns f32 patterns; left over: names (NUL-free, < 2^32 bytes), the number of
   chromosomes, and for BED NUL-free extra columns and no entry [0,0) *)
Theorem C16_bedgraph_input_ok : forall pf cs_text in_text sizes items,
  parse_chrom_sizes cs_text = Ok sizes -> mapM (parse_bedgraph pf) (lines in_text) = Ok items ->
  (forall t b, pf t = Some b -> b < U32) ->
  Forall (fun it : item => no_zero (fst it) /\ Nlen (fst it) < U32) items -> Nlen (runs items) < U16 ->
  BigWigFileRoundTrip.input_ok sizes items.
Proof. exact bedgraph_input_ok. Qed.
Print Assumptions C16_bedgraph_input_ok.

Theorem C16_bed_file_hyps : forall o cs_text in_text sizes items f,
  parse_chrom_sizes cs_text = Ok sizes -> mapM parse_bed (lines in_text) = Ok items ->
  o_bs o <= 65535 -> Nlen (bruns (to_bitems items)) < U16 ->
  Forall (fun it : name * bed_entry => BedReadInfo.no_nul_name (fst it) /\ Nlen (fst it) < U32 /\ BedCodec.no_nul (be_rest (snd it))
                                       /\ ~ (be_start (snd it) = 0 /\ be_end (snd it) = 0)) items ->
  Nlen f <= U64 -> BedEndToEnd.file_hyps o sizes (to_bitems items) f.
Proof. exact bed_file_hyps_of_text. Qed.
Print Assumptions C16_bed_file_hyps.

(* the byte-level converters and the list-level converters of the first part of this file (the model bin/check C16 compares with the
   BUILT BINARIES on every run) agree: whenever the list-level writer accepts the texts, the byte-level writer returns a file, and
   for every --chrom/--start/--end the byte-level reader on that file returns exactly the list-level reader's output, for every
   block size [ips] of the list-level model.  (The list-level writer demands ascending chromosome names, i.e. -s all.) *)
Theorem C16_file_matches_list_model_bigwig : forall pf fp o two_pass cs_text in_text sizes items file,
  parse_chrom_sizes cs_text = Ok sizes -> mapM (parse_bedgraph pf) (lines in_text) = Ok items ->
  BigWigFileRoundTrip.opts_ok o -> BigWigFileRoundTrip.input_ok sizes items ->
  bedgraph_to_bigwig pf cs_text in_text = Ok file ->
  exists bs, bedgraphtobigwig_file pf fp o two_pass cs_text in_text = Ok bs /\
    (Nlen bs < U64 -> forall infl ips chrom st en, (0 < ips)%nat ->
       bigwigtobedgraph_records infl bs chrom st en = Ok (bigwig_to_bedgraph ips file chrom st en)).
Proof. exact file_matches_list_model_bigwig. Qed.
Print Assumptions C16_file_matches_list_model_bigwig.

Theorem C16_file_matches_list_model_bigbed : forall fp o two_pass user_autosql cs_text in_text sizes items file,
  parse_chrom_sizes cs_text = Ok sizes -> mapM parse_bed (lines in_text) = Ok items ->
  (forall s, user_autosql = Some s -> AcceptBed.has_nul s = false) -> Accept.opts_ok o = true ->
  bed_to_bigbed (match user_autosql with Some _ => true | None => false end) cs_text in_text = Ok file ->
  exists f, bedtobigbed_file fp o two_pass user_autosql cs_text in_text = Ok f /\
    (BedEndToEnd.file_hyps o sizes (to_bitems items) f -> forall infl ips chrom st en, (0 < ips)%nat ->
       bigbedtobed_records infl f chrom st en = Ok (bigbed_to_bed ips file chrom st en)).
Proof. exact file_matches_list_model_bigbed. Qed.
Print Assumptions C16_file_matches_list_model_bigbed.

(* ---- non-vacuity, computed: "chr1 1000 / chr2 500", a four-line two-chromosome bedGraph text and a four-line BED text with
   overlapping, nested and zero-length entries and a UTF-8 extra column, toy printer/parser pair (decimal reading of the bit
   pattern), items_per_slot = 2 (two data blocks on chr1), both pass modes.  Every hypothesis holds and the whole pipeline
   text -> bytes -> text is evaluated: the text comes back byte for byte, the restricted runs print the range-query answers. ---- *)
Example C16_ex_file_bedgraph :
  (parse_chrom_sizes ex_cs_text = Ok ex_szs /\ mapM (parse_bedgraph toy_pf) (lines ex_bg_text) = Ok ex_bg_items
   /\ BigWigFileRoundTrip.opts_ok ex_o /\ BigWigFileRoundTrip.input_ok ex_szs ex_bg_items /\ ex_bg_items <> []
   /\ stream_ok bw_good_val bw_good_pair (o_sort_all ex_o) ex_szs [] None ex_bg_items
   /\ Forall (fun it : item => v_start (snd it) < v_end (snd it)) ex_bg_items
   /\ Forall (fun it : item => printer_ok toy_pf toy_pr (v_bits (snd it))) ex_bg_items)
  /\ forall two_pass,
       match bedgraphtobigwig_file toy_pf ieee ex_o two_pass ex_cs_text ex_bg_text with
       | Ok bs => Nlen bs < U64
                  /\ bigwigtobedgraph_records idf bs None None None = Ok ex_bg_items
                  /\ bigwigtobedgraph_file idf toy_pr bs None None None = Ok ex_bg_text
                  /\ bigwigtobedgraph_file idf toy_pr bs (Some chr1) (Some 5) (Some 12) = Ok ex_bg_restricted
                  /\ bigwigtobedgraph_file idf toy_pr bs (Some [120]) None None = Ok []
                  /\ bigwigtobedgraph_file idf toy_pr bs None (Some 5) None = Ok []
       | _ => False
       end.
Proof. exact (conj ex_bedgraph_hyps ex_bedgraph_run). Qed.
Example C16_ex_file_bed :
  (parse_chrom_sizes ex_cs_text = Ok ex_szs /\ mapM parse_bed (lines ex_bed_text) = Ok ex_bed_items
   /\ Accept.opts_ok ex_o = true /\ ex_bed_items <> []
   /\ stream_ok bb_good_val bb_good_pair (o_sort_all ex_o) ex_szs [] None (AcceptBed.bb_items (to_bitems ex_bed_items))
   /\ forall two_pass, exists f, bedtobigbed_file ieee ex_o two_pass None ex_cs_text ex_bed_text = Ok f
                                 /\ BedEndToEnd.file_hyps ex_o ex_szs (to_bitems ex_bed_items) f)
  /\ forall two_pass,
       match bedtobigbed_file ieee ex_o two_pass None ex_cs_text ex_bed_text with
       | Ok f => bigbedtobed_records idf f None None None = Ok ex_bed_items
                 /\ bigbedtobed_file idf f None None None = Ok ex_bed_text
                 /\ bigbedtobed_file idf f (Some chr1) (Some 9) None = Ok ex_bed_restricted
                 /\ bigbedtobed_file idf f (Some [120]) None None = Ok []
                 /\ bigbedtobed_file idf f None None (Some 5) = Ok []
       | _ => False
       end.
Proof. exact (conj ex_bed_hyps ex_bed_run). Qed.
(* why the exclusions are there: K1 (chr1 0 0 5 / chr1 0 10 7 / chr1 1000 1000 9 is accepted and comes back as chr1 0 10 7) and
   K2 (chr1 0 0 x / chr1 0 10 is accepted and written, bigbedtobed fails with InvalidFile) through the tools *)
Example C16_ex_file_k1 :
  exists items, mapM (parse_bedgraph toy_pf) (lines k1_text) = Ok items
    /\ stream_ok bw_good_val bw_good_pair (o_sort_all ex_o) ex_szs [] None items
    /\ filter (fun it => negb (bzero ex_szs it)) items = [(chr1, {| v_start := 0; v_end := 10; v_bits := 7 |})]
    /\ forall two_pass, match bedgraphtobigwig_file toy_pf ieee ex_o two_pass ex_cs_text k1_text with
                        | Ok bs => bigwigtobedgraph_file idf toy_pr bs None None None = Ok k1_out
                        | _ => False end.
Proof. exact ex_k1_zero_length_lost. Qed.
Example C16_ex_file_k2 : forall two_pass,
  match bedtobigbed_file ieee ex_o two_pass None ex_cs_text k2_text with
  | Ok f => bigbedtobed_file idf f None None None = Err R_INVALID
  | _ => False end.
Proof. exact ex_k2_zero_zero_refused. Qed.
Example C16_ex_file_list_model :
  (exists file, bedgraph_to_bigwig toy_pf ex_cs_text ex_bg_text = Ok file)
  /\ (exists file, bed_to_bigbed false ex_cs_text ex_bed_text = Ok file).
Proof. exact ex_list_model_accepts. Qed.
