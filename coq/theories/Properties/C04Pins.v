From BT Require Import Base.Util Base.Float Model.RTree Model.BBIFile Model.BigWigWrite Model.BBIRead Model.CachedRead
  Model.BigBedWrite Model.BBIReadBed Proofs.Chunks Proofs.RTreeCodec Proofs.BedQuery Proofs.BedCached Proofs.BedEndToEnd Proofs.BedZoomFit.
From BT Require Properties.C04.
Local Open Scope N_scope.
Check (C04.C04_skipped_block_empty : forall s e c, starts_sorted c -> bchunk_hit s e c = false -> filter (bkeep s e) c = []).
Check (C04.C04_query_blocks : forall s e (cs : list (list entry)), starts_sorted (concat cs) ->
  flat_map (filter (bkeep s e)) (filter (bchunk_hit s e) cs) = filter (bkeep s e) (concat cs)).
Check (C04.C04_query : forall ips s e es, starts_sorted es ->
  flat_map (filter (bkeep s e)) (filter (bchunk_hit s e) (sections_loop ips [] es)) = filter (bkeep s e) es).
Check (C04.C04_no_miss : forall ips s e es x, starts_sorted es -> In x es -> e_start x < e -> s < e_end x ->
  In x (flat_map (filter (bkeep s e)) (filter (bchunk_hit s e) (sections_loop ips [] es)))).
Check (C04.C04_no_disjoint : forall ips s e es x, starts_sorted es ->
  In x (flat_map (filter (bkeep s e)) (filter (bchunk_hit s e) (sections_loop ips [] es))) ->
  In x es /\ s <= e_end x /\ e_start x <= e).
Check (C04.C04_accepted_sorted : forall len es, check_entries len es = Ok tt -> starts_sorted es).
Check (C04.C04_refuted_unrepaired :
  exists c s e, starts_sorted c /\ bchunk_hit_last s e c = false /\ filter (bkeep s e) c <> []).
Check (C04.C04_file_query : forall (sweep : list bchrom -> summary)
    (zoom_part : list bchrom -> summary -> N -> N -> res (list N * list zoom_header)),
  (forall outs sum a b zb zh, zoom_part outs sum a b = Ok (zb, zh) -> (length zh <= 10)%nat) ->
  forall o sizes autosql input f, bb_write_gen sweep zoom_part o sizes autosql input = Ok f ->
  file_hyps o sizes input f ->
  exists i, read_info f = Ok i /\ forall infl c es s e, In (c, es) (bruns input) ->
    bb_interval infl f i c s e = Ok (filter (bkeep s e) es)).
Check (C04.C04_history : forall infl bs i qs,
  c_bb_history infl bs i cache0 qs = map (fun q => bb_interval infl bs i (fst (fst q)) (snd (fst q)) (snd q)) qs).
Check (C04.C04_history_from : forall infl bs i c qs, cache_ok infl bs i c ->
  c_bb_history infl bs i c qs = map (fun q => bb_interval infl bs i (fst (fst q)) (snd (fst q)) (snd q)) qs).
Check (C04.C04_file_no_miss_no_disjoint : forall (sweep : list bchrom -> summary)
    (zoom_part : list bchrom -> summary -> N -> N -> res (list N * list zoom_header)),
  (forall outs sum a b zb zh, zoom_part outs sum a b = Ok (zb, zh) -> (length zh <= 10)%nat) ->
  forall o sizes autosql input f, bb_write_gen sweep zoom_part o sizes autosql input = Ok f ->
  file_hyps o sizes input f ->
  exists i, read_info f = Ok i /\ forall infl c es s e, In (c, es) (bruns input) ->
    exists ans, bb_interval infl f i c s e = Ok ans
      /\ (forall x, In x es -> e_start x < e -> s < e_end x -> In x ans)
      /\ (forall x, In x ans -> In x es /\ s <= e_end x /\ e_start x <= e)
      /\ ans = filter (bkeep s e) es).
Check (C04.C04_written_file_query : forall two_pass fp o sizes autosql input f,
  bb_write_either two_pass fp o sizes autosql input = Ok f -> file_hyps o sizes input f ->
  exists i, read_info f = Ok i /\ forall infl c es s e, In (c, es) (bruns input) ->
    bb_interval infl f i c s e = Ok (filter (bkeep s e) es)).
Check (C04.C04_written_file_narrow : forall two_pass fp o sizes autosql input f,
  bb_write_either two_pass fp o sizes autosql input = Ok f -> file_hyps o sizes input f ->
  exists i, read_info f = Ok i /\ forall infl c es s e s' e', In (c, es) (bruns input) ->
    s' <= s -> e <= e' ->
    exists wide, bb_interval infl f i c s' e' = Ok wide
      /\ bb_interval infl f i c s e = Ok (filter (bkeep s e) wide)).

(* ---- compressed files ---- *)
From BT Require Import Model.BigWigWriteZ Model.BigBedWriteZ Proofs.BedFileZ Proofs.BedFileZThms.
Check (C04.C04_written_file_query_compressed : forall cmp two_pass fp o sizes autosql input f,
  bb_write_either_z cmp two_pass fp o sizes autosql input = Ok f -> file_hyps o sizes input f -> ubuf_fits o input ->
  exists i, read_info f = Ok i /\ forall infl, (o_compress o = true -> forall b, infl (cmp b) = b) ->
    forall c es s e, In (c, es) (bruns input) -> bb_interval infl f i c s e = Ok (filter (bkeep s e) es)).
Check (C04.C04_file_no_miss_no_disjoint_compressed : forall cmp two_pass fp o sizes autosql input f,
  bb_write_either_z cmp two_pass fp o sizes autosql input = Ok f -> file_hyps o sizes input f -> ubuf_fits o input ->
  exists i, read_info f = Ok i /\ forall infl, (o_compress o = true -> forall b, infl (cmp b) = b) ->
    forall c es s e, In (c, es) (bruns input) ->
    exists ans, bb_interval infl f i c s e = Ok ans
      /\ (forall x, In x es -> e_start x < e -> s < e_end x -> In x ans)
      /\ (forall x, In x ans -> In x es /\ s <= e_end x /\ e_start x <= e)
      /\ ans = filter (bkeep s e) es).
Check (C04.C04_history_compressed : forall cmp two_pass fp o sizes autosql input f,
  bb_write_either_z cmp two_pass fp o sizes autosql input = Ok f -> file_hyps o sizes input f -> ubuf_fits o input ->
  exists i, read_info f = Ok i /\ forall infl, (o_compress o = true -> forall b, infl (cmp b) = b) ->
    forall c qs, cache_ok infl f i c ->
      c_bb_history infl f i c qs = map (fun q => bb_interval infl f i (fst (fst q)) (snd (fst q)) (snd q)) qs
      /\ Forall2 (fun q a => forall es, In (fst (fst q), es) (bruns input) -> a = Ok (filter (bkeep (snd (fst q)) (snd q)) es))
                 qs (c_bb_history infl f i c qs)).
