From BT Require Import Base.Util Base.Float Model.RTree Model.BBIFile Model.BigWigWrite Model.BBIRead
  Model.BigBedWrite Model.BBIReadBed Proofs.Chunks Proofs.BedQuery.
From BT Require Properties.C04.
Local Open Scope N_scope.
Check (C04.C04_skipped_block_empty : forall s e c, starts_sorted c -> bchunk_hit s e c = false -> filter (bkeep s e) c = []).
Check (C04.C04_query_blocks : forall s e (cs : list (list entry)), starts_sorted (concat cs) ->
  flat_map (filter (bkeep s e)) (filter (bchunk_hit s e) cs) = filter (bkeep s e) (concat cs)).
Check (C04.C04_query : forall ips s e es, starts_sorted es ->
  flat_map (filter (bkeep s e)) (filter (bchunk_hit s e) (sections_loop ips [] es)) = filter (bkeep s e) es).
Check (C04.C04_no_miss : forall ips s e es x, starts_sorted es -> In x es -> e_start x < e -> s < e_end x ->
  In x (flat_map (filter (bkeep s e)) (filter (bchunk_hit s e) (sections_loop ips [] es)))).
Check (C04.C04_no_disjoint : forall ips s e es x, starts_sorted es ->
  In x (flat_map (filter (bkeep s e)) (filter (bchunk_hit s e) (sections_loop ips [] es))) ->
  In x es /\ s <= e_end x /\ e_start x <= e).
Check (C04.C04_accepted_sorted : forall len es, check_entries len es = Ok tt -> starts_sorted es).
Check (C04.C04_refuted_unrepaired :
  exists c s e, starts_sorted c /\ bchunk_hit_last s e c = false /\ filter (bkeep s e) c <> []).
