(* C09 — an executable specification of zlib / DEFLATE decoding (RFC 1950 over RFC 1951), so that
   "each block is a standard zlib stream" is judged by a function extracted from Coq rather than by a
   library outside it.  Written from the two RFCs and from the acceptance rules of the reference
   implementation (zlib's inflate.c / inftrees.c), which are stricter than the RFC text in a few places
   and are what "standard" means in practice:

     RFC 1950   CMF/FLG:  CM = 8, CINFO <= 7 (window <= 32K), (CMF*256+FLG) mod 31 = 0, FDICT refused
                (no preset dictionary is ever available here); after the deflate data, aligned to a byte
                boundary, the Adler-32 of the uncompressed bytes, most significant byte first; nothing
                may follow it.
     RFC 1951   blocks: BFINAL, BTYPE (3 = error);
                stored: skip to the byte boundary, LEN, NLEN = one's complement of LEN, LEN raw bytes;
                fixed Huffman: lengths 8/9/7/8 for 0-143/144-255/256-279/280-287, 32 distance codes of 5 bits;
                dynamic Huffman: HLIT, HDIST, HCLEN; zlib refuses HLIT > 286 and HDIST > 30;
                   code length alphabet in the order 16 17 18 0 8 7 9 6 10 5 11 4 12 3 13 2 14 1 15;
                   16 = repeat previous 3-6 (error when there is none), 17 = 3-10 zeros, 18 = 11-138 zeros,
                   a repeat running past HLIT+HDIST is an error; the length of symbol 256 must not be 0;
                canonical codes (RFC 1951 3.2.2: bl_count / next_code / consecutive assignment);
                   an OVER-SUBSCRIBED set of lengths is always an error, an INCOMPLETE set is an error except
                   a literal/length or distance code consisting of one single code of length 1 (zlib
                   inftrees.c: `left > 0 && (type == CODES || max != 1)`); a distance code with no symbol
                   at all is accepted (a block of literals only) and fails when a distance is needed;
                literal/length symbols 286, 287 and distance symbols 30, 31 are errors when decoded;
                length = base + extra bits, distance = base + extra bits (1..32768); a distance greater
                than the number of bytes produced so far is an error (there is no dictionary);
                symbol 256 ends the block.

   Representation.  Input and output are lists of byte values (N).  The bit reader keeps the not yet
   consumed bits of the current byte (least significant first) and the remaining bytes, so stored blocks
   copy bytes verbatim.  The output is accumulated newest-first.  Numbers are N throughout; the only
   nat-indexed recursions are over bit widths (<= 16), table sizes (<= 320) and match lengths (<= 258);
   the main loop runs on binary (positive) fuel.
   Result type: Base/Util's [res]: [Ok v], [Err class] for every malformed input, [Fuel] for fuel
   exhaustion (Proofs/InflateThms.v: never returned), [Panic] never produced.
   No proofs in this file. *)
From BT Require Import Base.Util Base.LE.
Local Open Scope N_scope.

(* ---------- error classes ---------- *)
Definition E_TRUNC : N := 1.        (* the input ends inside the stream *)
Definition E_BTYPE : N := 2.        (* block type 3 *)
Definition E_STORED : N := 3.       (* NLEN is not the complement of LEN *)
Definition E_COUNTS : N := 4.       (* too many length or distance symbols *)
Definition E_CODELENS : N := 5.     (* invalid code lengths set *)
Definition E_REPEAT : N := 6.       (* invalid bit length repeat *)
Definition E_NO_EOB : N := 7.       (* missing end-of-block code *)
Definition E_LITLENS : N := 8.      (* invalid literal/lengths set *)
Definition E_DISTS : N := 9.        (* invalid distances set *)
Definition E_CODE : N := 10.        (* invalid literal/length code, or an unused code *)
Definition E_DCODE : N := 11.       (* invalid distance code *)
Definition E_FAR : N := 12.         (* invalid distance too far back *)
Definition E_HEADER : N := 13.      (* zlib header: check bits, method, window size *)
Definition E_DICT : N := 14.        (* preset dictionary requested *)
Definition E_ADLER : N := 15.       (* incorrect data check *)
Definition E_TRAILING : N := 16.    (* bytes after the end of the stream *)
Definition E_INTERNAL : N := 17.    (* code table construction failed after the checks: not reachable *)

(* ---------- bit reader ---------- *)
(* (bits of the current byte still to be read, least significant first; bytes after it) *)
Definition bstream := (list bool * list N)%type.

Definition get_bit (s : bstream) : res (bool * bstream) :=
  match s with
  | (b :: r, rest) => Ok (b, (r, rest))
  | ([], x :: rest) =>
      Ok (N.testbit x 0, ([N.testbit x 1; N.testbit x 2; N.testbit x 3; N.testbit x 4;
                           N.testbit x 5; N.testbit x 6; N.testbit x 7], rest))
  | ([], []) => Err E_TRUNC
  end.

(* an n-bit integer, least significant bit first (RFC 1951 3.1.1: everything except Huffman codes) *)
Fixpoint get_bits (n : nat) (s : bstream) : res (N * bstream) :=
  match n with
  | O => Ok (0, s)
  | S k => do (b, s1) <- get_bit s;
           do (v, s2) <- get_bits k s1;
           Ok (N.b2n b + 2 * v, s2)
  end.

(* [n] integers of [w] bits each *)
Fixpoint get_many (n w : nat) (s : bstream) : res (list N * bstream) :=
  match n with
  | O => Ok ([], s)
  | S k => do (v, s1) <- get_bits w s;
           do (vs, s2) <- get_many k w s1;
           Ok (v :: vs, s2)
  end.

(* the bytes from the next byte boundary on *)
Definition aligned (s : bstream) : list N := snd s.

(* ---------- Huffman codes ---------- *)
Inductive htree : Type := HEmpty | HLeaf (sym : N) | HNode (zero one : htree).

(* a code is read most significant bit first (RFC 1951 3.1.1) *)
Fixpoint hwalk (t : htree) (s : bstream) : res (N * bstream) :=
  match t with
  | HEmpty => Err E_CODE
  | HLeaf sym => Ok (sym, s)
  | HNode z o => do (b, s1) <- get_bit s; hwalk (if b then o else z) s1
  end.
(* every code has at least one bit *)
Definition decode_sym (t : htree) (s : bstream) : res (N * bstream) :=
  match t with HNode _ _ => hwalk t s | _ => Err E_CODE end.

Fixpoint hinsert (bits : list bool) (sym : N) (t : htree) : option htree :=
  match bits with
  | [] => match t with HEmpty => Some (HLeaf sym) | _ => None end
  | b :: r =>
      match t with
      | HLeaf _ => None
      | HEmpty => match hinsert r sym HEmpty with
                  | Some u => Some (if b then HNode HEmpty u else HNode u HEmpty)
                  | None => None
                  end
      | HNode z o =>
          if b then match hinsert r sym o with Some u => Some (HNode z u) | None => None end
          else match hinsert r sym z with Some u => Some (HNode u o) | None => None end
      end
  end.

(* the [l] low bits of [code], most significant first *)
Fixpoint code_bits (l : nat) (code : N) : list bool :=
  match l with O => [] | S k => N.testbit code (N.of_nat k) :: code_bits k code end.

Definition count_len (lens : list N) (l : N) : N :=
  fold_left (fun c x => if x =? l then c + 1 else c) lens 0.
Definition all_lengths : list N := [1; 2; 3; 4; 5; 6; 7; 8; 9; 10; 11; 12; 13; 14; 15].

(* zlib's check: left = 1; for len = 1..15: left = 2 left - count[len], negative = over-subscribed;
   what is left at the end is the unused code space (0 = complete) *)
Fixpoint kraft_left (ls : list N) (lens : list N) (left : N) : option N :=
  match ls with
  | [] => Some left
  | l :: r => let c := count_len lens l in
              if 2 * left <? c then None else kraft_left r lens (2 * left - c)
  end.

(* RFC 1951 3.2.2 step 2: next_code[bits] = (next_code[bits-1] + bl_count[bits-1]) << 1, bl_count[0] = 0;
   the result lists next_code[1..15] *)
Fixpoint first_codes (ls : list N) (lens : list N) (code prev_count : N) : list N :=
  match ls with
  | [] => []
  | l :: r => let c := 2 * (code + prev_count) in c :: first_codes r lens c (count_len lens l)
  end.

Fixpoint upd (l : list N) (i : nat) (v : N) : list N :=
  match l, i with
  | [], _ => []
  | _ :: r, O => v :: r
  | x :: r, S k => x :: upd r k v
  end.

(* RFC 1951 3.2.2 step 3: symbols in increasing order take consecutive codes of their length *)
Fixpoint assign (lens : list N) (sym : N) (next : list N) (t : htree) : option htree :=
  match lens with
  | [] => Some t
  | l :: r =>
      if l =? 0 then assign r (sym + 1) next t else
      let i := N.to_nat (l - 1) in
      match nth_error next i with
      | None => None
      | Some code =>
          match hinsert (code_bits (N.to_nat l) code) sym t with
          | None => None
          | Some u => assign r (sym + 1) (upd next i (code + 1)) u
          end
      end
  end.

Inductive code_kind := KCodes | KLens | KDists.

Definition build (kind : code_kind) (bad : N) (lens : list N) : res htree :=
  let maxl := fold_left N.max lens 0 in
  if maxl =? 0 then
    (* no symbol at all.  zlib builds a table on which every decoding step fails; for the code length
       code it then reads zeros only and stops at the missing end-of-block code: refused either way *)
    match kind with KCodes => Err bad | _ => Ok HEmpty end
  else
    match kraft_left all_lengths lens 1 with
    | None => Err bad                                   (* over-subscribed *)
    | Some lft =>
        if (0 <? lft) && (match kind with KCodes => true | _ => negb (maxl =? 1) end) then Err bad   (* incomplete *)
        else match assign lens 0 (first_codes all_lengths lens 0 0) HEmpty with
             | Some t => Ok t
             | None => Err E_INTERNAL
             end
    end.

(* ---------- fixed codes (RFC 1951 3.2.6) ---------- *)
Definition fixed_lit_lens : list N := repeatN 8 144 ++ repeatN 9 112 ++ repeatN 7 24 ++ repeatN 8 8.
Definition fixed_dist_lens : list N := repeatN 5 32.
Definition tree_or_empty (r : res htree) : htree := match r with Ok t => t | _ => HEmpty end.
Definition fixed_lit : htree := tree_or_empty (build KLens E_LITLENS fixed_lit_lens).
Definition fixed_dist : htree := tree_or_empty (build KDists E_DISTS fixed_dist_lens).

(* ---------- dynamic codes (RFC 1951 3.2.7) ---------- *)
Definition cl_order : list N := [16; 17; 18; 0; 8; 7; 9; 6; 10; 5; 11; 4; 12; 3; 13; 2; 14; 1; 15].
Definition cl_symbols : list N := [0; 1; 2; 3; 4; 5; 6; 7; 8; 9; 10; 11; 12; 13; 14; 15; 16; 17; 18].
Fixpoint assoc0 (k : N) (al : list (N * N)) : N :=
  match al with [] => 0 | (k', v) :: r => if k' =? k then v else assoc0 k r end.

(* the HLIT + HDIST code lengths, newest first in [acc]; [have] = length acc *)
Fixpoint read_lens (fuel : nat) (clt : htree) (total have : N) (acc : list N) (s : bstream)
  : res (list N * bstream) :=
  if have =? total then Ok (rev' acc, s) else
  match fuel with
  | O => Fuel
  | S f =>
      do (sym, s1) <- decode_sym clt s;
      if sym <? 16 then read_lens f clt total (have + 1) (sym :: acc) s1
      else if sym =? 16 then
        match acc with
        | [] => Err E_REPEAT
        | prev :: _ =>
            do (r, s2) <- get_bits 2 s1;
            let n := 3 + r in
            if total <? have + n then Err E_REPEAT
            else read_lens f clt total (have + n) (repeatN prev (N.to_nat n) ++ acc) s2
        end
      else
        do (r, s2) <- (if sym =? 17 then get_bits 3 s1 else get_bits 7 s1);
        let n := (if sym =? 17 then 3 else 11) + r in
        if total <? have + n then Err E_REPEAT
        else read_lens f clt total (have + n) (repeatN 0 (N.to_nat n) ++ acc) s2
  end.

Definition dynamic_tables (s : bstream) : res (htree * htree * bstream) :=
  do (hlit, s1) <- get_bits 5 s;
  do (hdist, s2) <- get_bits 5 s1;
  do (hclen, s3) <- get_bits 4 s2;
  let nlen := 257 + hlit in
  let ndist := 1 + hdist in
  let ncode := 4 + hclen in
  if (286 <? nlen) || (30 <? ndist) then Err E_COUNTS else
  do (cls, s4) <- get_many (N.to_nat ncode) 3 s3;
  let al := combine cl_order cls in
  do clt <- build KCodes E_CODELENS (map (fun k => assoc0 k al) cl_symbols);
  do (lens, s5) <- read_lens (N.to_nat (nlen + ndist)) clt (nlen + ndist) 0 [] s4;
  let ll := firstn (N.to_nat nlen) lens in
  let dl := skipn (N.to_nat nlen) lens in
  if nth 256 ll 0 =? 0 then Err E_NO_EOB else
  do lit <- build KLens E_LITLENS ll;
  do dist <- build KDists E_DISTS dl;
  Ok (lit, dist, s5).

(* ---------- lengths and distances (RFC 1951 3.2.5): (base, number of extra bits) ---------- *)
Definition len_table : list (N * N) :=
  [(3,0); (4,0); (5,0); (6,0); (7,0); (8,0); (9,0); (10,0); (11,1); (13,1); (15,1); (17,1); (19,2); (23,2); (27,2); (31,2);
   (35,3); (43,3); (51,3); (59,3); (67,4); (83,4); (99,4); (115,4); (131,5); (163,5); (195,5); (227,5); (258,0)].
Definition dist_table : list (N * N) :=
  [(1,0); (2,0); (3,0); (4,0); (5,1); (7,1); (9,2); (13,2); (17,3); (25,3); (33,4); (49,4); (65,5); (97,5); (129,6); (193,6);
   (257,7); (385,7); (513,8); (769,8); (1025,9); (1537,9); (2049,10); (3073,10); (4097,11); (6145,11); (8193,12); (12289,12);
   (16385,13); (24577,13)].
Definition base_extra (tbl : list (N * N)) (bad : N) (i : N) (s : bstream) : res (N * bstream) :=
  match nth_error tbl (N.to_nat i) with
  | None => Err bad
  | Some (base, extra) => do (v, s1) <- get_bits (N.to_nat extra) s; Ok (base + v, s1)
  end.

(* ---------- copying a match ---------- *)
(* [out] is newest first.  The definition of a match (RFC 1951 3.2.3): [len] times, append the byte that
   lies [dist] bytes back — which may be a byte this very match has appended *)
Fixpoint lz_copy_spec (len : nat) (dist : N) (out : list N) : list N :=
  match len with
  | O => out
  | S k => lz_copy_spec k dist (nth (N.to_nat (dist - 1)) out 0 :: out)
  end.
(* the same in pieces of at most [dist] bytes (Proofs/InflateThms.v: lz_copy_is_spec) *)
Definition skipN {X} (k : N) (l : list X) : list X := N.iter k (@tl X) l.
Fixpoint lz_copy (fuel : nat) (len dist : N) (out : list N) : list N :=
  match fuel with
  | O => out
  | S f =>
      if len <=? dist then firstn (N.to_nat len) (skipN (dist - len) out) ++ out
      else lz_copy f (len - dist) dist (firstn (N.to_nat dist) out ++ out)
  end.

(* ---------- stored block (RFC 1951 3.2.4) ---------- *)
Fixpoint take_rev (n : nat) (l acc : list N) : option (list N * list N) :=
  match n with
  | O => Some (acc, l)
  | S k => match l with [] => None | x :: r => take_rev k r (x :: acc) end
  end.
Definition stored (s : bstream) (out : list N) (n : N) : res (list N * N * bstream) :=
  match aligned s with
  | l0 :: l1 :: n0 :: n1 :: rest =>
      let len := l0 + 256 * l1 in
      let nlen := n0 + 256 * n1 in
      (* for 16-bit values: nlen is the one's complement of len *)
      if negb (len + nlen =? 65535) then Err E_STORED else
      match take_rev (N.to_nat len) rest out with
      | Some (out', rest') => Ok (out', n + len, ([], rest'))
      | None => Err E_TRUNC
      end
  | _ => Err E_TRUNC
  end.

(* ---------- the block loop as a state machine: one block header or one symbol per step ---------- *)
Inductive imode : Type := MHeader | MCodes (final : bool) (lit dist : htree).
Record istate : Type := { i_mode : imode; i_bs : bstream; i_out : list N; i_n : N }.
Definition ifinal : Type := (list N * bstream)%type.     (* output (newest first), what follows the last block *)

Definition step (st : istate) : res (istate + ifinal) :=
  let out := i_out st in
  let n := i_n st in
  match i_mode st with
  | MHeader =>
      do (fin, s1) <- get_bit (i_bs st);
      do (ty, s2) <- get_bits 2 s1;
      if ty =? 0 then
        do (r, s3) <- stored s2 out n;
        if (fin : bool) then Ok (inr (fst r, s3))
        else Ok (inl {| i_mode := MHeader; i_bs := s3; i_out := fst r; i_n := snd r |})
      else if ty =? 1 then
        Ok (inl {| i_mode := MCodes fin fixed_lit fixed_dist; i_bs := s2; i_out := out; i_n := n |})
      else if ty =? 2 then
        do (tabs, s3) <- dynamic_tables s2;
        Ok (inl {| i_mode := MCodes fin (fst tabs) (snd tabs); i_bs := s3; i_out := out; i_n := n |})
      else Err E_BTYPE
  | MCodes fin lit dist =>
      do (sym, s1) <- decode_sym lit (i_bs st);
      if sym <? 256 then
        Ok (inl {| i_mode := i_mode st; i_bs := s1; i_out := sym :: out; i_n := n + 1 |})
      else if sym =? 256 then
        if fin then Ok (inr (out, s1))
        else Ok (inl {| i_mode := MHeader; i_bs := s1; i_out := out; i_n := n |})
      else
        do (len, s2) <- base_extra len_table E_CODE (sym - 257) s1;
        do (dsym, s3) <- decode_sym dist s2;
        do (d, s4) <- base_extra dist_table E_DCODE dsym s3;
        if n <? d then Err E_FAR
        else Ok (inl {| i_mode := i_mode st; i_bs := s4; i_out := lz_copy 258 len d out; i_n := n + len |})
  end.

(* at most [p] steps, on binary fuel *)
Fixpoint iter (p : positive) (st : istate) : res (istate + ifinal) :=
  match p with
  | xH => step st
  | xO q => match iter q st with Ok (inl st1) => iter q st1 | r => r end
  | xI q => match step st with
            | Ok (inl st1) => match iter q st1 with Ok (inl st2) => iter q st2 | r => r end
            | r => r
            end
  end.

Definition lenN {X} (l : list X) : N := fold_left (fun n _ => N.succ n) l 0.

(* RFC 1951: the uncompressed bytes and the reader state after the final block.  Every step consumes
   at least one bit, so 8 |input| + 1 steps are more than any input needs *)
Definition inflate (input : list N) : res (list N * bstream) :=
  match iter (N.succ_pos (8 * lenN input))
             {| i_mode := MHeader; i_bs := ([], input); i_out := []; i_n := 0 |} with
  | Ok (inr (out, s)) => Ok (rev' out, s)
  | Ok (inl _) => Fuel
  | Err e => Err e
  | Panic => Panic
  | Fuel => Fuel
  end.

(* ---------- RFC 1950 ---------- *)
Definition adler_step (st : N * N) (x : N) : N * N :=
  let a := (fst st + x) mod 65521 in (a, (snd st + a) mod 65521).
Definition adler32 (l : list N) : N :=
  let st := fold_left adler_step l (1, 0) in snd st * 65536 + fst st.

Definition zlib_decode_res (input : list N) : res (list N) :=
  match input with
  | cmf :: flg :: rest =>
      if negb ((cmf * 256 + flg) mod 31 =? 0) then Err E_HEADER
      else if negb (cmf mod 16 =? 8) then Err E_HEADER
      else if 7 <? cmf / 16 then Err E_HEADER
      else if N.testbit flg 5 then Err E_DICT
      else
        do (data, s) <- inflate rest;
        match aligned s with
        | a3 :: a2 :: a1 :: a0 :: tl =>
            if negb (((a3 * 256 + a2) * 256 + a1) * 256 + a0 =? adler32 data) then Err E_ADLER
            else match tl with [] => Ok data | _ => Err E_TRAILING end
        | _ => Err E_TRUNC
        end
  | _ => Err E_TRUNC
  end.

Definition zlib_decode (input : list N) : option (list N) :=
  match zlib_decode_res input with Ok d => Some d | _ => None end.

(* the inflate oracle of Spec/FormatDecode.decode, with nothing outside Coq: the byte range of the file
   must be one complete zlib stream *)
Definition zlib_inflate_at (img : list N) (off size : N) : option (list N) :=
  match slice img off (N.to_nat size) with
  | Some blk => zlib_decode blk
  | None => None
  end.

(* ---------- the trivial valid encoder: stored blocks only ---------- *)
Definition stored_header (final : N) (len : N) : list N :=
  [final; len mod 256; len / 256; (65535 - len) mod 256; (65535 - len) / 256].
Fixpoint stored_blocks (fuel : nat) (b : list N) : list N :=
  match fuel with
  | O => stored_header 1 0
  | S f =>
      if Nlen b <=? 65535 then stored_header 1 (Nlen b) ++ b
      else stored_header 0 65535 ++ firstn (N.to_nat 65535) b ++ stored_blocks f (skipn (N.to_nat 65535) b)
  end.
Definition be32 (x : N) : list N := [x / 16777216 mod 256; x / 65536 mod 256; x / 256 mod 256; x mod 256].
(* CMF = 0x78 (deflate, 32K window), FLG = 0x01 (level 0, check bits), stored blocks, Adler-32 *)
Definition zlib_store (b : list N) : list N :=
  [120; 1] ++ stored_blocks (length b) b ++ be32 (adler32 b).
