(* An INDEPENDENT ENCODER of the bigWig / bigBed container, written from the published format
   description (Kent et al. 2010, "BigWig and BigBed: enabling browsing of large distributed
   datasets", supplementary tables; UCSC bbiFile.h), not from bigtools' writer.  It shares only
   plain data types (value, span, leaf_item, chrom_info, summary) with the models.

     emit : layout -> content -> list N

   [content] is WHAT the file says: chromosomes, values or BED entries, the optional total summary,
   the zoom records.  [layout] is HOW it is laid out, and covers everything a conforming writer is
   free to choose:
     - byte order; zlib or raw blocks (zlib itself is the parameter [cmp], see below);
     - version number; filler bytes;
     - how the values are cut into sections and which of the three bigWig section types
       (1 bedGraph, 2 variable step, 3 fixed step) each section uses;
     - how the zoom records of each level are cut into blocks;
     - the chromosome B+ tree as a NODE STORE: a list of nodes (leaf = a run of chromosomes, inner =
       a list of child indices), any number of levels, key width >= the longest name;
     - each R-tree (main index and one per zoom level) as a NODE STORE: a list of nodes (leaf = a run
       of blocks, inner = a list of child indices) -- any fan-out, any depth, not necessarily
       uniform;
     - the ORDER AND PLACEMENT of every piece of the file after the fixed 64-byte header and the
       zoom directory: summary, item count, every data block, every zoom block, every chromosome-
       tree node, every R-tree node and arbitrary extra pieces, in any order, with any gap in
       front of each.  (The format fixes only: the B+ tree root follows its 32-byte header, an
       R-tree root follows its 48-byte header.)

   Compression lives outside Coq: [cmp] maps a raw block payload to its stored bytes.  The
   theorems are stated for every [cmp]/[infl] pair with infl (cmp b) = b; for evaluation [cmp] is
   a lookup table raw -> zlib(raw) computed by Python in a first pass (tools/vlib/props/C10.py).

   No proofs in this file. *)
From BT Require Import Base.Util Base.LE Base.Float Generated.Consts Model.RTree Model.BBIFile Model.BigWigWrite Model.BBIRead.
Local Open Scope N_scope.

(* ---------- records of fixed-width fields ---------- *)
Definition fld := (nat * N)%type.       (* width in bytes, value *)
Definition enc_flds (big : bool) (fs : list fld) : list N :=
  flat_map (fun f => enc big (fst f) (snd f)) fs.

(* ---------- pieces of a file and their placement ---------- *)
Inductive pid :=
| PSummary              (* 40-byte total summary *)
| PCount                (* 8-byte item count at fullDataOffset *)
| PZCount (k : nat)     (* 4-byte record count in front of zoom level k's data *)
| PChrom (i : nat)      (* chromosome-tree node i; node 0 is the root and carries the 32-byte tree header *)
| PBlock (t i : nat)    (* block i of tree t: t = 0 the data sections, t = k+1 the blocks of zoom level k *)
| PNode (t i : nat)     (* R-tree node i of tree t; node 0 is the root and carries the 48-byte index header *)
| PExtra (i : nat).     (* anything else (autoSql text, padding, foreign data) *)

Definition pid_eqb (a b : pid) : bool :=
  match a, b with
  | PSummary, PSummary => true
  | PCount, PCount => true
  | PZCount i, PZCount j => Nat.eqb i j
  | PChrom i, PChrom j => Nat.eqb i j
  | PBlock t i, PBlock u j => Nat.eqb t u && Nat.eqb i j
  | PNode t i, PNode u j => Nat.eqb t u && Nat.eqb i j
  | PExtra i, PExtra j => Nat.eqb i j
  | _, _ => false
  end.

(* the file order: (piece, gap in front of it); offsets follow from the sizes *)
Fixpoint off_table (size : pid -> N) (ps : list (pid * N)) (pos : N) : list (pid * N) :=
  match ps with
  | [] => []
  | (j, g) :: r => (j, pos + g) :: off_table size r (pos + g + size j)
  end.
Fixpoint plookup (k : pid) (tab : list (pid * N)) : option N :=
  match tab with
  | [] => None
  | (j, o) :: r => if pid_eqb j k then Some o else plookup k r
  end.
Definition lay (fill : N) (bytes : pid -> list N) (ps : list (pid * N)) : list N :=
  flat_map (fun jg => repeatN fill (N.to_nat (snd jg)) ++ bytes (fst jg)) ps.

(* ---------- node stores (skeletons): children by index, node 0 is the root ---------- *)
Inductive inode := ILeaf (first count : nat) | IInner (children : list nat).

Fixpoint ocat {X} (l : list (option (list X))) : option (list X) :=
  match l with
  | [] => Some []
  | None :: _ => None
  | Some a :: r => match ocat r with Some b => Some (a ++ b) | None => None end
  end.
(* the items (block or chromosome numbers) beneath node i, in order; None: dangling child or deeper than h *)
Fixpoint sk_leaves (nodes : list inode) (h : nat) (i : nat) : option (list nat) :=
  match h with
  | O => None
  | S k =>
      match nth_error nodes i with
      | None => None
      | Some (ILeaf f c) => Some (seq f c)
      | Some (IInner cs) => ocat (map (sk_leaves nodes k) cs)
      end
  end.
(* number of node visits of a walk from node i *)
Fixpoint sk_size (nodes : list inode) (h : nat) (i : nat) : nat :=
  match h with
  | O => 1
  | S k =>
      match nth_error nodes i with
      | Some (IInner cs) => S (fold_right (fun c a => (sk_size nodes k c + a)%nat) 0%nat cs)
      | _ => 1
      end
  end.

(* ---------- spans ---------- *)
Definition pmin (p q : N * N) : N * N :=
  if le_pos (fst p) (snd p) (fst q) (snd q) then p else q.
(* smallest span containing all of l *)
Definition cover (l : list span) : span :=
  match l with
  | [] => zero_span
  | f :: r =>
      let s := fold_left pmin (map (fun x => (sc x, sb x)) r) (sc f, sb f) in
      let e := fold_left pmax (map (fun x => (ec x, eb x)) r) (ec f, eb f) in
      {| sc := fst s; sb := snd s; ec := fst e; eb := snd e |}
  end.

(* ---------- content ---------- *)
Record bed := { b_start : N; b_end : N; b_rest : list N }.
Record zraw := { zr_chrom : N; zr_start : N; zr_end : N; zr_valid : N;
                 zr_min : N; zr_max : N; zr_sum : N; zr_sumsq : N }.    (* statistics: f32 bit patterns *)
Record sumraw := { sr_bases : N; sr_min : N; sr_max : N; sr_sum : N; sr_sumsq : N }.   (* f64 bit patterns *)

Record content := {
  x_bigwig : bool;
  x_chroms : list chrom_info;           (* in B+ tree (leaf) order *)
  x_vals : list (N * value);            (* bigWig: (chromosome id, value) in file order *)
  x_beds : list (N * bed);              (* bigBed: (chromosome id, entry) in file order *)
  x_summary : option sumraw;            (* None: the file carries no total summary (offset 0) *)
  x_zooms : list (N * list zraw);       (* (reduction level, records in file order) *)
  x_field_count : N; x_defined_fields : N }.

Record layout := {
  l_big : bool;
  l_compress : bool;
  l_version : N;
  l_fill : N;                           (* filler byte for gaps *)
  l_secs : list (nat * N);              (* data sections in order: (item count, section type); type ignored for bigBed *)
  l_zsecs : list (list nat);            (* per zoom level: records per block *)
  l_ckey : nat;                         (* key width of the chromosome tree *)
  l_cblock : N;                         (* its blockSize field *)
  l_cnodes : list inode;                (* its node store *)
  l_rblock : N;                         (* blockSize field of the R-tree headers *)
  l_trees : list (list inode);          (* R-tree node stores: main index, then one per zoom level *)
  l_asql : option nat;                  (* which extra piece the header's autoSqlOffset points at *)
  l_extra : list (list N);
  l_order : list (pid * N) }.

Fixpoint split_by {X} (counts : list nat) (l : list X) : list (list X) :=
  match counts with
  | [] => []
  | c :: r => firstn c l :: split_by r (skipn c l)
  end.

Definition vspan (cv : N * value) : span :=
  {| sc := fst cv; sb := v_start (snd cv); ec := fst cv; eb := v_end (snd cv) |}.
Definition bspan (cb : N * bed) : span :=
  {| sc := fst cb; sb := b_start (snd cb); ec := fst cb; eb := b_end (snd cb) |}.
Definition zspan (z : zraw) : span :=
  {| sc := zr_chrom z; sb := zr_start z; ec := zr_chrom z; eb := zr_end z |}.

(* one block before placement: raw payload, stored bytes, the span its index entry records *)
Record binfo := { bi_raw : list N; bi_stored : list N; bi_span : span }.
Definition binfo0 : binfo := {| bi_raw := []; bi_stored := []; bi_span := zero_span |}.

Section Emit.
Variable cmp : list N -> list N.

Section WithLayout.
Variable L : layout.
Variable X : content.
Let big := l_big L.

(* ----- bigWig sections ----- *)
Definition vitem_bytes (ty : N) (v : value) : list N :=
  if ty =? 1 then enc_flds big [(4%nat, v_start v); (4%nat, v_end v); (4%nat, v_bits v)]
  else if ty =? 2 then enc_flds big [(4%nat, v_start v); (4%nat, v_bits v)]
  else enc_flds big [(4%nat, v_bits v)].
Definition sec_step (items : list (N * value)) : N :=
  match items with
  | (_, v0) :: (_, v1) :: _ => v_start v1 - v_start v0
  | _ => 0
  end.
Definition sec_payload (ty : N) (items : list (N * value)) : list N :=
  match items with
  | [] => []
  | (c, v0) :: _ =>
      let sp := cover (map vspan items) in
      enc_flds big [(4%nat, c); (4%nat, v_start v0); (4%nat, eb sp);
                    (4%nat, if ty =? 3 then sec_step items else 0);
                    (4%nat, if ty =? 1 then 0 else v_end v0 - v_start v0);
                    (1%nat, ty); (1%nat, 0); (2%nat, Nlen items)]
      ++ flat_map (fun cv => vitem_bytes ty (snd cv)) items
  end.
(* ----- bigBed blocks ----- *)
Definition bed_bytes (cb : N * bed) : list N :=
  enc_flds big [(4%nat, fst cb); (4%nat, b_start (snd cb)); (4%nat, b_end (snd cb))] ++ b_rest (snd cb) ++ [0].
(* ----- zoom records ----- *)
Definition zraw_bytes (z : zraw) : list N :=
  enc_flds big [(4%nat, zr_chrom z); (4%nat, zr_start z); (4%nat, zr_end z); (4%nat, zr_valid z);
                (4%nat, zr_min z); (4%nat, zr_max z); (4%nat, zr_sum z); (4%nat, zr_sumsq z)].

Definition mk_binfo (raw : list N) (sp : span) : binfo :=
  {| bi_raw := raw; bi_stored := if l_compress L then cmp raw else raw; bi_span := sp |}.

Definition data_blocks : list binfo :=
  if x_bigwig X then
    map (fun si => mk_binfo (sec_payload (snd (fst si)) (snd si)) (cover (map vspan (snd si))))
        (combine (l_secs L) (split_by (map fst (l_secs L)) (x_vals X)))
  else
    map (fun items => mk_binfo (flat_map bed_bytes items) (cover (map bspan items)))
        (split_by (map fst (l_secs L)) (x_beds X)).
Definition zoom_blocks (k : nat) : list binfo :=
  map (fun recs => mk_binfo (flat_map zraw_bytes recs) (cover (map zspan recs)))
      (split_by (nth k (l_zsecs L) []) (snd (nth k (x_zooms X) (0, [])))).
(* block table: tree 0 = data, tree k+1 = zoom level k *)
Definition block_table : list (list binfo) :=
  data_blocks :: map zoom_blocks (seq 0 (length (x_zooms X))).

Definition ubuf (bt : list (list binfo)) : N :=
  if l_compress L then fold_left N.max (map (fun b => Nlen (bi_raw b)) (concat bt)) 1 else 0.

(* ----- everything below is relative to a block table [bt] and an offset assignment [o] ----- *)
Section Placed.
Variable bt : list (list binfo).
Variable o : pid -> N.

Definition node_off (t i : nat) : N := o (PNode t i) + (if Nat.eqb i 0 then 48 else 0).
Definition cnode_off (i : nat) : N := o (PChrom i) + (if Nat.eqb i 0 then 32 else 0).

Definition tree_blocks (t : nat) : list binfo := nth t bt [].
Definition tree_nodes (t : nat) : list inode := nth t (l_trees L) [].
Definition leaf_items_of (t : nat) : list leaf_item :=
  map (fun ib => {| li_span := bi_span (snd ib); li_off := o (PBlock t (fst ib)); li_size := Nlen (bi_stored (snd ib)) |})
      (combine (seq 0 (length (tree_blocks t))) (tree_blocks t)).
(* span recorded for child c: the cover of the blocks beneath it *)
Definition child_span (t : nat) (c : nat) : span :=
  let nodes := tree_nodes t in
  match sk_leaves nodes (length nodes) c with
  | Some ix => cover (map (fun i => bi_span (nth i (tree_blocks t) binfo0)) ix)
  | None => zero_span
  end.

Definition span_flds (s : span) : list fld := [(4%nat, sc s); (4%nat, sb s); (4%nat, ec s); (4%nat, eb s)].
Definition leaf_item_flds (it : leaf_item) : list fld :=
  span_flds (li_span it) ++ [(8%nat, li_off it); (8%nat, li_size it)].
Definition node_hdr_bytes (isleaf count : N) : list N := [isleaf; 0] ++ enc big 2 count.

Definition rnode_bytes (t : nat) (nd : inode) : list N :=
  match nd with
  | ILeaf f c =>
      let items := firstn c (skipn f (leaf_items_of t)) in
      node_hdr_bytes 1 (Nlen items) ++ flat_map (fun it => enc_flds big (leaf_item_flds it)) items
  | IInner cs =>
      node_hdr_bytes 0 (Nlen cs)
      ++ flat_map (fun c => enc_flds big (span_flds (child_span t c) ++ [(8%nat, node_off t c)])) cs
  end.
Definition index_header (t : nat) : list N :=
  let sp := cover (map bi_span (tree_blocks t)) in
  enc_flds big ([(4%nat, CIR_TREE_MAGIC); (4%nat, l_rblock L); (8%nat, Nlen (tree_blocks t))]
                ++ span_flds sp ++ [(8%nat, o (PNode t 0)); (4%nat, 1); (4%nat, 0)]).

(* ----- chromosome B+ tree ----- *)
Definition pad_key (nm : name) : list N := firstn (l_ckey L) (nm ++ repeatN 0 (l_ckey L)).
Definition chrom_item_bytes (c : chrom_info) : list N :=
  pad_key (ci_name c) ++ enc_flds big [(4%nat, ci_id c); (4%nat, ci_len c)].
Definition first_key (c : nat) : name :=
  match sk_leaves (l_cnodes L) (length (l_cnodes L)) c with
  | Some (i :: _) => match nth_error (x_chroms X) i with Some ci => ci_name ci | None => [] end
  | _ => []
  end.
Definition cnode_bytes (nd : inode) : list N :=
  match nd with
  | ILeaf f c =>
      let items := firstn c (skipn f (x_chroms X)) in
      node_hdr_bytes 1 (Nlen items) ++ flat_map chrom_item_bytes items
  | IInner cs =>
      node_hdr_bytes 0 (Nlen cs)
      ++ flat_map (fun c => pad_key (first_key c) ++ enc big 8 (cnode_off c)) cs
  end.
Definition chrom_header : list N :=
  enc_flds big [(4%nat, CHROM_TREE_MAGIC); (4%nat, l_cblock L); (4%nat, N.of_nat (l_ckey L)); (4%nat, 8);
                (8%nat, Nlen (x_chroms X)); (8%nat, 0)].

Definition summary_bytes (s : sumraw) : list N :=
  enc_flds big [(8%nat, sr_bases s); (8%nat, sr_min s); (8%nat, sr_max s); (8%nat, sr_sum s); (8%nat, sr_sumsq s)].
Definition item_count : N := if x_bigwig X then Nlen (x_vals X) else Nlen (x_beds X).

Definition pbytes (p : pid) : list N :=
  match p with
  | PSummary => match x_summary X with Some s => summary_bytes s | None => [] end
  | PCount => enc big 8 item_count
  | PZCount k => enc big 4 (Nlen (snd (nth k (x_zooms X) (0, []))))
  | PChrom i =>
      match nth_error (l_cnodes L) i with
      | Some nd => (if Nat.eqb i 0 then chrom_header else []) ++ cnode_bytes nd
      | None => []
      end
  | PBlock t i => match nth_error (tree_blocks t) i with Some b => bi_stored b | None => [] end
  | PNode t i =>
      match nth_error (tree_nodes t) i with
      | Some nd => (if Nat.eqb i 0 then index_header t else []) ++ rnode_bytes t nd
      | None => []
      end
  | PExtra i => nth i (l_extra L) []
  end.

Definition header_bytes : list N :=
  enc_flds big [(4%nat, if x_bigwig X then BIGWIG_MAGIC else BIGBED_MAGIC); (2%nat, l_version L);
                (2%nat, Nlen (x_zooms X)); (8%nat, o (PChrom 0)); (8%nat, o PCount); (8%nat, o (PNode 0 0));
                (2%nat, x_field_count X); (2%nat, x_defined_fields X);
                (8%nat, match l_asql L with Some i => o (PExtra i) | None => 0 end);
                (8%nat, match x_summary X with Some _ => o PSummary | None => 0 end);
                (4%nat, ubuf bt); (8%nat, 0)].
Definition zoom_dir : list N :=
  flat_map (fun kz => enc_flds big [(4%nat, fst (snd kz)); (4%nat, 0); (8%nat, o (PZCount (fst kz)));
                                    (8%nat, o (PNode (S (fst kz)) 0))])
           (combine (seq 0 (length (x_zooms X))) (x_zooms X)).
End Placed.

(* sizes do not depend on the offsets (every pointer field has a fixed width) *)
Definition psize (bt : list (list binfo)) (p : pid) : N := Nlen (pbytes bt (fun _ => 0) p).
Definition body_start : N := 64 + 24 * Nlen (x_zooms X).
Definition offsets (bt : list (list binfo)) : list (pid * N) := off_table (psize bt) (l_order L) body_start.
Definition off_fn (tab : list (pid * N)) (p : pid) : N := match plookup p tab with Some x => x | None => 0 end.

Definition emit : list N :=
  let bt := block_table in
  let o := off_fn (offsets bt) in
  header_bytes bt o ++ zoom_dir o ++ lay (l_fill L) (pbytes bt o) (l_order L).
End WithLayout.
End Emit.

(* ================= what a reader must answer: the specification on CONTENT alone ================= *)
Inductive query :=
| QChroms                                   (* the chromosome table *)
| QSummary
| QInterval (c : name) (s e : N)            (* bigWig values / bigBed entries overlapping [s,e) *)
| QValues (c : name) (s e : N)              (* bigWig per-base values *)
| QZoom (c : name) (s e level : N).

Inductive answer :=
| AChroms (l : list chrom_info)
| ASummary (r : res summary)
| AValuesIv (r : res (list value))
| ABeds (r : res (list bed))
| APerBase (r : res (list (option N)))
| AZoom (r : res (list zrec)).

Definition spec_chrom (x : content) (c : name) : res N :=
  match find (fun ci => name_eqb (ci_name ci) c) (x_chroms x) with
  | Some ci => Ok (ci_id ci)
  | None => Err R_NOCHROM
  end.
Definition spec_summary (x : content) : summary :=
  let n := if x_bigwig x then Nlen (x_vals x) else Nlen (x_beds x) in
  match x_summary x with
  | Some s => {| su_items := n; su_bases := sr_bases s; su_min := f64_of_bits (sr_min s); su_max := f64_of_bits (sr_max s);
                 su_sum := f64_of_bits (sr_sum s); su_sumsq := f64_of_bits (sr_sumsq s) |}
  | None => {| su_items := n; su_bases := 0; su_min := fzero; su_max := fzero; su_sum := fzero; su_sumsq := fzero |}
  end.
(* the values of one chromosome, in file order *)
Definition vals_of (x : content) (id : N) : list value :=
  map snd (filter (fun cv => fst cv =? id) (x_vals x)).
Definition beds_of (x : content) (id : N) : list bed :=
  map snd (filter (fun cb => fst cb =? id) (x_beds x)).
(* per-base view: the bit pattern of the LAST listed value covering base p *)
Definition base_value (vals : list value) (p : N) : option N :=
  fold_left (fun acc v => if (v_start v <=? p) && (p <? v_end v) then Some (v_bits v) else acc) vals None.
Fixpoint range (s : N) (n : nat) : list N := match n with O => [] | S k => s :: range (s + 1) k end.
Definition zrec_of (z : zraw) : zrec :=
  {| z_chrom := zr_chrom z; z_start := zr_start z; z_end := zr_end z;
     z_sum := {| su_items := 0; su_bases := zr_valid z; su_min := f32_of_bits (zr_min z); su_max := f32_of_bits (zr_max z);
                 su_sum := f32_of_bits (zr_sum z); su_sumsq := f32_of_bits (zr_sumsq z) |} |}.

Definition spec_answer (x : content) (q : query) : answer :=
  match q with
  | QChroms => AChroms (x_chroms x)
  | QSummary => ASummary (Ok (spec_summary x))
  | QInterval c s e =>
      if x_bigwig x then
        AValuesIv (do id <- spec_chrom x c; Ok (clip_filter s e (vals_of x id)))
      else
        ABeds (do id <- spec_chrom x c;
               Ok (filter (fun b => (s <=? b_end b) && (b_start b <=? e)) (beds_of x id)))
  | QValues c s e =>
      APerBase (if e <? s then Panic else
                do id <- spec_chrom x c;
                Ok (map (base_value (vals_of x id)) (range s (N.to_nat (e - s)))))
  | QZoom c s e level =>
      AZoom (match find (fun z => fst z =? level) (x_zooms x) with
             | None => Err R_NOZOOM
             | Some (_, recs) =>
                 do id <- spec_chrom x c;
                 Ok (map zrec_of (filter (fun z => (zr_chrom z =? id) && (s <=? zr_end z) && (zr_start z <=? e)) recs))
             end)
  end.
