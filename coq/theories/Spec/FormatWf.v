(* Well-formedness of a (layout, content) pair for the independent encoder Spec/FormatEmit.v, as a
   DECIDABLE check: [wf_b cmp L X = true] is the hypothesis of the C10 read-back theorems and is
   evaluated on every generated case.  It says only what the format itself demands:
     - every number fits the field that carries it (u16 counts, u32 positions/ids, u64 offsets);
     - the sectioning covers the items exactly, every section is non-empty, holds one chromosome,
       and a type-2 / type-3 section holds values that such a section can express
       (common span; common span and constant step);
     - the node stores are trees over exactly the items they index: walking from node 0 resolves
       every child index within the store and yields items 0..n-1 in order (chromosome tree: within
       64 levels); no node is shared (the walk visits no more nodes than the file holds);
     - every piece the header or a pointer refers to is placed somewhere in the file order;
     - chromosome names fit the key width and contain no NUL; BED text is ASCII without NUL and no
       entry is [0,0).
   No proofs in this file. *)
From BT Require Import Base.Util Base.LE Base.Float Generated.Consts Model.RTree Model.BBIFile Model.BigWigWrite
  Model.BBIRead Spec.FormatEmit.
Local Open Scope N_scope.

Definition W16 : N := 65536.
Definition W32 : N := 4294967296.
Definition W64 : N := 18446744073709551616.

Fixpoint nat_list_eqb (a b : list nat) : bool :=
  match a, b with
  | [], [] => true
  | x :: r, y :: s => Nat.eqb x y && nat_list_eqb r s
  | _, _ => false
  end.
Definition sum_nat (l : list nat) : nat := fold_right Nat.add 0%nat l.

Definition val_ok (cv : N * value) : bool :=
  (fst cv <? W32) && (v_start (snd cv) <=? v_end (snd cv)) && (v_end (snd cv) <? W32) && (v_bits (snd cv) <? W32).
Fixpoint fixed_step (cur step span : N) (l : list value) : bool :=
  match l with
  | [] => true
  | v :: r => (v_start v =? cur) && (v_end v =? cur + span) && fixed_step (cur + step) step span r
  end.
Definition sec_ok (ty : N) (items : list (N * value)) : bool :=
  match items with
  | [] => false
  | (c, v0) :: _ =>
      let span := v_end v0 - v_start v0 in
      (Nlen items <? W16) && forallb (fun cv => fst cv =? c) items && forallb val_ok items &&
      ((ty =? 1)
       || ((ty =? 2) && forallb (fun cv => v_end (snd cv) =? v_start (snd cv) + span) items)
       || ((ty =? 3) && fixed_step (v_start v0) (sec_step items) span (map snd items)))
  end.
Definition bed_ok (cb : N * bed) : bool :=
  let b := snd cb in
  (fst cb <? W32) && (b_start b <? W32) && (b_end b <? W32) && negb ((b_start b =? 0) && (b_end b =? 0))
  && forallb (fun x => (0 <? x) && (x <? 128)) (b_rest b).
Definition bedsec_ok (items : list (N * bed)) : bool :=
  match items with
  | [] => false
  | (c, _) :: _ => forallb (fun cb => fst cb =? c) items && forallb bed_ok items
  end.
Definition zraw_ok (z : zraw) : bool :=
  (zr_chrom z <? W32) && (zr_start z <? W32) && (zr_end z <? W32) && (zr_valid z <? W32) &&
  (zr_min z <? W32) && (zr_max z <? W32) && (zr_sum z <? W32) && (zr_sumsq z <? W32).

Definition inode_ok (n : nat) (nd : inode) : bool :=
  match nd with
  | ILeaf _ c => N.of_nat c <? W16
  | IInner cs => (Nlen cs <? W16) && forallb (fun c => Nat.ltb c n) cs
  end.
Definition is_node (t n : nat) (p : pid) : bool :=
  match p with PNode u i => Nat.eqb u t && Nat.ltb i n | _ => false end.
(* how many pieces of the file order are nodes 0..n-1 of tree t *)
Definition count_nodes (t n : nat) (ps : list (pid * N)) : nat :=
  length (filter (fun jg => is_node t n (fst jg)) ps).
(* node store [nodes] is a tree over items 0..n-1: every child index is a node of the store, the walk
   from node 0 resolves within depth h and lists the items in order *)
Definition tree_ok (h : nat) (nodes : list inode) (n : nat) : bool :=
  forallb (inode_ok (length nodes)) nodes &&
  match sk_leaves nodes h 0 with Some ix => nat_list_eqb ix (seq 0 n) | None => false end.

Definition chrom_ok (key : nat) (c : chrom_info) : bool :=
  (length (ci_name c) <=? key)%nat && forallb (fun x => 0 <? x) (ci_name c) && (ci_id c <? W32) && (ci_len c <? W32).

Section Wf.
Variable cmp : list N -> list N.
Variable L : layout.
Variable X : content.

Definition needed_pids (bt : list (list binfo)) : list pid :=
  [PCount] ++ (match x_summary X with Some _ => [PSummary] | None => [] end)
  ++ (match l_asql L with Some i => [PExtra i] | None => [] end)
  ++ map PZCount (seq 0 (length (x_zooms X)))
  ++ map PChrom (seq 0 (length (l_cnodes L)))
  ++ flat_map (fun t => map (PBlock t) (seq 0 (length (nth t bt [])))
                        ++ map (PNode t) (seq 0 (length (nth t (l_trees L) []))))
              (seq 0 (length bt)).

Definition wf_scalars : bool :=
  (l_version L <? W16) && (Nlen (x_zooms X) <? W16) && (x_field_count X <? W16) && (x_defined_fields X <? W16)
  && (N.of_nat (l_ckey L) <? W32) && (l_cblock L <? W32) && (l_rblock L <? W32) && (l_fill L <? 256)
  && (Nlen (x_vals X) <? W64) && (Nlen (x_beds X) <? W64)
  && (match x_summary X with
      | Some s => (sr_bases s <? W64) && (sr_min s <? W64) && (sr_max s <? W64) && (sr_sum s <? W64) && (sr_sumsq s <? W64)
      | None => true end).
Definition wf_sections : bool :=
  let counts := map fst (l_secs L) in
  if x_bigwig X then
    Nat.eqb (sum_nat counts) (length (x_vals X))
    && forallb (fun si => sec_ok (snd (fst si)) (snd si)) (combine (l_secs L) (split_by counts (x_vals X)))
  else
    Nat.eqb (sum_nat counts) (length (x_beds X))
    && forallb bedsec_ok (split_by counts (x_beds X)).
Definition wf_zooms : bool :=
  Nat.eqb (length (l_zsecs L)) (length (x_zooms X))
  && forallb (fun zc => (fst (fst zc) <? W32) && (Nlen (snd (fst zc)) <? W32) && forallb zraw_ok (snd (fst zc))
                        && forallb (fun c => Nat.ltb 0 c) (snd zc)
                        && Nat.eqb (sum_nat (snd zc)) (length (snd (fst zc))))
             (combine (x_zooms X) (l_zsecs L)).
Definition wf_chroms : bool :=
  forallb (chrom_ok (l_ckey L)) (x_chroms X) && (Nlen (x_chroms X) <? W64)
  && tree_ok 64 (l_cnodes L) (length (x_chroms X)).
Definition wf_trees (bt : list (list binfo)) : bool :=
  Nat.eqb (length (l_trees L)) (length bt)
  && forallb (fun t => let nodes := nth t (l_trees L) [] in
                       tree_ok (length nodes) nodes (length (nth t bt []))
                       && (sk_size nodes (length nodes) 0 <=? count_nodes t (length nodes) (l_order L))%nat)
             (seq 0 (length bt)).
(* placement: everything referred to is in the file, below 2^64 *)
Definition wf_place (bt : list (list binfo)) : bool :=
  let tab := offsets L X bt in
  (ubuf L bt <? W32) &&
  forallb (fun p => match plookup p tab with Some o => o + psize L X bt p <? W64 | None => false end)
          (needed_pids bt).

Definition wf_b : bool :=
  let bt := block_table cmp L X in
  wf_scalars && wf_sections && wf_zooms && wf_chroms && wf_trees bt && wf_place bt.
End Wf.
