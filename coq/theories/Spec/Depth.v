(* Specification side of C06 / C08 for bigBed: the per-base coverage depth of a list of entries and the
   naive per-base statistics of a depth function over a range of bases.  Nothing here refers to the
   sweep; these definitions are what the theorems compare the sweep with and what the oracles evaluate
   on the implementation's output. *)
From BT Require Import Base.Util Model.BedSweep.
Local Open Scope N_scope.

Definition covers (e : entry) (x : N) : bool := (e_start e <=? x) && (x <? e_end e).
(* number of entries covering base x *)
Definition depth (es : list entry) (x : N) : N := Nlen (filter (fun e => covers e x) es).

(* the bases a, a+1, ..., a+n-1 *)
Fixpoint range (a : N) (n : nat) : list N :=
  match n with O => [] | S k => a :: range (a + 1) k end.
(* [a, b) *)
Definition span (a b : N) : list N := range a (N.to_nat (b - a)).

(* statistics of a depth function d over a list of bases *)
Definition st_cov (d : N -> N) (xs : list N) : N := Nlen (filter (fun x => 0 <? d x) xs).
Definition st_sum (d : N -> N) (xs : list N) : N := sumN (map d xs).
Definition st_sumsq (d : N -> N) (xs : list N) : N := sumN (map (fun x => d x * d x) xs).
Definition opt_min (a : option N) (v : N) : option N :=
  match a with None => Some v | Some m => Some (N.min m v) end.
Definition opt_max (a : option N) (v : N) : option N :=
  match a with None => Some v | Some m => Some (N.max m v) end.
(* minimum / maximum over the covered bases (None when no base is covered) *)
Definition st_min (d : N -> N) (xs : list N) : option N :=
  fold_left (fun a x => if 0 <? d x then opt_min a (d x) else a) xs None.
Definition st_max (d : N -> N) (xs : list N) : option N :=
  fold_left (fun a x => if 0 <? d x then opt_max a (d x) else a) xs None.

(* combining the extremes of several chromosomes: an absent extreme (no covered base) is neutral *)
Definition opt_meet (f : N -> N -> N) (a b : option N) : option N :=
  match a, b with
  | None, x | x, None => x
  | Some x, Some y => Some (f x y)
  end.

(* the depth of a list of segments at a base: the sum of the values of the segments containing it
   (a run-length encoded depth function; an empty segment contains nothing) *)
Definition seg_at (g : seg) (x : N) : N := if (g_start g <=? x) && (x <? g_end g) then g_val g else 0.
Definition segs_depth (l : list seg) (x : N) : N := sumN (map (fun g => seg_at g x) l).

(* run-length encoding: consecutive, disjoint, in order *)
Fixpoint segs_sorted (lo : N) (l : list seg) : Prop :=
  match l with
  | [] => True
  | g :: r => lo <= g_start g /\ g_start g <= g_end g /\ segs_sorted (g_end g) r
  end.

(* the largest end of a list of entries: every base at or past it has depth 0 *)
Definition max_end (es : list entry) : N := fold_left (fun a e => N.max a (e_end e)) es 0.
