(* C09 — an INDEPENDENT decoder of the bigWig / bigBed container, written from the published
   format (Kent et al. 2010, supplementary tables; UCSC kent/src/inc bbiFile.h, bwgInternal.h,
   bigBed.h, cirTree.h, bPlusTree.h).  It shares no definition with the reader model
   (Model/BBIRead.v, Model/RTree.v) nor with the writer models: only Base/Util (lists, N) and
   Base/LE (fixed-width integers, [slice]) are imported, and the magic numbers are written out
   here from the format description instead of being taken from the code (Generated/Consts.v).

   [decode img inflate] returns [None] unless
     - magic / version are those of a bigWig or bigBed (either byte order), at most 10 zoom levels;
     - header offsets, zoom directory, total summary, chromosome tree, data, index, zoom data,
       zoom indices and the trailing magic are inside the file and pairwise disjoint;
     - the zoom directory has strictly increasing reduction levels, reserved = 0;
     - the chromosome B+ tree is valid (magic, value size 8, node counts within the block size, keys
       strictly increasing, item count, names non-empty and NUL padded, ids dense 0..n-1);
     - every R-tree is valid (magic, node counts within the block size, every item of a node lies
       inside the span recorded for that node by its parent, header bounds contain the root,
       item count, leaves single-chromosome, in (chrom,start) order, pointing at increasing,
       disjoint byte ranges inside the data region);
     (bigBed: the writers accept entries that end past the chromosome's length, so for bigBed only the
      START of a record is required to lie inside the chromosome; bigWig: the whole record)
     - every data block is available (raw when uncompressBufSize = 0, otherwise from the inflate
       oracle, in which case it must not be longer than uncompressBufSize), parses exactly, holds
       between 1 and itemsPerSlot records of the leaf's chromosome, sorted, inside the leaf's span
       and inside the chromosome; records are in order across blocks; the data count matches;
     - every zoom block likewise (32-byte summary records).
   On success it returns the [content]: chromosome table, records, total summary, zoom records.
   Floating point fields are returned as bit patterns (N); nothing here interprets them.
   No proofs in this file. *)
From BT Require Import Base.Util Base.LE.
Local Open Scope N_scope.

(* ---------- option monad ---------- *)
Definition obind {X Y} (o : option X) (f : X -> option Y) : option Y :=
  match o with Some x => f x | None => None end.
Notation "'let?' x ':=' o 'in' k" := (obind o (fun x => k))
  (at level 200, x pattern, o at level 100, k at level 200).
Definition guard (b : bool) : option unit := if b then Some tt else None.
Notation "'check' b 'in' k" := (obind (guard b) (fun _ => k)) (at level 200, b at level 100, k at level 200).

(* ---------- published constants ---------- *)
Definition FD_BIGWIG_MAGIC : N := 2291137574.      (* 0x888FFC26 *)
Definition FD_BIGBED_MAGIC : N := 2273964779.      (* 0x8789F2EB *)
Definition FD_BPT_MAGIC : N := 2026540177.         (* 0x78CA8C91 *)
Definition FD_CIR_MAGIC : N := 610839776.          (* 0x2468ACE0 *)
Definition FD_VERSION : N := 4.
Definition FD_MAX_ZOOM : N := 10.

(* ---------- decoded structures ---------- *)
Record fheader := {
  fh_version : N; fh_nzoom : N; fh_ctoff : N; fh_dataoff : N; fh_ixoff : N; fh_fc : N; fh_dfc : N;
  fh_asql : N; fh_sumoff : N; fh_ubuf : N; fh_ext : N }.
Record fzoomhdr := { fz_level : N; fz_reserved : N; fz_data : N; fz_index : N }.
Record fsummary := { fs_bases : N; fs_min : N; fs_max : N; fs_sum : N; fs_sumsq : N }.  (* f64 bit patterns *)
Record fchrom := { fc_name : list N; fc_id : N; fc_size : N }.
Record fspan := { p_sc : N; p_sb : N; p_ec : N; p_eb : N }.
Record fleaf := { fl_span : fspan; fl_off : N; fl_size : N }.
(* a record: bigWig -> payload = [f32 bit pattern]; bigBed -> payload = the rest-of-line bytes *)
Record frec := { fr_chrom : N; fr_start : N; fr_end : N; fr_rest : list N }.
Record fzrec := { zr_chrom : N; zr_start : N; zr_end : N; zr_valid : N;
                  zr_min : N; zr_max : N; zr_sum : N; zr_sumsq : N }.   (* f32 bit patterns *)
Record findexhdr := { ih_block : N; ih_count : N; ih_span : fspan; ih_endoff : N; ih_ips : N; ih_reserved : N }.

Record content := {
  c_bigwig : bool; c_bigendian : bool; c_field_count : N; c_defined_fc : N; c_autosql : list N;
  c_ubuf : N; c_block_size : N; c_ips : N;
  c_chroms : list fchrom;            (* in key order *)
  c_records : list frec;             (* in file order *)
  c_blocks : list N;                 (* number of records per data block, in file order *)
  c_data_count : N;
  c_summary : fsummary;
  c_zooms : list (N * list fzrec) }. (* reduction level, records in file order *)

(* ---------- comparisons ---------- *)
Definition pos_le (c1 b1 c2 b2 : N) : bool := (c1 <? c2) || ((c1 =? c2) && (b1 <=? b2)).
Definition span_in (a b : fspan) : bool :=
  pos_le (p_sc b) (p_sb b) (p_sc a) (p_sb a) && pos_le (p_ec a) (p_eb a) (p_ec b) (p_eb b).
Fixpoint bytes_lt (a b : list N) : bool :=     (* memcmp order on equal-length keys *)
  match a, b with
  | x :: r, y :: s => (x <? y) || ((x =? y) && bytes_lt r s)
  | [], _ :: _ => true
  | _, [] => false
  end.
Fixpoint bytes_eqb (a b : list N) : bool :=
  match a, b with
  | [], [] => true
  | x :: r, y :: s => (x =? y) && bytes_eqb r s
  | _, _ => false
  end.

Fixpoint adjacent {X} (p : X -> X -> bool) (l : list X) : bool :=
  match l with
  | [] => true
  | x :: r => match r with [] => true | y :: _ => p x y && adjacent p r end
  end.

(* pairwise disjoint byte regions (start, end), empty regions allowed anywhere *)
Definition reg_disj (a b : N * N) : bool :=
  (fst a =? snd a) || (fst b =? snd b) || (snd a <=? fst b) || (snd b <=? fst a).
Fixpoint all_disjoint (l : list (N * N)) : bool :=
  match l with
  | [] => true
  | r :: rest => forallb (reg_disj r) rest && all_disjoint rest
  end.

Fixpoint strip_zeros_rev (l : list N) : list N :=   (* drop leading zeros of a reversed key *)
  match l with 0 :: r => strip_zeros_rev r | _ => l end.
Definition unpad (key : list N) : list N := rev (strip_zeros_rev (rev key)).

Fixpoint split_nul (l : list N) : option (list N * list N) :=   (* up to the first NUL, and what follows it *)
  match l with
  | [] => None
  | 0 :: r => Some ([], r)
  | x :: r => match split_nul r with Some (a, b) => Some (x :: a, b) | None => None end
  end.

Fixpoint seqN (start : N) (len : nat) : list N :=
  match len with O => [] | S k => start :: seqN (start + 1) k end.

Section Image.
Variable img : list N.
Variable n : N.          (* the length of the image, computed once by [decode] *)
Variable big : bool.     (* byte order of the file *)

(* all reads are bounds-checked against n before any offset is turned into a unary number *)
Definition bytes_at (off w : N) : option (list N) :=
  if off + w <=? n then slice img off (N.to_nat w) else None.
Definition fld (b : list N) (o w : nat) : N := dec big (firstn w (skipn o b)).

(* ---------- common header, zoom directory, total summary ---------- *)
Definition parse_header : option fheader :=
  let? b := bytes_at 0 64 in
  Some {| fh_version := fld b 4 2; fh_nzoom := fld b 6 2; fh_ctoff := fld b 8 8; fh_dataoff := fld b 16 8;
          fh_ixoff := fld b 24 8; fh_fc := fld b 32 2; fh_dfc := fld b 34 2; fh_asql := fld b 36 8;
          fh_sumoff := fld b 44 8; fh_ubuf := fld b 52 4; fh_ext := fld b 56 8 |}.

Definition parse_zoomhdr (i : N) : option fzoomhdr :=
  let? b := bytes_at (64 + 24 * i) 24 in
  Some {| fz_level := fld b 0 4; fz_reserved := fld b 4 4; fz_data := fld b 8 8; fz_index := fld b 16 8 |}.
Fixpoint omap {X Y} (f : X -> option Y) (l : list X) : option (list Y) :=
  match l with
  | [] => Some []
  | x :: r => let? y := f x in let? ys := omap f r in Some (y :: ys)
  end.
Definition parse_zoomhdrs (nz : N) : option (list fzoomhdr) := omap parse_zoomhdr (seqN 0 (N.to_nat nz)).

Definition parse_summary (off : N) : option fsummary :=
  let? b := bytes_at off 40 in
  Some {| fs_bases := fld b 0 8; fs_min := fld b 8 8; fs_max := fld b 16 8; fs_sum := fld b 24 8; fs_sumsq := fld b 32 8 |}.

(* ---------- chromosome B+ tree (bPlusTree.h) ---------- *)
Fixpoint parse_bpt_leaf (cnt ks : nat) (d : list N) : list (list N * N * N) :=   (* key, chromId, chromSize *)
  match cnt with
  | O => []
  | S k => (firstn ks d, fld d ks 4, fld d (ks + 4) 4) :: parse_bpt_leaf k ks (skipn (ks + 8) d)
  end.
Fixpoint parse_bpt_inner (cnt ks : nat) (d : list N) : list (list N * N) :=       (* key, child offset *)
  match cnt with
  | O => []
  | S k => (firstn ks d, fld d ks 8) :: parse_bpt_inner k ks (skipn (ks + 8) d)
  end.

Definition bpt_result := (list (list N * N * N) * N)%type.    (* leaf items in order, end of the last node read *)

Fixpoint bpt_kids (w : N -> option bpt_result) (self : N) (kids : list (list N * N)) : option bpt_result :=
  match kids with
  | [] => Some ([], 0)
  | (key, ptr) :: r =>
      check (self <? ptr) in                                (* the tree is written root first *)
      let? (items, e) := w ptr in
      check (match items with (k0, _, _) :: _ => bytes_eqb k0 key | [] => false end) in
      let? (more, e') := bpt_kids w self r in
      Some (items ++ more, N.max e e')
  end.

Fixpoint bpt_walk (fuel : nat) (block ks : N) (off : N) : option bpt_result :=
  match fuel with
  | O => None
  | S f =>
      let? h := bytes_at off 4 in
      let isleaf := nth 0 h 0 in
      let cnt := dec big (skipn 2 h) in
      check (cnt <=? block) in
      let? d := bytes_at (off + 4) (cnt * (ks + 8)) in
      let e := off + 4 + cnt * (ks + 8) in
      if isleaf =? 1 then Some (parse_bpt_leaf (N.to_nat cnt) (N.to_nat ks) d, e)
      else if isleaf =? 0 then
        check (1 <=? cnt) in
        let? (items, e') := bpt_kids (bpt_walk f block ks) off (parse_bpt_inner (N.to_nat cnt) (N.to_nat ks) d) in
        Some (items, N.max e e')
      else None
  end.

(* returns the chromosome table (in key order) and the end of the tree's byte range *)
Definition parse_chrom_tree (strict : bool) (off : N) : option (list fchrom * N) :=
  let? b := bytes_at off 32 in
  let block := fld b 4 4 in let ks := fld b 8 4 in let vs := fld b 12 4 in let cnt := fld b 16 8 in
  check (fld b 0 4 =? FD_BPT_MAGIC) in
  check ((1 <=? block) && (1 <=? ks) && (ks <=? n) && (vs =? 8) && (cnt <=? n)) in
  let? (items, e) := bpt_walk 64 block ks (off + 32) in
  check (Nlen items =? cnt) in
  check (negb strict || adjacent (fun a b => bytes_lt (fst (fst a)) (fst (fst b))) items) in
  let chroms := map (fun it => {| fc_name := unpad (fst (fst it)); fc_id := snd (fst it); fc_size := snd it |}) items in
  check (forallb (fun c => match fc_name c with [] => false | _ => true end
                           && forallb (fun x => negb (x =? 0)) (fc_name c)) chroms) in
  (* ids dense: every id 0..cnt-1 occurs (so, with cnt items, exactly once) *)
  check (forallb (fun i => existsb (fun c => fc_id c =? i) chroms) (seqN 0 (length items))) in
  Some (chroms, e).

(* ---------- R-tree (cirTree.h) ---------- *)
Definition parse_span (d : list N) : fspan :=
  {| p_sc := fld d 0 4; p_sb := fld d 4 4; p_ec := fld d 8 4; p_eb := fld d 12 4 |}.
Fixpoint parse_rt_leaf (cnt : nat) (d : list N) : list fleaf :=
  match cnt with
  | O => []
  | S k => {| fl_span := parse_span d; fl_off := fld d 16 8; fl_size := fld d 24 8 |} :: parse_rt_leaf k (skipn 32 d)
  end.
Fixpoint parse_rt_inner (cnt : nat) (d : list N) : list (fspan * N) :=
  match cnt with
  | O => []
  | S k => (parse_span d, fld d 16 8) :: parse_rt_inner k (skipn 24 d)
  end.

Definition parse_index_hdr (off : N) : option findexhdr :=
  let? b := bytes_at off 48 in
  check (fld b 0 4 =? FD_CIR_MAGIC) in
  Some {| ih_block := fld b 4 4; ih_count := fld b 8 8; ih_span := parse_span (skipn 16 b);
          ih_endoff := fld b 32 8; ih_ips := fld b 40 4; ih_reserved := fld b 44 4 |}.

(* Work-list traversal, one unit of fuel per node: pop the first (offset, enclosing span), read the
   node there, check that every item lies inside the enclosing span, and either collect the leaf
   items or put the children in front of the list.  Leaves come out in left-to-right order. *)
Fixpoint rt_walk (fuel : nat) (block : N) (queue : list (N * fspan)) (acc : list fleaf) (e : N)
  : option (list fleaf * N) :=
  match fuel with
  | O => None
  | S f =>
      match queue with
      | [] => Some (rev acc, e)
      | (off, sp) :: rest =>
          let? h := bytes_at off 4 in
          let isleaf := nth 0 h 0 in
          let cnt := dec big (skipn 2 h) in
          check (cnt <=? block) in
          if isleaf =? 1 then
            let? d := bytes_at (off + 4) (cnt * 32) in
            let items := parse_rt_leaf (N.to_nat cnt) d in
            check (forallb (fun l => span_in (fl_span l) sp) items) in
            rt_walk f block rest (rev_append items acc) (N.max e (off + 4 + cnt * 32))
          else if isleaf =? 0 then
            let? d := bytes_at (off + 4) (cnt * 24) in
            let items := parse_rt_inner (N.to_nat cnt) d in
            check (forallb (fun it => span_in (fst it) sp) items) in
            rt_walk f block (map (fun it => (snd it, fst it)) items ++ rest) acc (N.max e (off + 4 + cnt * 24))
          else None
      end
  end.

Definition leaf_one_chrom (l : fleaf) : bool :=
  (p_sc (fl_span l) =? p_ec (fl_span l)) && (p_sb (fl_span l) <=? p_eb (fl_span l)).
(* consecutive leaves: (chrom, start) order and increasing disjoint byte ranges *)
Definition leaf_order (a b : fleaf) : bool :=
  pos_le (p_sc (fl_span a)) (p_sb (fl_span a)) (p_sc (fl_span b)) (p_sb (fl_span b))
  && (fl_off a + fl_size a <=? fl_off b).

(* index at [off] whose leaves must point into [lo, hi): header, leaves in order, end of index *)
Definition parse_index (off lo hi : N) : option (findexhdr * list fleaf * N) :=
  let? h := parse_index_hdr off in
  check ((1 <=? ih_block h) && (1 <=? ih_ips h) && (ih_count h <=? n)) in
  let? (leaves, e) := rt_walk (S (N.to_nat (n / 4))) (ih_block h) [(off + 48, ih_span h)] [] (off + 48) in
  check (Nlen leaves =? ih_count h) in
  check (forallb leaf_one_chrom leaves) in
  check (adjacent leaf_order leaves) in
  check (forallb (fun l => (lo <=? fl_off l) && (fl_off l + fl_size l <=? hi) && (1 <=? fl_size l)) leaves) in
  Some (h, leaves, e).

(* ---------- blocks ---------- *)
Variable inflate : N -> N -> option (list N).    (* (offset, size) -> inflated bytes; zlib lives outside *)

Definition block_bytes (ubuf : N) (l : fleaf) : option (list N) :=
  if ubuf =? 0 then bytes_at (fl_off l) (fl_size l)
  else
    check (fl_off l + fl_size l <=? n) in
    let? b := inflate (fl_off l) (fl_size l) in
    check (Nlen b <=? ubuf) in Some b.

(* bigWig section (bwgInternal.h): 24-byte header, then items by type *)
Fixpoint parse_bedgraph_items (cnt : nat) (chrom : N) (d : list N) : list frec :=
  match cnt with
  | O => []
  | S k => {| fr_chrom := chrom; fr_start := fld d 0 4; fr_end := fld d 4 4; fr_rest := [fld d 8 4] |}
           :: parse_bedgraph_items k chrom (skipn 12 d)
  end.
Fixpoint parse_varstep_items (cnt : nat) (chrom span : N) (d : list N) : list frec :=
  match cnt with
  | O => []
  | S k => {| fr_chrom := chrom; fr_start := fld d 0 4; fr_end := fld d 0 4 + span; fr_rest := [fld d 4 4] |}
           :: parse_varstep_items k chrom span (skipn 8 d)
  end.
Fixpoint parse_fixedstep_items (cnt : nat) (chrom start step span : N) (d : list N) : list frec :=
  match cnt with
  | O => []
  | S k => {| fr_chrom := chrom; fr_start := start; fr_end := start + span; fr_rest := [fld d 0 4] |}
           :: parse_fixedstep_items k chrom (start + step) step span (skipn 4 d)
  end.

(* returns the section's (chrom, start, end) and its records *)
Definition parse_wig_section (d : list N) : option (N * N * N * list frec) :=
  check (24 <=? Nlen d) in
  let chrom := fld d 0 4 in let s := fld d 4 4 in let e := fld d 8 4 in
  let step := fld d 12 4 in let span := fld d 16 4 in let ty := fld d 20 1 in let cnt := fld d 22 2 in
  let body := skipn 24 d in
  if ty =? 1 then check (Nlen body =? 12 * cnt) in Some (chrom, s, e, parse_bedgraph_items (N.to_nat cnt) chrom body)
  else if ty =? 2 then check (Nlen body =? 8 * cnt) in Some (chrom, s, e, parse_varstep_items (N.to_nat cnt) chrom span body)
  else if ty =? 3 then check (Nlen body =? 4 * cnt) in Some (chrom, s, e, parse_fixedstep_items (N.to_nat cnt) chrom s step span body)
  else None.

(* bigBed block (bigBed.h): chromId, start, end, NUL-terminated rest, repeated to the end of the block *)
Fixpoint parse_bed_items (fuel : nat) (d : list N) : option (list frec) :=
  match d with
  | [] => Some []
  | _ =>
      match fuel with
      | O => None
      | S f =>
          check (12 <=? Nlen d) in
          let? (rest, more) := split_nul (skipn 12 d) in
          let? rs := parse_bed_items f more in
          Some ({| fr_chrom := fld d 0 4; fr_start := fld d 4 4; fr_end := fld d 8 4; fr_rest := rest |} :: rs)
      end
  end.

Definition chrom_size (chroms : list fchrom) (id : N) : option N :=
  match filter (fun c => fc_id c =? id) chroms with c :: _ => Some (fc_size c) | [] => None end.

(* consecutive records of one chromosome: bigWig values do not overlap, bigBed entries are sorted by start *)
Definition rec_order (bw : bool) (a b : frec) : bool :=
  (fr_chrom a <? fr_chrom b)
  || ((fr_chrom a =? fr_chrom b) && (if bw then fr_end a <=? fr_start b else fr_start a <=? fr_start b)).

Definition data_block (bw : bool) (chroms : list fchrom) (ubuf ips : N) (l : fleaf) : option (list frec) :=
  let? d := block_bytes ubuf l in
  let chrom := p_sc (fl_span l) in
  let? csize := chrom_size chroms chrom in
  let? recs :=
    (if bw then
       let? (c, s, e, recs) := parse_wig_section d in
       check ((c =? chrom) && (p_sb (fl_span l) <=? s) && (e <=? p_eb (fl_span l))
              && forallb (fun r => (s <=? fr_start r) && (fr_end r <=? e)) recs) in
       Some recs
     else parse_bed_items (length d) d) in
  check (match recs with [] => false | _ => true end) in
  check (Nlen recs <=? ips) in
  check (forallb (fun r => (fr_chrom r =? chrom) && (fr_start r <=? fr_end r)
                           && (if bw then fr_end r <=? csize else fr_start r <=? csize)
                           && (p_sb (fl_span l) <=? fr_start r) && (fr_end r <=? p_eb (fl_span l))) recs) in
  Some recs.

Fixpoint parse_zoom_items (cnt : nat) (d : list N) : list fzrec :=
  match cnt with
  | O => []
  | S k => {| zr_chrom := fld d 0 4; zr_start := fld d 4 4; zr_end := fld d 8 4; zr_valid := fld d 12 4;
              zr_min := fld d 16 4; zr_max := fld d 20 4; zr_sum := fld d 24 4; zr_sumsq := fld d 28 4 |}
           :: parse_zoom_items k (skipn 32 d)
  end.
Definition zrec_order (a b : fzrec) : bool :=
  (zr_chrom a <? zr_chrom b) || ((zr_chrom a =? zr_chrom b) && (zr_end a <=? zr_start b)).

Definition zoom_block (bw : bool) (chroms : list fchrom) (ubuf ips : N) (l : fleaf) : option (list fzrec) :=
  let? d := block_bytes ubuf l in
  let chrom := p_sc (fl_span l) in
  let? csize := chrom_size chroms chrom in
  check ((Nlen d mod 32 =? 0) && (1 <=? Nlen d / 32) && (Nlen d / 32 <=? ips)) in
  let recs := parse_zoom_items (N.to_nat (Nlen d / 32)) d in
  check (forallb (fun r => (zr_chrom r =? chrom) && (zr_start r <? zr_end r)
                           && (if bw then zr_end r <=? csize else true)
                           && (zr_valid r <=? zr_end r - zr_start r)
                           && (p_sb (fl_span l) <=? zr_start r) && (zr_end r <=? p_eb (fl_span l))) recs) in
  Some recs.

(* one zoom level: its index and blocks; [next] = where the following region starts *)
Definition zoom_level (bw : bool) (chroms : list fchrom) (ubuf : N) (z : fzoomhdr)
  : option (N * list fzrec * (N * N) * (N * N)) :=          (* level, records, data region, index region *)
  check ((fz_reserved z =? 0) && (fz_data z <=? fz_index z)) in
  let? (h, leaves, e) := parse_index (fz_index z) (fz_data z) (fz_index z) in
  let? blocks := omap (zoom_block bw chroms ubuf (ih_ips h)) leaves in
  let recs := concat blocks in
  check (adjacent zrec_order recs) in
  Some (fz_level z, recs, (fz_data z, fz_index z), (fz_index z, e)).

Definition read_autosql (off stop : N) : option (list N * N) :=   (* the string and the end of its byte range *)
  if off =? 0 then Some ([], 0)
  else
    check (off <? stop) in
    let? b := bytes_at off (stop - off) in
    let? (s, _) := split_nul b in
    Some (s, off + Nlen s + 1).

(* everything except the blocks: used on its own to list the byte ranges that need inflating *)
Record skeleton := {
  sk_bigwig : bool; sk_hdr : fheader; sk_zhdrs : list fzoomhdr; sk_autosql : list N; sk_summary : fsummary;
  sk_chroms : list fchrom; sk_index : findexhdr; sk_leaves : list fleaf; sk_data_count : N;
  sk_regions : list (N * N) }.

Definition parse_skeleton (strict bw : bool) : option skeleton :=
  let? h := parse_header in
  check ((fh_version h =? FD_VERSION) && (fh_nzoom h <=? FD_MAX_ZOOM)) in
  let? zh := parse_zoomhdrs (fh_nzoom h) in
  check (if bw then (fh_asql h =? 0) && (fh_fc h =? 0) && (fh_dfc h =? 0)
         else negb (fh_asql h =? 0) && (fh_dfc h <=? fh_fc h)) in
  let? (asql, asql_end) := read_autosql (fh_asql h) (fh_sumoff h) in
  let? sum := parse_summary (fh_sumoff h) in
  let? (chroms, ct_end) := parse_chrom_tree strict (fh_ctoff h) in
  let? cnt := (let? b := bytes_at (fh_dataoff h) 8 in Some (fld b 0 8)) in
  check (fh_dataoff h + 8 <=? fh_ixoff h) in
  let? (ih, leaves, ix_end) := parse_index (fh_ixoff h) (fh_dataoff h + 8) (fh_ixoff h) in
  let data_end := match leaves with [] => fh_dataoff h + 8 | l :: r => let z := last r l in fl_off z + fl_size z end in
  check (adjacent (fun a b => fz_level a <? fz_level b) zh) in
  check (forallb (fun z => 1 <=? fz_level z) zh) in
  check (4 <=? n) in
  let? m := bytes_at (n - 4) 4 in
  check (dec big m =? (if bw then FD_BIGWIG_MAGIC else FD_BIGBED_MAGIC)) in
  Some {| sk_bigwig := bw; sk_hdr := h; sk_zhdrs := zh; sk_autosql := asql; sk_summary := sum; sk_chroms := chroms;
          sk_index := ih; sk_leaves := leaves; sk_data_count := cnt;
          sk_regions := [(0, 64 + 24 * fh_nzoom h); (fh_asql h, asql_end); (fh_sumoff h, fh_sumoff h + 40);
                         (fh_ctoff h, ct_end); (fh_dataoff h, data_end); (fh_ixoff h, ix_end); (n - 4, n)] |}.

Definition decode_with (sk : skeleton) : option content :=
  let bw := sk_bigwig sk in
  let h := sk_hdr sk in
  let ubuf := fh_ubuf h in
  let ips := ih_ips (sk_index sk) in
  let? blocks := omap (data_block bw (sk_chroms sk) ubuf ips) (sk_leaves sk) in
  let recs := concat blocks in
  check (adjacent (rec_order bw) recs) in
  check (sk_data_count sk =? (if bw then Nlen blocks else Nlen recs)) in
  let? zooms := omap (zoom_level bw (sk_chroms sk) ubuf) (sk_zhdrs sk) in
  check (all_disjoint (sk_regions sk ++ flat_map (fun z => [snd (fst z); snd z]) zooms)) in
  Some {| c_bigwig := bw; c_bigendian := big; c_field_count := fh_fc h; c_defined_fc := fh_dfc h;
          c_autosql := sk_autosql sk; c_ubuf := ubuf; c_block_size := ih_block (sk_index sk); c_ips := ips;
          c_chroms := sk_chroms sk; c_records := recs; c_blocks := map Nlen blocks;
          c_data_count := sk_data_count sk; c_summary := sk_summary sk;
          c_zooms := map (fun z => (fst (fst (fst z)), snd (fst (fst z)))) zooms |}.

End Image.

(* byte order and file type from the first four bytes *)
Definition sniff (img : list N) : option (bool * bool) :=      (* (big endian, bigWig) *)
  match slice img 0 4 with
  | None => None
  | Some m =>
      if dec false m =? FD_BIGWIG_MAGIC then Some (false, true)
      else if dec false m =? FD_BIGBED_MAGIC then Some (false, false)
      else if dec true m =? FD_BIGWIG_MAGIC then Some (true, true)
      else if dec true m =? FD_BIGBED_MAGIC then Some (true, false)
      else None
  end.

Definition skeleton_of (strict : bool) (img : list N) : option (bool * skeleton) :=
  let? (big, bw) := sniff img in
  let? sk := parse_skeleton img (Nlen img) big strict bw in
  Some (big, sk).

(* pass A: the byte ranges of all blocks (data, then each zoom level), for the inflate tool *)
Definition zoom_ranges (img : list N) (big : bool) (z : fzoomhdr) : option (list (N * N)) :=
  let? (_, leaves, _) := parse_index img (Nlen img) big (fz_index z) (fz_data z) (fz_index z) in
  Some (map (fun l => (fl_off l, fl_size l)) leaves).
Definition block_ranges (img : list N) : option (N * list (N * N)) :=     (* uncompressBufSize, ranges *)
  let? (big, sk) := skeleton_of false img in
  let? zr := omap (zoom_ranges img big) (sk_zhdrs sk) in
  Some (fh_ubuf (sk_hdr sk), map (fun l => (fl_off l, fl_size l)) (sk_leaves sk) ++ concat zr).

(* pass B: the decoder.  [strict = false] tolerates exactly one thing, chromosome keys that are not in
   increasing order (used only to keep judging the rest of a file that has this one defect). *)
Definition decode_gen (strict : bool) (img : list N) (inflate : N -> N -> option (list N)) : option content :=
  let? (big, sk) := skeleton_of strict img in
  decode_with img (Nlen img) big inflate sk.
Definition decode := decode_gen true.
Definition decode_lenient := decode_gen false.
