(* Dyadic floating-point values.  A finite float is m * 2^e (m, e : Z).  Arithmetic is exact on
   dyadics followed by a rounding function taken from an [fpmode]:
     - [exact]  : no rounding at all (what the theorems about sums are stated for);
     - [ieee]   : IEEE-754 round-to-nearest-even to binary64 / binary32 (what the Rust code
                  computes; used when the model is run against the implementation).
   NaN and infinities are carried as separate constructors; the sign of zero is not modelled
   (+0 only), see DESIGN.md §3.2. *)
From BT Require Import Base.Util.
Local Open Scope Z_scope.

Inductive fl := FFin (m e : Z) | FNaN | FInf (neg : bool).

Definition bitlen (m : Z) : Z := if Z.eqb m 0 then 0 else Z.log2 (Z.abs m) + 1.

(* round m*2^e to precision prec with least exponent emin, ties to even *)
Definition round_dy (prec emin emaxv : Z) (m e : Z) : fl :=
  if Z.eqb m 0 then FFin 0 0 else
  let n := bitlen m in
  let e' := Z.max (e + n - prec) emin in
  let r :=
    if Z.leb e' e then (m, e) else
    let shift := e' - e in
    let a := Z.abs m in
    let q := Z.shiftr a shift in
    let rem := a - Z.shiftl q shift in
    let half := Z.shiftl 1 (shift - 1) in
    let q' := if Z.ltb half rem then q + 1
              else if Z.eqb rem half then (if Z.odd q then q + 1 else q) else q in
    ((if Z.ltb m 0 then - q' else q'), e') in
  let '(m2, e2) := r in
  (* overflow: |value| >= 2^emaxv *)
  if Z.ltb emaxv (e2 + bitlen m2) then FInf (Z.ltb m2 0) else
  if Z.eqb m2 0 then FFin 0 0 else FFin m2 e2.

Record fpmode := { r64 : Z -> Z -> fl; r32 : Z -> Z -> fl }.
Definition ieee : fpmode := {| r64 := round_dy 53 (-1074) 1024; r32 := round_dy 24 (-149) 128 |}.
Definition exact : fpmode := {| r64 := FFin; r32 := FFin |}.

Definition fzero : fl := FFin 0 0.
Definition f_of_Z (z : Z) : fl := FFin z 0.
Definition f_of_N (n : N) : fl := FFin (Z.of_N n) 0.

(* exact operations on finite values, then rounding by [r] *)
Definition align (m1 e1 m2 e2 : Z) : Z * Z * Z :=
  let e := Z.min e1 e2 in (Z.shiftl m1 (e1 - e), Z.shiftl m2 (e2 - e), e).

Definition fadd_with (r : Z -> Z -> fl) (a b : fl) : fl :=
  match a, b with
  | FNaN, _ | _, FNaN => FNaN
  | FInf s1, FInf s2 => if Bool.eqb s1 s2 then FInf s1 else FNaN
  | FInf s, _ | _, FInf s => FInf s
  | FFin m1 e1, FFin m2 e2 => let '(x, y, e) := align m1 e1 m2 e2 in r (x + y) e
  end.
Definition fmul_with (r : Z -> Z -> fl) (a b : fl) : fl :=
  match a, b with
  | FNaN, _ | _, FNaN => FNaN
  | FInf s, FFin m _ | FFin m _, FInf s => if Z.eqb m 0 then FNaN else FInf (xorb s (Z.ltb m 0))
  | FInf s1, FInf s2 => FInf (xorb s1 s2)
  | FFin m1 e1, FFin m2 e2 => r (m1 * m2) (e1 + e2)
  end.

Definition fcmp (a b : fl) : option comparison :=
  match a, b with
  | FNaN, _ | _, FNaN => None
  | FInf s1, FInf s2 => Some (if Bool.eqb s1 s2 then Eq else if s1 then Lt else Gt)
  | FInf s, _ => Some (if s then Lt else Gt)
  | _, FInf s => Some (if s then Gt else Lt)
  | FFin m1 e1, FFin m2 e2 => let '(x, y, _) := align m1 e1 m2 e2 in Some (x ?= y)
  end.
(* Rust f64::min / max: NaN is ignored when the other operand is a number *)
Definition fmin (a b : fl) : fl :=
  match fcmp a b with
  | None => match a with FNaN => b | _ => a end
  | Some Gt => b
  | Some _ => a
  end.
Definition fmax (a b : fl) : fl :=
  match fcmp a b with
  | None => match a with FNaN => b | _ => a end
  | Some Lt => b
  | Some _ => a
  end.
Definition feqb (a b : fl) : bool := match fcmp a b with Some Eq => true | _ => false end.
Definition fltb (a b : fl) : bool := match fcmp a b with Some Lt => true | _ => false end.
Definition fleb (a b : fl) : bool := match fcmp a b with Some Lt | Some Eq => true | _ => false end.

(* division: the quotient is computed to 64+ significant bits plus a sticky bit, which makes the
   final rounding (to at most 53 bits, ties-to-even) that of the exact quotient.  In [exact] mode the
   result is that 66-bit truncation, so theorems about quotients are stated on numerator/denominator. *)
Definition fdiv_with (r : Z -> Z -> fl) (a b : fl) : fl :=
  match a, b with
  | FNaN, _ | _, FNaN => FNaN
  | FInf _, FInf _ => FNaN
  | FInf s, FFin m _ => FInf (xorb s (Z.ltb m 0))
  | FFin _ _, FInf _ => FFin 0 0
  | FFin m1 e1, FFin m2 e2 =>
      if Z.eqb m2 0 then (if Z.eqb m1 0 then FNaN else FInf (Z.ltb m1 0)) else
      if Z.eqb m1 0 then FFin 0 0 else
      let k := Z.max 0 (66 + bitlen m2 - bitlen m1) in
      let n := Z.shiftl (Z.abs m1) k in
      let q := n / Z.abs m2 in
      let rem := n - q * Z.abs m2 in
      let m := 2 * q + (if Z.eqb rem 0 then 0 else 1) in
      let neg := xorb (Z.ltb m1 0) (Z.ltb m2 0) in
      r (if neg then - m else m) (e1 - e2 - k - 1)
  end.

Definition fadd64 (fp : fpmode) := fadd_with (r64 fp).
Definition fdiv64 (fp : fpmode) := fdiv_with (r64 fp).
Definition fmul64 (fp : fpmode) := fmul_with (r64 fp).
(* `x as f32` for an f64 x *)
Definition to_f32 (fp : fpmode) (a : fl) : fl :=
  match a with FFin m e => r32 fp m e | x => x end.

(* ---- bit patterns ---- *)
(* decode: exponent field width ew, fraction width fw *)
Definition decode_bits (ew fw : Z) (bits : N) : fl :=
  let b := Z.of_N bits in
  let frac := Z.land b (Z.shiftl 1 fw - 1) in
  let ex := Z.land (Z.shiftr b fw) (Z.shiftl 1 ew - 1) in
  let neg := Z.testbit b (ew + fw) in
  let bias := Z.shiftl 1 (ew - 1) - 1 in
  if Z.eqb ex (Z.shiftl 1 ew - 1) then (if Z.eqb frac 0 then FInf neg else FNaN)
  else
    let m := if Z.eqb ex 0 then frac else frac + Z.shiftl 1 fw in
    let e := (if Z.eqb ex 0 then 1 else ex) - bias - fw in
    if Z.eqb m 0 then FFin 0 0 else FFin (if neg then - m else m) e.
Definition f32_of_bits := decode_bits 8 23.
Definition f64_of_bits := decode_bits 11 52.

(* encode a value that is exactly representable (the result of a rounding in [ieee] mode); a
   value that is not representable is first rounded (so [exact]-mode values can be printed) *)
Definition encode_bits (ew fw : Z) (a : fl) : N :=
  let bias := Z.shiftl 1 (ew - 1) - 1 in
  let emin := 1 - bias - fw in
  let expmax := Z.shiftl 1 ew - 1 in
  let canon_nan := Z.shiftl expmax fw + Z.shiftl 1 (fw - 1) in
  match (match a with FFin m e => round_dy (fw + 1) emin (bias + 1) m e | x => x end) with
  | FNaN => Z.to_N canon_nan
  | FInf s => Z.to_N (Z.shiftl expmax fw + (if s then Z.shiftl 1 (ew + fw) else 0))
  | FFin m e =>
      if Z.eqb m 0 then 0%N else
      let sgn := if Z.ltb m 0 then Z.shiftl 1 (ew + fw) else 0 in
      let a := Z.abs m in
      let n := bitlen a in
      let E := e + n - 1 in                 (* exponent of the leading bit *)
      if Z.ltb E (emin + fw) then            (* subnormal *)
        Z.to_N (sgn + Z.shiftl a (e - emin))
      else
        let M := Z.shiftl a (fw + 1 - n) in  (* fw+1 significant bits; exact since n <= fw+1 *)
        Z.to_N (sgn + Z.shiftl (E + bias) fw + (M - Z.shiftl 1 fw))
  end.
Definition bits_of_f32 := encode_bits 8 23.
Definition bits_of_f64 := encode_bits 11 52.

(* f64::MAX and f64::MIN (= -MAX), the summary's initial extremes *)
Definition f64_max : fl := FFin (Z.shiftl 1 53 - 1) 971.
Definition f64_min : fl := FFin (- (Z.shiftl 1 53 - 1)) 971.

(* exact rational view of a finite value, for specifications: m * 2^e as a pair (num, den-exponent) *)
Definition is_fin (a : fl) : bool := match a with FFin _ _ => true | _ => false end.
