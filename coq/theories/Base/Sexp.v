(* S-expressions of integers: the one interchange format between the case
   generators, the Rust harness (implementation side) and the extracted model.
   Decoders are total glue (defaults on malformed input); they are used only to
   read generated cases, never inside a modelled code path. *)
From Coq Require Import List ZArith NArith Bool.
Import ListNotations.

Inductive sexp := A (z : Z) | L (l : list sexp).

Definition sZ (z : Z) : sexp := A z.
Definition sN (n : N) : sexp := A (Z.of_N n).
Definition sNat (n : nat) : sexp := A (Z.of_nat n).
Definition sB (b : bool) : sexp := A (if b then 1 else 0)%Z.
Definition sList {X} (f : X -> sexp) (l : list X) : sexp := L (map f l).
Definition sOpt {X} (f : X -> sexp) (o : option X) : sexp :=
  match o with None => L [] | Some x => L [f x] end.
Definition sPair {X Y} (f : X -> sexp) (g : Y -> sexp) (p : X * Y) : sexp := L [f (fst p); g (snd p)].
Definition sBytes (l : list N) : sexp := L (map sN l).

Definition getZ (s : sexp) : Z := match s with A z => z | L _ => 0%Z end.
Definition getN (s : sexp) : N := Z.to_N (getZ s).
Definition getNat (s : sexp) : nat := Z.to_nat (getZ s).
Definition getB (s : sexp) : bool := negb (Z.eqb (getZ s) 0).
Definition getL (s : sexp) : list sexp := match s with L l => l | A _ => [] end.
Definition getList {X} (f : sexp -> X) (s : sexp) : list X := map f (getL s).
Definition getOpt {X} (f : sexp -> X) (s : sexp) : option X :=
  match getL s with x :: _ => Some (f x) | [] => None end.
Definition nthS (i : nat) (s : sexp) : sexp := nth i (getL s) (L []).
Definition getPair {X Y} (f : sexp -> X) (g : sexp -> Y) (s : sexp) : X * Y := (f (nthS 0 s), g (nthS 1 s)).
Definition getBytes (s : sexp) : list N := getList getN s.

(* structural equality, used by oracles *)
Fixpoint sexp_eqb (a b : sexp) {struct a} : bool :=
  match a, b with
  | A x, A y => Z.eqb x y
  | L l1, L l2 =>
      (fix go (l1 l2 : list sexp) {struct l1} : bool :=
         match l1, l2 with
         | [], [] => true
         | x :: r1, y :: r2 => sexp_eqb x y && go r1 r2
         | _, _ => false
         end) l1 l2
  | _, _ => false
  end.
