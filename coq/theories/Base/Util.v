(* Small list and arithmetic utilities shared by the models. *)
From Coq Require Export List ZArith NArith Bool Lia Arith.
Export ListNotations.
Global Arguments N.add : simpl never.
Global Arguments N.sub : simpl never.
Global Arguments N.mul : simpl never.
Global Arguments N.div : simpl never.
Global Arguments N.modulo : simpl never.
Global Arguments N.eqb : simpl never.
Global Arguments N.ltb : simpl never.
Global Arguments N.leb : simpl never.
Global Arguments N.pow : simpl never.
Global Arguments N.max : simpl never.
Global Arguments N.min : simpl never.

Definition Nlen {X} (l : list X) : N := N.of_nat (length l).

Section Chunks.
Context {X : Type}.
(* itertools' chunks(b): consecutive pieces of b elements, the last possibly shorter *)
Fixpoint chunks_fuel (fuel : nat) (b : nat) (l : list X) : list (list X) :=
  match fuel with
  | O => []
  | S f => match l with
           | [] => []
           | _ => firstn b l :: chunks_fuel f b (skipn b l)
           end
  end.
Definition chunks (b : nat) (l : list X) : list (list X) := chunks_fuel (length l) b l.
End Chunks.

Fixpoint sumN (l : list N) : N := match l with [] => 0%N | x :: r => (x + sumN r)%N end.

Definition last_opt {X} (l : list X) : option X :=
  match l with [] => None | x :: r => Some (last r x) end.

Fixpoint repeatN {X} (x : X) (n : nat) : list X := match n with O => [] | S k => x :: repeatN x k end.

(* Outcome of a modelled Rust call: value, error value (class code), panic, or
   fuel exhausted (= the real call does not return). *)
Inductive res (X : Type) : Type :=
| Ok (x : X) | Err (code : N) | Panic | Fuel.
Arguments Ok {X} x.
Arguments Err {X} code.
Arguments Panic {X}.
Arguments Fuel {X}.
Definition rbind {X Y} (r : res X) (f : X -> res Y) : res Y :=
  match r with Ok x => f x | Err c => Err c | Panic => Panic | Fuel => Fuel end.
Notation "'do' x <- r ; k" := (rbind r (fun x => k)) (at level 200, x pattern, r at level 100, k at level 200).
