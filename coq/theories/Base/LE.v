(* Fixed-width little/big-endian integer codecs over byte lists (bytes are N < 256). *)
From BT Require Import Base.Util.
Local Open Scope N_scope.

Fixpoint enc_le (w : nat) (x : N) : list N :=
  match w with O => [] | S k => (x mod 256) :: enc_le k (x / 256) end.
Fixpoint dec_le (bs : list N) : N :=
  match bs with [] => 0 | b :: r => b + 256 * dec_le r end.
Definition enc_be (w : nat) (x : N) : list N := rev (enc_le w x).
Definition dec_be (bs : list N) : N := dec_le (rev bs).

Definition enc (big : bool) (w : nat) (x : N) : list N := if big then enc_be w x else enc_le w x.
Definition dec (big : bool) (bs : list N) : N := if big then dec_be bs else dec_le bs.

Definition u8 (x : N) := enc_le 1 x.
Definition u16 (x : N) := enc_le 2 x.
Definition u32 (x : N) := enc_le 4 x.
Definition u64 (x : N) := enc_le 8 x.

Definition bytes_ok (bs : list N) : Prop := Forall (fun b => b < 256) bs.

(* read w bytes at offset off (None when the range is not inside the image) *)
Definition slice (bs : list N) (off : N) (w : nat) : option (list N) :=
  let r := firstn w (skipn (N.to_nat off) bs) in
  if Nat.eqb (length r) w then Some r else None.
Definition rd (big : bool) (bs : list N) (off : N) (w : nat) : option N :=
  match slice bs off w with Some r => Some (dec big r) | None => None end.
