(* C01/C09, whole file, part 1: what [assemble] (write_mid + write_zooms + write_info, shared by the
   single-pass and the two-pass bigWig writer models and usable for bigBed) puts where, and what the
   reader's fixed-offset reads (read_header, read_zoom_headers, cir_tree_root) see there.

   assemble_inv : assemble ... = Ok bs  ->  bs = pre' ++ data ++ chromtree ++ index ++ zooms ++ magic
                  with |pre'| = |pre| and pre' holding header+zoom directory at 0, the summary at
                  |pre|-48 and the data count at |pre|-8 (all three patches stay inside pre when
                  at most (|pre| - 112) / 24 zoom levels were written: 10 for the 352-byte bigWig pre).
   Everything is little-endian (the writer's byte order). *)
From BT Require Import Base.Util Base.LE Base.Float Generated.Consts Model.RTree Model.BBIFile
  Model.BigWigWrite Model.BBIRead Proofs.RTreeCodec Proofs.RTreeLayout Proofs.FileRegions.
Local Open Scope N_scope.

(* ---------- fixed-width decode of the u16/u32/u64 encoders ---------- *)
Lemma dec_u16 x : x < U16 -> dec_le (u16 x) = x.
Proof. intros H. apply (dec_enc_le 2 x). exact H. Qed.
Lemma dec_u32 x : x < U32 -> dec_le (u32 x) = x.
Proof. intros H. apply (dec_enc_le 4 x). exact H. Qed.
Lemma dec_u64 x : x < U64 -> dec_le (u64 x) = x.
Proof. intros H. apply (dec_enc_le 8 x). exact H. Qed.

(* reading a w-byte field at offset o inside a region *)
Lemma rd_region img off x (o w : nat) p : has_at img off x -> (o + w <= length x)%nat -> p = off + N.of_nat o ->
  rd false img p w = Some (dec_le (firstn w (skipn o x))).
Proof. intros H Hb ->. unfold rd. rewrite (has_at_slice_sub img off x o w H Hb). reflexivity. Qed.

(* ---------- lengths of the fixed parts ---------- *)
Lemma header_bytes_length m nz a b c d e f g h : length (header_bytes m nz a b c d e f g h) = 64%nat.
Proof. unfold header_bytes, u16, u32, u64. rewrite !app_length, !enc_le_length. reflexivity. Qed.
Lemma zoom_header_bytes_length z : length (zoom_header_bytes z) = 24%nat.
Proof. unfold zoom_header_bytes, u32, u64. rewrite !app_length, !enc_le_length. reflexivity. Qed.
Lemma summary_bytes_length s : length (summary_bytes s) = 40%nat.
Proof. unfold summary_bytes, f64_bytes, u64. rewrite !app_length, !enc_le_length. reflexivity. Qed.
Lemma zoom_dir_length zs : length (flat_map zoom_header_bytes zs) = (length zs * 24)%nat.
Proof. apply flat_map_length_const. apply zoom_header_bytes_length. Qed.
Lemma bw_pre_length : length bw_pre = 352%nat.
Proof. reflexivity. Qed.
Lemma bw_pre_Nlen : Nlen bw_pre = PRE_DATA.
Proof. reflexivity. Qed.

(* ---------- the header fields ---------- *)
Section HeaderFields.
Variables m nz cis fdo ixs fc dfc ao tso ub : N.
Let hb := header_bytes m nz cis fdo ixs fc dfc ao tso ub.
Lemma hb_magic : firstn 4 hb = u32 m. Proof. reflexivity. Qed.
Lemma hb_version : firstn 2 (skipn 4 hb) = u16 4. Proof. reflexivity. Qed.
Lemma hb_nzooms : firstn 2 (skipn 6 hb) = u16 nz. Proof. reflexivity. Qed.
Lemma hb_chrom_tree : firstn 8 (skipn 8 hb) = u64 cis. Proof. reflexivity. Qed.
Lemma hb_full_data : firstn 8 (skipn 16 hb) = u64 fdo. Proof. reflexivity. Qed.
Lemma hb_full_index : firstn 8 (skipn 24 hb) = u64 ixs. Proof. reflexivity. Qed.
Lemma hb_field_count : firstn 2 (skipn 32 hb) = u16 fc. Proof. reflexivity. Qed.
Lemma hb_defined_fc : firstn 2 (skipn 34 hb) = u16 dfc. Proof. reflexivity. Qed.
Lemma hb_asql : firstn 8 (skipn 36 hb) = u64 ao. Proof. reflexivity. Qed.
Lemma hb_summary : firstn 8 (skipn 44 hb) = u64 tso. Proof. reflexivity. Qed.
Lemma hb_ubuf : firstn 4 (skipn 52 hb) = u32 ub. Proof. reflexivity. Qed.
End HeaderFields.

Lemma detect_magic_bw bs : slice bs 0 4 = Some (u32 BIGWIG_MAGIC) -> detect_magic bs = Ok (true, false).
Proof. intros H. unfold detect_magic. rewrite H. vm_compute. reflexivity. Qed.

Definition hdr_in_range (nz cis fdo ixs fc dfc ao tso ub : N) : Prop :=
  nz < U16 /\ cis < U64 /\ fdo < U64 /\ ixs < U64 /\ fc < U16 /\ dfc < U16 /\ ao < U64 /\ tso < U64 /\ ub < U32.

(* read_header on an image that starts with a bigWig header returns its fields *)
Lemma read_header_ok bs nz cis fdo ixs fc dfc ao tso ub :
  has_at bs 0 (header_bytes BIGWIG_MAGIC nz cis fdo ixs fc dfc ao tso ub) ->
  hdr_in_range nz cis fdo ixs fc dfc ao tso ub ->
  read_header bs =
    Ok {| h_big := false; h_bigwig := true; h_version := 4; h_zoom_levels := nz; h_chrom_tree_off := cis;
          h_full_data_off := fdo; h_full_index_off := ixs; h_field_count := fc; h_defined_fc := dfc;
          h_asql_off := ao; h_summary_off := tso; h_ubuf := ub |}.
Proof.
  intros H (R1 & R2 & R3 & R4 & R5 & R6 & R7 & R8 & R9).
  set (hb := header_bytes BIGWIG_MAGIC nz cis fdo ixs fc dfc ao tso ub) in *.
  assert (Hl : length hb = 64%nat) by apply header_bytes_length.
  unfold read_header.
  rewrite (has_at_slice_w bs 0 hb 64 H (eq_sym Hl)). cbn [rdo rbind].
  rewrite (detect_magic_bw bs).
  2:{ rewrite (has_at_slice_prefix bs 0 hb 4 H) by lia. unfold hb. now rewrite hb_magic. }
  cbn [rbind].
  rewrite (rd_region bs 0 hb 4 2 4 H) by (rewrite ?Hl; lia || reflexivity).
  rewrite (rd_region bs 0 hb 6 2 6 H) by (rewrite ?Hl; lia || reflexivity).
  rewrite (rd_region bs 0 hb 8 8 8 H) by (rewrite ?Hl; lia || reflexivity).
  rewrite (rd_region bs 0 hb 16 8 16 H) by (rewrite ?Hl; lia || reflexivity).
  rewrite (rd_region bs 0 hb 24 8 24 H) by (rewrite ?Hl; lia || reflexivity).
  rewrite (rd_region bs 0 hb 32 2 32 H) by (rewrite ?Hl; lia || reflexivity).
  rewrite (rd_region bs 0 hb 34 2 34 H) by (rewrite ?Hl; lia || reflexivity).
  rewrite (rd_region bs 0 hb 36 8 36 H) by (rewrite ?Hl; lia || reflexivity).
  rewrite (rd_region bs 0 hb 44 8 44 H) by (rewrite ?Hl; lia || reflexivity).
  rewrite (rd_region bs 0 hb 52 4 52 H) by (rewrite ?Hl; lia || reflexivity).
  unfold hb.
  rewrite hb_version, hb_nzooms, hb_chrom_tree, hb_full_data, hb_full_index, hb_field_count, hb_defined_fc,
    hb_asql, hb_summary, hb_ubuf.
  rewrite !dec_u64 by assumption. rewrite !dec_u16 by (assumption || (unfold U16; lia)).
  rewrite dec_u32 by assumption. reflexivity.
Qed.

(* ---------- the zoom directory ---------- *)
Definition zh_ok (z : zoom_header) : Prop := zh_res z < U32 /\ zh_data z < U64 /\ zh_index z < U64.

Lemma parse_zoom_header z rest : zh_ok z ->
  dec false (firstn 4 (zoom_header_bytes z ++ rest)) = zh_res z
  /\ dec false (firstn 8 (skipn 8 (zoom_header_bytes z ++ rest))) = zh_data z
  /\ dec false (firstn 8 (skipn 16 (zoom_header_bytes z ++ rest))) = zh_index z.
Proof.
  intros (H1 & H2 & H3). unfold U32, U64 in *. unfold zoom_header_bytes, u32, u64.
  cbn [enc_le app firstn skipn dec]. rewrite dec_le4, !dec_le8 by assumption. auto.
Qed.

Lemma read_zoom_headers_ok bs : forall zs off, has_at bs off (flat_map zoom_header_bytes zs) -> Forall zh_ok zs ->
  read_zoom_headers false bs off (length zs) = Ok zs.
Proof.
  induction zs as [|z zs IH]; intros off H Hok; [reflexivity|].
  inversion Hok as [|? ? Hz Hzs]; subst. cbn [flat_map] in H. apply has_at_app in H as [H1 H2].
  cbn [length read_zoom_headers].
  rewrite (has_at_slice_w bs off (zoom_header_bytes z) 24 H1) by now rewrite zoom_header_bytes_length.
  cbn [rdo rbind]. replace (Nlen (zoom_header_bytes z)) with 24 in H2
    by (unfold Nlen; now rewrite zoom_header_bytes_length).
  rewrite (IH (off + 24) H2 Hzs). cbn [rbind].
  destruct (parse_zoom_header z [] Hz) as (E1 & E2 & E3). rewrite app_nil_r in E1, E2, E3.
  rewrite E1, E2, E3. destruct z; reflexivity.
Qed.

(* without range hypotheses: reading n directory entries that lie inside the image succeeds *)
Lemma read_zoom_headers_total bs : forall n off, off + 24 * N.of_nat n <= Nlen bs ->
  exists zs, read_zoom_headers false bs off n = Ok zs /\ length zs = n.
Proof.
  induction n as [|n IH]; intros off H; [exists []; split; reflexivity|].
  cbn [read_zoom_headers].
  assert (Hs : exists d, slice bs off 24 = Some d).
  { unfold slice. rewrite firstn_length, skipn_length. unfold Nlen in H.
    replace (Nat.min 24 (length bs - N.to_nat off)) with 24%nat by lia. rewrite Nat.eqb_refl. eauto. }
  destruct Hs as [d Hd]. rewrite Hd. cbn [rdo rbind].
  destruct (IH (off + 24)) as [zs [Hz Hl]]; [lia|]. rewrite Hz. cbn [rbind].
  eexists. split; [reflexivity|]. cbn [length]. now rewrite Hl.
Qed.

(* ---------- the index header: cir_tree_root ---------- *)
Lemma write_index_inv b ips pos secs ix lv : write_index b ips pos secs = Ok (ix, lv) ->
  exists t body, build (N.to_nat b) secs = Ok (t, lv)
    /\ ix = index_header b ips (Nlen secs) (span_of t) pos ++ body.
Proof.
  unfold write_index. destruct (build (N.to_nat b) secs) as [[t lv']| | |] eqn:Eb; cbn [rbind]; try discriminate.
  unfold rtree_bytes. destruct (write_levels b t lv' lv' (pos + 48)) as [body| | |]; cbn [rbind]; try discriminate.
  intros H. inversion H; subst. exists t, body. split; reflexivity.
Qed.

Lemma cir_tree_root_ok bs off b ips n sp pos body :
  has_at bs off (index_header b ips n sp pos ++ body) ->
  cir_tree_root false bs off = Ok (off + 48).
Proof.
  intros H. apply has_at_prefix in H. unfold cir_tree_root.
  rewrite (has_at_slice_w bs off _ 48 H) by now rewrite index_header_length. cbn [rdo rbind].
  replace (dec false (firstn 4 (index_header b ips n sp pos))) with CIR_TREE_MAGIC by reflexivity.
  now rewrite N.eqb_refl.
Qed.

Lemma Ok_inj {X} (a b : X) : Ok a = Ok b -> a = b.
Proof. intros H. injection H. auto. Qed.

(* ---------- assemble: the regions of the written file ---------- *)
(* the file [bs] written by assemble, described by its parts *)
Record file_parts := {
  fp_pre : list N;           (* the first |pre| bytes after the three patches *)
  fp_ct : list N;            (* chromosome tree *)
  fp_ix : list N;            (* main index *)
  fp_levels : nat;
  fp_zbytes : list N;        (* zoom data + zoom indices *)
  fp_zhdrs : list zoom_header }.

Definition assembled (o : opts) (magic : N) (sizes : list (name * N)) (chroms : idmap) (sum : summary)
           (data : list sdata) (pre : list N) (fc dfc ao : N)
           (zoom_part : N -> N -> res (list N * list zoom_header)) (dco : N -> N)
           (bs : list N) (p : file_parts) : Prop :=
  let pd := Nlen pre in
  let ds := Nlen (data_bytes data) in
  chrom_tree_bytes sizes chroms = Ok (fp_ct p)
  /\ write_index (o_bs o) (o_ips o) (pd + ds + Nlen (fp_ct p)) (place pd data) = Ok (fp_ix p, fp_levels p)
  /\ zoom_part ds (pd + ds + Nlen (fp_ct p) + Nlen (fp_ix p)) = Ok (fp_zbytes p, fp_zhdrs p)
  /\ bs = fp_pre p ++ data_bytes data ++ fp_ct p ++ fp_ix p ++ fp_zbytes p ++ u32 magic
  /\ length (fp_pre p) = length pre
  /\ has_at (fp_pre p) 0
       (header_bytes magic (Nlen (fp_zhdrs p)) (pd + ds) (pd - 8) (pd + ds + Nlen (fp_ct p)) fc dfc ao (pd - 48) 0
        ++ flat_map zoom_header_bytes (fp_zhdrs p))
  /\ has_at (fp_pre p) (pd - 48) (summary_bytes sum)
  /\ has_at (fp_pre p) (pd - 8) (u64 (dco (Nlen data))).

(* [zoom_bound]: the patches stay inside [pre] whenever the zoom part wrote at most that many levels *)
Theorem assemble_inv o magic sizes chroms sum data pre fc dfc ao zoom_part dco bs :
  assemble o magic sizes chroms sum data pre fc dfc ao zoom_part dco = Ok bs ->
  (forall ds zp zb zh, zoom_part ds zp = Ok (zb, zh) -> 64 + 24 * Nlen zh + 48 <= Nlen pre) ->
  exists p, assembled o magic sizes chroms sum data pre fc dfc ao zoom_part dco bs p.
Proof.
  intros H Hzb. unfold assemble in H. cbv zeta in H.
  destruct (chrom_tree_bytes sizes chroms) as [ct| | |] eqn:Ect; cbn [rbind] in H; try discriminate.
  destruct (write_index (o_bs o) (o_ips o) (Nlen pre + Nlen (data_bytes data) + Nlen ct) (place (Nlen pre) data))
    as [[ix lv]| | |] eqn:Eix; cbn [rbind] in H; try discriminate.
  destruct (zoom_part (Nlen (data_bytes data)) (Nlen pre + Nlen (data_bytes data) + Nlen ct + Nlen ix))
    as [[zb zh]| | |] eqn:Ez; cbn [rbind] in H; try discriminate.
  specialize (Hzb _ _ _ _ Ez).
  apply Ok_inj in H. rename H into Hbs.
  set (pd := Nlen pre) in *. set (ds := Nlen (data_bytes data)) in *.
  set (hdr := header_bytes magic (Nlen zh) (pd + ds) (pd - 8) (pd + ds + Nlen ct) fc dfc ao (pd - 48) 0
              ++ flat_map zoom_header_bytes zh) in *.
  set (rest := data_bytes data ++ ct ++ ix ++ zb).
  assert (Hhl : Nlen hdr = 64 + 24 * Nlen zh).
  { unfold hdr, Nlen. rewrite app_length, header_bytes_length, zoom_dir_length. lia. }
  assert (Hsl : Nlen (summary_bytes sum) = 40) by (unfold Nlen; now rewrite summary_bytes_length).
  assert (Hcl : Nlen (u64 (dco (Nlen (place pd data)))) = 8) by reflexivity.
  set (p1 := patch_at pre 0 hdr).
  set (p2 := patch_at p1 (pd - 48) (summary_bytes sum)).
  set (p3 := patch_at p2 (pd - 8) (u64 (dco (Nlen (place pd data))))).
  assert (L1 : Nlen p1 = pd) by (unfold p1; apply patch_at_Nlen; fold pd; lia).
  assert (L2 : Nlen p2 = pd) by (unfold p2; rewrite patch_at_Nlen; [exact L1|rewrite L1; lia]).
  assert (L3 : Nlen p3 = pd) by (unfold p3; rewrite patch_at_Nlen; [exact L2|rewrite L2; lia]).
  exists {| fp_pre := p3; fp_ct := ct; fp_ix := ix; fp_levels := lv; fp_zbytes := zb; fp_zhdrs := zh |}.
  unfold assembled. cbn [fp_pre fp_ct fp_ix fp_levels fp_zbytes fp_zhdrs]. fold pd ds. fold hdr.
  split; [exact Ect|]. split; [exact Eix|]. split; [exact Ez|]. split.
  - rewrite <- Hbs. replace (pre ++ data_bytes data ++ ct ++ ix ++ zb) with (pre ++ rest) by reflexivity.
    rewrite (patch_at_app pre rest 0 hdr) by (fold pd; lia). fold p1.
    rewrite (patch_at_app p1 rest (pd - 48)) by (rewrite L1; lia). fold p2.
    rewrite (patch_at_app p2 rest (pd - 8)) by (rewrite L2; lia). fold p3.
    unfold rest. now rewrite <- !app_assoc.
  - split; [apply Nlen_eq_length; exact L3|]. split; [|split].
    + unfold p3. apply patch_at_keeps_before; [|lia].
      unfold p2. apply patch_at_keeps_before; [|lia].
      unfold p1. apply patch_at_has. fold pd. lia.
    + unfold p3. apply patch_at_keeps_before; [|lia]. unfold p2. apply patch_at_has. rewrite L1. lia.
    + rewrite <- (place_Nlen pd data). unfold p3. apply patch_at_has. rewrite L2. lia.
Qed.

(* offsets of the parts inside the file *)
Section Parts.
Variables (o : opts) (magic : N) (sizes : list (name * N)) (chroms : idmap) (sum : summary)
          (data : list sdata) (pre : list N) (fc dfc ao : N)
          (zoom_part : N -> N -> res (list N * list zoom_header)) (dco : N -> N) (bs : list N) (p : file_parts).
Hypothesis HA : assembled o magic sizes chroms sum data pre fc dfc ao zoom_part dco bs p.
Let pd := Nlen pre.
Let ds := Nlen (data_bytes data).

Lemma asm_pre : has_at bs 0 (fp_pre p).
Proof. destruct HA as (_ & _ & _ & -> & _). apply has_at_head. Qed.
Lemma asm_pre_len : Nlen (fp_pre p) = pd.
Proof. destruct HA as (_ & _ & _ & _ & L & _). apply Nlen_eq_length. exact L. Qed.
Lemma asm_in_pre off x : has_at (fp_pre p) off x -> has_at bs off x.
Proof. intros H. pose proof (has_at_inside bs 0 (fp_pre p) off x asm_pre H) as E. now rewrite N.add_0_l in E. Qed.
Lemma asm_data : has_at bs pd (data_bytes data).
Proof.
  pose proof asm_pre_len as L. destruct HA as (_ & _ & _ & -> & _). apply has_at_intro; exact L.
Qed.
Lemma asm_ct : has_at bs (pd + ds) (fp_ct p).
Proof.
  pose proof asm_pre_len as L. destruct HA as (_ & _ & _ & -> & _).
  rewrite (app_assoc (fp_pre p)). apply has_at_intro. rewrite Nlen_app, L. reflexivity.
Qed.
Lemma asm_ix : has_at bs (pd + ds + Nlen (fp_ct p)) (fp_ix p).
Proof.
  pose proof asm_pre_len as L. destruct HA as (_ & _ & _ & -> & _).
  rewrite (app_assoc (fp_pre p)), (app_assoc (fp_pre p ++ data_bytes data)).
  apply has_at_intro. rewrite !Nlen_app, L. reflexivity.
Qed.
(* the index with what precedes and follows it, in the shape C05's theorem wants *)
Lemma asm_ix_split : exists A B, bs = A ++ fp_ix p ++ B /\ Nlen A = pd + ds + Nlen (fp_ct p).
Proof.
  pose proof asm_pre_len as L. destruct HA as (_ & _ & _ & -> & _).
  exists (fp_pre p ++ data_bytes data ++ fp_ct p), (fp_zbytes p ++ u32 magic). split.
  - now rewrite <- !app_assoc.
  - rewrite !Nlen_app, L. fold ds. lia.
Qed.
Lemma asm_zooms : has_at bs (pd + ds + Nlen (fp_ct p) + Nlen (fp_ix p)) (fp_zbytes p).
Proof.
  pose proof asm_pre_len as L. destruct HA as (_ & _ & _ & -> & _).
  rewrite (app_assoc (fp_pre p)), (app_assoc (fp_pre p ++ data_bytes data)),
    (app_assoc ((fp_pre p ++ data_bytes data) ++ fp_ct p)).
  apply has_at_intro. rewrite !Nlen_app, L. reflexivity.
Qed.
Lemma asm_Nlen : Nlen bs = pd + ds + Nlen (fp_ct p) + Nlen (fp_ix p) + Nlen (fp_zbytes p) + 4.
Proof.
  pose proof asm_pre_len as L. destruct HA as (_ & _ & _ & -> & _).
  rewrite !Nlen_app, L. fold ds. change (Nlen (u32 magic)) with 4. lia.
Qed.
Lemma asm_header : has_at bs 0
  (header_bytes magic (Nlen (fp_zhdrs p)) (pd + ds) (pd - 8) (pd + ds + Nlen (fp_ct p)) fc dfc ao (pd - 48) 0
   ++ flat_map zoom_header_bytes (fp_zhdrs p)).
Proof. apply asm_in_pre. destruct HA as (_ & _ & _ & _ & _ & H & _). exact H. Qed.
Lemma asm_summary : has_at bs (pd - 48) (summary_bytes sum).
Proof. apply asm_in_pre. destruct HA as (_ & _ & _ & _ & _ & _ & H & _). exact H. Qed.
Lemma asm_count : has_at bs (pd - 8) (u64 (dco (Nlen data))).
Proof. apply asm_in_pre. destruct HA as (_ & _ & _ & _ & _ & _ & _ & H). exact H. Qed.
(* every index record of the main index points at its section's bytes *)
Lemma asm_placed : Forall2 (placed bs) (place pd data) data.
Proof. apply place_placed. exact asm_data. Qed.
End Parts.
