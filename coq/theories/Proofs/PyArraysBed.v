(* C20: to_entry_array and to_entry_array_bins (bigBed coverage depth) on what the reader hands over. *)
From BT Require Import Base.Util Model.PyArrays Proofs.PyArraysGeom Proofs.PyArraysEngine Proofs.PyArraysCover
  Proofs.PyArraysWig.
Local Open Scope Z_scope.

(* entries inside [0, len), non-empty, starts not decreasing *)
Fixpoint bed_ok (lo len : Z) (ents : list bent) : Prop :=
  match ents with
  | [] => True
  | en :: r => lo <= b_start en /\ b_start en < b_end en /\ b_end en <= len /\ bed_ok (b_start en) len r
  end.

Lemma bed_ok_bounds : forall ents lo len, bed_ok lo len ents ->
  Forall (fun en => lo <= b_start en /\ b_start en < b_end en /\ b_end en <= len) ents.
Proof.
  induction ents as [|en r IH]; intros lo len H; [constructor|]. cbn [bed_ok] in H. destruct H as [H1 [H2 [H3 H4]]].
  constructor; [lia|]. eapply Forall_impl; [|apply (IH _ _ H4)]. cbn beta. intros u Hu. lia.
Qed.

(* ---- depth *)
Definition bcov (en : bent) (p : Z) : bool := covers (b_start en) (b_end en) p.

Lemma depth_cons : forall en r p, depth (en :: r) p = (if bcov en p then 1 else 0) + depth r p.
Proof.
  intros. unfold depth, bcov, covers. cbn [filter]. destruct ((b_start en <=? p) && (p <? b_end en)); cbn [length]; lia.
Qed.

Lemma depth_nonneg : forall ents p, 0 <= depth ents p.
Proof. intros. unfold depth. lia. Qed.

Lemma depth_fetch : forall touch ents fs fe p, fs <= p < fe -> depth (fetch_bed touch ents fs fe) p = depth ents p.
Proof.
  intros touch ents fs fe p Hp. unfold fetch_bed. induction ents as [|en r IH]; [reflexivity|]. cbn [filter].
  rewrite depth_cons. destruct (keep touch fs fe (b_start en) (b_end en)) eqn:Hk.
  - rewrite depth_cons, IH. reflexivity.
  - rewrite IH. assert (Hc : bcov en p = false); [|rewrite Hc; lia].
    unfold bcov, covers. unfold keep in Hk.
    destruct touch; destruct (Z.leb_spec (b_start en) p), (Z.ltb_spec p (b_end en)); cbn [andb]; try reflexivity;
      exfalso; b2p; lia.
Qed.

(* depth counted cell by cell, as the routines do *)
Lemma fold_depth_data : forall f, (forall y, 0 <= y -> f (FV y) = FV (y + 8)) -> f FNaN = FV 8 ->
  forall ents p x0,
  fold_left (fun x en => if bcov en p then f x else x) ents x0
  = match x0 with
    | FNaN => if depth ents p =? 0 then FNaN else FV (8 * depth ents p)
    | FV y => if 0 <=? y then FV (y + 8 * depth ents p) else fold_left (fun x en => if bcov en p then f x else x) ents x0
    end.
Proof.
  intros f Hf Hn. induction ents as [|en r IH]; intros p x0; cbn [fold_left].
  - destruct x0 as [|y]; [reflexivity|]. destruct (Z.leb_spec 0 y); [|reflexivity].
    unfold depth. cbn [filter length Z.of_nat]. f_equal. lia.
  - rewrite IH. rewrite depth_cons. pose proof (depth_nonneg r p) as Hd. destruct (bcov en p).
    + destruct x0 as [|y].
      * rewrite Hn. cbn [Z.leb Z.compare]. destruct (Z.eqb_spec (1 + depth r p) 0); [exfalso; lia|]. f_equal. lia.
      * destruct (Z.leb_spec 0 y) as [Hy|Hy]; [|rewrite IH; reflexivity].
        rewrite Hf by exact Hy. destruct (Z.leb_spec 0 (y + 8)); [|exfalso; lia]. f_equal. lia.
    + destruct x0 as [|y].
      * replace (0 + depth r p) with (depth r p) by lia. reflexivity.
      * destruct (Z.leb_spec 0 y); [f_equal; lia|]. rewrite IH. reflexivity.
Qed.

Lemma fold_depth_cov : forall ents p c0, 0 <= c0 <= 1 ->
  fold_left (fun c en => if bcov en p then Z.max c 1 else c) ents c0 = if depth ents p =? 0 then c0 else 1.
Proof.
  induction ents as [|en r IH]; intros p c0 Hc; cbn [fold_left]; [reflexivity|].
  rewrite depth_cons. pose proof (depth_nonneg r p) as Hd. destruct (bcov en p).
  - rewrite IH by lia. destruct (Z.eqb_spec (depth r p) 0), (Z.eqb_spec (1 + depth r p) 0); try (exfalso; lia); lia.
  - rewrite IH by lia. replace (0 + depth r p) with (depth r p) by lia. reflexivity.
Qed.

Lemma fetch_bed_fold : forall {A} (f : A -> bent -> A) touch ents fs fe a,
  fold_left f (fetch_bed touch ents fs fe) a
  = fold_left (fun a en => if keep touch fs fe (b_start en) (b_end en) then f a en else a) ents a.
Proof. intros. unfold fetch_bed. apply fold_left_filter. Qed.

(* ---- per base *)
Theorem to_entry_array_spec : forall items s e missing, s < e -> Forall (fun en => s <= b_end en) items ->
  to_entry_array s e items missing (Z.to_nat (e - s))
  = Ok (map (fun p => match bed_at items p with Some z => OQ z 1 | None => out_of_fl missing end)
            (seqZ s (Z.to_nat (e - s)))).
Proof.
  intros items s e missing Hse Hall. unfold to_entry_array.
  rewrite to_usize_nonneg by lia. destruct (Z.eqb_spec (Z.of_nat (Z.to_nat (e - s))) (e - s)) as [_|Hc]; [|exfalso; lia].
  cbn [negb]. set (n := Z.to_nat (e - s)).
  destruct (foldM_upd_range (fun (en : bent) x => addv x 8) (fun en => to_usize (Z.max (b_start en) s - s))
              (fun en => to_usize (Z.min (b_end en) e - s)) FNaN items (repeat FNaN n)) as [buf [Hf [Hl Hn]]].
  { eapply Forall_impl; [|exact Hall]. cbn beta. intros en Hen. rewrite repeat_length.
    rewrite !to_usize_nonneg by lia. unfold n. lia. }
  unfold addv in Hf. rewrite Hf. cbn [rbind]. f_equal. rewrite repeat_length in Hl, Hn.
  apply (list_ext ONaN).
  - rewrite !map_length, seqZ_length. exact Hl.
  - intros j Hj. rewrite map_length in Hj.
    rewrite (nth_indep (map (unnan missing) buf) ONaN (unnan missing FNaN)) by (rewrite map_length; lia).
    rewrite map_nth. rewrite Hn by lia. rewrite nth_repeat_in by lia.
    set (cellf := fun p => match bed_at items p with Some z => OQ z 1 | None => out_of_fl missing end).
    rewrite (nth_indep (map cellf (seqZ s n)) ONaN (cellf 0)) by (rewrite map_length, seqZ_length; lia).
    rewrite map_nth. rewrite seqZ_nth by lia. set (p := s + Z.of_nat j).
    rewrite (fold_left_ext_in _ (fun x en => if bcov en p then addv x 8 else x)).
    2:{ intros en x Hen. rewrite Forall_forall in Hall. specialize (Hall en Hen). cbn beta in Hall.
        rewrite !to_usize_nonneg by lia. unfold bcov, covers.
        assert (Hp : Z.of_nat j = p - s) by (unfold p; lia). rewrite Hp.
        destruct (Z.leb_spec (Z.max (b_start en) s - s) (p - s)), (Z.ltb_spec (p - s) (Z.min (b_end en) e - s)),
          (Z.leb_spec (b_start en) p), (Z.ltb_spec p (b_end en)); cbn [andb]; try reflexivity; exfalso; unfold p in *; lia. }
    rewrite (fold_depth_data (fun x => addv x 8)); [|intros; reflexivity|reflexivity].
    unfold cellf, bed_at. destruct (depth items p =? 0); reflexivity.
Qed.

(* ---- bins *)
Definition bed_f0 (bs be : Z) : list Z * list fl := (repeat 0 (Z.to_nat (be - bs)), repeat FNaN (Z.to_nat (be - bs))).
Definition fcov (c : Z) : Z := Z.max c 1.
Definition fdat (x : fl) : fl := fadd (fmax x (FV 0)) (FV 8).
Definition bed_u (istart iend bs be : Z) (d : list Z * list fl) : list Z * list fl :=
  let os := Z.max bs istart in let oe := Z.min be iend in
  (map_range fcov (Z.to_nat (os - bs)) (Z.to_nat ((oe - bs) - (os - bs))) (fst d),
   map_range fdat (Z.to_nat (os - bs)) (Z.to_nat ((oe - bs) - (os - bs))) (snd d)).
Definition bed_good (bs be : Z) (d : list Z * list fl) : Prop :=
  length (fst d) = Z.to_nat (be - bs) /\ length (snd d) = Z.to_nat (be - bs).

Lemma slice_upd_ok : forall {X} (f : X -> X) a b l, 0 <= a <= b -> b <= Z.of_nat (length l) ->
  slice_upd f a b l = Ok (map_range f (Z.to_nat a) (Z.to_nat (b - a)) l).
Proof.
  intros X f a b l Hab Hb. unfold slice_upd. rewrite !to_usize_nonneg by lia.
  destruct (Z.ltb_spec b a); [exfalso; lia|]. destruct (Z.ltb_spec (Z.of_nat (length l)) b); [exfalso; lia|]. reflexivity.
Qed.

Lemma bed_upd_u : forall is_ ie bs be d, bed_good bs be d -> Z.max bs is_ < Z.min be ie ->
  bed_upd is_ ie bs be d = Ok (bed_u is_ ie bs be d) /\ bed_good bs be (bed_u is_ ie bs be d).
Proof.
  intros is_ ie bs be [cov dat] [Hc Hd] Hov. cbn [fst snd] in Hc, Hd. unfold bed_upd, bed_u. cbn [fst snd].
  rewrite (slice_upd_ok _ _ _ dat) by lia. cbn [rbind]. rewrite (slice_upd_ok _ _ _ cov) by lia. cbn [rbind].
  split; [reflexivity|]. unfold bed_good. cbn [fst snd]. rewrite !map_range_length. split; assumption.
Qed.

Lemma existsb_repeat0 : forall m, existsb (fun c => 0 <? c) (repeat 0 m) = false.
Proof. induction m as [|m IH]; cbn [repeat existsb]; [reflexivity|exact IH]. Qed.
Lemma fold_fmin_nan : forall m, fold_left fmin (repeat FNaN m) FNaN = FNaN.
Proof. induction m as [|m IH]; cbn [repeat fold_left fmin]; [reflexivity|exact IH]. Qed.
Lemma fold_fmax_nan : forall m, fold_left fmax (repeat FNaN m) FNaN = FNaN.
Proof. induction m as [|m IH]; cbn [repeat fold_left fmax]; [reflexivity|exact IH]. Qed.

Lemma bed_fin_fresh : forall st missing bs be, bed_fin st missing (bed_f0 bs be) = out_of_fl missing.
Proof.
  intros st missing bs be. unfold bed_f0, bed_fin. generalize (Z.to_nat (be - bs)) as m. intro m. destruct st.
  - unfold bed_mean. cbn [fst]. rewrite existsb_repeat0. reflexivity.
  - cbn [snd]. destruct m as [|m]; [reflexivity|]. cbn [repeat reduce]. rewrite fold_fmin_nan. reflexivity.
  - cbn [snd]. destruct m as [|m]; [reflexivity|]. cbn [repeat reduce]. rewrite fold_fmax_nan. reflexivity.
Qed.

(* a fold of independent updates on the two halves of the state *)
Lemma fold_pair : forall {X A B} (h : X -> bool) (F : X -> A -> A) (G : X -> B -> B) l (d : A * B),
  fold_left (fun d x => if h x then (F x (fst d), G x (snd d)) else d) l d
  = (fold_left (fun a x => if h x then F x a else a) l (fst d), fold_left (fun b x => if h x then G x b else b) l (snd d)).
Proof.
  intros X A B h F G. induction l as [|x l IH]; intros [a b]; cbn [fold_left fst snd]; [reflexivity|].
  destruct (h x); rewrite IH; reflexivity.
Qed.

Lemma fold_map_range_length : forall {X Y} (h : X -> bool) (f : Y -> Y) (a n : X -> nat) l (l0 : list Y),
  length (fold_left (fun b x => if h x then map_range f (a x) (n x) b else b) l l0) = length l0.
Proof.
  intros X Y h f a n. induction l as [|x l IH]; intro l0; cbn [fold_left]; [reflexivity|].
  rewrite IH. destruct (h x); [apply map_range_length|reflexivity].
Qed.

Lemma fold_map_range_nth : forall {X Y} (h : X -> bool) (f : Y -> Y) (a n : X -> nat) (dflt : Y) l (l0 : list Y) j,
  (j < length l0)%nat ->
  nth j (fold_left (fun b x => if h x then map_range f (a x) (n x) b else b) l l0) dflt
  = fold_left (fun y x => if h x && ((a x <=? j)%nat && (j <? a x + n x)%nat) then f y else y) l (nth j l0 dflt).
Proof.
  intros X Y h f a n dflt. induction l as [|x l IH]; intros l0 j Hj; cbn [fold_left]; [reflexivity|].
  rewrite IH by (destruct (h x); [rewrite map_range_length|]; exact Hj).
  f_equal. destruct (h x); cbn [andb]; [|reflexivity]. apply map_range_nth. exact Hj.
Qed.

Lemma reduce_fmin : forall l, (0 < length l)%nat -> reduce fmin l = Some (fold_left fmin l FNaN).
Proof. intros [|x r] H; [cbn [length] in H; exfalso; lia|reflexivity]. Qed.
Lemma reduce_fmax : forall l, (0 < length l)%nat -> reduce fmax l = Some (fold_left fmax l FNaN).
Proof. intros [|x r] H; [cbn [length] in H; exfalso; lia|reflexivity]. Qed.

Section BedBins.
Variables (s e fs fe bins : Z) (st : stat) (missing : fl).
Hypothesis Hse : s < e.
Hypothesis Hbins : 0 < bins <= e - s.

Let is_ := fun en => Z.max (b_start en) s - s.
Let ie := fun en => Z.min (b_end en) e - s.
Let Eb := fun k => bin_edge k (e - s) bins.

Lemma fetch_bed_chain : forall touch ents b len lo0, bed_ok b len ents -> lo0 <= Z.max b s - s ->
  chain is_ lo0 (fetch_bed touch ents fs fe).
Proof.
  intros touch. unfold fetch_bed. induction ents as [|u r IH]; intros b len lo0 Hok Hlo; [exact I|].
  cbn [bed_ok] in Hok. destruct Hok as [H1 [H2 [H3 H4]]]. cbn [filter].
  destruct (keep touch fs fe (b_start u) (b_end u)).
  - cbn [chain]. split; [unfold is_; lia|]. apply (IH (b_start u) len); [exact H4|unfold is_; lia].
  - apply (IH (b_start u) len); [exact H4|lia].
Qed.

Theorem to_entry_array_bins_spec : forall touch ents b len, bed_ok b len ents ->
  exists cells, to_entry_array_bins s e (fetch_bed touch ents fs fe) st bins missing (Z.to_nat bins) = Ok cells
    /\ length cells = Z.to_nat bins
    /\ forall k, 0 <= k < bins -> fs <= s + Eb k -> s + Eb (k + 1) <= fe ->
         nth (Z.to_nat k) cells ONaN = stat_of st missing (covered_vals (bed_at ents) (s + Eb k) (s + Eb (k + 1))).
Proof.
  intros touch ents b len Hok. unfold to_entry_array_bins.
  rewrite (run_bins_spec is_ ie (bed_fresh FNaN)
             (fun en bs be d => bed_upd (is_ en) (ie en) bs be d) (bed_fin st missing) (e - s) bins
             bed_f0 (fun en bs be d => bed_u (is_ en) (ie en) bs be d) bed_good missing).
  - eexists. split; [reflexivity|]. split; [rewrite map_length, seqZ_length; reflexivity|].
    intros k Hk Hlo Hhi.
    set (cellf := fun k => bed_fin st missing
               (acc is_ ie (e - s) bins bed_f0 (fun en bs be d => bed_u (is_ en) (ie en) bs be d) (fetch_bed touch ents fs fe) k)).
    rewrite (nth_indep _ ONaN (cellf 0)) by (rewrite map_length, seqZ_length; lia).
    rewrite (map_nth cellf). rewrite seqZ_nth by lia. rewrite Z2Nat.id by lia. cbn [Z.add]. unfold cellf. clear cellf.
    set (lo := s + Eb k) in *. set (hi := s + Eb (k + 1)) in *.
    assert (Hlh : lo < hi).
    { unfold lo, hi, Eb. pose proof (bin_edge_strict k (e - s) bins ltac:(lia) ltac:(lia)). lia. }
    assert (Hfs : s <= lo).
    { unfold lo, Eb. pose proof (bin_edge_nonneg k (e - s) bins ltac:(lia) ltac:(lia) ltac:(lia)). lia. }
    assert (Hfe : hi <= e).
    { unfold hi, Eb. pose proof (bin_edge_le_span (k + 1) (e - s) bins ltac:(lia) ltac:(lia) ltac:(lia)). lia. }
    set (m := Z.to_nat (hi - lo)).
    set (sig := bed_at ents).
    (* the data of the bin: per-base depth and covered flags *)
    assert (Hacc : acc is_ ie (e - s) bins bed_f0 (fun en bs be d => bed_u (is_ en) (ie en) bs be d) (fetch_bed touch ents fs fe) k
                   = (map (ccell sig) (seqZ lo m), map (dcell sig) (seqZ lo m))).
    { unfold acc, E. fold (Eb k). fold (Eb (k + 1)).
      assert (H1 : Eb k = lo - s) by (unfold lo; lia). assert (H2 : Eb (k + 1) = hi - s) by (unfold hi; lia).
      rewrite H1, H2. unfold bed_u.
      rewrite (fold_pair (fun en => hits is_ ie (e - s) bins en k)
                 (fun en => map_range fcov (Z.to_nat (Z.max (lo - s) (is_ en) - (lo - s)))
                              (Z.to_nat (Z.min (hi - s) (ie en) - (lo - s) - (Z.max (lo - s) (is_ en) - (lo - s)))))
                 (fun en => map_range fdat (Z.to_nat (Z.max (lo - s) (is_ en) - (lo - s)))
                              (Z.to_nat (Z.min (hi - s) (ie en) - (lo - s) - (Z.max (lo - s) (is_ en) - (lo - s)))))).
      unfold bed_f0. cbn [fst snd]. replace (Z.to_nat (hi - s - (lo - s))) with m by (unfold m; lia).
      (* the condition under which entry en touches cell j of the bin *)
      assert (Hcond : forall en j, In en ents -> (j < m)%nat ->
                keep touch fs fe (b_start en) (b_end en)
                && (hits is_ ie (e - s) bins en k
                    && ((Z.to_nat (Z.max (lo - s) (is_ en) - (lo - s)) <=? j)%nat
                        && (j <? Z.to_nat (Z.max (lo - s) (is_ en) - (lo - s))
                                 + Z.to_nat (Z.min (hi - s) (ie en) - (lo - s) - (Z.max (lo - s) (is_ en) - (lo - s))))%nat))
                = bcov en (lo + Z.of_nat j)).
      { intros en j Hen Hj.
        assert (Hin : inside is_ ie (e - s) en) by (unfold inside, is_, ie; lia).
        rewrite (hits_iff is_ ie (e - s) bins ltac:(lia) en k Hin ltac:(lia)).
        unfold live, E. fold (Eb k). fold (Eb (k + 1)). rewrite H1, H2. unfold is_, ie, bcov, covers, keep.
        set (p := lo + Z.of_nat j). assert (Hp : lo <= p < hi) by (unfold p, m in *; lia).
        destruct (Z.leb_spec (b_start en) p), (Z.ltb_spec p (b_end en)); cbn [andb].
        - (* covered: everything holds *)
          assert (Hk1 : (if touch then (fs <=? b_end en) && (b_start en <=? fe) else (fs <? b_end en) && (b_start en <? fe)) = true).
          { destruct touch; apply andb_true_intro; split; try apply Z.leb_le; try apply Z.ltb_lt; lia. }
          rewrite Hk1. cbn [andb].
          assert (Hk2 : (Z.max (b_start en) s - s <? Z.min (b_end en) e - s) && (lo - s <? Z.min (b_end en) e - s)
                        && (Z.max (b_start en) s - s <? hi - s) = true).
          { apply andb_true_intro; split; [apply andb_true_intro; split|]; apply Z.ltb_lt; lia. }
          rewrite Hk2. cbn [andb]. apply andb_true_intro. split; [apply Nat.leb_le|apply Nat.ltb_lt]; unfold p in *; lia.
        - apply andb_false_intro2. apply andb_false_intro2.
          destruct (Z.lt_ge_cases (Z.max (lo - s) (Z.max (b_start en) s - s)) (Z.min (hi - s) (Z.min (b_end en) e - s))).
          + apply andb_false_intro2. apply Nat.ltb_ge. unfold p in *. lia.
          + apply andb_false_intro2. apply Nat.ltb_ge. unfold p in *. lia.
        - apply andb_false_intro2. apply andb_false_intro2. apply andb_false_intro1. apply Nat.leb_gt. unfold p in *. lia.
        - apply andb_false_intro2. apply andb_false_intro2. apply andb_false_intro1. apply Nat.leb_gt. unfold p in *. lia. }
      f_equal.
      - apply (list_ext 0).
        + rewrite fold_map_range_length, repeat_length, map_length, seqZ_length. reflexivity.
        + intros j Hj. rewrite fold_map_range_length, repeat_length in Hj.
          rewrite fold_map_range_nth by (rewrite repeat_length; exact Hj). rewrite nth_repeat_in by exact Hj.
          rewrite (nth_indep (map (ccell sig) (seqZ lo m)) 0 (ccell sig 0)) by (rewrite map_length, seqZ_length; exact Hj).
          rewrite map_nth, seqZ_nth by exact Hj.
          rewrite fetch_bed_fold.
          rewrite (fold_left_ext_in _ (fun c en => if bcov en (lo + Z.of_nat j) then Z.max c 1 else c)).
          2:{ intros en c Hen. rewrite <- (Hcond en j Hen Hj).
              destruct (keep touch fs fe (b_start en) (b_end en)); cbn [andb]; reflexivity. }
          rewrite fold_depth_cov by lia. unfold ccell, sig, bed_at. destruct (depth ents (lo + Z.of_nat j) =? 0); reflexivity.
      - apply (list_ext FNaN).
        + rewrite fold_map_range_length, repeat_length, map_length, seqZ_length. reflexivity.
        + intros j Hj. rewrite fold_map_range_length, repeat_length in Hj.
          rewrite fold_map_range_nth by (rewrite repeat_length; exact Hj). rewrite nth_repeat_in by exact Hj.
          rewrite (nth_indep (map (dcell sig) (seqZ lo m)) FNaN (dcell sig 0)) by (rewrite map_length, seqZ_length; exact Hj).
          rewrite map_nth, seqZ_nth by exact Hj.
          rewrite fetch_bed_fold.
          rewrite (fold_left_ext_in _ (fun x en => if bcov en (lo + Z.of_nat j) then fdat x else x)).
          2:{ intros en c Hen. rewrite <- (Hcond en j Hen Hj).
              destruct (keep touch fs fe (b_start en) (b_end en)); cbn [andb]; reflexivity. }
          rewrite (fold_depth_data fdat).
          * unfold dcell, sig, bed_at. destruct (depth ents (lo + Z.of_nat j) =? 0); reflexivity.
          * intros y Hy. unfold fdat. cbn [fmax fadd]. rewrite Z.max_l by lia. reflexivity.
          * reflexivity. }
    rewrite Hacc. rewrite covered_vals_eq. fold m. fold sig.
    assert (Hpos : forall p z, sig p = Some z -> 0 <= z).
    { intros p z Hz. unfold sig, bed_at in Hz. pose proof (depth_nonneg ents p).
      destruct (depth ents p =? 0); [discriminate|]. assert (Hz' : z = 8 * depth ents p) by congruence. lia. }
    assert (Hm : (0 < m)%nat) by (unfold m; lia).
    unfold bed_fin. destruct st.
    + unfold bed_mean. cbn [fst snd]. rewrite any_covered. unfold fsum0. rewrite (fsum0_covered sig Hpos).
      rewrite sum_covered. destruct (flat_map (cv1 sig) (seqZ lo m)) as [|x r] eqn:Ecv; [reflexivity|].
      cbn [length Nat.eqb negb]. unfold fdiv.
      destruct (Z.eqb_spec (0 + Z.of_nat (S (length r))) 0); [exfalso; lia|].
      destruct (Z.ltb_spec (0 + Z.of_nat (S (length r))) 0); [exfalso; lia|]. reflexivity.
    + cbn [snd]. rewrite reduce_fmin by (rewrite map_length, seqZ_length; exact Hm).
      rewrite fmin_covered. destruct (flat_map (cv1 sig) (seqZ lo m)); reflexivity.
    + cbn [snd]. rewrite reduce_fmax by (rewrite map_length, seqZ_length; exact Hm).
      rewrite fmax_covered. destruct (flat_map (cv1 sig) (seqZ lo m)); reflexivity.
  - lia.
  - intros bs be Hbe. unfold bed_fresh. destruct (Z.ltb_spec be bs); [exfalso; lia|]. split; [reflexivity|].
    unfold bed_good, bed_f0. cbn [fst snd]. rewrite !repeat_length. split; reflexivity.
  - intros en bs be d Hg Hov. apply bed_upd_u; assumption.
  - apply bed_fin_fresh.
  - lia.
  - apply (fetch_bed_chain touch ents b len); [exact Hok|lia].
  - unfold fetch_bed. apply Forall_forall. intros en _. unfold inside, is_, ie. lia.
Qed.
End BedBins.
