(* C09, bigBed, part 5: "the correct statistics".  What the decoder returns as total summary and zoom records
   of a written bigBed are the sweeps of Model/BedSweep.v (Proofs/C09BedWhole.v); composed here with C06's and
   C08's theorems about those sweeps: in exact arithmetic the summary fields are the per-base statistics of the
   coverage depth of the input's chromosome runs, and every record of every written level holds the depth
   statistics of its span.  (IEEE: C06_bb_summary_ieee = exact below 2^53; zoom geometry: C08_geometry_any_mode.) *)
From BT Require Import Base.Util Base.LE Base.Float Generated.Consts Model.RTree Model.BBIFile Model.BigWigWrite Model.BigBedWrite
  Spec.Depth Proofs.C09Base Proofs.C09BedBlock Proofs.C09BedFile Proofs.C09BedZoom Proofs.C09BedWhole.
From BT Require Model.BedSweep Proofs.BedSummary Proofs.BedTile Proofs.C06FileBed Proofs.BigWigFileRoundTrip.
Local Open Scope N_scope.
Notation opts_ok := BigWigFileRoundTrip.opts_ok.

Theorem bed_summary_statistics U o sizes input ids outs :
  bb_collect o sizes input = Ok (ids, outs) -> U <= BedSweep.U32_MAX -> Forall (fun it : bitem => e_end (snd it) <= U) input ->
  let chroms := C06FileBed.chroms_of input in
  BedSummary.sform (bb_sweep exact outs)
    (Nlen input) (sumN (map (BedSummary.c_cov U) chroms)) (sumN (map (BedSummary.c_sum U) chroms))
    (sumN (map (BedSummary.c_sumsq U) chroms))
    (fold_left (fun a es => opt_meet N.min a (BedSummary.c_min U es)) chroms None)
    (fold_left (fun a es => opt_meet N.max a (BedSummary.c_max U es)) chroms None).
Proof.
  intros Hcol HU Hend. cbv zeta.
  destruct (C06FileBed.collect_chroms _ _ _ _ _ Hcol) as [E Hne].
  pose proof (C06FileBed.chroms_valid U _ _ _ _ _ Hcol HU Hend) as Hv.
  assert (Hcnt : sumN (map BedSummary.c_items (C06FileBed.chroms_of input)) = Nlen input).
  { transitivity (Nlen (concat (C06FileBed.chroms_of input))).
    - unfold BedSummary.c_items. clear. induction (C06FileBed.chroms_of input) as [|x l IH]; [reflexivity|].
      cbn [map sumN concat]. rewrite IH. unfold Nlen. rewrite app_length. lia.
    - rewrite C06FileBed.chroms_concat. unfold Nlen. now rewrite map_length. }
  unfold bb_sweep. rewrite E.
  destruct (C06FileBed.chroms_of input) as [|c chroms] eqn:Ec; [congruence|].
  pose proof (BedSummary.bb_total_summary_spec U c chroms Hv) as (A & B).
  split; [|exact B]. rewrite A. exact Hcnt.
Qed.

Theorem bed_level_statistics o sizes input ids outs size c :
  bb_collect o sizes input = Ok (ids, outs) -> opts_ok o -> bed_input_ok input -> Nlen (bruns input) < W16 ->
  Forall (fun s : name * N => snd s < W32) sizes ->
  1 <= size -> In c outs ->
  exists secs, BedSweep.bb_zoom_records exact (o_ips o) size (bc_id c) (sw_entries c) = Ok secs
    /\ chrom_rsecs exact (o_ips o) size c = secs
    /\ Forall (BedTile.zstats_spec (depth (sw_entries c))) (concat secs)
    /\ (forall x, 0 < depth (sw_entries c) x -> BedTile.covered_by (concat secs) x).
Proof.
  intros Hcol Hopts Hinp Hnchr Hsizes Hs Hc.
  pose proof (bl_valid o sizes input ids outs Hcol Hinp Hnchr Hsizes c Hc) as Hv.
  destruct (BedTile.zoom_records_total exact (o_ips o) size (bc_id c) (sw_entries c) Hs) as [secs Er].
  exists secs. split; [exact Er|]. split; [unfold chrom_rsecs; now rewrite Er|].
  destruct (BedTile.zoom_records_spec BedSweep.U32_MAX (o_ips o) size (bc_id c) (sw_entries c) secs Hs Hv Er) as (_ & _ & A & B).
  split; assumption.
Qed.
