(* The reachable configurations of the staging-buffer machine (Model/TempBuf.v) under a legal
   consumer program, and their preservation by every step, hence along every schedule. *)
From BT Require Import Base.Util Model.TempBuf.

(* where the mailbox stands before the producer has picked the destination up *)
Definition mbox (d0 : bytes) (sw : bool) : option bytes := if sw then Some d0 else None.

(* [loc d0 sw mb x done]: buffer state [x] (held by the producer, published in [closed], or
   taken by the consumer) together with mailbox [mb] accounts for exactly the bytes [done]:
   either they are staged and the destination is untouched (not yet offered, or waiting in the
   mailbox), or the destination has been picked up and holds d0 ++ done. *)
Definition loc (d0 : bytes) (sw : bool) (mb : option bytes) (x : bstate) (done : bytes) : Prop :=
  match x with
  | NotStarted => done = [] /\ mb = mbox d0 sw
  | Staged b => b = done /\ mb = mbox d0 sw
  | Real d => sw = true /\ mb = None /\ d = d0 ++ done
  end.

(* what an observation may be: len() = number of bytes written in total; is_real_file_ready()
   is true only once the producer has dropped its handle *)
Definition obs_ok (W : bytes) (dropped : bool) (o : obs) : Prop :=
  match o with
  | OLen n => n = Nlen W
  | OReady b => b = true -> dropped = true
  end.

Lemma obs_ok_mono W o : obs_ok W false o -> obs_ok W true o.
Proof. destruct o; cbn; auto. Qed.
Lemma obs_all_mono W l : Forall (obs_ok W false) l -> Forall (obs_ok W true) l.
Proof. intros H. eapply Forall_impl; [|exact H]. apply obs_ok_mono. Qed.
Lemma obs_snoc W dr l o : Forall (obs_ok W dr) l -> obs_ok W dr o -> Forall (obs_ok W dr) (l ++ [o]).
Proof. intros Hl Ho. apply Forall_app. split; [exact Hl|]. constructor; [exact Ho|constructor]. Qed.

Section Inv.
Variable d0 : bytes.      (* destination contents before *)
Variable W : bytes.       (* all the bytes the producer writes *)
Variable c0 : bool.       (* the consumer's program ends in await_real_file / expect_closed_write *)

(* sw = the consumer has switched.  Five shapes:
   Live    producer still has its handle
   Closed  producer dropped, buffer state published in [closed]
   TakenA  await_real_file took [closed], has not yet swapped the mailbox
   TakenE  same for expect_closed_write
   Done    destination delivered *)
Inductive Cfg : st -> Prop :=
| cLive : forall sw mb ps todo mid prog ob done,
    loc d0 sw mb ps done -> done ++ written todo = W -> (mid = true -> ps <> NotStarted) ->
    legal sw prog = true -> consumes prog = c0 -> Forall (obs_ok W false) ob ->
    Cfg (mkst mb None ps todo mid false prog CIdle ob None false)
| cClosed : forall sw mb x prog ob,
    loc d0 sw mb x W -> legal sw prog = true -> consumes prog = c0 -> Forall (obs_ok W true) ob ->
    Cfg (mkst mb (Some x) NotStarted [] false true prog CIdle ob None false)
| cTakenA : forall mb x ob,
    loc d0 true mb x W -> c0 = true -> Forall (obs_ok W true) ob ->
    Cfg (mkst mb None NotStarted [] false true [] (CAwaitTaken x) ob None false)
| cTakenE : forall mb x ob,
    loc d0 false mb x W -> c0 = true -> Forall (obs_ok W true) ob ->
    Cfg (mkst mb None NotStarted [] false true [] (CExpectTaken x) ob None false)
| cDone : forall ob,
    c0 = true -> Forall (obs_ok W true) ob ->
    Cfg (mkst None None NotStarted [] false true [] CIdle ob (Some (d0 ++ W)) false).

Lemma no_ops_nil {X} (l : list X) : no_ops l = true -> l = [].
Proof. destruct l; [reflexivity|discriminate]. Qed.

Lemma cDone' ob r : r = d0 ++ W -> c0 = true -> Forall (obs_ok W true) ob ->
  Cfg (mkst None None NotStarted [] false true [] CIdle ob (Some r) false).
Proof. intros ->. apply cDone. Qed.

Lemma cfg_step_p s s' : Cfg s -> step_p s = Some s' -> Cfg s'.
Proof.
  intros H Hs.
  destruct H as [sw mb ps todo mid prog ob done Hloc Hw Hmid Hleg Hc Hob | sw mb x prog ob Hloc Hleg Hc Hob
                 | mb x ob Hloc Hc Hob | mb x ob Hloc Hc Hob | ob Hc Hob];
    cbn in Hs; try discriminate.
  destruct todo as [|[w|] rest].
  - (* drop *)
    inversion Hs; subst; clear Hs. unfold written in Hloc |- *. cbn in *. rewrite app_nil_r in *. subst done.
    eapply cClosed; eauto using obs_all_mono.
  - (* write *)
    assert (Hw' : forall l, (l ++ w) ++ written rest = l ++ written (PWrite w :: rest)).
    { intros l. unfold written. cbn. now rewrite <- app_assoc. }
    destruct mid.
    + (* second half: the local write *)
      specialize (Hmid eq_refl).
      destruct ps as [|b|d]; [congruence| |]; inversion Hs; subst; clear Hs; cbn in Hloc.
      * destruct Hloc as [-> Hmb].
        eapply (cLive sw mb (Staged (done ++ w)) rest false prog ob (done ++ w));
          [cbn; auto | rewrite Hw'; exact Hw | discriminate | exact Hleg | exact Hc | exact Hob].
      * destruct Hloc as [-> [-> ->]].
        eapply (cLive true None (Real ((d0 ++ done) ++ w)) rest false prog ob (done ++ w));
          [cbn; rewrite app_assoc; auto | rewrite Hw'; exact Hw | discriminate | exact Hleg | exact Hc | exact Hob].
    + (* first half: update() *)
      destruct ps as [|b|d]; cbn in Hloc.
      * destruct Hloc as [-> ->]. destruct sw; cbn in Hs; inversion Hs; subst; clear Hs.
        -- eapply (cLive true None (Real d0) (PWrite w :: rest) true prog ob []);
             [cbn; rewrite app_nil_r; auto | exact Hw | discriminate | exact Hleg | exact Hc | exact Hob].
        -- eapply (cLive false None (Staged []) (PWrite w :: rest) true prog ob []);
             [cbn; auto | exact Hw | discriminate | exact Hleg | exact Hc | exact Hob].
      * destruct Hloc as [-> ->]. destruct sw; cbn in Hs; inversion Hs; subst; clear Hs.
        -- eapply (cLive true None (Real (d0 ++ done)) (PWrite w :: rest) true prog ob done);
             [cbn; auto | exact Hw | discriminate | exact Hleg | exact Hc | exact Hob].
        -- eapply (cLive false None (Staged done) (PWrite w :: rest) true prog ob done);
             [cbn; auto | exact Hw | discriminate | exact Hleg | exact Hc | exact Hob].
      * inversion Hs; subst; clear Hs.
        eapply (cLive sw mb (Real d) (PWrite w :: rest) true prog ob done);
          [exact Hloc | exact Hw | discriminate | exact Hleg | exact Hc | exact Hob].
  - (* flush *)
    inversion Hs; subst; clear Hs.
    eapply (cLive sw mb ps rest false prog ob done); eauto. discriminate.
Qed.

Lemma loc_unswitched mb x done : loc d0 false mb x done ->
  mb = None /\ (x = NotStarted /\ done = [] \/ x = Staged done).
Proof.
  destruct x as [|b|d]; cbn.
  - intros [-> ->]. auto.
  - intros [-> ->]. auto.
  - intros [Hf _]. discriminate.
Qed.

Lemma loc_switch mb x done : loc d0 false mb x done -> loc d0 true (Some d0) x done.
Proof.
  destruct x as [|b|d]; cbn.
  - intros [-> _]. auto.
  - intros [-> _]. auto.
  - intros [Hf _]. discriminate.
Qed.

Lemma cfg_step_c s s' : Cfg s -> step_c d0 s = Some s' -> Cfg s'.
Proof.
  intros H Hs.
  destruct H as [sw mb ps todo mid prog ob done Hloc Hw Hmid Hleg Hc Hob | sw mb x prog ob Hloc Hleg Hc Hob
                 | mb x ob Hloc Hc Hob | mb x ob Hloc Hc Hob | ob Hc Hob];
    cbn in Hs; try discriminate.
  - (* Live *)
    destruct prog as [|[| | | |] rest]; try discriminate.
    + (* switch *)
      cbn in Hleg. apply andb_prop in Hleg. destruct Hleg as [Hsw Hleg]. destruct sw; [discriminate|].
      destruct (loc_unswitched _ _ _ Hloc) as [-> _]. inversion Hs; subst; clear Hs.
      eapply (cLive true (Some d0) ps todo mid rest ob done); eauto using loc_switch.
    + (* ready *)
      inversion Hs; subst; clear Hs.
      eapply (cLive sw mb ps todo mid rest (ob ++ [OReady false]) done); eauto.
      apply obs_snoc; [exact Hob|]. cbn. discriminate.
  - (* Closed *)
    destruct prog as [|[| | | |] rest]; try discriminate.
    + (* switch *)
      cbn in Hleg. apply andb_prop in Hleg. destruct Hleg as [Hsw Hleg]. destruct sw; [discriminate|].
      destruct (loc_unswitched _ _ _ Hloc) as [-> _]. inversion Hs; subst; clear Hs.
      eapply (cClosed true (Some d0) x rest ob); eauto using loc_switch.
    + (* ready *)
      inversion Hs; subst; clear Hs.
      eapply (cClosed sw mb x rest (ob ++ [OReady true])); eauto.
      apply obs_snoc; [exact Hob|]. cbn. auto.
    + (* len *)
      cbn in Hleg. apply andb_prop in Hleg. destruct Hleg as [Hsw Hleg]. destruct sw; [discriminate|].
      destruct (loc_unswitched _ _ _ Hloc) as [-> [[-> HW] | ->]]; inversion Hs; subst; clear Hs.
      * eapply (cClosed false None NotStarted rest (ob ++ [OLen 0%N])); eauto.
        apply obs_snoc; [exact Hob|]. cbn. rewrite HW. reflexivity.
      * eapply (cClosed false None (Staged W) rest (ob ++ [OLen (Nlen W)])); eauto.
        apply obs_snoc; [exact Hob|]. cbn. reflexivity.
    + (* await: take *)
      cbn in Hleg. apply andb_prop in Hleg. destruct Hleg as [Hsw Hr]. destruct sw; [|discriminate].
      apply no_ops_nil in Hr. subst rest. inversion Hs; subst; clear Hs.
      eapply cTakenA; eauto.
    + (* expect_closed_write: take *)
      cbn in Hleg. apply andb_prop in Hleg. destruct Hleg as [Hsw Hr]. destruct sw; [discriminate|].
      apply no_ops_nil in Hr. subst rest. inversion Hs; subst; clear Hs.
      eapply cTakenE; eauto.
  - (* TakenA: swap the mailbox, finish the copy *)
    destruct x as [|b|d]; cbn in Hloc.
    + destruct Hloc as [HW ->]. cbn in Hs. inversion Hs; subst; clear Hs.
      apply cDone'; auto. rewrite HW. now rewrite app_nil_r.
    + destruct Hloc as [-> ->]. cbn in Hs. inversion Hs; subst; clear Hs. apply cDone'; auto.
    + destruct Hloc as [_ [-> ->]]. cbn in Hs. inversion Hs; subst; clear Hs. apply cDone'; auto.
  - (* TakenE *)
    destruct (loc_unswitched _ _ _ Hloc) as [-> [[-> HW] | ->]]; inversion Hs; subst; clear Hs.
    + apply cDone'; auto. rewrite HW. now rewrite app_nil_r.
    + apply cDone'; auto.
Qed.

Lemma cfg_step t s s' : Cfg s -> step d0 t s = Some s' -> Cfg s'.
Proof. destruct t; cbn; [apply cfg_step_p|apply cfg_step_c]. Qed.

Lemma cfg_step_or_stay t s : Cfg s -> Cfg (step_or_stay d0 t s).
Proof.
  intros H. unfold step_or_stay. destruct (step d0 t s) eqn:E; [eapply cfg_step; eauto|exact H].
Qed.

Lemma cfg_run sched : forall s, Cfg s -> Cfg (run d0 sched s).
Proof.
  induction sched as [|t r IH]; intros s H; cbn; [exact H|]. apply IH. now apply cfg_step_or_stay.
Qed.

End Inv.

Lemma cfg_init d0 ops prog : legal false prog = true ->
  Cfg d0 (written ops) (consumes prog) (init ops prog).
Proof.
  intros Hl. unfold init.
  eapply (cLive d0 (written ops) (consumes prog) false None NotStarted ops false prog [] []); eauto.
  - cbn. auto.
  - discriminate.
Qed.

(* every state reachable under any schedule is one of the five shapes *)
Lemma cfg_reach d0 ops prog sched : legal false prog = true ->
  Cfg d0 (written ops) (consumes prog) (run d0 sched (init ops prog)).
Proof. intros Hl. apply cfg_run. now apply cfg_init. Qed.
