(* C08 at file level, part 1: the GEOMETRY of the zoom records (chromosome, start, end, covered count)
   does not depend on the arithmetic mode.  The tiling loop of Model/BedSweep.v branches on positions
   and list lengths only, so a run under any [fp] is, record by record and section by section,
   geometry-equal to the run in exact arithmetic, for which Proofs/BedTile.v proves order,
   disjointness, shape and statistics.  Consequences used by the file-level query theorem: for every
   arithmetic mode the records of a chromosome are sorted, on one chromosome, end at or below
   2^32 - 1, count at most end - start covered bases; every section is a well-formed index section. *)
From Coq Require Import Sorting.Sorted.
From BT Require Import Base.Util Base.Float Model.RTree Model.BBIFile Model.BigWigWrite Model.BedSweep Spec.Depth
  Proofs.DepthStats Proofs.SweepRLE Proofs.BedSummary Proofs.BedTile Proofs.RTreeAbs Proofs.BigWigQuery Proofs.ZoomQuery Proofs.ZoomSorted.
Local Open Scope N_scope.

Definition geq (z z' : zrec) : Prop :=
  z_chrom z = z_chrom z' /\ z_start z = z_start z' /\ z_end z = z_end z' /\ su_bases (z_sum z) = su_bases (z_sum z').
Definition ogeq (a b : option zrec) : Prop :=
  match a, b with Some z, Some z' => geq z z' | None, None => True | _, _ => False end.
Definition sgeq (a b : zstate) : Prop :=
  ogeq (zs_live a) (zs_live b) /\ Forall2 geq (zs_records a) (zs_records b) /\ Forall2 (Forall2 geq) (zs_out a) (zs_out b).

Lemma geq_refl z : geq z z. Proof. repeat split. Qed.
Lemma F2_len {X Y} (R : X -> Y -> Prop) l l' : Forall2 R l l' -> Nlen l = Nlen l'.
Proof. intros H. unfold Nlen. f_equal. induction H; cbn [length]; congruence. Qed.
Lemma F2_snoc {X Y} (R : X -> Y -> Prop) l l' x y : Forall2 R l l' -> R x y -> Forall2 R (l ++ [x]) (l' ++ [y]).
Proof. intros H Hxy. apply Forall2_app; [exact H|constructor; [exact Hxy|constructor]]. Qed.

Lemma sgeq_send a b : sgeq a b -> sgeq (send_records a) (send_records b).
Proof.
  intros (A & B & C). unfold send_records. split; [exact A|]. split; [constructor|]. cbn [zs_out].
  apply F2_snoc; assumption.
Qed.
Lemma sgeq_push a b z z' : sgeq a b -> geq z z' -> sgeq (push_live a z) (push_live b z').
Proof.
  intros (A & B & C) Hz. unfold push_live. split; [exact I|]. split; [|exact C]. cbn [zs_records].
  apply F2_snoc; assumption.
Qed.
Lemma sgeq_set a b z z' : sgeq a b -> geq z z' ->
  sgeq {| zs_live := Some z; zs_records := zs_records a; zs_out := zs_out a |}
       {| zs_live := Some z'; zs_records := zs_records b; zs_out := zs_out b |}.
Proof. intros (A & B & C) Hz. split; [exact Hz|]. split; assumption. Qed.

Lemma geq_add fp fp' z z' a b v : geq z z' -> geq (zrec_add fp z a b v) (zrec_add fp' z' a b v).
Proof. intros (A & B & C & D). unfold geq, zrec_add. cbn [z_chrom z_start z_end z_sum su_bases]. rewrite D. auto. Qed.

Lemma tile_iter_geq fp fp' ips size chrom rs re val a st st' : sgeq st st' ->
  fst (tile_iter fp ips size chrom rs re val a st) = fst (tile_iter fp' ips size chrom rs re val a st')
  /\ sgeq (snd (tile_iter fp ips size chrom rs re val a st)) (snd (tile_iter fp' ips size chrom rs re val a st')).
Proof.
  intros Hs. unfold tile_iter. cbv zeta.
  set (z0 := match zs_live st with Some z => z | None => zrec_new chrom a (f_of_N val) end).
  set (z0' := match zs_live st' with Some z => z | None => zrec_new chrom a (f_of_N val) end).
  assert (Hz0 : geq z0 z0').
  { unfold z0, z0'. destruct Hs as (A & _). unfold ogeq in A.
    destruct (zs_live st), (zs_live st'); try contradiction; [exact A|apply geq_refl]. }
  assert (Es : z_start z0 = z_start z0') by apply Hz0. rewrite <- Es.
  set (ae := N.min (z_start z0 + size) re).
  set (z1 := if a <? ae then zrec_add fp z0 a ae (f_of_N val) else z0).
  set (z1' := if a <? ae then zrec_add fp' z0' a ae (f_of_N val) else z0').
  assert (Hz1 : geq z1 z1') by (unfold z1, z1'; destruct (a <? ae); [apply geq_add|]; exact Hz0).
  cbn [fst snd]. split; [reflexivity|].
  destruct (ae =? z_start z0 + size).
  - pose proof (sgeq_push _ _ _ _ Hs Hz1) as Hp. rewrite <- (F2_len _ _ _ (proj1 (proj2 Hp))).
    destruct (_ =? ips); [apply sgeq_send|]; exact Hp.
  - pose proof (sgeq_set _ _ _ _ Hs Hz1) as Hp. rewrite <- (F2_len _ _ _ (proj1 (proj2 Hp))).
    destruct (_ =? ips); [apply sgeq_send|]; exact Hp.
Qed.

Lemma tile_exit_geq hn st st' : sgeq st st' -> sgeq (tile_exit hn st) (tile_exit hn st').
Proof.
  intros Hs. unfold tile_exit. destruct hn; [exact Hs|].
  assert (H1 : sgeq (match zs_live st with Some z => push_live st z | None => st end)
                    (match zs_live st' with Some z => push_live st' z | None => st' end)).
  { pose proof (proj1 Hs) as A. unfold ogeq in A. destruct (zs_live st), (zs_live st'); try contradiction;
      [apply sgeq_push; assumption|exact Hs]. }
  set (a := match zs_live st with Some z => push_live st z | None => st end) in *.
  set (b := match zs_live st' with Some z => push_live st' z | None => st' end) in *.
  pose proof (proj1 (proj2 H1)) as B. destruct B; [exact H1|]. apply sgeq_send. exact H1.
Qed.

Definition rgeq (a b : res zstate) : Prop :=
  match a, b with Ok x, Ok y => sgeq x y | Fuel, Fuel => True | _, _ => False end.

Lemma tile_loop_geq fp fp' ips size chrom rs re val hn : forall fuel a st st', sgeq st st' ->
  rgeq (tile_loop fuel fp ips size chrom rs re val hn a st) (tile_loop fuel fp' ips size chrom rs re val hn a st').
Proof.
  induction fuel as [|f IH]; intros a st st' Hs; [exact I|].
  rewrite !tile_loop_S. destruct (re <=? a); [apply tile_exit_geq; exact Hs|].
  destruct (tile_iter_geq fp fp' ips size chrom rs re val a st st' Hs) as [E1 E2].
  destruct (tile_iter fp ips size chrom rs re val a st) as [a1 s1].
  destruct (tile_iter fp' ips size chrom rs re val a st') as [a2 s2]. cbn [fst snd] in *. subst a2.
  apply IH. exact E2.
Qed.

Lemma tile_segs_geq fp fp' ips size chrom hn : forall em st st', sgeq st st' ->
  rgeq (tile_segs fp ips size chrom hn em st) (tile_segs fp' ips size chrom hn em st').
Proof.
  induction em as [|g r IH]; intros st st' Hs; [exact Hs|]. cbn [tile_segs].
  pose proof (tile_loop_geq fp fp' ips size chrom (g_start g) (g_end g) (g_val g) hn (tile_fuel size g) (g_start g) st st' Hs) as H.
  destruct (tile_loop _ fp _ _ _ _ _ _ _ _ st) as [x| | |]; destruct (tile_loop _ fp' _ _ _ _ _ _ _ _ st') as [y| | |];
    cbn [rgeq] in H; try contradiction; cbn [rbind]; [apply IH; exact H|exact I].
Qed.

Lemma zoom_chrom_geq fp fp' ips size chrom : forall es l st st', sgeq st st' ->
  rgeq (bb_zoom_chrom fp ips size chrom l es st) (bb_zoom_chrom fp' ips size chrom l es st').
Proof.
  induction es as [|e r IH]; intros l st st' Hs; [exact Hs|]. cbn [bb_zoom_chrom].
  destruct (sweep_step l e (hd_error r)) as [em l'].
  pose proof (tile_segs_geq fp fp' ips size chrom (match r with [] => false | _ => true end) em st st' Hs) as H.
  destruct (tile_segs fp _ _ _ _ em st) as [x| | |]; destruct (tile_segs fp' _ _ _ _ em st') as [y| | |];
    cbn [rgeq] in H; try contradiction; cbn [rbind]; [apply IH; exact H|exact I].
Qed.

Theorem zoom_records_geq fp fp' ips size chrom es secs : bb_zoom_records fp ips size chrom es = Ok secs ->
  exists secs', bb_zoom_records fp' ips size chrom es = Ok secs' /\ Forall2 (Forall2 geq) secs secs'.
Proof.
  unfold bb_zoom_records. intros H.
  assert (H0 : sgeq zstate0 zstate0) by (split; [exact I|split; constructor]).
  pose proof (zoom_chrom_geq fp fp' ips size chrom es [] zstate0 zstate0 H0) as G.
  destruct (bb_zoom_chrom fp ips size chrom [] es zstate0) as [x| | |]; cbn [rbind] in H; try discriminate.
  injection H as <-.
  destruct (bb_zoom_chrom fp' ips size chrom [] es zstate0) as [y| | |]; cbn [rgeq] in G; try contradiction.
  exists (zs_out y). split; [reflexivity|apply G].
Qed.

(* ---- what geometry equality transports ---- *)
Lemma F2_concat {X Y} (R : X -> Y -> Prop) : forall l l', Forall2 (Forall2 R) l l' -> Forall2 R (concat l) (concat l').
Proof. induction 1 as [|a b l l' Hab _ IH]; [constructor|]. cbn [concat]. apply Forall2_app; assumption. Qed.

(* the facts the file-level theorem needs, as one predicate on a record list of chromosome [q] *)
Definition rec_fits (q : N) (z : zrec) : Prop :=
  z_chrom z = q /\ z_end z <= U32_MAX /\ su_bases (z_sum z) <= z_end z - z_start z.

Lemma recs_sorted_geq : forall l l', Forall2 geq l l' -> forall lo, recs_sorted lo l' -> recs_sorted lo l.
Proof.
  induction 1 as [|z z' l l' (A & B & C & D) _ IH]; intros lo Hs; [exact I|]. cbn [recs_sorted] in *.
  rewrite B, C. destruct Hs as (S1 & S2 & S3). split; [exact S1|]. split; [exact S2|]. apply IH. exact S3.
Qed.
Lemma rec_fits_geq q : forall l l', Forall2 geq l l' -> Forall (rec_fits q) l' -> Forall (rec_fits q) l.
Proof.
  induction 1 as [|z z' l l' (A & B & C & D) _ IH]; intros Hf; [constructor|]. inversion Hf as [|? ? (F1 & F2 & F3) Hf']; subst.
  constructor; [|apply IH; exact Hf']. unfold rec_fits. rewrite A, B, C, D. auto.
Qed.

Lemma range_length : forall n a, length (range a n) = n.
Proof. induction n as [|n IH]; intros a; cbn [range length]; [reflexivity|]. now rewrite IH. Qed.
Lemma fstat_cov_le D : forall xs, fstat Fcov D xs <= Nlen xs.
Proof.
  unfold fstat, Nlen. induction xs as [|x xs IH]; cbn [map sumN length]; [lia|].
  assert (Fcov (D x) <= 1) by (unfold Fcov; destruct (0 <? D x); lia). lia.
Qed.

(* exact arithmetic: order, shape, ends, counts (Proofs/BedTile.v zoom_chrom_inv) *)
Lemma zoom_records_fit_exact U ips size chrom es secs : 1 <= size -> valid_zoom_chrom U es ->
  bb_zoom_records exact ips size chrom es = Ok secs ->
  recs_sorted 0 (concat secs) /\ Forall (rec_fits chrom) (concat secs).
Proof.
  intros Hsize (HU & Hok & Hs & Hlt) Hrun. unfold bb_zoom_records in Hrun.
  destruct (bb_zoom_chrom exact ips size chrom [] es zstate0) as [st'| | |] eqn:Ez; cbn [rbind] in Hrun; try discriminate.
  injection Hrun as <-. destruct es as [|e r].
  - cbn [bb_zoom_chrom] in Ez. injection Ez as <-. cbn [zstate0 zs_out concat recs_sorted]. split; [exact I|constructor].
  - assert (HI0 : Inv size chrom (fun _ => 0) 0 zstate0).
    { unfold Inv, emitted, zstate0. cbn [zs_out zs_records zs_live concat app recs_sorted].
      split; [exact I | split; [constructor | split; [constructor|]]].
      unfold last_end. cbn [fold_left]. split; [lia | split; [reflexivity|]]. intros x Hx. lia. }
    destruct (zoom_chrom_inv ips size chrom Hsize U r e [] _ 0 zstate0 st' HU Hok Hs Hlt I (Forall_nil _) (N.le_0_l _) HI0 Ez)
      as ((A & B & C & R) & Hl & Hr).
    rewrite Hl in R. destruct R as (R1 & _ & _).
    assert (Em : emitted st' = concat (zs_out st')) by (unfold emitted; rewrite Hr; apply app_nil_r).
    rewrite Em in *. split; [exact A|].
    destruct (recs_sorted_ends _ _ A) as (_ & Hends).
    rewrite Forall_forall in *. intros z Hz. destruct (B z Hz) as [_ Hc]. destruct (C z Hz) as (Cb & _).
    split; [exact Hc|]. split; [specialize (Hends z Hz); cbn beta in Hends; lia|].
    rewrite Cb. etransitivity; [apply fstat_cov_le|]. unfold span, Nlen. rewrite range_length. lia.
Qed.

Theorem zoom_records_fit fp U ips size chrom es secs : 1 <= size -> valid_zoom_chrom U es ->
  bb_zoom_records fp ips size chrom es = Ok secs ->
  recs_sorted 0 (concat secs) /\ Forall (rec_fits chrom) (concat secs).
Proof.
  intros Hsize Hv Hrun. destruct (zoom_records_geq fp exact ips size chrom es secs Hrun) as [secs' [He Hg]].
  destruct (zoom_records_fit_exact U ips size chrom es secs' Hsize Hv He) as [A B].
  pose proof (F2_concat _ _ _ Hg) as Hc. split; [eapply recs_sorted_geq; eassumption|eapply rec_fits_geq; eassumption].
Qed.

(* ---- sections of a sorted one-chromosome record list are index sections ---- *)
Lemma recs_sorted_app2 : forall a lo b, recs_sorted lo (a ++ b) -> recs_sorted lo a /\ recs_sorted (last_end lo a) b.
Proof.
  induction a as [|x a IH]; intros lo b H; cbn [app recs_sorted] in *; [split; [exact I|exact H]|].
  destruct H as (H1 & H2 & H3). destruct (IH _ _ H3) as [I1 I2].
  change (last_end lo (x :: a)) with (last_end (z_end x) a). tauto.
Qed.
Lemma recs_sorted_weaken : forall l lo lo', lo' <= lo -> recs_sorted lo l -> recs_sorted lo' l.
Proof. destruct l as [|z l]; intros lo lo' H Hs; [exact I|]. cbn [recs_sorted] in *. destruct Hs as (A & B & C). repeat split; try assumption; lia. Qed.
Lemma recs_sorted_in : forall l lo z, recs_sorted lo l -> In z l -> lo <= z_start z /\ z_start z < z_end z /\ z_end z <= last_end lo l.
Proof.
  intros l lo z Hs Hin. destruct (recs_sorted_ends l lo Hs) as [_ He]. rewrite Forall_forall in He. specialize (He z Hin).
  split; [|split; [|exact He]]; revert lo Hs Hin He; induction l as [|y l IH]; intros lo Hs Hin He; try (destruct Hin; fail);
    cbn [recs_sorted] in Hs; destruct Hs as (A & B & C); destruct Hin as [<-|Hin]; try assumption.
  - destruct (recs_sorted_ends l _ C) as [_ He']. rewrite Forall_forall in He'.
    specialize (IH (z_end y) C Hin (He' z Hin)). lia.
  - destruct (recs_sorted_ends l _ C) as [_ He']. rewrite Forall_forall in He'. exact (IH (z_end y) C Hin (He' z Hin)).
Qed.
Lemma last_end_last' : forall r f lo, last_end lo (f :: r) = z_end (last (f :: r) f).
Proof.
  induction r as [|x r IH]; intros f lo; [reflexivity|].
  change (last_end lo (f :: x :: r)) with (last_end (z_end f) (x :: r)). rewrite IH.
  change (last (f :: x :: r) f) with (last (x :: r) f). now rewrite (last_default x r x f).
Qed.
Lemma sorted_sec_ok q lo sec : recs_sorted lo sec -> Forall (fun z => z_chrom z = q) sec -> sec_ok sec.
Proof.
  destruct sec as [|f r]; [intros; exact I|]. intros Hs Hc z Hin. rewrite Forall_forall in Hc.
  split; [rewrite (Hc z Hin), (Hc f (or_introl eq_refl)); reflexivity|].
  destruct (recs_sorted_in _ _ _ Hs Hin) as (A & B & C). rewrite last_end_last' in C. split; [|exact C].
  destruct Hin as [<-|Hin]; [lia|]. cbn [recs_sorted] in Hs. destruct Hs as (_ & S2 & S3).
  destruct (recs_sorted_in _ _ _ S3 Hin) as (A' & _). lia.
Qed.
Lemma sorted_concat_sec_ok q : forall secs lo, recs_sorted lo (concat secs) -> Forall (fun z => z_chrom z = q) (concat secs) ->
  Forall sec_ok secs.
Proof.
  induction secs as [|sec secs IH]; intros lo Hs Hc; [constructor|]. cbn [concat] in *.
  destruct (recs_sorted_app2 _ _ _ Hs) as [H1 H2]. apply Forall_app in Hc as [C1 C2]. constructor.
  - eapply sorted_sec_ok; eassumption.
  - eapply IH; eassumption.
Qed.

(* ---- order of the records of a whole level (C05's sorted_starts hypothesis) ---- *)
Lemma sorted_rec_le q : forall R lo, recs_sorted lo R -> Forall (fun z => z_chrom z = q) R -> StronglySorted rec_le R.
Proof.
  induction R as [|r R IH]; intros lo Hs Hc; [constructor|]. pose proof (Forall_inv Hc) as Hr. pose proof (Forall_inv_tail Hc) as Hc'. cbn beta in Hr.
  cbn [recs_sorted] in Hs. destruct Hs as (A & B & C). constructor; [eapply IH; eassumption|].
  apply Forall_forall. intros x Hx. destruct (recs_sorted_in _ _ _ C Hx) as (D & _).
  rewrite Forall_forall in Hc'. unfold rec_le, ple. right. split; [rewrite (Hc' x Hx); exact Hr|lia].
Qed.

Lemma chroms_sorted_rec_le : forall (chs : list (N * list zrec)),
  StronglySorted N.lt (map fst chs) ->
  Forall (fun c => recs_sorted 0 (snd c) /\ Forall (fun z => z_chrom z = fst c) (snd c)) chs ->
  StronglySorted rec_le (flat_map snd chs).
Proof.
  induction chs as [|[c R] chs IH]; intros Hid Ho; [constructor|]. cbn [map fst flat_map snd] in *.
  inversion Hid as [|? ? Hids Hlt]; subst. inversion Ho as [|? ? [Hoc Hcc] Hor]; subst. cbn [fst snd] in *.
  apply SS_app; [eapply sorted_rec_le; eassumption|apply IH; assumption|].
  intros x y Hx Hy. apply in_flat_map in Hy. destruct Hy as [[c' R'] [Hc' Hy]]. cbn [snd] in Hy.
  rewrite Forall_forall in Hcc, Hor, Hlt. destruct (Hor _ Hc') as [_ Hc'c]. cbn [fst snd] in Hc'c.
  rewrite Forall_forall in Hc'c.
  assert (Hlt' : c < c') by (apply Hlt; apply in_map_iff; exists (c', R'); auto).
  unfold rec_le, ple. left. rewrite (Hcc x Hx), (Hc'c y Hy). exact Hlt'.
Qed.
