(* The line streams of the views the parallel source opens at the entries of an index
   (Model/Indexer.v: view_streams, lines_between): for every index whose offsets increase and whose
   first entry is at or before the first line, the streams, one after the other, are the file. *)
From BT Require Import Base.Util Model.Indexer Proofs.IndexerGrouped.
Local Open Scope N_scope.

Definition hi_ok (hi : option N) (o : N) : bool :=
  match hi with Some h => o <? h | None => true end.

Lemma lines_between_cons l r off lo hi :
  lines_between (l :: r) off lo hi =
  if (lo <=? off) && hi_ok hi off then l :: lines_between r (off + snd l) lo hi
  else lines_between r (off + snd l) lo hi.
Proof. reflexivity. Qed.

(* every line of p (laid out from off) starts before x *)
Fixpoint starts_before (p : file) (off x : N) : Prop :=
  match p with [] => True | l :: r => off < x /\ starts_before r (off + snd l) x end.

Lemma starts_before_mono : forall p off x x', starts_before p off x -> x <= x' -> starts_before p off x'.
Proof.
  induction p as [|l p IH]; intros off x x' H Hx; cbn [starts_before] in *; auto.
  destruct H as [H1 H2]. split; [lia|]. eapply IH; eauto.
Qed.

(* nothing starts in [lo, hi) when every line starts at or after hi *)
Lemma lines_between_none : forall g off lo h, h <= off -> lines_between g off lo (Some h) = [].
Proof.
  induction g as [|l g IH]; intros off lo h H; [reflexivity|].
  rewrite lines_between_cons. cbn [hi_ok].
  replace (off <? h) with false by (symmetry; apply N.ltb_ge; lia).
  rewrite andb_false_r. apply IH. lia.
Qed.

(* every line starts in [lo, inf) when the first does *)
Lemma lines_between_all : forall g off lo, lo <= off -> lines_between g off lo None = g.
Proof.
  induction g as [|l g IH]; intros off lo H; [reflexivity|].
  rewrite lines_between_cons. cbn [hi_ok].
  replace (lo <=? off) with true by (symmetry; apply N.leb_le; lia).
  cbn [andb]. f_equal. apply IH. lia.
Qed.

(* the lines starting before h are a prefix; the rest starts at or after h *)
Lemma lines_between_prefix : forall g off lo h, Forall pos_len g -> lo <= off ->
  exists p s, g = p ++ s /\ lines_between g off lo (Some h) = p /\
              (s = [] \/ h <= off + fsize p) /\ starts_before p off h.
Proof.
  induction g as [|l g IH]; intros off lo h Hpos Hlo.
  - exists [], []. repeat split; auto.
  - inversion Hpos as [|? ? Hl Hg]; subst. unfold pos_len in Hl.
    rewrite lines_between_cons. cbn [hi_ok].
    replace (lo <=? off) with true by (symmetry; apply N.leb_le; lia). cbn [andb].
    destruct (off <? h) eqn:E.
    + apply N.ltb_lt in E.
      destruct (IH (off + snd l) lo h Hg) as (p & s & -> & Hp & Hs & Hb); [lia|].
      exists (l :: p), s. rewrite Hp. repeat split; auto.
      rewrite fsize_cons. destruct Hs as [Hs|Hs]; [left; auto | right; lia].
    + apply N.ltb_ge in E. exists [], (l :: g). rewrite fsize_nil.
      repeat split; auto; [|right; lia].
      apply lines_between_none. lia.
Qed.

(* lines that start before lo do not matter *)
Lemma lines_between_skip : forall p s off lo hi, starts_before p off lo ->
  lines_between (p ++ s) off lo hi = lines_between s (off + fsize p) lo hi.
Proof.
  induction p as [|l p IH]; intros s off lo hi H; cbn [app].
  - rewrite fsize_nil. f_equal. lia.
  - cbn [starts_before] in H. destruct H as [H1 H2].
    rewrite lines_between_cons, fsize_cons.
    replace (lo <=? off) with false by (symmetry; apply N.leb_gt; lia). cbn [andb].
    rewrite IH by auto. f_equal. lia.
Qed.

(* view_streams with the offset of the first line of g made explicit *)
Fixpoint vs_from (g : file) (off : N) (ix : list entry) : list file :=
  match ix with
  | [] => []
  | e :: r => lines_between g off (fst e) (match r with n :: _ => Some (fst n) | [] => None end)
              :: vs_from g off r
  end.

Lemma view_streams_vs f ix : view_streams f ix = vs_from f 0 ix.
Proof. induction ix as [|e r IH]; cbn [view_streams vs_from]; [reflexivity|]. rewrite IH. reflexivity. Qed.

Lemma vs_from_nil : forall ix off, concat (vs_from [] off ix) = [].
Proof. induction ix as [|e r IH]; intros off; cbn [vs_from concat lines_between app]; auto. Qed.

Lemma vs_from_skip : forall ix p s off h, starts_before p off h -> inc_from h ix ->
  vs_from (p ++ s) off ix = vs_from s (off + fsize p) ix.
Proof.
  induction ix as [|x r IH]; intros p s off h Hb Hinc; cbn [vs_from]; [reflexivity|].
  cbn [inc_from] in Hinc. destruct Hinc as [Hx Hr].
  rewrite lines_between_skip by (eapply starts_before_mono; eauto).
  f_equal. apply (IH p s off h Hb). eapply inc_from_weaken; [|exact Hr]. lia.
Qed.

Lemma vs_from_concat : forall r e g off, Forall pos_len g ->
  inc_from (fst e) (e :: r) -> fst e <= off -> concat (vs_from g off (e :: r)) = g.
Proof.
  induction r as [|n r IH]; intros e g off Hpos Hinc Hoff.
  - cbn [vs_from concat]. rewrite lines_between_all by lia. apply app_nil_r.
  - change (vs_from g off (e :: n :: r))
      with (lines_between g off (fst e) (Some (fst n)) :: vs_from g off (n :: r)).
    rewrite concat_cons.
    destruct (lines_between_prefix g off (fst e) (fst n) Hpos Hoff) as (p & s & -> & Hp & Hs & Hb).
    rewrite Hp. f_equal.
    cbn [inc_from] in Hinc. destruct Hinc as (_ & Hn & Hr).
    assert (Hinc' : inc_from (fst n) (n :: r)) by (cbn [inc_from]; split; [lia | exact Hr]).
    rewrite (vs_from_skip (n :: r) p s off (fst n) Hb Hinc').
    destruct Hs as [-> | Hs].
    + apply vs_from_nil.
    + apply IH; auto. apply Forall_app in Hpos. tauto.
Qed.

(* any sorted index that starts at the first line: the per-entry streams concatenate to the file *)
Lemma view_streams_concat : forall f e r, Forall pos_len f -> inc_from 0 (e :: r) -> fst e = 0 ->
  concat (view_streams f (e :: r)) = f.
Proof.
  intros f e r Hpos Hinc He. rewrite view_streams_vs. apply vs_from_concat; auto; [|lia].
  rewrite He. exact Hinc.
Qed.

(* whatever index_chroms answers (grouped file or not): the views opened at its entries deliver,
   one after the other, exactly the lines of the file, in order *)
Lemma index_views_concat : forall limit f ix, Forall pos_len f ->
  index_chroms limit f = Ok (Some ix) -> concat (view_streams f ix) = f.
Proof.
  intros limit f ix Hpos H.
  destruct (index_chroms_ok limit f (Some ix) Hpos H) as (l0 & t & ins & -> & HS & E).
  injection E as ->.
  apply view_streams_concat; auto.
  cbn [inc_from fst]. split; [lia|].
  apply inc_from_dd. eapply inc_from_Sel; [exact HS|].
  inversion Hpos as [|? ? Hl Ht]; subst. unfold pos_len in Hl.
  apply inc_from_weaken with (lo := snd l0); [lia|]. apply inc_from_entries; auto.
Qed.
