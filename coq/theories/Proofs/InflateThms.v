(* Spec/Inflate.v: the statements that are meant to be cited (each closed by [exact] or a short
   instantiation, with Print Assumptions beneath).
   Proofs: Proofs/InflateFuel.v (termination), Proofs/InflateStored.v (Adler-32, match copier, stored round trip),
   Proofs/InflateHuffman.v (canonical codes). *)
From BT Require Import Base.Util Base.LE Base.Float Generated.Consts Model.RTree Model.BBIFile Model.BigWigWrite Model.BigWigWriteZ
  Proofs.RTreeCodec Proofs.FileRegions Proofs.BigWigFile Proofs.BigWigFileData Proofs.BigWigFileRoundTrip Proofs.ZoomBwLevels
  Spec.FormatDecode Proofs.C09Base Proofs.C09Data Proofs.C09Whole
  Spec.Inflate Proofs.InflateFuel Proofs.InflateStored Proofs.InflateHuffman.
Local Open Scope N_scope.

(* ---------- totality: fuel exhaustion is a constructor of its own and is never returned ---------- *)
Theorem inflate_never_fuel : forall input, inflate input <> Fuel /\ inflate input <> Panic.
Proof.
  intros input. pose proof (inflate_settled input) as H.
  destruct (inflate input); cbn in H; try contradiction; split; discriminate.
Qed.
Print Assumptions inflate_never_fuel.

Theorem zlib_decode_res_total : forall input,
  (exists d, zlib_decode_res input = Ok d) \/ (exists e, zlib_decode_res input = Err e).
Proof.
  intros input. pose proof (zlib_decode_res_settled input) as H.
  destruct (zlib_decode_res input) as [d|e| |]; cbn in H; try contradiction; [left; exists d|right; exists e]; reflexivity.
Qed.
Print Assumptions zlib_decode_res_total.

(* every step of the block loop consumes at least one bit of the input *)
Theorem inflate_step_consumes : forall st st1, step st = Ok (inl st1) -> (blen (i_bs st1) < blen (i_bs st))%nat.
Proof. exact step_len. Qed.
Print Assumptions inflate_step_consumes.

(* ---------- Adler-32 ---------- *)
(* RFC 1950 in closed form: low half = 1 + sum of the bytes, high half = sum of the values the low half takes
   after each byte, both modulo 65521 *)
Theorem adler32_closed_form : forall l,
  adler32 l = (sumN (prefix_sums 1 l)) mod 65521 * 65536 + (1 + sumN l) mod 65521.
Proof. exact adler32_closed. Qed.
Print Assumptions adler32_closed_form.

Theorem adler32_fits_u32 : forall l, adler32 l < 4294967296.
Proof. exact adler32_lt. Qed.
Print Assumptions adler32_fits_u32.

(* the running state can be continued: checksum of a concatenation from the state after the first part *)
Theorem adler32_streaming : forall a b,
  adler32 (a ++ b) = let st := fold_left adler_step b (adler_state a) in snd st * 65536 + fst st.
Proof. intros a b. unfold adler32. fold (adler_state (a ++ b)). rewrite adler_state_app. reflexivity. Qed.
Print Assumptions adler32_streaming.

(* ---------- the match copier used by [step] is the byte-at-a-time definition of RFC 1951 3.2.3 ---------- *)
Theorem lz_copy_correct : forall len dist out,
  len <= 258 -> 1 <= dist -> dist <= Nlen out ->
  lz_copy 258 len dist out = lz_copy_spec (N.to_nat len) dist out.
Proof. intros len dist out H1 H2 H3. apply lz_copy_is_spec; unfold Nlen in *; lia. Qed.
Print Assumptions lz_copy_correct.

(* ... and [step] only ever asks for lengths 3..258 and distances 1..32768 *)
Theorem length_codes_in_range : forall i s len s1, base_extra len_table E_CODE i s = Ok (len, s1) -> 3 <= len <= 258.
Proof. exact len_table_bound. Qed.
Theorem distance_codes_in_range : forall i s d s1, base_extra dist_table E_DCODE i s = Ok (d, s1) -> 1 <= d <= 32768.
Proof. exact dist_table_bound. Qed.
Print Assumptions length_codes_in_range.
Print Assumptions distance_codes_in_range.

(* ---------- Huffman codes: the tree [build] makes from a list of code lengths decodes exactly the canonical code of
   RFC 1951 3.2.2 — for every symbol of non-zero length l, the l bits of next_code[l] + (number of smaller symbols
   of length l), most significant first, followed by anything, are read as that symbol and nothing more is consumed;
   hence no code word is a prefix of another symbol's ---------- *)
Theorem huffman_tree_decodes_canonical_code : forall kind bad lens t, build kind bad lens = Ok t ->
  forall sym l, nth_error lens sym = Some l -> l <> 0 ->
  forall r rest, hwalk t (code_bits (N.to_nat l) (canonical_code lens sym) ++ r, rest) = Ok (N.of_nat sym, (r, rest)).
Proof. exact build_decodes_canonical. Qed.
Print Assumptions huffman_tree_decodes_canonical_code.

Theorem huffman_canonical_code_prefix_free : forall kind bad lens t, build kind bad lens = Ok t ->
  forall s1 s2 l1 l2 tail, nth_error lens s1 = Some l1 -> nth_error lens s2 = Some l2 -> l1 <> 0 -> l2 <> 0 ->
  code_bits (N.to_nat l1) (canonical_code lens s1) ++ tail = code_bits (N.to_nat l2) (canonical_code lens s2) ->
  s1 = s2.
Proof. exact canonical_prefix_free. Qed.
Print Assumptions huffman_canonical_code_prefix_free.

(* the LEN/NLEN test of [stored] (sum = 65535) is the one's complement test of RFC 1951 3.2.4 on 16-bit values *)
Theorem stored_len_check_is_complement : forall len nlen, len < 65536 -> nlen < 65536 ->
  (len + nlen =? 65535) = (nlen =? N.lnot len 16).
Proof. exact stored_check_complement. Qed.
Print Assumptions stored_len_check_is_complement.

(* ---------- the stored-block encoder round-trips, for EVERY byte list ---------- *)
(* header 0x78 0x01; blocks of at most 65535 bytes, the last one final; Adler-32.  No hypothesis on the
   length, nor on the elements being < 256 (stored bytes are copied verbatim) *)
Theorem zlib_decode_stored : forall b, zlib_decode (zlib_store b) = Some b.
Proof. exact InflateStored.zlib_decode_stored. Qed.
Print Assumptions zlib_decode_stored.

(* the shape of the stream for fewer than 65536 bytes: one final stored block *)
Theorem zlib_store_one_block : forall b, Nlen b < 65536 ->
  zlib_store b = [120; 1] ++ [1; Nlen b mod 256; Nlen b / 256; (65535 - Nlen b) mod 256; (65535 - Nlen b) / 256] ++ b
                 ++ be32 (adler32 b).
Proof. exact zlib_store_small. Qed.
Print Assumptions zlib_store_one_block.

(* ---------- C09: the whole-file theorem with a REAL compressor and the Coq inflater; no hypothesis is left
   about compression: the bigWig writer model compressing every block with [zlib_store] produces a file
   that the independent decoder, inflating each block range of the file with [zlib_decode] itself,
   decodes to exactly the expected content ---------- *)
Lemma zlib_store_nonempty b : zlib_store b <> [].
Proof. unfold zlib_store. discriminate. Qed.
Lemma zlib_inflate_at_ok bs : inflate_ok zlib_store bs (zlib_inflate_at bs).
Proof.
  intros off b H. unfold zlib_inflate_at. rewrite (has_at_slice_N _ off (zlib_store b) _ H eq_refl).
  apply InflateStored.zlib_decode_stored.
Qed.

Theorem C09_decode_encode_zlib_stored : forall fp o sizes inp bs,
  bw_write_z zlib_store fp o sizes inp = Ok bs -> opts_ok o -> input_ok sizes inp -> Nlen bs < U64 ->
  Forall (fun c : name => c <> []) (map fst (runs inp)) ->
  o_sort_all o = true ->
  Forall (fun z => z < W32) (zoom_sizes_single o) ->
  exists ids outs sum data kept ubuf,
    bw_collect fp o sizes inp = Ok (ids, outs, sum, data)
    /\ incl kept (zoom_sizes_single o) /\ inc_from 0 kept /\ (ubuf = 0 <-> o_compress o = false)
    /\ decode bs (zlib_inflate_at bs) = Some (content_of fp o sizes ids outs sum ubuf kept).
Proof.
  intros fp o sizes inp bs H Ho Hi Hs Hn Hsort Hu.
  apply (bw_write_zc_decodes zlib_store (o_compress o) fp o sizes inp bs true (zlib_inflate_at bs) H Ho Hi Hs Hn);
    [|exact Hu|exact zlib_store_nonempty|intros _; apply zlib_inflate_at_ok].
  intros _. unfold bw_write_z, bw_write_zc in H.
  destruct (bw_collect fp o sizes inp) as [[[[ids outs] sum] data]| | |] eqn:Hcol; try discriminate.
  exact (sorted_names_increasing fp o sizes inp ids outs sum data Hsort Hcol).
Qed.
Print Assumptions C09_decode_encode_zlib_stored.

Theorem C09_decode_encode_zlib_stored_multipass : forall fp o sizes inp bs,
  bw_write_multipass_z zlib_store fp o sizes inp = Ok bs -> opts_ok o -> input_ok sizes inp -> Nlen bs < U64 ->
  Forall (fun c : name => c <> []) (map fst (runs inp)) ->
  o_sort_all o = true ->
  manual_u32 o ->
  exists ids outs sum data kept ubuf,
    bw_collect fp o sizes inp = Ok (ids, outs, sum, data)
    /\ inc_from 0 kept /\ (ubuf = 0 <-> o_compress o = false)
    /\ decode bs (zlib_inflate_at bs) = Some (content_of fp o sizes ids outs sum ubuf kept).
Proof.
  intros fp o sizes inp bs H Ho Hi Hs Hn Hsort Hu.
  apply (bw_write_multipass_zc_decodes zlib_store (o_compress o) fp o sizes inp bs true (zlib_inflate_at bs) H Ho Hi Hs Hn);
    [|exact Hu|exact zlib_store_nonempty|intros _; apply zlib_inflate_at_ok].
  intros _. unfold bw_write_multipass_z, bw_write_multipass_zc in H.
  destruct (bw_collect fp o sizes inp) as [[[[ids outs] sum] data]| | |] eqn:Hcol; try discriminate.
  exact (sorted_names_increasing fp o sizes inp ids outs sum data Hsort Hcol).
Qed.
Print Assumptions C09_decode_encode_zlib_stored_multipass.

(* ---------- examples (kernel computation) ---------- *)
(* the fixed codes of RFC 1951 3.2.6 pass zlib's completeness check and have the published shape *)
Example fixed_codes_built :
  build KLens E_LITLENS fixed_lit_lens = Ok fixed_lit /\ build KDists E_DISTS fixed_dist_lens = Ok fixed_dist
  /\ hwalk fixed_lit ([false; false; true; true; false; false; false; false], []) = Ok (0, ([], []))        (* 00110000 = literal 0 *)
  /\ hwalk fixed_lit ([false; false; false; false; false; false; false], []) = Ok (256, ([], []))            (* 0000000 = end of block *)
  /\ hwalk fixed_lit ([true; true; true; true; true; true; true; true; true], []) = Ok (255, ([], []))       (* 111111111 = literal 255 *)
  /\ hwalk fixed_lit ([true; true; false; false; false; true; true; true], []) = Ok (287, ([], [])).         (* 11000111 = 287 *)
Proof. vm_compute. repeat split; reflexivity. Qed.

(* a stream produced by zlib at level 9 consisting of one DYNAMIC Huffman block (210 bytes for 730 bytes of
   bedGraph text) is decoded by the kernel to the text; with the last check byte changed, a byte appended, or the
   last byte missing it is refused with the matching error class *)
Definition ex_dynamic_stream : list N := [120; 218; 85; 146; 49; 14; 3; 33; 12; 4; 107; 242; 152; 19; 94; 99; 238; 120; 207; 53; 169; 243; 255; 34; 216; 228; 130; 183; 64; 98; 86; 96; 15; 200; 247; 251; 35; 165; 22; 169; 181; 232; 235; 118; 240; 45; 230; 170; 135; 173; 192; 1; 150; 2; 157; 65; 219; 39; 16; 208; 236; 95; 193; 38; 218; 198; 62; 241; 156; 75; 14; 252; 10; 56; 93; 185; 133; 195; 245; 220; 64; 25; 19; 71; 238; 56; 157; 220; 145; 34; 247; 20; 161; 200; 77; 69; 115; 225; 32; 209; 45; 35; 238; 42; 70; 58; 11; 59; 103; 129; 221; 40; 139; 87; 92; 124; 46; 112; 80; 207; 177; 126; 112; 31; 195; 66; 72; 254; 180; 32; 96; 127; 124; 236; 1; 106; 9; 247; 71; 163; 150; 129; 48; 174; 111; 145; 241; 93; 127; 2; 250; 126; 59; 220; 31; 167; 101; 9; 215; 199; 72; 18; 177; 175; 212; 48; 80; 133; 179; 152; 24; 154; 147; 32; 213; 93; 107; 237; 149; 164; 212; 229; 181; 113; 230; 242; 218; 169; 86; 143; 104; 187; 171; 187; 43; 13; 77; 144; 166; 177; 209; 112; 127; 6; 231; 11; 149; 48; 142; 192].
Definition ex_dynamic_text : list N := [99; 104; 114; 49; 9; 48; 9; 49; 48; 48; 9; 51; 10; 99; 104; 114; 49; 9; 49; 48; 48; 9; 50; 48; 48; 9; 48; 46; 53; 10; 99; 104; 114; 49; 9; 50; 48; 48; 9; 50; 53; 48; 9; 48; 46; 53; 10; 99; 104; 114; 49; 9; 51; 48; 48; 9; 52; 48; 48; 9; 48; 46; 53; 10; 99; 104; 114; 50; 9; 52; 48; 48; 9; 52; 53; 48; 9; 51; 10; 99; 104; 114; 49; 9; 53; 48; 48; 9; 53; 53; 48; 9; 51; 10; 99; 104; 114; 49; 9; 54; 48; 48; 9; 55; 48; 48; 9; 49; 46; 50; 53; 10; 99; 104; 114; 49; 9; 55; 48; 48; 9; 56; 48; 48; 9; 48; 46; 53; 10; 99; 104; 114; 49; 9; 56; 48; 48; 9; 56; 53; 48; 9; 51; 10; 99; 104; 114; 50; 9; 57; 48; 48; 9; 57; 53; 48; 9; 48; 46; 53; 10; 99; 104; 114; 49; 9; 49; 48; 48; 48; 9; 49; 48; 53; 48; 9; 48; 46; 53; 10; 99; 104; 114; 49; 9; 49; 49; 48; 48; 9; 49; 49; 53; 48; 9; 48; 46; 53; 10; 99; 104; 114; 49; 9; 49; 50; 48; 48; 9; 49; 51; 48; 48; 9; 48; 46; 53; 10; 99; 104; 114; 49; 9; 49; 51; 48; 48; 9; 49; 51; 53; 48; 9; 51; 10; 99; 104; 114; 49; 9; 49; 52; 48; 48; 9; 49; 53; 48; 48; 9; 49; 46; 50; 53; 10; 99; 104; 114; 49; 9; 49; 53; 48; 48; 9; 49; 54; 48; 48; 9; 49; 46; 50; 53; 10; 99; 104; 114; 49; 9; 49; 54; 48; 48; 9; 49; 54; 53; 48; 9; 49; 46; 50; 53; 10; 99; 104; 114; 49; 9; 49; 55; 48; 48; 9; 49; 56; 48; 48; 9; 49; 46; 50; 53; 10; 99; 104; 114; 49; 9; 49; 56; 48; 48; 9; 49; 57; 48; 48; 9; 48; 46; 53; 10; 99; 104; 114; 49; 9; 49; 57; 48; 48; 9; 50; 48; 48; 48; 9; 49; 46; 50; 53; 10; 99; 104; 114; 50; 9; 50; 48; 48; 48; 9; 50; 49; 48; 48; 9; 48; 46; 53; 10; 99; 104; 114; 50; 9; 50; 49; 48; 48; 9; 50; 50; 48; 48; 9; 51; 10; 99; 104; 114; 49; 9; 50; 50; 48; 48; 9; 50; 50; 53; 48; 9; 49; 46; 50; 53; 10; 99; 104; 114; 49; 9; 50; 51; 48; 48; 9; 50; 52; 48; 48; 9; 49; 46; 50; 53; 10; 99; 104; 114; 49; 9; 50; 52; 48; 48; 9; 50; 53; 48; 48; 9; 49; 46; 50; 53; 10; 99; 104; 114; 50; 9; 50; 53; 48; 48; 9; 50; 53; 53; 48; 9; 49; 46; 50; 53; 10; 99; 104; 114; 49; 9; 50; 54; 48; 48; 9; 50; 54; 53; 48; 9; 51; 10; 99; 104; 114; 49; 9; 50; 55; 48; 48; 9; 50; 55; 53; 48; 9; 48; 46; 53; 10; 99; 104; 114; 50; 9; 50; 56; 48; 48; 9; 50; 57; 48; 48; 9; 51; 10; 99; 104; 114; 49; 9; 50; 57; 48; 48; 9; 51; 48; 48; 48; 9; 49; 46; 50; 53; 10; 99; 104; 114; 49; 9; 51; 48; 48; 48; 9; 51; 49; 48; 48; 9; 49; 46; 50; 53; 10; 99; 104; 114; 49; 9; 51; 49; 48; 48; 9; 51; 50; 48; 48; 9; 48; 46; 53; 10; 99; 104; 114; 49; 9; 51; 50; 48; 48; 9; 51; 51; 48; 48; 9; 51; 10; 99; 104; 114; 49; 9; 51; 51; 48; 48; 9; 51; 51; 53; 48; 9; 49; 46; 50; 53; 10; 99; 104; 114; 49; 9; 51; 52; 48; 48; 9; 51; 52; 53; 48; 9; 49; 46; 50; 53; 10; 99; 104; 114; 49; 9; 51; 53; 48; 48; 9; 51; 54; 48; 48; 9; 48; 46; 53; 10; 99; 104; 114; 49; 9; 51; 54; 48; 48; 9; 51; 54; 53; 48; 9; 51; 10; 99; 104; 114; 49; 9; 51; 55; 48; 48; 9; 51; 56; 48; 48; 9; 48; 46; 53; 10; 99; 104; 114; 49; 9; 51; 56; 48; 48; 9; 51; 56; 53; 48; 9; 51; 10; 99; 104; 114; 50; 9; 51; 57; 48; 48; 9; 51; 57; 53; 48; 9; 48; 46; 53; 10].
Example zlib_decode_dynamic_example :
  zlib_decode ex_dynamic_stream = Some ex_dynamic_text
  /\ zlib_decode_res (removelast ex_dynamic_stream ++ [193]) = Err E_ADLER
  /\ zlib_decode_res (ex_dynamic_stream ++ [0]) = Err E_TRAILING
  /\ zlib_decode_res (removelast ex_dynamic_stream) = Err E_TRUNC.
Proof. vm_compute. repeat split; reflexivity. Qed.

(* a FIXED Huffman block written by zlib (Z_FIXED) with an overlapping match: "abcabcabcabcabcd" *)
Example zlib_decode_fixed_example :
  zlib_decode [120; 1; 75; 76; 74; 78; 68; 66; 41; 0; 52; 24; 6; 35] = Some [97; 98; 99; 97; 98; 99; 97; 98; 99; 97; 98; 99; 97; 98; 99; 100].
Proof. vm_compute. reflexivity. Qed.

(* the stored encoder on a concrete input: byte for byte what zlib writes for "hi" at level 0 *)
Example zlib_store_example :
  zlib_store [104; 105] = [120; 1; 1; 2; 0; 253; 255; 104; 105; 1; 59; 0; 210] /\ zlib_decode (zlib_store [104; 105]) = Some [104; 105].
Proof. vm_compute. split; reflexivity. Qed.

(* a whole compressed file meeting every hypothesis of C09_decode_encode_zlib_stored: two chromosomes, two zoom
   levels, every data and zoom block a zlib stream written by [zlib_store], decoded with [zlib_inflate_at] *)
Definition ex_opts : opts :=
  {| o_compress := true; o_ips := 2; o_bs := 2; o_izoom := 10; o_maxzooms := 10; o_manual := Some [5; 40]; o_sort_all := true |}.
Definition ex_sizes : list (name * N) := [([98], 50); ([97], 100)].
Definition ex_input : list item :=
  [([97], {| v_start := 0; v_end := 5; v_bits := 1065353216 |}); ([97], {| v_start := 5; v_end := 12; v_bits := 1073741824 |});
   ([97], {| v_start := 20; v_end := 30; v_bits := 1056964608 |}); ([98], {| v_start := 3; v_end := 4; v_bits := 1065353216 |})].
Example C09_zlib_stored_file_example : exists bs ids outs sum data,
  bw_write_z zlib_store ieee ex_opts ex_sizes ex_input = Ok bs
  /\ bw_collect ieee ex_opts ex_sizes ex_input = Ok (ids, outs, sum, data)
  /\ opts_ok ex_opts /\ input_ok ex_sizes ex_input /\ Nlen bs < U64
  /\ Forall (fun c : name => c <> []) (map fst (runs ex_input)) /\ o_sort_all ex_opts = true
  /\ Forall (fun z => z < W32) (zoom_sizes_single ex_opts)
  /\ decode bs (zlib_inflate_at bs) = Some (content_of ieee ex_opts ex_sizes ids outs sum 64 [5; 40])
  /\ Nlen bs = 1441.
Proof.
  do 5 eexists. split; [vm_compute; reflexivity|]. split; [vm_compute; reflexivity|].
  split; [unfold opts_ok, ex_opts; cbn [o_bs o_ips]; lia|].
  split.
  { unfold input_ok. change (runs ex_input) with
      [([97], [{| v_start := 0; v_end := 5; v_bits := 1065353216 |}; {| v_start := 5; v_end := 12; v_bits := 1073741824 |};
                {| v_start := 20; v_end := 30; v_bits := 1056964608 |}]); ([98], [{| v_start := 3; v_end := 4; v_bits := 1065353216 |}])].
    cbn [map fst]. unfold BigWigFileChroms.no_zero, U16, U32, ex_sizes, ex_input.
    repeat match goal with |- _ /\ _ => split end;
      repeat (constructor; cbn [fst snd v_bits]; try (repeat split); try (repeat constructor); try lia; try discriminate). }
  split; [vm_compute; reflexivity|].
  split; [cbn; repeat constructor; discriminate|]. split; [reflexivity|].
  split; [apply Forall_forall; intros z Hz; vm_compute in Hz; unfold W32; destruct Hz as [<-|[<-|[]]]; lia|].
  split; vm_compute; reflexivity.
Qed.
