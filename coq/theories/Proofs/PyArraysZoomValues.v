(* C20: `values(.., bins, exact=False)` with a zoom level chosen (values_wig_zoom / values_bed_zoom of
   Model/PyArrays.v): the answer cell by cell, as the exact-mode statistic of the level's step function and
   as a closed formula over the records ([zoom_stat]); NaN-freedom, out-of-bounds cells; and the wrappers'
   own arithmetic (fetch clamp, out-of-bounds fill layout). *)
From BT Require Import Base.Util Model.PyArrays Proofs.PyArraysGeom Proofs.PyArraysEngine Proofs.PyArraysCover
  Proofs.PyArraysWig Proofs.PyArraysBed Proofs.PyArraysValues Proofs.PyArraysZoom Proofs.PyArraysZoomBed.
Local Open Scope Z_scope.

(* ---- the statistic of a step function over [lo, hi), record by record *)
Definition zrun (sv : zrec -> Z) (lo hi : Z) (z : zrec) : list Z := repeat (sv z) (Z.to_nat (zov lo hi z)).
Definition zpos (lo hi : Z) (z : zrec) : bool := 0 <? zov lo hi z.

Lemma flat_zrun_filter : forall sv lo hi l,
  flat_map (zrun sv lo hi) l = flat_map (zrun sv lo hi) (filter (zpos lo hi) l).
Proof.
  intros sv lo hi. induction l as [|z l IH]; [reflexivity|]. cbn [filter flat_map]. unfold zpos at 1.
  destruct (Z.ltb_spec 0 (zov lo hi z)) as [Hp|Hp]; cbn [flat_map]; rewrite IH; [reflexivity|].
  unfold zrun at 1. replace (Z.to_nat (zov lo hi z)) with 0%nat by lia. reflexivity.
Qed.

Lemma filter_zpos : forall lo hi l, Forall (fun z => 0 < zov lo hi z) (filter (zpos lo hi) l).
Proof.
  intros lo hi l. apply Forall_forall. intros z Hz. apply filter_In in Hz. destruct Hz as [_ Hz].
  unfold zpos in Hz. apply Z.ltb_lt in Hz. exact Hz.
Qed.

Lemma sum_zrun : forall sv lo hi l a, Forall (fun z => 0 < zov lo hi z) l ->
  fold_left Z.add (flat_map (zrun sv lo hi) l) a = fold_left Z.add (map (fun z => zov lo hi z * sv z) l) a.
Proof.
  intros sv lo hi. induction l as [|z l IH]; intros a H; cbn [flat_map map fold_left]; [reflexivity|].
  inversion H as [|? ? Hz Hl]; subst. rewrite fold_left_app. change (zrun sv lo hi z) with (repeat (sv z) (Z.to_nat (zov lo hi z))). rewrite fold_add_repeat.
  rewrite Z2Nat.id by lia. apply IH. exact Hl.
Qed.

Lemma len_zrun : forall sv lo hi l a, Forall (fun z => 0 < zov lo hi z) l ->
  a + Z.of_nat (length (flat_map (zrun sv lo hi) l)) = fold_left Z.add (map (zov lo hi) l) a.
Proof.
  intros sv lo hi. induction l as [|z l IH]; intros a H; cbn [flat_map map fold_left length]; [lia|].
  inversion H as [|? ? Hz Hl]; subst. rewrite app_length, Nat2Z.inj_add. change (zrun sv lo hi z) with (repeat (sv z) (Z.to_nat (zov lo hi z))). rewrite repeat_length.
  rewrite Z2Nat.id by lia. rewrite <- (IH (a + zov lo hi z) Hl). lia.
Qed.

Lemma min_zrun : forall sv lo hi l a, Forall (fun z => 0 < zov lo hi z) l ->
  fold_left Z.min (flat_map (zrun sv lo hi) l) a = fold_left Z.min (map sv l) a.
Proof.
  intros sv lo hi. induction l as [|z l IH]; intros a H; cbn [flat_map map fold_left]; [reflexivity|].
  inversion H as [|? ? Hz Hl]; subst. rewrite fold_left_app. change (zrun sv lo hi z) with (repeat (sv z) (Z.to_nat (zov lo hi z))). rewrite fold_min_repeat by lia.
  apply IH. exact Hl.
Qed.

Lemma max_zrun : forall sv lo hi l a, Forall (fun z => 0 < zov lo hi z) l ->
  fold_left Z.max (flat_map (zrun sv lo hi) l) a = fold_left Z.max (map sv l) a.
Proof.
  intros sv lo hi. induction l as [|z l IH]; intros a H; cbn [flat_map map fold_left]; [reflexivity|].
  inversion H as [|? ? Hz Hl]; subst. rewrite fold_left_app. change (zrun sv lo hi z) with (repeat (sv z) (Z.to_nat (zov lo hi z))). rewrite fold_max_repeat by lia.
  apply IH. exact Hl.
Qed.

Lemma fold_min_same : forall v m, fold_left Z.min (repeat v m) v = v.
Proof. intros v. induction m as [|m IH]; cbn [repeat fold_left]; [reflexivity|]. rewrite Z.min_id. exact IH. Qed.
Lemma fold_max_same : forall v m, fold_left Z.max (repeat v m) v = v.
Proof. intros v. induction m as [|m IH]; cbn [repeat fold_left]; [reflexivity|]. rewrite Z.max_id. exact IH. Qed.

(* the closed formula: records overlapping [lo, hi), means weighted by overlap, smallest min, largest max *)
Lemma stat_of_zrun : forall c st missing recs lo hi,
  stat_of st missing (flat_map (zrun (zsval c st) lo hi) recs)
  = zoom_stat (if c then zmean0 else zmean) st missing recs lo hi.
Proof.
  intros c st missing recs lo hi. rewrite flat_zrun_filter. unfold zoom_stat.
  change (filter (fun z => 0 <? zov lo hi z) recs) with (filter (zpos lo hi) recs).
  pose proof (filter_zpos lo hi recs) as Hpos.
  destruct (filter (zpos lo hi) recs) as [|x r] eqn:El; [reflexivity|].
  inversion Hpos as [|? ? Hx Hr]; subst.
  set (L := flat_map (zrun (zsval c st) lo hi) (x :: r)).
  assert (HL : exists m, L = zsval c st x :: (repeat (zsval c st x) m ++ flat_map (zrun (zsval c st) lo hi) r)).
  { unfold L. cbn [flat_map]. unfold zrun at 1. destruct (Z.to_nat (zov lo hi x)) as [|m] eqn:Em; [exfalso; lia|].
    exists m. reflexivity. }
  destruct HL as [m HL]. rewrite HL. unfold stat_of. destruct st.
  - rewrite <- HL. unfold L. rewrite (sum_zrun _ lo hi (x :: r) 0 Hpos).
    pose proof (len_zrun (zsval c Mean) lo hi (x :: r) 0 Hpos) as Hlen. rewrite Z.add_0_l in Hlen. rewrite Hlen.
    f_equal. destruct c; reflexivity.
  - f_equal. rewrite fold_left_app, fold_min_same. apply (min_zrun _ lo hi r _ Hr).
  - f_equal. rewrite fold_left_app, fold_max_same. apply (max_zrun _ lo hi r _ Hr).
Qed.

Theorem zoom_formula : forall c st missing recs b len lo hi, zoom_ok b len recs ->
  stat_of st missing (covered_vals (zoom_at c st recs) lo hi)
  = zoom_stat (if c then zmean0 else zmean) st missing recs lo hi.
Proof.
  intros c st missing recs b len lo hi Hok. unfold zoom_at.
  rewrite (covered_vals_wig _ b len (zoom_ok_wig c st recs b len Hok)). rewrite flat_map_map.
  rewrite <- stat_of_zrun. reflexivity.
Qed.

(* ---- the answers *)
Definition zoom_answer (c : bool) (recs : list zrec) (len : Z) (st : stat) (missing oob : fl) (s e bins : Z) : list out :=
  map (fun k => zoom_cell (if c then zmean0 else zmean) recs len st missing oob
                  (s + bin_edge k (e - s) bins) (s + bin_edge (k + 1) (e - s) bins))
      (seqZ 0 (Z.to_nat bins)).

Lemma zoom_answer_bins : forall c recs b len st missing oob s e bins, zoom_ok b len recs ->
  bins_answer (zoom_at c st recs) len st missing oob s e bins = zoom_answer c recs len st missing oob s e bins.
Proof.
  intros c recs b len st missing oob s e bins Hok. unfold bins_answer, zoom_answer. apply map_ext. intro k.
  unfold bin_cell, zoom_cell.
  destruct ((s + bin_edge k (e - s) bins <? 0) || (len <? s + bin_edge (k + 1) (e - s) bins)); [reflexivity|].
  apply (zoom_formula c st missing recs b len). exact Hok.
Qed.

Theorem values_wig_zoom_step : forall touch len recs s e bins st missing oob, zoom_ok 0 len recs -> s < e ->
  0 < bins <= e - s ->
  values_wig_zoom touch len recs s e bins st missing oob
  = Ok (bins_answer (zoom_at false st recs) len st missing oob s e bins).
Proof.
  intros touch len recs s e bins st missing oob Hok Hse Hb. unfold values_wig_zoom.
  destruct (Z.leb_spec e s); [exfalso; lia|]. unfold clamp.
  destruct (zoom_ok_bounds _ _ _ Hok) as [Hlen _].
  destruct (to_array_zoom_spec s e (Z.max s 0) (Z.max (Z.min e len) 0) bins st missing touch Hse Hb recs 0 len Hok)
    as [cells [Hc [Hl Hn]]].
  rewrite Hc. cbn [rbind]. unfold bins_answer, bin_cell.
  apply (oob_fill_answer s e len bins oob Hse Hb cells
           (fun k => stat_of st missing (covered_vals (zoom_at false st recs) (s + bin_edge k (e - s) bins) (s + bin_edge (k + 1) (e - s) bins)))
           Hl).
  intros k Hk H0 H1. destruct (Eb_facts s e bins Hse Hb k Hk) as [He0 [He1 He2]]. apply Hn; [exact Hk|lia|lia].
Qed.

Theorem values_bed_zoom_step : forall touch len recs s e bins st missing oob, zoom_ok 0 len recs -> s < e ->
  0 < bins <= e - s ->
  values_bed_zoom touch len recs s e bins st missing oob
  = Ok (bins_answer (zoom_at true st recs) len st missing oob s e bins).
Proof.
  intros touch len recs s e bins st missing oob Hok Hse Hb. unfold values_bed_zoom.
  destruct (Z.leb_spec e s); [exfalso; lia|]. unfold clamp.
  destruct (zoom_ok_bounds _ _ _ Hok) as [Hlen _].
  destruct (to_entry_array_zoom_spec s e (Z.max s 0) (Z.max (Z.min e len) 0) bins st missing touch Hse Hb recs 0 len Hok)
    as [cells [Hc [Hl Hn]]].
  rewrite Hc. cbn [rbind]. unfold bins_answer, bin_cell.
  apply (oob_fill_answer s e len bins oob Hse Hb cells
           (fun k => stat_of st missing (covered_vals (zoom_at true st recs) (s + bin_edge k (e - s) bins) (s + bin_edge (k + 1) (e - s) bins)))
           Hl).
  intros k Hk H0 H1. destruct (Eb_facts s e bins Hse Hb k Hk) as [He0 [He1 He2]]. apply Hn; [exact Hk|lia|lia].
Qed.

(* ---- the statements of Properties/C20.v *)
Theorem zoom_bins_thm : forall touch len recs s e bins st missing oob, zoom_ok 0 len recs -> s < e -> 0 < bins <= e - s ->
  values_wig_zoom touch len recs s e bins st missing oob
    = Ok (map (fun k => zoom_cell zmean recs len st missing oob
                          (s + bin_edge k (e - s) bins) (s + bin_edge (k + 1) (e - s) bins))
              (seqZ 0 (Z.to_nat bins)))
  /\ values_bed_zoom touch len recs s e bins st missing oob
    = Ok (map (fun k => zoom_cell zmean0 recs len st missing oob
                          (s + bin_edge k (e - s) bins) (s + bin_edge (k + 1) (e - s) bins))
              (seqZ 0 (Z.to_nat bins))).
Proof.
  intros touch len recs s e bins st missing oob Hok Hse Hb. split.
  - rewrite values_wig_zoom_step by assumption. rewrite (zoom_answer_bins false recs 0 len) by exact Hok. reflexivity.
  - rewrite values_bed_zoom_step by assumption. rewrite (zoom_answer_bins true recs 0 len) by exact Hok. reflexivity.
Qed.

(* zoom mode = exact mode applied to the step function of the level *)
Theorem zoom_step_thm : forall touch len recs s e bins st missing oob, zoom_ok 0 len recs -> s < e -> 0 < bins <= e - s ->
  values_wig_zoom touch len recs s e bins st missing oob
    = values_wig len (map (zwv false st) recs) s e (Some bins) st missing oob
  /\ values_bed_zoom touch len recs s e bins st missing oob
    = values_wig len (map (zwv true st) recs) s e (Some bins) st missing oob.
Proof.
  intros touch len recs s e bins st missing oob Hok Hse Hb. split.
  - rewrite values_wig_zoom_step by assumption. symmetry.
    apply values_wig_bins; [apply zoom_ok_wig; exact Hok|exact Hse|exact Hb].
  - rewrite values_bed_zoom_step by assumption. symmetry.
    apply values_wig_bins; [apply zoom_ok_wig; exact Hok|exact Hse|exact Hb].
Qed.

Theorem zoom_nan_free_thm : forall touch len recs s e bins st m o, zoom_ok 0 len recs -> s < e -> 0 < bins <= e - s ->
  exists cw cb, values_wig_zoom touch len recs s e bins st (FV m) (FV o) = Ok cw
             /\ values_bed_zoom touch len recs s e bins st (FV m) (FV o) = Ok cb
             /\ Forall finite_out cw /\ Forall finite_out cb.
Proof.
  intros touch len recs s e bins st m o Hok Hse Hb.
  eexists _, _. split; [apply values_wig_zoom_step; assumption|]. split; [apply values_bed_zoom_step; assumption|].
  split; apply bins_answer_finite.
Qed.

Theorem zoom_oob_thm : forall touch len recs s e bins st missing oob, zoom_ok 0 len recs -> s < e -> 0 < bins <= e - s ->
  exists cw cb, values_wig_zoom touch len recs s e bins st missing oob = Ok cw
             /\ values_bed_zoom touch len recs s e bins st missing oob = Ok cb
             /\ forall k, 0 <= k < bins ->
                  s + bin_edge k (e - s) bins < 0 \/ len < s + bin_edge (k + 1) (e - s) bins ->
                  nth (Z.to_nat k) cw ONaN = out_of_fl oob /\ nth (Z.to_nat k) cb ONaN = out_of_fl oob.
Proof.
  intros touch len recs s e bins st missing oob Hok Hse Hb.
  eexists _, _. split; [apply values_wig_zoom_step; assumption|]. split; [apply values_bed_zoom_step; assumption|].
  intros k Hk Hout. split; apply bins_answer_oob; assumption.
Qed.

(* `missing` exactly where no record of the level overlaps the bin (bins inside the chromosome) *)
Theorem zoom_missing_thm : forall mval recs len st missing oob lo hi, 0 <= lo -> hi <= len ->
  (forall z, In z recs -> zov lo hi z <= 0) ->
  zoom_cell mval recs len st missing oob lo hi = out_of_fl missing.
Proof.
  intros mval recs len st missing oob lo hi H0 H1 Hno. unfold zoom_cell.
  destruct (Z.ltb_spec lo 0); [exfalso; lia|]. destruct (Z.ltb_spec len hi); [exfalso; lia|]. cbn [orb].
  unfold zoom_stat. replace (filter (fun z => 0 <? zov lo hi z) recs) with (@nil zrec); [reflexivity|].
  symmetry. induction recs as [|z r IH]; [reflexivity|]. cbn [filter].
  pose proof (Hno z (or_introl eq_refl)). destruct (Z.ltb_spec 0 (zov lo hi z)); [exfalso; lia|].
  apply IH. intros u Hu. apply Hno. right. exact Hu.
Qed.

(* ---- the wrappers' own arithmetic *)
(* the fetched range is the part of [s, e) inside the chromosome *)
Theorem clamp_range : forall s e len p,
  let '(fs, fe) := clamp s e len in
  0 <= fs /\ 0 <= fe /\ (fs <= p < fe <-> (s <= p < e /\ 0 <= p < len)).
Proof. intros s e len p. unfold clamp. lia. Qed.

(* the out-of-bounds block never panics on an array of nbins cells and overwrites exactly the bins whose
   span holds a base outside [0, len) *)
Theorem oob_layout : forall s e len nbins oob arr, s < e -> 0 < nbins <= e - s -> length arr = Z.to_nat nbins ->
  oob_fill s e len nbins oob arr
  = Ok (map (fun k => if (s + bin_edge k (e - s) nbins <? 0) || (len <? s + bin_edge (k + 1) (e - s) nbins)
                      then out_of_fl oob else nth (Z.to_nat k) arr ONaN)
            (seqZ 0 (Z.to_nat nbins))).
Proof.
  intros s e len nbins oob arr Hse Hnb Hl.
  apply (oob_fill_answer s e len nbins oob Hse Hnb arr (fun k => nth (Z.to_nat k) arr ONaN) Hl).
  intros. reflexivity.
Qed.
