(* C14, bigBed writer: crash points that include the header operation, seen through the readers:
   the trace theorems (Proofs/SinkBedPhases.v) composed with the reader theorems
   (Proofs/SinkBedRead.v, after C02/C04). *)
From Coq Require Import Sorting.Sorted.
From BT Require Import Base.Util Base.LE Base.Float Generated.Consts Model.RTree Model.BBIFile Model.BigWigWrite Model.BBIRead
  Model.BigBedWrite Model.BBIReadBed Model.SinkTrace Model.SinkTraceBed
  Proofs.RTreeCodec Proofs.BedQuery Proofs.BedCodec Proofs.BedImage Proofs.BedAssemble Proofs.BedEndToEnd Proofs.BedZoomFit
  Proofs.SinkBytes Proofs.SinkExec Proofs.SinkPhases Proofs.SinkBedPhases Proofs.SinkBedRefine Proofs.SinkBedRead.
Local Open Scope N_scope.

(* what the readers answer on a crash-point image X of the file F *)
Definition bb_serves (autosql : option (list N)) (input : list bitem) (F X : list N) : Prop :=
  exists i sql fc, read_info F = Ok i /\ read_info X = Ok i /\ bb_schema autosql = Ok (sql, fc)
    /\ (forall infl c es s e, In (c, es) (bruns input) ->
          bb_interval infl X i c s e = Ok (filter (bkeep s e) es)
          /\ bb_interval infl F i c s e = Ok (filter (bkeep s e) es))
    /\ bb_autosql X i = Ok (Some sql) /\ bb_autosql F i = Ok (Some sql).

Lemma complete_agrees_at p X : lay_ok p -> complete_at (N.to_nat (p_so p)) p X ->
  agrees_at (N.to_nat (p_so p)) X (final_bytes p).
Proof.
  intros K [Hl Hn]. pose proof (final_length_lay p K) as HF. split; [lia|].
  intros i Hi Hout. apply Hn; [lia|exact Hout].
Qed.

Section Serve.
Variable sweep : list bchrom -> summary.
Variable zoom_part : list bchrom -> summary -> N -> N -> res (list N * list zoom_header).
Hypothesis zoom_levels_fit : forall outs sum a b zb zh, zoom_part outs sum a b = Ok (zb, zh) -> (length zh <= 10)%nat.

Theorem gen_serves o sizes autosql input sql fc F X :
  bb_write_gen sweep zoom_part o sizes autosql input = Ok F -> file_hyps o sizes input F ->
  bb_schema autosql = Ok (sql, fc) -> agrees_at (305 + length sql) X F -> bb_serves autosql input F X.
Proof.
  intros Hw [H1 [H3 [H4 [H5 H6]]]] Esch HX.
  unfold bb_write_gen in Hw.
  destruct ((o_bs o <? 2) || (o_ips o <? 1)) eqn:Eopt; [discriminate|].
  apply orb_false_iff in Eopt as [Eopt _]. apply N.ltb_ge in Eopt.
  rewrite Esch in Hw. cbn [rbind] in Hw.
  destruct (bb_collect o sizes input) as [[ids outs]| | |] eqn:Ecol; cbn [rbind] in Hw; try discriminate.
  rewrite bb_data_sections in Hw. cbn [rbind] in Hw.
  destruct (assemble_layout _ _ _ _ _ _ _ _ _ _ _ _ _ Hw) as [ct [ix [lv [zbytes [zhdrs [Hct [Hix [Hz _]]]]]]]].
  pose proof (zoom_levels_fit _ _ _ _ _ _ Hz) as Hzl.
  destruct (agreeing_images_serve o sizes autosql input sql fc ids outs ct ix lv zhdrs (conj Eopt H1) Esch Ecol H3 H4 H5
              Hct Hix Hzl (sweep outs) (zoom_part outs (sweep outs)) (fun _ => bb_total_items outs) zbytes F Hw Hz H6 X HX)
    as [RF [RX [Q [AX AF]]]].
  eexists. exists sql, fc. split; [exact RF|]. split; [exact RX|]. split; [exact Esch|]. split; [exact Q|]. split; [exact AX|exact AF].
Qed.
End Serve.

Theorem bb_written_serves fp kind o sizes autosql input sql fc F X :
  bb_write_gen (bb_sweep fp) (if kind =? 0 then bb_zoom_single fp o else bb_zoom_two_pass fp o) o sizes autosql input = Ok F ->
  file_hyps o sizes input F -> bb_schema autosql = Ok (sql, fc) -> agrees_at (305 + length sql) X F ->
  bb_serves autosql input F X.
Proof.
  apply gen_serves. intros outs sum a b zb zh. destruct (kind =? 0); [apply single_fits|apply two_pass_fits].
Qed.

(* every crash point that includes the header operation serves what the finished file serves *)
Theorem bb_crash_after_serves ck fp kind o sizes autosql input sql p n c :
  chunker_ok ck -> bb_parts fp kind o sizes autosql input = Ok (sql, p) ->
  file_hyps o sizes input (final_bytes p) ->
  (bb_header_index ck kind sql p < n)%nat ->
  let T := snd (bb_sink_run None ck fp kind o sizes autosql input) in
  bb_serves autosql input (replay T) (replay (cut_ops T n c)).
Proof.
  intros Hck Hp Hh Hn T.
  destruct (bb_parts_ok fp kind o sizes autosql input sql p Hp) as [K _].
  pose proof (bparts_lay sql p K) as KL.
  destruct (bb_parts_inv _ _ _ _ _ _ _ _ Hp) as [_ [fc [Esch _]]].
  assert (ET : T = snd (run None (Ok tt) (bb_calls_accept ck kind sql p))).
  { unfold T. rewrite (bb_sink_run_accepted None ck fp kind o sizes autosql input sql p Hp). reflexivity. }
  assert (EF : replay T = final_bytes p) by (rewrite ET; exact (bb_replay_final ck kind sql p Hck K)).
  rewrite EF. apply (bb_written_serves fp kind o sizes autosql input sql fc).
  - rewrite bb_write_gen_refines, Hp. reflexivity.
  - exact Hh.
  - exact Esch.
  - replace (305 + length sql)%nat with (N.to_nat (p_so p)) by (rewrite (bk_so sql p K); unfold Nlen; lia).
    apply (complete_agrees_at p _ KL). rewrite ET. exact (bb_crash_after_complete ck kind sql p Hck K n c Hn).
Qed.
