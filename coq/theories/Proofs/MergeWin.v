(* One window of ValueIter::next: the per-base accumulator after the 'sections loop tabulates the sum of the
   streams' pending values on the window, every stream is advanced to its first value reaching the window's end,
   and the run-length re-encoding of the accumulator is a sorted, disjoint, zero-free list with that signal. *)
From BT Require Import Base.Util Model.Merge Proofs.MergeSig.
Local Open Scope N_scope.

(* ------------------------------------------------------------------ tabulated functions *)
(* [tab f pos data]: data lists f pos, f (pos+1), ... *)
Fixpoint tab (f : N -> Z) (pos : N) (data : list Z) : Prop :=
  match data with [] => True | d :: r => d = f pos /\ tab f (pos + 1) r end.

Lemma tab_ext f g data : forall pos,
  (forall y, pos <= y < pos + N.of_nat (length data) -> f y = g y) -> tab f pos data -> tab g pos data.
Proof.
  induction data as [|d r IH]; intros pos He Ht; cbn [tab] in *; [exact I|].
  destruct Ht as [Hd Hr]. split.
  - rewrite Hd. apply He. cbn [length]. lia.
  - apply IH; [|exact Hr]. intros y Hy. apply He. cbn [length]. lia.
Qed.

Lemma tab_repeat pos n : tab (fun _ => 0%Z) pos (repeatN 0%Z n).
Proof. revert pos. induction n as [|n IH]; intros pos; cbn [repeatN tab]; [exact I|]. split; [reflexivity|apply IH]. Qed.
Lemma length_repeatN {X} (x : X) n : length (repeatN x n) = n.
Proof. induction n as [|n IH]; cbn [repeatN length]; [reflexivity|]. rewrite IH. reflexivity. Qed.

Lemma tab_firstn f n data : forall pos, tab f pos data -> tab f pos (firstn n data).
Proof.
  revert data. induction n as [|n IH]; intros data pos Ht; [exact I|].
  destruct data as [|d r]; [exact I|]. cbn [firstn tab] in *. destruct Ht as [Hd Hr]. split; [exact Hd|].
  apply IH. exact Hr.
Qed.

(* ------------------------------------------------------------------ add_range *)
Lemma add_range_length x data : forall ds de, length (add_range ds de x data) = length data.
Proof.
  induction data as [|d r IH]; intros ds de; [destruct de; reflexivity|].
  destruct de as [|de']; [reflexivity|]. cbn [add_range]. destruct ds as [|ds']; cbn [length]; rewrite IH; reflexivity.
Qed.

Lemma add_range_tab f x data : forall pos ds de,
  tab f pos data ->
  tab (fun y => (f y + (if ((pos + N.of_nat ds <=? y) && (y <? pos + N.of_nat de))%N then x else 0))%Z) pos
      (add_range ds de x data).
Proof.
  induction data as [|d r IH]; intros pos ds de Ht; [destruct de; exact I|].
  destruct de as [|de']; cbn [add_range].
  - eapply tab_ext; [|exact Ht]. intros y Hy. cbv beta.
    rewrite (proj2 (N.ltb_ge y (pos + N.of_nat 0))) by lia. rewrite andb_false_r. lia.
  - cbn [tab] in Ht. destruct Ht as [Hd Hr]. destruct ds as [|ds'].
    + cbn [tab]. split.
      * rewrite (proj2 (N.leb_le (pos + N.of_nat 0) pos)) by lia.
        rewrite (proj2 (N.ltb_lt pos (pos + N.of_nat (S de')))) by lia. cbn [andb]. rewrite Hd. reflexivity.
      * specialize (IH (pos + 1) O de' Hr). eapply tab_ext; [|exact IH]. intros y Hy. cbv beta.
        rewrite (proj2 (N.leb_le (pos + 1 + N.of_nat 0) y)) by lia.
        rewrite (proj2 (N.leb_le (pos + N.of_nat 0) y)) by lia. cbn [andb].
        destruct (N.ltb_spec y (pos + 1 + N.of_nat de')), (N.ltb_spec y (pos + N.of_nat (S de')));
          try reflexivity; exfalso; lia.
    + cbn [tab]. split.
      * rewrite (proj2 (N.leb_gt (pos + N.of_nat (S ds')) pos)) by lia. cbn [andb]. rewrite Hd. lia.
      * specialize (IH (pos + 1) ds' de' Hr). eapply tab_ext; [|exact IH]. intros y Hy. cbv beta.
        replace (pos + 1 + N.of_nat ds') with (pos + N.of_nat (S ds')) by lia.
        replace (pos + 1 + N.of_nat de') with (pos + N.of_nat (S de')) by lia. reflexivity.
Qed.

(* ------------------------------------------------------------------ pending values of one stream *)
(* what a stream still has to deliver when the window starting at [cs] is processed: non-empty values, sorted,
   disjoint, the first one (possibly carried from an earlier window) not ending before [cs] *)
Definition ok_items (cs : N) (P : list value) : Prop :=
  match P with
  | [] => True
  | v :: r => v_start v < v_end v /\ cs <= v_end v /\ sorted_from (v_end v) r
  end.

Lemma ok_items_of_sorted cs P : sorted_from cs P -> ok_items cs P.
Proof. destruct P as [|v r]; cbn [sorted_from ok_items]; [tauto|]. intros [H1 [H2 H3]]. repeat split; try lia. exact H3. Qed.

(* drop the values that end before [b] *)
Fixpoint adv (b : N) (P : list value) : list value :=
  match P with
  | [] => []
  | v :: r => if v_end v <? b then adv b r else P
  end.

Lemma adv_Forall (Q : value -> Prop) b P : Forall Q P -> Forall Q (adv b P).
Proof.
  induction 1 as [|v r Hv Hr IH]; cbn [adv]; [constructor|]. destruct (v_end v <? b); [exact IH|]. constructor; assumption.
Qed.

Lemma sorted_ok_items lo cs P : sorted_from lo P -> cs <= lo -> ok_items cs P.
Proof. intros Hs Hl. apply ok_items_of_sorted. eapply sorted_from_weaken; eauto. Qed.

Lemma adv_ok cs b P : ok_items cs P -> ok_items b (adv b P).
Proof.
  assert (G : forall lo P, sorted_from lo P -> ok_items b (adv b P)).
  { clear. intros lo P. revert lo. induction P as [|v r IH]; intros lo Hs; [exact I|].
    cbn [sorted_from] in Hs. destruct Hs as [H1 [H2 H3]]. cbn [adv].
    destruct (N.ltb_spec (v_end v) b); [apply (IH _ H3)|]. cbn [ok_items]. repeat split; try lia. exact H3. }
  destruct P as [|v r]; [intros; exact I|]. cbn [ok_items adv]. intros [H1 [H2 H3]].
  destruct (N.ltb_spec (v_end v) b); [apply (G _ _ H3)|]. cbn [ok_items]. repeat split; try lia. exact H3.
Qed.

Lemma adv_sigz b P x : b <= x -> sigz (adv b P) x = sigz P x.
Proof.
  intros Hx. induction P as [|v r IH]; [reflexivity|]. cbn [adv].
  destruct (N.ltb_spec (v_end v) b); [|reflexivity]. cbn [sigz]. rewrite inb_false by lia. rewrite IH. lia.
Qed.

(* a pending list whose first value starts at or after [b] has no signal below [b] *)
Lemma ok_items_sigz_before v r x : v_start v < v_end v -> sorted_from (v_end v) r -> x < v_start v -> sigz (v :: r) x = 0%Z.
Proof.
  intros H1 H2 Hx. cbn [sigz]. rewrite inb_false by lia. rewrite (sorted_from_below _ _ _ H2) by lia. reflexivity.
Qed.

(* ------------------------------------------------------------------ 'section loop *)
Definition is_nil {X} (l : list X) : bool := match l with [] => true | _ => false end.
Definition canon (P : list value) : stream_st := match P with [] => ([], None) | v :: r => (map IV r, Some v) end.
Lemma pend_canon P : pend_of (canon P) = map IV P.
Proof. destruct P; reflexivity. Qed.

Lemma sec_loop_ok W cs : 0 < W -> forall P f data mdl touched,
  ok_items cs P -> tab f cs data -> length data = N.to_nat W -> mdl <= W ->
  exists data' mdl',
    sec_loop W cs (map IV P) data mdl touched =
      SecOk data' mdl' (touched || negb (is_nil P)) (fst (canon (adv (cs + W) P))) (snd (canon (adv (cs + W) P))) /\
    tab (fun y => (f y + sigz P y)%Z) cs data' /\ length data' = N.to_nat W /\
    mdl <= mdl' <= W /\
    (forall x, cs + mdl' <= x < cs + W -> sigz P x = 0%Z).
Proof.
  intros HW. induction P as [|v r IH]; intros f data mdl touched Hok Ht Hlen Hm.
  - exists data, mdl. cbn [map sec_loop adv canon fst snd is_nil negb]. rewrite orb_false_r.
    split; [reflexivity|]. split; [|split; [exact Hlen|split; [lia|reflexivity]]].
    eapply tab_ext; [|exact Ht]. intros y _. cbn [sigz]. lia.
  - cbn [ok_items] in Hok. destruct Hok as [Hv1 [Hv2 Hv3]].
    cbn [map sec_loop is_nil negb]. rewrite orb_true_r. cbv zeta.
    destruct (N.leb_spec W (N.max cs (v_start v) - cs)) as [Hfar|Hnear].
    + (* begins after the window: carried *)
      exists data, mdl. cbn [adv]. rewrite (proj2 (N.ltb_ge (v_end v) (cs + W))) by lia. cbn [canon fst snd].
      split; [reflexivity|]. split; [|split; [exact Hlen|split; [lia|]]].
      * eapply tab_ext; [|exact Ht]. intros y Hy. rewrite (ok_items_sigz_before v r y) by (auto; lia). lia.
      * intros x Hx. apply ok_items_sigz_before; auto; lia.
    + rewrite (proj2 (N.ltb_ge (v_end v) cs)) by lia.
      rewrite (proj2 (N.ltb_ge (N.min W (v_end v - cs)) (N.max cs (v_start v) - cs))) by lia.
      set (ds := N.max cs (v_start v) - cs). set (de := N.min W (v_end v - cs)).
      pose proof (add_range_tab f (v_val v) data cs (N.to_nat ds) (N.to_nat de) Ht) as Ht'.
      assert (Hlen' : length (add_range (N.to_nat ds) (N.to_nat de) (v_val v) data) = N.to_nat W)
        by (rewrite add_range_length; exact Hlen).
      assert (Htab1 : tab (fun y => (f y + sigz [v] y)%Z) cs (add_range (N.to_nat ds) (N.to_nat de) (v_val v) data)).
      { eapply tab_ext; [|exact Ht']. intros y Hy. rewrite Hlen' in Hy. cbv beta. cbn [sigz]. unfold inb. f_equal.
        replace ((cs + N.of_nat (N.to_nat ds) <=? y) && (y <? cs + N.of_nat (N.to_nat de)))
          with ((v_start v <=? y) && (y <? v_end v)); [lia|].
        unfold ds, de.
        destruct (N.leb_spec (v_start v) y), (N.ltb_spec y (v_end v)),
                 (N.leb_spec (cs + N.of_nat (N.to_nat (N.max cs (v_start v) - cs))) y),
                 (N.ltb_spec y (cs + N.of_nat (N.to_nat (N.min W (v_end v - cs))))); try reflexivity; exfalso; lia. }
      destruct (N.leb_spec W (v_end v - cs)) as [Hlong|Hshort].
      * (* reaches the window's end: carried *)
        eexists _, _. cbn [adv]. rewrite (proj2 (N.ltb_ge (v_end v) (cs + W))) by lia. cbn [canon fst snd].
        split; [reflexivity|]. split; [|split; [exact Hlen'|split; [lia|]]].
        -- eapply tab_ext; [|exact Htab1]. intros y Hy. rewrite Hlen' in Hy. cbv beta. cbn [sigz].
           rewrite (sorted_from_below _ _ _ Hv3) by lia. lia.
        -- intros x Hx. exfalso. unfold de in Hx. lia.
      * (* ends inside the window: next value of this stream *)
        assert (Hokr : ok_items cs r).
        { destruct r as [|w r']; [exact I|]. cbn [sorted_from] in Hv3. cbn [ok_items]. destruct Hv3 as [Ha [Hb Hc]].
          repeat split; try lia. exact Hc. }
        destruct (IH _ _ (N.max mdl de) true Hokr Htab1 Hlen') as [data' [mdl' [E [T [L [M Z]]]]]]; [unfold de; lia|].
        exists data', mdl'. cbn [adv]. rewrite (proj2 (N.ltb_lt (v_end v) (cs + W))) by lia.
        rewrite E. cbn [orb]. split; [reflexivity|]. split; [|split; [exact L|split; [lia|]]].
        -- eapply tab_ext; [|exact T]. intros y Hy. cbv beta. cbn [sigz]. lia.
        -- intros x Hx. cbn [sigz]. rewrite (Z x Hx). rewrite inb_false; [reflexivity|]. right. unfold de in M. lia.
Qed.

(* ------------------------------------------------------------------ 'sections loop: all streams *)
Definition st_rel (s : stream_st) (P : list value) : Prop := pend_of s = map IV P.
Definition nonnil (P : list value) : bool := negb (is_nil P).
Definition adv_all (b : N) (Ps : list (list value)) : list (list value) := map (adv b) Ps.

Lemma secs_loop_ok W cs : 0 < W -> forall secs Ps, Forall2 st_rel secs Ps -> forall f data mdl touched,
  Forall (ok_items cs) Ps -> tab f cs data -> length data = N.to_nat W -> mdl <= W ->
  exists data' mdl',
    secs_loop W cs secs data mdl touched =
      WinOk data' mdl' (touched || existsb nonnil Ps) (map canon (adv_all (cs + W) Ps)) /\
    tab (fun y => (f y + ssumz Ps y)%Z) cs data' /\ length data' = N.to_nat W /\
    mdl <= mdl' <= W /\
    (forall x, cs + mdl' <= x < cs + W -> ssumz Ps x = 0%Z).
Proof.
  intros HW secs Ps HR. induction HR as [|s P secs Ps Hs HR IH]; intros f data mdl touched Hok Ht Hlen Hm.
  - exists data, mdl. cbn [secs_loop existsb adv_all map]. rewrite orb_false_r. split; [reflexivity|].
    split; [|split; [exact Hlen|split; [lia|reflexivity]]].
    eapply tab_ext; [|exact Ht]. intros y _. cbn [ssumz]. lia.
  - inversion Hok as [|? ? HokP HokPs]; subst.
    destruct (sec_loop_ok W cs HW P f data mdl touched HokP Ht Hlen Hm) as [d1 [m1 [E1 [T1 [L1 [M1 Z1]]]]]].
    assert (Hm1 : m1 <= W) by lia.
    destruct (IH _ d1 m1 (touched || negb (is_nil P)) HokPs T1 L1 Hm1) as [d2 [m2 [E2 [T2 [L2 [M2 Z2]]]]]].
    exists d2, m2. cbn [secs_loop]. unfold st_rel in Hs. rewrite Hs, E1, E2.
    cbn [existsb adv_all map]. fold (adv_all (cs + W) Ps). unfold nonnil at 2. rewrite orb_assoc.
    destruct (canon (adv (cs + W) P)) as [a b] eqn:Ec. cbn [fst snd].
    split; [reflexivity|]. split; [|split; [exact L2|split; [lia|]]].
    + eapply tab_ext; [|exact T2]. intros y _. cbn [ssumz]. lia.
    + intros x Hx. cbn [ssumz]. rewrite Z1, Z2 by lia. reflexivity.
Qed.

(* ------------------------------------------------------------------ run-length re-encoding *)
Definition nzv (v : value) : Prop := v_val v <> 0%Z.

Ltac cmp_cases :=
  repeat match goal with
         | |- context [N.leb ?a ?b] => destruct (N.leb_spec a b)
         | |- context [N.ltb ?a ?b] => destruct (N.ltb_spec a b)
         end; cbn [andb orb].

Lemma push_run_sigz s e x y : sigz (push_run s e x) y = if (s <=? y) && (y <? e) then x else 0%Z.
Proof.
  unfold push_run. destruct (isz x) eqn:E.
  - apply isz_true_iff in E. subst x. cbn [sigz]. destruct ((s <=? y) && (y <? e)); reflexivity.
  - cbn [sigz]. unfold inb. cbn [v_start v_end v_val]. destruct ((s <=? y) && (y <? e)); lia.
Qed.
Lemma push_run_nz s e x : Forall nzv (push_run s e x).
Proof.
  unfold push_run. destruct (isz x) eqn:E; [constructor|]. constructor; [|constructor].
  apply isz_false_iff in E. exact E.
Qed.
Lemma push_run_sorted s e x R : s < e -> sorted_from e R -> sorted_from s (push_run s e x ++ R).
Proof.
  intros Hse HR. unfold push_run. destruct (isz x); cbn [app].
  - eapply sorted_from_weaken; [|exact HR]. lia.
  - cbn [sorted_from v_start v_end]. repeat split; try lia. exact HR.
Qed.
Lemma push_run_ends s e x hi : e <= hi -> Forall (fun v => v_end v <= hi) (push_run s e x).
Proof. intros H. unfold push_run. destruct (isz x); repeat constructor. cbn [v_end]. exact H. Qed.

Definition cur_lo (pos : N) (cur : option (N * N * Z)) : N := match cur with Some (s, _, _) => s | None => pos end.
Definition cur_sig (cur : option (N * N * Z)) (y : N) : Z :=
  match cur with Some (s, e, x) => if (s <=? y) && (y <? e) then x else 0%Z | None => 0%Z end.
Definition cur_ok (pos : N) (cur : option (N * N * Z)) : Prop :=
  match cur with Some (s, e, _) => s < e /\ e = pos | None => True end.

Lemma rle_go_ok f data : forall pos cur, tab f pos data -> cur_ok pos cur ->
  sorted_from (cur_lo pos cur) (rle_go pos data cur) /\
  Forall (fun v => v_end v <= pos + N.of_nat (length data)) (rle_go pos data cur) /\
  Forall nzv (rle_go pos data cur) /\
  forall y, sigz (rle_go pos data cur) y =
            (cur_sig cur y + (if ((pos <=? y) && (y <? pos + N.of_nat (length data)))%N then f y else 0))%Z.
Proof.
  induction data as [|i r IH]; intros pos cur Ht Hc.
  - cbn [rle_go length]. destruct cur as [[[s e] x]|]; cbn [cur_lo cur_sig cur_ok] in *.
    + destruct Hc as [Hse He]. split; [|split; [|split]].
      * rewrite <- (app_nil_r (push_run s e x)). apply push_run_sorted; [exact Hse|exact I].
      * apply push_run_ends. lia.
      * apply push_run_nz.
      * intros y. rewrite push_run_sigz. cmp_cases; try lia; exfalso; lia.
    + split; [exact I|]. split; [constructor|]. split; [constructor|]. intros y. cbn [sigz]. cmp_cases; try lia; exfalso; lia.
  - cbn [tab] in Ht. destruct Ht as [Hi Hr]. cbn [rle_go length].
    destruct cur as [[[s e] x]|]; cbn [cur_lo cur_sig cur_ok] in *.
    + destruct Hc as [Hse He]. destruct (Z.eqb_spec x i) as [Hxi|Hxi].
      * destruct (IH (pos + 1) (Some (s, e + 1, x)) Hr) as [S1 [E1 [Z1 G1]]]; [cbn [cur_ok]; lia|].
        cbn [cur_lo cur_sig] in *. split; [exact S1|]. split; [|split; [exact Z1|]].
        -- eapply Forall_impl; [|exact E1]. cbn beta. intros a Ha. lia.
        -- intros y. rewrite G1. cmp_cases; try lia; try (exfalso; lia). replace y with pos by lia. lia.
      * destruct (IH (pos + 1) (Some (pos, pos + 1, i)) Hr) as [S1 [E1 [Z1 G1]]]; [cbn [cur_ok]; lia|].
        cbn [cur_lo cur_sig] in *. split; [|split; [|split]].
        -- apply push_run_sorted; [exact Hse|]. subst e. exact S1.
        -- apply Forall_app. split; [apply push_run_ends; lia|].
           eapply Forall_impl; [|exact E1]. cbn beta. intros a Ha. lia.
        -- apply Forall_app. split; [apply push_run_nz|exact Z1].
        -- intros y. rewrite sigz_app, push_run_sigz, G1. cmp_cases; try lia; try (exfalso; lia). replace y with pos by lia. lia.
    + destruct (IH (pos + 1) (Some (pos, pos + 1, i)) Hr) as [S1 [E1 [Z1 G1]]]; [cbn [cur_ok]; lia|].
      cbn [cur_lo cur_sig] in *. split; [exact S1|]. split; [|split; [exact Z1|]].
      * eapply Forall_impl; [|exact E1]. cbn beta. intros a Ha. lia.
      * intros y. rewrite G1. cmp_cases; try lia; try (exfalso; lia). replace y with pos by lia. lia.
Qed.

(* ------------------------------------------------------------------ one window *)
(* the signal still to be delivered by the streams from position [cs] on *)
Definition fut (cs : N) (Ps : list (list value)) (x : N) : Z := if cs <=? x then ssumz Ps x else 0%Z.

Lemma adv_all_ssumz b Ps x : b <= x -> ssumz (adv_all b Ps) x = ssumz Ps x.
Proof.
  intros Hx. induction Ps as [|P r IH]; [reflexivity|]. cbn [adv_all map ssumz]. fold (adv_all b r).
  rewrite IH, adv_sigz by exact Hx. reflexivity.
Qed.
Lemma adv_all_rel b Ps : Forall2 st_rel (map canon (adv_all b Ps)) (adv_all b Ps).
Proof.
  induction Ps as [|P r IH]; cbn [adv_all map]; constructor; [apply pend_canon|exact IH].
Qed.
Lemma adv_all_ok cs b Ps : Forall (ok_items cs) Ps -> Forall (ok_items b) (adv_all b Ps).
Proof.
  induction 1 as [|P r HP Hr IH]; cbn [adv_all map]; constructor; [eapply adv_ok; exact HP|exact IH].
Qed.
Lemma adv_all_Forall (Q : value -> Prop) b Ps : Forall (Forall Q) Ps -> Forall (Forall Q) (adv_all b Ps).
Proof.
  induction 1 as [|P r HP Hr IH]; cbn [adv_all map]; constructor; [apply adv_Forall; exact HP|exact IH].
Qed.

Lemma window_ok W cs : 0 < W -> forall secs Ps mdl,
  Forall2 st_rel secs Ps -> Forall (ok_items cs) Ps -> mdl <= W ->
  exists data' mdl',
    secs_loop W cs secs (repeatN 0%Z (N.to_nat W)) mdl false =
      WinOk data' mdl' (existsb nonnil Ps) (map canon (adv_all (cs + W) Ps)) /\
    mdl' <= W /\
    sorted_from cs (rle_go cs (firstn (N.to_nat mdl') data') None) /\
    Forall (fun v => v_end v <= cs + W) (rle_go cs (firstn (N.to_nat mdl') data') None) /\
    Forall nzv (rle_go cs (firstn (N.to_nat mdl') data') None) /\
    forall x, fut cs Ps x = (sigz (rle_go cs (firstn (N.to_nat mdl') data') None) x + fut (cs + W) (adv_all (cs + W) Ps) x)%Z.
Proof.
  intros HW secs Ps mdl HR Hok Hm.
  destruct (secs_loop_ok W cs HW secs Ps HR (fun _ => 0%Z) (repeatN 0%Z (N.to_nat W)) mdl false Hok
              (tab_repeat cs _) (length_repeatN _ _) Hm) as [d [m [E [T [L [M Z]]]]]].
  exists d, m. cbn [orb] in E. split; [exact E|]. split; [lia|].
  assert (Hl : length (firstn (N.to_nat m) d) = N.to_nat m) by (rewrite firstn_length, L; lia).
  destruct (rle_go_ok _ _ cs None (tab_firstn _ (N.to_nat m) _ _ T) I) as [S1 [E1 [Z1 G1]]].
  cbn [cur_lo cur_sig] in *. rewrite Hl in *. split; [exact S1|]. split; [|split; [exact Z1|]].
  - eapply Forall_impl; [|exact E1]. cbn beta. intros a Ha. lia.
  - intros x. rewrite G1. unfold fut.
    destruct (N.leb_spec cs x) as [H1|H1], (N.leb_spec (cs + W) x) as [H2|H2]; try (exfalso; lia).
    + rewrite (proj2 (N.ltb_ge x (cs + N.of_nat (N.to_nat m)))) by lia. cbn [andb].
      rewrite adv_all_ssumz by exact H2. lia.
    + destruct (N.ltb_spec x (cs + N.of_nat (N.to_nat m))) as [H3|H3]; cbn [andb]; [lia|].
      rewrite Z by lia. lia.
    + cbn [andb]. lia.
Qed.
