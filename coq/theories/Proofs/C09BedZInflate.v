(* C09, bigBed, compressed files, part 3: the whole-file theorem with a REAL compressor and the Coq inflater; no
   hypothesis is left about compression: the bigBed writer model compressing every data and zoom block with
   [zlib_store] (the zlib "stored" encoder of Spec/Inflate.v) produces a file that the independent decoder,
   inflating each block range of the file with [zlib_decode] itself, decodes to exactly the expected content. *)
From BT Require Import Base.Util Base.LE Base.Float Generated.Consts Model.RTree Model.BBIFile Model.BigWigWrite Model.BigWigWriteZ
  Model.BigBedWrite Model.BigBedWriteZ Spec.FormatDecode Spec.Inflate Proofs.C09Base Proofs.C09Chrom Proofs.C09Data Proofs.ZoomBwLevels
  Proofs.C09BedFile Proofs.C09BedZoom Proofs.C09BedWhole Proofs.C09BedZWhole Proofs.InflateThms.
From BT Require Proofs.C09Whole.
Local Open Scope N_scope.

Theorem bb_decode_encode_zlib_stored fp o sizes autosql input bs :
  bb_write_z zlib_store fp o sizes autosql input = Ok bs -> bed_hyps o sizes input bs ->
  Forall (fun z => z < W32) (zoom_sizes_single o) -> o_sort_all o = true -> ubuf_fits_dec o input ->
  exists fc ids outs kept ubuf,
    bb_schema autosql = Ok (stored_autosql autosql, fc) /\ bb_collect o sizes input = Ok (ids, outs)
    /\ incl kept (zoom_sizes_single o) /\ inc_from 0 kept /\ Nlen kept <= 10
    /\ Forall (level_runs fp o outs) kept
    /\ (ubuf = 0 <-> o_compress o = false) /\ ubuf < W32
    /\ decode bs (zlib_inflate_at bs) = Some (bed_content_of_z fp o sizes input (stored_autosql autosql) fc ids outs ubuf kept).
Proof.
  intros H Hh Hu Hs Hfit.
  exact (bb_write_z_single_decodes zlib_store fp o sizes autosql input bs true (zlib_inflate_at bs) H Hh Hu (fun _ => Hs)
           zlib_store_nonempty (fun _ => zlib_inflate_at_ok bs) Hfit).
Qed.

Theorem bb_decode_encode_zlib_stored_multipass fp o sizes autosql input bs :
  bb_write_multipass_z zlib_store fp o sizes autosql input = Ok bs -> bed_hyps o sizes input bs ->
  C09Whole.manual_u32 o -> o_sort_all o = true -> ubuf_fits_dec o input ->
  exists fc ids outs kept ubuf,
    bb_schema autosql = Ok (stored_autosql autosql, fc) /\ bb_collect o sizes input = Ok (ids, outs)
    /\ inc_from 0 kept /\ Nlen kept <= 10
    /\ Forall (level_runs fp o outs) kept
    /\ (ubuf = 0 <-> o_compress o = false) /\ ubuf < W32
    /\ decode bs (zlib_inflate_at bs) = Some (bed_content_of_z fp o sizes input (stored_autosql autosql) fc ids outs ubuf kept).
Proof.
  intros H Hh Hu Hs Hfit.
  exact (bb_write_z_multipass_decodes zlib_store fp o sizes autosql input bs true (zlib_inflate_at bs) H Hh Hu (fun _ => Hs)
           zlib_store_nonempty (fun _ => zlib_inflate_at_ok bs) Hfit).
Qed.
