(* C03, history independence.  The caching reader of Model/CachedRead.v is a state machine; the
   invariant "every cached node / block equals a fresh read of its key" holds for the empty cache,
   is preserved by every step (including the step that clears the block map at CACHE_LIMIT entries)
   and by reopen, and under it every answer is the stateless reader's answer. *)
From BT Require Import Base.Util Base.LE Base.Float Generated.Consts Model.RTree Model.BBIFile Model.BigWigWrite
  Model.BBIRead Model.CachedRead.
Local Open Scope N_scope.

Section Inv.
Variable infl : list N -> list N.
Variable bs : list N.
Variable i : info.
Notation big := (h_big (i_hdr i)).

Definition cache_ok (c : cache) : Prop :=
  (forall off n, assocN off (c_nodes c) = Some n -> read_node big bs off = Ok n) /\
  (forall b d, assocB b (c_blocks c) = Some d -> block_data infl i bs b = Ok d).

Lemma cache0_ok : cache_ok cache0.
Proof. split; intros ? ? H; discriminate H. Qed.

Lemma reopen_ok c : cache_ok c -> cache_ok (c_reopen c).
Proof. intros [Hn Hb]. split; assumption. Qed.

Lemma block_eqb_eq (a b : block) : block_eqb a b = true -> a = b.
Proof.
  unfold block_eqb. intros H. apply andb_true_iff in H as [H1 H2].
  apply N.eqb_eq in H1, H2. destruct a, b. cbn [fst snd] in *. now subst.
Qed.

(* ---- one node read through the cache ---- *)
Lemma c_read_node_spec c off : cache_ok c ->
  fst (c_read_node big bs c off) = read_node big bs off /\ cache_ok (snd (c_read_node big bs c off)).
Proof.
  intros [Hn Hb]. unfold c_read_node. destruct (assocN off (c_nodes c)) as [n|] eqn:E.
  - cbn [fst snd]. split; [symmetry; apply Hn; exact E|split; assumption].
  - destruct (read_node big bs off) as [n|e| |] eqn:R; cbn [fst snd]; (split; [reflexivity|]);
      try (split; assumption).
    split; cbn [c_nodes c_blocks]; [|exact Hb].
    intros off' n' H. cbn [assocN] in H. destruct (off' =? off) eqn:E2.
    + apply N.eqb_eq in E2. subst off'. injection H as <-. exact R.
    + apply Hn. exact H.
Qed.

(* ---- one block read through the cache; the miss path may clear the map first ---- *)
Lemma c_block_data_spec c b : cache_ok c ->
  fst (c_block_data infl i bs c b) = block_data infl i bs b /\ cache_ok (snd (c_block_data infl i bs c b)).
Proof.
  intros [Hn Hb]. unfold c_block_data. destruct (assocB b (c_blocks c)) as [d|] eqn:E.
  - cbn [fst snd]. split; [symmetry; apply Hb; exact E|split; assumption].
  - set (c1 := if CACHE_LIMIT <=? Nlen (c_blocks c) then {| c_nodes := c_nodes c; c_blocks := [] |} else c).
    assert (Hc1 : cache_ok c1).
    { unfold c1. destruct (CACHE_LIMIT <=? Nlen (c_blocks c)).
      - split; cbn [c_nodes c_blocks]; [exact Hn|]. intros ? ? H. discriminate H.
      - split; assumption. }
    destruct Hc1 as [Hn1 Hb1].
    destruct (block_data infl i bs b) as [d|e| |] eqn:R; cbn [fst snd]; (split; [reflexivity|]);
      try (split; assumption).
    split; cbn [c_nodes c_blocks]; [exact Hn1|].
    intros b' d' H. cbn [assocB] in H. destruct (block_eqb b' b) eqn:E2.
    + apply block_eqb_eq in E2. subst b'. injection H as <-. exact R.
    + apply Hb1. exact H.
Qed.

(* ---- the index search ---- *)
Lemma c_search_loop_spec q qs qe : forall fuel c queue, cache_ok c ->
  fst (c_search_loop fuel big bs c queue q qs qe) = search_loop fuel big bs queue q qs qe
  /\ cache_ok (snd (c_search_loop fuel big bs c queue q qs qe)).
Proof.
  induction fuel as [|f IH]; intros c queue Hc.
  - cbn [c_search_loop search_loop fst snd]. auto.
  - destruct queue as [|off rest]; [cbn [c_search_loop search_loop fst snd]; auto|].
    cbn [c_search_loop search_loop].
    destruct (c_read_node_spec c off Hc) as [E1 Hc1].
    destruct (c_read_node big bs c off) as [r c1]. cbn [fst snd] in E1, Hc1. rewrite <- E1.
    destruct r as [[items|items]|e| |]; cbn [rbind fst snd]; auto.
    destruct (IH c1 rest Hc1) as [E2 Hc2].
    destruct (c_search_loop f big bs c1 rest q qs qe) as [r2 c2]. cbn [fst snd] in E2, Hc2. rewrite <- E2.
    destruct r2; cbn [rbind fst snd]; auto.
Qed.

Lemma c_search_blocks_spec c root chrom s e : cache_ok c ->
  fst (c_search_blocks i bs c root chrom s e) = search_blocks i bs root chrom s e
  /\ cache_ok (snd (c_search_blocks i bs c root chrom s e)).
Proof.
  intros Hc. unfold c_search_blocks, search_blocks, search_bytes.
  destruct (c_search_loop_spec chrom s e (S (length bs)) c [root] Hc) as [E Hc1].
  destruct (c_search_loop (S (length bs)) big bs c [root] chrom s e) as [r c1]. cbn [fst snd] in E, Hc1.
  rewrite <- E. destruct r; cbn [fst snd]; auto.
Qed.

(* ---- draining the blocks ---- *)
Lemma c_collect_with_spec {X} (dec : list N -> res (option (list X))) (f : block -> res (option (list X))) :
  (forall b, f b = rbind (block_data infl i bs b) dec) ->
  forall l c, cache_ok c ->
    fst (c_collect_with infl dec i bs c l) = collect_blocks f l /\ cache_ok (snd (c_collect_with infl dec i bs c l)).
Proof.
  intros Hf. induction l as [|b r IH]; intros c Hc; [cbn [c_collect_with collect_blocks fst snd]; auto|].
  cbn [c_collect_with collect_blocks]. rewrite Hf.
  destruct (c_block_data_spec c b Hc) as [E1 Hc1].
  destruct (c_block_data infl i bs c b) as [rd c1]. cbn [fst snd] in E1, Hc1. rewrite <- E1.
  destruct rd as [d|e| |]; cbn [rbind fst snd]; auto.
  destruct (dec d) as [a|e| |]; cbn [rbind fst snd]; auto.
  destruct (IH c1 Hc1) as [E2 Hc2].
  destruct (c_collect_with infl dec i bs c1 r) as [rr c2]. cbn [fst snd] in E2, Hc2. rewrite <- E2.
  destruct rr; cbn [rbind fst snd]; auto.
Qed.

Lemma block_values_split b chrom s e :
  block_values infl i bs b chrom s e = rbind (block_data infl i bs b) (fun d => block_values_of i d chrom s e).
Proof. reflexivity. Qed.
Lemma zoom_values_split b chrom s e :
  zoom_block_values infl i bs b chrom s e = rbind (block_data infl i bs b) (fun d => zoom_values_of i d chrom s e).
Proof. reflexivity. Qed.

(* ---- the three kinds of query ---- *)
Lemma c_bw_interval_spec c cn s e : cache_ok c ->
  fst (c_bw_interval infl bs i c cn s e) = bw_interval infl bs i cn s e
  /\ cache_ok (snd (c_bw_interval infl bs i c cn s e)).
Proof.
  intros Hc. unfold c_bw_interval, bw_interval.
  destruct (chrom_id i cn) as [chrom|x| |]; cbn [rbind fst snd]; auto.
  destruct (cir_tree_root big bs (h_full_index_off (i_hdr i))) as [root|x| |]; cbn [rbind fst snd]; auto.
  destruct (c_search_blocks_spec c root chrom s e Hc) as [E1 Hc1].
  destruct (c_search_blocks i bs c root chrom s e) as [rb c1]. cbn [fst snd] in E1, Hc1. rewrite <- E1.
  destruct rb as [blocks|x| |]; cbn [rbind fst snd]; auto.
  unfold c_collect.
  apply (c_collect_with_spec (fun d => block_values_of i d chrom s e) (fun b => block_values infl i bs b chrom s e));
    [intros b; apply block_values_split|exact Hc1].
Qed.

Lemma c_bw_values_spec c cn s e : cache_ok c ->
  fst (c_bw_values infl bs i c cn s e) = bw_values infl bs i cn s e
  /\ cache_ok (snd (c_bw_values infl bs i c cn s e)).
Proof.
  intros Hc. unfold c_bw_values, bw_values. destruct (e <? s); [cbn [fst snd]; auto|].
  destruct (c_bw_interval_spec c cn s e Hc) as [E1 Hc1].
  destruct (c_bw_interval infl bs i c cn s e) as [r c1]. cbn [fst snd] in E1, Hc1. rewrite <- E1.
  destruct r; cbn [rbind fst snd]; auto.
Qed.

Lemma c_zoom_interval_spec c cn s e lvl : cache_ok c ->
  fst (c_zoom_interval infl bs i c cn s e lvl) = zoom_interval infl bs i cn s e lvl
  /\ cache_ok (snd (c_zoom_interval infl bs i c cn s e lvl)).
Proof.
  intros Hc. unfold c_zoom_interval, zoom_interval.
  destruct (find (fun z => zh_res z =? lvl) (i_zooms i)) as [zh|]; [|cbn [fst snd]; auto].
  destruct (cir_tree_root big bs (zh_index zh)) as [root|x| |]; cbn [rbind fst snd]; auto.
  destruct (chrom_id i cn) as [chrom|x| |]; cbn [rbind fst snd]; auto.
  destruct (c_search_blocks_spec c root chrom s e Hc) as [E1 Hc1].
  destruct (c_search_blocks i bs c root chrom s e) as [rb c1]. cbn [fst snd] in E1, Hc1. rewrite <- E1.
  destruct rb as [blocks|x| |]; cbn [rbind fst snd]; auto.
  apply (c_collect_with_spec (fun d => zoom_values_of i d chrom s e) (fun b => zoom_block_values infl i bs b chrom s e));
    [intros b; apply zoom_values_split|exact Hc1].
Qed.

(* ---- the state machine ---- *)
Theorem qstep_spec c q : cache_ok c ->
  fst (qstep infl bs i c q) = fresh_answer infl bs i q /\ cache_ok (snd (qstep infl bs i c q)).
Proof.
  intros Hc. destruct q as [cn s e|cn s e|cn s e lvl]; cbn [qstep fresh_answer].
  - destruct (c_bw_interval_spec c cn s e Hc) as [E H]. destruct (c_bw_interval infl bs i c cn s e).
    cbn [fst snd] in *. now rewrite E.
  - destruct (c_bw_values_spec c cn s e Hc) as [E H]. destruct (c_bw_values infl bs i c cn s e).
    cbn [fst snd] in *. now rewrite E.
  - destruct (c_zoom_interval_spec c cn s e lvl Hc) as [E H]. destruct (c_zoom_interval infl bs i c cn s e lvl).
    cbn [fst snd] in *. now rewrite E.
Qed.

Theorem qrun_spec : forall qs c, cache_ok c ->
  fst (qrun infl bs i c qs) = map (fresh_answer infl bs i) qs /\ cache_ok (snd (qrun infl bs i c qs)).
Proof.
  induction qs as [|q r IH]; intros c Hc; [cbn [qrun map fst snd]; auto|].
  cbn [qrun map]. destruct (qstep_spec c q Hc) as [E1 Hc1].
  destruct (qstep infl bs i c q) as [a c1]. cbn [fst snd] in E1, Hc1.
  destruct (IH c1 Hc1) as [E2 Hc2]. destruct (qrun infl bs i c1 r) as [rest c2]. cbn [fst snd] in *.
  now rewrite E1, E2.
Qed.

(* every answer of a history through a fresh caching reader, and every answer of a second history
   through a reader reopened from it afterwards, is the stateless answer *)
Theorem history_independent qs1 qs2 :
  fst (qrun infl bs i cache0 qs1) = map (fresh_answer infl bs i) qs1
  /\ fst (qrun infl bs i (c_reopen (snd (qrun infl bs i cache0 qs1))) qs2) = map (fresh_answer infl bs i) qs2.
Proof.
  destruct (qrun_spec qs1 cache0 cache0_ok) as [E1 Hc1]. split; [exact E1|].
  apply qrun_spec. apply reopen_ok. exact Hc1.
Qed.

(* the interval-only history function of Model/CachedRead.v *)
Theorem c_history_spec : forall qs c, cache_ok c ->
  c_history infl bs i c qs = map (fun q => let '(cn, s, e) := q in bw_interval infl bs i cn s e) qs.
Proof.
  induction qs as [|[[cn s] e] r IH]; intros c Hc; [reflexivity|].
  cbn [c_history map]. destruct (c_bw_interval_spec c cn s e Hc) as [E1 Hc1].
  destruct (c_bw_interval infl bs i c cn s e) as [a c1]. cbn [fst snd] in E1, Hc1.
  rewrite E1, (IH c1 Hc1). reflexivity.
Qed.

(* ---- the association lists are maps: no key twice, and the block map never exceeds the limit ---- *)
Definition cache_small (c : cache) : Prop :=
  NoDup (map fst (c_nodes c)) /\ NoDup (map fst (c_blocks c)) /\ Nlen (c_blocks c) <= CACHE_LIMIT.

Lemma assocN_none_notin {V} k (l : list (N * V)) : assocN k l = None -> ~ In k (map fst l).
Proof.
  induction l as [|[k' v] l IH]; intros H; [intros []|]. cbn [assocN] in H. cbn [map fst In].
  destruct (k =? k') eqn:E; [discriminate|]. apply N.eqb_neq in E. intros [H1|H1]; [congruence|].
  exact (IH H H1).
Qed.
Lemma assocB_none_notin {V} k (l : list (block * V)) : assocB k l = None -> ~ In k (map fst l).
Proof.
  induction l as [|[k' v] l IH]; intros H; [intros []|]. cbn [assocB] in H. cbn [map fst In].
  destruct (block_eqb k k') eqn:E; [discriminate|]. intros [H1|H1].
  - subst k'. unfold block_eqb in E. rewrite !N.eqb_refl in E. discriminate.
  - exact (IH H H1).
Qed.

Lemma c_read_node_small c off : cache_small c -> cache_small (snd (c_read_node big bs c off)).
Proof.
  intros (H1 & H2 & H3). unfold c_read_node. destruct (assocN off (c_nodes c)) eqn:E; [repeat split; assumption|].
  destruct (read_node big bs off); cbn [snd]; try (repeat split; assumption).
  repeat split; cbn [c_nodes c_blocks map fst]; try assumption.
  constructor; [apply assocN_none_notin; exact E|exact H1].
Qed.
Lemma c_block_data_small c b : 0 < CACHE_LIMIT -> cache_small c -> cache_small (snd (c_block_data infl i bs c b)).
Proof.
  intros HL (H1 & H2 & H3). unfold c_block_data. destruct (assocB b (c_blocks c)) eqn:E; [repeat split; assumption|].
  destruct (CACHE_LIMIT <=? Nlen (c_blocks c)) eqn:EL.
  - destruct (block_data infl i bs b); cbn [snd]; (split; [|split]); cbn [c_nodes c_blocks map fst]; try exact H1.
    + constructor; [intros []|constructor].
    + unfold Nlen. cbn [length]. lia.
    + constructor.
    + unfold Nlen. cbn [length]. lia.
    + constructor.
    + unfold Nlen. cbn [length]. lia.
    + constructor.
    + unfold Nlen. cbn [length]. lia.
  - apply N.leb_gt in EL.
    destruct (block_data infl i bs b); cbn [snd]; try (repeat split; assumption).
    repeat split; cbn [c_nodes c_blocks map fst]; try assumption.
    + constructor; [apply assocB_none_notin; exact E|exact H2].
    + unfold Nlen in *. cbn [length]. lia.
Qed.

(* ... for every reachable cache *)
Hypothesis HL : 0 < CACHE_LIMIT.

Lemma cache0_small : cache_small cache0.
Proof. repeat split; cbn [cache0 c_nodes c_blocks map]; try constructor. unfold Nlen. cbn [length]. lia. Qed.
Lemma reopen_small c : cache_small c -> cache_small (c_reopen c).
Proof. intros H. exact H. Qed.

Lemma c_search_loop_small q qs qe : forall fuel c queue, cache_small c ->
  cache_small (snd (c_search_loop fuel big bs c queue q qs qe)).
Proof.
  induction fuel as [|f IH]; intros c queue Hc; [exact Hc|].
  destruct queue as [|off rest]; [exact Hc|]. cbn [c_search_loop].
  pose proof (c_read_node_small c off Hc) as Hc1.
  destruct (c_read_node big bs c off) as [r c1]. cbn [snd] in Hc1.
  destruct r as [[items|items]|e| |]; cbn [snd]; auto.
  specialize (IH c1 rest Hc1). destruct (c_search_loop f big bs c1 rest q qs qe) as [r2 c2]. cbn [snd] in IH.
  destruct r2; exact IH.
Qed.
Lemma c_search_blocks_small c root chrom s e : cache_small c -> cache_small (snd (c_search_blocks i bs c root chrom s e)).
Proof.
  intros Hc. unfold c_search_blocks. pose proof (c_search_loop_small chrom s e (S (length bs)) c [root] Hc) as H.
  destruct (c_search_loop (S (length bs)) big bs c [root] chrom s e) as [r c1]. destruct r; exact H.
Qed.
Lemma c_collect_with_small {X} (dec : list N -> res (option (list X))) : forall l c, cache_small c ->
  cache_small (snd (c_collect_with infl dec i bs c l)).
Proof.
  induction l as [|b r IH]; intros c Hc; [exact Hc|]. cbn [c_collect_with].
  pose proof (c_block_data_small c b HL Hc) as Hc1.
  destruct (c_block_data infl i bs c b) as [rd c1]. cbn [snd] in Hc1.
  destruct rd as [d|e| |]; cbn [snd]; auto.
  destruct (dec d) as [a|e| |]; cbn [snd]; auto.
  specialize (IH c1 Hc1). destruct (c_collect_with infl dec i bs c1 r) as [rr c2]. destruct rr; exact IH.
Qed.
Lemma c_bw_interval_small c cn s e : cache_small c -> cache_small (snd (c_bw_interval infl bs i c cn s e)).
Proof.
  intros Hc. unfold c_bw_interval. destruct (chrom_id i cn); cbn [snd]; auto.
  destruct (cir_tree_root big bs (h_full_index_off (i_hdr i))); cbn [snd]; auto.
  pose proof (c_search_blocks_small c x0 x s e Hc) as Hc1.
  destruct (c_search_blocks i bs c x0 x s e) as [rb c1]. cbn [snd] in Hc1.
  destruct rb; cbn [snd]; auto. apply c_collect_with_small. exact Hc1.
Qed.
Lemma c_bw_values_small c cn s e : cache_small c -> cache_small (snd (c_bw_values infl bs i c cn s e)).
Proof.
  intros Hc. unfold c_bw_values. destruct (e <? s); [exact Hc|].
  pose proof (c_bw_interval_small c cn s e Hc) as H. destruct (c_bw_interval infl bs i c cn s e) as [r c1].
  destruct r; exact H.
Qed.
Lemma c_zoom_interval_small c cn s e lvl : cache_small c -> cache_small (snd (c_zoom_interval infl bs i c cn s e lvl)).
Proof.
  intros Hc. unfold c_zoom_interval. destruct (find (fun z => zh_res z =? lvl) (i_zooms i)) as [zh|]; [|exact Hc].
  destruct (cir_tree_root big bs (zh_index zh)); cbn [snd]; auto.
  destruct (chrom_id i cn); cbn [snd]; auto.
  pose proof (c_search_blocks_small c x x0 s e Hc) as Hc1.
  destruct (c_search_blocks i bs c x x0 s e) as [rb c1]. cbn [snd] in Hc1.
  destruct rb; cbn [snd]; auto. apply c_collect_with_small. exact Hc1.
Qed.
Theorem qstep_small c q : cache_small c -> cache_small (snd (qstep infl bs i c q)).
Proof.
  intros Hc. destruct q as [cn s e|cn s e|cn s e lvl]; cbn [qstep].
  - pose proof (c_bw_interval_small c cn s e Hc) as H. destruct (c_bw_interval infl bs i c cn s e). exact H.
  - pose proof (c_bw_values_small c cn s e Hc) as H. destruct (c_bw_values infl bs i c cn s e). exact H.
  - pose proof (c_zoom_interval_small c cn s e lvl Hc) as H. destruct (c_zoom_interval infl bs i c cn s e lvl). exact H.
Qed.
Theorem qrun_small : forall qs c, cache_small c -> cache_small (snd (qrun infl bs i c qs)).
Proof.
  induction qs as [|q r IH]; intros c Hc; [exact Hc|]. cbn [qrun].
  pose proof (qstep_small c q Hc) as Hc1. destruct (qstep infl bs i c q) as [a c1]. cbn [snd] in Hc1.
  specialize (IH c1 Hc1). destruct (qrun infl bs i c1 r) as [rest c2]. exact IH.
Qed.
(* after any history, and after reopening and any second history *)
Theorem reachable_small qs1 qs2 :
  cache_small (snd (qrun infl bs i cache0 qs1))
  /\ cache_small (snd (qrun infl bs i (c_reopen (snd (qrun infl bs i cache0 qs1))) qs2)).
Proof.
  pose proof (qrun_small qs1 cache0 cache0_small) as H1. split; [exact H1|].
  apply qrun_small. apply reopen_small. exact H1.
Qed.
End Inv.
