(* C18, the consequence, part 4: the chunker's pieces, read through views, are what C17's model of
   bigwigaverageoverbed -t N (Model/BedStats.v: avg_parallel over byte chunks) is given, and they meet
   the hypothesis of C17_chunked_eq_serial / C17_chunking_irrelevant.  C17 keeps its own structural
   copy of split_lines; it is the same function as Model/Chunker.v's. *)
From BT Require Import Base.Util Base.Float Model.RTree Model.BBIFile Model.BigWigWrite Model.BBIRead
  Model.BedStats Proofs.BedStatsRows.
From BT Require Model.FileView Model.Chunker Proofs.SliceStreams.
Local Open Scope N_scope.

Lemma split_lines_acc_struct : forall p acc,
  Chunker.split_lines_acc p acc =
  match BedStats.split_lines p with
  | [] => match acc with [] => [] | _ => [rev acc] end
  | l :: ls => (rev acc ++ l) :: ls
  end.
Proof.
  induction p as [|x r IH]; intros acc; [reflexivity|].
  cbn [Chunker.split_lines_acc BedStats.split_lines].
  unfold Chunker.NL, BedStats.NL. destruct (x =? 10).
  - rewrite (IH []). cbn [rev app]. destruct (BedStats.split_lines r); reflexivity.
  - rewrite IH. destruct (BedStats.split_lines r) as [|l ls]; cbn [rev].
    + reflexivity.
    + rewrite <- app_assoc. reflexivity.
Qed.

Lemma split_lines_same : forall p, Chunker.split_lines p = BedStats.split_lines p.
Proof.
  intros p. unfold Chunker.split_lines. rewrite split_lines_acc_struct.
  destruct (BedStats.split_lines p); reflexivity.
Qed.

Lemma chunks_feed_avg : forall fp q m minmax (file : list N) (n : N) (cs : list (N * N))
    (sz : nat -> nat -> N) (fuel : nat),
  Chunker.split_file_into_chunks_by_size file n = Ok cs ->
  Nlen file < 2 ^ 63 -> (forall i k, 1 <= sz i k) -> (length file < fuel)%nat ->
  let pieces := map (fun ab => FileView.range file (fst ab) (snd ab)) cs in
  concat pieces = file /\ cuts_at_lines pieces /\
  Chunker.chunk_streams fuel file sz cs = map (fun c => Ok (BedStats.split_lines c)) pieces /\
  avg_parallel fp q m minmax pieces = avg_chunk fp q m minmax file /\
  (forall out, avg_serial fp q m minmax file = Ok out -> avg_parallel fp q m minmax pieces = Ok out).
Proof.
  intros fp q m minmax file n cs sz fuel H Hlen Hsz Hfuel pieces.
  destruct (SliceStreams.chunks_cut_at_lines file n cs H) as [Hcat Hcut].
  fold pieces in Hcat, Hcut.
  assert (Hc : cuts_at_lines pieces) by exact Hcut.
  destruct (SliceStreams.chunk_stream_eq_serial file n cs sz fuel H Hlen Hsz Hfuel) as (st & Hst & -> & _).
  split; [exact Hcat|]. split; [exact Hc|]. split; [|split].
  - rewrite Hst. unfold pieces. rewrite !map_map. apply map_ext. intros ab.
    rewrite split_lines_same. reflexivity.
  - rewrite (chunking_irrelevant fp q m minmax pieces Hc), Hcat. reflexivity.
  - intros out Hs. apply chunked_eq_serial; [exact Hc|]. rewrite Hcat. exact Hs.
Qed.
