(* C14: what the READERS answer on the destination at a crash point that includes the header
   operation.  Such an image X agrees with the finished file F everywhere but in the total-summary
   slot and the section count ([304,352)) and in the closing magic; the header, the zoom
   directory, the chromosome tree, the index and the data sections are in place.  Following the
   whole-file round trip of C01 (Proofs/BigWigFileRoundTrip.v, whose hypothesis [assembled] also
   fixes the summary, the count and the closing magic and therefore holds of F only), the same
   steps are redone here for any image that holds those regions: read_info returns the same
   header, zoom directory and chromosome table on X and on F, and every range query on a
   chromosome with data returns, on X as on F, exactly the accepted values that overlap it. *)
From Coq Require Import Sorting.Sorted.
From BT Require Import Base.Util Base.LE Base.Float Generated.Consts Model.RTree Model.BBIFile
  Model.BigWigWrite Model.BBIRead Proofs.Chunks Proofs.BigWigQuery Proofs.RTreeAbs Proofs.RTreeBuild
  Proofs.RTreeCodec Proofs.RTreeShape Proofs.RTreeLayout Proofs.FileRegions Proofs.BigWigFile
  Proofs.BigWigFileChroms Proofs.BigWigFileData Proofs.BigWigFileRoundTrip Proofs.BigWigFileThms.
From BT Require Proofs.SinkBytes.
Local Open Scope N_scope.

(* ---- agreement of a crash-point image with the finished file ---- *)
Definition agrees (X F : list N) : Prop :=
  (length F <= length X + 4 /\ length X <= length F)%nat
  /\ forall i, (i + 4 < length F)%nat -> ~ (304 <= i < 352)%nat -> nth i X 0 = nth i F 0.

Lemma agrees_refl F : agrees F F.
Proof. split; [lia|reflexivity]. Qed.

Lemma has_at_transfer X F off x : has_at F off x ->
  (N.to_nat off + length x <= length X)%nat ->
  (forall i, (N.to_nat off <= i < N.to_nat off + length x)%nat -> nth i X 0 = nth i F 0) -> has_at X off x.
Proof.
  intros [A [B [E L]]] Hlen Hn.
  exists (firstn (N.to_nat off) X), (skipn (N.to_nat off + length x) X). split.
  - rewrite <- (firstn_skipn (N.to_nat off) X) at 1. f_equal.
    rewrite <- (firstn_skipn (length x) (skipn (N.to_nat off) X)) at 1. rewrite <- skipn_add. f_equal.
    apply (nth_ext _ _ 0 0).
    + rewrite firstn_length, skipn_length. lia.
    + intros k Hk. rewrite firstn_length, skipn_length in Hk.
      rewrite SinkBytes.nth_firstn_lt by lia. rewrite SinkBytes.nth_skipn_add.
      rewrite Hn by lia. rewrite E. rewrite app_nth2 by lia. rewrite L.
      replace (N.to_nat off + k - N.to_nat off)%nat with k by lia. rewrite app_nth1 by lia. reflexivity.
  - rewrite firstn_length. lia.
Qed.

Lemma agrees_transfer X F off x : agrees X F -> (308 <= length F)%nat -> has_at F off x ->
  (off + Nlen x <= 304 \/ (352 <= off /\ (N.to_nat off + length x + 4 <= length F)%nat)) -> has_at X off x.
Proof.
  intros [[Hl1 Hl2] Hn] H308 H Hr. pose proof (has_at_bound _ _ _ H) as Hb. unfold Nlen in *.
  apply (has_at_transfer X F off x H).
  - destruct Hr as [Hr|[Hr1 Hr2]]; lia.
  - intros i Hi. apply Hn; destruct Hr as [Hr|[Hr1 Hr2]]; lia.
Qed.

(* ---- reading the zoom directory is a function of its bytes ---- *)
Lemma read_zoom_headers_region : forall n bs d off, has_at bs off d -> length d = (24 * n)%nat ->
  read_zoom_headers false bs off n = read_zoom_headers false d 0 n.
Proof.
  induction n as [|n IH]; intros bs d off H Hl; [reflexivity|].
  cbn [read_zoom_headers].
  rewrite (has_at_slice_prefix bs off d 24 H) by lia.
  rewrite (has_at_slice_prefix d 0 d 24 (has_at_whole d)) by lia. cbn [rdo rbind].
  assert (Hs : has_at bs (off + 24) (skipn 24 d)).
  { pose proof (has_at_sub bs off d 24 (length d - 24) H ltac:(lia)) as E.
    rewrite firstn_all2 in E by (rewrite skipn_length; lia). exact E. }
  assert (Hs0 : has_at d (0 + 24) (skipn 24 d)).
  { pose proof (has_at_sub d 0 d 24 (length d - 24) (has_at_whole d) ltac:(lia)) as E.
    rewrite firstn_all2 in E by (rewrite skipn_length; lia). exact E. }
  rewrite (IH bs (skipn 24 d) (off + 24) Hs) by (rewrite skipn_length; lia).
  rewrite (IH d (skipn 24 d) (0 + 24) Hs0) by (rewrite skipn_length; lia). reflexivity.
Qed.

Section Read.
Variables (fp : fpmode) (o : opts) (sizes : list (name * N)) (inp : list item).
Variables (ids : idmap) (outs : list chrom_out) (sum : summary) (data : list sdata).
Variables (zoom_part : N -> N -> res (list N * list zoom_header)) (dco : N -> N) (F : list N) (p : file_parts).
Hypothesis Hcol : bw_collect fp o sizes inp = Ok (ids, outs, sum, data).
Hypothesis HA : assembled o BIGWIG_MAGIC sizes ids sum data bw_pre 0 0 0 zoom_part dco F p.
Hypothesis Hnz : Nlen (fp_zhdrs p) <= 10.
Hypothesis Hopts : opts_ok o.
Hypothesis Hinp : input_ok sizes inp.
Hypothesis Hsize : Nlen F < U64.

Let names := map fst (runs inp).
Let ips := N.to_nat (o_ips o).
Let ds := Nlen (data_bytes data).
Let secs := place 352 (map psec (pieces_of ips outs)).
Let hdr := header_bytes BIGWIG_MAGIC (Nlen (fp_zhdrs p)) (352 + ds) 344 (352 + ds + Nlen (fp_ct p)) 0 0 0 304 0.
Let zdir := flat_map zoom_header_bytes (fp_zhdrs p).
Let the_header : header := written_header ds (Nlen (fp_ct p)) (Nlen (fp_zhdrs p)).
(* the zoom directory as the reader decodes it *)
Let the_zooms : list zoom_header :=
  match read_zoom_headers false zdir 0 (length (fp_zhdrs p)) with Ok z => z | _ => [] end.
Let the_info : info :=
  {| i_hdr := the_header; i_zooms := the_zooms; i_chroms := map (ci_of sizes) (number 0 names) |}.

(* what an image must hold for the readers *)
Record readable (bs : list N) : Prop := {
  rd_hdr : has_at bs 0 (hdr ++ zdir);
  rd_ct : has_at bs (352 + ds) (fp_ct p);
  rd_ix : has_at bs (352 + ds + Nlen (fp_ct p)) (fp_ix p);
  rd_placed : Forall2 (placed bs) secs (map psec (pieces_of ips outs));
  rd_len : Nlen bs < U64 }.

Lemma F_Nlen : Nlen F = 352 + ds + Nlen (fp_ct p) + Nlen (fp_ix p) + Nlen (fp_zbytes p) + 4.
Proof. pose proof (asm_Nlen _ _ _ _ _ _ _ _ _ _ _ _ _ _ HA) as H. cbv zeta in H. exact H. Qed.

Lemma data_is_pieces : data = map psec (pieces_of ips outs).
Proof. unfold ips. eapply core_data; eassumption. Qed.

Lemma F_readable : readable F.
Proof.
  constructor.
  - pose proof (asm_header _ _ _ _ _ _ _ _ _ _ _ _ _ _ HA) as H. cbv zeta in H. exact H.
  - pose proof (asm_ct _ _ _ _ _ _ _ _ _ _ _ _ _ _ HA) as H. cbv zeta in H. exact H.
  - pose proof (asm_ix _ _ _ _ _ _ _ _ _ _ _ _ _ _ HA) as H. cbv zeta in H. exact H.
  - pose proof (asm_placed _ _ _ _ _ _ _ _ _ _ _ _ _ _ HA) as H. cbv zeta in H.
    change (Nlen bw_pre) with 352 in H. rewrite data_is_pieces in H. exact H.
  - exact Hsize.
Qed.

Lemma hdr_zdir_len : Nlen (hdr ++ zdir) = 64 + 24 * Nlen (fp_zhdrs p).
Proof. unfold hdr, zdir, Nlen. rewrite app_length, header_bytes_length, zoom_dir_length. lia. Qed.

(* every image that agrees with F outside [304,352) and the closing magic is readable too *)
Lemma agrees_readable X : agrees X F -> readable X.
Proof.
  intros HX. pose proof F_readable as [H1 H2 H3 H4 H5]. pose proof F_Nlen as HN.
  pose proof (has_at_bound _ _ _ H2) as B2. pose proof (has_at_bound _ _ _ H3) as B3.
  assert (H308 : (308 <= length F)%nat) by (unfold Nlen in HN; lia).
  constructor.
  - apply (agrees_transfer X F _ _ HX H308 H1). left. rewrite hdr_zdir_len. lia.
  - apply (agrees_transfer X F _ _ HX H308 H2). right. unfold Nlen in *. lia.
  - apply (agrees_transfer X F _ _ HX H308 H3). right. unfold Nlen in *. lia.
  - (* the sections lie inside the data region *)
    pose proof (place_bounds (map psec (pieces_of ips outs)) 352) as Hb. fold secs in Hb.
    rewrite <- data_is_pieces in Hb. fold ds in Hb.
    clear -H4 Hb HX HN H308. induction H4 as [|s d l1 l2 Hsd _ IH]; [constructor|].
    inversion Hb as [|? ? [Hb1 Hb2] Hb']; subst. constructor; [|apply IH; exact Hb'].
    destruct Hsd as (Hh & Hsz & Hrest). split; [|split; [exact Hsz|exact Hrest]].
    apply (agrees_transfer X F _ _ HX H308 Hh). right. rewrite Hsz in Hb2. unfold Nlen in *. lia.
  - destruct HX as [[_ Hl] _]. unfold Nlen in *. unfold U64 in *. lia.
Qed.

Section Image.
Variable bs : list N.
Hypothesis R : readable bs.

Lemma img_len : 352 + ds + Nlen (fp_ct p) + Nlen (fp_ix p) <= Nlen bs.
Proof. pose proof (has_at_bound _ _ _ (rd_ix bs R)). lia. Qed.

(* read_info, as in BigWigFileRoundTrip.core_read_info *)
Theorem img_read_info : read_info bs = Ok the_info.
Proof.
  pose proof img_len as HN. pose proof (rd_hdr bs R) as HH.
  assert (Hrh : read_header bs = Ok the_header).
  { apply has_at_prefix in HH. unfold the_header, written_header. change PRE_DATA with 352.
    apply (read_header_ok bs _ _ _ _ _ _ _ _ _ HH).
    pose proof (rd_len bs R). unfold hdr_in_range, U16, U32, U64 in *. repeat split; lia. }
  unfold read_info. rewrite Hrh. cbn [rbind].
  change (h_big the_header) with false. change (h_zoom_levels the_header) with (Nlen (fp_zhdrs p)).
  change (h_chrom_tree_off the_header) with (352 + ds).
  (* the zoom directory *)
  assert (Hzd : has_at bs 64 zdir).
  { apply has_at_suffix in HH. unfold Nlen in HH at 1. unfold hdr in HH. rewrite header_bytes_length in HH. exact HH. }
  rewrite Nlen_to_nat.
  rewrite (read_zoom_headers_region (length (fp_zhdrs p)) bs zdir 64 Hzd)
    by (unfold zdir; rewrite zoom_dir_length; lia).
  destruct (read_zoom_headers_total zdir (length (fp_zhdrs p)) 0) as [zs [Hzs Hzl]].
  { unfold zdir, Nlen. rewrite zoom_dir_length. lia. }
  assert (Ez : the_zooms = zs) by (unfold the_zooms; rewrite Hzs; reflexivity).
  rewrite Hzs. cbn [rbind].
  (* the chromosome tree *)
  pose proof (rd_ct bs R) as HC.
  destruct HA as (Hct & _). destruct (chrom_tree_inv _ _ _ Hct) as [_ Ect]. rewrite Ect in HC.
  rewrite (has_at_slice_w bs (352 + ds) (ct_header (Nlen ids) (maxlen ids)) 32 (has_at_prefix _ _ _ _ HC) eq_refl).
  cbn [rdo rbind].
  assert (Hml : N.of_nat (maxlen ids) < U32) by (eapply core_maxlen; eassumption).
  destruct (ct_header_fields (Nlen ids) (maxlen ids) Hml) as (F1 & F2 & F3).
  rewrite F1, F2, F3, N.eqb_refl. cbn [negb]. change (8 =? 8) with true. cbn [negb]. rewrite Nat2N.id.
  apply has_at_suffix in HC. change (Nlen (ct_header (Nlen ids) (maxlen ids))) with 32 in HC.
  assert (Eids : ids = number 0 (map fst (runs inp))) by (eapply core_runs; eassumption).
  rewrite (read_chrom_block_ok sizes bs (352 + ds + 32) (maxlen ids) ids (length bs) HC).
  - unfold the_info, names. rewrite Ez, <- Eids. reflexivity.
  - assert (Hn : Nlen (runs inp) < U16) by (unfold input_ok in Hinp; decompose [and] Hinp; assumption).
    rewrite Eids. unfold Nlen in *. rewrite number_length, map_length. exact Hn.
  - eapply core_chroms_ok; eassumption.
Qed.

(* a range query, as in BigWigFileRoundTrip.core_query *)
Theorem img_query (infl : list N -> list N) c vs s e : In (c, vs) (runs inp) ->
  bw_interval infl bs the_info c s e = Ok (clip_filter s e vs).
Proof.
  intros Hin.
  assert (Hruns : ids = number 0 (map fst (runs inp)) /\ Forall2 (run_out sizes) (runs inp) outs
                  /\ map (fun c => (co_name c, co_id c)) outs = number 0 (map fst (runs inp)))
    by (eapply core_runs; eassumption).
  destruct Hruns as (Eids & HF & Eouts).
  assert (Hnd : NoDup (map fst (runs inp))) by (eapply collect_grouped; eassumption).
  pose proof Hopts as (Hb & Hi).
  assert (Hwf : Forall (fun c => exists len, wf_vals len (co_vals c)) outs) by (eapply core_wf; eassumption).
  assert (Hsorted : StronglySorted N.lt (map co_id outs)) by (eapply core_ids_sorted; eassumption).
  assert (Hpok : Forall piece_ok (pieces_of ips outs)) by (unfold ips; eapply core_pieces_ok; eassumption).
  destruct (Forall2_in_l _ _ _ _ HF Hin) as [c0 [Hc0 (Hn0 & Hv0 & Hl0 & Hk0)]]. cbn [fst snd] in *.
  assert (Hid : In (co_name c0, co_id c0) (number 0 (map fst (runs inp)))) by (eapply core_out_in; eassumption).
  rewrite Hn0 in Hid.
  unfold bw_interval, chrom_id. cbn [the_info i_chroms i_hdr].
  fold names in Hid. rewrite (find_chrom sizes names 0 c (co_id c0) Hnd Hid). cbn [ci_of ci_id snd rbind].
  (* the index header *)
  pose proof HA as (_ & Hix & _). cbv zeta in Hix. change (Nlen bw_pre) with 352 in Hix. fold ds in Hix.
  rewrite data_is_pieces in Hix. fold secs in Hix.
  destruct (write_index_inv _ _ _ _ _ _ Hix) as [t [body [_ Eix]]].
  pose proof (rd_ix bs R) as HI.
  change (h_big the_header) with false. change (h_full_index_off the_header) with (352 + ds + Nlen (fp_ct p)).
  pose proof HI as HI'. rewrite Eix in HI'. rewrite (cir_tree_root_ok bs _ _ _ _ _ _ _ HI'). cbn [rbind].
  (* the search = the scan (C05) *)
  assert (Hne : secs <> []).
  { unfold secs. intros E. apply place_nil_iff in E. apply map_eq_nil in E.
    pose proof (runs_nonempty inp) as Hrn. rewrite Forall_forall in Hrn. specialize (Hrn _ Hin). cbn [snd] in Hrn.
    assert (Hch : chunks ips (co_vals c0) <> []) by (rewrite chunks_nil_iff, Hv0; exact Hrn).
    destruct (chunks ips (co_vals c0)) as [|ch chs] eqn:Ech; [congruence|].
    assert (Hp : In (co_id c0, ch) (pieces_of ips outs)).
    { unfold pieces_of. apply in_flat_map. exists c0. split; [exact Hc0|]. rewrite Ech. left; reflexivity. }
    rewrite E in Hp. destruct Hp. }
  assert (Hss : sorted_starts (map sect_span secs)) by (unfold secs, ips; eapply core_secs_sorted; eassumption).
  assert (Hso : Forall sect_ok secs) by (unfold secs, ips; eapply core_secs_ok; eassumption).
  destruct (search_bytes_eq_scan (o_bs o) (o_ips o) (352 + ds + Nlen (fp_ct p)) secs Hb Hne Hss Hso)
    as [ix' [lv' [Hw Hs]]].
  rewrite Hix in Hw. apply Ok_inj in Hw. inversion Hw; subst ix' lv'; clear Hw.
  destruct HI as [A [B [EB LA]]].
  pose proof img_len as HN. pose proof (rd_len bs R) as HU.
  assert (HS : search_bytes (S (length bs)) false bs (352 + ds + Nlen (fp_ct p) + 48) (co_id c0) s e
               = Ok (scan secs (co_id c0) s e)).
  { rewrite EB at 2. apply Hs; [unfold U64 in *; lia|unfold Nlen; rewrite LA; apply N2Nat.id|]. rewrite EB. rewrite !app_length. lia. }
  unfold search_blocks. change (h_big (i_hdr the_info)) with false. rewrite HS. cbn [rbind].
  (* the blocks *)
  rewrite (collect_pieces infl the_info bs eq_refl eq_refl (co_id c0) s e (pieces_of ips outs) secs (rd_placed bs R) Hpok).
  f_equal. etransitivity; [apply (pieces_answer (co_id c0) s e ips outs ltac:(unfold ips; lia) Hwf)|].
  rewrite (flat_map_single (fun c => clip_filter s e (co_vals c)) outs c0 (SSorted_lt_NoDup _ Hsorted) Hc0).
  now rewrite Hv0.
Qed.
End Image.

(* the statement for the finished file and any image that agrees with it *)
Theorem agreeing_images_serve X : agrees X F ->
  read_info F = Ok the_info /\ read_info X = Ok the_info
  /\ forall infl c vs s e, In (c, vs) (runs inp) ->
       bw_interval infl X the_info c s e = Ok (clip_filter s e vs)
       /\ bw_interval infl F the_info c s e = Ok (clip_filter s e vs).
Proof.
  intros HX. pose proof F_readable as RF. pose proof (agrees_readable X HX) as RX.
  split; [exact (img_read_info F RF)|]. split; [exact (img_read_info X RX)|].
  intros infl c vs s e Hin. split; [exact (img_query X RX infl c vs s e Hin)|exact (img_query F RF infl c vs s e Hin)].
Qed.
End Read.
