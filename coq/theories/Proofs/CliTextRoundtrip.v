(* C16: decimal u32 print/parse, trim_end, field splitting, line segmentation; the BED / bedGraph line and
   whole-text round trips; the chrom.sizes reader on a formatted table. *)
From BT Require Import Base.Util Generated.Consts Model.BBIFile Model.BigWigWrite Model.BBIRead Model.CliText.
Local Open Scope N_scope.

(* ------------------------------------------------------------------ decimal *)
Definition lsd_val (l : list N) : N := fold_right (fun d acc => acc * 10 + d) 0 l.

Lemma lsd_digits_val : forall fuel n, n < 2 ^ N.of_nat fuel -> lsd_val (lsd_digits fuel n) = n.
Proof.
  induction fuel as [|f IH]; intros n Hn.
  - cbn in Hn. assert (n = 0) by lia. subst. reflexivity.
  - cbn [lsd_digits]. destruct (n <? 10) eqn:E.
    + apply N.ltb_lt in E. cbn [lsd_val fold_right]. rewrite N.mod_small by exact E. lia.
    + apply N.ltb_ge in E. cbn [lsd_val fold_right]. fold (lsd_val (lsd_digits f (n / 10))).
      rewrite IH.
      * pose proof (N.div_mod' n 10). lia.
      * rewrite Nat2N.inj_succ, N.pow_succ_r' in Hn.
        apply N.div_lt_upper_bound; lia.
Qed.

Lemma lsd_digits_small : forall fuel n, Forall (fun d => d < 10) (lsd_digits fuel n).
Proof.
  induction fuel as [|f IH]; intros n; [constructor|].
  cbn [lsd_digits]. constructor.
  - apply N.mod_lt. lia.
  - destruct (n <? 10); [constructor|apply IH].
Qed.

Lemma lsd_digits_nonempty : forall f n, lsd_digits (S f) n <> [].
Proof. intros f n. cbn [lsd_digits]. discriminate. Qed.

Lemma dec_fuel_enough n : n < 2 ^ N.of_nat (dec_fuel n).
Proof.
  unfold dec_fuel. rewrite Nat2N.inj_succ, N2Nat.id.
  destruct (N.eq_dec n 0) as [->|Hz]; [cbn; lia|].
  apply N.log2_spec. lia.
Qed.

Lemma parse_digits_app : forall l1 l2 acc,
  parse_digits acc (l1 ++ l2) = match parse_digits acc l1 with Some a => parse_digits a l2 | None => None end.
Proof.
  induction l1 as [|c l1 IH]; intros l2 acc; [reflexivity|].
  cbn [app parse_digits]. destruct (is_digit c); [|reflexivity].
  destruct (U32_MAX <? acc * 10 + (c - 48)); [reflexivity|]. apply IH.
Qed.

Lemma lsd_val_cons d r : lsd_val (d :: r) = lsd_val r * 10 + d.
Proof. reflexivity. Qed.

Lemma parse_digits_rev : forall l, Forall (fun d => d < 10) l -> lsd_val l <= U32_MAX ->
  parse_digits 0 (rev (map (fun d => 48 + d) l)) = Some (lsd_val l).
Proof.
  induction l as [|d r IH]; intros Hs Hm; [reflexivity|].
  inversion Hs as [|? ? Hd Hr]; subst. rewrite lsd_val_cons in Hm.
  cbn [map rev]. rewrite parse_digits_app, IH by (try assumption; lia).
  cbn [parse_digits]. unfold is_digit.
  replace (48 <=? 48 + d) with true by (symmetry; apply N.leb_le; lia).
  replace (48 + d <=? 57) with true by (symmetry; apply N.leb_le; lia).
  cbn [andb]. replace (48 + d - 48) with d by lia.
  replace (U32_MAX <? lsd_val r * 10 + d) with false by (symmetry; apply N.ltb_ge; lia).
  rewrite lsd_val_cons. reflexivity.
Qed.

Lemma print_dec_digits n : Forall (fun c => is_digit c = true) (print_dec n).
Proof.
  unfold print_dec. apply Forall_rev. apply Forall_map.
  eapply Forall_impl; [|apply lsd_digits_small]. cbv beta. intros d Hd. unfold is_digit.
  apply andb_true_iff. split; apply N.leb_le; lia.
Qed.

Lemma print_dec_nonempty n : print_dec n <> [].
Proof.
  unfold print_dec, dec_fuel. cbn [lsd_digits map rev]. intros H. apply app_eq_nil in H. destruct H; discriminate.
Qed.

Lemma parse_u32_digits l : l <> [] -> Forall (fun c => is_digit c = true) l -> parse_u32 l = parse_digits 0 l.
Proof.
  intros Hne Hd. destruct l as [|c r]; [contradiction|].
  inversion Hd as [|? ? Hc _]; subst. unfold parse_u32.
  replace (c =? 43) with false; [reflexivity|].
  symmetry. apply N.eqb_neq. intros ->. discriminate Hc.
Qed.

Theorem dec_roundtrip n : n <= U32_MAX -> parse_u32 (print_dec n) = Some n.
Proof.
  intros Hn. rewrite parse_u32_digits by (apply print_dec_nonempty || apply print_dec_digits).
  unfold print_dec. pose proof (lsd_digits_val (dec_fuel n) n (dec_fuel_enough n)) as Hv.
  rewrite parse_digits_rev; [now rewrite Hv|apply lsd_digits_small|rewrite Hv; exact Hn].
Qed.

(* the last character of a printed number *)
Lemma rev_print_dec n : exists t, rev (print_dec n) = (48 + n mod 10) :: t.
Proof.
  unfold print_dec, dec_fuel. rewrite rev_involutive. cbn [lsd_digits map]. eexists. reflexivity.
Qed.

Lemma digit_no (x : N) l : Forall (fun c => is_digit c = true) l -> is_digit x = false -> ~ In x l.
Proof.
  intros Hd Hx Hin. rewrite Forall_forall in Hd. specialize (Hd x Hin). congruence.
Qed.

(* ------------------------------------------------------------------ trim_end *)
Lemma trim_rev_length : forall n l, (length l <= n)%nat -> (length (trim_rev l) <= length l)%nat.
Proof.
  induction n as [|n IH]; intros l Hl.
  - destruct l; [cbn; lia|cbn in Hl; lia].
  - destruct l as [|a l1]; [cbn; lia|]. cbn [trim_rev]. cbn [length] in Hl.
    destruct (ws1 a).
    { specialize (IH l1 ltac:(lia)). cbn [length]. lia. }
    destruct l1 as [|b l2]; [lia|]. cbn [length] in Hl.
    destruct (ws2 b a).
    { specialize (IH l2 ltac:(lia)). cbn [length]. lia. }
    destruct l2 as [|c l3]; [lia|]. cbn [length] in Hl.
    destruct (ws3 c b a); [|lia].
    specialize (IH l3 ltac:(lia)). cbn [length]. lia.
Qed.

Lemma trim_rev_shorter l : (length (trim_rev l) <= length l)%nat.
Proof. apply (trim_rev_length (length l)). lia. Qed.

(* a last character below 128 that is not ASCII white space ends the trimming *)
Lemma trim_rev_plain a l : ws1 a = false -> a < 128 -> trim_rev (a :: l) = a :: l.
Proof.
  intros Hw Ha. cbn [trim_rev]. rewrite Hw.
  destruct l as [|b l2]; [reflexivity|].
  assert (H2 : ws2 b a = false).
  { unfold ws2. apply andb_false_iff. right. apply orb_false_iff. split; apply N.eqb_neq; lia. }
  rewrite H2. destruct l2 as [|c l3]; [reflexivity|].
  assert (H3 : ws3 c b a = false).
  { unfold ws3.
    replace (a =? 128) with false by (symmetry; apply N.eqb_neq; lia).
    replace (a =? 159) with false by (symmetry; apply N.eqb_neq; lia).
    replace (a =? 168) with false by (symmetry; apply N.eqb_neq; lia).
    replace (a =? 169) with false by (symmetry; apply N.eqb_neq; lia).
    replace (a =? 175) with false by (symmetry; apply N.eqb_neq; lia).
    replace (128 <=? a) with false by (symmetry; apply N.leb_gt; lia).
    rewrite !andb_false_r. reflexivity. }
  rewrite H3. reflexivity.
Qed.

(* a string without trailing white space keeps having none when it is preceded by a tab *)
Lemma trim_rev_app r tl : r <> [] -> trim_rev r = r -> trim_rev (r ++ 9 :: tl) = r ++ 9 :: tl.
Proof.
  intros Hne Hr. destruct r as [|a r1]; [contradiction|].
  cbn [trim_rev] in Hr. cbn [app trim_rev].
  destruct (ws1 a) eqn:E1.
  { exfalso. pose proof (trim_rev_shorter r1) as Hl. rewrite Hr in Hl. cbn [length] in Hl. lia. }
  destruct r1 as [|b r2].
  { cbn [app]. assert (H2 : ws2 9 a = false) by reflexivity. rewrite H2.
    destruct tl as [|c l3]; [reflexivity|].
    assert (H3 : ws3 c 9 a = false) by (unfold ws3; cbn; rewrite !andb_false_r; reflexivity).
    rewrite H3. reflexivity. }
  cbn [app]. destruct (ws2 b a) eqn:E2.
  { exfalso. pose proof (trim_rev_shorter r2) as Hl. rewrite Hr in Hl. cbn [length] in Hl. lia. }
  destruct r2 as [|c r3].
  { cbn [app]. assert (H3 : ws3 9 b a = false) by reflexivity. rewrite H3. reflexivity. }
  cbn [app]. destruct (ws3 c b a) eqn:E3; [|reflexivity].
  exfalso. pose proof (trim_rev_shorter r3) as Hl. rewrite Hr in Hl. cbn [length] in Hl. lia.
Qed.

Lemma trim_end_fixed_rev l : trim_end l = l -> trim_rev (rev l) = rev l.
Proof. unfold trim_end. intros H. rewrite <- H at 2. now rewrite rev_involutive. Qed.

Lemma trim_end_nl l : trim_end (l ++ [NL]) = trim_end l.
Proof. unfold trim_end. rewrite rev_app_distr. reflexivity. Qed.

(* ------------------------------------------------------------------ splitting *)
Lemma split_first_app sep a b : ~ In sep a -> split_first sep (a ++ sep :: b) = (a, Some b).
Proof.
  induction a as [|c a IH]; intros Hn.
  - cbn [app split_first]. now rewrite N.eqb_refl.
  - cbn [app split_first]. replace (c =? sep) with false.
    + rewrite IH; [reflexivity|]. intros Hin. apply Hn. now right.
    + symmetry. apply N.eqb_neq. intros ->. apply Hn. now left.
Qed.
Lemma split_first_none sep a : ~ In sep a -> split_first sep a = (a, None).
Proof.
  induction a as [|c a IH]; intros Hn; [reflexivity|].
  cbn [split_first]. replace (c =? sep) with false.
  - rewrite IH; [reflexivity|]. intros Hin. apply Hn. now right.
  - symmetry. apply N.eqb_neq. intros ->. apply Hn. now left.
Qed.

Lemma lines_app_nl a rest : ~ In NL a -> lines (a ++ NL :: rest) = a :: lines rest.
Proof.
  induction a as [|c a IH]; intros Hn.
  - cbn [app lines]. now rewrite N.eqb_refl.
  - cbn [app lines]. replace (c =? NL) with false.
    + rewrite IH; [reflexivity|]. intros Hin. apply Hn. now right.
    + symmetry. apply N.eqb_neq. intros ->. apply Hn. now left.
Qed.

Lemma print_dec_no_tab n : ~ In TAB (print_dec n).
Proof. apply digit_no; [apply print_dec_digits|reflexivity]. Qed.
Lemma print_dec_no_nl n : ~ In NL (print_dec n).
Proof. apply digit_no; [apply print_dec_digits|reflexivity]. Qed.

(* ------------------------------------------------------------------ one line *)
Lemma parse_three_format c s e : ~ In TAB c -> s <= U32_MAX -> e <= U32_MAX ->
  parse_three (c ++ [TAB] ++ print_dec s ++ [TAB] ++ print_dec e) = Ok (c, s, e, None).
Proof.
  intros Hc Hs He. unfold parse_three. cbn [app].
  rewrite (split_first_app TAB c _ Hc).
  rewrite (split_first_app TAB (print_dec s) _ (print_dec_no_tab s)).
  rewrite (dec_roundtrip s Hs).
  rewrite (split_first_none TAB (print_dec e) (print_dec_no_tab e)).
  rewrite (dec_roundtrip e He). reflexivity.
Qed.
Lemma parse_three_format_rest c s e rest : ~ In TAB c -> s <= U32_MAX -> e <= U32_MAX ->
  parse_three (c ++ [TAB] ++ print_dec s ++ [TAB] ++ print_dec e ++ TAB :: rest) = Ok (c, s, e, Some rest).
Proof.
  intros Hc Hs He. unfold parse_three. cbn [app].
  rewrite (split_first_app TAB c _ Hc).
  rewrite (split_first_app TAB (print_dec s) _ (print_dec_no_tab s)).
  rewrite (dec_roundtrip s Hs).
  rewrite (split_first_app TAB (print_dec e) _ (print_dec_no_tab e)).
  rewrite (dec_roundtrip e He). reflexivity.
Qed.

(* a line that ends with a printed number has no trailing white space *)
Lemma trim_end_after_number p n : trim_end (p ++ print_dec n) = p ++ print_dec n.
Proof.
  unfold trim_end. rewrite rev_app_distr. destruct (rev_print_dec n) as [t Ht]. rewrite Ht.
  assert (Hd : n mod 10 < 10) by (apply N.mod_lt; lia).
  pose proof (N.le_0_l (n mod 10)) as Hd0.
  rewrite <- app_comm_cons. rewrite trim_rev_plain.
  - rewrite app_comm_cons, <- Ht, <- rev_app_distr. apply rev_involutive.
  - unfold ws1. apply orb_false_iff. split.
    + apply andb_false_iff. right. apply N.leb_gt. lia.
    + apply N.eqb_neq. lia.
  - lia.
Qed.

Lemma trim_end_after_rest p rest : rest <> [] -> trim_end rest = rest -> trim_end (p ++ TAB :: rest) = p ++ TAB :: rest.
Proof.
  intros Hne Hr. unfold trim_end.
  replace (rev (p ++ TAB :: rest)) with (rev rest ++ 9 :: rev p).
  - rewrite trim_rev_app.
    + rewrite rev_app_distr. cbn [rev]. rewrite !rev_involutive.
      rewrite <- app_assoc. reflexivity.
    + intros H. apply Hne. rewrite <- (rev_involutive rest), H. reflexivity.
    + apply trim_end_fixed_rev. exact Hr.
  - rewrite rev_app_distr. cbn [rev]. rewrite <- app_assoc. reflexivity.
Qed.

Theorem bed_line_roundtrip c e :
  ~ In TAB c -> be_start e <= U32_MAX -> be_end e <= U32_MAX -> trim_end (be_rest e) = be_rest e ->
  parse_bed (format_bed_line c e) = Ok (c, e).
Proof.
  intros Hc Hs He Hr. destruct e as [s en rest]. cbn [be_start be_end be_rest] in *.
  unfold parse_bed, format_bed_line. cbn [be_start be_end be_rest].
  destruct rest as [|r0 rest'].
  - rewrite app_nil_r.
    replace (c ++ [TAB] ++ print_dec s ++ [TAB] ++ print_dec en) with ((c ++ [TAB] ++ print_dec s ++ [TAB]) ++ print_dec en)
      by (rewrite <- !app_assoc; reflexivity).
    rewrite trim_end_after_number. rewrite <- !app_assoc.
    rewrite (parse_three_format c s en Hc Hs He). reflexivity.
  - replace (c ++ [TAB] ++ print_dec s ++ [TAB] ++ print_dec en ++ TAB :: r0 :: rest')
      with ((c ++ [TAB] ++ print_dec s ++ [TAB] ++ print_dec en) ++ TAB :: r0 :: rest')
      by (rewrite <- !app_assoc; reflexivity).
    rewrite trim_end_after_rest by (try discriminate; exact Hr). rewrite <- !app_assoc.
    rewrite (parse_three_format_rest c s en (r0 :: rest') Hc Hs He). reflexivity.
Qed.

Theorem bed_line_nl_roundtrip c e :
  ~ In TAB c -> be_start e <= U32_MAX -> be_end e <= U32_MAX -> trim_end (be_rest e) = be_rest e ->
  parse_bed (format_bed c e) = Ok (c, e).
Proof.
  intros. unfold format_bed, parse_bed. rewrite trim_end_nl. now apply bed_line_roundtrip.
Qed.

(* bedGraph line: relative to the float parser (not modelled) *)
Theorem bedgraph_line_roundtrip fparse c s e vtext bits :
  ~ In TAB c -> s <= U32_MAX -> e <= U32_MAX -> vtext <> [] -> ~ In TAB vtext -> trim_end vtext = vtext ->
  fparse vtext = Some bits ->
  parse_bedgraph fparse (format_bedgraph_line c s e vtext) = Ok (c, {| v_start := s; v_end := e; v_bits := bits |}).
Proof.
  intros Hc Hs He Hne Hvt Hv Hf. unfold parse_bedgraph, format_bedgraph_line.
  replace (c ++ [TAB] ++ print_dec s ++ [TAB] ++ print_dec e ++ [TAB] ++ vtext)
    with ((c ++ [TAB] ++ print_dec s ++ [TAB] ++ print_dec e) ++ TAB :: vtext)
    by (rewrite <- !app_assoc; reflexivity).
  rewrite trim_end_after_rest by assumption. rewrite <- !app_assoc.
  rewrite (parse_three_format_rest c s e vtext Hc Hs He). cbn [rbind].
  rewrite (split_first_none TAB vtext Hvt). cbn [fst]. rewrite Hf. reflexivity.
Qed.

(* ------------------------------------------------------------------ whole texts *)
Definition canonical_bed (ce : list N * bed_entry) : Prop :=
  ~ In TAB (fst ce) /\ ~ In NL (fst ce) /\ be_start (snd ce) <= U32_MAX /\ be_end (snd ce) <= U32_MAX /\
  trim_end (be_rest (snd ce)) = be_rest (snd ce) /\ ~ In NL (be_rest (snd ce)).

Lemma format_bed_line_no_nl c e : ~ In NL c -> ~ In NL (be_rest e) -> ~ In NL (format_bed_line c e).
Proof.
  intros Hc Hr. unfold format_bed_line. rewrite !in_app_iff. intros [H|[H|[H|[H|[H|H]]]]].
  - exact (Hc H).
  - destruct H as [H|[]]. discriminate H.
  - exact (print_dec_no_nl _ H).
  - destruct H as [H|[]]. discriminate H.
  - exact (print_dec_no_nl _ H).
  - destruct (be_rest e) as [|r0 r]; [destruct H|]. destruct H as [H|H]; [discriminate H|exact (Hr H)].
Qed.

Theorem bed_text_roundtrip l : Forall canonical_bed l -> mapM parse_bed (lines (format_bed_text l)) = Ok l.
Proof.
  induction 1 as [|[c e] r Hce _ IH]; [reflexivity|].
  destruct Hce as (Ht & Hn & Hs & He & Hr & Hrn). cbn [fst snd] in *.
  unfold format_bed_text. cbn [flat_map fst snd]. fold (format_bed_text r).
  unfold format_bed. rewrite <- app_assoc. cbn [app].
  rewrite lines_app_nl by (apply format_bed_line_no_nl; assumption).
  cbn [mapM]. rewrite bed_line_roundtrip by assumption. cbn [rbind]. rewrite IH. reflexivity.
Qed.

(* ------------------------------------------------------------------ chrom.sizes *)
Definition canonical_size (kv : name * N) : Prop :=
  fst kv <> [] /\ Forall (fun c => ws1 c = false) (fst kv) /\ snd kv <= U32_MAX.

Lemma digit_not_ws c : is_digit c = true -> ws1 c = false.
Proof.
  unfold is_digit, ws1. intros H. apply andb_true_iff in H as [H1 H2]. apply N.leb_le in H1, H2.
  apply orb_false_iff. split; [apply andb_false_iff; right; apply N.leb_gt; lia|apply N.eqb_neq; lia].
Qed.

Lemma take_token_app a rest : Forall (fun c => ws1 c = false) a ->
  take_token (a ++ rest) = (a ++ fst (take_token rest), snd (take_token rest)).
Proof.
  induction 1 as [|c a Hc _ IH]; [cbn [app]; destruct (take_token rest); reflexivity|].
  cbn [app take_token]. rewrite Hc, IH. reflexivity.
Qed.

Lemma take_token_all a : Forall (fun c => ws1 c = false) a -> take_token a = (a, []).
Proof.
  intros H. rewrite <- (app_nil_r a) at 1. rewrite (take_token_app a [] H). cbn [take_token fst snd].
  now rewrite app_nil_r.
Qed.

Lemma nows_no (x : N) l : Forall (fun c => ws1 c = false) l -> ws1 x = true -> ~ In x l.
Proof. intros Hd Hx Hin. rewrite Forall_forall in Hd. specialize (Hd x Hin). congruence. Qed.

Lemma parse_sizes_line_format kv : canonical_size kv ->
  parse_sizes_line (fst kv ++ [TAB] ++ print_dec (snd kv)) = Ok kv.
Proof.
  destruct kv as [nm n]. intros (Hne & Hws & Hn). cbn [fst snd] in *.
  unfold parse_sizes_line, next_token.
  destruct nm as [|c0 nm']; [contradiction|].
  inversion Hws as [|? ? Hc0 Hrest]; subst.
  cbn [app skip_ws]. rewrite Hc0.
  change (c0 :: nm' ++ TAB :: print_dec n) with ((c0 :: nm') ++ TAB :: print_dec n).
  rewrite (take_token_app (c0 :: nm') (TAB :: print_dec n) Hws).
  cbn [take_token]. change (ws1 TAB) with true. cbn [fst snd]. rewrite app_nil_r.
  cbn [skip_ws]. change (ws1 TAB) with true.
  pose proof (print_dec_digits n) as Hd. pose proof (print_dec_nonempty n) as Hne2.
  destruct (print_dec n) as [|d0 ds] eqn:Ep; [contradiction|].
  inversion Hd as [|? ? Hd0 Hds]; subst.
  cbn [skip_ws]. rewrite (digit_not_ws d0 Hd0).
  assert (Hnw : Forall (fun c => ws1 c = false) ds).
  { eapply Forall_impl; [|exact Hds]. intros a Ha. now apply digit_not_ws. }
  rewrite (take_token_all ds Hnw). rewrite (digit_not_ws d0 Hd0). cbv beta iota. rewrite <- Ep. rewrite (dec_roundtrip n Hn). reflexivity.
Qed.

Lemma strip_cr_number p n : strip_cr (p ++ print_dec n) = p ++ print_dec n.
Proof.
  unfold strip_cr. rewrite rev_app_distr. destruct (rev_print_dec n) as [t Ht]. rewrite Ht. cbn [app].
  assert (Hd : n mod 10 < 10) by (apply N.mod_lt; lia).
  pose proof (N.le_0_l (n mod 10)) as Hd0.
  destruct (48 + n mod 10) as [|p0] eqn:E; [lia|].
  destruct p0 as [p1|p1|]; try reflexivity; destruct p1 as [p2|p2|]; try reflexivity;
  destruct p2 as [p3|p3|]; try reflexivity; destruct p3 as [p4|p4|]; try reflexivity. exfalso. lia.
Qed.

Theorem chrom_sizes_parse l : Forall canonical_size l -> parse_chrom_sizes (format_sizes l) = Ok (rev l).
Proof.
  intros Hl. unfold parse_chrom_sizes.
  assert (G : forall m, fold_left (fun acc line => do m0 <- acc;
                 match line with [] => Ok m0 | _ => do kv <- parse_sizes_line line; Ok (kv :: m0) end)
               (map strip_cr (lines (format_sizes l))) (Ok m) = Ok (rev l ++ m)).
  { induction Hl as [|kv r Hkv _ IH]; intros m; [reflexivity|].
    unfold format_sizes. cbn [flat_map]. fold (format_sizes r). unfold format_sizes_line.
    replace ((fst kv ++ [TAB] ++ print_dec (snd kv) ++ [NL]) ++ format_sizes r)
      with ((fst kv ++ [TAB] ++ print_dec (snd kv)) ++ NL :: format_sizes r)
      by (rewrite <- !app_assoc; reflexivity).
    destruct Hkv as (Hne & Hws & Hn).
    rewrite lines_app_nl.
    2:{ rewrite !in_app_iff. intros [H|[H|H]].
        - exact (nows_no NL _ Hws eq_refl H).
        - destruct H as [H|[]]; discriminate H.
        - exact (print_dec_no_nl _ H). }
    cbn [map fold_left].
    replace (fst kv ++ [TAB] ++ print_dec (snd kv)) with ((fst kv ++ [TAB]) ++ print_dec (snd kv))
      by (rewrite <- !app_assoc; reflexivity).
    rewrite strip_cr_number. rewrite <- app_assoc. cbn [rbind].
    rewrite (parse_sizes_line_format kv (conj Hne (conj Hws Hn))).
    destruct (fst kv) as [|c0 nm'] eqn:Ef; [contradiction|]. cbn [app rbind].
    rewrite IH. cbn [rev]. rewrite <- app_assoc. reflexivity. }
  rewrite G. now rewrite app_nil_r.
Qed.
