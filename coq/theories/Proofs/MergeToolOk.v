(* The merge tool's per-chromosome pipeline: clip, adjust and threshold are applied to the per-base sum of all
   inputs (once, also when the inputs are merged in chunks), from base 0; output-name recognition. *)
From BT Require Import Base.Util Model.Merge Model.MergeTool Proofs.MergeSig Proofs.MergeWin Proofs.MergeMany Proofs.FillOk.
Local Open Scope N_scope.

(* ------------------------------------------------------------------ MergingValues = filter . map on the merged stream *)
Definition keepv (threshold : option Z) (v : value) : bool := above threshold (v_val v).

Lemma map_mv_map clip adj l : map (mv_map clip adj) (map IV l) = map IV (map (clip_adjust clip adj) l).
Proof. induction l as [|v r IH]; cbn [map mv_map]; [reflexivity|]. rewrite IH. reflexivity. Qed.
Lemma filter_mv_keep thr l : filter (mv_keep thr) (map IV l) = map IV (filter (keepv thr) l).
Proof.
  induction l as [|v r IH]; cbn [map filter mv_keep]; [reflexivity|]. unfold keepv at 1.
  destruct (above thr (v_val v)); cbn [map]; rewrite IH; reflexivity.
Qed.

Lemma merging_values_eq W iters merged thr adj clip :
  merge_sections_many W iters = Ok (map IV merged) ->
  merging_values W iters thr adj clip =
    Ok (map IV (filter (keepv thr) (map (clip_adjust clip (unwrap_or0 adj)) merged))).
Proof. intros E. unfold merging_values. rewrite E, map_mv_map, filter_mv_keep. reflexivity. Qed.

(* the intermediate (chunk) merges pass the sums through unchanged *)
Lemma clip_adjust_id v : clip_adjust None 0 v = v.
Proof. destruct v as [s e x]. unfold clip_adjust. cbn [v_start v_end v_val]. f_equal. lia. Qed.
Lemma plain_id l : filter (keepv None) (map (clip_adjust None 0) l) = l.
Proof.
  induction l as [|v r IH]; [reflexivity|]. cbn [map filter]. unfold keepv at 1. cbn [above].
  rewrite clip_adjust_id, IH. reflexivity.
Qed.
Lemma merging_values_plain W iters merged :
  merge_sections_many W iters = Ok (map IV merged) -> merging_values W iters None None None = Ok (map IV merged).
Proof.
  intros E. rewrite (merging_values_eq _ _ _ _ _ _ E). cbn [unwrap_or0]. rewrite plain_id. reflexivity.
Qed.

(* ------------------------------------------------------------------ per-base effect of filter . map *)
Definition adj_val (clip : option Z) (adj : Z) (z : Z) : Z :=
  ((match clip with Some c => Z.min c z | None => z end) + adj)%Z.

Lemma pipeline_sorted thr clip adj l : forall lo, sorted_from lo l ->
  sorted_from lo (filter (keepv thr) (map (clip_adjust clip adj) l)).
Proof.
  induction l as [|v r IH]; intros lo Hs; [exact I|]. cbn [sorted_from] in Hs. destruct Hs as [H1 [H2 H3]].
  cbn [map filter]. specialize (IH _ H3). destruct (keepv thr (clip_adjust clip adj v)).
  - cbn [sorted_from clip_adjust v_start v_end]. repeat split; auto.
  - eapply sorted_from_weaken; [|exact IH]. lia.
Qed.
Lemma inb_clip_adjust clip adj v x : inb (clip_adjust clip adj v) x = inb v x.
Proof. reflexivity. Qed.
Lemma val_clip_adjust clip adj v : v_val (clip_adjust clip adj v) = adj_val clip adj (v_val v).
Proof. reflexivity. Qed.

(* on a sorted list the first containing value decides, also after filtering *)
Lemma pipeline_sig_sorted thr clip adj l : forall lo x, sorted_from lo l ->
  sig (filter (keepv thr) (map (clip_adjust clip adj) l)) x =
    match sig l x with
    | Some z => if above thr (adj_val clip adj z) then Some (adj_val clip adj z) else None
    | None => None
    end.
Proof.
  induction l as [|v r IH]; intros lo x Hs; [reflexivity|]. cbn [sorted_from] in Hs. destruct Hs as [H1 [H2 H3]].
  cbn [map filter sig]. specialize (IH _ x H3). unfold keepv at 1. rewrite val_clip_adjust.
  destruct (inb v x) eqn:E.
  - destruct (above thr (adj_val clip adj (v_val v))).
    + cbn [sig]. rewrite inb_clip_adjust, E, val_clip_adjust. reflexivity.
    + rewrite IH. apply inb_true_iff in E.
      rewrite (sorted_sig _ _ _ H3), (sorted_from_below_cov _ _ _ H3) by lia. reflexivity.
  - destruct (above thr (adj_val clip adj (v_val v))); [|exact IH].
    cbn [sig]. rewrite inb_clip_adjust, E. exact IH.
Qed.

(* ------------------------------------------------------------------ the queried range [0, size) *)
Lemma query_all size vs : forall lo, sorted_from lo vs -> end_from lo vs <= size -> query vs 0 size = vs.
Proof.
  unfold query. induction vs as [|v r IH]; intros lo Hs He; [reflexivity|].
  cbn [sorted_from] in Hs. destruct Hs as [H1 [H2 H3]]. cbn [end_from] in He.
  pose proof (end_from_ge _ _ H3) as Hge. cbn [flat_map].
  rewrite (proj2 (N.ltb_lt 0 (v_end v))) by lia. rewrite (proj2 (N.ltb_lt (v_start v) size)) by lia. cbn [andb app].
  rewrite (IH _ H3 He). f_equal. destruct v as [s e x]. cbn [v_start v_end v_val] in *. f_equal; lia.
Qed.

(* what the tool must deliver at base x of a chromosome: the non-zero per-base sum, clipped, adjusted, and
   kept only above the threshold *)
Definition tool_expected (bws : list (list value)) (thr : Z) (adj clip : option Z) (x : N) : option Z :=
  let s := ssum bws x in
  if isz s then None
  else let v := adj_val clip (unwrap_or0 adj) s in if Z.ltb thr v then Some v else None.

Lemma expected_of_merged bws merged thr adj clip x : forall lo, sorted_from lo merged ->
  sig merged x = nz_opt (ssum bws x) ->
  sig (filter (keepv (Some thr)) (map (clip_adjust clip (unwrap_or0 adj)) merged)) x = tool_expected bws thr adj clip x.
Proof.
  intros lo Hs Hg. rewrite (pipeline_sig_sorted _ _ _ _ _ _ Hs), Hg. unfold tool_expected, nz_opt. cbv zeta.
  destruct (isz (ssum bws x)); reflexivity.
Qed.

Lemma tool_chrom_direct W maxfds size bws thr adj clip :
  0 < W -> Forall (sorted_from 0) bws -> Forall (fun vs => end_from 0 vs <= size) bws ->
  (length bws <= maxfds)%nat ->
  exists merged out, merge_sections_many W (map (map IV) bws) = Ok (map IV merged) /\
    out = filter (keepv (Some thr)) (map (clip_adjust clip (unwrap_or0 adj)) merged) /\
    tool_chrom W maxfds size bws thr adj clip = Ok (map IV out) /\
    sorted_from 0 out /\ forall x, sig out x = tool_expected bws thr adj clip x.
Proof.
  intros HW Hs He Hn. destruct (merge_many_ok W bws HW Hs) as [merged [Em [Sm [Zm Gm]]]].
  exists merged. eexists. split; [exact Em|]. split; [reflexivity|].
  assert (Hq : map (fun vs => map IV (query vs 0 size)) bws = map (map IV) bws).
  { clear -Hs He. induction bws as [|vs r IH]; [reflexivity|]. inversion Hs; subst. inversion He; subst.
    cbn [map]. rewrite IH by assumption. rewrite (query_all size vs 0) by assumption. reflexivity. }
  split; [|split].
  - unfold tool_chrom. cbv zeta. rewrite (proj2 (Nat.ltb_ge maxfds (length bws))) by lia.
    rewrite Hq. apply merging_values_eq. exact Em.
  - apply pipeline_sorted. exact Sm.
  - intros x. apply (expected_of_merged _ _ _ _ _ _ 0 Sm). apply Gm.
Qed.

(* ------------------------------------------------------------------ merging in chunks *)
Lemma oz_nz_opt z : oz (nz_opt z) = z.
Proof. unfold nz_opt. destruct (isz z) eqn:E; cbn [oz]; [|reflexivity]. apply isz_true_iff in E. lia. Qed.
Lemma ssum_app a b x : ssum (a ++ b) x = (ssum a x + ssum b x)%Z.
Proof. induction a as [|v r IH]; cbn [ssum app]; [lia|]. rewrite IH. lia. Qed.
Lemma ssum_split k l x : ssum l x = (ssum (firstn k l) x + ssum (skipn k l) x)%Z.
Proof. rewrite <- ssum_app, firstn_skipn. reflexivity. Qed.

Lemma all_values_IV l : all_values (map IV l) = Ok l.
Proof. induction l as [|v r IH]; cbn [map all_values]; [reflexivity|]. rewrite IH. reflexivity. Qed.

Lemma Forall_firstn {X} (Q : X -> Prop) k l : Forall Q l -> Forall Q (firstn k l).
Proof. revert l. induction k as [|k IH]; intros l H; [constructor|]. destruct H; cbn [firstn]; constructor; auto. Qed.
Lemma Forall_skipn {X} (Q : X -> Prop) k l : Forall Q l -> Forall Q (skipn k l).
Proof. revert l. induction k as [|k IH]; intros l H; [exact H|]. destruct H; cbn [skipn]; [constructor|auto]. Qed.

(* one pass: the streams are replaced by the merged chunks; per-base sum and well-formedness are kept, and the
   number of streams drops to ceil(n / maxfds) *)
Lemma chunk_round_ok W maxfds : 0 < W -> (1 <= maxfds)%nat -> forall fuel Ms,
  Forall (sorted_from 0) Ms -> (length Ms < fuel)%nat ->
  exists Ms', chunk_round fuel W maxfds (map (map IV) Ms) = Ok (map (map IV) Ms') /\
    Forall (sorted_from 0) Ms' /\ (forall x, ssum Ms' x = ssum Ms x) /\
    (length Ms' <= length Ms)%nat /\ (length Ms' * maxfds < length Ms + maxfds)%nat.
Proof.
  intros HW Hk. induction fuel as [|f IH]; intros Ms Hs Hf; [exfalso; lia|].
  destruct Ms as [|M0 Mr].
  - exists []. cbn [map chunk_round length]. repeat split; try constructor; try lia.
  - remember (M0 :: Mr) as Ms eqn:EMs.
    assert (Hne : map (map IV) Ms <> []) by (subst Ms; discriminate).
    cbn [chunk_round]. destruct (map (map IV) Ms) as [|i0 ir] eqn:Emap; [exfalso; apply Hne; reflexivity|]. rewrite <- Emap. clear i0 ir Emap Hne.
    rewrite firstn_map, skipn_map.
    destruct (merge_many_ok W (firstn maxfds Ms) HW (Forall_firstn _ _ _ Hs)) as [merged [Em [Sm [Zm Gm]]]].
    rewrite (merging_values_plain _ _ _ Em), all_values_IV.
    assert (Hlen : (length (skipn maxfds Ms) < length Ms)%nat).
    { rewrite skipn_length. subst Ms. cbn [length]. lia. }
    destruct (IH (skipn maxfds Ms) (Forall_skipn _ _ _ Hs)) as [Ms' [E' [S' [G' [L1 L2]]]]]; [lia|].
    rewrite E'. exists (merged :: Ms'). split; [reflexivity|]. split; [constructor; assumption|]. split.
    + intros x. cbn [ssum]. rewrite Gm, oz_nz_opt, G'. symmetry. apply ssum_split.
    + rewrite skipn_length in *. cbn [length]. split; [lia|].
      destruct (Nat.le_gt_cases maxfds (length Ms)); nia.
Qed.

Lemma chunk_loop_ok W maxfds : 0 < W -> (2 <= maxfds)%nat -> forall fuel Ms,
  Forall (sorted_from 0) Ms -> (length Ms < fuel)%nat ->
  exists Ms', chunk_loop fuel W maxfds (map (map IV) Ms) = Ok (map (map IV) Ms') /\
    Forall (sorted_from 0) Ms' /\ (forall x, ssum Ms' x = ssum Ms x).
Proof.
  intros HW Hk. induction fuel as [|f IH]; intros Ms Hs Hf; [exfalso; lia|].
  cbn [chunk_loop]. rewrite map_length. destruct (Nat.ltb_spec maxfds (length Ms)) as [Hgt|Hle].
  - destruct (chunk_round_ok W maxfds HW ltac:(lia) (S (length Ms)) Ms Hs ltac:(lia)) as [M1 [E1 [S1 [G1 [L1 L2]]]]].
    rewrite E1. assert (Hl : (length M1 < length Ms)%nat) by nia.
    destruct (IH M1 S1 ltac:(lia)) as [M2 [E2 [S2 G2]]]. exists M2. split; [exact E2|]. split; [exact S2|].
    intros x. rewrite G2. apply G1.
  - exists Ms. repeat split; auto.
Qed.

Lemma tool_expected_ext bws bws' thr adj clip x : ssum bws' x = ssum bws x ->
  tool_expected bws' thr adj clip x = tool_expected bws thr adj clip x.
Proof. intros E. unfold tool_expected. rewrite E. reflexivity. Qed.

Lemma tool_chrom_chunked W maxfds size bws thr adj clip :
  0 < W -> (2 <= maxfds)%nat -> Forall (sorted_from 0) bws -> Forall (fun vs => end_from 0 vs <= size) bws ->
  (maxfds < length bws)%nat ->
  exists out, tool_chrom W maxfds size bws thr adj clip = Ok (map IV out) /\
    sorted_from 0 out /\ forall x, sig out x = tool_expected bws thr adj clip x.
Proof.
  intros HW Hk Hs He Hn.
  assert (Hq : map (fun vs => map IV (query vs 0 size)) bws = map (map IV) bws).
  { clear -Hs He. induction bws as [|vs r IH]; [reflexivity|]. inversion Hs; subst. inversion He; subst.
    cbn [map]. rewrite IH by assumption. rewrite (query_all size vs 0) by assumption. reflexivity. }
  unfold tool_chrom. cbv zeta. rewrite (proj2 (Nat.ltb_lt maxfds (length bws))) by lia. rewrite Hq.
  destruct (chunk_loop_ok W maxfds HW Hk (S (length bws)) bws Hs ltac:(lia)) as [Ms [E1 [S1 G1]]]. rewrite E1.
  destruct (merge_many_ok W Ms HW S1) as [merged [Em [Sm [Zm Gm]]]].
  rewrite (merging_values_eq _ _ _ _ _ _ Em). eexists. split; [reflexivity|]. split; [apply pipeline_sorted; exact Sm|].
  intros x. rewrite (expected_of_merged Ms _ _ _ _ _ 0 Sm (Gm x)). apply tool_expected_ext. apply G1.
Qed.

(* ------------------------------------------------------------------ output-type detection *)
Lemma bytes_eqb_refl a : bytes_eqb a a = true.
Proof. induction a as [|x r IH]; [reflexivity|]. cbn [bytes_eqb]. rewrite N.eqb_refl, IH. reflexivity. Qed.
Lemma to_lower_app a b : to_lower (a ++ b) = to_lower a ++ to_lower b.
Proof. unfold to_lower. apply map_app. Qed.
Lemma to_lower_length a : length (to_lower a) = length a.
Proof. unfold to_lower. apply map_length. Qed.
Lemma skipn_app_plus {X} (a b : list X) k : skipn (length a + k) (a ++ b) = skipn k b.
Proof. induction a as [|x r IH]; [reflexivity|]. cbn [length app Nat.add skipn]. exact IH. Qed.
Lemma ends_with_app a suf : ends_with (a ++ suf) suf = true.
Proof.
  unfold ends_with. rewrite app_length. rewrite (proj2 (Nat.leb_le (length suf) (length a + length suf))) by lia.
  replace (length a + length suf - length suf)%nat with (length a + 0)%nat by lia.
  rewrite skipn_app_plus. cbn [skipn]. rewrite bytes_eqb_refl. reflexivity.
Qed.
(* a name ending with a 9-byte suffix: whether it also ends with a shorter suffix is decided on the suffix *)
Lemma ends_with_app_short a b suf : (length suf <= length b)%nat ->
  ends_with (a ++ b) suf = bytes_eqb (skipn (length b - length suf) b) suf.
Proof.
  intros H. unfold ends_with. rewrite app_length. rewrite (proj2 (Nat.leb_le (length suf) (length a + length b))) by lia.
  replace (length a + length b - length suf)%nat with (length a + (length b - length suf))%nat by lia.
  rewrite skipn_app_plus. reflexivity.
Qed.

Lemma detect_suffix stem suf :
  (to_lower suf = s_dot_bw \/ to_lower suf = s_dot_bigwig -> detect_output None (stem ++ suf) = Some OBigWig) /\
  (to_lower suf = s_dot_bedgraph -> detect_output None (stem ++ suf) = Some OBedGraph).
Proof.
  unfold detect_output. rewrite to_lower_app. split.
  - intros [E|E]; rewrite E, ends_with_app; [reflexivity|]. rewrite orb_true_r. reflexivity.
  - intros E. rewrite E. rewrite ends_with_app.
    rewrite !ends_with_app_short by (cbn; lia). reflexivity.
Qed.
Lemma detect_type t name :
  (to_lower t = s_bigwig -> detect_output (Some t) name = Some OBigWig) /\
  (to_lower t = s_bedgraph -> detect_output (Some t) name = Some OBedGraph).
Proof.
  unfold detect_output. split; intros E; rewrite E; reflexivity.
Qed.
(* the three suffixes as the help text spells them: ".bw", ".bigWig", ".bedGraph" *)
Lemma detect_documented stem :
  detect_output None (stem ++ [46; 98; 119]) = Some OBigWig /\
  detect_output None (stem ++ [46; 98; 105; 103; 87; 105; 103]) = Some OBigWig /\
  detect_output None (stem ++ [46; 98; 101; 100; 71; 114; 97; 112; 104]) = Some OBedGraph.
Proof.
  split; [|split].
  - apply (proj1 (detect_suffix stem _)). left. reflexivity.
  - apply (proj1 (detect_suffix stem _)). right. reflexivity.
  - apply (proj2 (detect_suffix stem _)). reflexivity.
Qed.

Lemma detect_all stem suf t name :
  (to_lower suf = s_dot_bw \/ to_lower suf = s_dot_bigwig -> detect_output None (stem ++ suf) = Some OBigWig) /\
  (to_lower suf = s_dot_bedgraph -> detect_output None (stem ++ suf) = Some OBedGraph) /\
  (to_lower t = s_bigwig -> detect_output (Some t) name = Some OBigWig) /\
  (to_lower t = s_bedgraph -> detect_output (Some t) name = Some OBedGraph) /\
  detect_output None (stem ++ [46; 98; 119]) = Some OBigWig /\
  detect_output None (stem ++ [46; 98; 105; 103; 87; 105; 103]) = Some OBigWig /\
  detect_output None (stem ++ [46; 98; 101; 100; 71; 114; 97; 112; 104]) = Some OBedGraph.
Proof.
  exact (conj (proj1 (detect_suffix stem suf)) (conj (proj2 (detect_suffix stem suf))
        (conj (proj1 (detect_type t name)) (conj (proj2 (detect_type t name)) (detect_documented stem))))).
Qed.
