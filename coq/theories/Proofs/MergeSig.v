(* Per-base signal of value lists: basic facts about [inb], [sig], [sigz], [cov], [sorted_from]. *)
From BT Require Import Base.Util Model.Merge.
Local Open Scope N_scope.

Lemma inb_true_iff v x : inb v x = true <-> v_start v <= x < v_end v.
Proof.
  unfold inb. rewrite andb_true_iff, N.leb_le, N.ltb_lt. tauto.
Qed.
Lemma inb_false_iff v x : inb v x = false <-> (x < v_start v \/ v_end v <= x).
Proof.
  unfold inb. rewrite andb_false_iff, N.leb_gt, N.ltb_ge. tauto.
Qed.
Lemma inb_true v x : v_start v <= x < v_end v -> inb v x = true.
Proof. apply inb_true_iff. Qed.
Lemma inb_false v x : (x < v_start v \/ v_end v <= x) -> inb v x = false.
Proof. apply inb_false_iff. Qed.

Lemma isz_true_iff z : isz z = true <-> z = 0%Z.
Proof. unfold isz. apply Z.eqb_eq. Qed.
Lemma isz_false_iff z : isz z = false <-> z <> 0%Z.
Proof. unfold isz. apply Z.eqb_neq. Qed.

Lemma sigz_app l1 l2 x : sigz (l1 ++ l2) x = (sigz l1 x + sigz l2 x)%Z.
Proof. induction l1 as [|v r IH]; cbn [sigz app]; [reflexivity|]. rewrite IH. lia. Qed.
Lemma cov_app l1 l2 x : cov (l1 ++ l2) x = cov l1 x || cov l2 x.
Proof. unfold cov. apply existsb_app. Qed.

Lemma cov_false_sigz l x : cov l x = false -> sigz l x = 0%Z.
Proof.
  induction l as [|v r IH]; cbn [cov existsb sigz]; [reflexivity|].
  intros H. apply orb_false_iff in H. destruct H as [H1 H2]. rewrite H1.
  unfold cov in IH. rewrite (IH H2). reflexivity.
Qed.
Lemma cov_false_sig l x : cov l x = false -> sig l x = None.
Proof.
  induction l as [|v r IH]; cbn [cov existsb sig]; [reflexivity|].
  intros H. apply orb_false_iff in H. destruct H as [H1 H2]. rewrite H1. apply IH. exact H2.
Qed.

Lemma sorted_from_weaken lo lo' l : lo' <= lo -> sorted_from lo l -> sorted_from lo' l.
Proof. destruct l as [|v r]; cbn [sorted_from]; [tauto|]. intros H [H1 H2]. split; [lia|exact H2]. Qed.

Lemma sorted_from_starts lo l : sorted_from lo l -> Forall (fun v => lo <= v_start v /\ v_start v < v_end v) l.
Proof.
  revert lo. induction l as [|v r IH]; intros lo H; [constructor|].
  cbn [sorted_from] in H. destruct H as [H1 [H2 H3]]. constructor; [lia|].
  eapply Forall_impl; [|apply (IH _ H3)]. cbn. intros a [Ha Hb]. lia.
Qed.

Lemma sorted_from_below_cov lo l x : sorted_from lo l -> x < lo -> cov l x = false.
Proof.
  intros Hs Hx. apply sorted_from_starts in Hs. unfold cov.
  induction Hs as [|v r [Hv1 Hv2] _ IH]; cbn [existsb]; [reflexivity|].
  rewrite IH, inb_false by lia. reflexivity.
Qed.
Lemma sorted_from_below lo l x : sorted_from lo l -> x < lo -> sigz l x = 0%Z.
Proof. intros Hs Hx. apply cov_false_sigz. eapply sorted_from_below_cov; eauto. Qed.

(* on a sorted disjoint list the first containing value is the only one *)
Lemma sorted_sig lo l x : sorted_from lo l -> sig l x = if cov l x then Some (sigz l x) else None.
Proof.
  revert lo. induction l as [|v r IH]; intros lo Hs; [reflexivity|].
  cbn [sorted_from] in Hs. destruct Hs as [H1 [H2 H3]].
  cbn [sig cov existsb sigz]. destruct (inb v x) eqn:E.
  - cbn [orb]. apply inb_true_iff in E. rewrite (sorted_from_below _ _ _ H3) by lia. f_equal. lia.
  - cbn [orb]. change (existsb (fun v0 => inb v0 x) r) with (cov r x). rewrite (IH _ H3).
    destruct (cov r x); [f_equal; lia|reflexivity].
Qed.
Lemma sorted_oz_sig lo l x : sorted_from lo l -> oz (sig l x) = sigz l x.
Proof.
  intros Hs. rewrite (sorted_sig _ _ _ Hs). destruct (cov l x) eqn:E; cbn [oz]; [reflexivity|].
  symmetry. apply cov_false_sigz. exact E.
Qed.
Lemma sorted_nonzero_cov lo l x : sorted_from lo l -> Forall (fun v => v_val v <> 0%Z) l ->
  cov l x = negb (isz (sigz l x)).
Proof.
  revert lo. induction l as [|v r IH]; intros lo Hs Hnz; [reflexivity|].
  cbn [sorted_from] in Hs. destruct Hs as [H1 [H2 H3]]. inversion Hnz as [|? ? Hv Hr]; subst.
  cbn [cov existsb sigz]. destruct (inb v x) eqn:E.
  - apply inb_true_iff in E. rewrite (sorted_from_below _ _ _ H3) by lia. cbn [orb].
    symmetry. apply negb_true_iff. apply isz_false_iff. lia.
  - cbn [orb]. change (existsb (fun v0 => inb v0 x) r) with (cov r x). rewrite (IH _ H3 Hr).
    rewrite Z.add_0_l. reflexivity.
Qed.
(* hence: sorted, disjoint, no zero value  =>  sig is the non-zero part of the sum *)
Lemma sorted_nonzero_sig lo l x : sorted_from lo l -> Forall (fun v => v_val v <> 0%Z) l ->
  sig l x = nz_opt (sigz l x).
Proof.
  intros Hs Hnz. rewrite (sorted_sig _ _ _ Hs), (sorted_nonzero_cov _ _ _ Hs Hnz). unfold nz_opt.
  destruct (isz (sigz l x)); reflexivity.
Qed.

Lemma sorted_from_app lo mid l1 l2 :
  sorted_from lo l1 -> Forall (fun v => v_end v <= mid) l1 -> lo <= mid -> sorted_from mid l2 ->
  sorted_from lo (l1 ++ l2).
Proof.
  revert lo. induction l1 as [|v r IH]; intros lo H1 Hf Hlm H2; cbn [app].
  - eapply sorted_from_weaken; eauto.
  - cbn [sorted_from] in *. destruct H1 as [Ha [Hb Hc]]. inversion Hf as [|? ? Hv Hr]; subst.
    split; [exact Ha|]. split; [exact Hb|]. apply IH; auto.
Qed.

Lemma sorted_fromb_iff lo l : sorted_fromb lo l = true <-> sorted_from lo l.
Proof.
  revert lo. induction l as [|v r IH]; intros lo; cbn [sorted_fromb sorted_from]; [tauto|].
  rewrite !andb_true_iff, N.leb_le, N.ltb_lt, IH. tauto.
Qed.

(* the sum of several sorted streams, written with [sigz] *)
Fixpoint ssumz (vss : list (list value)) (x : N) : Z :=
  match vss with [] => 0%Z | vs :: r => (sigz vs x + ssumz r x)%Z end.
Lemma ssum_ssumz vss x : Forall (sorted_from 0) vss -> ssum vss x = ssumz vss x.
Proof.
  induction 1 as [|vs r Hs _ IH]; cbn [ssum ssumz]; [reflexivity|].
  rewrite IH, (sorted_oz_sig _ _ _ Hs). reflexivity.
Qed.
