(* C04, history independence: the caching reader (bbiread.rs CachedBBIFileRead, Model/CachedRead.v)
   answers every bigBed interval query of every finite query history exactly as the stateless
   reader does.  Invariant: every cached index node / block equals a fresh read of its key (the
   file is immutable); it holds for the empty cache, survives every lookup, insertion and the
   reset of the block map at CACHE_LIMIT entries. *)
From BT Require Import Base.Util Base.LE Base.Float Generated.Consts Model.RTree Model.BBIFile Model.BigWigWrite Model.BBIRead
  Model.CachedRead Model.BigBedWrite Model.BBIReadBed.
Local Open Scope N_scope.

Section Cached.
Variable infl : list N -> list N.
Variable bs : list N.
Variable i : info.

Definition cache_ok (c : cache) : Prop :=
  (forall off n, assocN off (c_nodes c) = Some n -> read_node (h_big (i_hdr i)) bs off = Ok n)
  /\ (forall b d, assocB b (c_blocks c) = Some d -> block_data infl i bs b = Ok d).

Lemma cache0_ok : cache_ok cache0.
Proof. split; intros; discriminate. Qed.

Lemma block_eqb_eq a b : block_eqb a b = true -> a = b.
Proof.
  unfold block_eqb. intros H. apply andb_true_iff in H as [H1 H2]. apply N.eqb_eq in H1, H2.
  destruct a, b. cbn [fst snd] in *. congruence.
Qed.

Lemma c_read_node_ok c off : cache_ok c ->
  fst (c_read_node (h_big (i_hdr i)) bs c off) = read_node (h_big (i_hdr i)) bs off
  /\ cache_ok (snd (c_read_node (h_big (i_hdr i)) bs c off)).
Proof.
  intros [Hn Hb]. unfold c_read_node. destruct (assocN off (c_nodes c)) as [n|] eqn:E.
  - cbn [fst snd]. split; [symmetry; apply Hn; exact E|split; assumption].
  - destruct (read_node (h_big (i_hdr i)) bs off) as [n| | |] eqn:Er; cbn [fst snd]; (split; [reflexivity|]); try (split; assumption).
    split; [|exact Hb]. cbn [c_nodes]. intros off' n' H. cbn [assocN] in H.
    destruct (off' =? off) eqn:Eo; [apply N.eqb_eq in Eo; subst; inversion H; subst; exact Er|apply Hn; exact H].
Qed.

Lemma c_block_data_ok c b : cache_ok c ->
  fst (c_block_data infl i bs c b) = block_data infl i bs b /\ cache_ok (snd (c_block_data infl i bs c b)).
Proof.
  intros [Hn Hb]. unfold c_block_data. destruct (assocB b (c_blocks c)) as [d|] eqn:E.
  - cbn [fst snd]. split; [symmetry; apply Hb; exact E|split; assumption].
  - set (c1 := if CACHE_LIMIT <=? Nlen (c_blocks c) then {| c_nodes := c_nodes c; c_blocks := [] |} else c).
    assert (Hc1 : cache_ok c1).
    { unfold c1. destruct (CACHE_LIMIT <=? Nlen (c_blocks c)); [|split; assumption].
      split; [exact Hn|]. cbn [c_blocks]. intros; discriminate. }
    destruct Hc1 as [Hn1 Hb1].
    destruct (block_data infl i bs b) as [d| | |] eqn:Er; cbn [fst snd]; (split; [reflexivity|]); try (split; assumption).
    split; [exact Hn1|]. cbn [c_blocks]. intros b' d' H. cbn [assocB] in H.
    destruct (block_eqb b' b) eqn:Eo; [apply block_eqb_eq in Eo; subst; inversion H; subst; exact Er|apply Hb1; exact H].
Qed.

Lemma c_search_loop_ok q qs qe : forall fuel c queue, cache_ok c ->
  fst (c_search_loop fuel (h_big (i_hdr i)) bs c queue q qs qe) = search_loop fuel (h_big (i_hdr i)) bs queue q qs qe
  /\ cache_ok (snd (c_search_loop fuel (h_big (i_hdr i)) bs c queue q qs qe)).
Proof.
  induction fuel as [|f IH]; intros c queue Hc; [split; [reflexivity|exact Hc]|].
  cbn [c_search_loop search_loop]. destruct queue as [|off rest]; [split; [reflexivity|exact Hc]|].
  destruct (c_read_node_ok c off Hc) as [E1 Hc1].
  destruct (c_read_node (h_big (i_hdr i)) bs c off) as [r c1]. cbn [fst snd] in E1, Hc1. rewrite <- E1.
  destruct r as [[items|items]| | |]; cbn [rbind]; try (split; [reflexivity|exact Hc1]).
  - destruct (IH c1 rest Hc1) as [E2 Hc2].
    destruct (c_search_loop f (h_big (i_hdr i)) bs c1 rest q qs qe) as [r2 c2]. cbn [fst snd] in E2, Hc2. rewrite <- E2.
    destruct r2; cbn [fst snd rbind]; split; try reflexivity; exact Hc2.
  - apply IH. exact Hc1.
Qed.

Lemma c_bb_collect_ok chrom s e : forall l c, cache_ok c ->
  fst (c_bb_collect infl i bs c chrom s e l) = collect_blocks (fun b => block_entries infl i bs b chrom s e) l
  /\ cache_ok (snd (c_bb_collect infl i bs c chrom s e l)).
Proof.
  induction l as [|b r IH]; intros c Hc; [split; [reflexivity|exact Hc]|].
  cbn [c_bb_collect collect_blocks]. unfold block_entries at 1.
  destruct (c_block_data_ok c b Hc) as [E1 Hc1].
  destruct (c_block_data infl i bs c b) as [rd c1]. cbn [fst snd] in E1, Hc1. rewrite <- E1.
  destruct rd as [d| | |]; cbn [rbind]; try (split; [reflexivity|exact Hc1]).
  destruct (block_entries_of i d chrom s e) as [a| | |]; cbn [rbind]; try (split; [reflexivity|exact Hc1]).
  destruct (IH c1 Hc1) as [E2 Hc2].
  destruct (c_bb_collect infl i bs c1 chrom s e r) as [r2 c2]. cbn [fst snd] in E2, Hc2. rewrite <- E2.
  destruct r2; cbn [fst snd rbind]; split; try reflexivity; exact Hc2.
Qed.

Theorem c_bb_interval_ok c cn s e : cache_ok c ->
  fst (c_bb_interval infl bs i c cn s e) = bb_interval infl bs i cn s e
  /\ cache_ok (snd (c_bb_interval infl bs i c cn s e)).
Proof.
  intros Hc. unfold c_bb_interval, bb_interval.
  destruct (chrom_id i cn) as [chrom| | |]; cbn [rbind fst snd]; try (split; [reflexivity|exact Hc]).
  destruct (cir_tree_root (h_big (i_hdr i)) bs (h_full_index_off (i_hdr i))) as [root| | |]; cbn [rbind fst snd];
    try (split; [reflexivity|exact Hc]).
  unfold search_blocks, search_bytes.
  destruct (c_search_loop_ok chrom s e (S (length bs)) c [root] Hc) as [E1 Hc1].
  destruct (c_search_loop (S (length bs)) (h_big (i_hdr i)) bs c [root] chrom s e) as [r c1]. cbn [fst snd] in E1, Hc1.
  rewrite <- E1. destruct r as [blocks| | |]; cbn [rbind fst snd]; try (split; [reflexivity|exact Hc1]).
  apply c_bb_collect_ok. exact Hc1.
Qed.

(* every answer of every history through one caching reader is the stateless answer *)
Theorem c_bb_history_ok : forall qs c, cache_ok c ->
  c_bb_history infl bs i c qs = map (fun q => bb_interval infl bs i (fst (fst q)) (snd (fst q)) (snd q)) qs.
Proof.
  induction qs as [|[[cn s] e] qs IH]; intros c Hc; [reflexivity|].
  cbn [c_bb_history map fst snd]. destruct (c_bb_interval_ok c cn s e Hc) as [E Hc1].
  destruct (c_bb_interval infl bs i c cn s e) as [a c1]. cbn [fst snd] in E, Hc1. rewrite E. f_equal. apply IH. exact Hc1.
Qed.
End Cached.
