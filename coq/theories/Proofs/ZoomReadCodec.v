(* C07, reading zoom records back, part 1: the record codec.
   encode_zoom_section writes a record as four u32 (chromosome, start, end, covered bases) and four
   f32 (min, max, sum, sum of squares, each narrowed from f64 by [to_f32]); get_zoom_block_values
   (parse_zrecs) decodes the same 32 bytes.  What comes back is [zrec_read fp z]: the integer fields
   as written, item count 0 (not stored), and each statistic [f32_rt (to_f32 fp x)], the value
   denoted by the f32 bit pattern of the narrowed statistic.  [bits_of_f32_lt]: every pattern the
   encoder produces fits the 4-byte field, for every value and every arithmetic mode, so no
   truncation happens.  [f32_rt_decode]: a value that came from an f32 pattern (as the minimum and
   maximum of a record always do) is read back unchanged. *)
From BT Require Import Base.Util Base.LE Base.Float Generated.Consts Model.RTree Model.BBIFile
  Model.BigWigWrite Model.BBIRead Proofs.RTreeCodec Proofs.FileRegions Proofs.BigWigFileData Proofs.ZoomQuery.

(* ---------- the f32 bit pattern fits 32 bits ---------- *)
Section F32Bits.
Local Open Scope Z_scope.

Lemma bitlen_spec m : m <> 0 -> 0 < bitlen m /\ 2 ^ (bitlen m - 1) <= Z.abs m < 2 ^ bitlen m.
Proof.
  intros H. unfold bitlen. destruct (Z.eqb_spec m 0) as [E|_]; [contradiction|].
  assert (Ha : 0 < Z.abs m) by lia.
  destruct (Z.log2_spec _ Ha) as [H1 H2]. pose proof (Z.log2_nonneg (Z.abs m)) as H0.
  replace (Z.log2 (Z.abs m) + 1 - 1) with (Z.log2 (Z.abs m)) by lia.
  replace (Z.log2 (Z.abs m) + 1) with (Z.succ (Z.log2 (Z.abs m))) by lia. lia.
Qed.
Lemma bitlen_abs m : bitlen (Z.abs m) = bitlen m.
Proof.
  unfold bitlen. rewrite Z.abs_involutive.
  destruct (Z.eqb_spec m 0) as [->|H]; [reflexivity|]. destruct (Z.eqb_spec (Z.abs m) 0); [lia|reflexivity].
Qed.
Lemma bitlen_opp m : bitlen (- m) = bitlen m.
Proof. rewrite <- bitlen_abs, Z.abs_opp. apply bitlen_abs. Qed.

(* what rounding to binary32 returns: zero, or an exponent >= -149, magnitude below 2^128 and a
   significand of at most 24 bits (2^24 itself when the rounding carried) *)
Definition f32_shape (x : fl) : Prop :=
  match x with
  | FFin m e => m = 0 \/ (-149 <= e /\ e + bitlen m <= 128 /\ Z.abs m <= 2 ^ 24)
  | _ => True
  end.

Lemma round_f32_shape m e : f32_shape (round_dy 24 (-149) 128 m e).
Proof.
  unfold round_dy. destruct (Z.eqb_spec m 0) as [->|Hm]; [left; reflexivity|].
  destruct (bitlen_spec m Hm) as [Hn [Hlo Hhi]].
  set (n := bitlen m) in *. set (e' := Z.max (e + n - 24) (-149)).
  destruct (Z.leb_spec e' e) as [Hle|Hgt].
  - cbv beta iota. destruct (Z.ltb_spec 128 (e + bitlen m)); [exact I|].
    destruct (Z.eqb_spec m 0); [left; reflexivity|right]. fold n in H.
    split; [lia|]. split; [exact H|].
    assert (n <= 24) by lia. pose proof (Z.pow_le_mono_r 2 n 24 ltac:(lia) ltac:(lia)). lia.
  - set (shift := e' - e). set (a := Z.abs m). set (q := Z.shiftr a shift).
    set (rem := a - Z.shiftl q shift). set (half := Z.shiftl 1 (shift - 1)).
    set (q' := if half <? rem then q + 1 else if rem =? half then if Z.odd q then q + 1 else q else q).
    assert (Hq : 0 <= q < 2 ^ 24).
    { unfold q. rewrite Z.shiftr_div_pow2 by (unfold shift; lia).
      assert (Hp : 0 < 2 ^ shift) by (apply Z.pow_pos_nonneg; unfold shift; lia).
      split; [apply Z.div_pos; [unfold a; lia|exact Hp]|]. apply Z.div_lt_upper_bound; [exact Hp|].
      assert (Hns : n <= shift + 24) by (unfold shift, e'; lia).
      pose proof (Z.pow_le_mono_r 2 n (shift + 24) ltac:(lia) Hns) as Hpw.
      rewrite Z.pow_add_r in Hpw by (unfold shift; lia). fold a in Hhi. lia. }
    assert (Hq' : 0 <= q' <= 2 ^ 24).
    { unfold q'. destruct (half <? rem); [lia|]. destruct (rem =? half); [|lia]. destruct (Z.odd q); lia. }
    set (m2 := if m <? 0 then - q' else q'). cbv beta iota.
    destruct (Z.ltb_spec 128 (e' + bitlen m2)); [exact I|].
    destruct (Z.eqb_spec m2 0); [left; reflexivity|right].
    split; [unfold e'; lia|]. split; [assumption|]. unfold m2. destruct (m <? 0); lia.
Qed.

Lemma to_N_lt z : z < 4294967296 -> (Z.to_N z < 4294967296)%N.
Proof. intros H. destruct z as [|p|p]; cbn [Z.to_N]; lia. Qed.

Theorem bits_of_f32_lt x : (bits_of_f32 x < 4294967296)%N.
Proof.
  unfold bits_of_f32, encode_bits. cbv zeta.
  change (Z.shiftl 1 (8 - 1) - 1) with 127. change (Z.shiftl 1 8 - 1) with 255.
  change (23 + 1) with 24. change (1 - 127 - 23) with (-149). change (127 + 1) with 128.
  set (r := match x with FFin m e => round_dy 24 (-149) 128 m e | y => y end).
  assert (Hs : f32_shape r) by (unfold r; destruct x; [apply round_f32_shape|exact I|exact I]).
  destruct r as [m e| |s].
  - destruct (Z.eqb_spec m 0) as [|Hm]; [reflexivity|]. destruct Hs as [Hs|(He & Hb & Ha)]; [contradiction|].
    rewrite bitlen_abs. destruct (bitlen_spec m Hm) as [Hn [Hlo Hhi]]. set (n := bitlen m) in *. set (a := Z.abs m) in *.
    assert (Hsgn : 0 <= (if m <? 0 then Z.shiftl 1 (8 + 23) else 0) <= 2147483648)
      by (destruct (m <? 0); [change (Z.shiftl 1 (8 + 23)) with 2147483648|]; lia).
    set (sgn := if m <? 0 then Z.shiftl 1 (8 + 23) else 0) in *.
    destruct (Z.ltb_spec (e + n - 1) (-149 + 23)) as [Hsub|Hnorm]; apply to_N_lt.
    + rewrite Z.shiftl_mul_pow2 by lia.
      assert (Hp : 0 < 2 ^ (e - -149)) by (apply Z.pow_pos_nonneg; lia).
      assert (a * 2 ^ (e - -149) < 2 ^ 23).
      { apply Z.lt_le_trans with (2 ^ n * 2 ^ (e - -149)); [apply Z.mul_lt_mono_pos_r; assumption|].
        rewrite <- Z.pow_add_r by lia. apply Z.pow_le_mono_r; lia. }
      lia.
    + assert (Hn25 : n <= 25).
      { destruct (Z.le_gt_cases n 25) as [|Hc]; [assumption|exfalso].
        pose proof (Z.pow_le_mono_r 2 25 (n - 1) ltac:(lia) ltac:(lia)). change (2 ^ 25) with 33554432 in *.
        change (2 ^ 24) with 16777216 in *. lia. }
      assert (HM : Z.shiftl a (24 - n) < 2 ^ 24).
      { destruct (Z.le_gt_cases n 24) as [Hc|Hc].
        - rewrite Z.shiftl_mul_pow2 by lia.
          assert (Hp : 0 < 2 ^ (24 - n)) by (apply Z.pow_pos_nonneg; lia).
          apply Z.lt_le_trans with (2 ^ n * 2 ^ (24 - n)); [apply Z.mul_lt_mono_pos_r; assumption|].
          rewrite <- Z.pow_add_r by lia. replace (n + (24 - n)) with 24 by lia. lia.
        - replace (24 - n) with (- 1) by lia. change (Z.shiftl a (-1)) with (Z.shiftr a 1). rewrite Z.shiftr_div_pow2 by lia.
          change (2 ^ 1) with 2. change (2 ^ 24) with 16777216 in *. apply Z.div_lt_upper_bound; lia. }
      rewrite (Z.shiftl_mul_pow2 (e + n - 1 + 127)) by lia. change (Z.shiftl 1 23) with 8388608.
      change (2 ^ 23) with 8388608. change (2 ^ 24) with 16777216 in HM. lia.
  - reflexivity.
  - destruct s; reflexivity.
Qed.

(* ---------- a value that came from an f32 pattern is stored and read back unchanged ---------- *)
Lemma bitlen_eq m k : 0 < k -> 2 ^ (k - 1) <= Z.abs m < 2 ^ k -> bitlen m = k.
Proof.
  intros Hk [H1 H2]. assert (Hp : 0 < 2 ^ (k - 1)) by (apply Z.pow_pos_nonneg; lia).
  unfold bitlen. destruct (Z.eqb_spec m 0); [lia|].
  rewrite (Z.log2_unique (Z.abs m) (k - 1)); [lia|lia|]. replace (Z.succ (k - 1)) with k by lia. lia.
Qed.

(* the (significand, exponent) pairs decode_bits 8 23 returns for finite non-zero patterns *)
Definition canon32 (m e : Z) : Prop :=
  (e = -149 /\ 0 < Z.abs m < 2 ^ 23) \/ (-149 <= e <= 104 /\ 2 ^ 23 <= Z.abs m < 2 ^ 24).

Lemma canon32_bitlen m e : canon32 m e ->
  m <> 0 /\ 0 < bitlen m <= 24 /\ (2 ^ 23 <= Z.abs m -> bitlen m = 24) /\ (Z.abs m < 2 ^ 23 -> bitlen m <= 23).
Proof.
  intros H. assert (Hm : m <> 0) by (destruct H as [[_ H]|[_ H]]; change (2 ^ 23) with 8388608 in H; lia).
  destruct (bitlen_spec m Hm) as [Hn [Hlo Hhi]]. split; [exact Hm|].
  assert (H23 : Z.abs m < 2 ^ 23 -> bitlen m <= 23).
  { intros Hlt. destruct (Z.le_gt_cases (bitlen m) 23) as [|Hc]; [assumption|exfalso].
    pose proof (Z.pow_le_mono_r 2 23 (bitlen m - 1) ltac:(lia) ltac:(lia)). lia. }
  assert (H24 : 2 ^ 23 <= Z.abs m -> Z.abs m < 2 ^ 24 -> bitlen m = 24) by (intros; apply bitlen_eq; [lia|split; assumption]).
  destruct H as [[_ H]|[_ H]].
  - specialize (H23 ltac:(lia)). split; [lia|]. split; [intros; lia|intros; lia].
  - specialize (H24 ltac:(lia) ltac:(lia)). split; [lia|]. split; [intros; assumption|intros; lia].
Qed.

Lemma round_canon32 m e : canon32 m e -> round_dy 24 (-149) 128 m e = FFin m e.
Proof.
  intros H. destruct (canon32_bitlen m e H) as (Hm & Hn & Hn24 & Hn23).
  unfold round_dy. destruct (Z.eqb_spec m 0) as [|_]; [contradiction|].
  assert (He : Z.max (e + bitlen m - 24) (-149) <= e /\ e + bitlen m <= 128).
  { destruct H as [[-> H]|[He H]]; [specialize (Hn23 ltac:(lia))|specialize (Hn24 ltac:(lia))]; lia. }
  destruct He as [He1 He2].
  destruct (Z.leb_spec (Z.max (e + bitlen m - 24) (-149)) e) as [_|Hc]; [|lia]. cbv beta iota.
  destruct (Z.ltb_spec 128 (e + bitlen m)) as [Hc|_]; [lia|].
  destruct (Z.eqb_spec m 0); [contradiction|reflexivity].
Qed.

Lemma bits_canon32 m e : canon32 m e ->
  Z.of_N (bits_of_f32 (FFin m e))
  = (if m <? 0 then 2147483648 else 0)
    + (if Z.abs m <? 8388608 then Z.abs m else (e + 150) * 8388608 + (Z.abs m - 8388608)).
Proof.
  intros H. destruct (canon32_bitlen m e H) as (Hm & Hn & Hn24 & Hn23).
  unfold bits_of_f32, encode_bits. cbv zeta.
  change (Z.shiftl 1 (8 - 1) - 1) with 127. change (Z.shiftl 1 8 - 1) with 255.
  change (23 + 1) with 24. change (1 - 127 - 23) with (-149). change (127 + 1) with 128.
  rewrite (round_canon32 m e H). destruct (Z.eqb_spec m 0) as [|_]; [contradiction|].
  rewrite bitlen_abs. change (Z.shiftl 1 (8 + 23)) with 2147483648. change (2 ^ 23) with 8388608 in *. change (2 ^ 24) with 16777216 in *.
  destruct H as [[-> H]|[He H]].
  - specialize (Hn23 ltac:(lia)). destruct (Z.ltb_spec (-149 + bitlen m - 1) (-149 + 23)) as [_|Hc]; [|lia].
    destruct (Z.ltb_spec (Z.abs m) 8388608) as [_|Hc]; [|lia].
    change (-149 - -149) with 0. rewrite Z.shiftl_0_r. destruct (m <? 0); lia.
  - specialize (Hn24 ltac:(lia)). rewrite Hn24. destruct (Z.ltb_spec (e + 24 - 1) (-149 + 23)) as [Hc|_]; [lia|].
    destruct (Z.ltb_spec (Z.abs m) 8388608) as [Hc|_]; [lia|].
    change (24 - 24) with 0. rewrite Z.shiftl_0_r. rewrite Z.shiftl_mul_pow2 by lia. change (2 ^ 23) with 8388608.
    change (Z.shiftl 1 23) with 8388608. replace (e + 24 - 1 + 127) with (e + 150) by lia. destruct (m <? 0); lia.
Qed.

(* the fields of a 32-bit pattern *)
Lemma f32_fields B : 0 <= B < 4294967296 ->
  let frac := Z.land B (Z.shiftl 1 23 - 1) in
  let ex := Z.land (Z.shiftr B 23) (Z.shiftl 1 8 - 1) in
  let neg := Z.testbit B (8 + 23) in
  0 <= frac < 8388608 /\ 0 <= ex < 256 /\ B = (if neg then 2147483648 else 0) + ex * 8388608 + frac.
Proof.
  intros HB. cbv zeta.
  change (Z.shiftl 1 23 - 1) with (Z.ones 23). change (Z.shiftl 1 8 - 1) with (Z.ones 8).
  rewrite !Z.land_ones by lia. rewrite Z.shiftr_div_pow2 by lia. change (8 + 23) with 31.
  change (2 ^ 23) with 8388608. change (2 ^ 8) with 256.
  destruct (Z.testbit B 31) eqn:T; [apply Z.testbit_true in T|apply Z.testbit_false in T]; try lia;
    change (2 ^ 31) with 2147483648 in T; Z.div_mod_to_equations; lia.
Qed.

Theorem bits_of_decode_f32 b : (b < 4294967296)%N ->
  match f32_of_bits b with
  | FFin m e => (m = 0 /\ e = 0) \/ (canon32 m e /\ bits_of_f32 (FFin m e) = b)
  | _ => True
  end.
Proof.
  intros Hb. unfold f32_of_bits, decode_bits. cbv zeta.
  destruct (f32_fields (Z.of_N b) ltac:(lia)) as (Hf & Hx & HB). cbv zeta in Hf, Hx, HB.
  set (frac := Z.land (Z.of_N b) (Z.shiftl 1 23 - 1)) in *.
  set (ex := Z.land (Z.shiftr (Z.of_N b) 23) (Z.shiftl 1 8 - 1)) in *.
  set (neg := Z.testbit (Z.of_N b) (8 + 23)) in *.
  change (Z.shiftl 1 8 - 1) with 255. change (Z.shiftl 1 (8 - 1) - 1) with 127. change (Z.shiftl 1 23) with 8388608.
  destruct (Z.eqb_spec ex 255) as [|Hx255]; [destruct (frac =? 0); exact I|].
  set (m := if ex =? 0 then frac else frac + 8388608).
  set (e := (if ex =? 0 then 1 else ex) - 127 - 23).
  destruct (Z.eqb_spec m 0) as [|Hm0]; [left; split; reflexivity|right].
  assert (Hc : canon32 (if neg then - m else m) e).
  { unfold canon32, m, e in *. change (2 ^ 23) with 8388608. change (2 ^ 24) with 16777216.
    destruct (Z.eqb_spec ex 0); [left|right]; destruct neg; lia. }
  split; [exact Hc|]. apply N2Z.inj. rewrite (bits_canon32 _ _ Hc).
  rewrite HB at 1. unfold m, e in *. destruct (Z.eqb_spec ex 0) as [E0|E0].
  - destruct neg.
    + destruct (Z.ltb_spec (- frac) 0); [|lia]. destruct (Z.ltb_spec (Z.abs (- frac)) 8388608); lia.
    + destruct (Z.ltb_spec frac 0); [lia|]. destruct (Z.ltb_spec (Z.abs frac) 8388608); lia.
  - destruct neg.
    + destruct (Z.ltb_spec (- (frac + 8388608)) 0); [|lia]. destruct (Z.ltb_spec (Z.abs (- (frac + 8388608))) 8388608); lia.
    + destruct (Z.ltb_spec (frac + 8388608) 0); [lia|]. destruct (Z.ltb_spec (Z.abs (frac + 8388608)) 8388608); lia.
Qed.

(* a value denoted by an f32 pattern survives being stored as f32 and read back, and is not changed
   by the narrowing `as f32` either (IEEE mode: it is representable; exact mode: no rounding) *)
Theorem f32_store_load b : (b < 4294967296)%N ->
  f32_of_bits (bits_of_f32 (f32_of_bits b)) = f32_of_bits b
  /\ to_f32 ieee (f32_of_bits b) = f32_of_bits b /\ to_f32 exact (f32_of_bits b) = f32_of_bits b.
Proof.
  intros Hb. pose proof (bits_of_decode_f32 b Hb) as H. destruct (f32_of_bits b) as [m e| |s] eqn:E.
  - destruct H as [[-> ->]|[Hc Hbits]].
    + repeat split; reflexivity.
    + split; [rewrite Hbits; exact E|]. split; [|reflexivity]. cbn [to_f32 ieee r32]. apply round_canon32. exact Hc.
  - repeat split; reflexivity.
  - destruct s; repeat split; reflexivity.
Qed.

(* ---------- storing any f32-shaped value and reading it back preserves what it denotes ---------- *)
(* (the representation may change: decode_bits returns the normalised significand) *)
Lemma f32_fields_inv sg x fr : sg = 0 \/ sg = 2147483648 -> 0 <= x < 256 -> 0 <= fr < 8388608 ->
  Z.land (sg + x * 8388608 + fr) (Z.shiftl 1 23 - 1) = fr
  /\ Z.land (Z.shiftr (sg + x * 8388608 + fr) 23) (Z.shiftl 1 8 - 1) = x
  /\ Z.testbit (sg + x * 8388608 + fr) (8 + 23) = (sg =? 2147483648).
Proof.
  intros Hsg Hx Hfr.
  change (Z.shiftl 1 23 - 1) with (Z.ones 23). change (Z.shiftl 1 8 - 1) with (Z.ones 8).
  rewrite !Z.land_ones by lia. rewrite Z.shiftr_div_pow2 by lia. change (8 + 23) with 31.
  change (2 ^ 23) with 8388608. change (2 ^ 8) with 256.
  split; [Z.div_mod_to_equations; lia|]. split; [Z.div_mod_to_equations; lia|].
  destruct Hsg as [-> | ->].
  - change (0 =? 2147483648) with false. apply Z.testbit_false; [lia|]. change (2 ^ 31) with 2147483648.
    Z.div_mod_to_equations; lia.
  - change (2147483648 =? 2147483648) with true. apply Z.testbit_true; [lia|]. change (2 ^ 31) with 2147483648.
    Z.div_mod_to_equations; lia.
Qed.

(* decoding sign + exponent field + fraction *)
Lemma decode_fields sg x fr : sg = 0 \/ sg = 2147483648 -> 0 <= x < 255 -> 0 <= fr < 8388608 ->
  (x = 0 -> fr <> 0) ->
  f32_of_bits (Z.to_N (sg + x * 8388608 + fr))
  = FFin ((if sg =? 2147483648 then -1 else 1) * (if x =? 0 then fr else fr + 8388608))
         ((if x =? 0 then 1 else x) - 150).
Proof.
  intros Hsg Hx Hfr Hnz. unfold f32_of_bits, decode_bits. cbv zeta.
  rewrite Z2N.id by (destruct Hsg as [-> | ->]; lia).
  destruct (f32_fields_inv sg x fr Hsg ltac:(lia) Hfr) as (E1 & E2 & E3). rewrite E1, E2, E3.
  change (Z.shiftl 1 8 - 1) with 255. change (Z.shiftl 1 (8 - 1) - 1) with 127. change (Z.shiftl 1 23) with 8388608.
  destruct (Z.eqb_spec x 255) as [|_]; [lia|].
  set (m := if x =? 0 then fr else fr + 8388608).
  assert (Hm : m <> 0) by (unfold m; destruct (Z.eqb_spec x 0); [auto|lia]).
  destruct (Z.eqb_spec m 0) as [|_]; [contradiction|].
  f_equal; [destruct (sg =? 2147483648); lia|]. destruct (x =? 0); lia.
Qed.

Lemma pow2_split a b : 0 <= a -> 0 <= b -> 2 ^ (a + b) = 2 ^ a * 2 ^ b.
Proof. intros. apply Z.pow_add_r; assumption. Qed.

Lemma round_id m e : m <> 0 -> bitlen m <= 24 -> -149 <= e -> e + bitlen m <= 128 ->
  round_dy 24 (-149) 128 m e = FFin m e.
Proof.
  intros Hm Hn24 He Hov. destruct (bitlen_spec m Hm) as [Hn _].
  unfold round_dy. destruct (Z.eqb_spec m 0) as [|_]; [contradiction|].
  destruct (Z.leb_spec (Z.max (e + bitlen m - 24) (-149)) e) as [_|Hc]; [|lia]. cbv beta iota.
  destruct (Z.ltb_spec 128 (e + bitlen m)) as [Hc|_]; [lia|]. destruct (Z.eqb_spec m 0); [contradiction|reflexivity].
Qed.

(* a rounding that carried (significand 2^24) is renormalised by the encoder's own rounding *)
Lemma round_carry e : -149 <= e -> e + 25 <= 128 ->
  round_dy 24 (-149) 128 16777216 e = FFin 8388608 (e + 1)
  /\ round_dy 24 (-149) 128 (-16777216) e = FFin (-8388608) (e + 1).
Proof.
  intros He Hov. unfold round_dy.
  change (16777216 =? 0) with false. change (-16777216 =? 0) with false. cbv iota.
  change (bitlen 16777216) with 25. change (bitlen (-16777216)) with 25.
  replace (Z.max (e + 25 - 24) (-149)) with (e + 1) by lia.
  destruct (Z.leb_spec (e + 1) e) as [Hc|_]; [lia|]. replace (e + 1 - e) with 1 by lia.
  cbv zeta.
  change (Z.abs 16777216) with 16777216. change (Z.abs (-16777216)) with 16777216.
  change (Z.shiftr 16777216 1) with 8388608. change (Z.shiftl 8388608 1) with 16777216.
  change (16777216 - 16777216) with 0. change (Z.shiftl 1 (1 - 1)) with 1.
  change (1 <? 0) with false. change (0 =? 1) with false. cbv iota.
  change (16777216 <? 0) with false. change (-16777216 <? 0) with true. cbv iota.
  change (Z.opp 8388608) with (-8388608). change (bitlen 8388608) with 24. change (bitlen (-8388608)) with 24.
  destruct (Z.ltb_spec 128 (e + 1 + 24)) as [Hc|_]; [lia|].
  change (8388608 =? 0) with false. change (-8388608 =? 0) with false. cbv iota. split; reflexivity.
Qed.

(* the encoder's branch after its (re-)rounding, for a non-zero value with at most 24 significant
   bits, exponent >= -149 and magnitude below 2^128: decoding gives back the same number *)
Lemma store_load_core m e : m <> 0 -> bitlen m <= 24 -> -149 <= e -> e + bitlen m <= 128 ->
  exists m' e', f32_of_bits (bits_of_f32 (FFin m e)) = FFin m' e' /\ -149 <= e'
    /\ m' * 2 ^ (e' + 149) = m * 2 ^ (e + 149).
Proof.
  intros Hm Hn24 He Hov. destruct (bitlen_spec m Hm) as [Hn [Hlo Hhi]].
  unfold bits_of_f32, encode_bits. cbv zeta.
  change (Z.shiftl 1 (8 - 1) - 1) with 127. change (Z.shiftl 1 8 - 1) with 255.
  change (23 + 1) with 24. change (1 - 127 - 23) with (-149). change (127 + 1) with 128.
  assert (Hr : round_dy 24 (-149) 128 m e = FFin m e) by (apply round_id; assumption).
  rewrite Hr. destruct (Z.eqb_spec m 0) as [|_]; [contradiction|]. rewrite bitlen_abs.
  set (n := bitlen m) in *. set (a := Z.abs m) in *.
  change (Z.shiftl 1 (8 + 23)) with 2147483648.
  set (sg := if m <? 0 then 2147483648 else 0).
  assert (Hsg : sg = 0 \/ sg = 2147483648) by (unfold sg; destruct (m <? 0); auto).
  assert (Hsign : (if sg =? 2147483648 then -1 else 1) * a = m).
  { unfold sg, a. destruct (Z.ltb_spec m 0); [change (2147483648 =? 2147483648) with true|change (0 =? 2147483648) with false]; cbv iota; lia. }
  destruct (Z.ltb_spec (e + n - 1) (-149 + 23)) as [Hsub|Hnorm].
  - (* subnormal: exponent field 0, fraction = a * 2^(e+149) *)
    rewrite Z.shiftl_mul_pow2 by lia. replace (e - -149) with (e + 149) by lia.
    assert (Hp : 0 < 2 ^ (e + 149)) by (apply Z.pow_pos_nonneg; lia).
    assert (Hfr : 0 < a * 2 ^ (e + 149) < 8388608).
    { split; [apply Z.mul_pos_pos; unfold a; lia|]. change 8388608 with (2 ^ 23).
      apply Z.lt_le_trans with (2 ^ n * 2 ^ (e + 149)); [apply Z.mul_lt_mono_pos_r; assumption|].
      rewrite <- Z.pow_add_r by lia. apply Z.pow_le_mono_r; lia. }
    replace (sg + a * 2 ^ (e + 149)) with (sg + 0 * 8388608 + a * 2 ^ (e + 149)) by lia.
    rewrite (decode_fields sg 0 (a * 2 ^ (e + 149)) Hsg ltac:(lia) ltac:(lia) ltac:(lia)). change (0 =? 0) with true. cbv iota.
    eexists _, _. split; [reflexivity|]. split; [lia|]. change (1 - 150 + 149) with 0. rewrite Z.pow_0_r.
    rewrite <- Hsign. ring.
  - (* normal: exponent field e+n-1+127, fraction = a * 2^(24-n) - 2^23 *)
    rewrite (Z.shiftl_mul_pow2 a (24 - n)) by lia. rewrite (Z.shiftl_mul_pow2 (e + n - 1 + 127) 23) by lia.
    change (Z.shiftl 1 23) with 8388608. change (2 ^ 23) with 8388608.
    assert (Hp : 0 < 2 ^ (24 - n)) by (apply Z.pow_pos_nonneg; lia).
    assert (HM : 8388608 <= a * 2 ^ (24 - n) < 16777216).
    { split.
      - change 8388608 with (2 ^ 23). replace 23 with ((n - 1) + (24 - n)) at 1 by lia. rewrite pow2_split by lia.
        apply Z.mul_le_mono_nonneg_r; lia.
      - change 16777216 with (2 ^ 24). replace 24 with (n + (24 - n)) at 2 by lia. rewrite pow2_split by lia.
        apply Z.mul_lt_mono_pos_r; assumption. }
    set (M := a * 2 ^ (24 - n)) in *.
    replace (sg + (e + n - 1 + 127) * 8388608 + (M - 8388608)) with (sg + (e + n + 126) * 8388608 + (M - 8388608)) by lia.
    rewrite (decode_fields sg (e + n + 126) (M - 8388608) Hsg ltac:(lia) ltac:(lia) ltac:(lia)).
    destruct (Z.eqb_spec (e + n + 126) 0) as [|_]; [lia|].
    eexists _, _. split; [reflexivity|]. split; [lia|].
    replace (M - 8388608 + 8388608) with M by lia. unfold M. rewrite <- Hsign.
    replace (e + n + 126 - 150 + 149) with (e + n + 125) by lia.
    replace (e + 149) with ((24 - n) + (e + n + 125)) by lia. rewrite (pow2_split (24 - n) (e + n + 125)) by lia. ring.
Qed.

Theorem f32_store_load_value m e : f32_shape (FFin m e) -> m <> 0 ->
  exists m' e', f32_of_bits (bits_of_f32 (FFin m e)) = FFin m' e' /\ -149 <= e'
    /\ m' * 2 ^ (e' + 149) = m * 2 ^ (e + 149).
Proof.
  intros [Hz|(He & Hov & Ha)] Hm; [contradiction|].
  destruct (bitlen_spec m Hm) as [Hn [Hlo Hhi]].
  destruct (Z.le_gt_cases (bitlen m) 24) as [Hc|Hc]; [apply store_load_core; assumption|].
  (* the rounding carried: |m| = 2^24; the encoder's own rounding renormalises it to 2^23 * 2^(e+1) *)
  assert (Ham : Z.abs m = 2 ^ 24).
  { pose proof (Z.pow_le_mono_r 2 24 (bitlen m - 1) ltac:(lia) ltac:(lia)). lia. }
  assert (Hcase : m = 16777216 \/ m = - 16777216) by (change (2 ^ 24) with 16777216 in Ham; lia).
  assert (Hb25 : bitlen m = 25) by (destruct Hcase as [-> | ->]; reflexivity).
  destruct (round_carry e He ltac:(lia)) as [R1 R2].
  assert (Hbits : exists m2, (m2 = 8388608 \/ m2 = -8388608) /\ m = 2 * m2
                             /\ bits_of_f32 (FFin m e) = bits_of_f32 (FFin m2 (e + 1))).
  { destruct Hcase as [-> | ->]; [exists 8388608|exists (-8388608)]; (split; [auto|]); (split; [reflexivity|]);
      unfold bits_of_f32, encode_bits; cbv zeta;
      change (Z.shiftl 1 (8 - 1) - 1) with 127; change (23 + 1) with 24; change (1 - 127 - 23) with (-149);
      change (127 + 1) with 128; [rewrite R1|rewrite R2];
      (rewrite round_id; [reflexivity|lia|reflexivity|lia|]); [change (bitlen 8388608) with 24|change (bitlen (-8388608)) with 24]; lia. }
  destruct Hbits as (m2 & Hm2 & Em & Eb). rewrite Eb.
  destruct (store_load_core m2 (e + 1)) as (m' & e' & H1 & H2 & H3).
  - destruct Hm2 as [-> | ->]; lia.
  - destruct Hm2 as [-> | ->]; [change (bitlen 8388608) with 24|change (bitlen (-8388608)) with 24]; lia.
  - lia.
  - destruct Hm2 as [-> | ->]; [change (bitlen 8388608) with 24|change (bitlen (-8388608)) with 24]; lia.
  - exists m', e'. split; [exact H1|]. split; [exact H2|]. rewrite H3, Em.
    replace (e + 1 + 149) with (1 + (e + 149)) by lia. rewrite (pow2_split 1 (e + 149)) by lia. change (2 ^ 1) with 2. ring.
Qed.

Lemma round_dy_not_nan p emin emax m e : round_dy p emin emax m e <> FNaN.
Proof.
  unfold round_dy. destruct (m =? 0); [discriminate|].
  match goal with |- (let '(m2, e2) := ?r in _) <> _ => destruct r as [m2 e2] end.
  destruct (emax <? e2 + bitlen m2); [discriminate|]. destruct (m2 =? 0); discriminate.
Qed.

(* IEEE mode: what is read back for a finite statistic x denotes exactly the binary32 rounding of x
   ([to_f32 ieee x], ties to even, gradual underflow); an overflow to infinity is read back as that
   infinity.  Values are compared as integers after scaling by 2^149 (all exponents are >= -149). *)
Theorem f32_read_value_ieee M E :
  match to_f32 ieee (FFin M E) with
  | FFin m e =>
      exists m' e', f32_of_bits (bits_of_f32 (to_f32 ieee (FFin M E))) = FFin m' e'
        /\ (m = 0 -> m' = 0) /\ (m <> 0 -> -149 <= e /\ -149 <= e' /\ m' * 2 ^ (e' + 149) = m * 2 ^ (e + 149))
  | FInf s => f32_of_bits (bits_of_f32 (to_f32 ieee (FFin M E))) = FInf s
  | FNaN => False
  end.
Proof.
  cbn [to_f32 ieee r32]. pose proof (round_f32_shape M E) as Hs. pose proof (round_dy_not_nan 24 (-149) 128 M E) as Hn.
  destruct (round_dy 24 (-149) 128 M E) as [m e| |s]; [|contradiction|destruct s; reflexivity].
  destruct (Z.eq_dec m 0) as [->|Hm].
  - exists 0, 0. split; [reflexivity|]. split; [reflexivity|]. intros H; contradiction.
  - destruct (f32_store_load_value m e Hs Hm) as (m' & e' & H1 & H2 & H3). exists m', e'. split; [exact H1|].
    split; [intros; contradiction|]. intros _. destruct Hs as [|(He & _)]; [contradiction|]. repeat split; assumption.
Qed.
End F32Bits.

Local Open Scope N_scope.

(* ---------- the record as the reader returns it ---------- *)
(* an f32 value stored in the file and read back: the value denoted by its bit pattern *)
Definition f32_rt (x : fl) : fl := f32_of_bits (bits_of_f32 x).
(* a statistic is narrowed to f32 by the writer ([to_f32], `as f32`), stored, read back *)
Definition stat_read (fp : fpmode) (x : fl) : fl := f32_rt (to_f32 fp x).

Definition zrec_read (fp : fpmode) (z : zrec) : zrec :=
  let s := z_sum z in
  {| z_chrom := z_chrom z; z_start := z_start z; z_end := z_end z;
     z_sum := {| su_items := 0; su_bases := su_bases s;
                 su_min := stat_read fp (su_min s); su_max := stat_read fp (su_max s);
                 su_sum := stat_read fp (su_sum s); su_sumsq := stat_read fp (su_sumsq s) |} |}.

(* the integer fields fit their u32 slots *)
Definition zrec_u32 (z : zrec) : Prop :=
  z_chrom z < U32 /\ z_start z < U32 /\ z_end z < U32 /\ su_bases (z_sum z) < U32.

Lemma zrec_bytes_length fp z : length (zrec_bytes fp z) = 32%nat.
Proof. unfold zrec_bytes, f32_bytes, u32. rewrite !app_length, !enc_le_length. reflexivity. Qed.
Lemma zrecs_length fp l : length (flat_map (zrec_bytes fp) l) = (length l * 32)%nat.
Proof. apply flat_map_length_const. apply zrec_bytes_length. Qed.

(* parse_zrecs o zrec_bytes *)
Theorem parse_zrecs_ok fp : forall recs, Forall zrec_u32 recs ->
  parse_zrecs false (length recs) (flat_map (zrec_bytes fp) recs) = map (zrec_read fp) recs.
Proof.
  induction 1 as [|z l (H1 & H2 & H3 & H4) _ IH]; [reflexivity|]. unfold U32 in *.
  cbn [length flat_map map parse_zrecs]. rewrite <- IH.
  pose proof (bits_of_f32_lt (to_f32 fp (su_min (z_sum z)))) as B1.
  pose proof (bits_of_f32_lt (to_f32 fp (su_max (z_sum z)))) as B2.
  pose proof (bits_of_f32_lt (to_f32 fp (su_sum (z_sum z)))) as B3.
  pose proof (bits_of_f32_lt (to_f32 fp (su_sumsq (z_sum z)))) as B4.
  unfold zrec_read, stat_read, f32_rt. cbv zeta.
  set (b1 := bits_of_f32 (to_f32 fp (su_min (z_sum z)))) in *.
  set (b2 := bits_of_f32 (to_f32 fp (su_max (z_sum z)))) in *.
  set (b3 := bits_of_f32 (to_f32 fp (su_sum (z_sum z)))) in *.
  set (b4 := bits_of_f32 (to_f32 fp (su_sumsq (z_sum z)))) in *.
  unfold zrec_bytes, f32_bytes, u32. fold b1 b2 b3 b4.
  cbn [enc_le app firstn skipn dec]. rewrite !dec_le4 by assumption. reflexivity.
Qed.

(* the reader's filter looks at chromosome, start and end only, which are read back unchanged *)
Lemma zkeep_read fp q s e z : zkeep q s e (zrec_read fp z) = zkeep q s e z.
Proof. reflexivity. Qed.

Lemma filter_map_comm {X Y} (p : Y -> bool) (p' : X -> bool) (f : X -> Y) l :
  (forall x, p (f x) = p' x) -> filter p (map f l) = map f (filter p' l).
Proof.
  intros H. induction l as [|a l IH]; [reflexivity|]. cbn [map filter]. rewrite H.
  destruct (p' a); cbn [map]; now rewrite IH.
Qed.

(* get_zoom_block_values on the bytes of one (uncompressed) zoom section *)
Section Reader.
Variable infl : list N -> list N.
Variables (i : info) (bs : list N).
Hypothesis Hbig : h_big (i_hdr i) = false.
Hypothesis Hubuf : h_ubuf (i_hdr i) = 0.

Theorem zoom_block_values_section fp b recs q s e :
  slice bs (fst b) (N.to_nat (snd b)) = Some (flat_map (zrec_bytes fp) recs) -> Forall zrec_u32 recs ->
  zoom_block_values infl i bs b q s e = Ok (Some (map (zrec_read fp) (filter (zkeep q s e) recs))).
Proof.
  intros Hs Hok. unfold zoom_block_values.
  rewrite (block_data_plain infl i bs Hubuf b _ Hs). cbn [rbind]. rewrite Hbig.
  rewrite zrecs_length, Nat.mod_mul, Nat.div_mul by lia. cbn [Nat.eqb negb].
  rewrite (parse_zrecs_ok fp recs Hok). do 2 f_equal.
  apply filter_map_comm. intros z. reflexivity.
Qed.

(* reading a list of blocks each of which holds a section's records *)
Lemma collect_zoom_sections fp q s e : forall (hit : list (list zrec * sect)),
  Forall (fun p => slice bs (s_off (snd p)) (N.to_nat (s_size (snd p))) = Some (flat_map (zrec_bytes fp) (fst p))
                   /\ Forall zrec_u32 (fst p)) hit ->
  collect_blocks (fun b => zoom_block_values infl i bs b q s e) (map (fun p => (s_off (snd p), s_size (snd p))) hit)
  = Ok (map (zrec_read fp) (flat_map (fun p => filter (zkeep q s e) (fst p)) hit)).
Proof.
  induction 1 as [|p hit [Hs Hok] _ IH]; [reflexivity|]. cbn [map collect_blocks flat_map].
  rewrite (zoom_block_values_section fp (s_off (snd p), s_size (snd p)) (fst p) q s e Hs Hok). cbn [rbind].
  rewrite IH. cbn [rbind]. now rewrite map_app.
Qed.
End Reader.

(* ---------- minimum and maximum come back exactly ---------- *)
(* a statistic whose value is an f32 value (a stored value's own value) is read back unchanged,
   in IEEE arithmetic and in exact arithmetic *)
Lemma stat_read_f32 fp b : fp = ieee \/ fp = exact -> b < U32 -> stat_read fp (f32_of_bits b) = f32_of_bits b.
Proof.
  intros Hfp Hb. destruct (f32_store_load b Hb) as (H1 & H2 & H3). unfold stat_read, f32_rt.
  destruct Hfp as [-> | ->]; [rewrite H2|rewrite H3]; exact H1.
Qed.
