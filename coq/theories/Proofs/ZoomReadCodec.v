(* C07, reading zoom records back, part 1: the record codec.
   encode_zoom_section writes a record as four u32 (chromosome, start, end, covered bases) and four
   f32 (min, max, sum, sum of squares, each narrowed from f64 by [to_f32]); get_zoom_block_values
   (parse_zrecs) decodes the same 32 bytes.  What comes back is [zrec_read fp z]: the integer fields
   as written, item count 0 (not stored), and each statistic [f32_rt (to_f32 fp x)], the value
   denoted by the f32 bit pattern of the narrowed statistic.  [bits_of_f32_lt]: every pattern the
   encoder produces fits the 4-byte field, for every value and every arithmetic mode, so no
   truncation happens.  [f32_rt_decode]: a value that came from an f32 pattern (as the minimum and
   maximum of a record always do) is read back unchanged. *)
From BT Require Import Base.Util Base.LE Base.Float Generated.Consts Model.RTree Model.BBIFile
  Model.BigWigWrite Model.BBIRead Proofs.RTreeCodec Proofs.FileRegions Proofs.BigWigFileData Proofs.ZoomQuery.

(* ---------- the f32 bit pattern fits 32 bits ---------- *)
Section F32Bits.
Local Open Scope Z_scope.

Lemma bitlen_spec m : m <> 0 -> 0 < bitlen m /\ 2 ^ (bitlen m - 1) <= Z.abs m < 2 ^ bitlen m.
Proof.
  intros H. unfold bitlen. destruct (Z.eqb_spec m 0) as [E|_]; [contradiction|].
  assert (Ha : 0 < Z.abs m) by lia.
  destruct (Z.log2_spec _ Ha) as [H1 H2]. pose proof (Z.log2_nonneg (Z.abs m)) as H0.
  replace (Z.log2 (Z.abs m) + 1 - 1) with (Z.log2 (Z.abs m)) by lia.
  replace (Z.log2 (Z.abs m) + 1) with (Z.succ (Z.log2 (Z.abs m))) by lia. lia.
Qed.
Lemma bitlen_abs m : bitlen (Z.abs m) = bitlen m.
Proof.
  unfold bitlen. rewrite Z.abs_involutive.
  destruct (Z.eqb_spec m 0) as [->|H]; [reflexivity|]. destruct (Z.eqb_spec (Z.abs m) 0); [lia|reflexivity].
Qed.
Lemma bitlen_opp m : bitlen (- m) = bitlen m.
Proof. rewrite <- bitlen_abs, Z.abs_opp. apply bitlen_abs. Qed.

(* what rounding to binary32 returns: zero, or an exponent >= -149, magnitude below 2^128 and a
   significand of at most 24 bits (2^24 itself when the rounding carried) *)
Definition f32_shape (x : fl) : Prop :=
  match x with
  | FFin m e => m = 0 \/ (-149 <= e /\ e + bitlen m <= 128 /\ Z.abs m <= 2 ^ 24)
  | _ => True
  end.

Lemma round_f32_shape m e : f32_shape (round_dy 24 (-149) 128 m e).
Proof.
  unfold round_dy. destruct (Z.eqb_spec m 0) as [->|Hm]; [left; reflexivity|].
  destruct (bitlen_spec m Hm) as [Hn [Hlo Hhi]].
  set (n := bitlen m) in *. set (e' := Z.max (e + n - 24) (-149)).
  destruct (Z.leb_spec e' e) as [Hle|Hgt].
  - cbv beta iota. destruct (Z.ltb_spec 128 (e + bitlen m)); [exact I|].
    destruct (Z.eqb_spec m 0); [left; reflexivity|right]. fold n in H.
    split; [lia|]. split; [exact H|].
    assert (n <= 24) by lia. pose proof (Z.pow_le_mono_r 2 n 24 ltac:(lia) ltac:(lia)). lia.
  - set (shift := e' - e). set (a := Z.abs m). set (q := Z.shiftr a shift).
    set (rem := a - Z.shiftl q shift). set (half := Z.shiftl 1 (shift - 1)).
    set (q' := if half <? rem then q + 1 else if rem =? half then if Z.odd q then q + 1 else q else q).
    assert (Hq : 0 <= q < 2 ^ 24).
    { unfold q. rewrite Z.shiftr_div_pow2 by (unfold shift; lia).
      assert (Hp : 0 < 2 ^ shift) by (apply Z.pow_pos_nonneg; unfold shift; lia).
      split; [apply Z.div_pos; [unfold a; lia|exact Hp]|]. apply Z.div_lt_upper_bound; [exact Hp|].
      assert (Hns : n <= shift + 24) by (unfold shift, e'; lia).
      pose proof (Z.pow_le_mono_r 2 n (shift + 24) ltac:(lia) Hns) as Hpw.
      rewrite Z.pow_add_r in Hpw by (unfold shift; lia). fold a in Hhi. lia. }
    assert (Hq' : 0 <= q' <= 2 ^ 24).
    { unfold q'. destruct (half <? rem); [lia|]. destruct (rem =? half); [|lia]. destruct (Z.odd q); lia. }
    set (m2 := if m <? 0 then - q' else q'). cbv beta iota.
    destruct (Z.ltb_spec 128 (e' + bitlen m2)); [exact I|].
    destruct (Z.eqb_spec m2 0); [left; reflexivity|right].
    split; [unfold e'; lia|]. split; [assumption|]. unfold m2. destruct (m <? 0); lia.
Qed.

Lemma to_N_lt z : z < 4294967296 -> (Z.to_N z < 4294967296)%N.
Proof. intros H. destruct z as [|p|p]; cbn [Z.to_N]; lia. Qed.

Theorem bits_of_f32_lt x : (bits_of_f32 x < 4294967296)%N.
Proof.
  unfold bits_of_f32, encode_bits. cbv zeta.
  change (Z.shiftl 1 (8 - 1) - 1) with 127. change (Z.shiftl 1 8 - 1) with 255.
  change (23 + 1) with 24. change (1 - 127 - 23) with (-149). change (127 + 1) with 128.
  set (r := match x with FFin m e => round_dy 24 (-149) 128 m e | y => y end).
  assert (Hs : f32_shape r) by (unfold r; destruct x; [apply round_f32_shape|exact I|exact I]).
  destruct r as [m e| |s].
  - destruct (Z.eqb_spec m 0) as [|Hm]; [reflexivity|]. destruct Hs as [Hs|(He & Hb & Ha)]; [contradiction|].
    rewrite bitlen_abs. destruct (bitlen_spec m Hm) as [Hn [Hlo Hhi]]. set (n := bitlen m) in *. set (a := Z.abs m) in *.
    assert (Hsgn : 0 <= (if m <? 0 then Z.shiftl 1 (8 + 23) else 0) <= 2147483648)
      by (destruct (m <? 0); [change (Z.shiftl 1 (8 + 23)) with 2147483648|]; lia).
    set (sgn := if m <? 0 then Z.shiftl 1 (8 + 23) else 0) in *.
    destruct (Z.ltb_spec (e + n - 1) (-149 + 23)) as [Hsub|Hnorm]; apply to_N_lt.
    + rewrite Z.shiftl_mul_pow2 by lia.
      assert (Hp : 0 < 2 ^ (e - -149)) by (apply Z.pow_pos_nonneg; lia).
      assert (a * 2 ^ (e - -149) < 2 ^ 23).
      { apply Z.lt_le_trans with (2 ^ n * 2 ^ (e - -149)); [apply Z.mul_lt_mono_pos_r; assumption|].
        rewrite <- Z.pow_add_r by lia. apply Z.pow_le_mono_r; lia. }
      lia.
    + assert (Hn25 : n <= 25).
      { destruct (Z.le_gt_cases n 25) as [|Hc]; [assumption|exfalso].
        pose proof (Z.pow_le_mono_r 2 25 (n - 1) ltac:(lia) ltac:(lia)). change (2 ^ 25) with 33554432 in *.
        change (2 ^ 24) with 16777216 in *. lia. }
      assert (HM : Z.shiftl a (24 - n) < 2 ^ 24).
      { destruct (Z.le_gt_cases n 24) as [Hc|Hc].
        - rewrite Z.shiftl_mul_pow2 by lia.
          assert (Hp : 0 < 2 ^ (24 - n)) by (apply Z.pow_pos_nonneg; lia).
          apply Z.lt_le_trans with (2 ^ n * 2 ^ (24 - n)); [apply Z.mul_lt_mono_pos_r; assumption|].
          rewrite <- Z.pow_add_r by lia. replace (n + (24 - n)) with 24 by lia. lia.
        - replace (24 - n) with (- 1) by lia. change (Z.shiftl a (-1)) with (Z.shiftr a 1). rewrite Z.shiftr_div_pow2 by lia.
          change (2 ^ 1) with 2. change (2 ^ 24) with 16777216 in *. apply Z.div_lt_upper_bound; lia. }
      rewrite (Z.shiftl_mul_pow2 (e + n - 1 + 127)) by lia. change (Z.shiftl 1 23) with 8388608.
      change (2 ^ 23) with 8388608. change (2 ^ 24) with 16777216 in HM. lia.
  - reflexivity.
  - destruct s; reflexivity.
Qed.
End F32Bits.

Local Open Scope N_scope.

(* ---------- the record as the reader returns it ---------- *)
(* an f32 value stored in the file and read back: the value denoted by its bit pattern *)
Definition f32_rt (x : fl) : fl := f32_of_bits (bits_of_f32 x).
(* a statistic is narrowed to f32 by the writer ([to_f32], `as f32`), stored, read back *)
Definition stat_read (fp : fpmode) (x : fl) : fl := f32_rt (to_f32 fp x).

Definition zrec_read (fp : fpmode) (z : zrec) : zrec :=
  let s := z_sum z in
  {| z_chrom := z_chrom z; z_start := z_start z; z_end := z_end z;
     z_sum := {| su_items := 0; su_bases := su_bases s;
                 su_min := stat_read fp (su_min s); su_max := stat_read fp (su_max s);
                 su_sum := stat_read fp (su_sum s); su_sumsq := stat_read fp (su_sumsq s) |} |}.

(* the integer fields fit their u32 slots *)
Definition zrec_u32 (z : zrec) : Prop :=
  z_chrom z < U32 /\ z_start z < U32 /\ z_end z < U32 /\ su_bases (z_sum z) < U32.

Lemma zrec_bytes_length fp z : length (zrec_bytes fp z) = 32%nat.
Proof. unfold zrec_bytes, f32_bytes, u32. rewrite !app_length, !enc_le_length. reflexivity. Qed.
Lemma zrecs_length fp l : length (flat_map (zrec_bytes fp) l) = (length l * 32)%nat.
Proof. apply flat_map_length_const. apply zrec_bytes_length. Qed.

(* parse_zrecs o zrec_bytes *)
Theorem parse_zrecs_ok fp : forall recs, Forall zrec_u32 recs ->
  parse_zrecs false (length recs) (flat_map (zrec_bytes fp) recs) = map (zrec_read fp) recs.
Proof.
  induction 1 as [|z l (H1 & H2 & H3 & H4) _ IH]; [reflexivity|]. unfold U32 in *.
  cbn [length flat_map map parse_zrecs]. rewrite <- IH.
  pose proof (bits_of_f32_lt (to_f32 fp (su_min (z_sum z)))) as B1.
  pose proof (bits_of_f32_lt (to_f32 fp (su_max (z_sum z)))) as B2.
  pose proof (bits_of_f32_lt (to_f32 fp (su_sum (z_sum z)))) as B3.
  pose proof (bits_of_f32_lt (to_f32 fp (su_sumsq (z_sum z)))) as B4.
  unfold zrec_read, stat_read, f32_rt. cbv zeta.
  set (b1 := bits_of_f32 (to_f32 fp (su_min (z_sum z)))) in *.
  set (b2 := bits_of_f32 (to_f32 fp (su_max (z_sum z)))) in *.
  set (b3 := bits_of_f32 (to_f32 fp (su_sum (z_sum z)))) in *.
  set (b4 := bits_of_f32 (to_f32 fp (su_sumsq (z_sum z)))) in *.
  unfold zrec_bytes, f32_bytes, u32. fold b1 b2 b3 b4.
  cbn [enc_le app firstn skipn dec]. rewrite !dec_le4 by assumption. reflexivity.
Qed.

(* the reader's filter looks at chromosome, start and end only, which are read back unchanged *)
Lemma zkeep_read fp q s e z : zkeep q s e (zrec_read fp z) = zkeep q s e z.
Proof. reflexivity. Qed.

Lemma filter_map_comm {X Y} (p : Y -> bool) (p' : X -> bool) (f : X -> Y) l :
  (forall x, p (f x) = p' x) -> filter p (map f l) = map f (filter p' l).
Proof.
  intros H. induction l as [|a l IH]; [reflexivity|]. cbn [map filter]. rewrite H.
  destruct (p' a); cbn [map]; now rewrite IH.
Qed.

(* get_zoom_block_values on the bytes of one (uncompressed) zoom section *)
Section Reader.
Variable infl : list N -> list N.
Variables (i : info) (bs : list N).
Hypothesis Hbig : h_big (i_hdr i) = false.
Hypothesis Hubuf : h_ubuf (i_hdr i) = 0.

Theorem zoom_block_values_section fp b recs q s e :
  slice bs (fst b) (N.to_nat (snd b)) = Some (flat_map (zrec_bytes fp) recs) -> Forall zrec_u32 recs ->
  zoom_block_values infl i bs b q s e = Ok (Some (map (zrec_read fp) (filter (zkeep q s e) recs))).
Proof.
  intros Hs Hok. unfold zoom_block_values.
  rewrite (block_data_plain infl i bs Hubuf b _ Hs). cbn [rbind]. rewrite Hbig.
  rewrite zrecs_length, Nat.mod_mul, Nat.div_mul by lia. cbn [Nat.eqb negb].
  rewrite (parse_zrecs_ok fp recs Hok). do 2 f_equal.
  apply filter_map_comm. intros z. reflexivity.
Qed.

(* reading a list of blocks each of which holds a section's records *)
Lemma collect_zoom_sections fp q s e : forall (hit : list (list zrec * sect)),
  Forall (fun p => slice bs (s_off (snd p)) (N.to_nat (s_size (snd p))) = Some (flat_map (zrec_bytes fp) (fst p))
                   /\ Forall zrec_u32 (fst p)) hit ->
  collect_blocks (fun b => zoom_block_values infl i bs b q s e) (map (fun p => (s_off (snd p), s_size (snd p))) hit)
  = Ok (map (zrec_read fp) (flat_map (fun p => filter (zkeep q s e) (fst p)) hit)).
Proof.
  induction 1 as [|p hit [Hs Hok] _ IH]; [reflexivity|]. cbn [map collect_blocks flat_map].
  rewrite (zoom_block_values_section fp (s_off (snd p), s_size (snd p)) (fst p) q s e Hs Hok). cbn [rbind].
  rewrite IH. cbn [rbind]. now rewrite map_app.
Qed.
End Reader.
