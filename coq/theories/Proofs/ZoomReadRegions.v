(* C07, reading zoom records back, part 2: where each zoom level lies in the written file.
   Both zoom parts (write_zooms of the single pass with its level skipping, write_zoom_vals of the
   two passes) lay a level out as  data_bytes(sections) ++ index  and record
   (resolution, data offset, index offset) in the directory.  [level_at]: for a directory entry
   [h] there is a level [z] of the list handed to the writer with that resolution whose section
   bytes lie at zh_data h in the image and whose index, written by write_index over the sections
   placed from zh_data h, lies at zh_index h = zh_data h + size of the data. *)
From BT Require Import Base.Util Base.LE Base.Float Generated.Consts Model.RTree Model.BBIFile
  Model.BigWigWrite Model.BBIRead Proofs.RTreeCodec Proofs.FileRegions Proofs.BigWigFile
  Proofs.BigWigFileRoundTrip Proofs.BigWigFileThms Proofs.ZoomBwLevels.
Local Open Scope N_scope.

Definition level_at (o : opts) (img : list N) (zs : list zoom_level) (h : zoom_header) : Prop :=
  exists z ix lv, In z zs /\ zl_res z = zh_res h
    /\ zh_index h = zh_data h + Nlen (data_bytes (zl_secs z))
    /\ write_index (o_bs o) (o_ips o) (zh_index h) (place (zh_data h) (zl_secs z)) = Ok (ix, lv)
    /\ has_at img (zh_data h) (data_bytes (zl_secs z)) /\ has_at img (zh_index h) ix.

Lemma level_at_tl o img z zs l : Forall (level_at o img zs) l -> Forall (level_at o img (z :: zs)) l.
Proof.
  intros H. eapply Forall_impl; [|exact H]. intros h (z' & ix & lv & Hin & R). exists z', ix, lv.
  split; [now right|exact R].
Qed.

Lemma level_here o img z zs pos ix lv more :
  write_index (o_bs o) (o_ips o) (pos + Nlen (data_bytes (zl_secs z))) (place pos (zl_secs z)) = Ok (ix, lv) ->
  has_at img pos ((data_bytes (zl_secs z) ++ ix) ++ more) ->
  level_at o img (z :: zs) {| zh_res := zl_res z; zh_data := pos; zh_index := pos + Nlen (data_bytes (zl_secs z)) |}
  /\ has_at img (pos + Nlen (data_bytes (zl_secs z) ++ ix)) more.
Proof.
  intros Hw H. apply has_at_app in H as [H1 H2]. split; [|exact H2].
  apply has_at_app in H1 as [Hd Hi]. exists z, ix, lv. cbn [zh_res zh_data zh_index].
  split; [now left|]. split; [reflexivity|]. split; [reflexivity|]. split; [exact Hw|]. split; [exact Hd|exact Hi].
Qed.

(* single pass *)
Theorem wzl_regions o ds img : forall zs pos lc zc bytes hdrs,
  write_zooms_loop o ds pos zs lc zc = Ok (bytes, hdrs) -> has_at img pos bytes ->
  Forall (level_at o img zs) hdrs.
Proof.
  induction zs as [|z rest IH]; intros pos lc zc bytes hdrs H Himg; cbn [write_zooms_loop] in H.
  - injection H as <- <-. constructor.
  - destruct (_ && (ds / 2 <? _)); [apply level_at_tl; eapply IH; eassumption|].
    destruct (_ && match lc with None => false | Some l => _ end); [apply level_at_tl; eapply IH; eassumption|].
    destruct (write_index _ _ _ _) as [[ix lv]| | |] eqn:Ew; try discriminate. cbn [rbind] in H.
    destruct (_ && (o_maxzooms o <=? zc + 1)).
    + injection H as <- <-. rewrite <- (app_nil_r (_ ++ ix)) in Himg.
      destruct (level_here o img z rest pos ix lv [] Ew Himg) as [Hl _]. constructor; [exact Hl|constructor].
    + destruct (write_zooms_loop o ds _ rest _ _) as [[more hs]| | |] eqn:E; try discriminate.
      cbn [rbind] in H. injection H as <- <-.
      destruct (level_here o img z rest pos ix lv more Ew Himg) as [Hl Hm]. constructor; [exact Hl|].
      apply level_at_tl. eapply IH; eassumption.
Qed.

(* two passes *)
Theorem w2p_regions o img : forall zs pos bytes hdrs,
  write_zooms_two_pass o pos zs = Ok (bytes, hdrs) -> has_at img pos bytes ->
  Forall (level_at o img zs) hdrs.
Proof.
  induction zs as [|z rest IH]; intros pos bytes hdrs H Himg; cbn [write_zooms_two_pass] in H.
  - injection H as <- <-. constructor.
  - destruct (write_index _ _ _ _) as [[ix lv]| | |] eqn:Ew; try discriminate. cbn [rbind] in H.
    destruct (write_zooms_two_pass o _ rest) as [[more hs]| | |] eqn:E; try discriminate.
    cbn [rbind] in H. injection H as <- <-.
    destruct (level_here o img z rest pos ix lv more Ew Himg) as [Hl Hm]. constructor; [exact Hl|].
    apply level_at_tl. eapply IH; eassumption.
Qed.

(* ---------- what a level of build_levels is ---------- *)
Lemma mapM_in {X Y} (f : X -> res Y) : forall l ys y, mapM f l = Ok ys -> In y ys -> exists x, In x l /\ f x = Ok y.
Proof.
  induction l as [|x l IH]; intros ys y H Hin; cbn [mapM] in H.
  - injection H as <-. destruct Hin.
  - destruct (f x) as [y0| | |] eqn:E; try discriminate. cbn [rbind] in H.
    destruct (mapM f l) as [ys'| | |] eqn:E2; try discriminate. cbn [rbind] in H. injection H as <-.
    destruct Hin as [<-|Hin]; [exists x; split; [now left|exact E]|].
    destruct (IH ys' y eq_refl Hin) as [x' [Hx' Hf]]. exists x'. split; [now right|exact Hf].
Qed.

Definition level_secs (fp : fpmode) (o : opts) (outs : list chrom_out) (size : N) : res (list sdata) :=
  concat_res (map (fun c => zoom_sections fp (o_ips o) size (co_id c) (co_vals c)) outs).

Lemma build_levels_in fp o outs zsizes zooms z : build_levels fp o outs zsizes = Ok zooms -> In z zooms ->
  In (zl_res z) zsizes /\ level_secs fp o outs (zl_res z) = Ok (zl_secs z).
Proof.
  intros H Hin. destruct (mapM_in _ _ _ _ H Hin) as [size [Hs Hf]]. fold (level_secs fp o outs size) in Hf.
  destruct (level_secs fp o outs size) as [secs| | |] eqn:E; try discriminate. cbn [rbind] in Hf.
  injection Hf as <-. cbn [zl_res zl_secs]. split; [exact Hs|exact E].
Qed.

Lemma inc_from_pos : forall l lo x, inc_from lo l -> In x l -> lo < x.
Proof.
  induction l as [|y l IH]; intros lo x H Hin; [destruct Hin|]. destruct H as [H1 H2].
  destruct Hin as [<-|Hin]; [exact H1|]. specialize (IH _ _ H2 Hin). lia.
Qed.
