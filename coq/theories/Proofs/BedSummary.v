(* C06 for bigBed: the total summary the sweep computes (in exact arithmetic) equals the naive per-base
   statistics of the coverage depth: covered bases, sum, sum of squares, minimum and maximum over the
   covered bases; across chromosomes; item count. *)
From BT Require Import Base.Util Base.Float Model.BBIFile Model.BedSweep Spec.Depth Proofs.DepthStats Proofs.SweepRLE.
Local Open Scope N_scope.

(* ---- exact arithmetic on whole numbers ---- *)
Lemma fmul_exact_N : forall a b, fmul64 exact (f_of_N a) (f_of_N b) = f_of_N (a * b).
Proof. intros. unfold fmul64, fmul_with, f_of_N, exact, r64. rewrite N2Z.inj_mul. reflexivity. Qed.

Lemma fadd_exact_N : forall a b, fadd64 exact (f_of_N a) (f_of_N b) = f_of_N (a + b).
Proof.
  intros. unfold fadd64, fadd_with, f_of_N, exact, r64, align. cbn [Z.min Z.compare Z.sub Z.opp Z.add].
  rewrite !Z.shiftl_0_r, N2Z.inj_add. reflexivity.
Qed.

Lemma fcmp_N : forall a b, fcmp (f_of_N a) (f_of_N b) = Some (a ?= b).
Proof.
  intros. unfold fcmp, f_of_N, align. cbn [Z.min Z.compare Z.sub Z.opp Z.add].
  rewrite !Z.shiftl_0_r, N2Z.inj_compare. reflexivity.
Qed.
Lemma fmin_N : forall a b, fmin (f_of_N a) (f_of_N b) = f_of_N (N.min a b).
Proof.
  intros. unfold fmin. rewrite fcmp_N. destruct (N.compare_spec a b); f_equal; lia.
Qed.
Lemma fmax_N : forall a b, fmax (f_of_N a) (f_of_N b) = f_of_N (N.max a b).
Proof.
  intros. unfold fmax. rewrite fcmp_N. destruct (N.compare_spec a b); f_equal; lia.
Qed.

(* an extreme that may be absent: NaN *)
Definition optf (o : option N) : fl := match o with Some m => f_of_N m | None => FNaN end.
Lemma fmin_optf : forall a b, fmin (optf a) (optf b) = optf (match a, b with None, x | x, None => x | Some x, Some y => Some (N.min x y) end).
Proof. intros [a|] [b|]; cbn [optf]; try reflexivity. apply fmin_N. Qed.
Lemma fmax_optf : forall a b, fmax (optf a) (optf b) = optf (match a, b with None, x | x, None => x | Some x, Some y => Some (N.max x y) end).
Proof. intros [a|] [b|]; cbn [optf]; try reflexivity. apply fmax_N. Qed.

(* ---- the fold over the emitted segments, on whole numbers ---- *)
Record nstat := { nb : N; nsum : N; nsq : N; nmin : option N; nmax : option N }.
Definition nstat0 : nstat := {| nb := 0; nsum := 0; nsq := 0; nmin := None; nmax := None |}.
Definition nstat_seg (t : nstat) (g : seg) : nstat :=
  {| nb := nb t + seg_len g; nsum := nsum t + seg_len g * g_val g; nsq := nsq t + seg_len g * g_val g * g_val g;
     nmin := seg_min_step (nmin t) g; nmax := seg_max_step (nmax t) g |}.

(* the summary in exact arithmetic is the image of the whole-number fold *)
Definition rel (s : option summary) (t : nstat) : Prop :=
  match s with
  | None => t = nstat0
  | Some s => su_items s = 0 /\ su_bases s = nb t /\ su_sum s = f_of_N (nsum t) /\ su_sumsq s = f_of_N (nsq t) /\
              (exists m, nmin t = Some m /\ su_min s = f_of_N m) /\ (exists m, nmax t = Some m /\ su_max s = f_of_N m)
  end.

Lemma rel_step : forall s t g, rel s t -> rel (sum_seg exact s g) (nstat_seg t g).
Proof.
  intros s t g H. unfold sum_seg, nstat_seg, seg_min_step, seg_max_step.
  destruct (N.eqb_spec (seg_len g) 0) as [E|E].
  - rewrite E. destruct s as [s|]; cbn [rel] in *.
    + destruct H as (A & B & C & D & F & G). destruct t; cbn [nb nsum nsq nmin nmax] in *.
      repeat split; try assumption; rewrite ?N.mul_0_l, ?N.add_0_r; assumption.
    + subst t. cbn [nstat0 nb nsum nsq nmin nmax]. reflexivity.
  - destruct s as [s|]; cbn [rel] in *.
    + destruct H as (A & B & C & D & (m1 & F1 & F2) & (m2 & G1 & G2)).
      cbn [su_items su_bases su_sum su_sumsq su_min su_max nb nsum nsq nmin nmax].
      rewrite C, D, F1, F2, G1, G2, !fmul_exact_N, !fadd_exact_N, fmin_N, fmax_N. cbn [opt_min opt_max].
      repeat split; try (assumption || lia || reflexivity); eexists; split; reflexivity.
    + subst t. cbn [nstat0 su_items su_bases su_sum su_sumsq su_min su_max nb nsum nsq nmin nmax].
      rewrite !fmul_exact_N. cbn [opt_min opt_max].
      repeat split; try (lia || reflexivity); try (f_equal; lia); eexists; split; reflexivity.
Qed.

Lemma rel_fold : forall em s t, rel s t -> rel (fold_left (sum_seg exact) em s) (fold_left nstat_seg em t).
Proof. induction em as [|g r IH]; intros s t H; cbn [fold_left]; [assumption | apply IH, rel_step, H]. Qed.

Lemma nstat_fold : forall em t,
  let t' := fold_left nstat_seg em t in
  nb t' = nb t + sumN (map seg_len em) /\
  nsum t' = nsum t + sumN (map (fun g => seg_len g * g_val g) em) /\
  nsq t' = nsq t + sumN (map (fun g => seg_len g * (g_val g * g_val g)) em) /\
  nmin t' = fold_left seg_min_step em (nmin t) /\ nmax t' = fold_left seg_max_step em (nmax t).
Proof.
  induction em as [|g r IH]; intros t; cbn [fold_left map sumN].
  - repeat split; lia.
  - destruct (IH (nstat_seg t g)) as (A & B & C & D & E). cbn zeta. rewrite A, B, C, D, E.
    cbn [nstat_seg nb nsum nsq nmin nmax]. repeat split; lia.
Qed.

(* a fold that never sees a non-empty segment leaves no summary: bases = 0 <-> None *)
Lemma rel_none_bases : forall s t, rel s t -> (s = None -> nb t = 0).
Proof. intros s t H E. subst s. cbn [rel] in H. subst t. reflexivity. Qed.

Lemma min_assoc' : forall a b c, N.min (N.min a b) c = N.min a (N.min b c).
Proof. intros. lia. Qed.
Lemma max_assoc' : forall a b c, N.max (N.max a b) c = N.max a (N.max b c).
Proof. intros. lia. Qed.

(* ---- one chromosome ---- *)
Definition valid_chrom (U : N) (es : list entry) : Prop :=
  U <= U32_MAX /\ Forall (entry_ok U) es /\ starts_sorted es.

Lemma stats_of_emitted : forall U es, valid_chrom U es ->
  let em := sweep_emitted es in
  let d := depth es in
  sumN (map seg_len em) = st_cov d (span 0 U) /\
  sumN (map (fun g => seg_len g * g_val g) em) = st_sum d (span 0 U) /\
  sumN (map (fun g => seg_len g * (g_val g * g_val g)) em) = st_sumsq d (span 0 U) /\
  segs_min em = st_min d (span 0 U) /\ segs_max em = st_max d (span 0 U).
Proof.
  intros U es (HU & Hok & Hs). cbn zeta.
  destruct (sweep_eq_rle_depth U es HU Hok Hs) as (A & B & C).
  assert (Bend : Forall (fun g => g_end g <= U) (sweep_emitted es)).
  { eapply Forall_impl; [|exact B]. intros g (G1 & _). exact G1. }
  assert (Bval : Forall (fun g => 1 <= g_val g) (sweep_emitted es)).
  { eapply Forall_impl; [|exact B]. intros g (_ & G2). exact G2. }
  assert (Hd : forall x, In x (span 0 U) -> depth es x = segs_depth (sweep_emitted es) x).
  { intros x Hx. apply In_span in Hx. symmetry. apply C. lia. }
  split; [|split; [|split; [|split]]].
  - unfold st_cov. rewrite Nlen_filter_sum.
    rewrite (sumN_map_ext_in _ (fun x => (fun v => if 0 <? v then 1 else 0) (segs_depth (sweep_emitted es) x))).
    2:{ intros x Hx. now rewrite (Hd x Hx). }
    rewrite (fsum_sorted (fun v => if 0 <? v then 1 else 0) eq_refl _ 0 U A Bend (N.le_0_l U)).
    f_equal. apply map_ext_in. intros g Hg.
    rewrite Forall_forall in Bval. specialize (Bval g Hg).
    destruct (N.ltb_spec 0 (g_val g)); lia.
  - unfold st_sum.
    rewrite (sumN_map_ext_in _ (fun x => (fun v => v) (segs_depth (sweep_emitted es) x))) by exact Hd.
    rewrite (fsum_sorted (fun v => v) eq_refl _ 0 U A Bend (N.le_0_l U)). reflexivity.
  - unfold st_sumsq.
    rewrite (sumN_map_ext_in _ (fun x => (fun v => v * v) (segs_depth (sweep_emitted es) x))).
    2:{ intros x Hx. now rewrite (Hd x Hx). }
    rewrite (fsum_sorted (fun v => v * v) eq_refl _ 0 U A Bend (N.le_0_l U)). reflexivity.
  - rewrite st_min_is_pfold. rewrite (pfold_ext N.min _ (segs_depth (sweep_emitted es))) by exact Hd.
    rewrite (pfold_sorted N.min N.min_id min_assoc' _ 0 U None A Bend Bval (N.le_0_l U)). reflexivity.
  - rewrite st_max_is_pfold. rewrite (pfold_ext N.max _ (segs_depth (sweep_emitted es))) by exact Hd.
    rewrite (pfold_sorted N.max N.max_id max_assoc' _ 0 U None A Bend Bval (N.le_0_l U)). reflexivity.
Qed.

(* ---- summaries in normal form: whole numbers, absent extremes as NaN ---- *)
Definition sform (s : summary) (items b su q : N) (mn mx : option N) : Prop :=
  su_items s = items /\ su_bases s = b /\ su_sum s = f_of_N su /\ su_sumsq s = f_of_N q /\
  su_min s = optf mn /\ su_max s = optf mx.

Theorem bb_chrom_summary_spec : forall U es, valid_chrom U es ->
  let d := depth es in let xs := span 0 U in
  sform (bb_chrom_summary exact es) (Nlen es) (st_cov d xs) (st_sum d xs) (st_sumsq d xs) (st_min d xs) (st_max d xs).
Proof.
  intros U es Hv. cbn zeta.
  destruct (stats_of_emitted U es Hv) as (S1 & S2 & S3 & S4 & S5).
  pose proof (rel_fold (sweep_emitted es) None nstat0 eq_refl) as Hr.
  destruct (nstat_fold (sweep_emitted es) nstat0) as (T1 & T2 & T3 & T4 & T5).
  cbn [nstat0 nb nsum nsq nmin nmax] in T1, T2, T3, T4, T5.
  rewrite N.add_0_l in T1, T2, T3.
  fold (segs_min (sweep_emitted es)) in T4. fold (segs_max (sweep_emitted es)) in T5.
  rewrite S1 in T1. rewrite S2 in T2. rewrite S3 in T3. rewrite S4 in T4. rewrite S5 in T5.
  unfold bb_chrom_summary, sform.
  destruct (fold_left (sum_seg exact) (sweep_emitted es) None) as [s|]; cbn [rel] in Hr.
  - destruct Hr as (A & B & C & D & (m1 & F1 & F2) & (m2 & G1 & G2)).
    cbn [with_items su_items su_bases su_sum su_sumsq su_min su_max].
    rewrite <- T1, <- T2, <- T3, <- T4, <- T5, F1, G1. cbn [optf].
    repeat split; assumption.
  - rewrite Hr in *. cbn [nstat0 nb nsum nsq nmin nmax] in *.
    cbn [with_items summary_nothing su_items su_bases su_sum su_sumsq su_min su_max].
    rewrite <- T1, <- T2, <- T3, <- T4, <- T5. cbn [optf]. repeat split; reflexivity.
Qed.

(* ---- across chromosomes ---- *)
Lemma merge_form : forall s1 s2 i1 b1 u1 q1 mn1 mx1 i2 b2 u2 q2 mn2 mx2,
  sform s1 i1 b1 u1 q1 mn1 mx1 -> sform s2 i2 b2 u2 q2 mn2 mx2 ->
  exists s, summary_merge exact (Some s1) s2 = Some s /\
            sform s (i1 + i2) (b1 + b2) (u1 + u2) (q1 + q2) (opt_meet N.min mn1 mn2) (opt_meet N.max mx1 mx2).
Proof.
  intros s1 s2 i1 b1 u1 q1 mn1 mx1 i2 b2 u2 q2 mn2 mx2 (A1 & A2 & A3 & A4 & A5 & A6) (B1 & B2 & B3 & B4 & B5 & B6).
  eexists. split; [reflexivity|]. unfold sform. cbn [su_items su_bases su_sum su_sumsq su_min su_max].
  rewrite A1, A2, A3, A4, A5, A6, B1, B2, B3, B4, B5, B6, !fadd_exact_N, fmin_optf, fmax_optf.
  repeat split; reflexivity.
Qed.

Section Total.
Variable U : N.
Definition c_items (es : list entry) := Nlen es.
Definition c_cov (es : list entry) := st_cov (depth es) (span 0 U).
Definition c_sum (es : list entry) := st_sum (depth es) (span 0 U).
Definition c_sumsq (es : list entry) := st_sumsq (depth es) (span 0 U).
Definition c_min (es : list entry) := st_min (depth es) (span 0 U).
Definition c_max (es : list entry) := st_max (depth es) (span 0 U).

Lemma total_fold : forall chroms s0 i b u q mn mx,
  Forall (valid_chrom U) chroms -> sform s0 i b u q mn mx ->
  exists s, fold_left (summary_merge exact) (map (bb_chrom_summary exact) chroms) (Some s0) = Some s /\
    sform s (i + sumN (map c_items chroms)) (b + sumN (map c_cov chroms)) (u + sumN (map c_sum chroms))
            (q + sumN (map c_sumsq chroms))
            (fold_left (fun a es => opt_meet N.min a (c_min es)) chroms mn)
            (fold_left (fun a es => opt_meet N.max a (c_max es)) chroms mx).
Proof.
  induction chroms as [|c r IH]; intros s0 i b u q mn mx Hv Hs0; cbn [map fold_left sumN].
  - exists s0. split; [reflexivity|]. rewrite !N.add_0_r. exact Hs0.
  - inversion Hv as [|? ? Hc Hr]; subst.
    destruct (merge_form _ _ _ _ _ _ _ _ _ _ _ _ _ _ Hs0 (bb_chrom_summary_spec U c Hc)) as (s1 & E1 & F1).
    rewrite E1. destruct (IH s1 _ _ _ _ _ _ Hr F1) as (s & E & F).
    exists s. split; [exact E|]. unfold c_items, c_cov, c_sum, c_sumsq, c_min, c_max in *.
    rewrite !N.add_assoc. exact F.
Qed.

(* C06_bb_summary and C06_bb_item_count: the file's total summary over any non-empty list of accepted
   chromosomes *)
Theorem bb_total_summary_spec : forall c chroms,
  Forall (valid_chrom U) (c :: chroms) ->
  sform (bb_total_summary exact (c :: chroms))
        (sumN (map c_items (c :: chroms))) (sumN (map c_cov (c :: chroms))) (sumN (map c_sum (c :: chroms)))
        (sumN (map c_sumsq (c :: chroms)))
        (fold_left (fun a es => opt_meet N.min a (c_min es)) (c :: chroms) None)
        (fold_left (fun a es => opt_meet N.max a (c_max es)) (c :: chroms) None).
Proof.
  intros c chroms Hv. inversion Hv as [|? ? Hc Hr]; subst.
  unfold bb_total_summary. cbn [map fold_left summary_merge sumN].
  destruct (total_fold chroms _ _ _ _ _ _ _ Hr (bb_chrom_summary_spec U c Hc)) as (s & E & F).
  rewrite E. unfold c_items, c_cov, c_sum, c_sumsq, c_min, c_max in *. cbn [opt_meet]. exact F.
Qed.
End Total.

(* ---- what the writer's checks accept is what the sweep needs ---- *)
Lemma check_chrom_valid : forall len es, bb_check_chrom len es = Ok tt ->
  starts_sorted es /\ Forall (fun e => e_start e <= e_end e /\ e_start e < len) es.
Proof.
  intros len es. induction es as [|e r IH]; intro H; cbn [bb_check_chrom starts_sorted] in *.
  - split; [exact I | constructor].
  - unfold bb_check_entry in H.
    destruct (N.ltb_spec (e_end e) (e_start e)) as [C1|C1]; [discriminate|].
    destruct (N.leb_spec len (e_start e)) as [C2|C2]; [discriminate|].
    destruct r as [|e' r'].
    + cbn [hd_error rbind bb_check_chrom] in H. split; [split; exact I | constructor; [split; lia | constructor]].
    + cbn [hd_error] in H. destruct (N.ltb_spec (e_start e') (e_start e)) as [C3|C3]; [discriminate|].
      cbn [rbind] in H. destruct (IH H) as (A & B).
      split; [split; assumption | constructor; [split; lia | assumption]].
Qed.

Theorem accepted_valid : forall U len es, U <= U32_MAX -> Forall (fun e => e_end e <= U) es ->
  bb_check_chrom len es = Ok tt -> valid_chrom U es.
Proof.
  intros U len es HU Hend Hc. destruct (check_chrom_valid len es Hc) as (A & B).
  split; [exact HU | split; [|exact A]].
  rewrite Forall_forall in *. intros e He. split; [apply (B e He) | apply (Hend e He)].
Qed.
