(* C10, whole file, part 4: the answers.  For a well-formed (layout, content) pair and any
   round-tripping compressor, the reader models on the emitted bytes answer every query with what
   the CONTENT says: chromosome table, summary, interval, per-base values, zoom records. *)
From BT Require Import Base.Util Base.LE Base.Float Generated.Consts Model.RTree Model.BBIFile Model.BigWigWrite
  Model.BBIRead Proofs.RTreeAbs Proofs.RTreeCodec Proofs.C10Codec Proofs.C10Search Proofs.C10Sections Proofs.C10Place
  Proofs.C10ChromTree Proofs.C10EmitBase Proofs.C10EmitBlocks Proofs.C10EmitTree Proofs.C10Query
  Spec.FormatEmit Spec.FormatWf Model.ReadBed_C10.
Local Open Scope N_scope.

Definition sec_chrom {V} (items : list (N * V)) : N := match items with (c, _) :: _ => c | [] => 0 end.

Lemma clip_filter_concat_filter s e (p : N * value -> bool) (ls : list (list (N * value))) :
  clip_filter s e (map snd (filter p (concat ls))) = flat_map (fun l => clip_filter s e (map snd (filter p l))) ls.
Proof.
  induction ls as [|l ls IH]; [reflexivity|]. cbn [concat flat_map]. now rewrite filter_app, map_app, clip_filter_app, IH.
Qed.
Lemma filter_chrom_all {V} (c id : N) (items : list (N * V)) : Forall (fun cv => fst cv = c) items ->
  filter (fun cv => fst cv =? id) items = if c =? id then items else [].
Proof.
  intros H. destruct (c =? id) eqn:E.
  - apply filter_all. apply forallb_forall. intros cv Hin. rewrite Forall_forall in H. rewrite (H cv Hin). exact E.
  - apply filter_none. eapply Forall_impl; [|exact H]. intros cv Hc. cbv beta in *. now rewrite Hc.
Qed.

Lemma In_split_by {V} (cs : list nat) : forall (l recs : list V) r, In recs (split_by cs l) -> In r recs -> In r l.
Proof.
  induction cs as [|c cs IH]; intros l recs r Hin Hr; [destruct Hin|].
  cbn [split_by] in Hin. destruct Hin as [<-|Hin]; [now apply In_firstn in Hr|]. eapply In_skipn, IH; eauto.
Qed.
Lemma flat_map_filter_concat {A B} (f : A -> B) (p : A -> bool) (ls : list (list A)) :
  flat_map (fun l => map f (filter p l)) ls = map f (filter p (concat ls)).
Proof. induction ls as [|l ls IH]; [reflexivity|]. cbn [flat_map concat]. now rewrite filter_app, map_app, IH. Qed.

Section EmitQuery.
Variables (cmp infl : list N -> list N).
Hypothesis Hinfl : forall b, infl (cmp b) = b.
Variable L : layout.
Variable X : content.
Hypothesis Hwf : wf_b cmp L X = true.

Let big := l_big L.
Let bt := block_table cmp L X.
Let o := off_fn (offsets L X bt).
Let bs := emit cmp L X.
Let inf := exp_info cmp L X.

Lemma chrom_id_emit c : chrom_id inf c = spec_chrom X c.
Proof. reflexivity. Qed.

Lemma Ht0 : (0 < length bt)%nat.
Proof. unfold bt. rewrite (bt_len cmp L X). lia. Qed.

(* ---------- bigWig interval ---------- *)
Lemma data_blocks_bw : x_bigwig X = true ->
  tree_blocks bt 0 = map (fun si => mk_binfo cmp L (sec_payload L (snd (fst si)) (snd si)) (cover (map vspan (snd si)))) (wsecs L X).
Proof. intros Hb. unfold bt. rewrite (tree0_blocks cmp L X). unfold data_blocks. now rewrite Hb. Qed.

Lemma wsecs_concat : x_bigwig X = true -> concat (map snd (wsecs L X)) = x_vals X.
Proof.
  intros Hb. destruct (sections_facts_bw cmp L X Hwf Hb) as [Hs _]. unfold wsecs.
  rewrite map_snd_combine by (rewrite split_by_length; unfold counts; now rewrite map_length).
  now apply concat_split_by.
Qed.

Theorem bw_interval_emit c s e : x_bigwig X = true ->
  bw_interval infl bs inf c s e = (do id <- spec_chrom X c; Ok (clip_filter s e (vals_of X id))).
Proof.
  intros Hb. unfold bw_interval. rewrite chrom_id_emit. destruct (spec_chrom X c) as [id| | |]; cbn [rbind]; try reflexivity.
  change (h_full_index_off (i_hdr inf)) with (o (PNode 0 0)). change (h_big (i_hdr inf)) with (l_big L).
  unfold bs, o, bt. rewrite (cir_root_emit cmp L X Hwf 0 Ht0). cbn [rbind].
  rewrite (search_emit cmp infl Hinfl L X Hwf 0 Ht0). cbn [rbind].
  fold bt. fold o. fold bs. fold inf.
  destruct (sections_facts_bw cmp L X Hwf Hb) as [Hsum Hsecs].
  set (dec := fun si : nat * N * list (N * value) =>
                if sec_chrom (snd si) =? id then Some (clip_filter s e (map snd (snd si))) else None).
  rewrite (collect_groups (fun b => block_values infl inf bs b id s e) dec id s e (leaf_items_of bt o 0) (wsecs L X)).
  - f_equal. unfold vals_of. rewrite <- (wsecs_concat Hb). rewrite clip_filter_concat_filter. rewrite flat_map_map.
    apply flat_map_ext_in. intros si Hin. rewrite Forall_forall in Hsecs. specialize (Hsecs si Hin).
    apply sec_ok_spans in Hsecs as (Hne & _ & (c0 & _ & Hc0)). unfold dec.
    rewrite (filter_chrom_all c0 id (snd si) Hc0).
    assert (Hsc : sec_chrom (snd si) = c0).
    { destruct (snd si) as [|[c1 v1] r]; [congruence|]. inversion Hc0; subst. reflexivity. }
    rewrite Hsc. destruct (c0 =? id); reflexivity.
  - rewrite (leaf_items_length cmp L X). fold bt. rewrite (data_blocks_bw Hb). now rewrite map_length.
  - intros i it si Hit Hsi.
    destruct (leaf_item_nth cmp L X 0 i it Hit) as [b [Hbk ->]]. fold bt in Hbk. fold bt. fold o.
    assert (Hb' : b = mk_binfo cmp L (sec_payload L (snd (fst si)) (snd si)) (cover (map vspan (snd si)))).
    { rewrite (data_blocks_bw Hb), nth_error_map, Hsi in Hbk. cbn in Hbk. now injection Hbk. }
    rewrite Forall_forall in Hsecs. pose proof (Hsecs si (nth_error_In _ _ Hsi)) as Hok.
    cbn [li_span li_off li_size]. split.
    + intros _. rewrite block_values_eq.
      destruct (block_data_emit cmp infl Hinfl L X Hwf 0 i b Ht0 Hbk) as (Hbd & _).
      fold bt in Hbd. fold o in Hbd. fold bs in Hbd. fold inf in Hbd. rewrite Hbd. cbn [rbind].
      rewrite Hb'. cbn [bi_raw mk_binfo]. change (h_big (i_hdr inf)) with (l_big L).
      destruct (snd si) as [|[c0 v0] rest] eqn:Es; [discriminate|].
      rewrite (section_decode L (snd (fst si)) c0 v0 rest id s e Hok). unfold dec. rewrite Es. reflexivity.
    + intros Hno. unfold dec. destruct (sec_chrom (snd si) =? id) eqn:Ec; [|reflexivity]. cbn [olist].
      apply N.eqb_eq in Ec. apply clip_filter_none. rewrite Forall_map. apply Forall_forall. intros [c1 v1] Hin. cbn [snd].
      destruct (keep s e v1) eqn:K; [|reflexivity]. exfalso.
      apply sec_ok_spans in Hok as (_ & _ & (c0 & _ & Hc0)).
      assert (c1 = id).
      { rewrite Forall_forall in Hc0. pose proof (Hc0 _ Hin) as H1. cbn in H1. subst c1.
        destruct (snd si) as [|[c2 v2] r]; [destruct Hin|]. pose proof (Hc0 (c2, v2) (or_introl eq_refl)) as H2. cbn in H2, Ec. congruence. }
      subst c1. unfold keep in K. apply andb_true_iff in K as [K1 K2]. apply N.ltb_lt in K1, K2.
      assert (Hov : overlaps id s e (vspan (id, v1)) = true) by (apply overlaps_point; cbn; lia).
      rewrite Hb' in Hno. cbn [bi_span mk_binfo] in Hno.
      assert (Hcov : span_covers (cover (map vspan (snd si))) (vspan (id, v1))).
      { apply inside_covers, cover_inside. apply in_map_iff. exists (id, v1). split; [reflexivity|exact Hin]. }
      apply Hcov in Hov. congruence.
Qed.

(* ---------- per-base values ---------- *)
Lemma vals_ordered : x_bigwig X = true -> Forall (fun cv => v_start (snd cv) <= v_end (snd cv)) (x_vals X).
Proof.
  intros Hb. rewrite <- (wsecs_concat Hb). destruct (sections_facts_bw cmp L X Hwf Hb) as [_ Hsecs].
  apply Forall_forall. intros cv Hin. apply in_concat in Hin as [l [Hl Hcv]]. apply in_map_iff in Hl as [si [<- Hsi]].
  rewrite Forall_forall in Hsecs. specialize (Hsecs si Hsi). unfold sec_ok in Hsecs.
  destruct (snd si) as [|[c0 v0] r] eqn:Es; [discriminate|]. do 2 (apply andb_true_iff in Hsecs as [Hsecs ?]).
  rewrite forallb_forall in H0. apply H0 in Hcv. now apply val_ok_bits in Hcv as (_ & H1 & _).
Qed.

Theorem bw_values_emit c s e : x_bigwig X = true ->
  bw_values infl bs inf c s e
  = (if e <? s then Panic else
     do id <- spec_chrom X c; Ok (map (base_value (vals_of X id)) (range s (N.to_nat (e - s))))).
Proof.
  intros Hb. unfold bw_values. destruct (e <? s) eqn:E; [reflexivity|]. apply N.ltb_ge in E.
  rewrite (bw_interval_emit c s e Hb). destruct (spec_chrom X c) as [id| | |]; cbn [rbind]; try reflexivity.
  f_equal. apply fill_values_spec; [exact E|]. unfold vals_of. rewrite Forall_map.
  pose proof (vals_ordered Hb) as Hv. rewrite Forall_forall in *. intros cv Hin. apply filter_In in Hin as [Hin _]. now apply Hv.
Qed.

(* ---------- zoom levels ---------- *)
Definition zfilter (chrom s e : N) (z : zraw) : bool := (zr_chrom z =? chrom) && (s <=? zr_end z) && (zr_start z <=? e).

Lemma zoom_level_emit k z chrom s e : nth_error (x_zooms X) k = Some z ->
  collect_blocks (fun b => zoom_block_values infl inf bs b chrom s e) (hits chrom s e (leaf_items_of bt o (S k)))
  = Ok (map zrec_of (filter (zfilter chrom s e) (snd z))).
Proof.
  intros Hz. destruct (zoom_facts cmp L X Hwf k z Hz) as (Hk & _ & _ & Hrecs & _ & Hsum).
  assert (Ht : (S k < length bt)%nat) by (unfold bt; rewrite (bt_len cmp L X); lia).
  assert (Hgroups : zsecs L X k = split_by (nth k (l_zsecs L) []) (snd z)).
  { unfold zsecs. now rewrite (nth_error_nth _ _ (0, []) Hz). }
  assert (Hblocks : tree_blocks bt (S k)
                    = map (fun recs => mk_binfo cmp L (flat_map (zraw_bytes L) recs) (cover (map zspan recs))) (zsecs L X k)).
  { unfold bt. rewrite (treeS_blocks cmp L X k Hk). reflexivity. }
  set (dec := fun recs : list zraw => Some (map zrec_of (filter (zfilter chrom s e) recs))).
  rewrite (collect_groups (fun b => zoom_block_values infl inf bs b chrom s e) dec chrom s e (leaf_items_of bt o (S k)) (zsecs L X k)).
  - f_equal. unfold dec. cbn [olist]. rewrite flat_map_filter_concat. rewrite Hgroups. now rewrite concat_split_by.
  - rewrite (leaf_items_length cmp L X). fold bt. rewrite Hblocks. now rewrite map_length.
  - intros i it recs Hit Hrs.
    destruct (leaf_item_nth cmp L X (S k) i it Hit) as [b [Hbk ->]]. fold bt in Hbk. fold bt. fold o.
    assert (Hb' : b = mk_binfo cmp L (flat_map (zraw_bytes L) recs) (cover (map zspan recs))).
    { rewrite Hblocks, nth_error_map, Hrs in Hbk. cbn in Hbk. now injection Hbk. }
    assert (Hin_recs : forall r, In r recs -> In r (snd z)).
    { intros r Hr. apply (In_split_by (nth k (l_zsecs L) []) (snd z) recs r); [|exact Hr].
      rewrite <- Hgroups. eapply nth_error_In; eauto. }
    cbn [li_span li_off li_size]. split.
    + intros _. rewrite zoom_block_values_eq.
      destruct (block_data_emit cmp infl Hinfl L X Hwf (S k) i b Ht Hbk) as (Hbd & _).
      fold bt in Hbd. fold o in Hbd. fold bs in Hbd. fold inf in Hbd. rewrite Hbd. cbn [rbind].
      rewrite Hb'. cbn [bi_raw mk_binfo]. change (h_big (i_hdr inf)) with (l_big L).
      rewrite zoom_decode; [reflexivity|]. apply Forall_forall. intros r Hr. rewrite Forall_forall in Hrecs. now apply Hrecs, Hin_recs.
    + intros Hno. unfold dec. cbn [olist]. rewrite filter_none; [reflexivity|]. apply Forall_forall. intros r Hr.
      destruct (zfilter chrom s e r) eqn:F; [|reflexivity]. exfalso. unfold zfilter in F.
      do 2 (apply andb_true_iff in F as [F ?]). apply N.eqb_eq in F. apply N.leb_le in H, H0.
      assert (Hov : overlaps chrom s e (zspan r) = true).
      { unfold zspan. rewrite F. apply overlaps_point; lia. }
      rewrite Hb' in Hno. cbn [bi_span mk_binfo] in Hno.
      assert (Hcov : span_covers (cover (map zspan recs)) (zspan r)).
      { apply inside_covers, cover_inside. apply in_map_iff. exists r. split; [reflexivity|exact Hr]. }
      apply Hcov in Hov. congruence.
Qed.

Definition spec_zoom (c : name) (s e lvl : N) : res (list zrec) :=
  match find (fun z => fst z =? lvl) (x_zooms X) with
  | None => Err R_NOZOOM
  | Some (_, recs) => do id <- spec_chrom X c; Ok (map zrec_of (filter (zfilter id s e) recs))
  end.

Lemma zoom_lookup lvl :
  match find (fun z => fst z =? lvl) (x_zooms X) with
  | None => find (fun zh => zh_res zh =? lvl) (i_zooms inf) = None
  | Some z => exists k, nth_error (x_zooms X) k = Some z /\
                find (fun zh => zh_res zh =? lvl) (i_zooms inf)
                = Some {| zh_res := fst z; zh_data := o (PZCount k); zh_index := o (PNode (S k) 0) |}
  end.
Proof.
  change (i_zooms inf) with (exp_zooms cmp L X). unfold exp_zooms. rewrite find_map. cbn [zh_res].
  pose proof (find_indexed (fun z : N * list zraw => fst z =? lvl) (x_zooms X) 0) as Hf. cbv beta in Hf.
  fold bt. fold o.
  destruct (find (fun kz : nat * (N * list zraw) => fst (snd kz) =? lvl) (combine (seq 0 (length (x_zooms X))) (x_zooms X))) as [[k z]|].
  - destruct Hf as (H1 & H2 & _). rewrite H1. exists k. rewrite Nat.sub_0_r in H2. split; [exact H2|reflexivity].
  - rewrite Hf. reflexivity.
Qed.

Theorem zoom_interval_emit c s e lvl : zoom_interval infl bs inf c s e lvl = spec_zoom c s e lvl.
Proof.
  unfold zoom_interval, spec_zoom. pose proof (zoom_lookup lvl) as Hl.
  destruct (find (fun z => fst z =? lvl) (x_zooms X)) as [z|].
  - destruct Hl as [k [Hk Hf]]. rewrite Hf. cbn [zh_index].
    destruct (zoom_facts cmp L X Hwf k z Hk) as (Hkl & _).
    assert (Ht : (S k < length bt)%nat) by (unfold bt; rewrite (bt_len cmp L X); lia).
    change (h_big (i_hdr inf)) with (l_big L). unfold bs, o, bt.
    rewrite (cir_root_emit cmp L X Hwf (S k) Ht). cbn [rbind]. fold bt. fold o. fold bs. fold inf.
    rewrite chrom_id_emit. destruct z as [res recs]. destruct (spec_chrom X c) as [id| | |]; cbn [rbind]; try reflexivity.
    unfold bs, o, bt. rewrite (search_emit cmp infl Hinfl L X Hwf (S k) Ht). cbn [rbind]. fold bt. fold o. fold bs. fold inf.
    exact (zoom_level_emit k (res, recs) id s e Hk).
  - now rewrite Hl.
Qed.

Theorem bb_zoom_interval_emit c s e lvl : bb_zoom_interval infl bs inf c s e lvl = spec_zoom c s e lvl.
Proof.
  unfold bb_zoom_interval, spec_zoom. pose proof (zoom_lookup lvl) as Hl.
  destruct (find (fun z => fst z =? lvl) (x_zooms X)) as [z|].
  - destruct Hl as [k [Hk Hf]]. rewrite Hf. cbn [zh_index].
    destruct (zoom_facts cmp L X Hwf k z Hk) as (Hkl & _).
    assert (Ht : (S k < length bt)%nat) by (unfold bt; rewrite (bt_len cmp L X); lia).
    change (h_big (i_hdr inf)) with (l_big L). unfold bs, o, bt.
    rewrite (cir_root_emit cmp L X Hwf (S k) Ht). fold bt. fold o. fold bs. fold inf.
    rewrite chrom_id_emit. destruct z as [res recs]. destruct (spec_chrom X c) as [id| | |]; cbn [rbind]; try reflexivity.
    unfold bs, o, bt. rewrite (search_emit cmp infl Hinfl L X Hwf (S k) Ht). cbn [rbind]. fold bt. fold o. fold bs. fold inf.
    exact (zoom_level_emit k (res, recs) id s e Hk).
  - now rewrite Hl.
Qed.

(* ---------- summary ---------- *)
Theorem read_summary_emit : read_summary bs inf = Ok (spec_summary X).
Proof.
  destruct (scalars_facts cmp L X Hwf) as (_ & _ & _ & _ & _ & _ & _ & Hnv & Hnb & Hsum).
  destruct (at_piece cmp L X Hwf PCount (needed_count cmp L X)) as [Hcnt _]. fold bt in Hcnt. fold o in Hcnt. fold bs in Hcnt.
  cbn [pbytes] in Hcnt.
  assert (Hic : item_count X < 18446744073709551616) by (unfold item_count, W64 in *; destruct (x_bigwig X); assumption).
  unfold read_summary. change (h_full_data_off (i_hdr inf)) with (o PCount). change (h_big (i_hdr inf)) with (l_big L).
  change (h_summary_off (i_hdr inf)) with (match x_summary X with Some _ => o PSummary | None => 0 end).
  rewrite (has_at_slice_n bs (o PCount) _ 8 Hcnt) by now rewrite enc_length.
  unfold spec_summary. fold (item_count X).
  destruct (x_summary X) as [sm|] eqn:Es.
  - pose proof (off_ge cmp L X Hwf PSummary (needed_summary cmp L X sm Es)) as Hge. fold bt in Hge. fold o in Hge.
    destruct (o PSummary =? 0) eqn:E0; [apply N.eqb_eq in E0; lia|].
    destruct (at_piece cmp L X Hwf PSummary (needed_summary cmp L X sm Es)) as [Hs _]. fold bt in Hs. fold o in Hs. fold bs in Hs.
    cbn [pbytes] in Hs. rewrite Es in Hs. unfold summary_bytes in Hs.
    rewrite (has_at_slice_n bs (o PSummary) _ 40 Hs) by (rewrite enc_flds_length; reflexivity).
    cbn [rdo rbind]. destruct (Hsum sm eq_refl) as (H1 & H2 & H3 & H4 & H5). unfold W64 in *.
    flds0 ltac:(apply fits8; lia). rewrite dec_enc by exact Hic. reflexivity.
  - change (0 =? 0) with true. cbn [rdo rbind]. rewrite dec_enc by exact Hic. reflexivity.
Qed.

(* ---------- bigBed interval ---------- *)
Definition bfilter (s e : N) (b : bed) : bool := (s <=? b_end b) && (b_start b <=? e).

Lemma data_blocks_bed : x_bigwig X = false ->
  tree_blocks bt 0 = map (fun items => mk_binfo cmp L (flat_map (bed_bytes L) items) (cover (map bspan items))) (bsecs L X).
Proof. intros Hb. unfold bt. rewrite (tree0_blocks cmp L X). unfold data_blocks. now rewrite Hb. Qed.

Lemma bed_bytes_long items : (length items <= length (flat_map (bed_bytes L) items))%nat.
Proof.
  induction items as [|cb items IH]; [cbn; lia|]. cbn [flat_map length]. rewrite app_length, bed_bytes_eq, app_length, enc_flds_length. cbn. lia.
Qed.

Lemma filter_bed_concat s e (p : N * bed -> bool) (ls : list (list (N * bed))) :
  filter (bfilter s e) (map snd (filter p (concat ls))) = flat_map (fun l => filter (bfilter s e) (map snd (filter p l))) ls.
Proof.
  induction ls as [|l ls IH]; [reflexivity|]. cbn [concat flat_map]. now rewrite !filter_app, map_app, filter_app, IH.
Qed.

Theorem bb_interval_emit c s e : x_bigwig X = false ->
  bb_interval infl bs inf c s e = (do id <- spec_chrom X c; Ok (filter (bfilter s e) (beds_of X id))).
Proof.
  intros Hb. unfold bb_interval.
  change (h_full_index_off (i_hdr inf)) with (o (PNode 0 0)). change (h_big (i_hdr inf)) with (l_big L).
  unfold bs, o, bt. rewrite (cir_root_emit cmp L X Hwf 0 Ht0). cbn [rbind]. fold bt. fold o. fold bs. fold inf.
  rewrite chrom_id_emit. destruct (spec_chrom X c) as [id| | |]; cbn [rbind]; try reflexivity.
  unfold bs, o, bt. rewrite (search_emit cmp infl Hinfl L X Hwf 0 Ht0). cbn [rbind]. fold bt. fold o. fold bs. fold inf.
  destruct (sections_facts_bed cmp L X Hwf Hb) as [Hsum Hsecs].
  set (dec := fun items : list (N * bed) =>
                if sec_chrom items =? id then Some (filter (bfilter s e) (map snd items)) else None).
  rewrite (collect_groups (fun b => block_entries infl inf bs b id s e) dec id s e (leaf_items_of bt o 0) (bsecs L X)).
  - f_equal. unfold beds_of. replace (x_beds X) with (concat (bsecs L X)) by (unfold bsecs; now apply concat_split_by).
    rewrite filter_bed_concat. apply flat_map_ext_in. intros items Hin. rewrite Forall_forall in Hsecs. specialize (Hsecs items Hin).
    apply bedsec_ok_spans in Hsecs as (Hne & _ & (c0 & _ & Hc0 & _)). unfold dec.
    assert (Hc0' : Forall (fun cb : N * bed => fst cb = c0) items).
    { apply Forall_forall. intros cb Hcb. rewrite forallb_forall in Hc0. apply Hc0 in Hcb. now apply N.eqb_eq in Hcb. }
    rewrite (filter_chrom_all c0 id items Hc0').
    assert (Hsc : sec_chrom items = c0).
    { destruct items as [|[c1 v1] r]; [congruence|]. inversion Hc0'; subst. reflexivity. }
    rewrite Hsc. destruct (c0 =? id); reflexivity.
  - rewrite (leaf_items_length cmp L X). fold bt. rewrite (data_blocks_bed Hb). now rewrite map_length.
  - intros i it items Hit Hsi.
    destruct (leaf_item_nth cmp L X 0 i it Hit) as [b [Hbk ->]]. fold bt in Hbk. fold bt. fold o.
    assert (Hb' : b = mk_binfo cmp L (flat_map (bed_bytes L) items) (cover (map bspan items))).
    { rewrite (data_blocks_bed Hb), nth_error_map, Hsi in Hbk. cbn in Hbk. now injection Hbk. }
    rewrite Forall_forall in Hsecs. pose proof (Hsecs items (nth_error_In _ _ Hsi)) as Hok.
    apply bedsec_ok_spans in Hok as (Hne & _ & (c0 & Hsp & Hc0 & Hbeds)).
    assert (Hsc : sec_chrom items = c0).
    { destruct items as [|[c1 v1] r]; [congruence|]. cbn [forallb fst] in Hc0. apply andb_true_iff in Hc0 as [Hc0 _].
      apply N.eqb_eq in Hc0. now subst. }
    assert (Hcc : sc (cover (map bspan items)) = c0 /\ ec (cover (map bspan items)) = c0).
    { apply cover_chrom; [|exact Hsp]. destruct items; [congruence|discriminate]. }
    cbn [li_span li_off li_size]. rewrite Hb'. cbn [bi_span mk_binfo]. split.
    + intros Hov. pose proof (overlaps_same_chrom _ _ _ _ Hov) as Hq. destruct Hcc as [Hc1 Hc2]. rewrite Hc1, Hc2 in Hq.
      specialize (Hq eq_refl). rewrite Hq in Hc0.
      unfold block_entries.
      destruct (block_data_emit cmp infl Hinfl L X Hwf 0 i b Ht0 Hbk) as (Hbd & _).
      fold bt in Hbd. fold o in Hbd. fold bs in Hbd. fold inf in Hbd. rewrite Hb' in Hbd. cbn [bi_stored bi_raw mk_binfo] in Hbd.
      cbn [bi_stored mk_binfo]. rewrite Hbd. cbn [rbind]. change (h_big (i_hdr inf)) with (l_big L).
      rewrite <- (app_nil_r (flat_map (bed_bytes L) items)) at 2.
      rewrite (bed_decode L id items Hc0 Hbeds) by (cbn [length]; pose proof (bed_bytes_long items); lia).
      cbn [rbind]. unfold dec. rewrite Hsc, Hq, N.eqb_refl. reflexivity.
    + intros Hno. unfold dec. rewrite Hsc. destruct (c0 =? id) eqn:Ec; [|reflexivity]. cbn [olist]. apply N.eqb_eq in Ec. rewrite Ec in Hc0.
      apply filter_none. rewrite Forall_map. apply Forall_forall. intros [c1 b1] Hin. cbn [snd].
      destruct (bfilter s e b1) eqn:K; [|reflexivity]. exfalso.
      assert (c1 = id) by (rewrite forallb_forall in Hc0; apply Hc0 in Hin; now apply N.eqb_eq in Hin). subst c1.
      unfold bfilter in K. apply andb_true_iff in K as [K1 K2]. apply N.leb_le in K1, K2.
      assert (Hov : overlaps id s e (bspan (id, b1)) = true) by (apply overlaps_point; cbn; lia).
      assert (Hcov : span_covers (cover (map bspan items)) (bspan (id, b1))).
      { apply inside_covers, cover_inside. apply in_map_iff. exists (id, b1). split; [reflexivity|exact Hin]. }
      apply Hcov in Hov. congruence.
Qed.

(* ---------- everything ---------- *)
Definition query_ok (q : query) : Prop :=
  match q with QValues _ _ _ => x_bigwig X = true | _ => True end.

Theorem reads_emit : read_info bs = Ok inf /\ forall q, query_ok q -> read_answer infl bs inf q = spec_answer X q.
Proof.
  split; [exact (read_info_emit cmp L X Hwf)|]. intros q Hq. destruct q as [| |c s e|c s e|c s e lvl]; cbn [read_answer spec_answer].
  - reflexivity.
  - now rewrite read_summary_emit.
  - change (h_bigwig (i_hdr inf)) with (x_bigwig X). destruct (x_bigwig X) eqn:Hb.
    + now rewrite (bw_interval_emit c s e Hb).
    + now rewrite (bb_interval_emit c s e Hb).
  - cbn [query_ok] in Hq. now rewrite (bw_values_emit c s e Hq).
  - change (h_bigwig (i_hdr inf)) with (x_bigwig X). destruct (x_bigwig X); [rewrite zoom_interval_emit|rewrite bb_zoom_interval_emit]; reflexivity.
Qed.
End EmitQuery.
