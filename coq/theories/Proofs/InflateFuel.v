(* Spec/Inflate.v: the decoder never runs out of fuel.  Every step of the block loop consumes at least one
   bit of the input, so the 8 |input| + 1 steps [inflate] allows are never exhausted; the inner loop that
   reads the code lengths of a dynamic block produces at least one length per round. *)
From BT Require Import Base.Util Base.LE Spec.Inflate.
Local Open Scope N_scope.

(* ---------- results that are a value or an error ---------- *)
Definition settled {X} (r : res X) : Prop := match r with Ok _ | Err _ => True | _ => False end.

Lemma rbind_ok {X Y} (r : res X) (f : X -> res Y) y : rbind r f = Ok y -> exists x, r = Ok x /\ f x = Ok y.
Proof. destruct r; cbn; try discriminate. intros H. eauto. Qed.
Lemma rbind_settled {X Y} (r : res X) (f : X -> res Y) :
  settled r -> (forall x, r = Ok x -> settled (f x)) -> settled (rbind r f).
Proof. destruct r; cbn; auto. Qed.

(* ---------- the measure: bits not yet consumed ---------- *)
Definition blen (s : bstream) : nat := (length (fst s) + 8 * length (snd s))%nat.

Lemma get_bit_len s b s1 : get_bit s = Ok (b, s1) -> blen s = S (blen s1).
Proof.
  destruct s as [[|x r] [|y rest]]; cbn [get_bit]; intros H; inversion H; subst; unfold blen; cbn [fst snd length]; lia.
Qed.
Lemma get_bit_settled s : settled (get_bit s).
Proof. destruct s as [[|x r] [|y rest]]; exact I. Qed.

Lemma get_bits_len n : forall s v s1, get_bits n s = Ok (v, s1) -> blen s = (n + blen s1)%nat.
Proof.
  induction n as [|n IH]; intros s v s1 H; cbn [get_bits] in H.
  - inversion H; subst. reflexivity.
  - apply rbind_ok in H as ([b t] & H1 & H). apply rbind_ok in H as ([w t2] & H2 & H). inversion H; subst.
    apply get_bit_len in H1. apply IH in H2. lia.
Qed.
Lemma get_bits_settled n : forall s, settled (get_bits n s).
Proof.
  induction n as [|n IH]; intros s; cbn [get_bits]; [exact I|].
  apply rbind_settled; [apply get_bit_settled|]. intros [b t] _. apply rbind_settled; [apply IH|]. intros [w t2] _. exact I.
Qed.

Lemma get_many_len n w : forall s vs s1, get_many n w s = Ok (vs, s1) -> (blen s1 <= blen s)%nat.
Proof.
  induction n as [|n IH]; intros s vs s1 H; cbn [get_many] in H.
  - inversion H; subst. lia.
  - apply rbind_ok in H as ([v t] & H1 & H). apply rbind_ok in H as ([u t2] & H2 & H). inversion H; subst.
    apply get_bits_len in H1. apply IH in H2. lia.
Qed.
Lemma get_many_settled n w : forall s, settled (get_many n w s).
Proof.
  induction n as [|n IH]; intros s; cbn [get_many]; [exact I|].
  apply rbind_settled; [apply get_bits_settled|]. intros [v t] _. apply rbind_settled; [apply IH|]. intros [u t2] _. exact I.
Qed.

Lemma hwalk_len t : forall s sym s1, hwalk t s = Ok (sym, s1) -> (blen s1 <= blen s)%nat.
Proof.
  induction t as [|x|z IHz o IHo]; intros s sym s1 H; cbn [hwalk] in H.
  - discriminate.
  - inversion H; subst. lia.
  - apply rbind_ok in H as ([b t] & H1 & H). apply get_bit_len in H1.
    destruct b; [apply IHo in H|apply IHz in H]; lia.
Qed.
Lemma hwalk_settled t : forall s, settled (hwalk t s).
Proof.
  induction t as [|x|z IHz o IHo]; intros s; cbn [hwalk]; try exact I.
  apply rbind_settled; [apply get_bit_settled|]. intros [b t] _. destruct b; auto.
Qed.
Lemma decode_sym_len t s sym s1 : decode_sym t s = Ok (sym, s1) -> (blen s1 < blen s)%nat.
Proof.
  destruct t as [|x|z o]; cbn [decode_sym]; try discriminate. cbn [hwalk]. intros H.
  apply rbind_ok in H as ([b t] & H1 & H). apply get_bit_len in H1. apply hwalk_len in H. lia.
Qed.
Lemma decode_sym_settled t s : settled (decode_sym t s).
Proof. destruct t; try exact I. apply hwalk_settled. Qed.

Lemma base_extra_len tbl bad i s v s1 : base_extra tbl bad i s = Ok (v, s1) -> (blen s1 <= blen s)%nat.
Proof.
  unfold base_extra. destruct (nth_error tbl (N.to_nat i)) as [[base extra]|]; [|discriminate]. intros H.
  apply rbind_ok in H as ([w t] & H1 & H). inversion H; subst. apply get_bits_len in H1. lia.
Qed.
Lemma base_extra_settled tbl bad i s : settled (base_extra tbl bad i s).
Proof.
  unfold base_extra. destruct (nth_error tbl (N.to_nat i)) as [[base extra]|]; [|exact I].
  apply rbind_settled; [apply get_bits_settled|]. intros [w t] _. exact I.
Qed.

Lemma build_settled kind bad lens : settled (build kind bad lens).
Proof.
  unfold build. destruct (fold_left N.max lens 0 =? 0); [destruct kind; exact I|].
  destruct (kraft_left all_lengths lens 1) as [lft|]; [|exact I].
  destruct ((0 <? lft) && _); [exact I|]. destruct (assign lens 0 _ HEmpty); exact I.
Qed.

(* ---------- the code length loop ---------- *)
Lemma read_lens_len fuel clt total : forall have acc s lens s1,
  read_lens fuel clt total have acc s = Ok (lens, s1) -> (blen s1 <= blen s)%nat.
Proof.
  induction fuel as [|f IH]; intros have acc s lens s1 H; cbn [read_lens] in H.
  - destruct (have =? total); [|discriminate]. inversion H; subst. lia.
  - destruct (have =? total); [inversion H; subst; lia|].
    apply rbind_ok in H as ([sym t] & H1 & H). apply decode_sym_len in H1.
    destruct (sym <? 16); [apply IH in H; lia|].
    destruct (sym =? 16).
    + destruct acc as [|prev acc']; [discriminate|].
      apply rbind_ok in H as ([r t2] & H2 & H). apply get_bits_len in H2.
      destruct (total <? have + (3 + r)); [discriminate|]. apply IH in H. lia.
    + apply rbind_ok in H as ([r t2] & H2 & H).
      assert (blen t2 <= blen t)%nat by (destruct (sym =? 17); apply get_bits_len in H2; lia).
      destruct (total <? have + _); [discriminate|]. apply IH in H. lia.
Qed.

Lemma read_lens_settled fuel clt total : forall have acc s,
  have <= total -> (N.to_nat total - N.to_nat have <= fuel)%nat -> settled (read_lens fuel clt total have acc s).
Proof.
  induction fuel as [|f IH]; intros have acc s Hle Hf; cbn [read_lens].
  - destruct (N.eqb_spec have total); [exact I|]. exfalso. lia.
  - destruct (N.eqb_spec have total); [exact I|].
    apply rbind_settled; [apply decode_sym_settled|]. intros [sym t] _.
    destruct (sym <? 16); [apply IH; lia|].
    destruct (sym =? 16).
    + destruct acc as [|prev acc']; [exact I|].
      apply rbind_settled; [apply get_bits_settled|]. intros [r t2] _.
      destruct (N.ltb_spec total (have + (3 + r))); [exact I|]. apply IH; lia.
    + apply rbind_settled; [destruct (sym =? 17); apply get_bits_settled|]. intros [r t2] _.
      destruct (N.ltb_spec total (have + ((if sym =? 17 then 3 else 11) + r))); [exact I|].
      apply IH; [lia|]. destruct (sym =? 17); lia.
Qed.

Lemma dynamic_tables_len s lit dist s1 : dynamic_tables s = Ok (lit, dist, s1) -> (blen s1 <= blen s)%nat.
Proof.
  unfold dynamic_tables. intros H.
  apply rbind_ok in H as ([hlit t1] & H1 & H). apply get_bits_len in H1.
  apply rbind_ok in H as ([hdist t2] & H2 & H). apply get_bits_len in H2.
  apply rbind_ok in H as ([hclen t3] & H3 & H). apply get_bits_len in H3.
  destruct (_ || _); [discriminate|].
  apply rbind_ok in H as ([cls t4] & H4 & H). apply get_many_len in H4.
  apply rbind_ok in H as (clt & _ & H).
  apply rbind_ok in H as ([lens t5] & H5 & H). apply read_lens_len in H5.
  destruct (nth 256 _ 0 =? 0); [discriminate|].
  apply rbind_ok in H as (lt & _ & H). apply rbind_ok in H as (dt & _ & H). inversion H; subst. lia.
Qed.
Lemma dynamic_tables_settled s : settled (dynamic_tables s).
Proof.
  unfold dynamic_tables.
  apply rbind_settled; [apply get_bits_settled|]. intros [hlit t1] _.
  apply rbind_settled; [apply get_bits_settled|]. intros [hdist t2] _.
  apply rbind_settled; [apply get_bits_settled|]. intros [hclen t3] _.
  destruct (_ || _); [exact I|].
  apply rbind_settled; [apply get_many_settled|]. intros [cls t4] _.
  apply rbind_settled; [apply build_settled|]. intros clt _.
  apply rbind_settled; [apply read_lens_settled; lia|]. intros [lens t5] _.
  destruct (nth 256 _ 0 =? 0); [exact I|].
  apply rbind_settled; [apply build_settled|]. intros lt _.
  apply rbind_settled; [apply build_settled|]. intros dt _. exact I.
Qed.

(* ---------- stored blocks ---------- *)
Lemma take_rev_length n : forall l acc out rest, take_rev n l acc = Some (out, rest) -> (length rest <= length l)%nat.
Proof.
  induction n as [|n IH]; intros l acc out rest H; cbn [take_rev] in H.
  - inversion H; subst. lia.
  - destruct l as [|x r]; [discriminate|]. apply IH in H. cbn [length]. lia.
Qed.
Lemma stored_len s out n out1 n1 s1 : stored s out n = Ok (out1, n1, s1) -> (blen s1 <= blen s)%nat.
Proof.
  unfold stored, aligned. destruct s as [bits rest]. cbn [snd].
  destruct rest as [|l0 [|l1 [|n0 [|n1' rest]]]]; try discriminate.
  destruct (negb _); [discriminate|].
  destruct (take_rev _ rest out) as [[o r]|] eqn:E; [|discriminate]. intros H. inversion H; subst.
  apply take_rev_length in E. unfold blen. cbn [fst snd length]. lia.
Qed.
Lemma stored_settled s out n : settled (stored s out n).
Proof.
  unfold stored. destruct (aligned s) as [|l0 [|l1 [|n0 [|n1' rest]]]]; try exact I.
  destruct (negb _); [exact I|]. destruct (take_rev _ rest out) as [[o r]|]; exact I.
Qed.

(* ---------- one step ---------- *)
Definition next_bits (r : res (istate + ifinal)) : nat :=
  match r with Ok (inl s) => blen (i_bs s) | _ => O end.
Lemma step_len st st1 : step st = Ok (inl st1) -> (blen (i_bs st1) < blen (i_bs st))%nat.
Proof.
  intros H. change (blen (i_bs st1)) with (next_bits (Ok (inl st1))). revert H.
  unfold step. destruct (i_mode st) as [|fin lit dist]; intros H.
  - apply rbind_ok in H as ([fin t1] & H1 & H). apply get_bit_len in H1.
    apply rbind_ok in H as ([ty t2] & H2 & H). apply get_bits_len in H2.
    destruct (ty =? 0).
    { apply rbind_ok in H as ([[o k] t3] & H3 & H). apply stored_len in H3.
      destruct fin; [discriminate|]. rewrite <- H. cbn [next_bits i_bs]. lia. }
    destruct (ty =? 1); [rewrite <- H; cbn [next_bits i_bs]; lia|].
    destruct (ty =? 2); [|discriminate].
    apply rbind_ok in H as ([[lt dt] t3] & H3 & H). apply dynamic_tables_len in H3.
    rewrite <- H; cbn [next_bits i_bs]; lia.
  - apply rbind_ok in H as ([sym t1] & H1 & H). apply decode_sym_len in H1.
    destruct (sym <? 256); [rewrite <- H; cbn [next_bits i_bs]; lia|].
    destruct (sym =? 256); [destruct fin; [discriminate|]; rewrite <- H; cbn [next_bits i_bs]; lia|].
    apply rbind_ok in H as ([len t2] & H2 & H). apply base_extra_len in H2.
    apply rbind_ok in H as ([dsym t3] & H3 & H). apply decode_sym_len in H3.
    apply rbind_ok in H as ([d t4] & H4 & H). apply base_extra_len in H4.
    destruct (i_n st <? d); [discriminate|]. rewrite <- H; cbn [next_bits i_bs]; lia.
Qed.

Lemma step_settled st : settled (step st).
Proof.
  unfold step. destruct (i_mode st) as [|fin lit dist].
  - apply rbind_settled; [apply get_bit_settled|]. intros [fin t1] _.
    apply rbind_settled; [apply get_bits_settled|]. intros [ty t2] _.
    destruct (ty =? 0).
    { apply rbind_settled; [apply stored_settled|]. intros [[o k] t3] _. destruct fin; exact I. }
    destruct (ty =? 1); [exact I|]. destruct (ty =? 2); [|exact I].
    apply rbind_settled; [apply dynamic_tables_settled|]. intros [[lt dt] t3] _. exact I.
  - apply rbind_settled; [apply decode_sym_settled|]. intros [sym t1] _.
    destruct (sym <? 256); [exact I|]. destruct (sym =? 256); [destruct fin; exact I|].
    apply rbind_settled; [apply base_extra_settled|]. intros [len t2] _.
    apply rbind_settled; [apply decode_sym_settled|]. intros [dsym t3] _.
    apply rbind_settled; [apply base_extra_settled|]. intros [d t4] _.
    destruct (i_n st <? d); exact I.
Qed.

(* ---------- the loop: binary fuel = unary fuel ---------- *)
Fixpoint itern (n : nat) (st : istate) : res (istate + ifinal) :=
  match n with
  | O => Ok (inl st)
  | S k => match step st with Ok (inl st1) => itern k st1 | r => r end
  end.

Lemma itern_add a : forall b st,
  itern (a + b) st = match itern a st with Ok (inl st1) => itern b st1 | r => r end.
Proof.
  induction a as [|a IH]; intros b st; cbn [itern Nat.add]; [reflexivity|].
  destruct (step st) as [[st1|f]| | |]; try reflexivity. apply IH.
Qed.
Lemma itern_one st : itern 1 st = step st.
Proof. cbn [itern]. destruct (step st) as [[st1|f]| | |]; reflexivity. Qed.

Lemma iter_itern p : forall st, iter p st = itern (Pos.to_nat p) st.
Proof.
  induction p as [q IH|q IH|]; intros st; cbn [iter].
  - rewrite Pos2Nat.inj_xI. change (S (2 * Pos.to_nat q)) with (1 + (2 * Pos.to_nat q))%nat.
    rewrite itern_add, itern_one. destruct (step st) as [[st1|f]| | |]; try reflexivity.
    replace (2 * Pos.to_nat q)%nat with (Pos.to_nat q + Pos.to_nat q)%nat by lia.
    rewrite itern_add, <- IH. destruct (iter q st1) as [[st2|f]| | |]; try reflexivity. apply IH.
  - rewrite Pos2Nat.inj_xO. replace (2 * Pos.to_nat q)%nat with (Pos.to_nat q + Pos.to_nat q)%nat by lia.
    rewrite itern_add, <- IH. destruct (iter q st) as [[st2|f]| | |]; try reflexivity. apply IH.
  - symmetry. apply itern_one.
Qed.

Lemma itern_settled n : forall st, settled (itern n st).
Proof.
  induction n as [|n IH]; intros st; cbn [itern]; [exact I|].
  pose proof (step_settled st) as H. destruct (step st) as [[st1|f]| | |]; auto.
Qed.
Lemma itern_len n : forall st st1, itern n st = Ok (inl st1) -> (n + blen (i_bs st1) <= blen (i_bs st))%nat.
Proof.
  induction n as [|n IH]; intros st st1 H; cbn [itern] in H.
  - inversion H; subst. lia.
  - destruct (step st) as [[st2|f]| | |] eqn:E; try discriminate.
    apply step_len in E. apply IH in H. lia.
Qed.

Lemma lenN_length {X} (l : list X) : lenN l = N.of_nat (length l).
Proof.
  unfold lenN. assert (G : forall (l : list X) n, fold_left (fun n _ => N.succ n) l n = n + N.of_nat (length l)).
  { clear l. induction l as [|x r IH]; intros n; cbn [fold_left length]; [lia|]. rewrite IH. lia. }
  rewrite G. lia.
Qed.

(* the loop of [inflate] always ends in a verdict *)
Lemma inflate_loop_ends input :
  match iter (N.succ_pos (8 * lenN input)) {| i_mode := MHeader; i_bs := ([], input); i_out := []; i_n := 0 |} with
  | Ok (inr _) | Err _ => True
  | _ => False
  end.
Proof.
  rewrite iter_itern. set (st := {| i_mode := MHeader; i_bs := ([], input); i_out := []; i_n := 0 |}).
  set (n := Pos.to_nat (N.succ_pos (8 * lenN input))).
  pose proof (itern_settled n st) as Hs.
  destruct (itern n st) as [[st1|f]| | |] eqn:E; auto.
  apply itern_len in E. subst n st. cbn [i_bs] in E. unfold blen in E at 2. cbn [fst snd length] in E.
  rewrite lenN_length in E.
  assert (Pos.to_nat (N.succ_pos (8 * N.of_nat (length input))) = S (8 * length input)) as E2.
  { change (Pos.to_nat (N.succ_pos ?x)) with (N.to_nat (N.pos (N.succ_pos x))). rewrite N.succ_pos_spec. lia. }
  rewrite E2 in E. lia.
Qed.

Theorem inflate_settled input : settled (inflate input).
Proof.
  unfold inflate. pose proof (inflate_loop_ends input) as H.
  destruct (iter _ _) as [[st1|[out s]]| | |]; try contradiction; exact I.
Qed.

Theorem zlib_decode_res_settled input : settled (zlib_decode_res input).
Proof.
  unfold zlib_decode_res. destruct input as [|cmf [|flg rest]]; try exact I.
  destruct (negb _); [exact I|]. destruct (negb _); [exact I|]. destruct (7 <? _); [exact I|].
  destruct (N.testbit flg 5); [exact I|].
  apply rbind_settled; [apply inflate_settled|]. intros [data s] _.
  destruct (aligned s) as [|a3 [|a2 [|a1 [|a0 tl]]]]; try exact I.
  destruct (negb _); [exact I|]. destruct tl; exact I.
Qed.
