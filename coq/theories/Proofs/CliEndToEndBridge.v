(* C16: the byte-level converters of Model/CliFile.v agree with the list-level converters of Model/CliText.v.
   The list-level pipeline (bedgraph_to_bigwig / bigwig_to_bedgraph, bed_to_bigbed / bigbed_to_bed: accept, then per
   chromosome the index-selected blocks of items_per_slot records) is the model that bin/check C16 compares with the BUILT
   BINARIES on every run.  Here: whenever the list-level writer accepts a text, the byte-level writer returns a file, and
   for every --chrom/--start/--end the byte-level reader on that file returns exactly what the list-level reader returns,
   for every block size of the list-level model.  So the differential evidence for the list-level model is evidence for the
   composition through the file bytes as well. *)
From BT Require Import Base.Util Base.LE Base.Float Generated.Consts Model.RTree Model.BBIFile Model.BigWigWrite Model.BBIRead
  Model.AutoSql Model.BigBedWrite Model.BBIReadBed Model.CliText Model.CliFile.
From BT Require Import Proofs.RTreeCodec Proofs.BigWigFile Proofs.BigWigQuery Proofs.BigWigFileChroms Proofs.BigWigFileRoundTrip
  Proofs.BigWigFileThms Proofs.BigWigFileInput.
From BT Require Import Proofs.CliTextRoundtrip Proofs.CliQuery Proofs.CliPipeline Proofs.CliEndToEnd.
From BT Require Import Proofs.AcceptRules.
From BT Require Model.Accept Proofs.WriterTotal.
Local Open Scope N_scope.

(* ------------------------------------------------------------------ what accept_runs returns *)
Lemma accept_runs_names {X} (check : N -> list X -> res unit) sizes : forall rs prev file,
  accept_runs check sizes prev rs = Ok file ->
  map (fun w : wchrom X => (wc_name w, wc_items w)) file = rs
  /\ Forall (fun w : wchrom X => lookup (wc_name w) sizes = Some (wc_len w)) file.
Proof.
  induction rs as [|[c items] rest IH]; intros prev file H.
  - cbn in H. injection H as <-. split; [reflexivity|constructor].
  - cbn [accept_runs] in H. destruct (negb _); [discriminate|]. destruct (lookup c sizes) as [len|] eqn:El; [|discriminate].
    destruct (check len items) as [[]| | |]; try discriminate. cbn [rbind] in H.
    destruct (accept_runs check sizes (Some c) rest) as [outs| | |] eqn:Er; try discriminate. cbn [rbind] in H.
    injection H as <-. destruct (IH _ _ Er) as [H1 H2]. split.
    + cbn [map wc_name wc_items]. now rewrite H1.
    + constructor; [exact El|exact H2].
Qed.

Lemma name_cmp_irrefl a : name_cmp a a <> Lt.
Proof. rewrite (proj2 (BigWigFileChroms.name_cmp_eq a a) eq_refl). discriminate. Qed.

(* ------------------------------------------------------------------ bigWig: accept => the byte-level writer returns a file *)
Lemma accept_runs_verdict o sizes : forall rs prev seen file,
  accept_runs check_chrom sizes prev rs = Ok file ->
  (forall q, In q seen -> exists p, prev = Some p /\ (q = p \/ name_cmp q p = Lt)) ->
  runs_verdict o sizes prev seen rs = Ok tt.
Proof.
  induction rs as [|[c vals] rest IH]; intros prev seen file H Hseen; [reflexivity|].
  cbn [accept_runs] in H. cbn [runs_verdict].
  destruct (negb match prev with Some p => match name_cmp p c with Lt => true | _ => false end | None => true end) eqn:Eo;
    [discriminate|].
  apply negb_false_iff in Eo.
  assert (Eo' : negb match prev with
                     | Some p => if o_sort_all o then match name_cmp p c with Lt => true | _ => false end else true
                     | None => true end = false).
  { destruct prev as [p|]; [|reflexivity]. destruct (o_sort_all o); [|reflexivity]. now rewrite Eo. }
  rewrite Eo'. destruct (lookup c sizes) as [len|]; [|discriminate].
  assert (Hlt : forall q, In q seen -> name_cmp q c = Lt).
  { intros q Hq. destruct (Hseen q Hq) as (p & -> & Hp).
    assert (Hpc : name_cmp p c = Lt) by (destruct (name_cmp p c); try discriminate Eo; reflexivity).
    destruct Hp as [->|Hp]; [exact Hpc|exact (name_cmp_trans_lt _ _ _ Hp Hpc)]. }
  assert (Es : Accept.seen_b c seen = false).
  { unfold Accept.seen_b. destruct (existsb (name_eqb c) seen) eqn:E; [|reflexivity].
    apply existsb_exists in E as [q [Hq Hn]]. apply BigWigFileChroms.name_eqb_eq in Hn. subst q.
    exfalso. exact (name_cmp_irrefl c (Hlt c Hq)). }
  rewrite Es. destruct (check_chrom len vals) as [[]| | |]; try discriminate. cbn [rbind] in *.
  destruct (accept_runs check_chrom sizes (Some c) rest) as [outs| | |] eqn:Er; try discriminate.
  apply (IH (Some c) (seen ++ [c]) outs Er). intros q Hq. exists c. split; [reflexivity|].
  apply in_app_or in Hq as [Hq|[<-|[]]]; [right; exact (Hlt q Hq)|now left].
Qed.

Lemma accept_writes fp o sizes (items : list item) file (two_pass : bool) :
  Accept.opts_ok o = true -> accept check_chrom sizes items = Ok file ->
  exists bs, (if two_pass then bw_write_multipass fp o sizes items else bw_write fp o sizes items) = Ok bs.
Proof.
  intros Ho Ha.
  assert (Hips : 0 < o_ips o) by (apply WriterTotal.opts_ok_spec in Ho; lia).
  assert (Hc : verdict (bw_collect fp o sizes items) = Ok tt).
  { unfold accept in Ha. destruct items as [|i0 rest]; [discriminate|].
    pose proof (accept_runs_verdict o sizes _ None [] file Ha ltac:(intros q [])) as Hv.
    change (runs_g (i0 :: rest)) with (runs (i0 :: rest)) in Hv.
    unfold bw_collect. pose proof (process_runs_verdict o sizes (runs (i0 :: rest)) None []) as Hp. cbn [map] in Hp.
    rewrite Hv in Hp.
    destruct (process_runs o sizes None [] (runs (i0 :: rest))) as [[ids outs]| | |]; try discriminate Hp. cbn [rbind].
    destruct (concat_res_ok (map (fun c0 => data_sections (o_ips o) (co_id c0) (co_vals c0)) outs)) as [data Hd].
    { rewrite Forall_map. apply Forall_forall. intros x _. now apply data_sections_ok. }
    rewrite Hd. reflexivity. }
  destruct two_pass.
  - pose proof (WriterTotal.bw_write_multipass_verdict fp o sizes items Ho) as H. rewrite Hc in H.
    destruct (bw_write_multipass fp o sizes items) as [f| | |]; try discriminate H. eauto.
  - pose proof (WriterTotal.bw_write_verdict fp o sizes items Ho) as H. rewrite Hc in H.
    destruct (bw_write fp o sizes items) as [f| | |]; try discriminate H. eauto.
Qed.

(* ------------------------------------------------------------------ bigWig: the two readers agree *)
Section BigWigBridge.
Variables (fp : fpmode) (o : opts) (sizes : list (name * N)) (items : list item) (bs : list N) (file : list (wchrom value)).
Hypothesis Ho : BigWigFileRoundTrip.opts_ok o.
Hypothesis Hi : BigWigFileRoundTrip.input_ok sizes items.
Hypothesis Hs : Nlen bs < U64.
Hypothesis Hw : bw_write fp o sizes items = Ok bs \/ bw_write_multipass fp o sizes items = Ok bs.
Hypothesis Ha : accept check_chrom sizes items = Ok file.
Variable ips : nat.
Hypothesis Hips : (0 < ips)%nat.

Let file_runs : map (fun w : wchrom value => (wc_name w, wc_items w)) file = runs items
              /\ Forall (fun w : wchrom value => lookup (wc_name w) sizes = Some (wc_len w)) file.
Proof. unfold accept in Ha. destruct items as [|i0 r]; [discriminate|]. exact (accept_runs_names check_chrom sizes _ None file Ha). Qed.

Let file_sorted : sort_by_name file = file.
Proof.
  unfold accept in Ha. destruct items as [|i0 r]; [discriminate|].
  destruct (accept_runs_shape check_chrom sizes _ _ _ Ha) as [_ Hasc]. exact (sort_ascending file None Hasc).
Qed.

Let file_checked : forall w, In w file -> check_chrom (wc_len w) (wc_items w) = Ok tt.
Proof. intros w Hin. pose proof (accept_checked check_chrom sizes items file Ha) as H. rewrite Forall_forall in H. now apply H. Qed.

Lemma bridge_all infl :
  bigwigtobedgraph_records infl bs None None None = Ok (bigwig_to_bedgraph ips file None None None).
Proof.
  rewrite (bw_file_read_all fp o sizes items bs Ho Hi Hs Hw infl). f_equal.
  unfold bigwig_to_bedgraph, tool_read. rewrite file_sorted.
  destruct file_runs as [Hr Hl]. rewrite <- (runs_flat items) at 1. rewrite <- Hr.
  rewrite filter_flat_map, flat_map_concat_map, map_map, <- flat_map_concat_map.
  apply flat_map_ext_in. intros w Hin. cbn [fst snd].
  rewrite (bw_query_is_clip_filter ips (wc_len w) _ _ _ Hips (file_checked w Hin)).
  rewrite (full_span_read (wc_len w) (wc_items w) (check_chrom_wf _ _ (file_checked w Hin))).
  rewrite filter_map_comm. f_equal. apply filter_ext. intros v. unfold bzero. cbn [fst snd].
  rewrite Forall_forall in Hl. unfold len_of. now rewrite (Hl w Hin).
Qed.

Lemma bridge_chrom infl c st en :
  bigwigtobedgraph_records infl bs (Some c) st en = Ok (bigwig_to_bedgraph ips file (Some c) st en).
Proof.
  destruct file_runs as [Hr Hl]. rewrite Forall_forall in Hl.
  pose proof (write_grouped fp o sizes items bs Hw) as Hnd.
  unfold bigwig_to_bedgraph, tool_read. rewrite file_sorted.
  destruct (find (fun w => name_eqb (wc_name w) c) file) as [w|] eqn:Ef.
  - apply find_some in Ef as [Hin Hn]. apply BigWigFileChroms.name_eqb_eq in Hn.
    assert (Hrun : In (c, wc_items w) (runs items)).
    { rewrite <- Hr, <- Hn. apply in_map_iff. exists w. split; [reflexivity|exact Hin]. }
    pose proof (run_name_in_input items c _ Hrun) as Hc.
    destruct (bw_file_read_chrom fp o sizes items bs Ho Hi Hs Hw infl c st en Hc) as (len & i & Hlen & _ & Hq). cbv zeta in Hq.
    destruct Hq as [_ Hq]. rewrite Hq. f_equal.
    rewrite (bw_query_is_clip_filter ips (wc_len w) _ _ _ Hips (file_checked w Hin)).
    rewrite <- (run_values items c (wc_items w) Hnd Hrun).
    pose proof (Hl w Hin) as Hlw. rewrite Hn, Hlen in Hlw. injection Hlw as <-. rewrite Hn. reflexivity.
  - apply (bw_file_read_absent fp o sizes items bs Ho Hi Hs Hw infl c st en). intros Hc.
    pose proof (chrom_has_run items c Hnd Hc) as Hrun. rewrite <- Hr in Hrun.
    apply in_map_iff in Hrun as [w [E Hin]]. injection E as En _.
    pose proof (find_none _ _ Ef w Hin) as Hf. cbv beta in Hf. rewrite En, name_eqb_refl in Hf. discriminate.
Qed.

Theorem bw_bridge infl chrom st en :
  bigwigtobedgraph_records infl bs chrom st en = Ok (bigwig_to_bedgraph ips file chrom st en).
Proof.
  destruct chrom as [c|]; [apply bridge_chrom|].
  destruct st as [s|]; [|destruct en as [e|]; [|apply bridge_all]];
    rewrite (bw_file_read_no_chrom fp o sizes items bs Ho Hi Hs Hw infl) by (first [left; discriminate|right; discriminate]);
    reflexivity.
Qed.
End BigWigBridge.

(* C16_file_matches_list_model_bigwig *)
Theorem file_matches_list_model_bigwig pf fp o two_pass cs_text in_text sizes items file :
  parse_chrom_sizes cs_text = Ok sizes -> mapM (parse_bedgraph pf) (lines in_text) = Ok items ->
  BigWigFileRoundTrip.opts_ok o -> BigWigFileRoundTrip.input_ok sizes items ->
  bedgraph_to_bigwig pf cs_text in_text = Ok file ->
  exists bs, bedgraphtobigwig_file pf fp o two_pass cs_text in_text = Ok bs /\
    (Nlen bs < U64 -> forall infl ips chrom st en, (0 < ips)%nat ->
       bigwigtobedgraph_records infl bs chrom st en = Ok (bigwig_to_bedgraph ips file chrom st en)).
Proof.
  intros Hcs Hin Ho Hi Hl. unfold bedgraph_to_bigwig in Hl. rewrite Hcs, Hin in Hl. cbn [rbind] in Hl.
  destruct (accept_writes fp o sizes items file two_pass (opts_ok_bool o Ho) Hl) as [bs Hw].
  exists bs. split; [rewrite (bedgraphtobigwig_file_writer pf fp o two_pass _ _ sizes items Hcs Hin); exact Hw|].
  intros Hs infl ips chrom st en Hips. apply either_writer in Hw.
  exact (bw_bridge fp o sizes items bs file Ho Hi Hs Hw Hl ips Hips infl chrom st en).
Qed.

(* ================================================================== bigBed *)
From BT Require Model.AcceptBed Proofs.WriterTotalBed Proofs.BedQuery Proofs.BedEndToEnd Proofs.BedZoomFit.
Import Proofs.BedZoomFit.

Definition to_run (r : name * list bed_entry) : name * list entry := (fst r, map to_entry (snd r)).

Lemma bruns_aux_to : forall (l : list (name * bed_entry)) cur acc,
  bruns_aux cur (map to_entry acc) (to_bitems l) = map to_run (runs_aux_g cur acc l).
Proof.
  induction l as [|[c v] r IH]; intros cur acc.
  - cbn [to_bitems map bruns_aux runs_aux_g]. unfold to_run. cbn [fst snd]. now rewrite map_rev.
  - unfold to_bitems. cbn [map fst snd bruns_aux runs_aux_g]. fold (to_bitems r). destruct (name_eqb c cur).
    + exact (IH cur (v :: acc)).
    + cbn [map]. unfold to_run at 1. cbn [fst snd]. rewrite map_rev. f_equal. exact (IH c [v]).
Qed.
Lemma bruns_to (l : list (name * bed_entry)) : bruns (to_bitems l) = map to_run (runs_g l).
Proof. destruct l as [|[c v] r]; [reflexivity|]. unfold to_bitems. cbn [map fst snd bruns runs_g]. exact (bruns_aux_to r c [v]). Qed.

Lemma check_entries_to len : forall es, bb_check_chrom len es = Ok tt -> check_entries len (map to_entry es) = Ok tt.
Proof.
  induction es as [|x r IH]; intros H; [reflexivity|]. cbn [bb_check_chrom] in H. cbn [map check_entries].
  unfold bb_check_val in H. unfold check_entry. cbn [to_entry e_start e_end].
  destruct (be_end x <? be_start x); [discriminate|]. destruct (len <=? be_start x); [discriminate|].
  destruct r as [|y r']; cbn [hd_error map] in *.
  - reflexivity.
  - cbn [to_entry e_start]. destruct (be_start y <? be_start x); [discriminate|]. cbn [rbind] in *. exact (IH H).
Qed.

Lemma accept_bruns_verdict o sizes : forall rs prev seen file,
  accept_runs bb_check_chrom sizes prev rs = Ok file ->
  (forall q, In q seen -> exists p, prev = Some p /\ (q = p \/ name_cmp q p = Lt)) ->
  WriterTotalBed.bruns_verdict o sizes prev seen (map to_run rs) = Ok tt.
Proof.
  induction rs as [|[c es] rest IH]; intros prev seen file H Hseen; [reflexivity|].
  cbn [accept_runs] in H. cbn [map]. unfold to_run at 1. cbn [fst snd WriterTotalBed.bruns_verdict].
  destruct (negb match prev with Some p => match name_cmp p c with Lt => true | _ => false end | None => true end) eqn:Eo;
    [discriminate|].
  apply negb_false_iff in Eo.
  assert (Eo' : negb match prev with
                     | Some p => if o_sort_all o then match name_cmp p c with Lt => true | _ => false end else true
                     | None => true end = false).
  { destruct prev as [p|]; [|reflexivity]. destruct (o_sort_all o); [|reflexivity]. now rewrite Eo. }
  rewrite Eo'. destruct (lookup c sizes) as [len|]; [|discriminate].
  assert (Hlt : forall q, In q seen -> name_cmp q c = Lt).
  { intros q Hq. destruct (Hseen q Hq) as (p & -> & Hp).
    assert (Hpc : name_cmp p c = Lt) by (destruct (name_cmp p c); try discriminate Eo; reflexivity).
    destruct Hp as [->|Hp]; [exact Hpc|exact (name_cmp_trans_lt _ _ _ Hp Hpc)]. }
  assert (Es : Accept.seen_b c seen = false).
  { unfold Accept.seen_b. destruct (existsb (name_eqb c) seen) eqn:E; [|reflexivity].
    apply existsb_exists in E as [q [Hq Hn]]. apply BigWigFileChroms.name_eqb_eq in Hn. subst q.
    exfalso. exact (name_cmp_irrefl c (Hlt c Hq)). }
  rewrite Es. destruct (bb_check_chrom len es) as [[]| | |] eqn:Ec; try discriminate. cbn [rbind] in H.
  rewrite (check_entries_to len es Ec). cbn [rbind].
  destruct (accept_runs bb_check_chrom sizes (Some c) rest) as [outs| | |] eqn:Er; try discriminate.
  apply (IH (Some c) (seen ++ [c]) outs Er). intros q Hq. exists c. split; [reflexivity|].
  apply in_app_or in Hq as [Hq|[<-|[]]]; [right; exact (Hlt q Hq)|now left].
Qed.

Lemma accept_writes_bed (two_pass : bool) (fp : fpmode) (o : opts) (sizes : list (name * N)) (asql : option (list N))
    (items : list (name * bed_entry)) file :
  Accept.opts_ok o = true -> AcceptBed.has_nul (AcceptBed.schema_text asql) = false ->
  accept bb_check_chrom sizes items = Ok file ->
  exists f, bb_write_either two_pass fp o sizes asql (to_bitems items) = Ok f.
Proof.
  intros Ho Hn Ha.
  assert (Hc : verdict (bb_collect o sizes (to_bitems items)) = Ok tt).
  { unfold accept in Ha. destruct items as [|i0 rest]; [discriminate|].
    pose proof (accept_bruns_verdict o sizes _ None [] file Ha ltac:(intros q [])) as Hv.
    rewrite <- bruns_to in Hv.
    unfold bb_collect. change (to_bitems (i0 :: rest)) with ((fst i0, to_entry (snd i0)) :: to_bitems rest) at 1.
    cbv iota. rewrite (WriterTotalBed.process_bruns_verdict o sizes (bruns (to_bitems (i0 :: rest))) None []). exact Hv. }
  assert (Hfront : AcceptBed.bb_front o asql (Ok tt) = Ok tt) by (unfold AcceptBed.bb_front; now rewrite Ho, Hn).
  unfold bb_write_either. destruct two_pass.
  - pose proof (WriterTotalBed.bb_write_multipass_verdict fp o sizes asql (to_bitems items)) as H. rewrite Hc, Hfront in H.
    destruct (bb_write_multipass fp o sizes asql (to_bitems items)) as [f| | |]; try discriminate H. eauto.
  - pose proof (WriterTotalBed.bb_write_verdict fp o sizes asql (to_bitems items)) as H. rewrite Hc, Hfront in H.
    destruct (bb_write fp o sizes asql (to_bitems items)) as [f| | |]; try discriminate H. eauto.
Qed.

Lemma bkeep_to s e x : bkeep s e (to_entry x) = bb_keep s e x.
Proof. reflexivity. Qed.

Lemma name_in_runs_g {X} (l : list (name * X)) c : In c (map fst l) -> In c (map fst (runs_g l)).
Proof.
  intros H. rewrite <- (runs_flatten l) in H. apply in_map_iff in H as [[c' v] [E Hin]]. cbn [fst] in E. subst c'.
  apply in_flat_map in Hin as [r [Hr Hv]]. apply in_map_iff in Hv as [v' [E _]]. injection E as E _.
  apply in_map_iff. exists r. split; [exact E|exact Hr].
Qed.

Section BigBedBridge.
Variables (two_pass : bool) (fp : fpmode) (o : opts) (sizes : list (name * N)) (asql : option (list N))
          (items : list (name * bed_entry)) (f : list N) (file : list (wchrom bed_entry)).
Hypothesis Hw : bb_write_either two_pass fp o sizes asql (to_bitems items) = Ok f.
Hypothesis Hh : BedEndToEnd.file_hyps o sizes (to_bitems items) f.
Hypothesis Ha : accept bb_check_chrom sizes items = Ok file.
Variable ips : nat.
Hypothesis Hips : (0 < ips)%nat.

Let file_runs : map (fun w : wchrom bed_entry => (wc_name w, wc_items w)) file = runs_g items
              /\ Forall (fun w : wchrom bed_entry => lookup (wc_name w) sizes = Some (wc_len w)) file.
Proof. unfold accept in Ha. destruct items as [|i0 r]; [discriminate|]. exact (accept_runs_names bb_check_chrom sizes _ None file Ha). Qed.

Let file_sorted : sort_by_name file = file.
Proof.
  unfold accept in Ha. destruct items as [|i0 r]; [discriminate|].
  destruct (accept_runs_shape bb_check_chrom sizes _ _ _ Ha) as [_ Hasc]. exact (sort_ascending file None Hasc).
Qed.

Let file_checked : forall w, In w file -> bb_check_chrom (wc_len w) (wc_items w) = Ok tt.
Proof. intros w Hin. pose proof (accept_checked bb_check_chrom sizes items file Ha) as H. rewrite Forall_forall in H. now apply H. Qed.

Lemma bb_bridge_all infl : bigbedtobed_records infl f None None None = Ok (bigbed_to_bed ips file None None None).
Proof.
  rewrite (bb_file_read_all two_pass fp o sizes asql (to_bitems items) f Hw Hh infl), of_to_bitems. f_equal. symmetry.
  unfold bigbed_to_bed. apply (accept_then_read_all bb_check_chrom sizes items file (bb_query ips) Ha).
  intros w Hin. rewrite (bb_query_is_overlap_filter ips (wc_len w) _ _ _ Hips (file_checked w Hin)).
  exact (bb_keep_all _ _ (file_checked w Hin)).
Qed.

Lemma bb_bridge_chrom infl c st en :
  bigbedtobed_records infl f (Some c) st en = Ok (bigbed_to_bed ips file (Some c) st en).
Proof.
  destruct file_runs as [Hr Hl]. rewrite Forall_forall in Hl.
  unfold bigbed_to_bed, tool_read. rewrite file_sorted.
  destruct (find (fun w => name_eqb (wc_name w) c) file) as [w|] eqn:Ef.
  - apply find_some in Ef as [Hin Hn]. apply BigWigFileChroms.name_eqb_eq in Hn.
    assert (Hrun : In (c, map to_entry (wc_items w)) (bruns (to_bitems items))).
    { rewrite bruns_to, <- Hr, map_map. apply in_map_iff. exists w. split; [|exact Hin]. unfold to_run. cbn [fst snd]. now rewrite Hn. }
    destruct (bb_file_read_chrom two_pass fp o sizes asql (to_bitems items) f Hw Hh infl c _ st en Hrun) as (len & i & Hlen & _ & Hq).
    cbv zeta in Hq. destruct Hq as [_ Hq]. rewrite Hq. f_equal.
    rewrite (bb_query_is_overlap_filter ips (wc_len w) _ _ _ Hips (file_checked w Hin)).
    pose proof (Hl w Hin) as Hlw. rewrite Hn, Hlen in Hlw. injection Hlw as <-. rewrite Hn.
    rewrite filter_map_comm, map_map. apply map_ext. intros x. now rewrite of_to_entry.
  - apply (bb_file_read_absent two_pass fp o sizes asql (to_bitems items) f Hw Hh infl c st en).
    unfold to_bitems. rewrite map_map. cbn [fst]. intros Hc.
    apply name_in_runs_g in Hc. rewrite <- Hr, map_map in Hc. cbn [fst] in Hc.
    apply in_map_iff in Hc as [w [En Hin]].
    pose proof (find_none _ _ Ef w Hin) as Hf. cbv beta in Hf. rewrite En, name_eqb_refl in Hf. discriminate.
Qed.

Theorem bb_bridge infl chrom st en : bigbedtobed_records infl f chrom st en = Ok (bigbed_to_bed ips file chrom st en).
Proof.
  destruct chrom as [c|]; [apply bb_bridge_chrom|].
  destruct st as [s|]; [|destruct en as [e|]; [|apply bb_bridge_all]];
    rewrite (bb_file_read_no_chrom two_pass fp o sizes asql (to_bitems items) f Hw Hh infl) by (first [left; discriminate|right; discriminate]);
    reflexivity.
Qed.
End BigBedBridge.

(* C16_file_matches_list_model_bigbed.  [bed_to_bigbed has_autosql]: the list-level converter only needs to know whether
   --autosql was given (it reads the first line otherwise) *)
Theorem file_matches_list_model_bigbed fp o two_pass user cs_text in_text sizes items file :
  parse_chrom_sizes cs_text = Ok sizes -> mapM parse_bed (lines in_text) = Ok items ->
  (forall s, user = Some s -> AcceptBed.has_nul s = false) -> Accept.opts_ok o = true ->
  bed_to_bigbed (match user with Some _ => true | None => false end) cs_text in_text = Ok file ->
  exists f, bedtobigbed_file fp o two_pass user cs_text in_text = Ok f /\
    (BedEndToEnd.file_hyps o sizes (to_bitems items) f -> forall infl ips chrom st en, (0 < ips)%nat ->
       bigbedtobed_records infl f chrom st en = Ok (bigbed_to_bed ips file chrom st en)).
Proof.
  intros Hcs Hin Hu Ho Hl.
  destruct (tool_autosql_total user in_text items Hin) as [asql Has].
  pose proof (tool_autosql_no_nul user in_text asql Has Hu) as Hnn.
  assert (Ha : accept bb_check_chrom sizes items = Ok file).
  { unfold bed_to_bigbed in Hl. rewrite Hcs in Hl. cbn [rbind] in Hl.
    destruct (if match user with Some _ => true | None => false end then Ok tt else _) as [[]| | |]; try discriminate Hl.
    cbn [rbind] in Hl. rewrite Hin in Hl. exact Hl. }
  destruct (accept_writes_bed two_pass fp o sizes asql items file Ho Hnn Ha) as [f Hw].
  exists f. split; [rewrite (bedtobigbed_file_writer fp o two_pass user _ _ sizes asql items Hcs Has Hin); exact Hw|].
  intros Hh infl ips chrom st en Hips.
  exact (bb_bridge two_pass fp o sizes asql items f file Hw Hh Ha ips Hips infl chrom st en).
Qed.
